import Got.Drv.Search

def main (args : List String) : IO UInt32 := do
  match args with
  | "search" :: rest => Got.Drv.Search.main rest; return 0
  | _ =>
    IO.eprintln "usage: driver <model> [args]   (models: search)"
    return 2
