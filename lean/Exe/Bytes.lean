import Got.Drv.Bytes

def main (args : List String) : IO Unit := Got.Drv.Bytes.main args
