import Got.Drv.Ants

def main (args : List String) : IO Unit := Got.Drv.Ants.main args
