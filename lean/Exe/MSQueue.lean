import Got.Drv.MSQueue

def main (args : List String) : IO Unit := Got.Drv.MSQueue.main args
