import Got.Drv.Atomics

def main (args : List String) : IO Unit := Got.Drv.Atomics.main args
