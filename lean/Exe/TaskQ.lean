import Got.Drv.TaskQ

def main (args : List String) : IO Unit := Got.Drv.TaskQ.main args
