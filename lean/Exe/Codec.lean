import Got.Drv.Codec

def main (args : List String) : IO Unit := Got.Drv.Codec.main args
