import Got.Drv.WaitClose

def main (args : List String) : IO Unit := Got.Drv.WaitClose.main args
