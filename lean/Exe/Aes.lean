import Got.Drv.Aes

def main (args : List String) : IO Unit := Got.Drv.Aes.main args
