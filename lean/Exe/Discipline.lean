import Got.Drv.Discipline

def main (args : List String) : IO Unit := Got.Drv.Discipline.main args
