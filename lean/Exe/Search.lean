import Got.Drv.Search

def main (args : List String) : IO Unit := Got.Drv.Search.main args
