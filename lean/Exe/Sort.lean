import Got.Drv.Sort

def main (args : List String) : IO Unit := Got.Drv.Sort.main args
