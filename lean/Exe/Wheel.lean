import Got.Drv.Wheel

def main (args : List String) : IO Unit := Got.Drv.Wheel.main args
