import Got.Drv.Cache

def main (args : List String) : IO Unit := Got.Drv.Cache.main args
