import Got.Drv.Sample

def main (args : List String) : IO Unit := Got.Drv.Sample.main args
