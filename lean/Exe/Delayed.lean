import Got.Drv.Delayed

def main (args : List String) : IO Unit := Got.Drv.Delayed.main args
