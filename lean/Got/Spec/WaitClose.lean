import Got.Model.WaitClose
/-
Trace vocabulary used by the statements of the C16 theorems (core Lean only): classification of the events of
`Got.Model.WaitClose.St.log` and the counters the theorems talk about.
-/
namespace Got.Model.WaitClose

def Ev.isCbStart : Ev → Bool | .cbStart .. => true | _ => false
def Ev.isCbEnd : Ev → Bool | .cbEnd .. => true | _ => false
def Ev.isCloseDo : Ev → Bool | .closeDo .. => true | _ => false
def Ev.isCloseRet : Ev → Bool | .closeRet .. => true | _ => false

def cbStarts (l : List Ev) : Nat := l.countP Ev.isCbStart
def cbEnds (l : List Ev) : Nat := l.countP Ev.isCbEnd
def closeDos (l : List Ev) : Nat := l.countP Ev.isCloseDo

end Got.Model.WaitClose
