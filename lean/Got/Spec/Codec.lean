/-
Independent specification of the wire format of the iox codec (.NET BinaryWriter compatible):
  * fixed-width integers: little-endian two's complement, `leBytes w n` = the `w` low-order base-256 digits of `n`,
    least significant first;
  * 7-bit encoded int: unsigned LEB128 of the 32-bit pattern, `leb128 n` = base-128 digits of `n`, least significant
    first, every digit but the last with the continuation bit 0x80;
  * byte slices / strings: `leb128 length ++ bytes`.
Nothing here refers to the model.
-/
namespace Got.Spec.Codec

/-- the `w` low-order base-256 digits of `n`, least significant first -/
def leBytes : Nat → Nat → List (BitVec 8)
  | 0, _ => []
  | w + 1, n => BitVec.ofNat 8 (n % 256) :: leBytes w (n / 256)

/-- value of a little-endian digit string -/
def leValue : List (BitVec 8) → Nat
  | [] => 0
  | b :: bs => b.toNat + 256 * leValue bs

/-- unsigned LEB128 -/
def leb128 (n : Nat) : List (BitVec 8) :=
  if n < 128 then [BitVec.ofNat 8 n]
  else BitVec.ofNat 8 (n % 128 + 128) :: leb128 (n / 128)
decreasing_by omega

/-- the unsigned `w`-bit pattern of an integer (two's complement) -/
def twoCompl (w : Nat) (z : Int) : Nat := (z % (2 ^ w : Nat)).toNat

/-- length-prefixed byte string -/
def prefixed (data : List (BitVec 8)) : List (BitVec 8) := leb128 data.length ++ data

end Got.Spec.Codec
