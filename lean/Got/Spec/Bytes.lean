import Got.Model.BytesBuffer
import Got.Model.BytesStream
/-
Abstract specification of a seekable FIFO byte stream (property C13).

Ghost state: `W` = every byte written since the last Reset (the full history, nothing is ever removed),
`r` = index in `W` of the first retained byte (= position 0 of the concrete object), `c` = index in `W`
of the next unread byte (the cursor), `r ≤ c ≤ |W|`.

The unread portion is `W.drop c`.  Writes append to `W`; reads return a prefix of `W.drop c` and advance `c`;
Seek moves `c` inside `[r, |W|]` or fails without any change; compaction (Tidy, the Buffer's own growth) may
only advance `r`, never beyond `c`: it can therefore never be observed through the unread portion.
`r` is the only nondeterministic component of the specification (which is why the spec is a relation).
-/
namespace Got.Spec.Bytes
open Got.Model.Bytes

structure Ghost where
  W : List Byte
  r : Nat
  c : Nat
  deriving Repr, DecidableEq

namespace Ghost
def init : Ghost := { W := [], r := 0, c := 0 }
/-- the bytes written and not yet consumed -/
def unread (g : Ghost) : List Byte := g.W.drop g.c
/-- length of the retained data -/
def retained (g : Ghost) : Nat := g.W.length - g.r
def Wf (g : Ghost) : Prop := g.r ≤ g.c ∧ g.c ≤ g.W.length
/-- compaction: same history, same cursor; the retained start moves forward but not beyond the cursor -/
def Compacts (g g' : Ghost) : Prop := g'.W = g.W ∧ g'.c = g.c ∧ g.r ≤ g'.r ∧ g'.r ≤ g.c
/-- a write of `p`: history extended, cursor untouched, possibly compaction -/
def Appends (g : Ghost) (p : List Byte) (g' : Ghost) : Prop :=
  g'.W = g.W ++ p ∧ g'.c = g.c ∧ g.r ≤ g'.r ∧ g'.r ≤ g.c
/-- consume `k` bytes (or what is left) -/
def consume (g : Ghost) (k : Nat) : Ghost := { g with c := g.c + min k g.unread.length }
/-- the position `whence`/`offset` designate, relative to the retained start (unbounded integers) -/
def seekTarget (g : Ghost) (offset whence : Int) : Int :=
  (if whence = 1 then ((g.c - g.r : Nat) : Int) else if whence = 2 then (g.retained : Int) else 0) + offset
/-- a seek request is admissible iff whence ∈ {0,1,2} and the target lies inside the retained data -/
def seekOk (g : Ghost) (offset whence : Int) : Prop :=
  0 ≤ whence ∧ whence ≤ 2 ∧ 0 ≤ g.seekTarget offset whence ∧ g.seekTarget offset whence ≤ g.retained
instance (g : Ghost) (o w : Int) : Decidable (g.seekOk o w) := by unfold seekOk; infer_instance
end Ghost

/-- the operations the property quantifies over: non-negative Next/Grow sizes, int64 seek offsets -/
def BufferOpValid : Buffer.Op → Prop
  | .next n => 0 ≤ n
  | .grow n => 0 ≤ n
  | .seek o _ => -(2 ^ 63 : Int) ≤ o ∧ o < 2 ^ 63
  | _ => True

/-- bytes requested from the allocator by an op -/
def BufferOpSize : Buffer.Op → Nat
  | .write p => p.length
  | .grow n => n.toNat
  | _ => 0

instance : DecidablePred BufferOpValid := fun op => by
  cases op <;> unfold BufferOpValid <;> infer_instance

def bufferSizes (ops : List Buffer.Op) : Nat := (ops.map BufferOpSize).sum

/-- one step of the abstract seekable FIFO, as seen through iox.Buffer's API -/
def BufferSpec (g : Ghost) : Buffer.Op → Buffer.Out → Ghost → Prop
  | .write p, out, g' => out = .wrote p.length ∧ g.Appends p g'
  | .read k, out, g' =>
    out = .read (g.unread.take k) (if g.unread = [] ∧ k ≠ 0 then .eof else .nil) ∧ g' = g.consume k
  | .next n, out, g' => out = .next (g.unread.take n.toNat) ∧ g' = g.consume n.toNat
  | .seek o w, out, g' =>
    if g.seekOk o w then
      out = .seek (g.seekTarget o w).toNat .nil ∧ g' = { g with c := g.r + (g.seekTarget o w).toNat }
    else out = .seek 0 .invalidSeek ∧ g' = g
  | .tidy, out, g' => out = .unit ∧ g.Compacts g' ∧ g'.r = g.c
  | .reset, out, g' => out = .unit ∧ g' = Ghost.init
  | .grow _, out, g' => out = .unit ∧ g.Compacts g'

/-- a run of the abstract stream producing exactly the outputs `outs` -/
def BufferSpecRun : Ghost → List Buffer.Op → List Buffer.Out → Ghost → Prop
  | g, [], [], g' => g' = g
  | g, op :: ops, o :: os, g' => ∃ g1, BufferSpec g op o g1 ∧ BufferSpecRun g1 ops os g'
  | _, _, _, _ => False

/-- the concrete Buffer represents the ghost state -/
def BufferRel (b : Buffer) (g : Ghost) : Prop :=
  g.Wf ∧ b.buf = g.W.drop g.r ∧ b.off = g.c - g.r

/-- representation invariant of the model state (model fidelity: Go guarantees len ≤ cap; nil ⇔ cap = 0) -/
def BufferInv (b : Buffer) : Prop :=
  b.off ≤ b.buf.length ∧ b.buf.length ≤ b.cap ∧ (b.isNil = true ↔ b.cap = 0)

instance (b : Buffer) : Decidable (BufferInv b) := by unfold BufferInv; infer_instance

/- ---------------- OctetsStream ---------------- -/

def StreamOpValid : Stream.Op → Prop
  | .seek o _ => -(2 ^ 63 : Int) ≤ o ∧ o < 2 ^ 63
  | _ => True

instance : DecidablePred StreamOpValid := fun op => by
  cases op <;> unfold StreamOpValid <;> infer_instance

/-- one step of the abstract seekable FIFO, as seen through iox.OctetsStream's API -/
def StreamSpec (g : Ghost) : Stream.Op → Stream.Out → Ghost → Prop
  | .read k, out, g' =>
    if k = 0 then out = .read [] .invalidArgument ∧ g' = g
    else out = .read (g.unread.take k) .nil ∧ g' = g.consume k
  | .readByte, out, g' =>
    match g.unread with
    | [] => out = .byte 0 .notEnoughData ∧ g' = g
    | x :: _ => out = .byte x .nil ∧ g' = g.consume 1
  | .seek o w, out, g' =>
    if g.seekOk o w then
      out = .seek (g.seekTarget o w).toNat .nil ∧ g' = { g with c := g.r + (g.seekTarget o w).toNat }
    else out = .seek 0 .invalidArgument ∧ g' = g
  | .tidy, out, g' => out = .unit ∧ g.Compacts g' ∧ g'.r = g.c
  | .reset, out, g' => out = .unit ∧ g' = Ghost.init
  | op, out, g' => out = .err .nil ∧ g.Appends (op.payload.getD []) g' ∧ g'.r = g.r   -- all Write* ops

def StreamSpecRun : Ghost → List Stream.Op → List Stream.Out → Ghost → Prop
  | g, [], [], g' => g' = g
  | g, op :: ops, o :: os, g' => ∃ g1, StreamSpec g op o g1 ∧ StreamSpecRun g1 ops os g'
  | _, _, _, _ => False

def StreamRel (s : Stream) (g : Ghost) : Prop :=
  g.Wf ∧ s.buf = g.W.drop g.r ∧ s.pos = g.c - g.r

end Got.Spec.Bytes
