import Got.Model.Atomics
/-
Specification-level vocabulary used by the statements of the C17 theorems (core Lean only).
-/
namespace Got.Spec.Atomics
open Got.Model.Atomics

/-- OR of the flags of a log of Adds -/
def orFlags (v0 : W64) (log : List (Nat × FOp)) : W64 :=
  log.foldl (fun v e => match e.2 with | .add f => v ||| f | .remove _ => v) v0

end Got.Spec.Atomics
