/-
Executable FIPS-197 AES (128/192/256) block encryption and decryption, and the block-cipher
modes CBC and CFB-128 (NIST SP 800-38A) over an abstract block function.  Core Lean only.

Role in C19: this is an implementation of the *standard*, written from the text of FIPS-197
independently of Go's crypto/aes ("what any other implementation would produce").  The driver
`drv_aes` uses it to compute the expected ciphertext of every correspondence case.  Nothing is
proved about AES itself (it is not needed: the C19 theorems hold for every block permutation);
known-answer vectors from FIPS-197 Appendix B/C and SP 800-38A are run as *tests* by the driver
at start-up (`Got.Drv.Aes.selfTest`) and a few cheap ones are checked by `decide` below.

The S-box is computed from its definition (FIPS-197 §5.1.1: multiplicative inverse in GF(2^8)
followed by the affine transformation), not typed in as a table.
-/
namespace Got.Spec.Aes

abbrev Byte := UInt8

/-! ### GF(2^8) arithmetic (FIPS-197 §4) -/

/-- multiplication by x (i.e. {02}) modulo x^8+x^4+x^3+x+1 -/
def xtime (b : Byte) : Byte :=
  if b &&& 0x80 = 0 then b <<< 1 else (b <<< 1) ^^^ 0x1b

def gmulLoop : Nat → Byte → Byte → Byte → Byte
  | 0, _, _, acc => acc
  | n + 1, a, b, acc => gmulLoop n (xtime a) (b >>> 1) (if b &&& 1 = 0 then acc else acc ^^^ a)

/-- product in GF(2^8) -/
def gmul (a b : Byte) : Byte := gmulLoop 8 a b 0

/-- multiplicative inverse, {00} ↦ {00}:  a^254 = a^2·a^4·a^8·a^16·a^32·a^64·a^128 -/
def ginv (a : Byte) : Byte :=
  let a2 := gmul a a
  let a4 := gmul a2 a2
  let a8 := gmul a4 a4
  let a16 := gmul a8 a8
  let a32 := gmul a16 a16
  let a64 := gmul a32 a32
  let a128 := gmul a64 a64
  gmul a2 (gmul a4 (gmul a8 (gmul a16 (gmul a32 (gmul a64 a128)))))

def rotl8 (b : Byte) (k : Byte) : Byte := (b <<< k) ||| (b >>> (8 - k))

/-- S-box value of one byte (FIPS-197 §5.1.1) -/
def sboxByte (a : Byte) : Byte :=
  let b := ginv a
  b ^^^ rotl8 b 1 ^^^ rotl8 b 2 ^^^ rotl8 b 3 ^^^ rotl8 b 4 ^^^ 0x63

/-- the S-box as a table (evaluated once when the executable starts) -/
def sbox : Array Byte := Array.ofFn (n := 256) fun i => sboxByte (UInt8.ofNat i.val)

/-- inverse S-box = inverse permutation of `sbox` -/
def invSbox : Array Byte :=
  (List.range 256).foldl (fun t i => t.setIfInBounds (sbox.getD i 0).toNat (UInt8.ofNat i))
    (Array.replicate 256 0)

def sub (b : Byte) : Byte := sbox.getD b.toNat 0
def invSub (b : Byte) : Byte := invSbox.getD b.toNat 0

/-! ### round transformations on a 16-byte state; byte `r + 4c` is row `r`, column `c` (§3.4) -/

def subBytes (s : Array Byte) : Array Byte := s.map sub
def invSubBytes (s : Array Byte) : Array Byte := s.map invSub

def shiftRows (s : Array Byte) : Array Byte :=
  Array.ofFn (n := 16) fun i => s.getD (i.val % 4 + 4 * ((i.val / 4 + i.val % 4) % 4)) 0

def invShiftRows (s : Array Byte) : Array Byte :=
  Array.ofFn (n := 16) fun i => s.getD (i.val % 4 + 4 * ((i.val / 4 + 4 - i.val % 4) % 4)) 0

/-- multiplication by a constant as a 256-entry table (evaluated once at start-up); `mulBy t a = gmul c a` for `t = mulTable c` -/
def mulTable (c : Byte) : Array Byte := Array.ofFn (n := 256) fun i => gmul c (UInt8.ofNat i.val)
def mul2 : Array Byte := mulTable 0x02
def mul3 : Array Byte := mulTable 0x03
def mul9 : Array Byte := mulTable 0x09
def mulB : Array Byte := mulTable 0x0b
def mulD : Array Byte := mulTable 0x0d
def mulE : Array Byte := mulTable 0x0e
def mulBy (t : Array Byte) (a : Byte) : Byte := t.getD a.toNat 0

def mixColumns (s : Array Byte) : Array Byte :=
  Array.ofFn (n := 16) fun i =>
    let c := i.val / 4
    let a := fun k => s.getD (4 * c + k) 0
    match i.val % 4 with
    | 0 => mulBy mul2 (a 0) ^^^ mulBy mul3 (a 1) ^^^ a 2 ^^^ a 3
    | 1 => a 0 ^^^ mulBy mul2 (a 1) ^^^ mulBy mul3 (a 2) ^^^ a 3
    | 2 => a 0 ^^^ a 1 ^^^ mulBy mul2 (a 2) ^^^ mulBy mul3 (a 3)
    | _ => mulBy mul3 (a 0) ^^^ a 1 ^^^ a 2 ^^^ mulBy mul2 (a 3)

def invMixColumns (s : Array Byte) : Array Byte :=
  Array.ofFn (n := 16) fun i =>
    let c := i.val / 4
    let a := fun k => s.getD (4 * c + k) 0
    match i.val % 4 with
    | 0 => mulBy mulE (a 0) ^^^ mulBy mulB (a 1) ^^^ mulBy mulD (a 2) ^^^ mulBy mul9 (a 3)
    | 1 => mulBy mul9 (a 0) ^^^ mulBy mulE (a 1) ^^^ mulBy mulB (a 2) ^^^ mulBy mulD (a 3)
    | 2 => mulBy mulD (a 0) ^^^ mulBy mul9 (a 1) ^^^ mulBy mulE (a 2) ^^^ mulBy mulB (a 3)
    | _ => mulBy mulB (a 0) ^^^ mulBy mulD (a 1) ^^^ mulBy mul9 (a 2) ^^^ mulBy mulE (a 3)

/-- `w` is the expanded key as bytes; round key `r` is bytes `16r .. 16r+15` -/
def addRoundKey (s w : Array Byte) (round : Nat) : Array Byte :=
  Array.ofFn (n := 16) fun i => s.getD i.val 0 ^^^ w.getD (16 * round + i.val) 0

/-! ### key expansion (§5.2) -/

/-- Rcon[j] = x^(j-1), j ≥ 1 -/
def rcon : Nat → Byte
  | 0 => 0x8d
  | 1 => 1
  | n + 1 => xtime (rcon n)

/-- one step: append word `i` to the byte array `w` holding words `0 .. i-1` -/
def expandStep (nk : Nat) (w : Array Byte) (i : Nat) : Array Byte :=
  let t0 := w.getD (4 * (i - 1)) 0
  let t1 := w.getD (4 * (i - 1) + 1) 0
  let t2 := w.getD (4 * (i - 1) + 2) 0
  let t3 := w.getD (4 * (i - 1) + 3) 0
  let (t0, t1, t2, t3) :=
    if i % nk = 0 then (sub t1 ^^^ rcon (i / nk), sub t2, sub t3, sub t0)   -- SubWord(RotWord(temp)) xor Rcon
    else if nk > 6 ∧ i % nk = 4 then (sub t0, sub t1, sub t2, sub t3)        -- SubWord(temp)
    else (t0, t1, t2, t3)
  let p := 4 * (i - nk)
  (((w.push (w.getD p 0 ^^^ t0)).push (w.getD (p + 1) 0 ^^^ t1)).push (w.getD (p + 2) 0 ^^^ t2)).push
    (w.getD (p + 3) 0 ^^^ t3)

/-- expanded key of a 16/24/32-byte key: 4·(Nr+1) words, Nr = Nk + 6 -/
def expandKey (key : Array Byte) : Array Byte :=
  let nk := key.size / 4
  (List.range' nk (4 * (nk + 7) - nk)).foldl (expandStep nk) key

/-! ### cipher and inverse cipher (§5.1, §5.3) -/

def encryptBlockA (w : Array Byte) (nr : Nat) (inp : Array Byte) : Array Byte :=
  let s := addRoundKey inp w 0
  let s := (List.range' 1 (nr - 1)).foldl
    (fun s r => addRoundKey (mixColumns (shiftRows (subBytes s))) w r) s
  addRoundKey (shiftRows (subBytes s)) w nr

def decryptBlockA (w : Array Byte) (nr : Nat) (inp : Array Byte) : Array Byte :=
  let s := addRoundKey inp w nr
  let s := (List.range' 1 (nr - 1)).reverse.foldl
    (fun s r => invMixColumns (addRoundKey (invSubBytes (invShiftRows s)) w r)) s
  addRoundKey (invSubBytes (invShiftRows s)) w 0

structure Key where
  w : Array Byte
  nr : Nat

/-- `none` for a key that is not 16, 24 or 32 bytes long (Go: `aes.NewCipher` returns KeySizeError) -/
def mkKey (key : List Byte) : Option Key :=
  if key.length = 16 ∨ key.length = 24 ∨ key.length = 32 then
    some { w := expandKey key.toArray, nr := key.length / 4 + 6 }
  else none

def encryptBlock (k : Key) (b : List Byte) : List Byte := (encryptBlockA k.w k.nr b.toArray).toList
def decryptBlock (k : Key) (b : List Byte) : List Byte := (decryptBlockA k.w k.nr b.toArray).toList

/-! ### modes of operation over an abstract block function (SP 800-38A §6.2, §6.3) -/

def xorBytes (a b : List Byte) : List Byte := List.zipWith (· ^^^ ·) a b

/-- split into chunks of `n` bytes; the last chunk may be shorter. `fuel` ≥ number of chunks. -/
def chunksAux (n : Nat) : Nat → List Byte → List (List Byte)
  | 0, _ => []
  | fuel + 1, l => if l.isEmpty then [] else l.take n :: chunksAux n fuel (l.drop n)

def chunks (n : Nat) (l : List Byte) : List (List Byte) := chunksAux n l.length l

/-- CBC on a list of blocks: C_j = E(P_j xor C_{j-1}), C_0 = IV -/
def cbcEncBlocks (E : List Byte → List Byte) (prev : List Byte) : List (List Byte) → List (List Byte)
  | [] => []
  | p :: ps => let c := E (xorBytes p prev); c :: cbcEncBlocks E c ps

/-- P_j = D(C_j) xor C_{j-1} -/
def cbcDecBlocks (D : List Byte → List Byte) (prev : List Byte) : List (List Byte) → List (List Byte)
  | [] => []
  | c :: cs => xorBytes (D c) prev :: cbcDecBlocks D c cs

def cbcEncrypt (E : List Byte → List Byte) (iv p : List Byte) : List Byte :=
  (cbcEncBlocks E iv (chunks 16 p)).flatten

def cbcDecrypt (D : List Byte → List Byte) (iv c : List Byte) : List Byte :=
  (cbcDecBlocks D iv (chunks 16 c)).flatten

/-- CFB with full-block feedback (CFB-128): C_j = P_j xor E(C_{j-1}), C_0 = IV; a final partial
    segment uses the leading bytes of the key-stream block (`zipWith` truncates). This is what
    Go's `cipher.NewCFBEncrypter(..).XORKeyStream` computes. -/
def cfbEncBlocks (E : List Byte → List Byte) (prev : List Byte) : List (List Byte) → List (List Byte)
  | [] => []
  | p :: ps => let c := xorBytes p (E prev); c :: cfbEncBlocks E c ps

/-- P_j = C_j xor E(C_{j-1}) — the *forward* block function in both directions -/
def cfbDecBlocks (E : List Byte → List Byte) (prev : List Byte) : List (List Byte) → List (List Byte)
  | [] => []
  | c :: cs => xorBytes c (E prev) :: cfbDecBlocks E c cs

def cfbEncrypt (E : List Byte → List Byte) (iv p : List Byte) : List Byte :=
  (cfbEncBlocks E iv (chunks 16 p)).flatten

def cfbDecrypt (E : List Byte → List Byte) (iv c : List Byte) : List Byte :=
  (cfbDecBlocks E iv (chunks 16 c)).flatten

/-- PKCS#7 padding to the next full block of `bs` bytes (1 ≤ bs ≤ 255): always adds 1..bs bytes -/
def pkcs7 (bs : Nat) (p : List Byte) : List Byte :=
  p ++ List.replicate (bs - p.length % bs) (UInt8.ofNat (bs - p.length % bs))

/-! ### tests (labelled as such): cheap spot checks by kernel evaluation -/

-- FIPS-197 §4.2: {57}•{83} = {c1};  §4.2.1: {57}•{13} = {fe}
example : gmul 0x57 0x83 = 0xc1 := by decide
example : gmul 0x57 0x13 = 0xfe := by decide
-- FIPS-197 §5.1.1: S-box of {53} is {ed}; Figure 7 corners
example : sboxByte 0x53 = 0xed := by decide +kernel
example : sboxByte 0x00 = 0x63 := by decide +kernel
example : sboxByte 0xff = 0x16 := by decide +kernel

end Got.Spec.Aes
