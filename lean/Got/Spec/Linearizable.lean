/-
Linearizability (Herlihy–Wing) for objects with Push/Pop operations, the sequential FIFO
specification, instrumented logs with linearisation-point markers, and the *LP witness*
predicate `LinWitness` (core Lean only; imported by the MSQueue model and its driver).

Values are natural numbers; `Res.val none` is the "empty" answer of Pop (Go: `nil`).
Clients never push nil: a pushed value is a `Nat`, so the type excludes it.
-/
namespace Got.Spec.Lin

/-- function update (thread-indexed state components are functions `Nat → _`). -/
def upd {β : Type} (f : Nat → β) (i : Nat) (v : β) : Nat → β := fun j => if j = i then v else f j

@[simp] theorem upd_same {β : Type} (f : Nat → β) (i : Nat) (v : β) : upd f i v i = v := by
  simp [upd]

theorem upd_other {β : Type} (f : Nat → β) (i j : Nat) (v : β) (h : j ≠ i) : upd f i v j = f j := by
  simp [upd, h]

inductive Op where
  | push (v : Nat)
  | pop
  deriving DecidableEq, Repr

inductive Res where
  | ack
  | val (v : Option Nat)
  deriving DecidableEq, Repr

/-- what a client sees: invocations and responses, tagged with the thread. -/
inductive HEv where
  | inv (t : Nat) (o : Op)
  | ret (t : Nat) (r : Res)
  deriving DecidableEq, Repr

/-- instrumented log: history events plus linearisation markers.
    `lin t o r`: thread `t`'s pending operation `o` takes effect *now* with result `r`;
    `obs t`: thread `t` (inside a Pop) observed the queue empty *now*. -/
inductive LEv where
  | inv (t : Nat) (o : Op)
  | lin (t : Nat) (o : Op) (r : Res)
  | obs (t : Nat)
  | ret (t : Nat) (r : Res)
  deriving DecidableEq, Repr

structure SeqSpec (σ : Type) where
  init : σ
  apply : σ → Op → σ × Res

def fifoApply (q : List Nat) : Op → List Nat × Res
  | .push v => (q ++ [v], .ack)
  | .pop =>
    match q with
    | [] => ([], .val none)
    | x :: q' => (q', .val (some x))

def FifoSpec : SeqSpec (List Nat) := ⟨[], fifoApply⟩

def LEv.toH : LEv → Option HEv
  | .inv t o => some (.inv t o)
  | .ret t r => some (.ret t r)
  | _ => none

/-- the client-visible history of an instrumented log: drop the markers. -/
def history (l : List LEv) : List HEv := l.filterMap LEv.toH

/-! ### LP witness: the markers replay legally on the FIFO and sit inside their operations -/

/-- status of a thread while the log is replayed. -/
inductive TSt where
  | idle
  | pend (o : Op) (seen : Bool)   -- invoked, not yet linearised; `seen`: an `obs` was recorded inside this op
  | done (o : Op) (r : Res)       -- linearised with result `r`, response not yet delivered
  deriving DecidableEq, Repr

structure WSt where
  q : List Nat            -- abstract queue
  st : Nat → TSt

def WSt.init : WSt := ⟨[], fun _ => .idle⟩

/-- one event of the replay; `none` = the log is not a legal LP-instrumented history. -/
def wstep (w : WSt) : LEv → Option WSt
  | .inv t o =>
    match w.st t with
    | .idle => some { w with st := upd w.st t (.pend o false) }
    | _ => none
  | .lin t o r =>
    match w.st t with
    | .pend o' _ =>
      if o' = o ∧ (fifoApply w.q o).2 = r ∧ r ≠ .val none then
        some ⟨(fifoApply w.q o).1, upd w.st t (.done o r)⟩
      else none
    | _ => none
  | .obs t =>
    match w.st t with
    | .pend .pop _ => if w.q = [] then some { w with st := upd w.st t (.pend .pop true) } else none
    | _ => none
  | .ret t r =>
    match w.st t with
    | .done _ r' => if r' = r then some { w with st := upd w.st t .idle } else none
    | .pend .pop true => if r = .val none then some { w with st := upd w.st t .idle } else none
    | _ => none

def wrunFrom (w : WSt) (l : List LEv) : Option WSt :=
  l.foldl (fun acc e => acc.bind (fun w => wstep w e)) (some w)

def wrun (l : List LEv) : Option WSt := wrunFrom WSt.init l

/-- **LP witness.** Replaying the log succeeds, i.e.
    * per thread the log has the shape `(inv · markers · ret)*`;
    * a `lin t o r` marker lies between `inv t o` and the matching `ret t r`, there is exactly one
      per completed Push / non-nil Pop, it is legal on the FIFO at that instant (`pop` takes the
      current front) and its result is the one returned;
    * an `obs t` marker lies inside a Pop of `t`, at an instant where the abstract queue is empty;
    * a Pop returning nil has no `lin` marker and at least one `obs` marker. -/
def LinWitness (l : List LEv) : Prop := (wrun l).isSome = true

instance (l : List LEv) : Decidable (LinWitness l) := by unfold LinWitness; infer_instance

theorem wrunFrom_append (w : WSt) (l₁ l₂ : List LEv) :
    wrunFrom w (l₁ ++ l₂) = (wrunFrom w l₁).bind (fun w' => wrunFrom w' l₂) := by
  unfold wrunFrom
  rw [List.foldl_append]
  generalize List.foldl (fun acc e => acc.bind (fun w => wstep w e)) (some w) l₁ = r
  cases r with
  | some w' => rfl
  | none =>
    simp only [Option.bind_none]
    induction l₂ with
    | nil => rfl
    | cons e l ih => simpa [List.foldl_cons] using ih

theorem wrun_snoc (l : List LEv) (e : LEv) : wrun (l ++ [e]) = (wrun l).bind (fun w => wstep w e) := by
  unfold wrun
  rw [wrunFrom_append]
  cases wrunFrom WSt.init l with
  | none => rfl
  | some w => simp [wrunFrom, List.foldl]

/-! ### Linearizability (Herlihy & Wing 1990)

A history `H` (list of invocation/response events) is *linearizable* w.r.t. a sequential
specification if it can be extended, by appending responses to some pending invocations, to a
history `H'` such that
* **L1** `complete(H')` (= `H'` without the invocations that are still pending) is *equivalent* to a
  *legal sequential* history `S`: for every thread `t`, `complete(H')|t = S|t`;
* **L2** `<_H ⊆ <_S`: if an operation returned in `H` before another one was invoked, the same holds in `S`.

Encoding.  A sequential history is given by its list of operations `S : List OpRec`
(`seqHist S = inv·ret·inv·ret…`); it is legal if running the specification over it yields exactly the
recorded results.  Operations are identified by (thread, index of the operation within the thread):
L1 makes the `k`-th operation of thread `t` the same operation in `H` and in `S`.  "Operation `k` of
`t` returned before operation `k'` of `t'` was invoked in `X`" is `RetBeforeInv X t k t' k'`: some
prefix of `X` contains at least `k+1` responses of `t` and at most `k'` invocations of `t'`. -/

def HEv.tid : HEv → Nat
  | .inv t _ => t
  | .ret t _ => t

def HEv.isRet : HEv → Bool
  | .ret _ _ => true
  | .inv _ _ => false

def HEv.isInvOf (t : Nat) : HEv → Bool
  | .inv t' _ => decide (t' = t)
  | .ret _ _ => false

def HEv.isRetOf (t : Nat) : HEv → Bool
  | .ret t' _ => decide (t' = t)
  | .inv _ _ => false

/-- `H|t`: the subhistory of thread `t`. -/
def proj (t : Nat) (H : List HEv) : List HEv := H.filter (fun e => decide (e.tid = t))

/-- `complete(H)`: `H` without its pending invocations (an invocation is pending if the same thread has
    no later event). -/
def complete : List HEv → List HEv
  | [] => []
  | .inv t o :: H =>
    if H.any (fun e => decide (e.tid = t)) then .inv t o :: complete H else complete H
  | .ret t r :: H => .ret t r :: complete H

/-- one operation of a sequential history. -/
structure OpRec where
  t : Nat
  o : Op
  r : Res
  deriving DecidableEq, Repr

/-- the sequential history of a list of operations. -/
def seqHist : List OpRec → List HEv
  | [] => []
  | x :: S => .inv x.t x.o :: .ret x.t x.r :: seqHist S

/-- run the specification over a list of operations, checking every recorded result. -/
def SeqSpec.runOps {σ : Type} (spec : SeqSpec σ) : σ → List OpRec → Option σ
  | s, [] => some s
  | s, x :: S => if (spec.apply s x.o).2 = x.r then spec.runOps (spec.apply s x.o).1 S else none

/-- the sequential history `seqHist S` is legal. -/
def Legal {σ : Type} (spec : SeqSpec σ) (S : List OpRec) : Prop := (spec.runOps spec.init S).isSome = true

def nInv (t : Nat) (X : List HEv) : Nat := X.countP (HEv.isInvOf t)
def nRet (t : Nat) (X : List HEv) : Nat := X.countP (HEv.isRetOf t)

/-- in `X`, operation number `k` of thread `t` returns before operation number `k'` of thread `t'` is
    invoked (operations of a thread numbered from 0). -/
def RetBeforeInv (X : List HEv) (t k t' k' : Nat) : Prop :=
  ∃ X₁ X₂, X = X₁ ++ X₂ ∧ k < nRet t X₁ ∧ nInv t' X₁ ≤ k'

/-- **Linearizability** of a history w.r.t. a sequential specification. -/
def Linearizable {σ : Type} (spec : SeqSpec σ) (H : List HEv) : Prop :=
  ∃ (ext : List HEv) (S : List OpRec),
    (∀ e, e ∈ ext → e.isRet = true) ∧
    Legal spec S ∧
    (∀ t, proj t (complete (H ++ ext)) = proj t (seqHist S)) ∧
    (∀ t k t' k', RetBeforeInv H t k t' k' → RetBeforeInv (seqHist S) t k t' k')

end Got.Spec.Lin
