import Got.Model.Cache
/-
Specification-level definitions for the cachex properties (core Lean only).
-/
namespace Got.Spec.Cache
open Got.Model.CacheCore Got.Model.Cache

/-- the expiry that applies to a result -/
def futExpiry (cfg : Cfg) (r : Res) : Nat := expiryOf r.err.isSome cfg.En cfg.Ee

/-- a future may be handed out at the current instant: if it is resolved, its result is younger than 2E -/
def Servable (cfg : Cfg) (s : State) (f : FutId) : Prop :=
  ∀ r, (s.fut f).res = some r → s.now - (s.fut f).upd < 2 * futExpiry cfg r

/-- a map entry the clients cannot distinguish from an absent one: no entry, or a rotted one -/
def Hidden (cfg : Cfg) (s : State) (o : Option FutId) : Prop :=
  o = none ∨ statusAt cfg s o = .rotted

def VisEq (cfg : Cfg) (s : State) (a b : Option FutId) : Prop :=
  a = b ∨ (Hidden cfg s a ∧ Hidden cfg s b)

/-- program counters agree up to hidden entries (only Get2 keeps a looked-up entry across a step boundary
    without having evaluated its status) -/
def PcEq (cfg : Cfg) (s : State) : CPc → CPc → Prop
  | .g2Status a, .g2Status b => VisEq cfg s a b
  | p, q => p = q

/-- `s ≈ t`: equal up to map entries that are rotted (the only thing removeRotted changes) -/
structure SweepEq (cfg : Cfg) (s t : State) : Prop where
  now : s.now = t.now
  lock : s.lock = t.lock
  fut : s.fut = t.fut
  nfut : s.nfut = t.nfut
  chan : s.chan = t.chan
  tickPending : s.tickPending = t.tickPending
  wpc : s.wpc = t.wpc
  jobAt : s.jobAt = t.jobAt
  map : ∀ k, VisEq cfg s (s.map k) (t.map k)
  cpc : ∀ c, PcEq cfg s (s.cpc c) (t.cpc c)

/-- every future id stored in the map or in a Get2 in progress has been allocated -/
structure MapWF (s : State) : Prop where
  map : ∀ k f, s.map k = some f → f < s.nfut
  pc : ∀ c f, s.cpc c = .g2Status (some f) → f < s.nfut

/-- the plan carried by a Load after its critical section -/
def planOf : CPc → Option Plan
  | .ldUnlock _ _ p => some p
  | .ldSend _ p _ => some p
  | _ => none

/-- the job a Load still has to send after its critical section -/
def jobOf : CPc → Option Job
  | .ldUnlock _ j _ => j
  | .ldSend j _ _ => some j
  | _ => none

/-! ### the progress measure of C06 -/

/-- remaining work of a client call (a job still to be sent weighs 6 + 1: the worker's six steps for it and the send) -/
def cw : CPc → Nat
  | .idle => 0
  | .done _ => 0
  | .ldStart _ _ => 12
  | .ldUnlock _ (some _) _ => 11
  | .ldUnlock _ none _ => 4
  | .ldSend _ _ (some _) => 11
  | .ldSend _ _ none => 10
  | .fetch _ _ => 3
  | .fetchSt _ _ _ => 2
  | .ldRet _ => 1
  | .g2Start _ => 5
  | .g2Status _ => 4
  | .wait _ => 1
  | .retNil => 1
  | .setStart _ _ => 2
  | .setRet => 1

/-- remaining work of a worker before it is back in its select -/
def ww (S : Nat) : WPc → Nat
  | .idle => 0
  | .got _ => 5
  | .running _ => 4
  | .publish _ _ => 3
  | .clearPred _ => 2
  | .wgDone _ => 1
  | .sweep i => (S - i) + 1

/-- μ over a finite set of clients `cs` and workers `ws` -/
def mu (cfg : Cfg) (cs ws : List Nat) (s : State) : Nat :=
  (cs.map (fun c => cw (s.cpc c))).sum + (ws.map (fun w => ww cfg.S (s.wpc w))).sum +
    6 * s.chan.length + (if s.tickPending then cfg.S + 2 else 0)

/-- the agent performing a progress action belongs to the finite sets over which μ sums -/
def actorIn (cs ws : List Nat) : Act → Prop
  | .cl c => c ∈ cs
  | .wTake w | .wTick w | .wStart w | .wEnd w _ | .wk w => w ∈ ws
  | _ => True

/-- some client / worker / loader transition is enabled -/
def CanProgress (cfg : Cfg) (s : State) : Prop := ∃ a, a.isProgress = true ∧ (step? cfg s a).isSome

/-- every call that was issued has returned -/
def AllReturned (s : State) : Prop := ∀ c, s.cpc c = .idle ∨ ∃ o, s.cpc c = .done o

/-- every future that was created is resolved (its waiters released) -/
def AllResolved (s : State) : Prop := ∀ f, f < s.nfut → (s.fut f).done = true ∧ (s.fut f).res.isSome = true

def actClient? : Act → Option Cid
  | .invLoad c _ _ | .invGet2 c _ | .invSet c _ _ | .invFGet c _ | .cl c => some c
  | _ => none

def actWorker? : Act → Option Wid
  | .wTake w | .wTick w | .wStart w | .wEnd w _ | .wk w => some w
  | _ => none

/-! the deadlock of the code before the fix (C06_old_deadlock): P = 1, J = 1, two shards -/

def oldCfg : Cfg := { P := 1, J := 1, S := 2, En := 10, Ee := 5, shardOf := fun k => k % 2, old := true }
def fixedCfg : Cfg := { oldCfg with old := false }

/-- Load(key 0) completes and leaves its job in the (now full) queue; Load(key 1) blocks in sendJob;
    the tick arrives and the only worker takes the tick branch, sweeps shard 0 and blocks on shard 1 -/
def deadlockActs : List Act :=
  [.invLoad 0 0 0, .cl 0, .cl 0, .cl 0, .cl 0,      -- c0: critical section, send, unlock, return
   .invLoad 1 1 1, .cl 1,                            -- c1: critical section (holds lock 1), send blocked: queue full
   .tick, .wTick 0, .wk 0]                           -- worker: tick branch, sweeps shard 0, next is shard 1

/-! concrete states used by the non-vacuity examples -/

def exCfg : Cfg := { P := 1, J := 1, S := 1, En := 10, Ee := 5, shardOf := fun _ => 0 }

/-- key 1 ↦ future 0, resolved at time 10 with (7, nil); the clock shows `now` -/
def exResolved (now : Nat) : State :=
  { init with
    now := now
    map := upd init.map 1 (some 0)
    fut := upd init.fut 0 { key := 1, res := some ⟨some 7, none⟩, upd := 10, pred := none, done := true, bySet := false, orphan := false }
    nfut := 1
    jobAt := upd init.jobAt 0 .finished }

/-- as `exResolved 25` (future 0 expired) plus the refresh future 1 (unresolved, predecessor 0) as the key's entry -/
def exRefreshing (now : Nat) : State :=
  { exResolved now with
    map := upd init.map 1 (some 1)
    fut := upd (exResolved now).fut 1 (newLoadFut 1 (some 0))
    nfut := 2 }

end Got.Spec.Cache
