import Got.Model.Cache
/-
Specification-level definitions for the cachex properties (core Lean only).
-/
namespace Got.Spec.Cache
open Got.Model.CacheCore Got.Model.Cache

/-- the expiry that applies to a result -/
def futExpiry (cfg : Cfg) (r : Res) : Nat := expiryOf r.err.isSome cfg.En cfg.Ee

/-- a future may be handed out at the current instant: if it is resolved, its result is younger than 2E -/
def Servable (cfg : Cfg) (s : State) (f : FutId) : Prop :=
  ∀ r, (s.fut f).res = some r → s.now - (s.fut f).upd < 2 * futExpiry cfg r

/-- a map entry the clients cannot distinguish from an absent one: no entry, or a rotted one -/
def Hidden (cfg : Cfg) (s : State) (o : Option FutId) : Prop :=
  o = none ∨ statusAt cfg s o = .rotted

def VisEq (cfg : Cfg) (s : State) (a b : Option FutId) : Prop :=
  a = b ∨ (Hidden cfg s a ∧ Hidden cfg s b)

/-- program counters agree up to hidden entries (only Get2 keeps a looked-up entry across a step boundary
    without having evaluated its status) -/
def PcEq (cfg : Cfg) (s : State) : CPc → CPc → Prop
  | .g2Status a, .g2Status b => VisEq cfg s a b
  | p, q => p = q

/-- `s ≈ t`: equal up to map entries that are rotted (the only thing removeRotted changes) -/
structure SweepEq (cfg : Cfg) (s t : State) : Prop where
  now : s.now = t.now
  lock : s.lock = t.lock
  fut : s.fut = t.fut
  nfut : s.nfut = t.nfut
  chan : s.chan = t.chan
  tickPending : s.tickPending = t.tickPending
  wpc : s.wpc = t.wpc
  jobAt : s.jobAt = t.jobAt
  map : ∀ k, VisEq cfg s (s.map k) (t.map k)
  cpc : ∀ c, PcEq cfg s (s.cpc c) (t.cpc c)

/-- every future id stored in the map or in a Get2 in progress has been allocated -/
structure MapWF (s : State) : Prop where
  map : ∀ k f, s.map k = some f → f < s.nfut
  pc : ∀ c f, s.cpc c = .g2Status (some f) → f < s.nfut

/-- the plan carried by a Load after its critical section -/
def planOf : CPc → Option Plan
  | .ldUnlock _ _ p => some p
  | .ldSend _ p _ => some p
  | _ => none

/-- the job a Load still has to send after its critical section -/
def jobOf : CPc → Option Job
  | .ldUnlock _ j _ => j
  | .ldSend j _ _ => some j
  | _ => none

/-! concrete states used by the non-vacuity examples -/

def exCfg : Cfg := { P := 1, J := 1, S := 1, En := 10, Ee := 5, shardOf := fun _ => 0 }

/-- key 1 ↦ future 0, resolved at time 10 with (7, nil); the clock shows `now` -/
def exResolved (now : Nat) : State :=
  { init with
    now := now
    map := upd init.map 1 (some 0)
    fut := upd init.fut 0 { key := 1, res := some ⟨some 7, none⟩, upd := 10, pred := none, done := true, bySet := false, orphan := false }
    nfut := 1
    jobAt := upd init.jobAt 0 .finished }

/-- as `exResolved 25` (future 0 expired) plus the refresh future 1 (unresolved, predecessor 0) as the key's entry -/
def exRefreshing (now : Nat) : State :=
  { exResolved now with
    map := upd init.map 1 (some 1)
    fut := upd (exResolved now).fut 1 (newLoadFut 1 (some 0))
    nfut := 2 }

end Got.Spec.Cache
