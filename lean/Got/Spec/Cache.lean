import Got.Model.Cache
/-
Specification-level definitions for the cachex properties (core Lean only).
-/
namespace Got.Spec.Cache
open Got.Model.CacheCore Got.Model.Cache

/-- the expiry that applies to a result -/
def futExpiry (cfg : Cfg) (r : Res) : Nat := expiryOf r.err.isSome cfg.En cfg.Ee

/-- a future may be handed out at the current instant: if it is resolved, its result is younger than 2E -/
def Servable (cfg : Cfg) (s : State) (f : FutId) : Prop :=
  ∀ r, (s.fut f).res = some r → s.now - (s.fut f).upd < 2 * futExpiry cfg r

/-- a map entry the clients cannot distinguish from an absent one: no entry, or a rotted one -/
def Hidden (cfg : Cfg) (s : State) (o : Option FutId) : Prop :=
  o = none ∨ statusAt cfg s o = .rotted

def VisEq (cfg : Cfg) (s : State) (a b : Option FutId) : Prop :=
  a = b ∨ (Hidden cfg s a ∧ Hidden cfg s b)

/-- program counters agree up to hidden entries (only Get2 keeps a looked-up entry across a step boundary
    without having evaluated its status) -/
def PcEq (cfg : Cfg) (s : State) : CPc → CPc → Prop
  | .g2Status a, .g2Status b => VisEq cfg s a b
  | p, q => p = q

/-- `s ≈ t`: equal up to map entries that are rotted (the only thing removeRotted changes) -/
structure SweepEq (cfg : Cfg) (s t : State) : Prop where
  now : s.now = t.now
  lock : s.lock = t.lock
  fut : s.fut = t.fut
  nfut : s.nfut = t.nfut
  chan : s.chan = t.chan
  tickPending : s.tickPending = t.tickPending
  wpc : s.wpc = t.wpc
  jobAt : s.jobAt = t.jobAt
  map : ∀ k, VisEq cfg s (s.map k) (t.map k)
  cpc : ∀ c, PcEq cfg s (s.cpc c) (t.cpc c)

/-- every future id stored in the map or in a Get2 in progress has been allocated -/
structure MapWF (s : State) : Prop where
  map : ∀ k f, s.map k = some f → f < s.nfut
  pc : ∀ c f, s.cpc c = .g2Status (some f) → f < s.nfut

/-- the plan carried by a Load after its critical section -/
def planOf : CPc → Option Plan
  | .ldUnlock _ _ p => some p
  | .ldSend _ p _ => some p
  | _ => none

/-- the job a Load still has to send after its critical section -/
def jobOf : CPc → Option Job
  | .ldUnlock _ j _ => j
  | .ldSend j _ _ => some j
  | _ => none

/-! ### the progress measure of C06 -/

/-- remaining work of a client call (a job still to be sent weighs 6 + 1: the worker's six steps for it and the send) -/
def cw : CPc → Nat
  | .idle => 0
  | .done _ => 0
  | .ldStart _ _ => 12
  | .ldUnlock _ (some _) _ => 11
  | .ldUnlock _ none _ => 4
  | .ldSend _ _ (some _) => 11
  | .ldSend _ _ none => 10
  | .fetch _ _ => 3
  | .fetchSt _ _ _ => 2
  | .ldRet _ => 1
  | .g2Start _ => 5
  | .g2Status _ => 4
  | .wait _ => 1
  | .retNil => 1
  | .setStart _ _ => 2
  | .setRet => 1

/-- remaining work of a worker before it is back in its select -/
def ww (S : Nat) : WPc → Nat
  | .idle => 0
  | .got _ => 5
  | .running _ => 4
  | .publish _ _ => 3
  | .clearPred _ => 2
  | .wgDone _ => 1
  | .sweep i => (S - i) + 1

/-- μ over a finite set of clients `cs` and workers `ws` -/
def mu (cfg : Cfg) (cs ws : List Nat) (s : State) : Nat :=
  (cs.map (fun c => cw (s.cpc c))).sum + (ws.map (fun w => ww cfg.S (s.wpc w))).sum +
    6 * s.chan.length + (if s.tickPending then cfg.S + 2 else 0)

/-- the agent performing a progress action belongs to the finite sets over which μ sums -/
def actorIn (cs ws : List Nat) : Act → Prop
  | .cl c => c ∈ cs
  | .wTake w | .wTick w | .wStart w | .wEnd w _ | .wk w => w ∈ ws
  | _ => True

/-- some client / worker / loader transition is enabled -/
def CanProgress (cfg : Cfg) (s : State) : Prop := ∃ a, a.isProgress = true ∧ (step? cfg s a).isSome

/-- every call that was issued has returned -/
def AllReturned (s : State) : Prop := ∀ c, s.cpc c = .idle ∨ ∃ o, s.cpc c = .done o

/-- every future that was created is resolved (its waiters released) -/
def AllResolved (s : State) : Prop := ∀ f, f < s.nfut → (s.fut f).done = true ∧ (s.fut f).res.isSome = true

/-! ### the invariant behind C04 and C06 -/

/-- the job a worker holds -/
def wjob : WPc → Option Job
  | .got j | .running j | .publish j _ | .clearPred j | .wgDone j => some j
  | _ => none

/-- the worker has not yet published the result of its job -/
def prePub : WPc → Bool
  | .got _ | .running _ | .publish _ _ => true
  | _ => false

def planFut : Plan → FutId
  | .ret f => f
  | .fetch f => f

/-- the future ids a client pc refers to -/
def pcFuts : CPc → List FutId
  | .ldUnlock _ send plan => planFut plan :: (match send with | some j => [j.fut] | none => [])
  | .ldSend j plan _ => [planFut plan, j.fut]
  | .fetch f _ => [f]
  | .fetchSt f p _ => f :: p.toList
  | .ldRet f => [f]
  | .g2Status o => o.toList
  | .wait f => [f]
  | .done (.fut f) => [f]
  | _ => []

/-- what the ghost location of a future's job says about the future -/
def StageOK (s : State) (f : FutId) : Prop :=
  match s.jobAt f with
  | .nowhere => False
  | .creator _ => (s.fut f).res = none ∧ (s.fut f).done = false
  | .chan => (s.fut f).res = none ∧ (s.fut f).done = false
  | .worker w => (s.fut f).done = false ∧ ((s.fut f).res = none ↔ prePub (s.wpc w) = true)
  | .finished => (s.fut f).done = true ∧ (s.fut f).res.isSome = true

/-- a job refers to a load-future created for the job's key -/
def JobOK (s : State) (j : Job) : Prop :=
  j.fut < s.nfut ∧ (s.fut j.fut).key = j.key ∧ (s.fut j.fut).bySet = false

structure Inv (cfg : Cfg) (s : State) : Prop where
  -- allocation
  a_map : ∀ k f, s.map k = some f → f < s.nfut
  a_pc : ∀ c f, f ∈ pcFuts (s.cpc c) → f < s.nfut
  a_pred : ∀ f p, f < s.nfut → (s.fut f).pred = some p → p < s.nfut
  -- every job is well-formed, wherever it is
  k_creator : ∀ c j, jobOf (s.cpc c) = some j → JobOK s j
  k_chan : ∀ j, j ∈ s.chan → JobOK s j
  k_worker : ∀ w j, wjob (s.wpc w) = some j → JobOK s j
  -- ghost location ⇒ place (I2: every unresolved load-future has its job somewhere)
  j_creator : ∀ f c, f < s.nfut → s.jobAt f = .creator c → ∃ j, jobOf (s.cpc c) = some j ∧ j.fut = f
  j_chan : ∀ f, f < s.nfut → s.jobAt f = .chan → ∃ j, j ∈ s.chan ∧ j.fut = f
  j_worker : ∀ f w, f < s.nfut → s.jobAt f = .worker w → ∃ j, wjob (s.wpc w) = some j ∧ j.fut = f
  -- place ⇒ ghost location (… in exactly one place)
  f_creator : ∀ c j, jobOf (s.cpc c) = some j → s.jobAt j.fut = .creator c
  f_chan : ∀ j, j ∈ s.chan → s.jobAt j.fut = .chan
  f_nodup : (s.chan.map (·.fut)).Nodup
  f_worker : ∀ w j, wjob (s.wpc w) = some j → s.jobAt j.fut = .worker w
  -- stage of the future vs. location of its job
  stage : ∀ f, f < s.nfut → StageOK s f
  -- locks (I1)
  l_holder : ∀ sh c, s.lock sh = some c →
    (∃ send plan, s.cpc c = .ldUnlock sh send plan) ∨ (∃ j plan, s.cpc c = .ldSend j plan (some sh))
  l_fixed : cfg.old = false → ∀ c j plan lk, s.cpc c = .ldSend j plan lk → lk = none
  -- an unresolved load-future that Set has not displaced is the entry of its key
  o_map : ∀ f, f < s.nfut → (s.fut f).res = none → (s.fut f).orphan = false → s.map (s.fut f).key = some f
  -- what a returned Get2 / Future.Get2 reports is the (immutable) result of a resolved future
  r_pair : ∀ c f r, s.cpc c = .done (.pair (some f) r) → f < s.nfut ∧ (s.fut f).done = true ∧ r = (s.fut f).res

def actClient? : Act → Option Cid
  | .invLoad c _ _ | .invGet2 c _ | .invSet c _ _ | .invFGet c _ | .cl c => some c
  | _ => none

def actWorker? : Act → Option Wid
  | .wTake w | .wTick w | .wStart w | .wEnd w _ | .wk w => some w
  | _ => none

/-! the deadlock of the code before the fix (C06_old_deadlock): P = 1, J = 1, two shards -/

def oldCfg : Cfg := { P := 1, J := 1, S := 2, En := 10, Ee := 5, shardOf := fun k => k % 2, old := true }
def fixedCfg : Cfg := { oldCfg with old := false }

/-- Load(key 0) completes and leaves its job in the (now full) queue; Load(key 1) blocks in sendJob;
    the tick arrives and the only worker takes the tick branch, sweeps shard 0 and blocks on shard 1 -/
def deadlockActs : List Act :=
  [.invLoad 0 0 0, .cl 0, .cl 0, .cl 0, .cl 0,      -- c0: critical section, send, unlock, return
   .invLoad 1 1 1, .cl 1,                            -- c1: critical section (holds lock 1), send blocked: queue full
   .tick, .wTick 0, .wk 0]                           -- worker: tick branch, sweeps shard 0, next is shard 1

/-! concrete states used by the non-vacuity examples -/

def exCfg : Cfg := { P := 1, J := 1, S := 1, En := 10, Ee := 5, shardOf := fun _ => 0 }

/-- key 1 ↦ future 0, resolved at time 10 with (7, nil); the clock shows `now` -/
def exResolved (now : Nat) : State :=
  { init with
    now := now
    map := upd init.map 1 (some 0)
    fut := upd init.fut 0 { key := 1, res := some ⟨some 7, none⟩, upd := 10, pred := none, done := true, bySet := false, orphan := false }
    nfut := 1
    jobAt := upd init.jobAt 0 .finished }

/-- as `exResolved 25` (future 0 expired) plus the refresh future 1 (unresolved, predecessor 0) as the key's entry -/
def exRefreshing (now : Nat) : State :=
  { exResolved now with
    map := upd init.map 1 (some 1)
    fut := upd (exResolved now).fut 1 (newLoadFut 1 (some 0))
    nfut := 2 }

end Got.Spec.Cache
