import Got.Model.TaskQEvents
import Got.Lemmas.TaskQ
import Got.Lemmas.DisciplineProtos
/-
C18 for taskx (taskCallback.result / err) from the LTS of Got/Model/TaskQ.lean: for every execution (any number of
producers and client goroutines, every interleaving, every position of close) in which the handler of task `k` runs at
most once, the `result/err` trace of `k` (Got/Model/TaskQEvents.lean) is accepted by the publication-discipline
monitor, hence race free (`accepts_raceFree`).  Negative control: a second Do after a client's Get2 is rejected.

Invariant `DInv k s m` (LTS state `s`, monitor state `m`):
  before the consumer's store of `k` there has been no access (every thread is current);
  between the store and `wg.Done()` the consumer is the (current) writer and no client can pass `Wait`;
  after the first Do completed (`handled k`) the consumer is ordered after the write, the WaitGroup object carries the
  write (released by Done after the store), the handler ran (`execCount k ≥ 1`), and — as it runs at most once — the
  consumer is never again between handler return and store of `k`.
-/
set_option linter.unusedSimpArgs false
set_option linter.unusedVariables false

namespace Got.Lemmas.DiscTaskQ
open Got.Model.TaskQ Got.Model.TaskQEvents Got.Model.Discipline Got.Lemmas.Discipline

/-! ### monitor steps -/

def acqM (m : Mon) (t a : Nat) : Mon :=
  { m with wcur := fun u => m.wcur u || (decide (u = t) && m.carW a),
           acur := fun u => m.acur u || (decide (u = t) && m.carA a) }
def relM (m : Mon) (t a : Nat) : Mon :=
  { m with carW := fun b => m.carW b || (decide (b = a) && m.wcur t),
           carA := fun b => m.carA b || (decide (b = a) && m.acur t) }
def rdM (m : Mon) (t : Nat) : Mon :=
  { m with acur := fun u => m.acur u && decide (u = t), carA := fun _ => false }
def wrM (t : Nat) : Mon :=
  { wcur := fun u => decide (u = t), acur := fun u => decide (u = t), carW := fun _ => false, carA := fun _ => false }

theorem run_nil (m : Mon) : m.run [] = some m := rfl

theorem run_cons_some {m m1 : Mon} {e : Ev} {es : List Ev} (h : m.step e = some m1) : m.run (e :: es) = m1.run es := by
  simp only [Mon.run, h]

theorem step_acq (m : Mon) (t a : Nat) : m.step (.acq t a) = some (acqM m t a) := rfl
theorem step_rel (m : Mon) (t a : Nat) : m.step (.rel t a) = some (relM m t a) := rfl
theorem step_rd (m : Mon) (t : Nat) (h : m.wcur t = true) : m.step (.rd t) = some (rdM m t) := by
  simp [Mon.step, h, rdM]
theorem step_wr (m : Mon) (t : Nat) (h : m.acur t = true) : m.step (.wr t) = some (wrM t) := by
  simp [Mon.step, h, wrM]

theorem acq_w (m : Mon) (t a u : Nat) (h : m.wcur u = true) : (acqM m t a).wcur u = true := by simp [acqM, h]
theorem acq_a (m : Mon) (t a u : Nat) (h : m.acur u = true) : (acqM m t a).acur u = true := by simp [acqM, h]
theorem acq_get (m : Mon) (t a : Nat) (h : m.carW a = true) : (acqM m t a).wcur t = true := by simp [acqM, h]
theorem rel_put (m : Mon) (t a : Nat) (h : m.wcur t = true) : (relM m t a).carW a = true := by simp [relM, h]
theorem rel_c (m : Mon) (t a o : Nat) (h : m.carW o = true) : (relM m t a).carW o = true := by simp [relM, h]

/-! ### the invariant -/

structure DInv (k : Nat) (s : State) (m : Mon) : Prop where
  pre : s.handled k = false → s.cpc ≠ .stored k → ∀ t, m.wcur t = true ∧ m.acur t = true
  mid : s.cpc = .stored k → s.handled k = false → m.wcur consT = true ∧ m.acur consT = true
  post : s.handled k = true → m.wcur consT = true ∧ m.carW (wgObj k) = true ∧ 1 ≤ execCount k s
  ranOk : ∀ r, s.cpc = .ran k r → s.handled k = false

theorem dinv_init (k cap : Nat) : DInv k (init cap) Mon.init := by
  refine ⟨?_, ?_, ?_, ?_⟩ <;> simp [init, Mon.init]

/-- a step that does not move task k between its phases; the monitor only learns -/
theorem DInv_frame {k : Nat} {s s' : State} {m m' : Mon}
    (hh : s'.handled k = s.handled k) (hlog : execCount k s ≤ execCount k s')
    (hst : s'.cpc = .stored k ↔ s.cpc = .stored k) (hran : ∀ r, s'.cpc = .ran k r → s.cpc = .ran k r)
    (hw : ∀ u, m.wcur u = true → m'.wcur u = true) (ha : ∀ u, m.acur u = true → m'.acur u = true)
    (hc : m.carW (wgObj k) = true → m'.carW (wgObj k) = true) (h : DInv k s m) : DInv k s' m' := by
  refine ⟨?_, ?_, ?_, ?_⟩
  · intro h1 h2 t
    rw [hh] at h1
    have := h.pre h1 (fun hc' => h2 (hst.2 hc')) t
    exact ⟨hw _ this.1, ha _ this.2⟩
  · intro h1 h2
    rw [hh] at h2
    have := h.mid (hst.1 h1) h2
    exact ⟨hw _ this.1, ha _ this.2⟩
  · intro h1
    rw [hh] at h1
    have := h.post h1
    exact ⟨hw _ this.1, hc this.2.1, Nat.le_trans this.2.2 hlog⟩
  · intro r hr
    rw [hh]
    exact h.ranOk r (hran r hr)

theorem frame_same {k : Nat} {s s' : State} {m : Mon}
    (hh : s'.handled k = s.handled k) (hlog : s'.execLog = s.execLog)
    (hst : s'.cpc = .stored k ↔ s.cpc = .stored k) (hran : ∀ r, s'.cpc = .ran k r → s.cpc = .ran k r)
    (h : DInv k s m) : DInv k s' m :=
  DInv_frame hh (by simp [execCount, hlog]) hst hran (fun _ x => x) (fun _ x => x) (fun x => x) h

/-- allocation of a fresh taskCallback does not touch `handled k` of an allocated or handled task -/
theorem alloc_handled {s : State} (hI : Inv s) (k : Nat) : upd s.handled s.nextTask false k = s.handled k := by
  by_cases hk : k = s.nextTask
  · subst hk
    rw [upd_same]
    cases hh : s.handled s.nextTask with
    | false => rfl
    | true => exact absurd (hI.handledLt _ hh) (Nat.lt_irrefl _)
  · rw [upd_other _ _ _ _ hk]

/-! ### one step -/

theorem dstep (k : Nat) {s : State} {m : Mon} (a : XAct) (hI : Inv s) (h : DInv k s m)
    (hb : execCount k (xstep s a) ≤ 1) :
    ∃ m', m.run (evOf k s a) = some m' ∧ DInv k (xstep s a) m' := by
  cases a with
  | get2 t id =>
    simp only [xstep, evOf]
    split
    · rename_i hc
      have hd := hc.2
      have hh := (hI.doneOk k hd).1
      have hp := h.post hh
      have hw1 : (acqM m (cliT t) (wgObj k)).wcur (cliT t) = true := acq_get _ _ _ hp.2.1
      refine ⟨rdM (acqM m (cliT t) (wgObj k)) (cliT t), ?_, ?_⟩
      · rw [run_cons_some (step_acq _ _ _), run_cons_some (step_rd _ _ hw1)]; rfl
      · refine ⟨?_, ?_, ?_, h.ranOk⟩
        · intro h1; rw [hh] at h1; cases h1
        · intro _ h2; rw [hh] at h2; cases h2
        · intro _
          exact ⟨by simp [rdM, acqM, hp.1], by simp [rdM, acqM, hp.2.1], hp.2.2⟩
    · exact ⟨m, rfl, h⟩
  | act a =>
    simp only [xstep] at hb ⊢
    cases a with
    | sendCallback p b =>
      refine ⟨m, rfl, ?_⟩
      unfold stepD
      cases hs : step s (.sendCallback p b) with
      | none => exact h
      | some s' =>
        simp only [step] at hs
        split at hs <;> try contradiction
        split at hs
        · injection hs with hs; subst hs
          exact frame_same (s := s) (by simp only [beginSend]; exact alloc_handled hI k) rfl Iff.rfl (fun _ x => x) h
        · injection hs with hs; subst hs
          exact frame_same (s := s) rfl rfl Iff.rfl (fun _ x => x) h
    | sendTask p t =>
      refine ⟨m, rfl, ?_⟩
      unfold stepD
      cases hs : step s (.sendTask p t) with
      | none => exact h
      | some s' =>
        simp only [step] at hs
        split at hs <;> try contradiction
        split at hs
        · injection hs with hs; subst hs
          exact frame_same (s := s) rfl rfl Iff.rfl (fun _ x => x) h
        · split at hs <;> try contradiction
          injection hs with hs; subst hs
          exact frame_same (s := s) rfl rfl Iff.rfl (fun _ x => x) h
        · injection hs with hs; subst hs
          exact frame_same (s := s) rfl rfl Iff.rfl (fun _ x => x) h
    | put p =>
      unfold stepD
      simp only [evOf, step]
      cases hp : s.ppc p with
      | idle => exact ⟨m, rfl, h⟩
      | sel msg =>
        simp only []
        by_cases hlen : s.chan.length < s.cap
        · simp only [hlen, if_true, and_true, Option.getD_some]
          by_cases hk : msg.task = .cb k
          · simp only [hk, if_true]
            refine ⟨relM m (prodT p) chanObj, by rw [run_cons_some (step_rel _ _ _)]; rfl, ?_⟩
            exact DInv_frame (s := s) (m := m) (m' := relM m (prodT p) chanObj) rfl (Nat.le_refl _) Iff.rfl
              (fun _ x => x) (fun _ x => x) (fun _ x => x) (rel_c _ _ _ _) h
          · simp only [hk, if_false]
            exact ⟨m, rfl, frame_same (s := s) rfl rfl Iff.rfl (fun _ x => x) h⟩
        · simp only [hlen, if_false, and_false, Option.getD_none]
          exact ⟨m, rfl, h⟩
    | abort p =>
      refine ⟨m, rfl, ?_⟩
      unfold stepD
      cases hs : step s (.abort p) with
      | none => exact h
      | some s' =>
        simp only [step] at hs
        split at hs <;> try contradiction
        split at hs <;> try contradiction
        injection hs with hs; subst hs
        exact frame_same (s := s) rfl rfl Iff.rfl (fun _ x => x) h
    | close =>
      refine ⟨m, rfl, ?_⟩
      exact frame_same (s := s) rfl rfl Iff.rfl (fun _ x => x) h
    | recv =>
      unfold stepD
      simp only [evOf, step]
      cases hc : s.cpc with
      | idle =>
        cases hch : s.chan with
        | nil => exact ⟨m, rfl, h⟩
        | cons msg rest =>
          simp only [Option.getD_some]
          have hfr : ∀ m', (∀ u, m.wcur u = true → m'.wcur u = true) → (∀ u, m.acur u = true → m'.acur u = true) →
              (m.carW (wgObj k) = true → m'.carW (wgObj k) = true) →
              DInv k { s with chan := rest, received := s.received ++ [msg], cpc := .got msg.task } m' := by
            intro m' hw ha hcw
            refine DInv_frame (s := s) rfl (Nat.le_refl _) ?_ ?_ hw ha hcw h
            · simp [hc]
            · intro r hr; simp at hr
          by_cases hk : msg.task = .cb k
          · simp only [hk, if_true]
            refine ⟨acqM m consT chanObj, by rw [run_cons_some (step_acq _ _ _)]; rfl, ?_⟩
            have := hfr (acqM m consT chanObj) (acq_w _ _ _) (acq_a _ _ _) (by simp [acqM])
            rw [hk] at this; exact this
          · simp only [hk, if_false]
            exact ⟨m, rfl, hfr m (fun _ x => x) (fun _ x => x) (fun x => x)⟩
      | got t => exact ⟨m, rfl, h⟩
      | ran id r => exact ⟨m, rfl, h⟩
      | stored id => exact ⟨m, rfl, h⟩
    | call r =>
      refine ⟨m, rfl, ?_⟩
      unfold stepD at hb ⊢
      cases hs : step s (.call r) with
      | none => exact h
      | some s' =>
        rw [hs] at hb
        simp only [Option.getD_some] at hb ⊢
        simp only [step] at hs
        split at hs <;> try contradiction
        rename_i id hc
        injection hs with hs; subst hs
        by_cases hid : id = k
        · subst hid
          -- the handler of k runs: it is its only run, so k was not handled before
          have hcnt : execCount id s = 0 := by
            simp only [execCount, List.countP_append, List.countP_cons, List.countP_nil] at hb ⊢
            simp only [decide_true, if_true] at hb
            omega
          have hnh : s.handled id = false := by
            cases hh : s.handled id with
            | false => rfl
            | true => have := (h.post hh).2.2; omega
          refine ⟨?_, ?_, ?_, ?_⟩
          · intro _ _ t
            exact h.pre hnh (by rw [hc]; intro x; cases x) t
          · intro h1; cases h1
          · intro h1; simp only at h1; rw [hnh] at h1; cases h1
          · intro _ _; exact hnh
        · refine DInv_frame (s := s) rfl ?_ ?_ ?_ (fun _ x => x) (fun _ x => x) (fun x => x) h
          · simp [execCount, List.countP_append]
          · simp [hc]
          · intro r' hr'
            simp only [CPc.ran.injEq] at hr'
            exact absurd hr'.1 hid
    | store =>
      unfold stepD
      simp only [evOf, step]
      cases hc : s.cpc with
      | idle => exact ⟨m, rfl, h⟩
      | got t => exact ⟨m, rfl, h⟩
      | stored id => exact ⟨m, rfl, h⟩
      | ran id r =>
        simp only [Option.getD_some]
        by_cases hid : id = k
        · subst hid
          simp only [if_true]
          have hnh := h.ranOk r hc
          have hall := h.pre hnh (by rw [hc]; intro x; cases x)
          refine ⟨wrM consT, by rw [run_cons_some (step_wr _ _ (hall consT).2)]; rfl, ?_⟩
          refine ⟨?_, ?_, ?_, ?_⟩
          · intro _ h2; exact absurd rfl h2
          · intro _ _; simp [wrM]
          · intro h1; simp only at h1; rw [hnh] at h1; cases h1
          · intro r' hr'; cases hr'
        · simp only [hid, if_false]
          refine ⟨m, rfl, ?_⟩
          refine frame_same (s := s) rfl rfl ?_ ?_ h
          · simp only [hc, CPc.stored.injEq]
            constructor
            · intro x; exact absurd x hid
            · intro x; cases x
          · intro r' hr'; cases hr'
    | finish =>
      unfold stepD
      simp only [evOf, step]
      cases hc : s.cpc with
      | idle => exact ⟨m, rfl, h⟩
      | got t => exact ⟨m, rfl, h⟩
      | ran id r => exact ⟨m, rfl, h⟩
      | stored id =>
        simp only []
        by_cases hid : id = k
        · subst hid
          simp only [if_true]
          have hlog : 1 ≤ execCount id s := by
            have := hI.cpcOk
            rw [hc] at this
            simp only [execCount]
            exact List.countP_pos_iff.2 ⟨_, this.2, by simp⟩
          cases hh : s.handled id with
          | true =>
            -- a later Do: no Done, `return task.err`
            simp only [if_true, List.nil_append, Option.getD_some]
            have hp := h.post hh
            refine ⟨rdM m consT, by rw [run_cons_some (step_rd _ _ hp.1)]; rfl, ?_⟩
            refine ⟨?_, ?_, ?_, ?_⟩
            · intro h1; simp only at h1; rw [hh] at h1; cases h1
            · intro h1; cases h1
            · intro _; exact ⟨by simp [rdM, hp.1], by simp [rdM, hp.2.1], hp.2.2⟩
            · intro r hr; cases hr
          | false =>
            simp only [Bool.false_eq_true, if_false, List.cons_append, List.nil_append, Option.getD_some]
            have hm := h.mid hc hh
            have hw1 : (relM m consT (wgObj id)).wcur consT = true := by simp [relM, hm.1]
            refine ⟨rdM (relM m consT (wgObj id)) consT, ?_, ?_⟩
            · rw [run_cons_some (step_rel _ _ _), run_cons_some (step_rd _ _ hw1)]; rfl
            · refine ⟨?_, ?_, ?_, ?_⟩
              · intro h1; simp at h1
              · intro h1; cases h1
              · intro _
                exact ⟨by simp [rdM, relM, hm.1], by simp [rdM, relM, hm.1], hlog⟩
              · intro r hr; cases hr
        · simp only [hid, if_false]
          refine ⟨m, rfl, ?_⟩
          have hne : ¬ k = id := fun x => hid x.symm
          split
          · simp only [Option.getD_some]
            refine frame_same (s := s) rfl rfl ?_ ?_ h
            · simp only [hc, CPc.stored.injEq]
              constructor
              · intro x; cases x
              · intro x; exact absurd x hid
            · intro r hr; cases hr
          · simp only [Option.getD_some]
            refine frame_same (s := s) (by simp only [upd, hne, if_false]) rfl ?_ ?_ h
            · simp only [hc, CPc.stored.injEq]
              constructor
              · intro x; cases x
              · intro x; exact absurd x hid
            · intro r hr; cases hr
    | doOther =>
      refine ⟨m, rfl, ?_⟩
      unfold stepD
      cases hs : step s .doOther with
      | none => exact h
      | some s' =>
        simp only [step] at hs
        split at hs <;> try contradiction
        all_goals
          rename_i hc
          injection hs with hs; subst hs
          refine frame_same (s := s) rfl rfl ?_ ?_ h
          · simp [hc]
          · intro r hr; cases hr
    | redo id =>
      refine ⟨m, rfl, ?_⟩
      unfold stepD
      cases hs : step s (.redo id) with
      | none => exact h
      | some s' =>
        simp only [step] at hs
        split at hs <;> try contradiction
        rename_i hc
        split at hs <;> try contradiction
        injection hs with hs; subst hs
        refine frame_same (s := s) rfl rfl ?_ ?_ h
        · simp [hc]
        · intro r hr; cases hr

/-! ### every execution -/

theorem execCount_mono_step (k : Nat) (s : State) (a : XAct) : execCount k s ≤ execCount k (xstep s a) := by
  cases a with
  | get2 t id => exact Nat.le_refl _
  | act a =>
    simp only [xstep, stepD]
    cases hs : step s a with
    | none => exact Nat.le_refl _
    | some s' =>
      simp only [Option.getD_some]
      cases a <;> simp only [step, beginSend] at hs <;> (repeat' split at hs) <;>
        first
        | contradiction
        | (injection hs with hs; subst hs; simp [execCount, List.countP_append])

theorem execCount_mono (k : Nat) (acts : List XAct) : ∀ s, execCount k s ≤ execCount k (xrun s acts) := by
  induction acts with
  | nil => intro s; exact Nat.le_refl _
  | cons a as ih =>
    intro s
    exact Nat.le_trans (execCount_mono_step k s a) (ih (xstep s a))

theorem inv_xstep {s : State} (a : XAct) (hI : Inv s) : Inv (xstep s a) := by
  cases a with
  | get2 t id => exact hI
  | act a => exact inv_stepD hI

theorem result_run (k : Nat) (acts : List XAct) : ∀ (s : State) (m : Mon), Inv s → DInv k s m →
    execCount k (xrun s acts) ≤ 1 → ∃ m', m.run (resultEvents k s acts) = some m' := by
  induction acts with
  | nil => intro s m _ _ _; exact ⟨m, rfl⟩
  | cons a as ih =>
    intro s m hI h hb
    have hb1 : execCount k (xstep s a) ≤ 1 := Nat.le_trans (execCount_mono k as (xstep s a)) hb
    obtain ⟨m1, hr1, h1⟩ := dstep k a hI h hb1
    obtain ⟨m2, hr2⟩ := ih (xstep s a) m1 (inv_xstep a hI) h1 hb
    refine ⟨m2, ?_⟩
    simp only [resultEvents]
    rw [run_append, hr1]
    exact hr2

/-- taskx.Queue with a single consumer: in every execution in which the handler of task `k` is executed at most once,
    the plain accesses of `task.result / task.err` follow the publication discipline -/
theorem result_accepted (cap : Nat) (acts : List XAct) (k : Nat)
    (honce : execCount k (xrun (init cap) acts) ≤ 1) : accepts (resultEvents k (init cap) acts) = true := by
  obtain ⟨m', hm⟩ := result_run k acts (init cap) Mon.init (inv_init cap) (dinv_init k cap) honce
  simp [accepts, hm]

theorem result_raceFree (cap : Nat) (acts : List XAct) (k : Nat)
    (honce : execCount k (xrun (init cap) acts) ≤ 1) : RaceFree (resultEvents k (init cap) acts) :=
  accepts_raceFree _ (result_accepted cap acts k honce)

/-! ### controls (kernel-evaluated) -/

/-- one producer, one consumer, two clients: send, receive, Do, both clients Get2 -/
def okActs : List XAct :=
  [.act (.sendCallback 0 true), .act (.put 0), .get2 0 0, .act .recv, .act (.call (some 7, none)), .get2 1 0,
   .act .store, .act .finish, .get2 0 0, .get2 1 0]

theorem ok_trace : resultEvents 0 (init 1) okActs =
    [.rel (prodT 0) chanObj, .acq consT chanObj, .wr consT, .rel consT (wgObj 0), .rd consT,
     .acq (cliT 0) (wgObj 0), .rd (cliT 0), .acq (cliT 1) (wgObj 0), .rd (cliT 1)] := by decide

theorem ok_once : execCount 0 (xrun (init 1) okActs) = 1 := by decide

theorem ok_accepted : accepts (resultEvents 0 (init 1) okActs) = true := by decide

/-- the documented limitation: the consumer calls Do again after a client's Get2 returned — the second store is a plain
    write that is not ordered after the client's read -/
def redoActs : List XAct :=
  [.act (.sendCallback 0 true), .act (.put 0), .act .recv, .act (.call (some 7, none)), .act .store, .act .finish,
   .get2 0 0, .act (.redo 0), .act (.call (some 8, none)), .act .store]

theorem redo_twice : execCount 0 (xrun (init 1) redoActs) = 2 := by decide

/-- negative control: a second Do after a client's Get2 gives a rejected trace -/
theorem second_do_rejected : accepts (resultEvents 0 (init 1) redoActs) = false := by decide

/-- the same through SendTask: the task is sent and received a second time -/
def resendActs : List XAct :=
  [.act (.sendCallback 0 true), .act (.put 0), .act .recv, .act (.call (some 7, none)), .act .store, .act .finish,
   .get2 0 0, .act (.sendTask 0 (some (.cb 0))), .act (.put 0), .act .recv, .act (.call (some 8, none)), .act .store]

theorem resend_rejected : accepts (resultEvents 0 (init 1) resendActs) = false := by decide

end Got.Lemmas.DiscTaskQ
