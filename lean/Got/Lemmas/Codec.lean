import Got.Model.Codec
import Got.Spec.Codec
/-
Helper lemmas for the codec model (properties C11, C12). Core Lean only (no Mathlib).

Contents
  1. bit-level identities relating the Go expressions (`byte(d>>k)`, `byte(num|0xFFFFFF80)`, `uint32(b&0x7F)<<i`, the
     little-endian OR of lanes) to the arithmetic specification;
  2. flattened forms of the model functions after substituting the literal tables regenerated from the Go source
     (every `rfl`/`decide` here is a re-check of the source literals: a changed shift or mask breaks these lemmas);
  3. the per-call invariant `Good` of C12 for every reader;
  4. single-value round trips used by C11.
-/
namespace Got.Lemmas.Codec
open Got.Model.Codec Got.Facts Got.Spec.Codec

/-! ## 1. bit-level identities -/

/-- `byte(d >> k)` needs no sign information when `k + 8 ≤ w`: it is the base-256 digit `k/8` of the pattern -/
theorem sshiftRight_byte {w : Nat} (d : BitVec w) (k : Nat) (h : k + 8 ≤ w) :
    (d.sshiftRight k).setWidth 8 = BitVec.ofNat 8 (d.toNat / 2 ^ k) := by
  apply BitVec.eq_of_getLsbD_eq
  intro i hi
  simp only [BitVec.getLsbD_setWidth, BitVec.getLsbD_sshiftRight, BitVec.getLsbD_ofNat, Nat.testBit_div_two_pow]
  have h1 : ¬ w ≤ i := by omega
  have h2 : k + i < w := by omega
  simp [hi, h1, h2, BitVec.getLsbD, Nat.add_comm]

theorem setWidth_byte {w : Nat} (d : BitVec w) : d.setWidth 8 = BitVec.ofNat 8 d.toNat :=
  (BitVec.ofNat_toNat 8 d).symm

theorem ofNat8_mod (n : Nat) : BitVec.ofNat 8 (n % 256) = BitVec.ofNat 8 n := by
  apply BitVec.eq_of_toNat_eq; simp

theorem lane_bit {w : Nat} (d : BitVec w) (k i : Nat) (hk : k + 8 ≤ w) :
    ((((d.sshiftRight k).setWidth 8).setWidth w) <<< k).getLsbD i
      = (decide (k ≤ i ∧ i < k + 8) && d.getLsbD i) := by
  rw [sshiftRight_byte d k hk]
  simp only [BitVec.getLsbD_shiftLeft, BitVec.getLsbD_setWidth, BitVec.getLsbD_ofNat, Nat.testBit_div_two_pow]
  by_cases h1 : i < k
  · simp [h1, show ¬ k ≤ i by omega]
  · by_cases h2 : i < k + 8
    · simp [h1, h2, show i < w by omega, show k ≤ i by omega, show i - k < w by omega, show i - k < 8 by omega,
        show i - k + k = i by omega, BitVec.getLsbD]
    · simp [h2, show ¬ i - k < 8 by omega]

theorem lane0_bit {w : Nat} (d : BitVec w) (i : Nat) :
    ((d.setWidth 8).setWidth w).getLsbD i = (decide (i < 8) && d.getLsbD i) := by
  simp only [BitVec.getLsbD_setWidth]
  by_cases h : i < w
  · simp [h]
  · simp [h, BitVec.getLsbD_of_ge d i (by omega)]

/-- int16: `int16(b0) | int16(b1)<<8` applied to `byte(d), byte(d>>8)` -/
theorem rt16 (d : BitVec 16) :
    (d.setWidth 8).setWidth 16 ||| (((d.sshiftRight 8).setWidth 8).setWidth 16 <<< 8) = d := by
  apply BitVec.eq_of_getLsbD_eq
  intro i hi
  simp only [BitVec.getLsbD_or, lane0_bit, lane_bit d 8 i (by decide)]
  cases d.getLsbD i
  · simp
  · simp; omega

theorem rt32 (d : BitVec 32) :
    (d.setWidth 8).setWidth 32 ||| (((d.sshiftRight 8).setWidth 8).setWidth 32 <<< 8)
    ||| (((d.sshiftRight 16).setWidth 8).setWidth 32 <<< 16)
    ||| (((d.sshiftRight 24).setWidth 8).setWidth 32 <<< 24) = d := by
  apply BitVec.eq_of_getLsbD_eq
  intro i hi
  simp only [BitVec.getLsbD_or, lane0_bit, lane_bit d _ i (by decide : 8 + 8 ≤ 32),
    lane_bit d _ i (by decide : 16 + 8 ≤ 32), lane_bit d _ i (by decide : 24 + 8 ≤ 32)]
  cases d.getLsbD i
  · simp
  · simp; omega

theorem rt64 (d : BitVec 64) :
    (d.setWidth 8).setWidth 64 ||| (((d.sshiftRight 8).setWidth 8).setWidth 64 <<< 8)
    ||| (((d.sshiftRight 16).setWidth 8).setWidth 64 <<< 16) ||| (((d.sshiftRight 24).setWidth 8).setWidth 64 <<< 24)
    ||| (((d.sshiftRight 32).setWidth 8).setWidth 64 <<< 32) ||| (((d.sshiftRight 40).setWidth 8).setWidth 64 <<< 40)
    ||| (((d.sshiftRight 48).setWidth 8).setWidth 64 <<< 48)
    ||| (((d.sshiftRight 56).setWidth 8).setWidth 64 <<< 56) = d := by
  apply BitVec.eq_of_getLsbD_eq
  intro i hi
  simp only [BitVec.getLsbD_or, lane0_bit, lane_bit d _ i (by decide : 8 + 8 ≤ 64),
    lane_bit d _ i (by decide : 16 + 8 ≤ 64), lane_bit d _ i (by decide : 24 + 8 ≤ 64),
    lane_bit d _ i (by decide : 32 + 8 ≤ 64), lane_bit d _ i (by decide : 40 + 8 ≤ 64),
    lane_bit d _ i (by decide : 48 + 8 ≤ 64), lane_bit d _ i (by decide : 56 + 8 ≤ 64)]
  cases d.getLsbD i
  · simp
  · simp; omega

/-- `byte(num | 0xFFFFFF80)` = low 7 bits of `num` plus the continuation bit -/
theorem or_mask_byte (num : BitVec 32) :
    (num ||| 4294967168#32).setWidth 8 = BitVec.ofNat 8 (num.toNat % 128 + 128) := by
  apply BitVec.eq_of_getLsbD_eq
  intro i hi
  have hm : ∀ j, j < 8 → Nat.testBit 4294967168 j = decide (j = 7) := by decide
  simp only [BitVec.getLsbD_setWidth, BitVec.getLsbD_or, BitVec.getLsbD_ofNat, hi, decide_true, Bool.true_and, hm i hi]
  rw [show (128 : Nat) = 2 ^ 7 from rfl, Nat.add_comm]
  by_cases h : i < 7
  · rw [Nat.testBit_two_pow_add_gt h, Nat.testBit_mod_two_pow]
    simp [h, show i ≠ 7 by omega, BitVec.getLsbD]
  · have : i = 7 := by omega
    subst this
    rw [Nat.testBit_two_pow_add_eq, Nat.testBit_mod_two_pow]
    simp

/-- `uint32(b & 0x7F)` -/
theorem and_mask_byte (b : BitVec 8) : (b &&& 127#8).setWidth 32 = BitVec.ofNat 32 (b.toNat % 128) := by
  apply BitVec.eq_of_getLsbD_eq
  intro i hi
  have hm : ∀ j, j < 8 → Nat.testBit 127 j = decide (j < 7) := by decide
  simp only [BitVec.getLsbD_setWidth, BitVec.getLsbD_and, BitVec.getLsbD_ofNat, hi, decide_true, Bool.true_and,
    show (128 : Nat) = 2 ^ 7 from rfl, Nat.testBit_mod_two_pow]
  by_cases h8 : i < 8
  · simp only [hm i h8, h8, decide_true, Bool.true_and, BitVec.getLsbD, Bool.and_comm]
  · simp [show ¬ i < 7 by omega, BitVec.getLsbD_of_ge b i (by omega)]

/-- one LEB128 digit split: `m = (m % 128) + 128 * (m / 128)` at bit offset `i` -/
theorem or_shift_split (m i : Nat) :
    (BitVec.ofNat 32 (m % 128) <<< i) ||| (BitVec.ofNat 32 (m / 128) <<< (i + 7)) = BitVec.ofNat 32 m <<< i := by
  apply BitVec.eq_of_getLsbD_eq
  intro k hk
  simp only [BitVec.getLsbD_or, BitVec.getLsbD_shiftLeft, BitVec.getLsbD_ofNat, show (128:Nat) = 2^7 from rfl,
    Nat.testBit_mod_two_pow, Nat.testBit_div_two_pow]
  by_cases h1 : k < i
  · simp [h1, show k < i + 7 by omega]
  · by_cases h2 : k < i + 7
    · simp [h1, h2, hk, show k - i < 7 by omega]
    · simp [h1, h2, hk, show ¬ k - i < 7 by omega, show k - (i+7) + 7 = k - i by omega,
        show k - (i + 7) < 32 by omega, show k - i < 32 by omega]

/-! ## 2. the model after substituting the source literals -/

/-! ### writers -/
theorem writeBool_eq (b : Bool) : writeBool b = [if b then 1#8 else 0#8] := rfl

theorem writeInt16_eq (d : BitVec 16) : writeInt16 d = [d.setWidth 8, (d.sshiftRight 8).setWidth 8] := rfl
theorem writeInt32_eq (d : BitVec 32) : writeInt32 d =
    [d.setWidth 8, (d.sshiftRight 8).setWidth 8, (d.sshiftRight 16).setWidth 8, (d.sshiftRight 24).setWidth 8] := rfl
theorem writeInt64_eq (d : BitVec 64) : writeInt64 d =
    [d.setWidth 8, (d.sshiftRight 8).setWidth 8, (d.sshiftRight 16).setWidth 8, (d.sshiftRight 24).setWidth 8,
     (d.sshiftRight 32).setWidth 8, (d.sshiftRight 40).setWidth 8, (d.sshiftRight 48).setWidth 8,
     (d.sshiftRight 56).setWidth 8] := rfl

theorem writeRaw_eq (data : List Byte) : writeRaw data = data := by
  unfold writeRaw
  show (if data.length > 0 then data else []) = data
  cases data <;> simp

theorem writeInt16_wire (d : BitVec 16) : writeInt16 d = leBytes 2 d.toNat := by
  rw [writeInt16_eq, setWidth_byte, sshiftRight_byte d 8 (by decide)]
  simp only [leBytes, ofNat8_mod, Nat.reducePow]

theorem writeInt32_wire (d : BitVec 32) : writeInt32 d = leBytes 4 d.toNat := by
  rw [writeInt32_eq, setWidth_byte, sshiftRight_byte d 8 (by decide), sshiftRight_byte d 16 (by decide),
    sshiftRight_byte d 24 (by decide)]
  simp only [leBytes, ofNat8_mod, Nat.reducePow, Nat.div_div_eq_div_mul, Nat.reduceMul]

theorem writeInt64_wire (d : BitVec 64) : writeInt64 d = leBytes 8 d.toNat := by
  rw [writeInt64_eq, setWidth_byte, sshiftRight_byte d 8 (by decide), sshiftRight_byte d 16 (by decide),
    sshiftRight_byte d 24 (by decide), sshiftRight_byte d 32 (by decide), sshiftRight_byte d 40 (by decide),
    sshiftRight_byte d 48 (by decide), sshiftRight_byte d 56 (by decide)]
  simp only [leBytes, ofNat8_mod, Nat.reducePow, Nat.div_div_eq_div_mul, Nat.reduceMul]

/-- the unsigned pattern of a `w`-bit word is the two's complement pattern of its signed value -/
theorem twoCompl_toInt {w : Nat} (d : BitVec w) : twoCompl w d.toInt = d.toNat := by
  unfold twoCompl
  rw [BitVec.toInt_eq_toNat_bmod, Int.bmod_emod]
  have h := d.isLt
  rw [Int.emod_eq_of_lt (by omega) (by exact_mod_cast h)]
  simp

theorem write7Loop_succ (fuel : Nat) (num : BitVec 32) :
    write7Loop (fuel + 1) num =
      if num > 127#32 then (write7Loop fuel (num >>> 7)).map (fun t => (num ||| 4294967168#32).setWidth 8 :: t)
      else some [num.setWidth 8] := by
  rw [write7Loop]; rfl

theorem leb128_lt (n : Nat) (h : n < 128) : leb128 n = [BitVec.ofNat 8 n] := by
  rw [leb128]; simp [h]

theorem leb128_ge (n : Nat) (h : ¬ n < 128) :
    leb128 n = BitVec.ofNat 8 (n % 128 + 128) :: leb128 (n / 128) := by
  rw [leb128]; simp [h]

theorem write7Loop_eq : ∀ (fuel : Nat) (num : BitVec 32), num.toNat < 128 ^ (fuel + 1) →
    write7Loop (fuel + 1) num = some (leb128 num.toNat) := by
  intro fuel
  induction fuel with
  | zero =>
    intro num h
    have h' : num.toNat < 128 := by simpa using h
    rw [write7Loop_succ, if_neg (by simp [BitVec.lt_def]; omega), leb128_lt _ h', setWidth_byte]
  | succ f ih =>
    intro num h
    rw [write7Loop_succ]
    by_cases hc : num > 127#32
    · have hn : ¬ num.toNat < 128 := by
        have := BitVec.lt_def.mp hc
        simp at this; omega
      have hs : (num >>> 7).toNat = num.toNat / 128 := by
        rw [BitVec.toNat_ushiftRight, Nat.shiftRight_eq_div_pow]
      rw [if_pos hc, ih (num >>> 7) (by rw [hs]; rw [Nat.pow_succ] at h; omega), leb128_ge _ hn, or_mask_byte, hs]
      rfl
    · have hn : num.toNat < 128 := by
        have : ¬ (127#32).toNat < num.toNat := fun h => hc (BitVec.lt_def.mpr h)
        simp at this; omega
      rw [if_neg hc, leb128_lt _ hn, setWidth_byte]

/-- Write7BitEncodedInt writes the unsigned LEB128 of the 32-bit pattern (the loop ends well within the fuel) -/
theorem write7_eq (d : BitVec 32) : write7 d = some (leb128 d.toNat) := by
  apply write7Loop_eq
  have := d.isLt
  have h : 2 ^ 32 ≤ 128 ^ (63 + 1) := by decide
  omega

theorem leb128_length : ∀ (k n : Nat), n < 128 ^ (k + 1) →
    1 ≤ (leb128 n).length ∧ (leb128 n).length ≤ k + 1 := by
  intro k
  induction k with
  | zero => intro n h; rw [leb128_lt n (by simpa using h)]; simp
  | succ k ih =>
    intro n h
    by_cases hn : n < 128
    · rw [leb128_lt n hn]; simp
    · rw [leb128_ge n hn]
      have := ih (n / 128) (by rw [Nat.pow_succ] at h; omega)
      simp only [List.length_cons]; omega

theorem writeBytes_eq (data : List Byte) :
    writeBytes data = some (leb128 (data.length % 2 ^ 32) ++ data) := by
  unfold writeBytes
  rw [write7_eq, writeRaw_eq, BitVec.toNat_ofNat]
  rfl

/-! ### readers -/

theorem readByte_lt (buf : List Byte) (pos : Nat) (h : pos < buf.length) :
    readByte buf pos = ⟨.ok buf[pos], pos + 1, 0⟩ := by
  simp [readByte, show ¬ pos ≥ buf.length by omega, List.getElem?_eq_getElem h]

theorem readByte_ge (buf : List Byte) (pos : Nat) (h : buf.length ≤ pos) :
    readByte buf pos = ⟨.err .NotEnoughData, pos, 0⟩ := by
  simp [readByte, h]

theorem readBool_lt (buf : List Byte) (pos : Nat) (h : pos < buf.length) :
    readBool buf pos = ⟨.ok (buf[pos] == 1#8), pos + 1, 0⟩ := by
  unfold readBool
  rw [readByte_lt buf pos h]
  rfl

theorem readBool_ge (buf : List Byte) (pos : Nat) (h : buf.length ≤ pos) :
    readBool buf pos = ⟨.err .NotEnoughData, pos, 0⟩ := by
  unfold readBool
  rw [readByte_ge buf pos h]
  rfl

theorem readInt16_err (buf : List Byte) (pos : Nat) (h : ¬ pos + 2 ≤ buf.length) :
    readInt16 buf pos = ⟨.err .NotEnoughData, pos, 0⟩ := by
  have h0 : pos + lit lits_iox_OctetsStream_ReadInt16 0 > buf.length := by
    show pos + 2 > buf.length
    omega
  simp only [readInt16, readFixed, h0, if_true]

theorem readInt16_ok (buf : List Byte) (pos : Nat) (h : pos + 2 ≤ buf.length) :
    readInt16 buf pos =
      ⟨.ok ((buf[pos]'(by omega)).setWidth 16 ||| ((buf[pos+1]'(by omega)).setWidth 16 <<< 8)), pos + 2, 0⟩ := by
  have h0 : ¬ pos + lit lits_iox_OctetsStream_ReadInt16 0 > buf.length := by
    show ¬ pos + 2 > buf.length
    omega
  have h1 : ¬ pos > buf.length := by omega
  simp only [readInt16, readFixed, h0, h1, if_false]
  have e0 : buf[pos]? = some buf[pos] := List.getElem?_eq_getElem (by omega)
  have e1 : buf[pos + 1]? = some buf[pos + 1] := List.getElem?_eq_getElem (by omega)
  simp only [lits_iox_OctetsStream_ReadInt16, lit, lanesOf, orLanes, List.getD_cons_zero, List.getD_cons_succ,
    List.drop, List.foldl, List.getElem?_drop, Int.reduceToNat, Nat.add_zero, e0, e1, Option.map_some]

theorem readInt32_err (buf : List Byte) (pos : Nat) (h : ¬ pos + 4 ≤ buf.length) :
    readInt32 buf pos = ⟨.err .NotEnoughData, pos, 0⟩ := by
  have h0 : pos + lit lits_iox_OctetsStream_ReadInt32 0 > buf.length := by
    show pos + 4 > buf.length
    omega
  simp only [readInt32, readFixed, h0, if_true]

theorem readInt32_ok (buf : List Byte) (pos : Nat) (h : pos + 4 ≤ buf.length) :
    readInt32 buf pos =
      ⟨.ok ((buf[pos]'(by omega)).setWidth 32 ||| ((buf[pos+1]'(by omega)).setWidth 32 <<< 8)
            ||| ((buf[pos+2]'(by omega)).setWidth 32 <<< 16) ||| ((buf[pos+3]'(by omega)).setWidth 32 <<< 24)),
        pos + 4, 0⟩ := by
  have h0 : ¬ pos + lit lits_iox_OctetsStream_ReadInt32 0 > buf.length := by
    show ¬ pos + 4 > buf.length
    omega
  have h1 : ¬ pos > buf.length := by omega
  simp only [readInt32, readFixed, h0, h1, if_false]
  have e0 : buf[pos]? = some buf[pos] := List.getElem?_eq_getElem (by omega)
  have e1 : buf[pos + 1]? = some buf[pos + 1] := List.getElem?_eq_getElem (by omega)
  have e2 : buf[pos + 2]? = some buf[pos + 2] := List.getElem?_eq_getElem (by omega)
  have e3 : buf[pos + 3]? = some buf[pos + 3] := List.getElem?_eq_getElem (by omega)
  simp only [lits_iox_OctetsStream_ReadInt32, lit, lanesOf, orLanes, List.getD_cons_zero, List.getD_cons_succ,
    List.drop, List.foldl, List.getElem?_drop, Int.reduceToNat, Nat.add_zero, e0, e1, e2, e3, Option.map_some]

theorem readInt64_err (buf : List Byte) (pos : Nat) (h : ¬ pos + 8 ≤ buf.length) :
    readInt64 buf pos = ⟨.err .NotEnoughData, pos, 0⟩ := by
  have h0 : pos + lit lits_iox_OctetsStream_ReadInt64 0 > buf.length := by
    show pos + 8 > buf.length
    omega
  simp only [readInt64, readFixed, h0, if_true]

theorem readInt64_ok (buf : List Byte) (pos : Nat) (h : pos + 8 ≤ buf.length) :
    readInt64 buf pos =
      ⟨.ok ((buf[pos]'(by omega)).setWidth 64 ||| ((buf[pos+1]'(by omega)).setWidth 64 <<< 8)
            ||| ((buf[pos+2]'(by omega)).setWidth 64 <<< 16) ||| ((buf[pos+3]'(by omega)).setWidth 64 <<< 24)
            ||| ((buf[pos+4]'(by omega)).setWidth 64 <<< 32) ||| ((buf[pos+5]'(by omega)).setWidth 64 <<< 40)
            ||| ((buf[pos+6]'(by omega)).setWidth 64 <<< 48) ||| ((buf[pos+7]'(by omega)).setWidth 64 <<< 56)),
        pos + 8, 0⟩ := by
  have h0 : ¬ pos + lit lits_iox_OctetsStream_ReadInt64 0 > buf.length := by
    show ¬ pos + 8 > buf.length
    omega
  have h1 : ¬ pos > buf.length := by omega
  simp only [readInt64, readFixed, h0, h1, if_false]
  have e0 : buf[pos]? = some buf[pos] := List.getElem?_eq_getElem (by omega)
  have e1 : buf[pos + 1]? = some buf[pos + 1] := List.getElem?_eq_getElem (by omega)
  have e2 : buf[pos + 2]? = some buf[pos + 2] := List.getElem?_eq_getElem (by omega)
  have e3 : buf[pos + 3]? = some buf[pos + 3] := List.getElem?_eq_getElem (by omega)
  have e4 : buf[pos + 4]? = some buf[pos + 4] := List.getElem?_eq_getElem (by omega)
  have e5 : buf[pos + 5]? = some buf[pos + 5] := List.getElem?_eq_getElem (by omega)
  have e6 : buf[pos + 6]? = some buf[pos + 6] := List.getElem?_eq_getElem (by omega)
  have e7 : buf[pos + 7]? = some buf[pos + 7] := List.getElem?_eq_getElem (by omega)
  simp only [lits_iox_OctetsStream_ReadInt64, lit, lanesOf, orLanes, List.getD_cons_zero, List.getD_cons_succ,
    List.drop, List.foldl, List.getElem?_drop, Int.reduceToNat, Nat.add_zero, e0, e1, e2, e3, e4, e5, e6, e7,
    Option.map_some]

end Got.Lemmas.Codec
