import Got.Lemmas.MSQueueSolo
/-
System-wide lock-freedom of the Michael–Scott queue model: under ANY interleaving of the steps of
busy threads with ids below `n` (nothing is assumed about which thread is scheduled), some operation
returns within `F n = (K*n+1)*(2*n+2)` steps.

Potential argument.  `phi n s = Σ_{t<n} cr s t + (K*n+1) * budget n s` (`cr` = `mu`, or `K` for an idle thread), where `budget` bounds the
number of heap-changing steps that can still happen without any return:
`budget n s = 2 * (n - #{t<n at p5}) + (chain.length - 1 - ti)`.
Every step of a busy thread either returns (one more `.ret` in the log) or strictly decreases `phi`:
* a step that leaves the heap unchanged decreases the stepping thread's `mu` (`mu_dec`) and leaves
  every other thread's `mu` unchanged;
* a successful link moves the thread to `p5` (budget −2) and makes the tail lag (budget +1);
* a successful helping tail swing removes the lag (budget −1);
  both may raise the `mu` of the other threads, but `Σ mu ≤ K*n < K*n+1`.
Invocations (idle → p1/d1) do not increase `phi` (an idle thread already holds credit `K`), so the
result also holds with invocations interleaved (`lock_free_window`: `m * F n` tau steps complete at
least `m` operations); `lock_free_global` is the `tau`-only corollary.  With `tau` steps only, every
thread returns at most once, so long all-busy schedules do not exist for small `n`; the windowed
form is the one whose hypotheses are jointly satisfiable (`rr_hyps`).
Core Lean only.
-/
namespace Got.Model.MSQueue
open Got.Spec.Lin

/-! ### finite sums over thread ids `< n` -/

def sumTo (f : Nat → Nat) : Nat → Nat
  | 0 => 0
  | n + 1 => sumTo f n + f n

theorem sumTo_congr {f g : Nat → Nat} : ∀ {n : Nat}, (∀ i, i < n → f i = g i) → sumTo f n = sumTo g n
  | 0, _ => rfl
  | n + 1, h => by
    have h1 := sumTo_congr (n := n) (fun i hi => h i (by omega))
    have h2 := h n (by omega)
    simp only [sumTo]; omega

theorem sumTo_le {f : Nat → Nat} {k : Nat} : ∀ {n : Nat}, (∀ i, i < n → f i ≤ k) → sumTo f n ≤ k * n
  | 0, _ => by simp only [sumTo]; omega
  | n + 1, h => by
    have h1 := sumTo_le (n := n) (fun i hi => h i (by omega))
    have h2 := h n (by omega)
    simp only [sumTo, Nat.mul_succ]; omega

/-- `f` and `g` agree below `n` except at `u`, where `f u + d = g u`. -/
theorem sumTo_diff {f g : Nat → Nat} {u d : Nat} : ∀ {n : Nat}, u < n →
    (∀ i, i < n → i ≠ u → f i = g i) → f u + d = g u → sumTo f n + d = sumTo g n
  | 0, hu, _, _ => by omega
  | n + 1, hu, h, hd => by
    by_cases e : u = n
    · subst e
      have h1 := sumTo_congr (n := u) (fun i hi => h i (by omega) (by omega))
      simp only [sumTo]; omega
    · have h1 := sumTo_diff (n := n) (by omega) (fun i hi hne => h i (by omega) hne) hd
      have h2 := h n (by omega) (fun e' => e e'.symm)
      simp only [sumTo]; omega

theorem sumTo_mono {f g : Nat → Nat} : ∀ {n : Nat}, (∀ i, i < n → f i ≤ g i) → sumTo f n ≤ sumTo g n
  | 0, _ => Nat.le_refl _
  | n + 1, h => by
    have h1 := sumTo_mono (n := n) (fun i hi => h i (by omega))
    have h2 := h n (by omega)
    simp only [sumTo]; omega

theorem sumTo_lt {f g : Nat → Nat} {u : Nat} : ∀ {n : Nat}, u < n →
    (∀ i, i < n → f i ≤ g i) → f u < g u → sumTo f n < sumTo g n
  | 0, hu, _, _ => by omega
  | n + 1, hu, h, hd => by
    have h2 := h n (by omega)
    by_cases e : u = n
    · subst e
      have h1 := sumTo_mono (n := u) (fun i hi => h i (by omega))
      simp only [sumTo]; omega
    · have h1 := sumTo_lt (n := n) (by omega) (fun i hi => h i (by omega)) hd
      simp only [sumTo]; omega

/-! ### completed operations -/

def isRet : LEv → Bool
  | .ret _ _ => true
  | _ => false

/-- number of completed operations = number of `.ret` events in the ghost log. -/
def completed (s : State) : Nat := (s.log.filter isRet).length

/-- a schedule of `tau` steps in which every step is taken by a thread that is busy at that moment. -/
def BusySched : State → List Nat → Prop
  | _, [] => True
  | s, t :: ts => busy s t ∧ BusySched (tau s t) ts

instance : (s : State) → (ts : List Nat) → Decidable (BusySched s ts)
  | _, [] => isTrue trivial
  | s, t :: ts =>
    have := instDecidableBusySched (tau s t) ts
    by unfold BusySched; infer_instance

theorem completed_log {s s' : State} {evs : List LEv} (h : s'.log = s.log ++ evs) :
    completed s' = completed s + (evs.filter isRet).length := by
  unfold completed; rw [h, List.filter_append, List.length_append]

/-! ### potential -/

def isP5 : Pc → Bool
  | .p5 _ _ => true
  | _ => false

/-- number of threads `< n` parked at `p5` (node linked, about to swing the tail and return). -/
def nP5 (n : Nat) (s : State) : Nat := sumTo (fun t => if isP5 (s.pc t) then 1 else 0) n

/-- how far the tail is behind the end of the chain (0 or 1 under `Inv`). -/
def lagAmt (h : Heap) : Nat := h.chain.length - 1 - h.ti

/-- upper bound on the number of heap-changing steps before the next return. -/
def budget (n : Nat) (s : State) : Nat := 2 * (n - nP5 n s) + lagAmt s.toHeap

/-- credit of a thread: an idle thread holds `K` (enough to pay for its next operation), a busy
    thread holds its solo measure `mu`. -/
def cr (s : State) (t : Nat) : Nat := if s.pc t = .idle then K else mu s t

def sumCr (n : Nat) (s : State) : Nat := sumTo (cr s) n

def phi (n : Nat) (s : State) : Nat := sumCr n s + (K * n + 1) * budget n s

/-- the global bound. -/
def F (n : Nat) : Nat := (K * n + 1) * (2 * n + 2)

theorem nP5_le (n : Nat) (s : State) : nP5 n s ≤ n := by
  have := sumTo_le (f := fun t => if isP5 (s.pc t) then 1 else 0) (k := 1) (n := n)
    (fun i _ => by split <;> omega)
  unfold nP5; omega

theorem cr_le_K (s : State) (t : Nat) : cr s t ≤ K := by
  unfold cr; split
  · exact Nat.le_refl _
  · exact mu_le_K s t

theorem sumCr_le (n : Nat) (s : State) : sumCr n s ≤ K * n :=
  sumTo_le (fun i _ => cr_le_K s i)
/-! ### classification of the steps -/

/-- what a step `s → s'` of thread `t` does, as far as the potential is concerned. -/
inductive Kind (s s' : State) (t : Nat) : Prop
  /-- an operation returns. -/
  | ret : completed s < completed s' → Kind s s' t
  /-- the heap is unchanged. -/
  | quiet (p' : Pc) : s'.toHeap = s.toHeap → s'.pc = upd s.pc t p' → isP5 (s.pc t) = false →
      isP5 p' = false → p' ≠ .idle → Kind s s' t
  /-- successful link: the chain grows by one node, the thread moves to `p5`. -/
  | link (p' : Pc) : s'.chain.length = s.chain.length + 1 → s'.ti = s.ti → s'.pc = upd s.pc t p' →
      isP5 (s.pc t) = false → isP5 p' = true → Kind s s' t
  /-- successful helping CAS on the tail. -/
  | swing (p' : Pc) : s'.chain = s.chain → s'.ti = s.ti + 1 → s'.pc = upd s.pc t p' →
      isP5 (s.pc t) = false → isP5 p' = false → Kind s s' t

theorem kind_setPc {s : State} {t : Nat} (p' : Pc) (h1 : isP5 (s.pc t) = false)
    (h2 : isP5 p' = false) (h3 : p' ≠ .idle := by nofun) : Kind s (setPc s t p') t :=
  .quiet p' rfl rfl h1 h2 h3

theorem kind_casTail {s : State} {t : Nat} (tl x : Nat) (p' : Pc) (h1 : isP5 (s.pc t) = false)
    (h2 : isP5 p' = false) (h3 : p' ≠ .idle := by nofun) : Kind s (casTail s t tl x p') t := by
  unfold casTail
  by_cases h : s.tail = tl
  · rw [if_pos h]; exact .swing p' rfl rfl rfl h1 h2
  · rw [if_neg h]; exact kind_setPc p' h1 h2 h3

theorem kind_ret {s s' : State} {t : Nat} {evs : List LEv} (h : s'.log = s.log ++ evs)
    (hr : 0 < (evs.filter isRet).length) : Kind s s' t :=
  .ret (by rw [completed_log h]; omega)

theorem kind_tau {s : State} {t : Nat} (hb : busy s t) (hc : s.pc t ≠ .crash) :
    Kind s (tau s t) t := by
  unfold busy at hb
  cases hp : s.pc t with
  | idle => exact absurd hp hb
  | crash => exact absurd hp hc
  | p1 n => simp only [tau, hp]; exact kind_setPc _ (by rw [hp]; rfl) rfl
  | p2 n tl => simp only [tau, hp]; exact kind_setPc _ (by rw [hp]; rfl) rfl
  | p3 n tl nx =>
    simp only [tau, hp]
    split
    · cases nx <;> exact kind_setPc _ (by rw [hp]; rfl) rfl
    · exact kind_setPc _ (by rw [hp]; rfl) rfl
  | p4 n tl =>
    simp only [tau, hp]
    split
    · exact .link (.p5 n tl) (by simp) rfl rfl (by rw [hp]; rfl) rfl
    · exact kind_setPc _ (by rw [hp]; rfl) rfl
  | p4h n tl x => simp only [tau, hp]; exact kind_casTail _ _ _ (by rw [hp]; rfl) rfl
  | p5 n tl =>
    simp only [tau, hp]
    exact kind_ret (evs := [.ret t .ack]) (by show s.log ++ _ = _; rfl) (Nat.succ_pos _)
  | d1 => simp only [tau, hp]; exact kind_setPc _ (by rw [hp]; rfl) rfl
  | d2 hd => simp only [tau, hp]; exact kind_setPc _ (by rw [hp]; rfl) rfl
  | d3 hd tl =>
    simp only [tau, hp]
    split
    · exact .quiet (.d4 hd tl none) rfl rfl (by rw [hp]; rfl) rfl (by nofun)
    · exact kind_setPc _ (by rw [hp]; rfl) rfl
  | d4 hd tl nx =>
    simp only [tau, hp]
    split
    · split
      · cases nx with
        | none => exact kind_ret (evs := [.ret t (.val none)]) rfl (Nat.succ_pos _)
        | some x => exact kind_setPc _ (by rw [hp]; rfl) rfl
      · cases nx <;> exact kind_setPc _ (by rw [hp]; rfl) rfl
    · exact kind_setPc _ (by rw [hp]; rfl) rfl
  | d5h hd tl x => simp only [tau, hp]; exact kind_casTail _ _ _ (by rw [hp]; rfl) rfl
  | d5 hd x v =>
    simp only [tau, hp]
    split
    · exact kind_ret (evs := [.lin t .pop (.val (some v)), .ret t (.val (some v))]) rfl (Nat.succ_pos _)
    · exact kind_setPc _ (by rw [hp]; rfl) rfl

/-! ### frame lemmas -/

/-- `muPc` reads only `next`, `head`, `tail`. -/
theorem muPc_congr {h h' : Heap} (hn : h'.next = h.next) (hh : h'.head = h.head)
    (ht : h'.tail = h.tail) (p : Pc) : muPc h' p = muPc h p := by
  cases p <;> simp only [muPc, muPush, muPop, hn, hh, ht]

/-- **frame**: a step of `t` that leaves `next`/`head`/`tail` unchanged leaves the credit of every
    other thread unchanged. -/
theorem cr_frame {s s' : State} {t u : Nat} {p' : Pc} (hn : s'.next = s.next)
    (hh : s'.head = s.head) (ht : s'.tail = s.tail) (hpc : s'.pc = upd s.pc t p') (hne : u ≠ t) :
    cr s' u = cr s u := by
  unfold cr mu
  rw [hpc, upd_other _ _ _ _ hne, muPc_congr hn hh ht]

theorem nP5_upd {s s' : State} {t : Nat} {p' : Pc} (n : Nat) (hpc : s'.pc = upd s.pc t p')
    (h : isP5 p' = isP5 (s.pc t)) : nP5 n s' = nP5 n s := by
  unfold nP5
  apply sumTo_congr
  intro i _
  show (if isP5 (s'.pc i) then 1 else 0) = (if isP5 (s.pc i) then 1 else 0)
  rw [hpc]
  by_cases e : i = t
  · subst e; rw [upd_same, h]
  · rw [upd_other _ _ _ _ e]

theorem nP5_link {s s' : State} {t n : Nat} {p' : Pc} (ht : t < n) (hpc : s'.pc = upd s.pc t p')
    (h1 : isP5 (s.pc t) = false) (h2 : isP5 p' = true) : nP5 n s + 1 = nP5 n s' := by
  unfold nP5
  apply sumTo_diff ht
  · intro i _ e
    show (if isP5 (s.pc i) then 1 else 0) = (if isP5 (s'.pc i) then 1 else 0)
    rw [hpc, upd_other _ _ _ _ e]
  · show (if isP5 (s.pc t) then 1 else 0) + 1 = (if isP5 (s'.pc t) then 1 else 0)
    rw [hpc, upd_same, h1, h2]; rfl

theorem lagAmt_le {s : State} (hI : Inv s) : lagAmt s.toHeap ≤ 1 := by
  have := hI.glob.lag
  unfold lagAmt; omega

theorem budget_le {s : State} (hI : Inv s) (n : Nat) : budget n s ≤ 2 * n + 1 := by
  have := lagAmt_le hI
  unfold budget; omega

theorem phi_lt_F {s : State} (hI : Inv s) (n : Nat) : phi n s < F n := by
  have h1 := sumCr_le n s
  have h3 := Nat.mul_le_mul_left (K * n + 1) (budget_le hI n)
  have h4 : F n = (K * n + 1) * (2 * n + 1) + (K * n + 1) := by
    show (K * n + 1) * ((2 * n + 1) + 1) = _
    rw [Nat.mul_add_one]
  unfold phi; omega

/-! ### the log only grows -/

theorem tau_log (s : State) (t : Nat) : ∃ evs, (tau s t).log = s.log ++ evs := by
  have hc : ∀ a b p, ∃ evs, (casTail s t a b p).log = s.log ++ evs :=
    fun a b p => ⟨[], by rw [casTail_log, List.append_nil]⟩
  unfold tau
  repeat' split
  all_goals first
    | exact ⟨[], (List.append_nil _).symm⟩
    | exact hc _ _ _
    | exact ⟨_, rfl⟩

theorem completed_le_tau (s : State) (t : Nat) : completed s ≤ completed (tau s t) := by
  obtain ⟨evs, h⟩ := tau_log s t
  rw [completed_log h]; omega

/-! ### every non-returning step decreases the potential -/

theorem phi_quiet {s : State} (hI : Inv s) {t n : Nat} (ht : t < n) (hb : busy s t) {p' : Pc}
    (hh : (tau s t).toHeap = s.toHeap) (hpc : (tau s t).pc = upd s.pc t p')
    (h1 : isP5 (s.pc t) = false) (h2 : isP5 p' = false) (h3 : p' ≠ .idle) :
    phi n (tau s t) < phi n s := by
  have hn : (tau s t).next = s.next := congrArg Heap.next hh
  have hhd : (tau s t).head = s.head := congrArg Heap.head hh
  have htl : (tau s t).tail = s.tail := congrArg Heap.tail hh
  have hb' : ¬ s.pc t = .idle := hb
  have e1 : cr (tau s t) t = mu (tau s t) t := by unfold cr; rw [hpc, upd_same, if_neg h3]
  have e2 : cr s t = mu s t := by unfold cr; rw [if_neg hb']
  have hd := mu_dec hI hb
  have hsum : sumCr n (tau s t) < sumCr n s := by
    apply sumTo_lt ht
    · intro i _
      by_cases e : i = t
      · subst e; omega
      · exact Nat.le_of_eq (cr_frame hn hhd htl hpc e)
    · omega
  have hp := nP5_upd n hpc (h2.trans h1.symm)
  have hbud : budget n (tau s t) = budget n s := by unfold budget; rw [hp, hh]
  unfold phi; rw [hbud]; omega

theorem phi_budget_dec {s s' : State} {n : Nat} (hb : budget n s' + 1 = budget n s) :
    phi n s' < phi n s := by
  have h1 := sumCr_le n s'
  unfold phi; rw [← hb, Nat.mul_add_one]; omega

theorem budget_link {s s' : State} (hI : Inv s) {t n : Nat} {p' : Pc} (ht : t < n)
    (hc : s'.chain.length = s.chain.length + 1) (hti : s'.ti = s.ti) (hpc : s'.pc = upd s.pc t p')
    (h1 : isP5 (s.pc t) = false) (h2 : isP5 p' = true) : budget n s' + 1 = budget n s := by
  have e := nP5_link ht hpc h1 h2
  have le := nP5_le n s'
  have hl : s.ti < s.chain.length := lt_length_of_getElem? hI.glob.tl
  show 2 * (n - nP5 n s') + (s'.chain.length - 1 - s'.ti) + 1
    = 2 * (n - nP5 n s) + (s.chain.length - 1 - s.ti)
  rw [hc, hti]; omega

theorem budget_swing {s s' : State} (hI' : Inv s') {t n : Nat} {p' : Pc}
    (hc : s'.chain = s.chain) (hti : s'.ti = s.ti + 1) (hpc : s'.pc = upd s.pc t p')
    (h1 : isP5 (s.pc t) = false) (h2 : isP5 p' = false) : budget n s' + 1 = budget n s := by
  have e := nP5_upd n hpc (h2.trans h1.symm)
  have hl : s'.ti < s'.chain.length := lt_length_of_getElem? hI'.glob.tl
  rw [hc, hti] at hl
  show 2 * (n - nP5 n s') + (s'.chain.length - 1 - s'.ti) + 1
    = 2 * (n - nP5 n s) + (s.chain.length - 1 - s.ti)
  rw [hc, hti, e]; omega

/-- **dichotomy**: a step of a busy thread `t < n` either completes an operation or strictly
    decreases the potential. -/
theorem tau_dichotomy {s : State} (hI : Inv s) {t n : Nat} (ht : t < n) (hb : busy s t) :
    completed s < completed (tau s t) ∨ phi n (tau s t) < phi n s := by
  have hc : s.pc t ≠ .crash := by
    intro e; have := hI.loc t; rw [e] at this; exact this
  cases kind_tau hb hc with
  | ret h => exact .inl h
  | quiet p' hh hpc h1 h2 h3 => exact .inr (phi_quiet hI ht hb hh hpc h1 h2 h3)
  | link p' hch hti hpc h1 h2 => exact .inr (phi_budget_dec (budget_link hI ht hch hti hpc h1 h2))
  | swing p' hch hti hpc h1 h2 =>
    exact .inr (phi_budget_dec (budget_swing (inv_tau hI t) hch hti hpc h1 h2))

/-! ### invocations do not increase the potential -/

theorem phi_frame_le {s s' : State} {t : Nat} {p' : Pc} (n : Nat) (hn : s'.next = s.next)
    (hh : s'.head = s.head) (ht : s'.tail = s.tail) (hch : s'.chain = s.chain) (hti : s'.ti = s.ti)
    (hpc : s'.pc = upd s.pc t p') (hp5 : isP5 p' = isP5 (s.pc t)) (hcr : cr s' t ≤ cr s t) :
    phi n s' ≤ phi n s := by
  have hsum : sumCr n s' ≤ sumCr n s := by
    apply sumTo_mono
    intro i _
    by_cases e : i = t
    · subst e; exact hcr
    · exact Nat.le_of_eq (cr_frame hn hh ht hpc e)
  have hp := nP5_upd n hpc hp5
  have hbud : budget n s' = budget n s := by
    show 2 * (n - nP5 n s') + (s'.chain.length - 1 - s'.ti)
      = 2 * (n - nP5 n s) + (s.chain.length - 1 - s.ti)
    rw [hp, hch, hti]
  unfold phi; rw [hbud]; omega

theorem cr_idle {s : State} {t : Nat} (hp : s.pc t = .idle) : cr s t = K := by
  unfold cr; rw [if_pos hp]

theorem invPush_phi (s : State) (t v n : Nat) :
    phi n (step s (.invPush t v)) ≤ phi n s ∧ completed (step s (.invPush t v)) = completed s := by
  simp only [step]
  split
  next hp =>
    constructor
    · refine phi_frame_le (t := t) (p' := .p1 s.nalloc) n ?_ ?_ ?_ ?_ ?_ ?_ ?_ ?_
      iterate 6 rfl
      · rw [hp]; rfl
      · rw [cr_idle hp]; exact cr_le_K _ _
    · exact completed_log (evs := [.inv t (.push v)]) rfl
  next => exact ⟨Nat.le_refl _, rfl⟩

theorem invPop_phi (s : State) (t n : Nat) :
    phi n (step s (.invPop t)) ≤ phi n s ∧ completed (step s (.invPop t)) = completed s := by
  simp only [step]
  split
  next hp =>
    constructor
    · refine phi_frame_le (t := t) (p' := .d1) n ?_ ?_ ?_ ?_ ?_ ?_ ?_ ?_
      iterate 6 rfl
      · rw [hp]; rfl
      · rw [cr_idle hp]; exact cr_le_K _ _
    · exact completed_log (evs := [.inv t .pop]) rfl
  next => exact ⟨Nat.le_refl _, rfl⟩

/-! ### schedules with interleaved invocations -/

/-- weight of an action: only `tau` steps are counted. -/
def tw : Act → Nat
  | .tau _ => 1
  | _ => 0

/-- number of `tau` steps of a schedule. -/
def nTau : List Act → Nat
  | [] => 0
  | a :: as => tw a + nTau as

/-- a `tau` step must be taken by a thread `< n` that is busy at that moment; invocations are
    unrestricted (any thread, any time — an ill-timed one is a no-op of the model). -/
def okAct (n : Nat) (s : State) : Act → Prop
  | .tau t => busy s t ∧ t < n
  | _ => True

instance (n : Nat) (s : State) : (a : Act) → Decidable (okAct n s a)
  | .tau _ => by unfold okAct; infer_instance
  | .invPush _ _ => isTrue trivial
  | .invPop _ => isTrue trivial

def Sched (n : Nat) : State → List Act → Prop
  | _, [] => True
  | s, a :: as => okAct n s a ∧ Sched n (step s a) as

instance (n : Nat) : (s : State) → (as : List Act) → Decidable (Sched n s as)
  | _, [] => isTrue trivial
  | s, a :: as =>
    have := instDecidableSched n (step s a) as
    by unfold Sched; infer_instance

/-! ### amortised bound -/

theorem amortized_step {s : State} (hI : Inv s) {n : Nat} {a : Act} (ha : okAct n s a) :
    tw a + phi n (step s a) + F n * completed s ≤ phi n s + F n * completed (step s a) := by
  cases a with
  | invPush t v =>
    obtain ⟨h1, h2⟩ := invPush_phi s t v n
    rw [h2]; simp only [tw]; omega
  | invPop t =>
    obtain ⟨h1, h2⟩ := invPop_phi s t n
    rw [h2]; simp only [tw]; omega
  | tau t =>
    obtain ⟨hb, ht⟩ := ha
    show 1 + phi n (tau s t) + F n * completed s ≤ phi n s + F n * completed (tau s t)
    cases tau_dichotomy hI ht hb with
    | inl h =>
      have h1 := phi_lt_F (inv_tau hI t) n
      have h2 := Nat.mul_le_mul_left (F n) h
      rw [Nat.mul_succ] at h2
      omega
    | inr h =>
      have h2 := Nat.mul_le_mul_left (F n) (completed_le_tau s t)
      omega

/-- over any window: (number of `tau` steps) + (final potential) ≤ (initial potential) +
    `F n` × (number of operations completed in the window). -/
theorem amortized (n : Nat) : ∀ (as : List Act) (s : State), Inv s → Sched n s as →
    nTau as + phi n (run s as) + F n * completed s ≤ phi n s + F n * completed (run s as) := by
  intro as
  induction as with
  | nil => intro s _ _; show 0 + phi n s + F n * completed s ≤ phi n s + F n * completed s; omega
  | cons a as ih =>
    intro s hI hs
    have h1 := amortized_step hI hs.1
    have h2 := ih (step s a) (inv_step hI a) hs.2
    show tw a + nTau as + phi n (run (step s a) as) + _ ≤ _ + F n * completed (run (step s a) as)
    omega

/-- **Lock-freedom, system-wide, with interleaved invocations** (from any state satisfying the
    invariant): in every window containing at least `m * F n` `tau` steps — each taken by an
    arbitrary busy thread with id `< n`, interleaved with arbitrary invocations — at least `m`
    operations complete. -/
theorem lock_free_window {s : State} (hI : Inv s) {n : Nat} {as : List Act} (hs : Sched n s as)
    (m : Nat) (hlen : m * F n ≤ nTau as) : completed s + m ≤ completed (run s as) := by
  have A := amortized n as s hI hs
  have P := phi_lt_F hI n
  apply Nat.le_of_not_lt
  intro hc
  have h1 := Nat.mul_le_mul_left (F n) (Nat.succ_le_of_lt hc)
  rw [Nat.mul_succ, Nat.mul_add, Nat.mul_comm (F n) m] at h1
  omega

/-! ### the `tau`-only formulation -/

theorem run_map_tau : ∀ (ts : List Nat) (s : State), run s (ts.map .tau) = ts.foldl tau s
  | [], _ => rfl
  | t :: ts, s => run_map_tau ts (tau s t)

theorem nTau_map_tau : ∀ ts : List Nat, nTau (ts.map .tau) = ts.length
  | [] => rfl
  | t :: ts => by
    show 1 + nTau (ts.map .tau) = ts.length + 1
    rw [nTau_map_tau ts]; omega

theorem sched_map_tau {n : Nat} : ∀ (ts : List Nat) (s : State), (∀ t ∈ ts, t < n) →
    BusySched s ts → Sched n s (ts.map .tau)
  | [], _, _, _ => trivial
  | t :: ts, s, hn, hs =>
    ⟨⟨hs.1, hn t List.mem_cons_self⟩,
     sched_map_tau ts (tau s t) (fun u hu => hn u (List.mem_cons_of_mem _ hu)) hs.2⟩

/-- **Lock-freedom, system-wide**: from every reachable state, under ANY interleaving of the steps
    of busy threads with ids `< n`, some operation returns within `F n` steps. -/
theorem lock_free_global (acts : List Act) (ts : List Nat) (n : Nat)
    (hn : ∀ t ∈ ts, t < n)
    (hs : BusySched (run init acts) ts)
    (hlen : F n ≤ ts.length) :
    completed (run init acts) < completed (ts.foldl tau (run init acts)) := by
  have h := lock_free_window (inv_reachable acts) (sched_map_tau ts _ hn hs) 1
    (by rw [nTau_map_tau]; omega)
  rw [run_map_tau] at h
  exact h

/-! ### non-vacuity -/

/-- thread 0 has invoked Push, thread 1 has invoked Pop. -/
def pushPop : List Act := [.invPush 0 1, .invPop 1]

/-- the two threads alternate; both are busy at each of the 8 steps (the hypothesis `BusySched` of
    `lock_free_global` holds), and the 8th step completes an operation (the Pop returns "empty":
    it read `head.next` before the Push linked its node). -/
example : BusySched (run init pushPop) [0, 1, 0, 1, 0, 1, 0, 1] ∧
    (∀ t ∈ [0, 1, 0, 1, 0, 1, 0, 1], t < 2) ∧
    completed (run init pushPop) = 0 ∧
    completed ([0, 1, 0, 1, 0, 1, 0].foldl tau (run init pushPop)) = 0 ∧
    completed ([0, 1, 0, 1, 0, 1, 0, 1].foldl tau (run init pushPop)) = 1 := by decide

/-- round-robin clients: thread 0 pushes forever, thread 1 pops forever (each re-invokes as soon as
    it is idle, otherwise takes a step). -/
def rr : Nat → State → List Act
  | 0, _ => []
  | k + 1, s =>
    let a0 := if s.pc 0 = .idle then Act.invPush 0 7 else .tau 0
    let a1 := if (step s a0).pc 1 = .idle then Act.invPop 1 else .tau 1
    a0 :: a1 :: rr k (step (step s a0) a1)

/-- ALL hypotheses of `lock_free_window` hold together on a concrete window (n = 2, `F 2 = 162`):
    100 round-robin rounds are a valid schedule with 166 ≥ 162 `tau` steps. -/
theorem rr_hyps : Sched 2 init (rr 100 init) ∧ 1 * F 2 ≤ nTau (rr 100 init) := by
  set_option maxRecDepth 100000 in decide

/-- ... so the theorem applies (not by evaluation) and yields a completed operation. -/
example : completed init + 1 ≤ completed (run init (rr 100 init)) :=
  lock_free_window inv_init rr_hyps.1 1 rr_hyps.2

end Got.Model.MSQueue
