import Got.Lemmas.SortCost
import Got.Lemmas.SortQuick
/-
Number of Less calls of quickSort_func and SliceBy, for an ARBITRARY less function:
`cnt (quickSort a b d s) ≤ cnt s + (b-a)·(3·d + 3·Λ + 7)` whenever `b-a < 2^Λ`, hence
`#Less(SliceBy) ≤ n·(9·⌈lg(n+1)⌉ + 7)`.
-/
namespace Got.Lemmas.Sort
open Got.Model.Sort

variable {K V : Type} (less : LessFn K V)

theorem mul_split (m x y z : Nat) (h : x = y + z) : m * x = m * y + m * z := by rw [h, Nat.mul_add]

theorem exists_bits (m Λ : Nat) (hΛ : m < 2 ^ Λ) : ∃ k, m < 2 ^ k ∧ k ≤ Λ ∧ k ≤ m := by
  obtain ⟨_, h2, h3, h4⟩ := maxDepthLoop_spec m 0
  simp only [Nat.sub_zero] at h2 h3
  refine ⟨maxDepthLoop m 0, h2, ?_, ?_⟩
  · rcases Nat.eq_zero_or_pos m with hm | hm
    · rw [h4 hm]; omega
    · have h5 := h3 hm
      rcases Nat.lt_or_ge Λ (maxDepthLoop m 0) with hlt | hge
      · have : 2 ^ Λ ≤ 2 ^ (maxDepthLoop m 0 - 1) := Nat.pow_le_pow_right (by omega) (by omega)
        omega
      · exact hge
  · rcases Nat.eq_zero_or_pos m with hm | hm
    · rw [h4 hm]; omega
    · have h5 := h3 hm
      have h6 : maxDepthLoop m 0 - 1 < 2 ^ (maxDepthLoop m 0 - 1) := Nat.lt_two_pow_self
      omega

/-- heapSort_func on `m < 2^Λ` elements: at most `3·m·Λ + 2·m` comparisons -/
theorem heapSort_cost' (a b Λ : Nat) (s : St K V) (hΛ : b - a < 2 ^ Λ) :
    cnt (heapSort less a b s) ≤ cnt s + (b - a) * (3 * Λ + 2) := by
  obtain ⟨k, h1, h2, h3⟩ := exists_bits (b - a) Λ hΛ
  have hc := heapSort_cost less a b k s h1
  generalize b - a = m at *
  have e1 : (3 * m + 2) * k = 3 * (m * k) + 2 * k := by
    rw [Nat.add_mul, Nat.mul_assoc]
  have e2 : m * (3 * Λ + 2) = 3 * (m * Λ) + 2 * m := by
    rw [Nat.mul_add, ← Nat.mul_assoc, Nat.mul_comm m 3, Nat.mul_assoc, Nat.mul_comm m 2]
  have e3 : m * k ≤ m * Λ := Nat.mul_le_mul_left _ h2
  omega

/-- quickSort_func with depth budget `d` on `m = b-a < 2^Λ` elements, any less:
    at most `m·(3·d + 3·Λ + 7)` comparisons -/
theorem quickSort_cost (Λ d a b : Nat) (s : St K V) (hΛ : b - a < 2 ^ Λ) :
    cnt (quickSort less a b d s) ≤ cnt s + (b - a) * (3 * d + 3 * Λ + 7) := by
  induction d generalizing a b s with
  | zero =>
    rw [quickSort]
    split
    · have := heapSort_cost' less a b Λ s hΛ
      have e : (b - a) * (3 * 0 + 3 * Λ + 7) = (b - a) * (3 * Λ + 2) + (b - a) * 5 :=
        mul_split _ _ _ _ (by omega)
      omega
    · rename_i hle
      have hthr := thrInsertion_le
      have := smallSort_cost less a b s (by omega)
      have e : (b - a) * (3 * 0 + 3 * Λ + 7) = (b - a) * (3 * Λ) + (b - a) * 7 :=
        mul_split _ _ _ _ (by omega)
      omega
  | succ d ih =>
    rw [quickSort]
    split
    · rename_i hgt
      have hthr := thrInsertion_ge5
      have hnin := thrNinther_ge
      have hst := doPivot_steps less a b s (by omega)
      have hc := doPivot_cost less a b s (by omega)
      dsimp only
      generalize doPivot less a b s = pv at *
      obtain ⟨_, b1, b2, b3, b4⟩ := hst
      obtain ⟨hc1, hmid⟩ := hc
      -- the partition step costs at most 3·m
      have hpiv : cnt pv.2.2 ≤ cnt s + 3 * (b - a) := by
        split at hc1 <;> omega
      generalize hX : 3 * d + 3 * Λ + 7 = X at *
      have eX : 3 * (d + 1) + 3 * Λ + 7 = X + 3 := by omega
      rw [eX]
      have esum : (pv.1 - a) * X + (b - pv.2.1) * X ≤ (b - a) * X := by
        rw [← Nat.add_mul]; exact Nat.mul_le_mul_right _ (by omega)
      have etot : (b - a) * (X + 3) = (b - a) * X + 3 * (b - a) := by
        rw [Nat.mul_add, Nat.mul_comm (b - a) 3]
      have hpowL : pv.1 - a < 2 ^ Λ := by omega
      have hpowR : b - pv.2.1 < 2 ^ Λ := by omega
      split
      · have h1 := ih a pv.1 pv.2.2 hpowL
        have h2 := ih pv.2.1 b (quickSort less a pv.1 d pv.2.2) hpowR
        omega
      · have h1 := ih pv.2.1 b pv.2.2 hpowR
        have h2 := ih a pv.1 (quickSort less pv.2.1 b d pv.2.2) hpowL
        omega
    · rename_i hle
      have hthr := thrInsertion_le
      have := smallSort_cost less a b s (by omega)
      have e : (b - a) * (3 * (d + 1) + 3 * Λ + 7) = (b - a) * (3 * (d + 1) + 3 * Λ) + (b - a) * 7 :=
        mul_split _ _ _ _ (by omega)
      omega

/-- SliceBy with any less: at most `n·(9·L + 7)` Less calls, `n = min(len keys, len values)`, `L = ⌈lg(n+1)⌉` -/
theorem sliceBy_cost (keys : Array K) (vals : Array V) :
    ∃ L, min keys.size vals.size + 1 ≤ 2 ^ L ∧ (∀ k', min keys.size vals.size + 1 ≤ 2 ^ k' → L ≤ k') ∧
      lessCount (sliceBy less keys vals).log ≤ min keys.size vals.size * (9 * L + 7) := by
  obtain ⟨L, h1, h2, h3⟩ := maxDepth_spec (min keys.size vals.size)
  refine ⟨L, h2, h3, ?_⟩
  unfold sliceBy
  dsimp only
  split
  · show 0 ≤ _; omega
  · have := quickSort_cost less L (maxDepth (min keys.size vals.size)) 0 (min keys.size vals.size)
      ⟨keys, vals, []⟩ (by omega)
    have e : 3 * maxDepth (min keys.size vals.size) + 3 * L + 7 = 9 * L + 7 := by omega
    rw [e] at this
    have c0 : cnt (⟨keys, vals, []⟩ : St K V) = 0 := rfl
    rw [c0] at this
    simpa [cnt] using this

end Got.Lemmas.Sort
