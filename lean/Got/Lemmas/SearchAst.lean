import Got.Model.Search
import Got.Model.MiniGo
import Got.Generated.AstSortx
import Got.Lemmas.Search
/-
The MiniGo translation of sortx.Search that tools/srcfacts regenerates from /repo on every run
(Got/Generated/AstSortx.lean) computes, under the interpreter of Got/Model/MiniGo.lean, exactly the result and
the predicate-call log of the hand-written model `Got.Model.Search.search` — for every 64-bit `count` and all
predicates.  The theorems of C14 about `search` therefore hold for the translated source.
-/
namespace Got.Lemmas.SearchAst
open Got.Model.MiniGo Got.Model.Search Got.Lemmas.Search

def Rng (x : Int) : Prop := -9223372036854775808 ≤ x ∧ x < 9223372036854775808

/-- names in the generated term are positional: `a0` = count, `f0` = less, `f1` = equal, `v0` = i, `v1` = j, `v2` = mid -/
def fnsOf (less equal : Int → Bool) : String → Int → Bool :=
  fun f v => if f = "f0" then less v else if f = "f1" then equal v else false

def callOf : Probe → String × Int
  | .less k => ("f0", k)
  | .equal k => ("f1", k)

theorem wrap_of_rng {x : Int} (h : Rng x) : wrap x = x := by
  unfold wrap; unfold Rng at h; omega

@[simp] theorem wrap_one : wrap 1 = 1 := by decide
@[simp] theorem wrap_zero : wrap 0 = 0 := by decide
@[simp] theorem wrap_neg_one : wrap (-1) = -1 := by decide

theorem mid_int (i j : Int) (hi : -1 ≤ i) (hij : i + 1 < j) (hj : j < 9223372036854775808) :
    wrap ((wrap (i + j) % 18446744073709551616) / 2) = (i + j) / 2 := by
  unfold wrap; omega

theorem exec_while_false {fns : String → Int → Bool} {f : Nat} {c : Cond} {body rest : List Stmt} {env : Env}
    {log log' : Log} (h : evalC fns env c log = some (false, log')) :
    exec fns (f + 1) (.while c body :: rest) env log = exec fns f rest env log' := by
  simp [exec, h]

theorem exec_while_true {fns : String → Int → Bool} {f : Nat} {c : Cond} {body rest : List Stmt} {env env' : Env}
    {log log' log'' : Log} (h : evalC fns env c log = some (true, log'))
    (hb : exec fns f body env log' = some (.cont env' log'')) :
    exec fns (f + 1) (.while c body :: rest) env log = exec fns f (.while c body :: rest) env' log'' := by
  simp [exec, h, hb]

/-- the loop statement of the generated body -/
def W : Stmt :=
  .while (.ne (.add (.var "v0") (.lit 1)) (.var "v1")) [
    .decl "v2" (.conv (.shrU (.conv (.add (.var "v0") (.var "v1"))) 1)),
    .ite (.call "f0" (.var "v2")) [.assign "v0" (.var "v2")] [.assign "v1" (.var "v2")]]

theorem loop_exec (less equal : Int → Bool) (count : Int) (hc : Rng count) (tail : List Stmt) :
    ∀ (n : Nat) (i j : Int) (plog : List Probe) (jf : Int) (plog' : List Probe) (env : Env) (fuel : Nat),
      loop less i j plog = some (jf, plog') → (j - i).toNat ≤ n →
      -1 ≤ i → i < j → j ≤ count →
      env.lookup "v0" = some i → env.lookup "v1" = some j → env.lookup "a0" = some count →
      n + 6 ≤ fuel →
      ∃ env' fuel', 6 ≤ fuel' ∧ env'.lookup "v1" = some jf ∧ env'.lookup "a0" = some count ∧
        exec (fnsOf less equal) fuel (W :: tail) env (plog.map callOf) =
          exec (fnsOf less equal) fuel' tail env' (plog'.map callOf) := by
  intro n
  induction n with
  | zero =>
    intro i j plog jf plog' env fuel hl hn hi hij
    omega
  | succ n ih =>
    intro i j plog jf plog' env fuel hl hn hi hij hj hei hej hec hf
    obtain ⟨f, rfl⟩ : ∃ f, fuel = f + 1 := ⟨fuel - 1, by omega⟩
    unfold loop at hl
    split at hl
    · rename_i h
      subst h
      simp at hl
      obtain ⟨rfl, rfl⟩ := hl
      refine ⟨env, f, by omega, hej, hec, ?_⟩
      have hw : wrap (i + 1) = i + 1 := wrap_of_rng (by unfold Rng at *; omega)
      exact exec_while_false (by simp [evalC, eval, hei, hej, hw])
    · rename_i h
      split at hl
      · rename_i h2
        have hw : wrap (i + 1) = i + 1 := wrap_of_rng (by unfold Rng at *; omega)
        have hm := mid_int i j hi h2 (by unfold Rng at hc; omega)
        obtain ⟨f1, rfl⟩ : ∃ f1, f = f1 + 4 := ⟨f - 4, by omega⟩
        have hcond : evalC (fnsOf less equal) env (.ne (.add (.var "v0") (.lit 1)) (.var "v1")) (plog.map callOf) =
            some (true, plog.map callOf) := by
          simp [evalC, eval, hei, hej, hw, h]
        simp only [] at hl
        split at hl
        · rename_i hless
          obtain ⟨env', fuel', h6, hj', hc', he⟩ :=
            ih ((i + j) / 2) j (plog ++ [Probe.less ((i + j) / 2)]) jf plog'
              (("v0", (i + j) / 2) :: ("v2", (i + j) / 2) :: env) (f1 + 4) hl (by omega) (by omega) (by omega) hj
              (by simp [List.lookup]) (by simp [List.lookup, hej]) (by simp [List.lookup, hec]) (by omega)
          refine ⟨env', fuel', h6, hj', hc', ?_⟩
          rw [← he]
          exact exec_while_true hcond
            (by simp [exec, evalC, eval, hei, hej, hm, fnsOf, hless, callOf, List.lookup])
        · rename_i hless
          obtain ⟨env', fuel', h6, hj', hc', he⟩ :=
            ih i ((i + j) / 2) (plog ++ [Probe.less ((i + j) / 2)]) jf plog'
              (("v1", (i + j) / 2) :: ("v2", (i + j) / 2) :: env) (f1 + 4) hl (by omega) hi (by omega) (by omega)
              (by simp [List.lookup, hei]) (by simp [List.lookup]) (by simp [List.lookup, hec]) (by omega)
          refine ⟨env', fuel', h6, hj', hc', ?_⟩
          rw [← he]
          exact exec_while_true hcond
            (by simp [exec, evalC, eval, hei, hej, hm, fnsOf, hless, callOf, List.lookup])
      · simp at hl

/-- the generated body is: guard, two declarations, the loop `W`, and the tail -/
theorem body_shape : Got.Generated.AstSortx.search.body =
    [ .ite (.le (.var "a0") (.lit 0)) [.ret (.neg (.lit 1))] [],
      .decl "v0" (.neg (.lit 1)),
      .decl "v1" (.var "a0"),
      W,
      .ite (.or (.eq (.var "v1") (.var "a0")) (.not (.call "f1" (.var "v1")))) [.ret (.compl (.var "v1"))] [],
      .ret (.var "v1") ] := rfl

theorem search_ast_refines (count : Int) (hc : Rng count) (less equal : Int → Bool) (r : Int) (log : List Probe)
    (hs : search count less equal = some (r, log)) (fuel : Nat) (hf : count.toNat + 12 ≤ fuel) :
    Got.Generated.AstSortx.search.run (fnsOf less equal) fuel [count] = some (.ret r (log.map callOf)) := by
  unfold Fn.run
  rw [body_shape]
  have hwc : wrap count = count := wrap_of_rng hc
  obtain ⟨f, rfl⟩ : ∃ f, fuel = f + 4 := ⟨fuel - 4, by omega⟩
  unfold search at hs
  split at hs
  · rename_i h0
    simp at hs
    obtain ⟨rfl, rfl⟩ := hs
    simp [Got.Generated.AstSortx.search, exec, evalC, eval, hwc, h0]
  · rename_i h0
    cases hl : loop less (-1) count [] with
    | none => simp [hl] at hs
    | some p =>
      obtain ⟨jf, plog⟩ := p
      simp only [hl] at hs
      have hr := loop_range less (-1) count [] (-1) count (by omega) (by omega) (by omega) (by simp) jf plog hl
      obtain ⟨env', fuel', h6, hj', hc', he⟩ :=
        loop_exec less equal count hc
          [.ite (.or (.eq (.var "v1") (.var "a0")) (.not (.call "f1" (.var "v1")))) [.ret (.compl (.var "v1"))] [],
           .ret (.var "v1")]
          (count + 1).toNat (-1) count [] jf plog
          [("v1", count), ("v0", -1), ("a0", count)] (f + 1) hl (by omega) (by omega) (by omega) (by omega)
          (by simp [List.lookup]) (by simp [List.lookup]) (by simp [List.lookup]) (by omega)
      have hstart : exec (fnsOf less equal) (f + 4)
          [ .ite (.le (.var "a0") (.lit 0)) [.ret (.neg (.lit 1))] [],
            .decl "v0" (.neg (.lit 1)), .decl "v1" (.var "a0"), W,
            .ite (.or (.eq (.var "v1") (.var "a0")) (.not (.call "f1" (.var "v1")))) [.ret (.compl (.var "v1"))] [],
            .ret (.var "v1") ] (List.zip Got.Generated.AstSortx.search.intParams (List.map wrap [count])) [] =
          exec (fnsOf less equal) (f + 1)
            (W :: [.ite (.or (.eq (.var "v1") (.var "a0")) (.not (.call "f1" (.var "v1")))) [.ret (.compl (.var "v1"))] [],
              .ret (.var "v1")]) [("v1", count), ("v0", -1), ("a0", count)] [] := by
        simp [Got.Generated.AstSortx.search, exec, evalC, eval, hwc, h0, List.lookup]
      rw [hstart]
      simp only [List.map_nil] at he
      rw [he]
      obtain ⟨g, rfl⟩ : ∃ g, fuel' = g + 4 := ⟨fuel' - 4, by omega⟩
      have hwj : wrap (-jf - 1) = -jf - 1 := wrap_of_rng (by unfold Rng at *; omega)
      split at hs
      · rename_i hjc
        simp at hs
        obtain ⟨rfl, rfl⟩ := hs
        rw [hjc] at hwj hj'
        simp [exec, evalC, eval, hj', hc', hwj, compl, hjc]
      · rename_i hjc
        split at hs
        · rename_i heq
          simp at hs
          obtain ⟨rfl, rfl⟩ := hs
          simp at heq
          simp [exec, evalC, eval, hj', hc', hjc, hwj, compl, fnsOf, heq, callOf]
        · rename_i heq
          simp at hs
          obtain ⟨rfl, rfl⟩ := hs
          simp at heq
          simp [exec, evalC, eval, hj', hc', hjc, fnsOf, heq, callOf]

end Got.Lemmas.SearchAst
