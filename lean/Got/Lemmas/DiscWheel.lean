import Got.Model.WheelEvents
import Got.Lemmas.Wheel
import Got.Lemmas.Discipline
set_option linter.unusedSimpArgs false
/-
C18 for loom.Wheel: for EVERY execution of the fine-grained wheel transition system (any number of requesters,
every interleaving) and every wheelData object `c`, the event trace of its plain field `wheelData.c`
(Got/Model/WheelEvents.lean) is accepted by the publication-discipline monitor, hence race free.

Invariant `MI c s m` (LTS state `s`, monitor state `m`):
  before `c` is constructed (`nextChan ≤ c`) there has been no access (every thread is current) and nobody holds `c`;
  after it (`c < nextChan`):  the slot cell that holds `c` carries the constructor write (the only writer of slot cells
  after NewWheel is the ticker, which wrote the field just before its swap released the cell);  a requester whose
  slot load returned `c` has acquired that cell, so it is ordered after the write;  the ticker about to `close(c.c)`
  is the writer itself (c ≥ n) or acquired the cell in its swap (c < n, written by the creator).
-/
namespace Got.Lemmas.DiscWheel
open Got.Model.Wheel Got.Model.Discipline Got.Model.WheelEvents Got.Lemmas.Wheel

/-! ### monitor steps -/

def AllTrue (m : Mon) : Prop := ∀ t, m.wcur t = true ∧ m.acur t = true

/-- knowledge of the last write only grows -/
def Le (m m' : Mon) : Prop := (∀ t, m.wcur t = true → m'.wcur t = true) ∧ (∀ a, m.carW a = true → m'.carW a = true)

theorem Le.refl (m : Mon) : Le m m := ⟨fun _ h => h, fun _ h => h⟩
theorem Le.trans {a b c : Mon} (h1 : Le a b) (h2 : Le b c) : Le a c :=
  ⟨fun t h => h2.1 t (h1.1 t h), fun x h => h2.2 x (h1.2 x h)⟩

theorem step_acq (m : Mon) (t a : Nat) :
    ∃ m', m.step (.acq t a) = some m' ∧ Le m m' ∧ (m.carW a = true → m'.wcur t = true) ∧ (AllTrue m → AllTrue m') := by
  refine ⟨_, rfl, ⟨?_, ?_⟩, ?_, ?_⟩
  · intro u h; simp [h]
  · intro b h; exact h
  · intro h; simp [h]
  · intro h u; simp [(h u).1, (h u).2]

theorem step_rel (m : Mon) (t a : Nat) :
    ∃ m', m.step (.rel t a) = some m' ∧ Le m m' ∧ (m.wcur t = true → m'.carW a = true) ∧ (AllTrue m → AllTrue m') := by
  refine ⟨_, rfl, ⟨?_, ?_⟩, ?_, ?_⟩
  · intro u h; exact h
  · intro b h; simp [h]
  · intro h; simp [h]
  · intro h u; exact h u

theorem step_rd (m : Mon) (t : Nat) (h : m.wcur t = true) :
    ∃ m', m.step (.rd t) = some m' ∧ Le m m' := by
  refine ⟨_, by simp [Mon.step, h]; rfl, ⟨?_, ?_⟩⟩
  · intro u hu; exact hu
  · intro b hb; exact hb

theorem step_wr (m : Mon) (t : Nat) (h : m.acur t = true) :
    ∃ m', m.step (.wr t) = some m' ∧ m'.wcur t = true := by
  refine ⟨_, by simp [Mon.step, h]; rfl, ?_⟩
  simp

theorem run_cons {m m1 : Mon} {e : Ev} (es : List Ev) (h : m.step e = some m1) : m.run (e :: es) = m1.run es := by
  simp [Mon.run, h]

theorem run_append (m : Mon) (a b : List Ev) :
    m.run (a ++ b) = (m.run a).bind (fun m' => m'.run b) := by
  induction a generalizing m with
  | nil => simp [Mon.run]
  | cons e es ih =>
    simp only [List.cons_append, Mon.run]
    cases m.step e with
    | none => simp
    | some m' => simp [ih]

/-! ### the simulation invariant -/

structure MI (c : Nat) (s : State) (m : Mon) : Prop where
  p0 : s.nextChan ≤ c → AllTrue m ∧ (∀ t, s.rpc t = .reloadPos → s.rdata t ≠ c) ∧ (s.tpc = .close → s.tlast ≠ c)
  p1s : c < s.nextChan → ∀ i, i < s.n → s.slot i = c → m.carW (slotObj i) = true
  p1r : c < s.nextChan → ∀ t, s.rpc t = .reloadPos → s.rdata t = c → m.wcur (reqThr t) = true
  p1t : c < s.nextChan → s.tpc = .close → s.tlast = c → m.wcur tickerThr = true

/-- a monitor move that only adds knowledge keeps the invariant (LTS state unchanged) -/
theorem mi_mono {c : Nat} {s : State} {m m' : Mon} (h : MI c s m) (hle : Le m m') (hall : AllTrue m → AllTrue m') :
    MI c s m' :=
  ⟨fun hc => ⟨hall (h.p0 hc).1, (h.p0 hc).2⟩,
   fun hc i hi hs => hle.2 _ (h.p1s hc i hi hs),
   fun hc t hp hd => hle.1 _ (h.p1r hc t hp hd),
   fun hc hp hl => hle.1 _ (h.p1t hc hp hl)⟩

theorem slot_lt_next {s : State} (hT : TInv s) (i : Nat) (hi : i < s.n) : s.slot i < s.nextChan := by
  have := hT.slot_hi i hi
  have := hT.next_eq
  omega

/-! ### ticker steps -/

theorem mi_tick {c : Nat} {s : State} {m : Mon} (hT : TInv s) (h : MI c s m) :
    ∃ m', m.run (evTick c s) = some m' ∧ MI c (tickStep fixed s) m' := by
  have hn := hT.npos
  unfold evTick
  cases ht : s.tpc with
  | loadPos =>
    obtain ⟨m1, hs1, hle, _, hall⟩ := step_acq m tickerThr posObj
    refine ⟨m1, by simp only [run_cons _ hs1]; rfl, ?_⟩
    have h1 := mi_mono h hle hall
    refine ⟨?_, ?_, ?_, ?_⟩ <;> simp only [tickStep, ht, fixed, Bool.false_eq_true, ↓reduceIte, reduceCtorEq,
      false_implies, implies_true]
    · intro hc; exact ⟨(h1.p0 hc).1, (h1.p0 hc).2.1, trivial⟩
    · exact h1.p1s
    · exact h1.p1r
  | storePos =>
    obtain ⟨m1, hs1, hle, _, hall⟩ := step_rel m tickerThr posObj
    refine ⟨m1, by simp only [run_cons _ hs1]; rfl, ?_⟩
    have h1 := mi_mono h hle hall
    refine ⟨?_, ?_, ?_, ?_⟩ <;> simp only [tickStep, ht, fixed, Bool.false_eq_true, ↓reduceIte, reduceCtorEq,
      false_implies, implies_true]
    · intro hc; exact ⟨(h1.p0 hc).1, (h1.p0 hc).2.1, trivial⟩
    · exact h1.p1s
    · exact h1.p1r
  | swapSlot =>
    have htp : s.tpos < s.n := by
      rw [hT.tpos_eq (by simp [ht])]; exact Nat.mod_lt _ hn
    by_cases hc : s.nextChan = c
    · -- the fresh object IS c: constructor write, then the swap publishes it
      simp only [hc, ↓reduceIte, List.cons_append, List.nil_append]
      have hall := (h.p0 (by omega)).1
      obtain ⟨m1, hs1, hw1⟩ := step_wr m tickerThr (hall tickerThr).2
      obtain ⟨m2, hs2, hle2, _, _⟩ := step_acq m1 tickerThr (slotObj s.tpos)
      obtain ⟨m3, hs3, hle3, hc3, _⟩ := step_rel m2 tickerThr (slotObj s.tpos)
      refine ⟨m3, by simp only [run_cons _ hs1, run_cons _ hs2, run_cons _ hs3]; rfl, ?_⟩
      have hw3 : m3.wcur tickerThr = true := hle3.1 _ (hle2.1 _ hw1)
      refine ⟨?_, ?_, ?_, ?_⟩ <;> simp only [tickStep, ht, fixed, Bool.false_eq_true, ↓reduceIte]
      · intro h'; omega
      · intro _ i hi hs
        by_cases hi' : i = s.tpos
        · subst hi'; exact hc3 (hle2.1 _ hw1)
        · rw [upd_ne _ _ hi'] at hs
          have := slot_lt_next hT i hi
          omega
      · intro _ t hp hd; exact absurd hd ((h.p0 (by omega)).2.1 t hp)
      · intro _ _ hl
        have := slot_lt_next hT s.tpos htp
        omega
    · simp only [hc, ↓reduceIte, List.nil_append]
      obtain ⟨m2, hs2, hle2, hc2, hall2⟩ := step_acq m tickerThr (slotObj s.tpos)
      obtain ⟨m3, hs3, hle3, _, hall3⟩ := step_rel m2 tickerThr (slotObj s.tpos)
      refine ⟨m3, by simp only [run_cons _ hs2, run_cons _ hs3]; rfl, ?_⟩
      have h3 := mi_mono h (hle2.trans hle3) (fun x => hall3 (hall2 x))
      refine ⟨?_, ?_, ?_, ?_⟩ <;> simp only [tickStep, ht, fixed, Bool.false_eq_true, ↓reduceIte]
      · intro h'
        have h0 := h3.p0 (by omega)
        refine ⟨h0.1, h0.2.1, fun _ => ?_⟩
        have := slot_lt_next hT s.tpos htp
        omega
      · intro h' i hi hs
        have hlt : c < s.nextChan := by omega
        by_cases hi' : i = s.tpos
        · subst hi'; rw [upd_same] at hs; omega
        · rw [upd_ne _ _ hi'] at hs; exact h3.p1s hlt i hi hs
      · intro h' t hp hd; exact h3.p1r (by omega) t hp hd
      · intro h' _ hl
        have hlt : c < s.nextChan := by omega
        exact hle3.1 _ (hc2 (h.p1s hlt s.tpos htp hl))
  | close =>
    by_cases hc : s.tlast = c
    · simp only [hc, ↓reduceIte]
      have hlt : c < s.nextChan := by
        apply Nat.lt_of_not_le
        intro hle
        exact (h.p0 hle).2.2 ht hc
      obtain ⟨m1, hs1, hle⟩ := step_rd m tickerThr (h.p1t hlt ht hc)
      refine ⟨m1, by simp only [run_cons _ hs1]; rfl, ?_⟩
      refine ⟨?_, ?_, ?_, ?_⟩ <;> simp only [tickStep, ht, fixed, reduceCtorEq, false_implies, implies_true]
      · intro h'; omega
      · intro _ i hi hs; exact hle.2 _ (h.p1s hlt i hi hs)
      · intro _ t hp hd; exact hle.1 _ (h.p1r hlt t hp hd)
    · simp only [hc, ↓reduceIte]
      refine ⟨m, rfl, ?_⟩
      refine ⟨?_, ?_, ?_, ?_⟩ <;> simp only [tickStep, ht, fixed, reduceCtorEq, false_implies, implies_true]
      · intro h'; exact ⟨(h.p0 h').1, (h.p0 h').2.1, trivial⟩
      · exact h.p1s
      · exact h.p1r

/-! ### requester steps -/

theorem mi_req {c : Nat} {s : State} {m : Mon} (t : Nat) (hT : TInv s) (h : MI c s m) :
    ∃ m', m.run (evReq c t s) = some m' ∧ MI c (reqStep fixed t s) m' := by
  have hn := hT.npos
  unfold evReq
  cases hp : s.rpc t with
  | idle =>
    refine ⟨m, rfl, ?_⟩
    simpa [reqStep, hp] using h
  | loadPos =>
    obtain ⟨m1, hs1, hle, _, hall⟩ := step_acq m (reqThr t) posObj
    refine ⟨m1, by simp only [run_cons _ hs1]; rfl, ?_⟩
    have h1 := mi_mono h hle hall
    have hrpc : ∀ u, upd s.rpc t RPc.loadSlot u = .reloadPos → s.rpc u = .reloadPos := by
      intro u hu
      by_cases hut : u = t
      · subst hut; simp at hu
      · rwa [upd_ne _ _ hut] at hu
    refine ⟨?_, ?_, ?_, ?_⟩ <;> simp only [reqStep, hp]
    · intro hc; exact ⟨(h1.p0 hc).1, fun u hu => (h1.p0 hc).2.1 u (hrpc u hu), (h1.p0 hc).2.2⟩
    · exact h1.p1s
    · intro hc u hu hd; exact h1.p1r hc u (hrpc u hu) hd
    · exact h1.p1t
  | loadSlot =>
    have hi : (s.rpos t + s.rk t) % s.n < s.n := Nat.mod_lt _ hn
    obtain ⟨m1, hs1, hle, hc1, hall⟩ := step_acq m (reqThr t) (slotObj ((s.rpos t + s.rk t) % s.n))
    refine ⟨m1, by simp only [run_cons _ hs1]; rfl, ?_⟩
    have h1 := mi_mono h hle hall
    refine ⟨?_, ?_, ?_, ?_⟩ <;> simp only [reqStep, hp, fixed, ↓reduceIte]
    · intro hc
      refine ⟨(h1.p0 hc).1, ?_, (h1.p0 hc).2.2⟩
      intro u hu
      by_cases hut : u = t
      · subst hut; rw [upd_same]
        have := slot_lt_next hT _ hi
        omega
      · rw [upd_ne _ _ hut] at hu ⊢; exact (h1.p0 hc).2.1 u hu
    · exact h1.p1s
    · intro hc u hu hd
      by_cases hut : u = t
      · subst hut; rw [upd_same] at hd
        exact hc1 (h.p1s hc _ hi hd)
      · rw [upd_ne _ _ hut] at hu hd; exact h1.p1r hc u hu hd
    · exact h1.p1t
  | reloadPos =>
    obtain ⟨m1, hs1, hle, _, hall⟩ := step_acq m (reqThr t) posObj
    have h1 := mi_mono h hle hall
    have hrpc : ∀ (x : RPc), x ≠ .reloadPos → ∀ u, upd s.rpc t x u = .reloadPos → s.rpc u = .reloadPos ∧ u ≠ t := by
      intro x hx u hu
      by_cases hut : u = t
      · subst hut; rw [upd_same] at hu; exact absurd hu hx
      · rw [upd_ne _ _ hut] at hu; exact ⟨hu, hut⟩
    by_cases hc : s.rpos t = s.pos
    · by_cases hd : s.rdata t = c
      · -- fetchWheelData returns c: the caller reads data.c
        have hlt : c < s.nextChan := by
          apply Nat.lt_of_not_le
          intro hle'
          exact (h.p0 hle').2.1 t hp hd
        obtain ⟨m2, hs2, hle2⟩ := step_rd m1 (reqThr t) (h1.p1r hlt t hp hd)
        refine ⟨m2, by simp only [hc, hd, and_self, ↓reduceIte, run_cons _ hs1, run_cons _ hs2]; rfl, ?_⟩
        refine ⟨?_, ?_, ?_, ?_⟩ <;> simp only [reqStep, hp, hc, ↓reduceIte, complete]
        · intro h'; omega
        · intro _ i hi hs; exact hle2.2 _ (h1.p1s hlt i hi hs)
        · intro _ u hu hdu
          obtain ⟨hu', _⟩ := hrpc .idle (by simp) u hu
          exact hle2.1 _ (h1.p1r hlt u hu' hdu)
        · intro _ hpc hl; exact hle2.1 _ (h1.p1t hlt hpc hl)
      · refine ⟨m1, by simp only [hc, hd, and_false, ↓reduceIte, run_cons _ hs1]; rfl, ?_⟩
        refine ⟨?_, ?_, ?_, ?_⟩ <;> simp only [reqStep, hp, hc, ↓reduceIte, complete]
        · intro h'
          exact ⟨(h1.p0 h').1, fun u hu => (h1.p0 h').2.1 u (hrpc .idle (by simp) u hu).1, (h1.p0 h').2.2⟩
        · exact h1.p1s
        · intro h' u hu hdu; exact h1.p1r h' u (hrpc .idle (by simp) u hu).1 hdu
        · exact h1.p1t
    · refine ⟨m1, by simp only [hc, false_and, ↓reduceIte, run_cons _ hs1]; rfl, ?_⟩
      refine ⟨?_, ?_, ?_, ?_⟩ <;> simp only [reqStep, hp, hc, ↓reduceIte]
      · intro h'
        exact ⟨(h1.p0 h').1, fun u hu => (h1.p0 h').2.1 u (hrpc .loadPos (by simp) u hu).1, (h1.p0 h').2.2⟩
      · exact h1.p1s
      · intro h' u hu hdu; exact h1.p1r h' u (hrpc .loadPos (by simp) u hu).1 hdu
      · exact h1.p1t

/-! ### invoke (no event) -/

theorem mi_invoke {c : Nat} {s : State} {m : Mon} (t : Nat) (d : Int) (h : MI c s m) : MI c (invokeStep t d s) m := by
  unfold invokeStep
  cases hp : s.rpc t with
  | idle =>
    simp only []
    by_cases hr : rangePanics s.step s.n d = true
    · rw [if_pos hr]; exact ⟨h.p0, h.p1s, h.p1r, h.p1t⟩
    · rw [if_neg hr]
      have hrpc : ∀ u, upd s.rpc t RPc.loadPos u = .reloadPos → s.rpc u = .reloadPos := by
        intro u hu
        by_cases hut : u = t
        · subst hut; simp at hu
        · rwa [upd_ne _ _ hut] at hu
      refine ⟨?_, ?_, ?_, ?_⟩ <;> simp only []
      · intro hc; exact ⟨(h.p0 hc).1, fun u hu => (h.p0 hc).2.1 u (hrpc u hu), (h.p0 hc).2.2⟩
      · exact h.p1s
      · intro hc u hu hd; exact h.p1r hc u (hrpc u hu) hd
      · exact h.p1t
  | loadPos => exact h
  | loadSlot => exact h
  | reloadPos => exact h

/-! ### whole executions -/

theorem mi_step {c : Nat} {s : State} {m : Mon} (a : Act) (hT : TInv s) (h : MI c s m) :
    ∃ m', m.run (evStep c s a) = some m' ∧ MI c (step fixed s a) m' := by
  cases a with
  | tick => exact mi_tick hT h
  | invoke t d => exact ⟨m, rfl, mi_invoke t d h⟩
  | reset t base arg => exact ⟨m, rfl, mi_invoke t _ h⟩
  | req t => exact mi_req t hT h

theorem mi_run {c : Nat} (acts : List Act) {s : State} {m : Mon} (hI : Inv s) (h : MI c s m) :
    ∃ m', m.run (chanTrace c s acts) = some m' := by
  induction acts generalizing s m with
  | nil => exact ⟨m, rfl⟩
  | cons a rest ih =>
    obtain ⟨m1, hr1, h1⟩ := mi_step a hI.t h
    obtain ⟨m2, hr2⟩ := ih (inv_step hI a) h1
    refine ⟨m2, ?_⟩
    simp only [chanTrace]
    rw [run_append, hr1]
    exact hr2

/-! ### the creator prefix -/

theorem run_rels (t : Nat) (l : List Nat) (m : Mon) :
    ∃ m', m.run (l.map (fun i => Ev.rel t (slotObj i))) = some m' ∧ Le m m' ∧ (AllTrue m → AllTrue m') ∧
      (m.wcur t = true → ∀ i ∈ l, m'.carW (slotObj i) = true) := by
  induction l generalizing m with
  | nil => exact ⟨m, rfl, Le.refl m, id, fun _ i hi => by simp at hi⟩
  | cons x xs ih =>
    obtain ⟨m1, hs1, hle1, hc1, hall1⟩ := step_rel m t (slotObj x)
    obtain ⟨m2, hr2, hle2, hall2, hc2⟩ := ih m1
    refine ⟨m2, by simp only [List.map_cons, run_cons _ hs1]; exact hr2, hle1.trans hle2,
      fun h => hall2 (hall1 h), ?_⟩
    intro hw i hi
    rcases List.mem_cons.mp hi with rfl | hi'
    · exact hle2.2 _ (hc1 hw)
    · exact hc2 (hle1.1 _ hw) i hi'

theorem allTrue_init : AllTrue Mon.init := fun _ => ⟨rfl, rfl⟩

theorem mi_prefix (n step c : Nat) :
    ∃ m, Mon.init.run (creatorPrefix n c) = some m ∧ MI c (init n step) m := by
  unfold creatorPrefix
  by_cases hc : c < n
  · simp only [hc, ↓reduceIte, List.cons_append, List.nil_append]
    obtain ⟨m1, hs1, hw1⟩ := step_wr Mon.init creatorThr (allTrue_init creatorThr).2
    obtain ⟨m2, hr2, _, _, hc2⟩ := run_rels creatorThr (List.range n) m1
    refine ⟨m2, by rw [run_cons _ hs1]; exact hr2, ?_⟩
    refine ⟨?_, ?_, ?_, ?_⟩ <;> simp only [init]
    · intro h; omega
    · intro _ i hi hs; exact hc2 hw1 i (List.mem_range.mpr hi)
    · intro _ t hp; cases hp
    · intro _ hp; cases hp
  · simp only [hc, ↓reduceIte, List.nil_append]
    obtain ⟨m2, hr2, _, hall2, _⟩ := run_rels creatorThr (List.range n) Mon.init
    refine ⟨m2, hr2, ?_⟩
    refine ⟨?_, ?_, ?_, ?_⟩ <;> simp only [init]
    · intro _
      refine ⟨hall2 allTrue_init, ?_, ?_⟩
      · intro t hp; cases hp
      · intro hp; cases hp
    · intro h; omega
    · intro h; omega
    · intro h; omega

/-! ### main theorem -/

/-- For every execution of the wheel (any number of requesters, NewTimer/AfterFunc/Reset, every interleaving with
    the ticker) and every wheelData object `c`, the accesses to its plain field obey the publication discipline. -/
theorem chan_accepted (n step : Nat) (hn : 0 < n) (acts : List Act) (c : Nat) :
    accepts (chanEvents n step c acts) = true := by
  obtain ⟨m0, hr0, h0⟩ := mi_prefix n step c
  obtain ⟨m1, hr1⟩ := mi_run acts (inv_init n step hn) h0
  unfold accepts chanEvents
  rw [run_append, hr0]
  simp [hr1]

/-- … hence free of data races in the sense of the Go memory model (Got/Model/Discipline.lean). -/
theorem chan_raceFree (n step : Nat) (hn : 0 < n) (acts : List Act) (c : Nat) :
    RaceFree (chanEvents n step c acts) :=
  Got.Lemmas.Discipline.accepts_raceFree _ (chan_accepted n step hn acts c)

/-- non-vacuity: an execution in which requester 7 obtains object 1 while a tick is in flight and reads its field,
    and the ticker later closes it: the trace of object 1 contains the creator's write and both reads -/
example :
    chanEvents 2 10 1 ([.invoke 7 0, .req 7, .tick, .tick, .tick, .req 7, .req 7, .req 7, .req 7, .req 7] ++
        [.tick] ++ fullTick) =
      [.wr 1, .rel 1 1, .rel 1 2, .acq 9 0, .acq 0 0, .rel 0 0, .acq 0 1, .rel 0 1, .acq 9 1, .acq 9 0, .acq 9 0,
       .acq 9 2, .acq 9 0, .rd 9, .acq 0 0, .rel 0 0, .acq 0 2, .rel 0 2, .rd 0] := by
  decide

end Got.Lemmas.DiscWheel
