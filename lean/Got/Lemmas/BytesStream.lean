import Got.Lemmas.BytesBuffer
/-
Helper lemmas for C13 (iox.OctetsStream): one refinement lemma per operation, lifted to op sequences.
Core Lean only.
-/
namespace Got.Lemmas.Bytes
open Got.Model.Bytes Got.Spec.Bytes
set_option linter.unusedVariables false

def StreamOpSize (op : Stream.Op) : Nat := (op.payload.getD []).length

def streamSizes (ops : List Stream.Op) : Nat := (ops.map StreamOpSize).sum

/-- representation + size accounting (`Seek` adds int64s: lengths must stay below 2^63, as they do in Go) -/
def StreamSim (s : Stream) (g : Ghost) (S : Nat) : Prop :=
  StreamRel s g ∧ s.buf.length ≤ S

theorem srel_unread {s : Stream} {g : Ghost} (h : StreamRel s g) : s.buf.drop s.pos = g.unread := by
  obtain ⟨⟨h1, h2⟩, hb, ho⟩ := h
  rw [hb, ho, List.drop_drop]
  unfold Ghost.unread
  congr 1; omega

theorem srel_len {s : Stream} {g : Ghost} (h : StreamRel s g) : s.buf.length = g.W.length - g.r := by
  obtain ⟨_, hb, _⟩ := h
  rw [hb, List.length_drop]

theorem write_eq_append (s : Stream) (p : List Byte) : s.write p = s.append p := by
  unfold Stream.write Stream.append
  cases p with
  | nil => simp
  | cons x xs => simp

theorem ssim_append (s : Stream) (g : Ghost) (S : Nat) (p : List Byte) (h : StreamSim s g S) :
    let g' : Ghost := { g with W := g.W ++ p }
    (g.Appends p g' ∧ g'.r = g.r) ∧ StreamSim (s.append p) g' (S + p.length) := by
  obtain ⟨⟨⟨h1, h2⟩, hb, ho⟩, hS⟩ := h
  refine ⟨⟨⟨rfl, rfl, Nat.le_refl _, h1⟩, rfl⟩, ⟨⟨h1, by simp; omega⟩, ?_, ho⟩, ?_⟩
  · simp only [Stream.append, hb]
    rw [List.drop_append_of_le_length (by omega)]
  · simp only [Stream.append, List.length_append]; omega

theorem ssim_reset (s : Stream) (g : Ghost) (S : Nat) (h : StreamSim s g S) :
    StreamSpec g .reset .unit Ghost.init ∧ StreamSim s.reset Ghost.init S := by
  refine ⟨⟨rfl, rfl⟩, ⟨⟨by simp [Ghost.init], by simp [Ghost.init]⟩, rfl, rfl⟩, ?_⟩
  simp [Stream.reset]

theorem ssim_tidy (s : Stream) (g : Ghost) (S : Nat) (h : StreamSim s g S) :
    ∃ g', StreamSpec g .tidy .unit g' ∧ StreamSim s.tidy g' S := by
  obtain ⟨hrel, hS⟩ := h
  have hun := srel_unread hrel
  have hlen := srel_len hrel
  obtain ⟨⟨h1, h2⟩, hb, ho⟩ := hrel
  refine ⟨{ g with r := g.c }, ⟨rfl, ⟨rfl, rfl, h1, Nat.le_refl _⟩, rfl⟩, ?_⟩
  have hsrc : (s.buf.drop s.pos).length = s.buf.length - s.pos := List.length_drop
  have key : s.tidy = { buf := s.buf.drop s.pos, pos := 0 } := by
    unfold Stream.tidy
    by_cases hpos : s.pos > 0
    · simp only [hpos, if_true]
      have := copyAt_zero_take s.buf (s.buf.drop s.pos) (by rw [hsrc]; omega)
      rw [hsrc] at this; rw [this]
    · have h0 : s.pos = 0 := by omega
      simp only [h0, List.drop_zero]
      cases s; simp_all
  rw [key]
  refine ⟨⟨⟨Nat.le_refl _, h2⟩, ?_, by simp⟩, ?_⟩
  · simpa [Ghost.unread] using hun
  · simp only [List.length_drop]; omega

theorem ssim_read (s : Stream) (g : Ghost) (S : Nat) (k : Nat) (h : StreamSim s g S) :
    ∃ g', StreamSpec g (.read k) (s.read k).2 g' ∧ StreamSim (s.read k).1 g' S := by
  obtain ⟨hrel, hS⟩ := h
  have hun := srel_unread hrel
  have hlen := srel_len hrel
  obtain ⟨⟨h1, h2⟩, hb, ho⟩ := hrel
  have hul : g.unread.length = g.W.length - g.c := by simp [Ghost.unread]
  unfold Stream.read
  by_cases hk : k = 0
  · simp only [hk, if_true]
    exact ⟨g, by simp [StreamSpec], ⟨⟨h1, h2⟩, hb, ho⟩, hS⟩
  · simp only [hk, if_false]
    by_cases hrem : (s.buf.length : Int) - (s.pos : Int) = 0
    · simp only [hrem, if_true]
      have hnil' : g.unread = [] := by
        rw [← hun]; exact List.drop_of_length_le (by omega)
      have hcons : g.consume k = g := by simp [Ghost.consume, hnil']
      exact ⟨g, by simp [StreamSpec, hk, hnil', hcons], ⟨⟨h1, h2⟩, hb, ho⟩, hS⟩
    · simp only [hrem, if_false]
      have hclamp : ¬ ((if (k : Int) > (s.buf.length : Int) - (s.pos : Int) then (s.buf.length : Int) - (s.pos : Int) else (k : Int)) < 0) := by
        split <;> omega
      simp only [hclamp, if_false]
      have hmin : (if (k : Int) > (s.buf.length : Int) - (s.pos : Int) then (s.buf.length : Int) - (s.pos : Int) else (k : Int)).toNat
          = min k g.unread.length := by
        split <;> omega
      rw [hmin, hun]
      refine ⟨g.consume k, ?_, ⟨⟨?_, ?_⟩, hb, ?_⟩, hS⟩
      · simp only [StreamSpec, hk, if_false, ← List.take_eq_take_min, and_self]
      · simp only [Ghost.consume]; omega
      · simp only [Ghost.consume]; omega
      · simp only [Ghost.consume]; omega

theorem ssim_readByte (s : Stream) (g : Ghost) (S : Nat) (h : StreamSim s g S) :
    ∃ g', StreamSpec g .readByte s.readByte.2 g' ∧ StreamSim s.readByte.1 g' S := by
  obtain ⟨hrel, hS⟩ := h
  have hun := srel_unread hrel
  have hlen := srel_len hrel
  obtain ⟨⟨h1, h2⟩, hb, ho⟩ := hrel
  have hul : g.unread.length = g.W.length - g.c := by simp [Ghost.unread]
  unfold Stream.readByte
  by_cases he : s.pos ≥ s.buf.length
  · simp only [he, if_true]
    have hnil' : g.unread = [] := by
      rw [← hun]; exact List.drop_of_length_le he
    exact ⟨g, by simp [StreamSpec, hnil'], ⟨⟨h1, h2⟩, hb, ho⟩, hS⟩
  · simp only [he, if_false]
    have hlt : s.pos < s.buf.length := by omega
    have hcons : g.unread = s.buf[s.pos] :: s.buf.drop (s.pos + 1) := by
      rw [← hun]; exact List.drop_eq_getElem_cons hlt
    have hget : s.buf.getD s.pos 0 = s.buf[s.pos] := by
      simp [List.getD_eq_getElem?_getD, hlt]
    refine ⟨g.consume 1, ?_, ⟨⟨?_, ?_⟩, hb, ?_⟩, hS⟩
    · simp only [StreamSpec, hcons, hget, and_self]
    · simp only [Ghost.consume]; omega
    · simp only [Ghost.consume]; omega
    · simp only [Ghost.consume]; omega

theorem ssim_seek (s : Stream) (g : Ghost) (S : Nat) (o w : Int) (ho : -(2 ^ 63 : Int) ≤ o ∧ o < 2 ^ 63)
    (h : StreamSim s g S) (hbound : (S : Int) < 2 ^ 63) :
    ∃ g', StreamSpec g (.seek o w) (s.seek o w).2 g' ∧ StreamSim (s.seek o w).1 g' S := by
  obtain ⟨hrel, hS⟩ := h
  have hlen := srel_len hrel
  obtain ⟨⟨h1, h2⟩, hb, hoff⟩ := hrel
  have hsmall : (s.buf.length : Int) < 2 ^ 63 := by omega
  have hret : g.retained = s.buf.length := by simp [Ghost.retained, hlen]
  have hcr : g.c - g.r = s.pos := hoff.symm
  have hfail : ¬ g.seekOk o w →
      ∃ g', StreamSpec g (.seek o w) (Stream.Out.seek 0 .invalidArgument) g' ∧ StreamSim s g' S := by
    intro hok
    exact ⟨g, by simp only [StreamSpec, hok, if_false, and_self], ⟨⟨h1, h2⟩, hb, hoff⟩, hS⟩
  -- `go num` of the Go code, for the exact target `a + o`
  have key : ∀ a : Int, 0 ≤ a → a ≤ s.buf.length → (a + o = g.seekTarget o w) → (0 ≤ w ∧ w ≤ 2) →
      ∃ g', StreamSpec g (.seek o w)
          (if wrap64 (a + o) < 0 ∨ wrap64 (a + o) > s.buf.length then (s, Stream.Out.seek 0 .invalidArgument)
           else (({ s with pos := (wrap64 (a + o)).toNat } : Stream), Stream.Out.seek (wrap64 (a + o)).toNat .nil)).2 g' ∧
        StreamSim (if wrap64 (a + o) < 0 ∨ wrap64 (a + o) > s.buf.length then (s, Stream.Out.seek 0 .invalidArgument)
           else (({ s with pos := (wrap64 (a + o)).toNat } : Stream), Stream.Out.seek (wrap64 (a + o)).toNat .nil)).1 g' S := by
    intro a ha0 haL ht hw
    have hcomm : a + o = o + a := by omega
    have hiff := wrap64_range o a s.buf.length ho ha0 (by omega) hsmall
    by_cases hin : 0 ≤ o + a ∧ o + a ≤ s.buf.length
    · have hn : wrap64 (a + o) = o + a := by
        rw [hcomm]; exact wrap64_exact o a s.buf.length ho ha0 (by omega) hsmall hin
      have hcond : ¬ (wrap64 (a + o) < 0 ∨ wrap64 (a + o) > s.buf.length) := by rw [hn]; omega
      simp only [hcond, if_false]
      have hok : g.seekOk o w := ⟨hw.1, hw.2, by rw [← ht]; omega, by rw [← ht, hret]; omega⟩
      refine ⟨{ g with c := g.r + (g.seekTarget o w).toNat }, ?_, ?_⟩
      · have hn' : wrap64 (o + a) = o + a := wrap64_exact o a s.buf.length ho ha0 (by omega) hsmall hin
        simp only [StreamSpec, hok, if_true, ← ht, hcomm, hn', and_self]
      · refine ⟨⟨⟨by simp, ?_⟩, hb, ?_⟩, hS⟩
        · simp only [← ht]; omega
        · simp only [← ht, hn]; omega
    · have hcond : wrap64 (a + o) < 0 ∨ wrap64 (a + o) > s.buf.length := by
        rw [hcomm]
        have : ¬ (0 ≤ wrap64 (o + a) ∧ wrap64 (o + a) ≤ s.buf.length) := fun hc => hin (hiff.1 hc)
        omega
      simp only [hcond, if_true]
      apply hfail
      rintro ⟨_, _, h3, h4⟩; rw [← ht] at h3 h4; rw [hret] at h4; exact hin ⟨by omega, by omega⟩
  unfold Stream.seek
  simp only []
  by_cases hw0 : w = 0
  · subst hw0
    simp only [if_true]
    by_cases hneg : o < 0
    · simp only [hneg, if_true]
      apply hfail
      rintro ⟨_, _, h3, _⟩; simp [Ghost.seekTarget] at h3; omega
    · simp only [hneg, if_false]
      exact key 0 (by omega) (by omega) (by simp [Ghost.seekTarget]) (by omega)
  · simp only [hw0, if_false]
    by_cases hw1 : w = 1
    · subst hw1
      simp only [if_true]
      exact key s.pos (by omega) (by omega) (by simp [Ghost.seekTarget, hcr]) (by omega)
    · simp only [hw1, if_false]
      by_cases hw2 : w = 2
      · subst hw2
        simp only [if_true]
        exact key s.buf.length (by omega) (by omega) (by simp [Ghost.seekTarget, hret]) (by omega)
      · simp only [hw2, if_false]
        apply hfail
        rintro ⟨h3, h4, _⟩; omega

theorem stream_step_sim (s : Stream) (g : Ghost) (S : Nat) (op : Stream.Op) (h : StreamSim s g S)
    (hv : StreamOpValid op) (hbound : ((S + StreamOpSize op : Nat) : Int) < 2 ^ 63) :
    ∃ g', StreamSpec g op (s.step op).2 g' ∧ StreamSim (s.step op).1 g' (S + StreamOpSize op) := by
  have happ : ∀ p : List Byte, ∃ g', ((Stream.Out.err .nil = Stream.Out.err .nil) ∧ g.Appends p g' ∧ g'.r = g.r) ∧
      StreamSim (s.append p) g' (S + p.length) := by
    intro p
    obtain ⟨⟨h1, h2⟩, h3⟩ := ssim_append s g S p h
    exact ⟨_, ⟨rfl, h1, h2⟩, h3⟩
  cases op with
  | write p =>
    simp only [Stream.step, write_eq_append]
    exact happ p
  | writeByte b => exact happ _
  | writeBool b => exact happ _
  | writeInt16 d => exact happ _
  | writeInt32 d => exact happ _
  | writeInt64 d => exact happ _
  | read k => exact ssim_read s g S k h
  | readByte => exact ssim_readByte s g S h
  | tidy => exact ssim_tidy s g S h
  | reset => exact ⟨_, ssim_reset s g S h⟩
  | seek o w => exact ssim_seek s g S o w hv h (by simp only [StreamOpSize, Stream.Op.payload] at hbound; omega)

theorem ssim_init : StreamSim Stream.init Ghost.init 0 :=
  ⟨⟨⟨Nat.le_refl _, Nat.le_refl _⟩, rfl, rfl⟩, Nat.le_refl _⟩

theorem streamSizes_cons (op : Stream.Op) (ops : List Stream.Op) :
    streamSizes (op :: ops) = StreamOpSize op + streamSizes ops := by
  simp [streamSizes]

theorem stream_run_sim (ops : List Stream.Op) : ∀ (s : Stream) (g : Ghost) (S : Nat), StreamSim s g S →
    (∀ op ∈ ops, StreamOpValid op) → ((S + streamSizes ops : Nat) : Int) < 2 ^ 63 →
    ∃ g', StreamSpecRun g ops (s.run ops).2 g' ∧ StreamSim (s.run ops).1 g' (S + streamSizes ops) := by
  induction ops with
  | nil => intro s g S h _ _; exact ⟨g, rfl, by simpa [streamSizes, Stream.run] using h⟩
  | cons op ops ih =>
    intro s g S h hv hbound
    rw [streamSizes_cons] at hbound
    obtain ⟨g1, hs1, hsim1⟩ := stream_step_sim s g S op h (hv op (by simp))
      (by have := hbound; omega)
    obtain ⟨g', hrun, hsim'⟩ := ih (s.step op).1 g1 (S + StreamOpSize op) hsim1
      (fun o ho => hv o (by simp [ho])) (by have := hbound; omega)
    refine ⟨g', ⟨g1, hs1, hrun⟩, ?_⟩
    rw [streamSizes_cons]
    have : S + (StreamOpSize op + streamSizes ops) = S + StreamOpSize op + streamSizes ops := by omega
    rw [this]; exact hsim'

end Got.Lemmas.Bytes
