import Got.Lemmas.Ants
/- ants model: preservation of `TaskOK` by the transitions that only move the task's own pc -/
namespace Got.Model.Ants
set_option linter.unusedVariables false
set_option linter.unusedSimpArgs false

/-! ### preservation, transitions that only move the task's own pc (and ghost fields) -/
macro "ants_pc" : tactic => `(tactic|
  (constructor <;> grind [TPc.pre, TPc.waiting, TPc.preDecide, TPc.post, TPc.fin, Task.cur, effR_pos]))

theorem ok_send {c : Cfg} {now qlen k : Nat} {o : Opts} {t t' : Task} (hc : c.old = false) (ok : TaskOK t)
    (h : tstep c now qlen t (.send k o) = some t') : TaskOK t' := by
  obtain ⟨h1, h2, h3, h4, h5, h6, h7, h8, h9, h10, h11, h12, h13, h14, h15, h16, h17, h18, h19, h20, h21, h22, h23, h24⟩ := ok
  simp only [tstep, hc, Bool.false_eq_true, ↓reduceIte] at h
  (repeat' split at h) <;> (try cases h) <;> ants_pc

theorem ok_busyTest {c : Cfg} {now qlen k : Nat} {o : Opts} {t t' : Task} (hc : c.old = false) (ok : TaskOK t)
    (h : tstep c now qlen t (.busyTest k) = some t') : TaskOK t' := by
  obtain ⟨h1, h2, h3, h4, h5, h6, h7, h8, h9, h10, h11, h12, h13, h14, h15, h16, h17, h18, h19, h20, h21, h22, h23, h24⟩ := ok
  simp only [tstep, hc, Bool.false_eq_true, ↓reduceIte] at h
  (repeat' split at h) <;> (try cases h) <;> ants_pc

theorem ok_discardCb {c : Cfg} {now qlen k : Nat} {o : Opts} {t t' : Task} (hc : c.old = false) (ok : TaskOK t)
    (h : tstep c now qlen t (.discardCb k) = some t') : TaskOK t' := by
  obtain ⟨h1, h2, h3, h4, h5, h6, h7, h8, h9, h10, h11, h12, h13, h14, h15, h16, h17, h18, h19, h20, h21, h22, h23, h24⟩ := ok
  simp only [tstep, hc, Bool.false_eq_true, ↓reduceIte] at h
  (repeat' split at h) <;> (try cases h) <;> ants_pc

theorem ok_enq {c : Cfg} {now qlen k : Nat} {o : Opts} {t t' : Task} (hc : c.old = false) (ok : TaskOK t)
    (h : tstep c now qlen t (.enq k) = some t') : TaskOK t' := by
  obtain ⟨h1, h2, h3, h4, h5, h6, h7, h8, h9, h10, h11, h12, h13, h14, h15, h16, h17, h18, h19, h20, h21, h22, h23, h24⟩ := ok
  simp only [tstep, hc, Bool.false_eq_true, ↓reduceIte] at h
  (repeat' split at h) <;> (try cases h) <;> ants_pc

theorem ok_take {c : Cfg} {now qlen k : Nat} {o : Opts} {t t' : Task} (hc : c.old = false) (ok : TaskOK t)
    (h : tstep c now qlen t (.take k) = some t') : TaskOK t' := by
  obtain ⟨h1, h2, h3, h4, h5, h6, h7, h8, h9, h10, h11, h12, h13, h14, h15, h16, h17, h18, h19, h20, h21, h22, h23, h24⟩ := ok
  simp only [tstep, hc, Bool.false_eq_true, ↓reduceIte] at h
  (repeat' split at h) <;> (try cases h) <;> ants_pc

theorem ok_hook3 {c : Cfg} {now qlen k : Nat} {o : Opts} {t t' : Task} (hc : c.old = false) (ok : TaskOK t)
    (h : tstep c now qlen t (.hook3 k) = some t') : TaskOK t' := by
  obtain ⟨h1, h2, h3, h4, h5, h6, h7, h8, h9, h10, h11, h12, h13, h14, h15, h16, h17, h18, h19, h20, h21, h22, h23, h24⟩ := ok
  simp only [tstep, hc, Bool.false_eq_true, ↓reduceIte] at h
  (repeat' split at h) <;> (try cases h) <;> ants_pc

theorem ok_selDone {c : Cfg} {now qlen k : Nat} {o : Opts} {t t' : Task} (hc : c.old = false) (ok : TaskOK t)
    (h : tstep c now qlen t (.selDone k) = some t') : TaskOK t' := by
  obtain ⟨h1, h2, h3, h4, h5, h6, h7, h8, h9, h10, h11, h12, h13, h14, h15, h16, h17, h18, h19, h20, h21, h22, h23, h24⟩ := ok
  simp only [tstep, hc, Bool.false_eq_true, ↓reduceIte] at h
  (repeat' split at h) <;> (try cases h) <;> ants_pc

theorem ok_selCtx {c : Cfg} {now qlen k : Nat} {o : Opts} {t t' : Task} (hc : c.old = false) (ok : TaskOK t)
    (h : tstep c now qlen t (.selCtx k) = some t') : TaskOK t' := by
  obtain ⟨h1, h2, h3, h4, h5, h6, h7, h8, h9, h10, h11, h12, h13, h14, h15, h16, h17, h18, h19, h20, h21, h22, h23, h24⟩ := ok
  simp only [tstep, hc, Bool.false_eq_true, ↓reduceIte] at h
  (repeat' split at h) <;> (try cases h) <;> ants_pc

theorem ok_hook2 {c : Cfg} {now qlen k : Nat} {o : Opts} {t t' : Task} (hc : c.old = false) (ok : TaskOK t)
    (h : tstep c now qlen t (.hook2 k) = some t') : TaskOK t' := by
  obtain ⟨h1, h2, h3, h4, h5, h6, h7, h8, h9, h10, h11, h12, h13, h14, h15, h16, h17, h18, h19, h20, h21, h22, h23, h24⟩ := ok
  simp only [tstep, hc, Bool.false_eq_true, ↓reduceIte] at h
  (repeat' split at h) <;> (try cases h) <;> ants_pc

theorem ok_errTest {c : Cfg} {now qlen k : Nat} {o : Opts} {t t' : Task} (hc : c.old = false) (ok : TaskOK t)
    (h : tstep c now qlen t (.errTest k) = some t') : TaskOK t' := by
  obtain ⟨h1, h2, h3, h4, h5, h6, h7, h8, h9, h10, h11, h12, h13, h14, h15, h16, h17, h18, h19, h20, h21, h22, h23, h24⟩ := ok
  simp only [tstep, hc, Bool.false_eq_true, ↓reduceIte] at h
  (repeat' split at h) <;> (try cases h) <;> ants_pc

theorem ok_onError {c : Cfg} {now qlen k : Nat} {o : Opts} {t t' : Task} (hc : c.old = false) (ok : TaskOK t)
    (h : tstep c now qlen t (.onError k) = some t') : TaskOK t' := by
  obtain ⟨h1, h2, h3, h4, h5, h6, h7, h8, h9, h10, h11, h12, h13, h14, h15, h16, h17, h18, h19, h20, h21, h22, h23, h24⟩ := ok
  simp only [tstep, hc, Bool.false_eq_true, ↓reduceIte] at h
  (repeat' split at h) <;> (try cases h) <;> ants_pc

theorem ok_wgDone {c : Cfg} {now qlen k : Nat} {o : Opts} {t t' : Task} (hc : c.old = false) (ok : TaskOK t)
    (h : tstep c now qlen t (.wgDone k) = some t') : TaskOK t' := by
  obtain ⟨h1, h2, h3, h4, h5, h6, h7, h8, h9, h10, h11, h12, h13, h14, h15, h16, h17, h18, h19, h20, h21, h22, h23, h24⟩ := ok
  simp only [tstep, hc, Bool.false_eq_true, ↓reduceIte] at h
  (repeat' split at h) <;> (try cases h) <;> ants_pc

end Got.Model.Ants
