import Got.Model.Sort
import Got.Model.MiniGoSort
import Got.Model.SortAstWorld
/-
Proof kit for the translator tie of C15 (Got/Lemmas/SortAst*.lean): `Runs W P p env w r` = "with enough fuel the
MiniGoSort interpreter executes the statement list `p` from `env`, `w` to the result `r`", one composition rule per
statement form (so a refinement proof is a symbolic execution of the generated term along the model's recursion),
and the arithmetic side: `wrap x = x` on the 64-bit range, `idx x = x.toNat` for non-negative indices.
-/
namespace Got.Lemmas.SortAst
open Got.Model.MiniGoSort Got.Model.Sort Got.Model.SortAst

variable {σ : Type}

/-- with every sufficiently large fuel, `p` runs from `(env, w)` to `r` -/
def Runs (W : World σ) (P : String → Option Fn) (p : List Stmt) (env : Env) (w : σ) (r : Res σ) : Prop :=
  ∃ f0, ∀ f, f0 ≤ f → exec W P f p env w = some r

/-- a call of `fn` with the (already wrapped) arguments `args` returns `vs` and the world `w'` -/
def FnRuns (W : World σ) (P : String → Option Fn) (fn : Fn) (args : List Int) (w : σ) (vs : List Int) (w' : σ) : Prop :=
  Runs W P fn.body args.toArray w (.ret vs w') ∨ (vs = [] ∧ ∃ e, Runs W P fn.body args.toArray w (.cont e w'))

variable {W : World σ} {P : String → Option Fn}

theorem Runs.nil {env : Env} {w : σ} : Runs W P [] env w (.cont env w) :=
  ⟨1, fun f hf => by obtain ⟨g, rfl⟩ : ∃ g, f = g + 1 := ⟨f - 1, by omega⟩; rfl⟩

theorem Runs.brk {rest : List Stmt} {env : Env} {w : σ} : Runs W P (.brk :: rest) env w (.brk env w) :=
  ⟨1, fun f hf => by obtain ⟨g, rfl⟩ : ∃ g, f = g + 1 := ⟨f - 1, by omega⟩; rfl⟩

theorem Runs.ret {es : List Expr} {rest : List Stmt} {env : Env} {w : σ} :
    Runs W P (.ret es :: rest) env w (.ret (es.map (eval env)) w) :=
  ⟨1, fun f hf => by obtain ⟨g, rfl⟩ : ∃ g, f = g + 1 := ⟨f - 1, by omega⟩; rfl⟩

theorem Runs.set {x : Nat} {e : Expr} {rest : List Stmt} {env : Env} {w : σ} {r : Res σ}
    (h : Runs W P rest (env.set x (eval env e)) w r) : Runs W P (.set x e :: rest) env w r := by
  obtain ⟨f0, h⟩ := h
  refine ⟨f0 + 1, fun f hf => ?_⟩
  obtain ⟨g, rfl⟩ : ∃ g, f = g + 1 := ⟨f - 1, by omega⟩
  simp only [exec]
  exact h g (by omega)

theorem Runs.set2 {x y : Nat} {e1 e2 : Expr} {rest : List Stmt} {env : Env} {w : σ} {r : Res σ}
    (h : Runs W P rest ((env.set x (eval env e1)).set y (eval env e2)) w r) :
    Runs W P (.set2 x y e1 e2 :: rest) env w r := by
  obtain ⟨f0, h⟩ := h
  refine ⟨f0 + 1, fun f hf => ?_⟩
  obtain ⟨g, rfl⟩ : ∃ g, f = g + 1 := ⟨f - 1, by omega⟩
  simp only [exec]
  exact h g (by omega)

theorem Runs.setB {x : Nat} {c : Cond} {rest : List Stmt} {env : Env} {w : σ} {r : Res σ}
    (h : Runs W P rest (env.set x (if (evalC W env c w).1 then 1 else 0)) (evalC W env c w).2 r) :
    Runs W P (.setB x c :: rest) env w r := by
  obtain ⟨f0, h⟩ := h
  refine ⟨f0 + 1, fun f hf => ?_⟩
  obtain ⟨g, rfl⟩ : ∃ g, f = g + 1 := ⟨f - 1, by omega⟩
  simp only [exec]
  exact h g (by omega)

theorem Runs.swap {a b : Expr} {rest : List Stmt} {env : Env} {w : σ} {r : Res σ}
    (h : Runs W P rest env (W.swap w (eval env a) (eval env b)) r) : Runs W P (.swap a b :: rest) env w r := by
  obtain ⟨f0, h⟩ := h
  refine ⟨f0 + 1, fun f hf => ?_⟩
  obtain ⟨g, rfl⟩ : ∃ g, f = g + 1 := ⟨f - 1, by omega⟩
  simp only [exec]
  exact h g (by omega)

/-- the chosen branch falls through, then the rest runs -/
theorem Runs.ite {c : Cond} {t e rest : List Stmt} {env env' : Env} {w w' : σ} {r : Res σ}
    (hb : Runs W P (if (evalC W env c w).1 then t else e) env (evalC W env c w).2 (.cont env' w'))
    (h : Runs W P rest env' w' r) : Runs W P (.ite c t e :: rest) env w r := by
  obtain ⟨f0, h⟩ := h
  obtain ⟨f1, hb⟩ := hb
  refine ⟨f0 + f1 + 1, fun f hf => ?_⟩
  obtain ⟨g, rfl⟩ : ∃ g, f = g + 1 := ⟨f - 1, by omega⟩
  simp only [exec]
  rw [hb g (by omega)]
  exact h g (by omega)

/-- the chosen branch returns -/
theorem Runs.ite_ret {c : Cond} {t e rest : List Stmt} {env : Env} {w w' : σ} {vs : List Int}
    (hb : Runs W P (if (evalC W env c w).1 then t else e) env (evalC W env c w).2 (.ret vs w')) :
    Runs W P (.ite c t e :: rest) env w (.ret vs w') := by
  obtain ⟨f1, hb⟩ := hb
  refine ⟨f1 + 1, fun f hf => ?_⟩
  obtain ⟨g, rfl⟩ : ∃ g, f = g + 1 := ⟨f - 1, by omega⟩
  simp only [exec]
  rw [hb g (by omega)]

/-- the chosen branch breaks -/
theorem Runs.ite_brk {c : Cond} {t e rest : List Stmt} {env env' : Env} {w w' : σ}
    (hb : Runs W P (if (evalC W env c w).1 then t else e) env (evalC W env c w).2 (.brk env' w')) :
    Runs W P (.ite c t e :: rest) env w (.brk env' w') := by
  obtain ⟨f1, hb⟩ := hb
  refine ⟨f1 + 1, fun f hf => ?_⟩
  obtain ⟨g, rfl⟩ : ∃ g, f = g + 1 := ⟨f - 1, by omega⟩
  simp only [exec]
  rw [hb g (by omega)]

theorem Runs.loop_exit {c : Cond} {body post rest : List Stmt} {env : Env} {w : σ} {r : Res σ}
    (hc : (evalC W env c w).1 = false) (h : Runs W P rest env (evalC W env c w).2 r) :
    Runs W P (.loop c body post :: rest) env w r := by
  obtain ⟨f0, h⟩ := h
  refine ⟨f0 + 1, fun f hf => ?_⟩
  obtain ⟨g, rfl⟩ : ∃ g, f = g + 1 := ⟨f - 1, by omega⟩
  simp only [exec, hc]
  exact h g (by omega)

theorem Runs.loop_iter {c : Cond} {body post rest : List Stmt} {env env' env'' : Env} {w w' w'' : σ} {r : Res σ}
    (hc : (evalC W env c w).1 = true) (hb : Runs W P body env (evalC W env c w).2 (.cont env' w'))
    (hp : Runs W P post env' w' (.cont env'' w'')) (h : Runs W P (.loop c body post :: rest) env'' w'' r) :
    Runs W P (.loop c body post :: rest) env w r := by
  obtain ⟨f0, h⟩ := h
  obtain ⟨f1, hb⟩ := hb
  obtain ⟨f2, hp⟩ := hp
  refine ⟨f0 + f1 + f2 + 1, fun f hf => ?_⟩
  obtain ⟨g, rfl⟩ : ∃ g, f = g + 1 := ⟨f - 1, by omega⟩
  simp only [exec, hc, if_true]
  rw [hb g (by omega)]
  simp only
  rw [hp g (by omega)]
  exact h g (by omega)

theorem Runs.loop_brk {c : Cond} {body post rest : List Stmt} {env env' : Env} {w w' : σ} {r : Res σ}
    (hc : (evalC W env c w).1 = true) (hb : Runs W P body env (evalC W env c w).2 (.brk env' w'))
    (h : Runs W P rest env' w' r) : Runs W P (.loop c body post :: rest) env w r := by
  obtain ⟨f0, h⟩ := h
  obtain ⟨f1, hb⟩ := hb
  refine ⟨f0 + f1 + 1, fun f hf => ?_⟩
  obtain ⟨g, rfl⟩ : ∃ g, f = g + 1 := ⟨f - 1, by omega⟩
  simp only [exec, hc, if_true]
  rw [hb g (by omega)]
  exact h g (by omega)

theorem Runs.loop_ret {c : Cond} {body post rest : List Stmt} {env : Env} {w w' : σ} {vs : List Int}
    (hc : (evalC W env c w).1 = true) (hb : Runs W P body env (evalC W env c w).2 (.ret vs w')) :
    Runs W P (.loop c body post :: rest) env w (.ret vs w') := by
  obtain ⟨f1, hb⟩ := hb
  refine ⟨f1 + 1, fun f hf => ?_⟩
  obtain ⟨g, rfl⟩ : ∃ g, f = g + 1 := ⟨f - 1, by omega⟩
  simp only [exec, hc, if_true]
  rw [hb g (by omega)]

/-- a call statement: the callee runs (`FnRuns`), its results are assigned, the rest runs -/
theorem Runs.call {g : String} {fn : Fn} {args : List Expr} {res : List Nat} {rest : List Stmt} {env : Env}
    {w w' : σ} {vs : List Int} {r : Res σ}
    (hP : P g = some fn) (hnp : fn.nparams = args.length) (hnr : fn.nresults = res.length)
    (hf : FnRuns W P fn (args.map (eval env)) w vs w') (hvs : vs.length = res.length)
    (h : Runs W P rest (env.setMany res vs) w' r) : Runs W P (.call g args res :: rest) env w r := by
  obtain ⟨f0, h⟩ := h
  rcases hf with ⟨f1, hb⟩ | ⟨rfl, e, f1, hb⟩
  · refine ⟨f0 + f1 + 1, fun f hf => ?_⟩
    obtain ⟨k, rfl⟩ : ∃ k, f = k + 1 := ⟨f - 1, by omega⟩
    simp only [exec, hP, hnp, hnr, and_self, if_true]
    rw [hb k (by omega)]
    simp only [hvs, if_true]
    exact h k (by omega)
  · refine ⟨f0 + f1 + 1, fun f hf => ?_⟩
    obtain ⟨k, rfl⟩ : ∃ k, f = k + 1 := ⟨f - 1, by omega⟩
    simp only [exec, hP, hnp, hnr, and_self, if_true]
    rw [hb k (by omega)]
    have hr : res.length = 0 := by simpa using hvs.symm
    simp only [hr, if_true]
    have hres : res = [] := List.length_eq_zero_iff.mp hr
    subst hres
    exact h k (by omega)

/-- `Fn.run` (what the driver calls) from `FnRuns` -/
theorem run_of_FnRuns {fn : Fn} {args : List Int} {w w' : σ} {vs : List Int}
    (hnp : fn.nparams = args.length) (hnr : vs.length = fn.nresults)
    (h : FnRuns W P fn (args.map wrap) w vs w') :
    ∃ f0, ∀ f, f0 ≤ f → fn.run W P f args w = some (vs, w') := by
  rcases h with ⟨f1, hb⟩ | ⟨rfl, e, f1, hb⟩
  · refine ⟨f1, fun f hf => ?_⟩
    unfold Fn.run
    rw [if_pos hnp, hb f hf]
    simp only [hnr, if_true]
  · refine ⟨f1, fun f hf => ?_⟩
    unfold Fn.run
    rw [if_pos hnp, hb f hf]
    have : fn.nresults = 0 := by simpa using hnr.symm
    simp only [this, if_true]

/-! ### arithmetic -/

theorem wrap_eq {x : Int} (h1 : -9223372036854775808 ≤ x) (h2 : x < 9223372036854775808) : wrap x = x := by
  unfold wrap; omega

theorem idx_eq {x : Int} (h1 : 0 ≤ x) (h2 : x < 18446744073709551616) : idx x = x.toNat := by
  unfold idx; omega

theorem idx_natCast {n : Nat} (h : n < 18446744073709551616) : idx (n : Int) = n := by
  unfold idx; omega

/-! ### environment -/

theorem get_mk2 (a b : Int) : Env.get #[a, b] 0 = a ∧ Env.get #[a, b] 1 = b := by
  constructor <;> rfl

theorem get_mk3 (a b c : Int) : Env.get #[a, b, c] 0 = a ∧ Env.get #[a, b, c] 1 = b ∧ Env.get #[a, b, c] 2 = c := by
  refine ⟨?_, ?_, ?_⟩ <;> rfl

end Got.Lemmas.SortAst
