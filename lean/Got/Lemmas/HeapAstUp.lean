import Got.Lemmas.HeapAstBase
import Got.Model.HeapAstWorld
import Got.Lemmas.GoHeap
/-
Translator tie of container/heap, part "up": the generated terms `h_up` and `h_Push`
(Got/Generated/AstContainerHeap.lean) interpreted by MiniGoHeap over the slice-backed world `heapWorld less`
compute exactly the model functions `GoHeap.up` / `GoHeap.push` of Got/Model/GoHeap.lean (and never panic).
-/
set_option linter.unusedSimpArgs false
namespace Got.Lemmas.HeapAst
open Got.Model.MiniGoSort (wrap Env)
open Got.Model.MiniGoHeap Got.Model.HeapAst Got.Model Got.Generated.AstContainerHeap
open Got.Lemmas.SortAst (wrap_eq)

variable {α : Type}

/-! ### the world operations at in-range natural indices -/

theorem up_hw_less (less : α → α → Bool) (a : Array α) (i j : Nat) (hi : i < a.size) (hj : j < a.size) :
    (heapWorld less).less a (i : Int) (j : Int) = some (less a[i] a[j], a) := by
  have hb : 0 ≤ (i : Int) ∧ 0 ≤ (j : Int) ∧ (i : Int).toNat < a.size ∧ (j : Int).toNat < a.size := by
    simp only [Int.toNat_natCast]; omega
  show (if h : 0 ≤ (i : Int) ∧ 0 ≤ (j : Int) ∧ (i : Int).toNat < a.size ∧ (j : Int).toNat < a.size then
      some (less (a[(i : Int).toNat]'h.2.2.1) (a[(j : Int).toNat]'h.2.2.2), a) else none) = _
  rw [dif_pos hb]
  simp only [Int.toNat_natCast]

theorem up_hw_swap (less : α → α → Bool) (a : Array α) (i j : Nat) (hi : i < a.size) (hj : j < a.size) :
    (heapWorld less).swap a (i : Int) (j : Int) = some (a.swap i j hi hj) := by
  have hb : 0 ≤ (i : Int) ∧ 0 ≤ (j : Int) ∧ (i : Int).toNat < a.size ∧ (j : Int).toNat < a.size := by
    simp only [Int.toNat_natCast]; omega
  show (if h : 0 ≤ (i : Int) ∧ 0 ≤ (j : Int) ∧ (i : Int).toNat < a.size ∧ (j : Int).toNat < a.size then
      some (a.swap (i : Int).toNat (j : Int).toNat h.2.2.1 h.2.2.2) else none) = _
  rw [dif_pos hb]
  simp only [Int.toNat_natCast]

/-- Go's truncated `(j - 1) / 2` is the model's natural-number `(j - 1) / 2` (also for `j = 0`: `(-1) / 2 = 0`) -/
theorem up_tdiv_half (j : Nat) : Int.tdiv ((j : Int) - 1) ((2 : Nat) : Int) = (((j - 1) / 2 : Nat) : Int) := by
  cases j with
  | zero => rfl
  | succ n =>
    rw [Int.tdiv_eq_ediv_of_nonneg (by omega)]
    omega

/-! ### up -/

/-- the `for { … }` of the generated term -/
def upLoop : Stmt :=
  .loop .tt [
    .set 1 (.divC (.sub (.var 0) (.lit 1)) 2),
    .ite (.or (.eq (.var 1) (.var 0)) (.not (.less (.var 0) (.var 1)))) [.brk] [],
    .swap (.var 1) (.var 0),
    .set 0 (.var 1)
  ] []

theorem up_body : h_up.body = [upLoop] := rfl

theorem upLoop_runs (P : String → Option Fn) (x : Option α) (less : α → α → Bool) :
    ∀ (fuel : Nat) (a : Array α) (j : Nat) (env : Env), j < a.size → j < fuel → a.size < B62 → env.get 0 = (j : Int) →
      ∃ env', ∀ rest r, Runs (heapWorld less) P x rest env' (GoHeap.upAux less fuel a j) r →
        Runs (heapWorld less) P x (upLoop :: rest) env a r := by
  intro fuel
  induction fuel with
  | zero => intro a j env _ hf; omega
  | succ fuel ih =>
    intro a j env hj hf hsz h0
    unfold B62 at hsz
    have hc : evalC (heapWorld less) env .tt a = some (true, a) := rfl
    have g1 : (env.set 1 (eval ((heapWorld less).len a) env (.divC (.sub (.var 0) (.lit 1)) 2))).get 1 =
        (((j - 1) / 2 : Nat) : Int) := by
      rw [Env.get_set, if_pos rfl]
      simp (disch := omega) only [eval, h0, wrap_eq]
      rw [up_tdiv_half, wrap_eq (by omega) (by omega)]
    have g0 : (env.set 1 (eval ((heapWorld less).len a) env (.divC (.sub (.var 0) (.lit 1)) 2))).get 0 = (j : Int) := by
      rw [Env.get_set]; simpa using h0
    generalize hE : env.set 1 (eval ((heapWorld less).len a) env (.divC (.sub (.var 0) (.lit 1)) 2)) = env1 at g0 g1
    simp only [GoHeap.upAux]
    rw [dif_pos hj]
    by_cases hij : (j - 1) / 2 = j
    · rw [if_pos hij]
      have hc1 : evalC (heapWorld less) env1 (.or (.eq (.var 1) (.var 0)) (.not (.less (.var 0) (.var 1)))) a =
          some (true, a) := by
        simp only [evalC, eval, g0, g1]
        have : ((((j - 1) / 2 : Nat) : Int) = (j : Int)) := by omega
        simp only [this, decide_true]
      refine ⟨env1, fun rest r h => ?_⟩
      refine Runs.loop_brk hc ?_ h
      refine Runs.set ?_
      rw [hE]
      refine Runs.ite_brk hc1 ?_
      exact Runs.brk
    · rw [if_neg hij]
      have hi : (j - 1) / 2 < a.size := by omega
      have hne : ¬ ((((j - 1) / 2 : Nat) : Int) = (j : Int)) := by omega
      cases hl : less a[j] (a[(j - 1) / 2]'hi) with
      | false =>
        simp only [Bool.not_false, if_true]
        have hc1 : evalC (heapWorld less) env1 (.or (.eq (.var 1) (.var 0)) (.not (.less (.var 0) (.var 1)))) a =
            some (true, a) := by
          simp only [evalC, eval, g0, g1, hne, decide_false, up_hw_less less a j ((j - 1) / 2) hj hi, hl,
            Option.map_some, Bool.not_false]
        refine ⟨env1, fun rest r h => ?_⟩
        refine Runs.loop_brk hc ?_ h
        refine Runs.set ?_
        rw [hE]
        refine Runs.ite_brk hc1 ?_
        exact Runs.brk
      | true =>
        simp only [Bool.not_true, Bool.false_eq_true, if_false]
        have hc1 : evalC (heapWorld less) env1 (.or (.eq (.var 1) (.var 0)) (.not (.less (.var 0) (.var 1)))) a =
            some (false, a) := by
          simp only [evalC, eval, g0, g1, hne, decide_false, up_hw_less less a j ((j - 1) / 2) hj hi, hl,
            Option.map_some, Bool.not_true]
        have hsw : (heapWorld less).swap a (eval ((heapWorld less).len a) env1 (.var 1))
            (eval ((heapWorld less).len a) env1 (.var 0)) = some (a.swap ((j - 1) / 2) j hi hj) := by
          simp only [eval, g0, g1]
          exact up_hw_swap less a ((j - 1) / 2) j hi hj
        obtain ⟨env', hk⟩ := ih (a.swap ((j - 1) / 2) j hi hj) ((j - 1) / 2)
          (env1.set 0 (eval ((heapWorld less).len (a.swap ((j - 1) / 2) j hi hj)) env1 (.var 1)))
          (by rw [Array.size_swap]; exact hi) (by omega) (by rw [Array.size_swap]; unfold B62; exact hsz)
          (by rw [Env.get_set, if_pos rfl]; simpa [eval] using g1)
        refine ⟨env', fun rest r h => ?_⟩
        refine Runs.loop_iter hc (env' := env1.set 0 (eval ((heapWorld less).len (a.swap ((j - 1) / 2) j hi hj)) env1 (.var 1)))
          (w' := a.swap ((j - 1) / 2) j hi hj) ?_ Runs.nil (hk rest r h)
        refine Runs.set ?_
        rw [hE]
        refine Runs.ite (env' := env1) (w' := a) hc1 Runs.nil ?_
        refine Runs.swap hsw ?_
        exact Runs.set Runs.nil

/-- `up`: the translated source computes the model's `GoHeap.up` (and does not panic) -/
theorem up_runs (P : String → Option Fn) (less : α → α → Bool) (a : Array α) (j : Nat) (hj : j < a.size)
    (hsz : a.size < B62) : FnRuns (heapWorld less) P h_up [(j : Int)] a [] (GoHeap.up less a j) := by
  obtain ⟨env', hk⟩ := upLoop_runs P none less (j + 1) a j #[(j : Int)] hj (by omega) hsz rfl
  rw [FnRuns, up_body]
  exact Or.inr ⟨rfl, env', hk [] _ Runs.nil⟩

/-! ### Push -/

/-- `heap.Push`: the translated source computes the model's `GoHeap.push` (and does not panic) -/
theorem push_runs (P : String → Option Fn) (hPup : P "up" = some h_up) (less : α → α → Bool) (a : Array α) (x : α)
    (hsz : a.size + 1 < B62) :
    ∃ e, Runs (heapWorld less) P (some x) h_Push.body #[] a (.cont e (GoHeap.push less a x)) := by
  have hsz' := hsz
  unfold B62 at hsz'
  have hargs : List.map (eval ((heapWorld less).len ((heapWorld less).push a x)) #[]) [(.sub .len (.lit 1))] =
      [((a.size : Nat) : Int)] := by
    have hlen : (heapWorld less).len ((heapWorld less).push a x) = ((a.size + 1 : Nat) : Int) := by
      show (((a.push x).size : Nat) : Int) = _
      rw [Array.size_push]
    simp (disch := omega) only [List.map, eval, hlen, wrap_eq]
    congr 1
    omega
  refine ⟨#[], ?_⟩
  show Runs (heapWorld less) P (some x) [.hpush, .call "up" [(.sub .len (.lit 1))] []] #[] a _
  refine Runs.hpush ?_
  refine Runs.call (vs := []) hPup rfl rfl rfl ?_ rfl Runs.nil
  rw [hargs]
  exact up_runs P less (a.push x) a.size (by rw [Array.size_push]; omega) (by rw [Array.size_push]; exact hsz)

/-
#print axioms up_runs    -- [propext, Classical.choice, Quot.sound]
#print axioms push_runs  -- [propext, Classical.choice, Quot.sound]
-/

end Got.Lemmas.HeapAst
