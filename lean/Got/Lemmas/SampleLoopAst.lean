import Got.Model.MiniGoSampleLoop
import Got.Generated.AstRandxSampling
import Got.Lemmas.SampleAst
import Got.Lemmas.SortAstBase
/-
Translator tie of randx.WeightedSampling: the term that tools/srcfacts regenerates from /repo/randx/sample.go on every run
(Got/Generated/AstRandxSampling.lean), interpreted by Got/Model/MiniGoSampleLoop.lean over heap operations that compute the
GoHeap model functions (`OpsSpec`), computes exactly the hand-written model `Got.Model.Sample.weightedSampling`.
-/
set_option linter.unusedSimpArgs false
set_option linter.unusedVariables false
namespace Got.Lemmas.SampleLoopAst
open Got.Model Got.Model.Sample Got.Model.MiniGoSampleLoop
open Got.Model.MiniGoSort (wrap Env)
open Got.Lemmas.SortAst (wrap_eq)
open Got.Lemmas.HeapAst (B62)
open Got.Lemmas.SampleAst (step_size)

variable {κ : Type}

/-- the heap operations, at every sufficiently large fuel, are the model's -/
def OpsSpec (less : κ → κ → Bool) (ops : Nat → Got.Model.MiniGoSampleLoop.Ops κ) : Prop :=
  (∀ (h : Array (Item κ)) (x : Item κ), h.size + 1 < B62 →
      ∃ f0, ∀ f, f0 ≤ f → (ops f).push h x = some (some (GoHeap.push (itemLess less) h x))) ∧
  (∀ (h : Array (Item κ)), h.size < B62 →
      ∃ f0, ∀ f, f0 ≤ f → (ops f).pop h = some ((GoHeap.pop (itemLess less) h).map (·.2))) ∧
  (∀ (f : Nat) (h : Array (Item κ)) (i : Nat), (ops f).get h (i : Int) = h[i]?)

/-- for every sufficiently large fuel of the heap operations and of the interpreter, `p` ends in `r` -/
def Runs (ops : Nat → Ops κ) (gt : κ → κ → Bool) (keys : List κ) (p : List Stmt) (env : Env) (s : St κ) (r : Res κ) : Prop :=
  ∃ f0, ∀ f g, f0 ≤ f → f0 ≤ g → exec (ops f) gt keys g p env s = some r

section rules
variable {ops : Nat → Ops κ} {gt : κ → κ → Bool} {keys : List κ}

theorem Runs.nil {env : Env} {s : St κ} : Runs ops gt keys [] env s (.cont env s) :=
  ⟨1, fun f g _ hg => by obtain ⟨g, rfl⟩ : ∃ g', g = g' + 1 := ⟨g - 1, by omega⟩; rfl⟩

theorem Runs.panic {rest : List Stmt} {env : Env} {s : St κ} :
    Runs ops gt keys (.panic :: rest) env s (.ret (.error .invalidInputs)) :=
  ⟨1, fun f g _ hg => by obtain ⟨g, rfl⟩ : ∃ g', g = g' + 1 := ⟨g - 1, by omega⟩; rfl⟩

theorem Runs.retResults {rest : List Stmt} {env : Env} {s : St κ} :
    Runs ops gt keys (.retResults :: rest) env s (.ret (.ok (s.results.toList.map Int.toNat))) :=
  ⟨1, fun f g _ hg => by obtain ⟨g, rfl⟩ : ∃ g', g = g' + 1 := ⟨g - 1, by omega⟩; rfl⟩

theorem Runs.set {x : Nat} {e : Expr} {rest : List Stmt} {env : Env} {s : St κ} {r : Res κ}
    (h : Runs ops gt keys rest (env.set x (eval env s e)) s r) : Runs ops gt keys (.set x e :: rest) env s r := by
  obtain ⟨f0, h⟩ := h
  refine ⟨f0 + 1, fun f g hf hg => ?_⟩
  obtain ⟨g, rfl⟩ : ∃ g', g = g' + 1 := ⟨g - 1, by omega⟩
  simp only [exec]
  exact h f g (by omega) (by omega)

theorem Runs.float {rest : List Stmt} {env : Env} {s : St κ} {r : Res κ}
    (h : Runs ops gt keys rest env s r) : Runs ops gt keys (.float :: rest) env s r := by
  obtain ⟨f0, h⟩ := h
  refine ⟨f0 + 1, fun f g hf hg => ?_⟩
  obtain ⟨g, rfl⟩ : ∃ g', g = g' + 1 := ⟨g - 1, by omega⟩
  simp only [exec]
  exact h f g (by omega) (by omega)

theorem Runs.makeHeap_neg {e : Expr} {rest : List Stmt} {env : Env} {s : St κ} (hlt : eval env s e < 0) :
    Runs ops gt keys (.makeHeap e :: rest) env s (.ret (.error .makeCap)) := by
  refine ⟨1, fun f g hf hg => ?_⟩
  obtain ⟨g, rfl⟩ : ∃ g', g = g' + 1 := ⟨g - 1, by omega⟩
  simp only [exec, hlt, if_true]

theorem Runs.makeHeap {e : Expr} {rest : List Stmt} {env : Env} {s : St κ} {r : Res κ} (hlt : ¬ eval env s e < 0)
    (h : Runs ops gt keys rest env { s with heap := #[] } r) : Runs ops gt keys (.makeHeap e :: rest) env s r := by
  obtain ⟨f0, h⟩ := h
  refine ⟨f0 + 1, fun f g hf hg => ?_⟩
  obtain ⟨g, rfl⟩ : ∃ g', g = g' + 1 := ⟨g - 1, by omega⟩
  simp only [exec, hlt, if_false]
  exact h f g (by omega) (by omega)

theorem Runs.makeResults {e : Expr} {rest : List Stmt} {env : Env} {s : St κ} {r : Res κ} (hlt : ¬ eval env s e < 0)
    (h : Runs ops gt keys rest env { s with results := Array.replicate (eval env s e).toNat 0 } r) :
    Runs ops gt keys (.makeResults e :: rest) env s r := by
  obtain ⟨f0, h⟩ := h
  refine ⟨f0 + 1, fun f g hf hg => ?_⟩
  obtain ⟨g, rfl⟩ : ∃ g', g = g' + 1 := ⟨g - 1, by omega⟩
  simp only [exec, hlt, if_false]
  exact h f g (by omega) (by omega)

theorem Runs.key {e : Expr} {rest : List Stmt} {env : Env} {s : St κ} {r : Res κ} (h0 : 0 ≤ eval env s e)
    (h : Runs ops gt keys rest env { s with ki := keys[(eval env s e).toNat]? } r) :
    Runs ops gt keys (.key e :: rest) env s r := by
  obtain ⟨f0, h⟩ := h
  refine ⟨f0 + 1, fun f g hf hg => ?_⟩
  obtain ⟨g, rfl⟩ : ∃ g', g = g' + 1 := ⟨g - 1, by omega⟩
  simp only [exec, h0, if_true]
  exact h f g (by omega) (by omega)

theorem Runs.hpush {e : Expr} {rest : List Stmt} {env : Env} {s : St κ} {r : Res κ} {k : κ} {h' : Array (Item κ)}
    (hk : s.ki = some k)
    (hp : ∃ f0, ∀ f, f0 ≤ f → (ops f).push s.heap ⟨k, (eval env s e).toNat⟩ = some (some h'))
    (h : Runs ops gt keys rest env { s with heap := h' } r) : Runs ops gt keys (.hpush e :: rest) env s r := by
  obtain ⟨f0, h⟩ := h
  obtain ⟨f1, hp⟩ := hp
  refine ⟨f0 + f1 + 1, fun f g hf hg => ?_⟩
  obtain ⟨g, rfl⟩ : ∃ g', g = g' + 1 := ⟨g - 1, by omega⟩
  simp only [exec, hk, hp f (by omega)]
  have h' := h f g (by omega) (by omega)
  rw [hk] at h'
  exact h'

theorem Runs.hpop_some {rest : List Stmt} {env : Env} {s : St κ} {r : Res κ} {h' : Array (Item κ)}
    (hp : ∃ f0, ∀ f, f0 ≤ f → (ops f).pop s.heap = some (some h'))
    (h : Runs ops gt keys rest env { s with heap := h' } r) : Runs ops gt keys (.hpop :: rest) env s r := by
  obtain ⟨f0, h⟩ := h
  obtain ⟨f1, hp⟩ := hp
  refine ⟨f0 + f1 + 1, fun f g hf hg => ?_⟩
  obtain ⟨g, rfl⟩ : ∃ g', g = g' + 1 := ⟨g - 1, by omega⟩
  simp only [exec, hp f (by omega)]
  exact h f g (by omega) (by omega)

theorem Runs.hpop_none {rest : List Stmt} {env : Env} {s : St κ}
    (hp : ∃ f0, ∀ f, f0 ≤ f → (ops f).pop s.heap = some none) :
    Runs ops gt keys (.hpop :: rest) env s (.ret (.error .indexRange)) := by
  obtain ⟨f1, hp⟩ := hp
  refine ⟨f1 + 1, fun f g hf hg => ?_⟩
  obtain ⟨g, rfl⟩ : ∃ g', g = g' + 1 := ⟨g - 1, by omega⟩
  simp only [exec, hp f (by omega)]

theorem Runs.setResult_some {e1 e2 : Expr} {rest : List Stmt} {env : Env} {s : St κ} {r : Res κ} {it : Item κ}
    (hg : ∀ f, (ops f).get s.heap (eval env s e2) = some it)
    (hb : 0 ≤ eval env s e1 ∧ (eval env s e1).toNat < s.results.size)
    (h : Runs ops gt keys rest env { s with results := s.results.set! (eval env s e1).toNat (it.index : Int) } r) :
    Runs ops gt keys (.setResult e1 e2 :: rest) env s r := by
  obtain ⟨f0, h⟩ := h
  refine ⟨f0 + 1, fun f g hf hg' => ?_⟩
  obtain ⟨g, rfl⟩ : ∃ g', g = g' + 1 := ⟨g - 1, by omega⟩
  simp only [exec, hg f, hb, and_self, if_true]
  exact h f g (by omega) (by omega)

theorem Runs.setResult_none {e1 e2 : Expr} {rest : List Stmt} {env : Env} {s : St κ}
    (hg : ∀ f, (ops f).get s.heap (eval env s e2) = none) :
    Runs ops gt keys (.setResult e1 e2 :: rest) env s (.ret (.error .indexRange)) := by
  refine ⟨1, fun f g hf hg' => ?_⟩
  obtain ⟨g, rfl⟩ : ∃ g', g = g' + 1 := ⟨g - 1, by omega⟩
  simp only [exec, hg f]

theorem Runs.ite {c : Cond} {t e rest : List Stmt} {env env' : Env} {s s' : St κ} {r : Res κ} {b : Bool}
    (hc : ∀ f, evalC (ops f) gt env s c = some b) (hb : Runs ops gt keys (if b then t else e) env s (.cont env' s'))
    (h : Runs ops gt keys rest env' s' r) : Runs ops gt keys (.ite c t e :: rest) env s r := by
  obtain ⟨f0, h⟩ := h
  obtain ⟨f1, hb⟩ := hb
  refine ⟨f0 + f1 + 1, fun f g hf hg => ?_⟩
  obtain ⟨g, rfl⟩ : ∃ g', g = g' + 1 := ⟨g - 1, by omega⟩
  simp only [exec, hc f]
  rw [hb f g (by omega) (by omega)]
  exact h f g (by omega) (by omega)

theorem Runs.ite_ret {c : Cond} {t e rest : List Stmt} {env : Env} {s : St κ} {x : Result} {b : Bool}
    (hc : ∀ f, evalC (ops f) gt env s c = some b) (hb : Runs ops gt keys (if b then t else e) env s (.ret x)) :
    Runs ops gt keys (.ite c t e :: rest) env s (.ret x) := by
  obtain ⟨f1, hb⟩ := hb
  refine ⟨f1 + 1, fun f g hf hg => ?_⟩
  obtain ⟨g, rfl⟩ : ∃ g', g = g' + 1 := ⟨g - 1, by omega⟩
  simp only [exec, hc f]
  rw [hb f g (by omega) (by omega)]

theorem Runs.ite_none {c : Cond} {t e rest : List Stmt} {env : Env} {s : St κ}
    (hc : ∀ f, evalC (ops f) gt env s c = none) :
    Runs ops gt keys (.ite c t e :: rest) env s (.ret (.error .indexRange)) := by
  refine ⟨1, fun f g hf hg => ?_⟩
  obtain ⟨g, rfl⟩ : ∃ g', g = g' + 1 := ⟨g - 1, by omega⟩
  simp only [exec, hc f]

theorem Runs.loop_exit {c : Cond} {body post rest : List Stmt} {env : Env} {s : St κ} {r : Res κ}
    (hc : ∀ f, evalC (ops f) gt env s c = some false) (h : Runs ops gt keys rest env s r) :
    Runs ops gt keys (.loop c body post :: rest) env s r := by
  obtain ⟨f0, h⟩ := h
  refine ⟨f0 + 1, fun f g hf hg => ?_⟩
  obtain ⟨g, rfl⟩ : ∃ g', g = g' + 1 := ⟨g - 1, by omega⟩
  simp only [exec, hc f]
  exact h f g (by omega) (by omega)

theorem Runs.loop_iter {c : Cond} {body post rest : List Stmt} {env env' env'' : Env} {s s' s'' : St κ} {r : Res κ}
    (hc : ∀ f, evalC (ops f) gt env s c = some true) (hb : Runs ops gt keys body env s (.cont env' s'))
    (hp : Runs ops gt keys post env' s' (.cont env'' s''))
    (h : Runs ops gt keys (.loop c body post :: rest) env'' s'' r) :
    Runs ops gt keys (.loop c body post :: rest) env s r := by
  obtain ⟨f0, h⟩ := h
  obtain ⟨f1, hb⟩ := hb
  obtain ⟨f2, hp⟩ := hp
  refine ⟨f0 + f1 + f2 + 1, fun f g hf hg => ?_⟩
  obtain ⟨g, rfl⟩ : ∃ g', g = g' + 1 := ⟨g - 1, by omega⟩
  simp only [exec, hc f]
  rw [hb f g (by omega) (by omega)]
  simp only
  rw [hp f g (by omega) (by omega)]
  exact h f g (by omega) (by omega)

theorem Runs.loop_body_ret {c : Cond} {body post rest : List Stmt} {env : Env} {s : St κ} {x : Result}
    (hc : ∀ f, evalC (ops f) gt env s c = some true) (hb : Runs ops gt keys body env s (.ret x)) :
    Runs ops gt keys (.loop c body post :: rest) env s (.ret x) := by
  obtain ⟨f1, hb⟩ := hb
  refine ⟨f1 + 1, fun f g hf hg => ?_⟩
  obtain ⟨g, rfl⟩ : ∃ g', g = g' + 1 := ⟨g - 1, by omega⟩
  simp only [exec, hc f]
  rw [hb f g (by omega) (by omega)]

end rules

/-! ### the shape of the generated body -/

def body1 : List Stmt :=
  [ .float, .float, .key (.var 2),
    .ite (.lt .hlen (.var 0)) [.hpush (.var 2)]
      [.ite (.keyGtTop (.lit 0)) [.hpush (.var 2), .ite (.lt (.var 0) .hlen) [.hpop] []] []] ]

def loop1 : Stmt := .loop (.lt (.var 2) (.var 1)) body1 [.set 2 (.add (.var 2) (.lit 1))]

def loop2 : Stmt := .loop (.lt (.var 3) (.var 0)) [.setResult (.var 3) (.var 3)] [.set 3 (.add (.var 3) (.lit 1))]

theorem weightedSampling_body : Got.Generated.AstRandxSampling.weightedSampling.body =
    [ .ite (.or (.lt (.var 1) (.var 0)) (.le (.var 1) (.lit 0))) [.panic] [],
      .makeHeap (.var 0), .set 2 (.lit 0), loop1, .makeResults (.var 0), .set 3 (.lit 0), loop2, .retResults ] := rfl

theorem wrap0 : wrap 0 = 0 := by unfold wrap; omega
theorem wrap1 : wrap 1 = 1 := by unfold wrap; omega

section proofs
variable {ops : Nat → Ops κ} {gt : κ → κ → Bool} {keys : List κ} {less : κ → κ → Bool}

/-- one iteration of the first loop is the model's `step` -/
theorem body1_runs (hops : OpsSpec less ops) (m : Int) (hm0 : 0 ≤ m) (h : Array (Item κ)) (i : Nat) (k : κ)
    (ki0 : Option κ) (res : Array Int) (env : Env) (hk : keys[i]? = some k) (hsz : h.size + 2 < B62)
    (h0 : env.get 0 = m) (h2 : env.get 2 = (i : Int)) :
    Runs ops gt keys body1 env ⟨h, ki0, res⟩
      (match step less gt m.toNat h i k with
       | none => .ret (.error .indexRange)
       | some h1 => .cont env ⟨h1, some k, res⟩) := by
  obtain ⟨hpush, hpop, hget⟩ := hops
  have e2 : ∀ s : St κ, eval env s (.var 2) = (i : Int) := by intro s; simp only [eval, h2]
  have e0 : ∀ s : St κ, eval env s (.var 0) = m := by intro s; simp only [eval, h0]
  unfold body1
  refine Runs.float (Runs.float (Runs.key (by rw [e2]; omega) ?_))
  simp only [e2, Int.toNat_natCast, hk]
  obtain ⟨fp, hp⟩ := hpush h ⟨k, i⟩ (by omega)
  have hpu : ∀ (res' : Array Int), ∃ f0, ∀ f, f0 ≤ f →
      (ops f).push (⟨h, some k, res'⟩ : St κ).heap ⟨k, (eval env (⟨h, some k, res'⟩ : St κ) (.var 2)).toNat⟩ =
        some (some (GoHeap.push (itemLess less) h ⟨k, i⟩)) := by
    intro res'
    refine ⟨fp, fun f hf => ?_⟩
    rw [e2]
    simp only [Int.toNat_natCast]
    exact hp f hf
  unfold step
  by_cases hlt : h.size < m.toNat
  · rw [if_pos hlt]
    have hc : ∀ f, evalC (ops f) gt env (⟨h, some k, res⟩ : St κ) (.lt .hlen (.var 0)) = some true := by
      intro f
      simp only [evalC, eval, h0]
      have : ((h.size : Int) < m) := by omega
      simp only [this, decide_true]
    refine Runs.ite (env' := env) (s' := ⟨GoHeap.push (itemLess less) h ⟨k, i⟩, some k, res⟩) hc ?_ Runs.nil
    simp only [if_true]
    exact Runs.hpush (k := k) rfl (hpu res) Runs.nil
  · rw [if_neg hlt]
    have hc : ∀ f, evalC (ops f) gt env (⟨h, some k, res⟩ : St κ) (.lt .hlen (.var 0)) = some false := by
      intro f
      simp only [evalC, eval, h0]
      have : ¬ ((h.size : Int) < m) := by omega
      simp only [this, decide_false]
    have hg0 : ∀ f, (ops f).get h (eval env (⟨h, some k, res⟩ : St κ) (.lit 0)) = h[0]? := by
      intro f
      have := hget f h 0
      simp only [eval, wrap0]
      simpa using this
    cases htop : h[0]? with
    | none =>
      simp only
      refine Runs.ite_ret (b := false) hc ?_
      simp only [Bool.false_eq_true, if_false]
      refine Runs.ite_none ?_
      intro f
      simp only [evalC]
      rw [hg0 f, htop]
    | some top =>
      simp only
      have hck : ∀ f, evalC (ops f) gt env (⟨h, some k, res⟩ : St κ) (.keyGtTop (.lit 0)) = some (gt k top.ki) := by
        intro f
        simp only [evalC]
        rw [hg0 f, htop]
      cases hgt : gt k top.ki with
      | false =>
        rw [hgt] at hck
        simp only [Bool.false_eq_true, if_false]
        refine Runs.ite (b := false) (env' := env) (s' := ⟨h, some k, res⟩) hc ?_ Runs.nil
        simp only [Bool.false_eq_true, if_false]
        refine Runs.ite (b := false) (env' := env) (s' := ⟨h, some k, res⟩) hck ?_ Runs.nil
        simp only [Bool.false_eq_true, if_false]
        exact Runs.nil
      | true =>
        rw [hgt] at hck
        simp only [if_true]
        have hps := Got.Lemmas.GoHeap.push_size (itemLess less) h ⟨k, i⟩
        by_cases hbig : (GoHeap.push (itemLess less) h ⟨k, i⟩).size > m.toNat
        · rw [if_pos hbig]
          have hc2 : ∀ f, evalC (ops f) gt env (⟨GoHeap.push (itemLess less) h ⟨k, i⟩, some k, res⟩ : St κ)
              (.lt (.var 0) .hlen) = some true := by
            intro f
            simp only [evalC, eval, h0]
            have : (m < ((GoHeap.push (itemLess less) h ⟨k, i⟩).size : Int)) := by omega
            simp only [this, decide_true]
          obtain ⟨fq, hq⟩ := hpop (GoHeap.push (itemLess less) h ⟨k, i⟩) (by omega)
          cases hpp : GoHeap.pop (itemLess less) (GoHeap.push (itemLess less) h ⟨k, i⟩) with
          | none =>
            simp only [Option.map_none]
            refine Runs.ite_ret (b := false) hc ?_
            simp only [Bool.false_eq_true, if_false]
            refine Runs.ite_ret (b := true) hck ?_
            simp only [if_true]
            refine Runs.hpush (k := k) rfl (hpu res) ?_
            refine Runs.ite_ret (b := true) hc2 ?_
            simp only [if_true]
            refine Runs.hpop_none ⟨fq, fun f hf => ?_⟩
            rw [hq f hf, hpp]
            rfl
          | some pr =>
            simp only [Option.map_some]
            refine Runs.ite (b := false) (env' := env) (s' := ⟨pr.2, some k, res⟩) hc ?_ Runs.nil
            simp only [Bool.false_eq_true, if_false]
            refine Runs.ite (b := true) (env' := env) (s' := ⟨pr.2, some k, res⟩) hck ?_ Runs.nil
            simp only [if_true]
            refine Runs.hpush (k := k) rfl (hpu res) ?_
            refine Runs.ite (b := true) (env' := env) (s' := ⟨pr.2, some k, res⟩) hc2 ?_ Runs.nil
            simp only [if_true]
            refine Runs.hpop_some (h' := pr.2) ⟨fq, fun f hf => ?_⟩ Runs.nil
            rw [hq f hf, hpp]
            rfl
        · rw [if_neg hbig]
          have hc2 : ∀ f, evalC (ops f) gt env (⟨GoHeap.push (itemLess less) h ⟨k, i⟩, some k, res⟩ : St κ)
              (.lt (.var 0) .hlen) = some false := by
            intro f
            simp only [evalC, eval, h0]
            have : ¬ (m < ((GoHeap.push (itemLess less) h ⟨k, i⟩).size : Int)) := by omega
            simp only [this, decide_false]
          refine Runs.ite (b := false) (env' := env) (s' := ⟨GoHeap.push (itemLess less) h ⟨k, i⟩, some k, res⟩) hc ?_ Runs.nil
          simp only [Bool.false_eq_true, if_false]
          refine Runs.ite (b := true) (env' := env) (s' := ⟨GoHeap.push (itemLess less) h ⟨k, i⟩, some k, res⟩) hck ?_ Runs.nil
          simp only [if_true]
          refine Runs.hpush (k := k) rfl (hpu res) ?_
          refine Runs.ite (b := false) (env' := env) (s' := ⟨GoHeap.push (itemLess less) h ⟨k, i⟩, some k, res⟩) hc2 ?_ Runs.nil
          simp only [Bool.false_eq_true, if_false]
          exact Runs.nil

/-- the first loop is the model's `loop` -/
theorem loop1_runs (hops : OpsSpec less ops) (m : Int) (hm0 : 0 ≤ m) (hn : keys.length + 2 < B62) (res : Array Int) :
    ∀ (n i : Nat) (h : Array (Item κ)) (ki0 : Option κ) (env : Env), keys.length - i = n → i ≤ keys.length →
      h.size + (keys.length - i) + 2 < B62 → env.get 0 = m → env.get 1 = (keys.length : Int) → env.get 2 = (i : Int) →
      (∀ h', loop less gt m.toNat h i (keys.drop i) = some h' →
        ∃ env' ki', env'.get 0 = m ∧ ∀ rest r, Runs ops gt keys rest env' ⟨h', ki', res⟩ r →
          Runs ops gt keys (loop1 :: rest) env ⟨h, ki0, res⟩ r) ∧
      (loop less gt m.toNat h i (keys.drop i) = none →
        ∀ rest, Runs ops gt keys (loop1 :: rest) env ⟨h, ki0, res⟩ (.ret (.error .indexRange))) := by
  intro n
  induction n with
  | zero =>
    intro i h ki0 env hni hi hsz h0 h1 h2
    have hd : keys.drop i = [] := List.drop_eq_nil_of_le (by omega)
    have hc : ∀ f, evalC (ops f) gt env (⟨h, ki0, res⟩ : St κ) (.lt (.var 2) (.var 1)) = some false := by
      intro f
      simp only [evalC, eval, h1, h2]
      have : ¬ ((i : Int) < (keys.length : Int)) := by omega
      simp only [this, decide_false]
    rw [hd]
    simp only [loop]
    refine ⟨fun h' hh => ?_, fun hh => (by cases hh)⟩
    injection hh with hh
    subst hh
    exact ⟨env, ki0, h0, fun rest r hr => Runs.loop_exit hc hr⟩
  | succ n ih =>
    intro i h ki0 env hni hi hsz h0 h1 h2
    have hi' : i < keys.length := by omega
    have hd : keys.drop i = keys[i] :: keys.drop (i + 1) := List.drop_eq_getElem_cons hi'
    have hk : keys[i]? = some keys[i] := List.getElem?_eq_getElem hi'
    have hc : ∀ f, evalC (ops f) gt env (⟨h, ki0, res⟩ : St κ) (.lt (.var 2) (.var 1)) = some true := by
      intro f
      simp only [evalC, eval, h1, h2]
      have : ((i : Int) < (keys.length : Int)) := by omega
      simp only [this, decide_true]
    have hb := body1_runs (gt := gt) hops m hm0 h i keys[i] ki0 res env hk (by omega) h0 h2
    rw [hd]
    cases hs : step less gt m.toNat h i keys[i] with
    | none =>
      rw [hs] at hb
      simp only [loop, hs]
      refine ⟨fun h' hh => (by cases hh), fun _ rest => ?_⟩
      exact Runs.loop_body_ret hc hb
    | some h1' =>
      rw [hs] at hb
      simp only [loop, hs]
      have hsz1 := step_size less gt m.toNat h h1' i keys[i] hs
      have henv : ∀ s : St κ, env.set 2 (eval env s (.add (.var 2) (.lit 1))) = env.set 2 ((i + 1 : Nat) : Int) := by
        intro s
        congr 1
        unfold B62 at hn
        simp (disch := omega) only [eval, h2, wrap_eq, wrap1]
        simp
      obtain ⟨ih1, ih2⟩ := ih (i + 1) h1' (some keys[i]) (env.set 2 ((i + 1 : Nat) : Int)) (by omega) (by omega) (by omega)
        (by rw [Env.get_set]; simpa using h0) (by rw [Env.get_set]; simpa using h1) (by rw [Env.get_set]; simp)
      refine ⟨fun h' hh => ?_, fun hh rest => ?_⟩
      · obtain ⟨env', ki', he, hk'⟩ := ih1 h' hh
        refine ⟨env', ki', he, fun rest r hr => Runs.loop_iter hc hb (Runs.set Runs.nil) ?_⟩
        rw [henv]
        exact hk' rest r hr
      · refine Runs.loop_iter hc hb (Runs.set Runs.nil) ?_
        rw [henv]
        exact ih2 hh rest

/-- the second loop and the return are the model's `readResults` -/
theorem loop2_runs (hops : OpsSpec less ops) (M : Nat) (hM : M < 9223372036854775808) (h : Array (Item κ)) (ki0 : Option κ) :
    ∀ (n j : Nat) (res : Array Int) (env : Env), M - j = n → j ≤ M → j ≤ h.size → res.size = M →
      (∀ k, k < j → res[k]? = h[k]?.map (fun it => (it.index : Int))) → env.get 0 = (M : Int) → env.get 3 = (j : Int) →
      Runs ops gt keys [loop2, .retResults] env ⟨h, ki0, res⟩ (.ret (readResults M h)) := by
  obtain ⟨_, _, hget⟩ := hops
  intro n
  induction n with
  | zero =>
    intro j res env hnj hjM hjh hres inv h0 h3
    have hc : ∀ f, evalC (ops f) gt env (⟨h, ki0, res⟩ : St κ) (.lt (.var 3) (.var 0)) = some false := by
      intro f
      simp only [evalC, eval, h0, h3]
      have : ¬ ((j : Int) < (M : Int)) := by omega
      simp only [this, decide_false]
    have hr : Result.ok (res.toList.map Int.toNat) = readResults M h := by
      unfold readResults
      rw [if_neg (by omega)]
      congr 1
      apply List.ext_getElem?
      intro k
      simp only [List.getElem?_map, List.getElem?_take, Array.getElem?_toList]
      by_cases hk : k < M
      · rw [if_pos hk, inv k (by omega)]
        cases h[k]? <;> simp
      · rw [if_neg hk]
        have : res[k]? = none := Array.getElem?_eq_none (by omega)
        rw [this]
        rfl
    unfold loop2
    refine Runs.loop_exit hc ?_
    rw [← hr]
    exact Runs.retResults
  | succ n ih =>
    intro j res env hnj hjM hjh hres inv h0 h3
    have hc : ∀ f, evalC (ops f) gt env (⟨h, ki0, res⟩ : St κ) (.lt (.var 3) (.var 0)) = some true := by
      intro f
      simp only [evalC, eval, h0, h3]
      have : ((j : Int) < (M : Int)) := by omega
      simp only [this, decide_true]
    have e3 : ∀ s : St κ, eval env s (.var 3) = (j : Int) := by intro s; simp only [eval, h3]
    by_cases hj : j < h.size
    · have hg : ∀ f, (ops f).get (⟨h, ki0, res⟩ : St κ).heap (eval env (⟨h, ki0, res⟩ : St κ) (.var 3)) = some h[j] := by
        intro f
        rw [e3]
        simp only
        rw [hget f h j]
        exact Array.getElem?_eq_getElem hj
      have henv : ∀ s : St κ, env.set 3 (eval env s (.add (.var 3) (.lit 1))) = env.set 3 ((j + 1 : Nat) : Int) := by
        intro s
        congr 1
        simp (disch := omega) only [eval, h3, wrap_eq, wrap1]
        simp
      unfold loop2
      refine Runs.loop_iter hc (Runs.setResult_some (it := h[j]) hg (by rw [e3]; simp only [Int.toNat_natCast]; omega) Runs.nil)
        (Runs.set Runs.nil) ?_
      rw [henv, e3]
      simp only [Int.toNat_natCast]
      refine ih (j + 1) (res.set! j (h[j].index : Int)) (env.set 3 ((j + 1 : Nat) : Int)) (by omega) (by omega) (by omega)
        (by simpa using hres) ?_ (by rw [Env.get_set]; simpa using h0) (by rw [Env.get_set]; simp)
      intro k hk
      rw [Array.set!_eq_setIfInBounds, Array.getElem?_setIfInBounds]
      by_cases hjk : j = k
      · subst hjk
        simp [hj, show j < res.size by omega]
      · rw [if_neg hjk]
        exact inv k (by omega)
    · have hg : ∀ f, (ops f).get (⟨h, ki0, res⟩ : St κ).heap (eval env (⟨h, ki0, res⟩ : St κ) (.var 3)) = none := by
        intro f
        rw [e3]
        simp only
        rw [hget f h j]
        exact Array.getElem?_eq_none (by omega)
      have hr : readResults M h = .error .indexRange := by
        unfold readResults
        rw [if_pos (by omega)]
      rw [hr]
      unfold loop2
      exact Runs.loop_body_ret hc (Runs.setResult_none hg)

end proofs

/-- the generated term, run over heap operations that compute the GoHeap model, computes the model's result -/
theorem sampling_run_refines (less gt : κ → κ → Bool) (ops : Nat → Got.Model.MiniGoSampleLoop.Ops κ) (hops : OpsSpec less ops)
    (m : Int) (keys : List κ) (hn : keys.length + 2 < B62)
    (hm : -9223372036854775808 ≤ m ∧ m < 9223372036854775808) :
    ∃ f0, ∀ fuel, f0 ≤ fuel →
      Got.Generated.AstRandxSampling.weightedSampling.run (ops fuel) gt keys fuel m (keys.length : Int) =
        some (Got.Model.Sample.weightedSampling less gt m keys) := by
  have key : Runs ops gt keys Got.Generated.AstRandxSampling.weightedSampling.body #[wrap m, wrap (keys.length : Int)]
      ⟨#[], none, #[]⟩ (.ret (Got.Model.Sample.weightedSampling less gt m keys)) := by
    rw [weightedSampling_body]
    have hw1 : wrap m = m := wrap_eq hm.1 hm.2
    have hw2 : wrap (keys.length : Int) = (keys.length : Int) := by
      unfold B62 at hn
      exact wrap_eq (by omega) (by omega)
    rw [hw1, hw2]
    obtain ⟨env0, hE0⟩ : ∃ e : Env, e = #[m, (keys.length : Int)] := ⟨_, rfl⟩
    rw [← hE0]
    have g0 : env0.get 0 = m := by rw [hE0]; simp [Env.get]
    have g1 : env0.get 1 = (keys.length : Int) := by rw [hE0]; simp [Env.get]
    unfold Got.Model.Sample.weightedSampling
    by_cases hbad : (keys.length : Int) < m ∨ keys.length = 0
    · rw [if_pos hbad]
      refine Runs.ite_ret (b := true) ?_ Runs.panic
      intro f
      by_cases h1 : (keys.length : Int) < m
      · simp only [evalC, eval, g0, g1, h1, decide_true]
      · have h2 : (keys.length : Int) ≤ 0 := by omega
        simp only [evalC, eval, g0, g1, h1, decide_false, wrap0, h2, decide_true]
    · rw [if_neg hbad]
      have hc : ∀ f, evalC (ops f) gt env0 (⟨#[], none, #[]⟩ : St κ)
          (.or (.lt (.var 1) (.var 0)) (.le (.var 1) (.lit 0))) = some false := by
        intro f
        have h1 : ¬ (keys.length : Int) < m := by omega
        have h2 : ¬ (keys.length : Int) ≤ 0 := by omega
        simp only [evalC, eval, g0, g1, h1, decide_false, wrap0, h2]
      refine Runs.ite (b := false) (env' := env0) (s' := ⟨#[], none, #[]⟩) hc ?_ ?_
      · simp only [Bool.false_eq_true, if_false]
        exact Runs.nil
      · by_cases hneg : m < 0
        · rw [if_pos hneg]
          exact Runs.makeHeap_neg (by simp only [eval, g0]; exact hneg)
        · rw [if_neg hneg]
          have hm0 : 0 ≤ m := by omega
          refine Runs.makeHeap (by simp only [eval, g0]; exact hneg) (Runs.set ?_)
          have e0 : ∀ (e : Env) (s : St κ), eval e s (.lit 0) = 0 := by intro e s; simp only [eval, wrap0]
          rw [e0]
          obtain ⟨ih1, ih2⟩ := loop1_runs (gt := gt) hops m hm0 hn (#[] : Array Int) keys.length 0 #[] none (env0.set 2 0)
            (by omega) (by omega) (by simp only [Array.size_empty]; omega)
            (by rw [Env.get_set]; simpa using g0) (by rw [Env.get_set]; simpa using g1) (by rw [Env.get_set]; simp)
          rw [List.drop_zero] at ih1 ih2
          cases hl : loop less gt m.toNat #[] 0 keys with
          | none => exact ih2 hl _
          | some h' =>
            obtain ⟨env', ki', he, hk⟩ := ih1 h' hl
            refine hk _ _ ?_
            have ev0 : ∀ s : St κ, eval env' s (.var 0) = m := by intro s; simp only [eval, he]
            refine Runs.makeResults (by rw [ev0]; exact hneg) (Runs.set ?_)
            rw [e0, ev0]
            have hMm : ((m.toNat : Nat) : Int) = m := Int.toNat_of_nonneg hm0
            exact loop2_runs (gt := gt) hops m.toNat (by omega) h' ki' m.toNat 0 (Array.replicate m.toNat 0) (env'.set 3 0)
              (by omega) (by omega) (by omega) (by simp) (by intro k hk; omega)
              (by rw [Env.get_set]; simpa [hMm] using he) (by rw [Env.get_set]; simp)
  obtain ⟨f0, hr⟩ := key
  refine ⟨f0, fun fuel hf => ?_⟩
  unfold Fn.run
  rw [hr fuel fuel hf hf]

end Got.Lemmas.SampleLoopAst
