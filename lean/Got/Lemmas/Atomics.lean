import Got.Model.Atomics
import Got.Spec.Atomics
/-
Helper lemmas for C17 (core Lean only, no Mathlib).

Bit reasoning: every fact the mutex invariant needs concerns the three low bits of the state word
(locked / woken / starving).  `lo w = w.setWidth 3` commutes with `+ - ||| &&& ~~~`, and tests of the
form `w &&& c != 0` with `c < 8` only look at `lo w`; after rewriting, a goal is a closed statement
`∀ x : BitVec 3, …` that `decide` checks in the kernel.
-/
set_option linter.unusedSimpArgs false
set_option linter.unusedVariables false

namespace Got.Lemmas.Atomics
open Got.Model.Atomics Got.Spec.Atomics

def lo (w : Word) : BitVec 3 := w.setWidth 3

theorem lo_add (a b : Word) : lo (a + b) = lo a + lo b := BitVec.setWidth_add a b (by decide)
theorem lo_or (a b : Word) : lo (a ||| b) = lo a ||| lo b := by simp [lo, BitVec.setWidth_or]
theorem lo_and (a b : Word) : lo (a &&& b) = lo a &&& lo b := by simp [lo, BitVec.setWidth_and]
theorem lo_not (a : Word) : lo (~~~a) = ~~~(lo a) := by simp [lo, BitVec.setWidth_not]
theorem lo_sub (a b : Word) : lo (a - b) = lo a - lo b := by
  apply BitVec.eq_of_toNat_eq
  simp only [lo, BitVec.toNat_setWidth, BitVec.toNat_sub]
  omega

theorem eq_zero_iff_lo (x : Word) (h : x.toNat < 8) : x = 0 ↔ lo x = 0 := by
  constructor
  · intro h; rw [h]; decide
  · intro h'
    apply BitVec.eq_of_toNat_eq
    have := congrArg BitVec.toNat h'
    simp only [lo, BitVec.toNat_setWidth] at this
    show x.toNat = 0
    have h0 : (0 : BitVec 3).toNat = 0 := rfl
    omega

theorem and_ne_zero_lo (w c : Word) (hc : c.toNat < 8) : (w &&& c != 0) = (lo w &&& lo c != 0) := by
  have h1 : (w &&& c).toNat < 8 := by
    rw [BitVec.toNat_and]; exact Nat.lt_of_le_of_lt Nat.and_le_right hc
  have h2 := eq_zero_iff_lo _ h1
  rw [lo_and] at h2
  by_cases h : w &&& c = 0
  · have h' := h2.mp h; rw [h, h']; rfl
  · have h' : ¬ (lo w &&& lo c = 0) := fun h' => h (h2.mpr h')
    have e1 : (w &&& c != 0) = true := by simpa using h
    have e2 : (lo w &&& lo c != 0) = true := by simpa using h'
    rw [e1, e2]

theorem and_eq_zero_lo (w c : Word) (hc : c.toNat < 8) : (w &&& c == 0) = (lo w &&& lo c == 0) := by
  have := and_ne_zero_lo w c hc
  simp only [bne] at this
  cases h1 : (w &&& c == 0) <;> cases h2 : (lo w &&& lo c == 0) <;> simp_all

/-- `w &&& c == c'` for masks below 8 (used by the spinning branch: `old&(locked|starving) == locked`) -/
theorem and_beq_lo (w c d : Word) (hc : c.toNat < 8) (hd : d.toNat < 8) :
    (w &&& c == d) = (lo w &&& lo c == lo d) := by
  have h1 : (w &&& c).toNat < 8 := by
    rw [BitVec.toNat_and]; exact Nat.lt_of_le_of_lt Nat.and_le_right hc
  have key : (w &&& c = d) ↔ (lo w &&& lo c = lo d) := by
    rw [← lo_and]
    constructor
    · intro h; rw [h]
    · intro h
      apply BitVec.eq_of_toNat_eq
      have := congrArg BitVec.toNat h
      simp only [lo, BitVec.toNat_setWidth] at this
      omega
  by_cases h : w &&& c = d
  · have h' := key.mp h
    have e1 : (w &&& c == d) = true := by simpa using h
    have e2 : (lo w &&& lo c == lo d) = true := by simpa using h'
    rw [e1, e2]
  · have h' : ¬ (lo w &&& lo c = lo d) := fun h' => h (key.mpr h')
    have e1 : (w &&& c == d) = false := by simpa using h
    have e2 : (lo w &&& lo c == lo d) = false := by simpa using h'
    rw [e1, e2]

theorem mLocked_eq : mLocked = 1#32 := by decide
theorem mWoken_eq : mWoken = 2#32 := by decide
theorem mStarving_eq : mStarving = 4#32 := by decide
theorem mShift_eq : mShift = 3 := by decide
theorem mOneWaiter_eq : mOneWaiter = 8#32 := by decide

/-- rewrite a goal about the flag bits of 32-bit words into one about their 3 low bits -/
macro "lo_norm" : tactic => `(tactic|
  simp only [isLocked, isStarving, isWoken, mLocked_eq, mWoken_eq, mStarving_eq, mOneWaiter_eq,
    BitVec.reduceOr, BitVec.reduceNot, BitVec.reduceSub,
    and_ne_zero_lo _ _ (by decide : (1#32).toNat < 8), and_ne_zero_lo _ _ (by decide : (2#32).toNat < 8),
    and_ne_zero_lo _ _ (by decide : (4#32).toNat < 8), and_ne_zero_lo _ _ (by decide : (5#32).toNat < 8),
    and_ne_zero_lo _ _ (by decide : (7#32).toNat < 8), and_ne_zero_lo _ _ (by decide : (3#32).toNat < 8),
    and_eq_zero_lo _ _ (by decide : (1#32).toNat < 8), and_eq_zero_lo _ _ (by decide : (2#32).toNat < 8),
    and_eq_zero_lo _ _ (by decide : (4#32).toNat < 8), and_eq_zero_lo _ _ (by decide : (5#32).toNat < 8),
    and_eq_zero_lo _ _ (by decide : (7#32).toNat < 8), and_eq_zero_lo _ _ (by decide : (3#32).toNat < 8),
    and_beq_lo _ _ _ (by decide : (5#32).toNat < 8) (by decide : (1#32).toNat < 8),
    lo_add, lo_sub, lo_or, lo_and, lo_not] at *)

/-- finish: generalise `lo w` and decide over the 8 values -/
macro "lo_decide" : tactic => `(tactic| (lo_norm; (try generalize lo _ = x at *); revert x; decide))

/-! ### facts about single words -/

theorem zero_flags : isLocked 0 = false ∧ isStarving 0 = false := by decide
theorem locked_flags : isLocked mLocked = true ∧ isStarving mLocked = false := by decide

/-- TryLock's second CAS / the acquiring CAS of lockSlow: from a word without locked and starving bit -/
theorem or_locked (w : Word) (h : (w &&& (mLocked ||| mStarving) != 0) = false) :
    isLocked w = false ∧ isStarving w = false ∧
    isLocked (w ||| mLocked) = true ∧ isStarving (w ||| mLocked) = false ∧
    isLocked ((w ||| mLocked) &&& ~~~mWoken) = true ∧ isStarving ((w ||| mLocked) &&& ~~~mWoken) = false := by
  lo_decide

theorem mask7_imp (w : Word) (h : (w &&& (mLocked ||| mStarving ||| mWoken) != 0) = false) :
    (w &&& (mLocked ||| mStarving) != 0) = false := by
  lo_decide

/-- Unlock's AddInt32(-mutexLocked) on a locked word -/
theorem sub_locked (w : Word) (h : isLocked w = true) :
    isLocked (w - mLocked) = false ∧ isStarving (w - mLocked) = isStarving w := by
  lo_decide

theorem or_woken (w : Word) :
    isLocked (w ||| mWoken) = isLocked w ∧ isStarving (w ||| mWoken) = isStarving w := by
  lo_decide

/-- unlockSlow's CAS -/
theorem wake_flags (w : Word) (h : (w &&& (mLocked ||| mWoken ||| mStarving) != 0) = false) :
    isLocked ((w - mOneWaiter) ||| mWoken) = false ∧ isStarving ((w - mOneWaiter) ||| mWoken) = false ∧
    isStarving w = false ∧ isLocked w = false := by
  lo_decide

/-- lockSlow's queueing CAS (old has the locked or the starving bit): the locked bit is kept, the starving bit is
    kept or (only on a locked word) set -/
theorem lockSlowNew_queue (old : Word) (awoke starving : Bool)
    (h : (old &&& (mLocked ||| mStarving) == 0) = false) :
    isLocked (lockSlowNew old awoke starving) = isLocked old ∧
    (isStarving old = true → isStarving (lockSlowNew old awoke starving) = true) ∧
    (isLocked old = false → isStarving (lockSlowNew old awoke starving) = true) := by
  unfold lockSlowNew
  have hne : (old &&& (mLocked ||| mStarving) != 0) = true := by simp only [bne, h, Bool.not_false]
  cases awoke <;> cases starving <;>
    cases h1 : (old &&& mStarving == 0) <;> cases h2 : (old &&& mLocked != 0) <;>
    simp only [hne, h1, h2, Bool.false_and, Bool.true_and, Bool.and_false, Bool.and_true, Bool.false_eq_true,
      ↓reduceIte] <;> lo_decide

theorem lockSlowNew_acquire (old : Word) (awoke starving : Bool)
    (h : (old &&& (mLocked ||| mStarving) == 0) = true) :
    isLocked old = false ∧ isStarving old = false ∧
    isLocked (lockSlowNew old awoke starving) = true ∧ isStarving (lockSlowNew old awoke starving) = false := by
  unfold lockSlowNew
  have hne : (old &&& (mLocked ||| mStarving) != 0) = false := by simp only [bne, h, Bool.not_true]
  have h1 : (old &&& mStarving == 0) = true := by lo_decide
  have h2 : (old &&& mLocked != 0) = false := by lo_decide
  cases awoke <;> cases starving <;>
    simp only [hne, h1, h2, Bool.false_and, Bool.true_and, Bool.and_false, Bool.and_true, Bool.false_eq_true,
      ↓reduceIte] <;> lo_decide

/-- the starvation hand-off `AddInt32(delta)` on an unlocked starving word sets the locked bit -/
theorem handoff_flags (old : Word) (starving : Bool)
    (hs : (old &&& mStarving != 0) = true) (hl : isLocked old = false) :
    isLocked (old + handoffDelta old starving) = true := by
  unfold handoffDelta
  cases h : (!starving || waitersBV old == 1) <;> simp only [Bool.false_eq_true, ↓reduceIte] <;> lo_decide

/-! ### the mutex invariant -/

def mask7 : Word := mLocked ||| mStarving ||| mWoken

structure MInv (s : MSt) : Prop where
  locked_iff : isLocked s.word = !s.holders.isEmpty
  le_one : s.holders.length ≤ 1
  handoff : s.handoff = true → isStarving s.word = true ∧ isLocked s.word = false
  cas2 : ∀ t old, s.pc t = .cas2 old → (old &&& (mLocked ||| mStarving ||| mWoken) != 0) = false

theorem upd_same {α} (f : Nat → α) (t : Nat) (v : α) : upd f t v t = v := by simp [upd]
theorem upd_other {α} (f : Nat → α) (t u : Nat) (v : α) (h : u ≠ t) : upd f t v u = f u := by simp [upd, h]

theorem cas2_upd {pc : Nat → TPc} {P : Word → Prop} (h : ∀ t old, pc t = .cas2 old → P old)
    (t : Nat) (v : TPc) (hv : ∀ old, v = .cas2 old → P old) :
    ∀ u old, upd pc t v u = .cas2 old → P old := by
  intro u old hu
  by_cases e : u = t
  · subst e; rw [upd_same] at hu; exact hv old hu
  · rw [upd_other _ _ _ _ e] at hu; exact h u old hu

theorem holders_nil_of_unlocked {s : MSt} (h : MInv s) (hl : isLocked s.word = false) : s.holders = [] := by
  have := h.locked_iff
  rw [hl] at this
  cases hh : s.holders with
  | nil => rfl
  | cons a l => rw [hh] at this; simp at this

theorem handoff_false_of {s : MSt} (h : MInv s) (hs : isStarving s.word = false ∨ isLocked s.word = true) :
    s.handoff = false := by
  cases hh : s.handoff with
  | false => rfl
  | true =>
    have := h.handoff hh
    rcases hs with hs | hs <;> simp_all

/-- an acquiring step: the word had no locked bit; the new word is locked and not starving -/
theorem acquire_inv {s : MSt} (h : MInv s) (t : Nat) (w' : Word) (pc' : Nat → TPc) (res' : Nat → Option Bool)
    (hl : isLocked s.word = false) (hl' : isLocked w' = true)
    (hpc : ∀ u old, pc' u = .cas2 old → (old &&& (mLocked ||| mStarving ||| mWoken) != 0) = false) :
    MInv { s with word := w', holders := t :: s.holders, handoff := false, pc := pc', res := res' } := by
  have hn := holders_nil_of_unlocked h hl
  refine ⟨?_, ?_, ?_, hpc⟩
  · simp [hl']
  · simp [hn]
  · intro hh; simp at hh

theorem stepM_inv (s : MSt) (a : MAct) (h : MInv s) : MInv (stepM s a) := by
  cases a with
  | tryStart t =>
    simp only [stepM]
    split
    · exact ⟨h.locked_iff, h.le_one, h.handoff, cas2_upd h.cas2 t _ (by intro old e; cases e)⟩
    · exact h
  | tryCas1 t =>
    simp only [stepM]
    split
    · split
      · next hw =>
        have hz : isLocked s.word = false := by rw [hw]; exact zero_flags.1
        have hf : s.handoff = false := handoff_false_of h (Or.inl (by rw [hw]; exact zero_flags.2))
        have := acquire_inv h t mLocked (upd s.pc t .idle) (upd s.res t (some true)) hz locked_flags.1
          (cas2_upd h.cas2 t _ (by intro old e; cases e))
        rw [← hf] at this
        exact this
      · exact ⟨h.locked_iff, h.le_one, h.handoff, cas2_upd h.cas2 t _ (by intro old e; cases e)⟩
    · exact h
  | tryLoad t =>
    simp only [stepM]
    split
    · split
      · exact ⟨h.locked_iff, h.le_one, h.handoff, cas2_upd h.cas2 t _ (by intro old e; cases e)⟩
      · next hm =>
        refine ⟨h.locked_iff, h.le_one, h.handoff, cas2_upd h.cas2 t _ ?_⟩
        intro old e
        cases e
        simpa using hm
    · exact h
  | tryCas2 t =>
    simp only [stepM]
    split
    · next old hpc =>
      split
      · next hw =>
        have hm := h.cas2 t old hpc
        have hf := or_locked old (mask7_imp old hm)
        have hz : isLocked s.word = false := by rw [hw]; exact hf.1
        have hh : s.handoff = false := handoff_false_of h (Or.inl (by rw [hw]; exact hf.2.1))
        have := acquire_inv h t (old ||| mLocked) (upd s.pc t .idle) (upd s.res t (some true)) hz hf.2.2.1
          (cas2_upd h.cas2 t _ (by intro old e; cases e))
        rw [← hh] at this
        exact this
      · exact ⟨h.locked_iff, h.le_one, h.handoff, cas2_upd h.cas2 t _ (by intro old e; cases e)⟩
    · exact h
  | unlock t =>
    simp only [stepM]
    split
    · next hmem =>
      have hne : s.holders ≠ [] := by intro e; rw [e] at hmem; simp at hmem
      have hl : isLocked s.word = true := by
        rw [h.locked_iff]; cases hh : s.holders with
        | nil => exact absurd hh hne
        | cons a l => simp
      have hf := sub_locked s.word hl
      have hh : s.handoff = false := handoff_false_of h (Or.inr hl)
      have hone : s.holders = [t] := by
        have := h.le_one
        cases hh : s.holders with
        | nil => exact absurd hh hne
        | cons a l =>
          rw [hh] at this hmem
          cases l with
          | nil => simp at hmem; rw [hmem]
          | cons b l' => simp at this
      refine ⟨?_, ?_, ?_, h.cas2⟩
      · simp [hone, hf.1]
      · simp [hone]
      · intro hx
        simp only [hh, Bool.false_or] at hx
        exact ⟨by simpa [isStarving] using hx, hf.1⟩
    · exact h
  | lockFast t =>
    simp only [stepM]
    split
    · next hw =>
      have hz : isLocked s.word = false := by rw [hw]; exact zero_flags.1
      have hf : s.handoff = false := handoff_false_of h (Or.inl (by rw [hw]; exact zero_flags.2))
      have := acquire_inv h t mLocked s.pc s.res hz locked_flags.1 h.cas2
      rw [← hf] at this
      exact this
    · exact h
  | lockSlowCas t awoke starving =>
    simp only [stepM]
    by_cases hthrow : lockSlowThrows s.word awoke = true
    · simp only [hthrow, ↓reduceIte]; exact h
    · simp only [hthrow, Bool.false_eq_true, ↓reduceIte]
      split
      · next hz =>
        have hf := lockSlowNew_acquire s.word awoke starving hz
        have hh : s.handoff = false := handoff_false_of h (Or.inl hf.2.1)
        have := acquire_inv h t (lockSlowNew s.word awoke starving) s.pc s.res hf.1 hf.2.2.1 h.cas2
        rw [← hh] at this
        exact this
      · next hz =>
        have hz' : (s.word &&& (mLocked ||| mStarving) == 0) = false := by simpa using hz
        have hf := lockSlowNew_queue s.word awoke starving hz'
        refine ⟨?_, h.le_one, ?_, h.cas2⟩
        · show isLocked (lockSlowNew s.word awoke starving) = _
          rw [hf.1]; exact h.locked_iff
        · intro hx
          have := h.handoff hx
          show isStarving (lockSlowNew s.word awoke starving) = true ∧ isLocked (lockSlowNew s.word awoke starving) = false
          exact ⟨hf.2.1 this.1, by rw [hf.1]; exact this.2⟩
  | spinWoken t =>
    simp only [stepM]
    split
    · have hf := or_woken s.word
      refine ⟨?_, h.le_one, ?_, h.cas2⟩
      · show isLocked (s.word ||| mWoken) = _
        rw [hf.1]; exact h.locked_iff
      · intro hx
        have := h.handoff hx
        show isStarving (s.word ||| mWoken) = true ∧ isLocked (s.word ||| mWoken) = false
        rw [hf.1, hf.2]; exact this
    · exact h
  | wake t =>
    simp only [stepM]
    split
    · exact h
    · next hg =>
      have hm : (s.word &&& (mLocked ||| mWoken ||| mStarving) != 0) = false := by
        simp only [Bool.or_eq_true, not_or, Bool.not_eq_true] at hg
        exact hg.2
      have hf := wake_flags s.word hm
      have hn := holders_nil_of_unlocked h hf.2.2.2
      have hh : s.handoff = false := handoff_false_of h (Or.inl hf.2.2.1)
      refine ⟨?_, h.le_one, ?_, h.cas2⟩
      · show isLocked ((s.word - mOneWaiter) ||| mWoken) = _
        rw [hf.1, hn]; rfl
      · intro hx; rw [hh] at hx; cases hx
  | handoffTake t starving =>
    simp only [stepM]
    split
    · next hg =>
      split
      · exact h
      · simp only [Bool.and_eq_true] at hg
        have hi := h.handoff hg.1
        have hf := handoff_flags s.word starving hg.2 hi.2
        exact acquire_inv h t _ s.pc s.res hi.2 hf h.cas2
    · exact h

theorem runM_inv (s : MSt) (acts : List MAct) (h : MInv s) : MInv (runM s acts) := by
  induction acts generalizing s with
  | nil => exact h
  | cons a l ih => exact ih _ (stepM_inv s a h)

theorem initM_inv (w : Word) (hl : isLocked w = false) : MInv (initM w) :=
  ⟨by simp [initM, hl], by simp [initM], by intro h; simp [initM] at h, by intro t old h; simp [initM] at h⟩

/-! ### Flag -/

def foldOps (v0 : W64) (log : List (Nat × FOp)) : W64 := log.foldl (fun v e => e.2.apply v) v0

def countBy (t : Nat) (log : List (Nat × FOp)) : Nat := (log.filter (fun e => e.1 == t)).length

theorem foldOps_append (v0 : W64) (l : List (Nat × FOp)) (e : Nat × FOp) :
    foldOps v0 (l ++ [e]) = e.2.apply (foldOps v0 l) := by
  simp [foldOps, List.foldl_append]

theorem countBy_append (t : Nat) (l : List (Nat × FOp)) (e : Nat × FOp) :
    countBy t (l ++ [e]) = countBy t l + (if e.1 = t then 1 else 0) := by
  simp only [countBy, List.filter_append, List.length_append, List.filter_cons, List.filter_nil]
  by_cases h : e.1 = t <;> simp [h]

structure FInv (v0 : W64) (s : FSt) : Prop where
  val_eq : s.val = foldOps v0 s.log
  once : ∀ t, countBy t s.log + (if s.pc t = .idle then 0 else 1) = s.calls t

theorem initF_inv (v0 : W64) : FInv v0 (initF v0) :=
  ⟨by simp [initF, foldOps], by intro t; simp [initF, countBy]⟩

theorem stepF_inv (v0 : W64) (s : FSt) (a : FAct) (h : FInv v0 s) : FInv v0 (stepF s a) := by
  cases a with
  | invoke t op =>
    simp only [stepF]
    split
    · next hpc =>
      refine ⟨h.val_eq, ?_⟩
      intro u
      have := h.once u
      by_cases e : u = t
      · subst e; simp only [upd_same]; rw [hpc] at this; simp at this ⊢; omega
      · simp only [upd_other _ _ _ _ e]; exact this
    · exact h
  | load t =>
    simp only [stepF]
    split
    · next op hpc =>
      refine ⟨h.val_eq, ?_⟩
      intro u
      have := h.once u
      by_cases e : u = t
      · subst e; simp only [upd_same]; rw [hpc] at this; simpa using this
      · simp only [upd_other _ _ _ _ e]; exact this
    · exact h
  | cas t =>
    simp only [stepF]
    split
    · next op last hpc =>
      split
      · next hv =>
        refine ⟨?_, ?_⟩
        · show op.apply last = foldOps v0 (s.log ++ [(t, op)])
          rw [foldOps_append, ← h.val_eq, hv]
        · intro u
          have := h.once u
          show countBy u (s.log ++ [(t, op)]) + _ = _
          rw [countBy_append]
          by_cases e : u = t
          · subst e; simp only [upd_same]; rw [hpc] at this; simp at this ⊢; omega
          · simp only [upd_other _ _ _ _ e]
            have e' : ¬ (t = u) := fun x => e x.symm
            simp only [e', if_false]; exact this
      · refine ⟨h.val_eq, ?_⟩
        intro u
        have := h.once u
        by_cases e : u = t
        · subst e; simp only [upd_same]; rw [hpc] at this; simpa using this
        · simp only [upd_other _ _ _ _ e]; exact this
    · exact h

theorem runF_inv (v0 : W64) (s : FSt) (acts : List FAct) (h : FInv v0 s) : FInv v0 (runF s acts) := by
  induction acts generalizing s with
  | nil => exact h
  | cons a l ih => exact ih _ (stepF_inv v0 s a h)

theorem foldOps_adds (v0 : W64) (log : List (Nat × FOp)) (h : ∀ e ∈ log, ∃ f, e.2 = .add f) :
    foldOps v0 log = orFlags v0 log := by
  induction log generalizing v0 with
  | nil => rfl
  | cons e l ih =>
    obtain ⟨f, hf⟩ := h e (by simp)
    simp only [foldOps, orFlags, List.foldl_cons, hf, FOp.apply]
    exact ih _ (fun e' he' => h e' (by simp [he']))

theorem and_or_keep (v f g : W64) (h : v &&& f = f) : (v ||| g) &&& f = f := by
  ext i hi
  have := congrArg (fun x => x[i]) h
  simp only [BitVec.getElem_and, BitVec.getElem_or] at this ⊢
  cases hv : v[i] <;> cases hf : f[i] <;> cases hg : g[i] <;> simp_all

theorem or_and_self (v f : W64) : (v ||| f) &&& f = f := by
  ext i hi
  simp only [BitVec.getElem_and, BitVec.getElem_or]
  cases v[i] <;> cases f[i] <;> rfl

theorem orFlags_mono (v0 : W64) (log : List (Nat × FOp)) (f : W64) (h : v0 &&& f = f) :
    orFlags v0 log &&& f = f := by
  induction log generalizing v0 with
  | nil => exact h
  | cons e l ih =>
    simp only [orFlags, List.foldl_cons]
    cases e.2 with
    | add g => exact ih _ (and_or_keep v0 f g h)
    | remove g => exact ih _ h

theorem orFlags_contains (v0 : W64) (log : List (Nat × FOp)) (e : Nat × FOp) (f : W64)
    (he : e ∈ log) (hf : e.2 = .add f) : orFlags v0 log &&& f = f := by
  induction log generalizing v0 with
  | nil => cases he
  | cons e' l ih =>
    simp only [orFlags, List.foldl_cons]
    rcases List.mem_cons.mp he with rfl | hmem
    · rw [hf]; exact orFlags_mono _ l f (or_and_self v0 f)
    · exact ih _ hmem

/-! ### AddIf64 -/

structure AInv (pred : W64 → W64 → Bool) (Inv : W64 → Prop) (v0 : W64) (s : ASt) : Prop where
  inv : Inv s.val
  seen : ∀ t d e, s.pc t = .cas d e → pred d e = true
  sum : s.val = s.added.foldl (· + ·) v0

theorem acas_upd {pc : Nat → APc} {P : W64 → W64 → Prop} (h : ∀ t d e, pc t = .cas d e → P d e)
    (t : Nat) (v : APc) (hv : ∀ d e, v = .cas d e → P d e) :
    ∀ u d e, upd pc t v u = .cas d e → P d e := by
  intro u d e hu
  by_cases x : u = t
  · subst x; rw [upd_same] at hu; exact hv d e hu
  · rw [upd_other _ _ _ _ x] at hu; exact h u d e hu

theorem stepA_inv (pred : W64 → W64 → Bool) (Inv : W64 → Prop)
    (hcl : ∀ d v, pred d v = true → Inv v → Inv (v + d)) (v0 : W64) (s : ASt) (a : AAct)
    (h : AInv pred Inv v0 s) : AInv pred Inv v0 (stepA pred s a) := by
  cases a with
  | invoke t d =>
    simp only [stepA]
    split
    · exact ⟨h.inv, acas_upd h.seen t _ (by intro d e x; cases x), h.sum⟩
    · exact h
  | load t =>
    simp only [stepA]
    split
    · next d hpc =>
      split
      · exact ⟨h.inv, acas_upd h.seen t _ (by intro d e x; cases x), h.sum⟩
      · next hp =>
        refine ⟨h.inv, acas_upd h.seen t _ ?_, h.sum⟩
        intro d' e' x
        cases x
        simpa using hp
    · exact h
  | cas t =>
    simp only [stepA]
    split
    · next d e hpc =>
      split
      · next hv =>
        refine ⟨?_, acas_upd h.seen t _ (by intro d e x; cases x), ?_⟩
        · have := hcl d e (h.seen t d e hpc) (by rw [← hv]; exact h.inv)
          exact this
        · show e + d = (s.added ++ [d]).foldl (· + ·) v0
          rw [List.foldl_append, ← h.sum, hv]; rfl
      · exact ⟨h.inv, acas_upd h.seen t _ (by intro d e x; cases x), h.sum⟩
    · exact h

theorem runA_inv (pred : W64 → W64 → Bool) (Inv : W64 → Prop)
    (hcl : ∀ d v, pred d v = true → Inv v → Inv (v + d)) (v0 : W64) (s : ASt) (acts : List AAct)
    (h : AInv pred Inv v0 s) : AInv pred Inv v0 (runA pred s acts) := by
  induction acts generalizing s with
  | nil => exact h
  | cons a l ih => exact ih _ (stepA_inv pred Inv hcl v0 s a h)

theorem initA_inv (pred : W64 → W64 → Bool) (Inv : W64 → Prop) (v0 : W64) (h0 : Inv v0) :
    AInv pred Inv v0 (initA v0) :=
  ⟨h0, by intro t d e h; simp [initA] at h, by simp [initA]⟩

end Got.Lemmas.Atomics
