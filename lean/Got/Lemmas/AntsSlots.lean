import Got.Lemmas.AntsInv
/- ants model: inner-worker slots and the running-handler counter (C08_max_concurrency),
   and where a discard can come from (C08_busy_only_if_full) -/
namespace Got.Model.Ants
set_option linter.unusedVariables false
set_option linter.unusedSimpArgs false

def CPc.isRunning : CPc → Bool | .running _ _ => true | _ => false

/-- inner worker w is inside a handler call -/
def inH (s : State) (w : Nat) : Bool :=
  match s.slot w with
  | some (k, a) => ((s.task k).at_ a).pc.isRunning
  | none => false

def cnt (p : Nat → Bool) : Nat → Nat
  | 0 => 0
  | n + 1 => cnt p n + (if p n then 1 else 0)

theorem cnt_le (p : Nat → Bool) (n : Nat) : cnt p n ≤ n := by
  induction n with
  | zero => simp [cnt]
  | succ m ih => simp only [cnt]; split <;> omega

theorem cnt_congr (p q : Nat → Bool) (n : Nat) (h : ∀ w, w < n → p w = q w) : cnt p n = cnt q n := by
  induction n with
  | zero => rfl
  | succ m ih =>
    simp only [cnt]
    rw [ih (fun w hw => h w (by omega)), h m (by omega)]

theorem cnt_flip (p q : Nat → Bool) (n w : Nat) (hw : w < n) (h : ∀ w', w' < n → w' ≠ w → p w' = q w') :
    cnt q n + (if p w then 1 else 0) = cnt p n + (if q w then 1 else 0) := by
  induction n with
  | zero => omega
  | succ m ih =>
    simp only [cnt]
    by_cases hm : m = w
    · subst hm
      rw [cnt_congr p q m (fun w' hw' => h w' (by omega) (by omega))]
      omega
    · have := ih (by omega) (fun w' hw' hne => h w' (by omega) hne)
      rw [h m (by omega) hm]
      omega

/-- slot ownership is a bijection between busy slots and closures held by a worker; the ghost counter `running`
    counts the slots whose closure is inside the handler -/
structure SlotInv (c : Cfg) (s : State) : Prop where
  own : ∀ k a w, ((s.task k).at_ a).pc.slot? = some w → s.slot w = some (k, a) ∧ w < c.N
  back : ∀ w k a, s.slot w = some (k, a) → ((s.task k).at_ a).pc.slot? = some w
  run : s.running = cnt (inH s) c.N

theorem slotInv_init (c : Cfg) : SlotInv c init := by
  constructor
  · intro k a w h; simp [init, CPc.slot?] at h
  · intro w k a h; simp [init] at h
  · have h0 : ∀ w, inH init w = false := by intro w; simp [inH, init]
    have : ∀ n, cnt (inH init) n = 0 := by
      intro n; induction n with
      | zero => rfl
      | succ m ih => simp only [cnt, ih, h0]; rfl
    rw [this]; rfl

/-- slot and running-ness of every attempt record -/
def sig (x : Att) : Option Nat × Bool := (x.pc.slot?, x.pc.isRunning)

/-- transitions other than wTake / wStart / wEnd / wClose do not change any closure's slot or running-ness -/
theorem tstep_sig {c : Cfg} {now qlen : Nat} {t t' : Task} {act : Act}
    (hne : ∀ k a w, act ≠ .wTake k a w) (hns : ∀ k a h, act ≠ .wStart k a h) (hnn : ∀ k a v e, act ≠ .wEnd k a v e)
    (hnc : ∀ k a, act ≠ .wClose k a)
    (ok : TaskOK t)
    (h : tstep c now qlen t act = some t') : ∀ a, sig (t'.at_ a) = sig (t.at_ a) := by
  intro b
  have hb := ok.beyond t.att (Nat.le_refl _)
  cases act <;> simp only [tstep] at h <;> (repeat' split at h) <;> (try cases h) <;>
    (first
      | rfl
      | (exfalso; first | exact hne _ _ _ rfl | exact hns _ _ _ rfl | exact hnn _ _ _ _ rfl | exact hnc _ _ rfl)
      | (simp only [Task.setAt, upd]; split <;> simp_all [sig, CPc.slot?, CPc.isRunning]))

theorem step_slot_same {c : Cfg} {s s2 : State} {act : Act}
    (hne : ∀ k a w, act ≠ .wTake k a w) (hns : ∀ k a h, act ≠ .wStart k a h) (hnn : ∀ k a v e, act ≠ .wEnd k a v e)
    (hnc : ∀ k a, act ≠ .wClose k a)
    (h : step c s act = some s2) : s2.slot = s.slot ∧ s2.running = s.running := by
  cases act <;> simp only [step] at h <;> (repeat' split at h) <;> (try cases h) <;>
    (first
      | exact ⟨rfl, rfl⟩
      | (exfalso; first | exact hne _ _ _ rfl | exact hns _ _ _ rfl | exact hnn _ _ _ _ rfl | exact hnc _ _ rfl))

theorem inH_congr {s s2 : State} (hs : s2.slot = s.slot)
    (hsig : ∀ k a, sig ((s2.task k).at_ a) = sig ((s.task k).at_ a)) (w : Nat) : inH s2 w = inH s w := by
  simp only [inH, hs]
  split
  · rename_i k a _
    have := hsig k a
    simp only [sig, Prod.mk.injEq] at this
    exact this.2
  · rfl

theorem slotInv_same {c : Cfg} {s s2 : State} (hi : SlotInv c s) (hs : s2.slot = s.slot) (hr : s2.running = s.running)
    (hsig : ∀ k a, sig ((s2.task k).at_ a) = sig ((s.task k).at_ a)) : SlotInv c s2 := by
  have hsl : ∀ k a, ((s2.task k).at_ a).pc.slot? = ((s.task k).at_ a).pc.slot? := by
    intro k a; have := hsig k a; simp only [sig, Prod.mk.injEq] at this; exact this.1
  constructor
  · intro k a w h; rw [hsl] at h; rw [hs]; exact hi.own k a w h
  · intro w k a h; rw [hs] at h; rw [hsl]; exact hi.back w k a h
  · rw [hr, hi.run]; exact (cnt_congr _ _ _ (fun w _ => inH_congr hs hsig w)).symm

/-- only closure (k, a) changed -/
def OnlyChanged (s s2 : State) (k a : Nat) : Prop :=
  ∀ k' a', ¬(k' = k ∧ a' = a) → (s2.task k').at_ a' = (s.task k').at_ a'

theorem onlyChanged_of {s s2 : State} {k a : Nat} {t' : Task} (hs : s2.task = upd s.task k t')
    (ht : ∀ a', a' ≠ a → t'.at_ a' = (s.task k).at_ a') : OnlyChanged s s2 k a := by
  intro k' a' hne
  rw [hs]
  by_cases hk : k' = k
  · subst hk; simp only [upd_same]; exact ht a' (fun h => hne ⟨rfl, h⟩)
  · simp only [upd_other _ _ _ _ hk]

/-- wTake: a free slot w < N takes a queued closure -/
theorem slotInv_take {c : Cfg} {s s2 : State} {k a w : Nat} (hi : SlotInv c s) (hch : OnlyChanged s s2 k a)
    (hnew : ((s2.task k).at_ a).pc = .taken w) (hold : ((s.task k).at_ a).pc.slot? = none)
    (hfree : s.slot w = none) (hw : w < c.N) (hsl : s2.slot = upd s.slot w (some (k, a)))
    (hr : s2.running = s.running) : SlotInv c s2 := by
  have hne : ∀ w' k' a', s.slot w' = some (k', a') → ¬(k' = k ∧ a' = a) := by
    intro w' k' a' h hka
    obtain ⟨rfl, rfl⟩ := hka
    have := hi.back w' _ _ h
    rw [hold] at this; cases this
  constructor
  · intro k' a' w' h
    by_cases hka : k' = k ∧ a' = a
    · obtain ⟨rfl, rfl⟩ := hka
      rw [hnew] at h; simp only [CPc.slot?, Option.some.injEq] at h; subst h
      rw [hsl]; simp [hw]
    · rw [hch k' a' hka] at h
      have := hi.own k' a' w' h
      have hww : w' ≠ w := by intro e; subst e; rw [hfree] at this; cases this.1
      rw [hsl, upd_other _ _ _ _ hww]; exact this
  · intro w' k' a' h
    rw [hsl] at h
    by_cases hww : w' = w
    · subst hww; simp only [upd_same, Option.some.injEq, Prod.mk.injEq] at h
      obtain ⟨rfl, rfl⟩ := h
      rw [hnew]; rfl
    · rw [upd_other _ _ _ _ hww] at h
      rw [hch k' a' (hne w' k' a' h)]; exact hi.back w' k' a' h
  · rw [hr, hi.run]
    apply cnt_congr
    intro w' _
    simp only [inH, hsl]
    by_cases hww : w' = w
    · subst hww; simp [hfree, hnew, CPc.isRunning]
    · rw [upd_other _ _ _ _ hww]
      split
      · rename_i k' a' h; rw [hch k' a' (hne w' k' a' h)]
      · rfl

/-- a closure keeps its slot; its running-ness may change together with the counter (wStart, wEnd) -/
theorem slotInv_keep {c : Cfg} {s s2 : State} {k a w : Nat} (hi : SlotInv c s) (hch : OnlyChanged s s2 k a)
    (hold : ((s.task k).at_ a).pc.slot? = some w) (hnew : ((s2.task k).at_ a).pc.slot? = some w)
    (hsl : s2.slot = s.slot)
    (hr : s2.running + (if ((s.task k).at_ a).pc.isRunning then 1 else 0) =
          s.running + (if ((s2.task k).at_ a).pc.isRunning then 1 else 0)) : SlotInv c s2 := by
  obtain ⟨hsw, hwN⟩ := hi.own k a w hold
  constructor
  · intro k' a' w' h
    rw [hsl]
    by_cases hka : k' = k ∧ a' = a
    · obtain ⟨rfl, rfl⟩ := hka
      rw [hnew] at h; cases h; exact ⟨hsw, hwN⟩
    · rw [hch k' a' hka] at h; exact hi.own k' a' w' h
  · intro w' k' a' h
    rw [hsl] at h
    by_cases hka : k' = k ∧ a' = a
    · obtain ⟨rfl, rfl⟩ := hka
      have := hi.back w' _ _ h
      rw [hold] at this; cases this; exact hnew
    · rw [hch k' a' hka]; exact hi.back w' k' a' h
  · have hother : ∀ w', w' < c.N → w' ≠ w → inH s w' = inH s2 w' := by
      intro w' _ hww
      simp only [inH, hsl]
      split
      · rename_i k' a' h
        have hka : ¬(k' = k ∧ a' = a) := by
          intro hka; obtain ⟨rfl, rfl⟩ := hka
          have := hi.back w' _ _ h; rw [hold] at this; cases this; exact hww rfl
        rw [hch k' a' hka]
      · rfl
    have hfl := cnt_flip (inH s) (inH s2) c.N w hwN hother
    have h1 : inH s w = ((s.task k).at_ a).pc.isRunning := by simp [inH, hsw]
    have h2 : inH s2 w = ((s2.task k).at_ a).pc.isRunning := by simp [inH, hsl, hsw]
    rw [h1, h2] at hfl
    have := hi.run
    omega

/-- wClose: the closure leaves its slot -/
theorem slotInv_close {c : Cfg} {s s2 : State} {k a w : Nat} (hi : SlotInv c s) (hch : OnlyChanged s s2 k a)
    (hold : ((s.task k).at_ a).pc.slot? = some w) (holdr : ((s.task k).at_ a).pc.isRunning = false)
    (hnew : ((s2.task k).at_ a).pc.slot? = none)
    (hsl : s2.slot = upd s.slot w none) (hr : s2.running = s.running) : SlotInv c s2 := by
  obtain ⟨hsw, hwN⟩ := hi.own k a w hold
  constructor
  · intro k' a' w' h
    by_cases hka : k' = k ∧ a' = a
    · obtain ⟨rfl, rfl⟩ := hka; rw [hnew] at h; cases h
    · rw [hch k' a' hka] at h
      have := hi.own k' a' w' h
      have hww : w' ≠ w := by
        intro e; subst e; rw [hsw] at this
        have := this.1; simp only [Option.some.injEq, Prod.mk.injEq] at this
        exact hka ⟨this.1.symm, this.2.symm⟩
      rw [hsl, upd_other _ _ _ _ hww]; exact this
  · intro w' k' a' h
    rw [hsl] at h
    by_cases hww : w' = w
    · subst hww; simp at h
    · rw [upd_other _ _ _ _ hww] at h
      have hka : ¬(k' = k ∧ a' = a) := by
        intro hka; obtain ⟨rfl, rfl⟩ := hka
        have := hi.back w' _ _ h; rw [hold] at this; cases this; exact hww rfl
      rw [hch k' a' hka]; exact hi.back w' k' a' h
  · rw [hr, hi.run]
    apply cnt_congr
    intro w' _
    simp only [inH, hsl]
    by_cases hww : w' = w
    · subst hww; simp [hsw, holdr]
    · rw [upd_other _ _ _ _ hww]
      split
      · rename_i k' a' h
        have hka : ¬(k' = k ∧ a' = a) := by
          intro hka; obtain ⟨rfl, rfl⟩ := hka
          have := hi.back w' _ _ h; rw [hold] at this; cases this; exact hww rfl
        rw [hch k' a' hka]
      · rfl

theorem slotInv_step_wTake {c : Cfg} {s s2 : State} {k a w : Nat} (hi : SlotInv c s)
    (h : step c s (.wTake k a w) = some s2) : SlotInv c s2 := by
  simp only [step, Act.task] at h
  split at h
  · cases h
  · rename_i t' ht
    simp only [tstep] at ht
    by_cases hq : ((s.task k).at_ a).pc = .queued
    · simp only [hq, ↓reduceIte, Option.some.injEq] at ht
      subst ht
      split at h
      · rename_i p rest _
        by_cases hg : p = (k, a) ∧ w < c.N ∧ s.slot w = none
        · simp only [hg, and_self, ↓reduceIte, Option.some.injEq] at h
          subst h
          refine slotInv_take hi (k := k) (a := a) (w := w) ?_ ?_ ?_ hg.2.2 hg.2.1 rfl rfl
          · exact onlyChanged_of (t' := (s.task k).setAt a { (s.task k).at_ a with pc := .taken w }) rfl
              (fun a' ha => by simp [ha])
          · show ((upd s.task k _ k).at_ a).pc = _
            simp
          · rw [hq]; rfl
        · simp [hg] at h
      · cases h
    · simp [hq] at ht

theorem slotInv_step_wStart {c : Cfg} {s s2 : State} {k a : Nat} {hon : Bool} (hi : SlotInv c s)
    (h : step c s (.wStart k a hon) = some s2) : SlotInv c s2 := by
  simp only [step, Act.task] at h
  split at h
  · cases h
  · rename_i t' ht
    simp only [tstep] at ht
    cases hq : ((s.task k).at_ a).pc <;> simp only [hq] at ht <;> (try cases ht)
    rename_i w
    cases h
    refine slotInv_keep hi (k := k) (a := a) (w := w) ?_ ?_ ?_ rfl ?_
    · exact onlyChanged_of (t' := _) rfl (fun a' ha => by simp [Task.setAt, ha])
    · rw [hq]; rfl
    · show ((upd s.task k _ k).at_ a).pc.slot? = _
      simp [Task.setAt, CPc.slot?]
    · show s.running + 1 + _ = s.running + (if ((upd s.task k _ k).at_ a).pc.isRunning then 1 else 0)
      simp [Task.setAt, hq, CPc.isRunning]

theorem running_pos {c : Cfg} {s : State} (hi : SlotInv c s) {k a w : Nat} {hon : Bool}
    (hq : ((s.task k).at_ a).pc = .running w hon) : 1 ≤ s.running := by
  have hold : ((s.task k).at_ a).pc.slot? = some w := by rw [hq]; rfl
  obtain ⟨hsw, hwN⟩ := hi.own k a w hold
  have h1 : inH s w = true := by simp [inH, hsw, hq, CPc.isRunning]
  have := cnt_flip (inH s) (fun w' => if w' = w then false else inH s w') c.N w hwN
    (fun w' _ hne => by simp [hne])
  simp [h1] at this
  rw [hi.run]
  omega

theorem slotInv_step_wEnd {c : Cfg} {s s2 : State} {k a v : Nat} {e : Err} (hi : SlotInv c s)
    (h : step c s (.wEnd k a v e) = some s2) : SlotInv c s2 := by
  simp only [step, Act.task] at h
  split at h
  · cases h
  · rename_i t' ht
    simp only [tstep] at ht
    cases hq : ((s.task k).at_ a).pc <;> simp only [hq] at ht <;> (try cases ht)
    rename_i w hon
    cases h
    have hpos := running_pos hi hq
    refine slotInv_keep hi (k := k) (a := a) (w := w) ?_ ?_ ?_ rfl ?_
    · exact onlyChanged_of (t' := _) rfl (fun a' ha => by simp [Task.setAt, ha])
    · rw [hq]; rfl
    · show ((upd s.task k _ k).at_ a).pc.slot? = _
      simp [Task.setAt, CPc.slot?]
    · show s.running - 1 + _ = s.running + (if ((upd s.task k _ k).at_ a).pc.isRunning then 1 else 0)
      simp [Task.setAt, hq, CPc.isRunning]
      omega

theorem slotInv_step_wClose {c : Cfg} {s s2 : State} {k a : Nat} (hi : SlotInv c s)
    (h : step c s (.wClose k a) = some s2) : SlotInv c s2 := by
  simp only [step, Act.task] at h
  split at h
  · cases h
  · rename_i t' ht
    simp only [tstep] at ht
    cases hq : ((s.task k).at_ a).pc <;> simp only [hq] at ht <;> (try cases ht)
    rename_i w
    simp only [hq, CPc.slot?] at h
    cases h
    refine slotInv_close hi (k := k) (a := a) (w := w) ?_ ?_ ?_ ?_ rfl rfl
    · exact onlyChanged_of (t' := _) rfl (fun a' ha => by simp [Task.setAt, ha])
    · rw [hq]; rfl
    · rw [hq]; rfl
    · show ((upd s.task k _ k).at_ a).pc.slot? = _
      simp [Task.setAt, CPc.slot?]

/-- every step of the current code preserves the slot invariant -/
theorem slotInv_step {c : Cfg} {s s2 : State} {act : Act} (hinv : Inv s) (hi : SlotInv c s)
    (h : step c s act = some s2) : SlotInv c s2 := by
  by_cases h1 : ∃ k a w, act = .wTake k a w
  · obtain ⟨k, a, w, rfl⟩ := h1; exact slotInv_step_wTake hi h
  by_cases h2 : ∃ k a hon, act = .wStart k a hon
  · obtain ⟨k, a, hon, rfl⟩ := h2; exact slotInv_step_wStart hi h
  by_cases h3 : ∃ k a v e, act = .wEnd k a v e
  · obtain ⟨k, a, v, e, rfl⟩ := h3; exact slotInv_step_wEnd hi h
  by_cases h4 : ∃ k a, act = .wClose k a
  · obtain ⟨k, a, rfl⟩ := h4; exact slotInv_step_wClose hi h
  have n1 : ∀ k a w, act ≠ .wTake k a w := fun k a w e => h1 ⟨k, a, w, e⟩
  have n2 : ∀ k a hon, act ≠ .wStart k a hon := fun k a hon e => h2 ⟨k, a, hon, e⟩
  have n3 : ∀ k a v e, act ≠ .wEnd k a v e := fun k a v e' e => h3 ⟨k, a, v, e', e⟩
  have n4 : ∀ k a, act ≠ .wClose k a := fun k a e => h4 ⟨k, a, e⟩
  obtain ⟨hs, hr⟩ := step_slot_same n1 n2 n3 n4 h
  refine slotInv_same hi hs hr ?_
  intro k a
  rcases step_task h with ⟨_, _, ht⟩ | ⟨t', ht, hst⟩
  · rw [ht]
  · rw [hst]
    by_cases hk : k = act.task
    · subst hk; simp only [upd_same]; exact tstep_sig n1 n2 n3 n4 (hinv _) ht a
    · simp only [upd_other _ _ _ _ hk]

theorem slotInv_run {c : Cfg} (hc : c.old = false) {acts : List Act} {s s2 : State} (hinv : Inv s) (hi : SlotInv c s)
    (h : run c s acts = some s2) : SlotInv c s2 := by
  induction acts generalizing s with
  | nil => simp [run] at h; subst h; exact hi
  | cons a rest ih =>
    simp only [run] at h
    split at h
    · cases h
    · rename_i s1 hs; exact ih (inv_step hc hinv hs) (slotInv_step hinv hi hs) h

theorem slotInv_reachable {c : Cfg} (hc : c.old = false) {s : State} (h : Reachable c s) : SlotInv c s := by
  obtain ⟨acts, ha⟩ := h
  exact slotInv_run hc inv_init (slotInv_init c) ha


/-- the high-water mark only moves to the current counter value -/
theorem step_max {c : Cfg} {s s2 : State} {act : Act} (h : step c s act = some s2) :
    s2.maxRunning = s.maxRunning ∨ s2.maxRunning = max s.maxRunning s2.running := by
  cases act <;> simp only [step] at h <;> (repeat' split at h) <;> (try cases h) <;>
    first | exact Or.inl rfl | exact Or.inr rfl

theorem max_run {c : Cfg} (hc : c.old = false) {acts : List Act} {s s2 : State} (hinv : Inv s) (hi : SlotInv c s)
    (hm : s.maxRunning ≤ c.N) (h : run c s acts = some s2) : s2.maxRunning ≤ c.N := by
  induction acts generalizing s with
  | nil => simp [run] at h; subst h; exact hm
  | cons a rest ih =>
    simp only [run] at h
    split at h
    · cases h
    · rename_i s1 hs
      have hi1 := slotInv_step hinv hi hs
      have hr1 : s1.running ≤ c.N := by rw [hi1.run]; exact cnt_le _ _
      have hm1 : s1.maxRunning ≤ c.N := by
        rcases step_max hs with e | e <;> rw [e]
        · exact hm
        · exact Nat.max_le.mpr ⟨hm, hr1⟩
      exact ih (inv_step hc hinv hs) hi1 hm1 h

theorem tstep_discard_origin {c : Cfg} {now qlen : Nat} {t t' : Task} {act : Act}
    (h : tstep c now qlen t act = some t') :
    (t.pc ≠ .discardCb → t'.pc = .discardCb → act = .busyTest act.task ∧ qlen = c.N ∧ t.discard = true) ∧
    (t.pc ≠ .discarded → t'.pc = .discarded → act = .discardCb act.task ∧ t.pc = .discardCb) := by
  cases act <;> simp only [tstep] at h <;> (repeat' split at h) <;> (try cases h) <;>
    simp_all [Task.setAt, Act.task]

/-- where a discard comes from: the only way into the discard path is a busy test that read a full queue with the
    discardOnBusy option set; the only way to `discarded` is through that path -/
theorem discard_origin {c : Cfg} {s s2 : State} {act : Act} (k : Nat) (h : step c s act = some s2) :
    ((s.task k).pc ≠ .discardCb → (s2.task k).pc = .discardCb →
        act = .busyTest k ∧ s.taskQ.length = c.N ∧ (s.task k).discard = true) ∧
    ((s.task k).pc ≠ .discarded → (s2.task k).pc = .discarded → act = .discardCb k ∧ (s.task k).pc = .discardCb) := by
  rcases step_task h with ⟨_, _, ht⟩ | ⟨t', ht, hst⟩
  · rw [ht]; exact ⟨fun a b => absurd b a, fun a b => absurd b a⟩
  · rw [hst]
    by_cases hk : k = act.task
    · subst hk
      simp only [upd_same]
      exact tstep_discard_origin ht
    · simp only [upd_other _ _ _ _ hk]
      exact ⟨fun a b => absurd b a, fun a b => absurd b a⟩

end Got.Model.Ants
