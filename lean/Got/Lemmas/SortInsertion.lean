import Got.Lemmas.SortOrder
import Got.Lemmas.SortBounds
/- insertion sort sorts (strict weak order, standard less closure) -/
namespace Got.Lemmas.Sort
open Got.Model.Sort

variable {K V : Type} {lt : K → K → Bool}

/-- inner loop: `[a, i]` is sorted except that the element at `j` may be too far right; it is `≤` everything
    in `(j, i]`.  After the loop `[a, i]` is sorted. -/
theorem insInner_sorted (sw : StrictWeak lt) (a i j : Nat) (s : St K V) (hi : i < s.keys.size) (hj : j ≤ i) (ha : a ≤ j)
    (I1 : ∀ p q x y, a ≤ p → p < q → q ≤ i → p ≠ j → q ≠ j → s.keys[p]? = some x → s.keys[q]? = some y → lt y x = false)
    (I2 : ∀ q x y, j < q → q ≤ i → s.keys[j]? = some x → s.keys[q]? = some y → lt y x = false) :
    SortedOn lt (insInner (stdLess lt) a j s).keys a (i + 1) := by
  fun_induction insInner (stdLess lt) a j s with
  | case1 s =>
    intro p q x y h1 h2 h3 hx hy
    by_cases hp : p = 0
    · subst hp; exact I2 q x y (by omega) (by omega) hx hy
    · exact I1 p q x y h1 h2 (by omega) hp (by omega) hx hy
  | case2 j s h r s1 hr ih =>
    obtain ⟨xj1, hxj1⟩ := getElem?_some_of_lt s.keys (j + 1) (by omega)
    obtain ⟨xj, hxj⟩ := getElem?_some_of_lt s.keys j (by omega)
    have hlt : lt xj1 xj = true := by
      have : r = lt xj1 xj := stdLess_eq lt s (j + 1) j xj1 xj hxj1 hxj
      rw [← this]; exact hr
    have hsw : ∀ k, (s1.swap (j + 1) j).keys[k]? =
        if k = j + 1 then s.keys[j]? else if k = j then s.keys[j + 1]? else s.keys[k]? := by
      intro k
      show (s.keys.swapIfInBounds (j + 1) j)[k]? = _
      exact getElem?_swapIfInBounds _ _ _ _ (by omega) (by omega)
    apply ih
    · show (s.keys.swapIfInBounds (j + 1) j).size > i
      simp; omega
    · omega
    · omega
    · intro p q x y h1 h2 h3 hpj hqj hx hy
      rw [hsw p] at hx
      rw [hsw q] at hy
      have hle := sw.le_of_lt hlt
      grind
    · intro q x y h1 h2 hx hy
      rw [hsw j] at hx
      rw [hsw q] at hy
      have hle := sw.le_of_lt hlt
      grind
  | case3 j s h r s1 hr =>
    obtain ⟨xj1, hxj1⟩ := getElem?_some_of_lt s.keys (j + 1) (by omega)
    obtain ⟨xj, hxj⟩ := getElem?_some_of_lt s.keys j (by omega)
    have hle : lt xj1 xj = false := by
      have : r = lt xj1 xj := stdLess_eq lt s (j + 1) j xj1 xj hxj1 hxj
      rw [← this]; simpa using hr
    intro p q x y h1 h2 h3 hx hy
    show lt y x = false
    have hx' : s.keys[p]? = some x := hx
    have hy' : s.keys[q]? = some y := hy
    by_cases hp : p = j + 1
    · subst hp; exact I2 q x y (by omega) (by omega) hx' hy'
    · by_cases hq : q = j + 1
      · subst hq
        rw [hxj1] at hy'; cases hy'
        by_cases hpj : p = j
        · subst hpj; rw [hxj] at hx'; cases hx'; exact hle
        · have := I1 p j x xj h1 (by omega) (by omega) hp (by omega) hx' hxj
          exact sw.le_trans this hle
      · exact I1 p q x y h1 h2 (by omega) hp hq hx' hy'
  | case4 j s h =>
    intro p q x y h1 h2 h3 hx hy
    by_cases hp : p = j + 1
    · subst hp; exact I2 q x y (by omega) (by omega) hx hy
    · exact I1 p q x y h1 h2 (by omega) hp (by omega) hx hy

theorem SortedOn.mono {ks : Array K} {a b a' b' : Nat} (h : SortedOn lt ks a b) (ha : a ≤ a') (hb : b' ≤ b) :
    SortedOn lt ks a' b' := fun i j x y h1 h2 h3 hx hy => h i j x y (by omega) h2 (by omega) hx hy

theorem insOuter_sorted (sw : StrictWeak lt) (a b i : Nat) (s : St K V) (hb : b ≤ s.keys.size) (hai : a ≤ i)
    (hS : SortedOn lt s.keys a i) : SortedOn lt (insOuter (stdLess lt) a b i s).keys a b := by
  fun_induction insOuter (stdLess lt) a b i s with
  | case1 i s h ih =>
    have hsz := (insInner_steps (stdLess lt) a i s).keys_size
    apply ih (by omega) (by omega)
    apply insInner_sorted sw a i i s (by omega) (Nat.le_refl _) hai
    · intro p q x y h1 h2 h3 hp hq hx hy
      exact hS p q x y h1 h2 (by omega) hx hy
    · intro q x y h1 h2; omega
  | case2 i s h => exact hS.mono (Nat.le_refl _) (by omega)

/-- insertionSort_func sorts `[a,b)` -/
theorem insertionSort_sorted (sw : StrictWeak lt) (a b : Nat) (s : St K V) (hb : b ≤ s.keys.size) :
    SortedOn lt (insertionSort (stdLess lt) a b s).keys a b := by
  unfold insertionSort
  apply insOuter_sorted sw a b (a + 1) s hb (by omega)
  intro i j x y h1 h2 h3; omega

/-- the tail of quickSort_func (gap pass + insertion sort) sorts `[a,b)` -/
theorem smallSort_sorted (sw : StrictWeak lt) (a b : Nat) (s : St K V) (hb : b ≤ s.keys.size) :
    SortedOn lt (smallSort (stdLess lt) a b s).keys a b := by
  unfold smallSort
  split
  · have hsz := (gapPass_steps (stdLess lt) a b (a + gapInit) s (by rw [gapInit_eq]; omega)).keys_size
    exact insertionSort_sorted sw a b _ (by omega)
  · intro i j x y h1 h2 h3; omega

end Got.Lemmas.Sort
