import Got.Lemmas.SortOrder
import Got.Lemmas.SortBounds
/-
doPivot_func with the standard less closure over a strict weak order: the three-zone post-condition.
`p` is the pivot value; "x ≤ p" is written `lt p x = false`, "p ≤ x" is `lt x p = false`.
-/
namespace Got.Lemmas.Sort
open Got.Model.Sort

variable {K V : Type} {lt : K → K → Bool}

theorem AllK.append {ks : Array K} {a b c : Nat} {P : K → Prop} (h1 : AllK ks a b P) (h2 : AllK ks b c P) :
    AllK ks a c P := by
  intro k x hk1 hk2 hx
  by_cases h : k < b
  · exact h1 k x hk1 h hx
  · exact h2 k x (by omega) hk2 hx

theorem AllK.empty {ks : Array K} {a b : Nat} {P : K → Prop} (h : b ≤ a) : AllK ks a b P := by
  intro k x hk1 hk2; omega

theorem AllK.of_eq {ks ks' : Array K} {a b : Nat} {P : K → Prop} (h : AllK ks a b P) (e : ks' = ks) : AllK ks' a b P := by
  subst e; exact h

/-! ### the four scans: keys unchanged, what was learnt about the scanned elements, why the scan stopped -/

theorem scanUpLt_spec (pv c a : Nat) (p : K) (s : St K V) (hp : s.keys[pv]? = some p) (hc : c ≤ s.keys.size) :
    (scanUpLt (stdLess lt) pv c a s).2.keys = s.keys ∧
    AllK s.keys a (scanUpLt (stdLess lt) pv c a s).1 (fun x => lt x p = true) ∧
    ((scanUpLt (stdLess lt) pv c a s).1 < c → ∀ x, s.keys[(scanUpLt (stdLess lt) pv c a s).1]? = some x → lt x p = false) := by
  fun_induction scanUpLt (stdLess lt) pv c a s with
  | case1 a s h r s1 hr ih =>
    obtain ⟨xa, hxa⟩ := getElem?_some_of_lt s.keys a (by omega)
    have hr' : lt xa p = true := by
      have : r = lt xa p := stdLess_eq lt s a pv xa p hxa hp
      rw [← this]; exact hr
    obtain ⟨h1, h2, h3⟩ := ih hp hc
    refine ⟨h1, ?_, h3⟩
    intro k x hk1 hk2 hx
    by_cases hka : k = a
    · subst hka; rw [hxa] at hx; cases hx; exact hr'
    · exact h2 k x (by omega) hk2 hx
  | case2 a s h r s1 hr =>
    obtain ⟨xa, hxa⟩ := getElem?_some_of_lt s.keys a (by omega)
    have hr' : lt xa p = false := by
      have : r = lt xa p := stdLess_eq lt s a pv xa p hxa hp
      rw [← this]; simpa using hr
    refine ⟨rfl, AllK.empty (Nat.le_refl _), ?_⟩
    intro _ x hx
    rw [hxa] at hx; cases hx; exact hr'
  | case3 a s h => exact ⟨rfl, AllK.empty (Nat.le_refl _), fun h' => by omega⟩

theorem scanUpNotGt_spec (pv c b : Nat) (p : K) (s : St K V) (hp : s.keys[pv]? = some p) (hc : c ≤ s.keys.size) :
    (scanUpNotGt (stdLess lt) pv c b s).2.keys = s.keys ∧
    AllK s.keys b (scanUpNotGt (stdLess lt) pv c b s).1 (fun x => lt p x = false) ∧
    ((scanUpNotGt (stdLess lt) pv c b s).1 < c → ∀ x, s.keys[(scanUpNotGt (stdLess lt) pv c b s).1]? = some x → lt p x = true) := by
  fun_induction scanUpNotGt (stdLess lt) pv c b s with
  | case1 b s h r s1 hr ih =>
    obtain ⟨xb, hxb⟩ := getElem?_some_of_lt s.keys b (by omega)
    have hr' : lt p xb = false := by
      have : r = lt p xb := stdLess_eq lt s pv b p xb hp hxb
      rw [← this]; simpa using hr
    obtain ⟨h1, h2, h3⟩ := ih hp hc
    refine ⟨h1, ?_, h3⟩
    intro k x hk1 hk2 hx
    by_cases hkb : k = b
    · subst hkb; rw [hxb] at hx; cases hx; exact hr'
    · exact h2 k x (by omega) hk2 hx
  | case2 b s h r s1 hr =>
    obtain ⟨xb, hxb⟩ := getElem?_some_of_lt s.keys b (by omega)
    have hr' : lt p xb = true := by
      have : r = lt p xb := stdLess_eq lt s pv b p xb hp hxb
      rw [← this]; simpa using hr
    refine ⟨rfl, AllK.empty (Nat.le_refl _), ?_⟩
    intro _ x hx
    rw [hxb] at hx; cases hx; exact hr'
  | case3 b s h => exact ⟨rfl, AllK.empty (Nat.le_refl _), fun h' => by omega⟩

theorem scanDownGt_spec (pv b c : Nat) (p : K) (s : St K V) (hp : s.keys[pv]? = some p) (hc : c ≤ s.keys.size) :
    (scanDownGt (stdLess lt) pv b c s).2.keys = s.keys ∧
    AllK s.keys (scanDownGt (stdLess lt) pv b c s).1 c (fun x => lt p x = true) ∧
    (b < (scanDownGt (stdLess lt) pv b c s).1 → ∀ x, s.keys[(scanDownGt (stdLess lt) pv b c s).1 - 1]? = some x → lt p x = false) := by
  fun_induction scanDownGt (stdLess lt) pv b c s with
  | case1 s => exact ⟨rfl, AllK.empty (Nat.le_refl _), fun h' => by omega⟩
  | case2 c s h r s1 hr ih =>
    obtain ⟨xc, hxc⟩ := getElem?_some_of_lt s.keys c (by omega)
    have hr' : lt p xc = true := by
      have : r = lt p xc := stdLess_eq lt s pv c p xc hp hxc
      rw [← this]; exact hr
    obtain ⟨h1, h2, h3⟩ := ih hp (by show c ≤ s.keys.size; omega)
    refine ⟨h1, ?_, h3⟩
    intro k x hk1 hk2 hx
    by_cases hkc : k = c
    · subst hkc; rw [hxc] at hx; cases hx; exact hr'
    · exact h2 k x hk1 (by omega) hx
  | case3 c s h r s1 hr =>
    obtain ⟨xc, hxc⟩ := getElem?_some_of_lt s.keys c (by omega)
    have hr' : lt p xc = false := by
      have : r = lt p xc := stdLess_eq lt s pv c p xc hp hxc
      rw [← this]; simpa using hr
    refine ⟨rfl, AllK.empty (Nat.le_refl _), ?_⟩
    intro _ x hx
    have e : c + 1 - 1 = c := by omega
    rw [e, hxc] at hx; cases hx; exact hr'
  | case4 c s h => exact ⟨rfl, AllK.empty (Nat.le_refl _), fun h' => by omega⟩

theorem scanDownNotLt_spec (pv a b : Nat) (p : K) (s : St K V) (hp : s.keys[pv]? = some p) (hb : b ≤ s.keys.size) :
    (scanDownNotLt (stdLess lt) pv a b s).2.keys = s.keys ∧
    AllK s.keys (scanDownNotLt (stdLess lt) pv a b s).1 b (fun x => lt x p = false) ∧
    (a < (scanDownNotLt (stdLess lt) pv a b s).1 → ∀ x, s.keys[(scanDownNotLt (stdLess lt) pv a b s).1 - 1]? = some x → lt x p = true) := by
  fun_induction scanDownNotLt (stdLess lt) pv a b s with
  | case1 s => exact ⟨rfl, AllK.empty (Nat.le_refl _), fun h' => by omega⟩
  | case2 b s h r s1 hr ih =>
    obtain ⟨xb, hxb⟩ := getElem?_some_of_lt s.keys b (by omega)
    have hr' : lt xb p = false := by
      have : r = lt xb p := stdLess_eq lt s b pv xb p hxb hp
      rw [← this]; simpa using hr
    obtain ⟨h1, h2, h3⟩ := ih hp (by show b ≤ s.keys.size; omega)
    refine ⟨h1, ?_, h3⟩
    intro k x hk1 hk2 hx
    by_cases hkb : k = b
    · subst hkb; rw [hxb] at hx; cases hx; exact hr'
    · exact h2 k x hk1 (by omega) hx
  | case3 b s h r s1 hr =>
    obtain ⟨xb, hxb⟩ := getElem?_some_of_lt s.keys b (by omega)
    have hr' : lt xb p = true := by
      have : r = lt xb p := stdLess_eq lt s b pv xb p hxb hp
      rw [← this]; simpa using hr
    refine ⟨rfl, AllK.empty (Nat.le_refl _), ?_⟩
    intro _ x hx
    have e : b + 1 - 1 = b := by omega
    rw [e, hxb] at hx; cases hx; exact hr'
  | case4 b s h => exact ⟨rfl, AllK.empty (Nat.le_refl _), fun h' => by omega⟩

/-! ### the main partition loop -/

theorem partLoop_sem (sw : StrictWeak lt) (pv L H b c : Nat) (p : K) (s : St K V)
    (hp : s.keys[pv]? = some p) (hpv : pv < L) (hLb : L ≤ b) (hbc : b ≤ c) (hcH : c ≤ H) (hH : H ≤ s.keys.size)
    (Zl : AllK s.keys L b (fun x => lt p x = false)) (Zr : AllK s.keys c H (fun x => lt x p = false)) :
    (partLoop (stdLess lt) pv b c s).2.2.keys[pv]? = some p ∧
    (partLoop (stdLess lt) pv b c s).1 = (partLoop (stdLess lt) pv b c s).2.1 ∧
    b ≤ (partLoop (stdLess lt) pv b c s).1 ∧ (partLoop (stdLess lt) pv b c s).1 ≤ c ∧
    AllK (partLoop (stdLess lt) pv b c s).2.2.keys L (partLoop (stdLess lt) pv b c s).1 (fun x => lt p x = false) ∧
    AllK (partLoop (stdLess lt) pv b c s).2.2.keys (partLoop (stdLess lt) pv b c s).2.1 H (fun x => lt x p = false) := by
  fun_induction partLoop (stdLess lt) pv b c s with
  | case1 b c s rb rc h =>
    have f1 : b ≤ rb.1 ∧ (rb.1 ≤ c ∨ rb.1 = b) := scanUpNotGt_fst (stdLess lt) pv c b s
    obtain ⟨k1, z1, _⟩ : rb.2.keys = s.keys ∧ AllK s.keys b rb.1 (fun x => lt p x = false) ∧ _ :=
      scanUpNotGt_spec pv c b p s hp (by omega)
    have f2 : rc.1 ≤ c ∧ (rb.1 ≤ rc.1 ∨ rc.1 = c) := scanDownGt_fst (stdLess lt) pv rb.1 c rb.2
    obtain ⟨k2, z2, _⟩ : rc.2.keys = rb.2.keys ∧ AllK rb.2.keys rc.1 c (fun x => lt p x = true) ∧ _ :=
      scanDownGt_spec pv rb.1 c p rb.2 (by rw [k1]; exact hp) (by rw [k1]; omega)
    have kk : rc.2.keys = s.keys := k2.trans k1
    dsimp only
    rw [kk]
    rw [k1] at z2
    refine ⟨hp, by omega, by omega, by omega, Zl.append z1, ?_⟩
    exact (z2.imp (fun x hx => sw.le_of_lt hx)).append Zr
  | case2 b c s rb rc h ih =>
    have f1 : b ≤ rb.1 ∧ (rb.1 ≤ c ∨ rb.1 = b) := scanUpNotGt_fst (stdLess lt) pv c b s
    obtain ⟨k1, z1, e1⟩ : rb.2.keys = s.keys ∧ AllK s.keys b rb.1 (fun x => lt p x = false) ∧
        (rb.1 < c → ∀ x, s.keys[rb.1]? = some x → lt p x = true) :=
      scanUpNotGt_spec pv c b p s hp (by omega)
    have f2 : rc.1 ≤ c ∧ (rb.1 ≤ rc.1 ∨ rc.1 = c) := scanDownGt_fst (stdLess lt) pv rb.1 c rb.2
    obtain ⟨k2, z2, e2⟩ : rc.2.keys = rb.2.keys ∧ AllK rb.2.keys rc.1 c (fun x => lt p x = true) ∧
        (rb.1 < rc.1 → ∀ x, rb.2.keys[rc.1 - 1]? = some x → lt p x = false) :=
      scanDownGt_spec pv rb.1 c p rb.2 (by rw [k1]; exact hp) (by rw [k1]; omega)
    have kk : rc.2.keys = s.keys := k2.trans k1
    rw [k1] at z2 e2
    have hlt : rb.1 < rc.1 := by omega
    obtain ⟨xb, hxb⟩ := getElem?_some_of_lt s.keys rb.1 (by omega)
    obtain ⟨xc, hxc⟩ := getElem?_some_of_lt s.keys (rc.1 - 1) (by omega)
    have hb1 : lt p xb = true := e1 (by omega) xb hxb
    have hc1 : lt p xc = false := e2 hlt xc hxc
    have hne : rb.1 ≠ rc.1 - 1 := by
      intro e; rw [e, hxc] at hxb; cases hxb; rw [hb1] at hc1; cases hc1
    have hsw : ∀ k, (rc.2.swap rb.1 (rc.1 - 1)).keys[k]? =
        if k = rb.1 then s.keys[rc.1 - 1]? else if k = rc.1 - 1 then s.keys[rb.1]? else s.keys[k]? := by
      intro k
      show (rc.2.keys.swapIfInBounds rb.1 (rc.1 - 1))[k]? = _
      rw [kk]
      exact getElem?_swapIfInBounds _ _ _ _ (by omega) (by omega)
    have hsz : (rc.2.swap rb.1 (rc.1 - 1)).keys.size = s.keys.size := by
      show (rc.2.keys.swapIfInBounds rb.1 (rc.1 - 1)).size = _
      rw [kk]; simp
    have := ih (by rw [hsw, if_neg (by omega), if_neg (by omega)]; exact hp) (by omega) (by omega) (by omega)
      (by rw [hsz]; exact hH)
      (by
        intro k x hk1 hk2 hx
        rw [hsw] at hx
        split at hx
        · rw [hxc] at hx; cases hx; exact hc1
        · rw [if_neg (by omega)] at hx
          exact (Zl.append z1) k x hk1 (by omega) hx)
      (by
        intro k x hk1 hk2 hx
        rw [hsw] at hx
        rw [if_neg (by omega)] at hx
        split at hx
        · rw [hxb] at hx; cases hx; exact sw.le_of_lt hb1
        · exact ((z2.imp (fun x hx => sw.le_of_lt hx)).append Zr) k x (by omega) hk2 hx)
    obtain ⟨g1, g2, g3, g4, g5, g6⟩ := this
    exact ⟨g1, g2, by omega, by omega, g5, g6⟩

/-! ### the protect loop: moves elements equivalent to the pivot next to the middle zone -/

theorem protectLoop_sem (pv L B a b : Nat) (p : K) (s : St K V)
    (hp : s.keys[pv]? = some p) (hpv : pv < L) (hLa : L ≤ a) (hbB : b ≤ B) (hB : B ≤ s.keys.size)
    (Zl : AllK s.keys L b (fun x => lt p x = false))
    (Ze : AllK s.keys b B (fun x => lt p x = false ∧ lt x p = false)) :
    (protectLoop (stdLess lt) pv a b s).2.2.keys[pv]? = some p ∧
    AllK (protectLoop (stdLess lt) pv a b s).2.2.keys L (protectLoop (stdLess lt) pv a b s).2.1 (fun x => lt p x = false) ∧
    AllK (protectLoop (stdLess lt) pv a b s).2.2.keys (protectLoop (stdLess lt) pv a b s).2.1 B
      (fun x => lt p x = false ∧ lt x p = false) := by
  fun_induction protectLoop (stdLess lt) pv a b s with
  | case1 a b s rb ra h =>
    have f1 : rb.1 ≤ b ∧ (a ≤ rb.1 ∨ rb.1 = b) := scanDownNotLt_fst (stdLess lt) pv a b s
    obtain ⟨k1, z1, _⟩ : rb.2.keys = s.keys ∧ AllK s.keys rb.1 b (fun x => lt x p = false) ∧ _ :=
      scanDownNotLt_spec pv a b p s hp (by omega)
    obtain ⟨k2, _, _⟩ : ra.2.keys = rb.2.keys ∧ _ ∧ _ :=
      scanUpLt_spec (lt := lt) pv rb.1 a p rb.2 (by rw [k1]; exact hp) (by rw [k1]; omega)
    have kk : ra.2.keys = s.keys := k2.trans k1
    dsimp only
    rw [kk]
    refine ⟨hp, Zl.mono (Nat.le_refl _) (by omega), ?_⟩
    refine AllK.append (b := b) ?_ Ze
    intro k x hk1 hk2 hx
    exact ⟨Zl k x (by omega) hk2 hx, z1 k x hk1 hk2 hx⟩
  | case2 a b s rb ra h ih =>
    have f1 : rb.1 ≤ b ∧ (a ≤ rb.1 ∨ rb.1 = b) := scanDownNotLt_fst (stdLess lt) pv a b s
    obtain ⟨k1, z1, e1⟩ : rb.2.keys = s.keys ∧ AllK s.keys rb.1 b (fun x => lt x p = false) ∧
        (a < rb.1 → ∀ x, s.keys[rb.1 - 1]? = some x → lt x p = true) :=
      scanDownNotLt_spec pv a b p s hp (by omega)
    have f2 : a ≤ ra.1 ∧ (ra.1 ≤ rb.1 ∨ ra.1 = a) := scanUpLt_fst (stdLess lt) pv rb.1 a rb.2
    obtain ⟨k2, _, e2⟩ : ra.2.keys = rb.2.keys ∧ _ ∧
        (ra.1 < rb.1 → ∀ x, rb.2.keys[ra.1]? = some x → lt x p = false) :=
      scanUpLt_spec (lt := lt) pv rb.1 a p rb.2 (by rw [k1]; exact hp) (by rw [k1]; omega)
    have kk : ra.2.keys = s.keys := k2.trans k1
    rw [k1] at e2
    have hlt : ra.1 < rb.1 := by omega
    obtain ⟨xa, hxa⟩ := getElem?_some_of_lt s.keys ra.1 (by omega)
    obtain ⟨xb, hxb⟩ := getElem?_some_of_lt s.keys (rb.1 - 1) (by omega)
    have ha1 : lt xa p = false := e2 hlt xa hxa
    have hb1 : lt xb p = true := e1 (by omega) xb hxb
    have hne : ra.1 ≠ rb.1 - 1 := by
      intro e; rw [e, hxb] at hxa; cases hxa; rw [hb1] at ha1; cases ha1
    have hsw : ∀ k, (ra.2.swap ra.1 (rb.1 - 1)).keys[k]? =
        if k = ra.1 then s.keys[rb.1 - 1]? else if k = rb.1 - 1 then s.keys[ra.1]? else s.keys[k]? := by
      intro k
      show (ra.2.keys.swapIfInBounds ra.1 (rb.1 - 1))[k]? = _
      rw [kk]
      exact getElem?_swapIfInBounds _ _ _ _ (by omega) (by omega)
    have hsz : (ra.2.swap ra.1 (rb.1 - 1)).keys.size = s.keys.size := by
      show (ra.2.keys.swapIfInBounds ra.1 (rb.1 - 1)).size = _
      rw [kk]; simp
    apply ih (by rw [hsw, if_neg (by omega), if_neg (by omega)]; exact hp) (by omega) (by omega)
      (by rw [hsz]; exact hB)
    · intro k x hk1 hk2 hx
      rw [hsw] at hx
      split at hx
      · rw [hxb] at hx; cases hx; exact Zl (rb.1 - 1) xb (by omega) (by omega) hxb
      · rw [if_neg (by omega)] at hx
        exact Zl k x hk1 (by omega) hx
    · intro k x hk1 hk2 hx
      rw [hsw] at hx
      rw [if_neg (by omega)] at hx
      split at hx
      · rw [hxa] at hx; cases hx
        exact ⟨Zl ra.1 xa (by omega) (by omega) hxa, ha1⟩
      · by_cases hkb : k < b
        · exact ⟨Zl k x (by omega) hkb hx, z1 k x (by omega) hkb hx⟩
        · exact Ze k x (by omega) hk2 hx

/-! ### pivot choice: after `medianOfThree(lo, m, hi-1)` the key at `hi-1` is not less than the key at `lo` -/

theorem condSwap_sem (sw : StrictWeak lt) (i j : Nat) (x y : K) (s : St K V) (hij : i ≠ j)
    (hx : s.keys[i]? = some x) (hy : s.keys[j]? = some y) :
    ∃ x' y', (condSwap (stdLess lt) i j s).keys[i]? = some x' ∧ (condSwap (stdLess lt) i j s).keys[j]? = some y' ∧
      lt x' y' = false ∧ ((x' = x ∧ y' = y) ∨ (x' = y ∧ y' = x)) ∧
      (∀ k, k ≠ i → k ≠ j → (condSwap (stdLess lt) i j s).keys[k]? = s.keys[k]?) ∧
      (condSwap (stdLess lt) i j s).keys.size = s.keys.size := by
  have hi : i < s.keys.size := by
    rcases Nat.lt_or_ge i s.keys.size with h | h
    · exact h
    · rw [Array.getElem?_eq_none h] at hx; cases hx
  have hj : j < s.keys.size := by
    rcases Nat.lt_or_ge j s.keys.size with h | h
    · exact h
    · rw [Array.getElem?_eq_none h] at hy; cases hy
  unfold condSwap
  dsimp only
  rw [stdLess_eq lt s i j x y hx hy]
  cases hlt : lt x y with
  | true =>
    simp only [if_true]
    have hsw : ∀ k, ((s.note i j true).swap i j).keys[k]? =
        if k = i then s.keys[j]? else if k = j then s.keys[i]? else s.keys[k]? := by
      intro k
      exact getElem?_swapIfInBounds _ _ _ _ hi hj
    refine ⟨y, x, by rw [hsw, if_pos rfl, hy], by rw [hsw, if_neg (fun e => hij e.symm), if_pos rfl, hx],
      sw.le_of_lt hlt, Or.inr ⟨rfl, rfl⟩, ?_, by simp⟩
    intro k h1 h2
    rw [hsw, if_neg h1, if_neg h2]
  | false =>
    simp only [Bool.false_eq_true, if_false]
    exact ⟨x, y, hx, hy, hlt, Or.inl ⟨rfl, rfl⟩, fun k _ _ => rfl, rfl⟩

theorem medianOfThree_sem (sw : StrictWeak lt) (m1 m0 m2 : Nat) (s : St K V)
    (h10 : m1 ≠ m0) (h12 : m1 ≠ m2) (h02 : m0 ≠ m2)
    (hs1 : m1 < s.keys.size) (hs0 : m0 < s.keys.size) (hs2 : m2 < s.keys.size) :
    ∀ x y, (medianOfThree (stdLess lt) m1 m0 m2 s).keys[m1]? = some x →
      (medianOfThree (stdLess lt) m1 m0 m2 s).keys[m2]? = some y → lt y x = false := by
  obtain ⟨x1, hx1⟩ := getElem?_some_of_lt s.keys m1 hs1
  obtain ⟨x0, hx0⟩ := getElem?_some_of_lt s.keys m0 hs0
  obtain ⟨x2, hx2⟩ := getElem?_some_of_lt s.keys m2 hs2
  obtain ⟨a1, a0, ha1, ha0, hle, _, hoth, hsz⟩ := condSwap_sem sw m1 m0 x1 x0 s h10 hx1 hx0
  unfold medianOfThree
  dsimp only
  generalize condSwap (stdLess lt) m1 m0 s = s1 at *
  have ha2 : s1.keys[m2]? = some x2 := by rw [hoth m2 (fun e => h12 e.symm) (fun e => h02 e.symm)]; exact hx2
  rw [stdLess_eq lt s1 m2 m1 x2 a1 ha2 ha1]
  cases hlt : lt x2 a1 with
  | false =>
    simp only [Bool.false_eq_true, if_false]
    intro x y hx hy
    have hx' : s1.keys[m1]? = some x := hx
    have hy' : s1.keys[m2]? = some y := hy
    rw [ha1] at hx'; rw [ha2] at hy'; cases hx'; cases hy'; exact hlt
  | true =>
    simp only [if_true]
    have hsw : ∀ k, ((s1.note m2 m1 true).swap m2 m1).keys[k]? =
        if k = m2 then s1.keys[m1]? else if k = m1 then s1.keys[m2]? else s1.keys[k]? := by
      intro k
      exact getElem?_swapIfInBounds s1.keys _ _ _ (by omega) (by omega)
    obtain ⟨b1, b0, hb1, hb0, hle2, hor, hoth2, _⟩ := condSwap_sem sw m1 m0 x2 a0 ((s1.note m2 m1 true).swap m2 m1) h10
      (by rw [hsw, if_neg h12, if_pos rfl, ha2]) (by rw [hsw, if_neg h02, if_neg (fun e => h10 e.symm), ha0])
    intro x y hx hy
    rw [hb1] at hx; cases hx
    rw [hoth2 m2 (fun e => h12 e.symm) (fun e => h02 e.symm), hsw, if_pos rfl, ha1] at hy; cases hy
    rcases hor with ⟨e1, _⟩ | ⟨e1, _⟩
    · rw [e1]; exact sw.le_of_lt hlt
    · rw [e1]; exact hle

theorem choosePivot_sem (sw : StrictWeak lt) (lo hi : Nat) (s : St K V) (h : lo + 3 ≤ hi) (hsz : hi ≤ s.keys.size) :
    ∀ x y, (choosePivot (stdLess lt) lo hi s).keys[lo]? = some x →
      (choosePivot (stdLess lt) lo hi s).keys[hi - 1]? = some y → lt y x = false := by
  unfold choosePivot
  dsimp only
  generalize hs0 : (if hi - lo > thrNinther then _ else s) = s0
  have hsz0 : s0.keys.size = s.keys.size := by
    rw [← hs0]
    split
    · rw [divNinther_eq]
      exact (((medianOfThree_steps (stdLess lt) lo hi _ _ _ _ (by omega) (by omega) (by omega)).trans
        (medianOfThree_steps (stdLess lt) lo hi _ _ _ _ (by omega) (by omega) (by omega))).trans
        (medianOfThree_steps (stdLess lt) lo hi _ _ _ _ (by omega) (by omega) (by omega))).keys_size
    · rfl
  exact medianOfThree_sem sw lo ((lo + hi) / 2) (hi - 1) s0 (by omega) (by omega) (by omega)
    (by omega) (by omega) (by omega)

/-! ### the zones of doPivot: pivot at `lo`, `(lo,b)` ≤ p, `[b,c)` equivalent to p, `[c,hi)` ≥ p -/

structure Zones (lt : K → K → Bool) (ks : Array K) (lo hi b c : Nat) (p : K) : Prop where
  piv : ks[lo]? = some p
  left : AllK ks (lo + 1) b (fun x => lt p x = false)
  mid : AllK ks b c (fun x => lt p x = false ∧ lt x p = false)
  right : AllK ks c hi (fun x => lt x p = false)

theorem partitionPhase_sem (sw : StrictWeak lt) (lo hi : Nat) (s : St K V) (h : lo + 3 ≤ hi) (hsz : hi ≤ s.keys.size) :
    ∃ p, Zones lt (partitionPhase (stdLess lt) lo hi s).2.2.2.keys lo hi (partitionPhase (stdLess lt) lo hi s).2.1
      (partitionPhase (stdLess lt) lo hi s).2.2.1 p ∧
      (partitionPhase (stdLess lt) lo hi s).2.1 = (partitionPhase (stdLess lt) lo hi s).2.2.1 := by
  unfold partitionPhase
  dsimp only
  have hcp := choosePivot_sem sw lo hi s h hsz
  have hsz1 := (choosePivot_steps (stdLess lt) lo hi s h).keys_size
  generalize choosePivot (stdLess lt) lo hi s = s1 at *
  obtain ⟨p, hp⟩ := getElem?_some_of_lt s1.keys lo (by omega)
  obtain ⟨y, hy⟩ := getElem?_some_of_lt s1.keys (hi - 1) (by omega)
  have hyp : lt y p = false := hcp p y hp hy
  have f1 := scanUpLt_fst (stdLess lt) lo (hi - 1) (lo + 1) s1
  obtain ⟨k1, z1, _⟩ := scanUpLt_spec (lt := lt) lo (hi - 1) (lo + 1) p s1 hp (by omega)
  generalize scanUpLt (stdLess lt) lo (hi - 1) (lo + 1) s1 = ra at *
  have := partLoop_sem sw lo (lo + 1) hi ra.1 (hi - 1) p ra.2 (by rw [k1]; exact hp) (by omega) (by omega) (by omega)
    (by omega) (by rw [k1]; omega)
    (by rw [k1]; exact z1.imp (fun x hx => sw.le_of_lt hx))
    (by
      rw [k1]
      intro k x hk1 hk2 hx
      have : k = hi - 1 := by omega
      subst this
      rw [hy] at hx; cases hx; exact hyp)
  obtain ⟨g1, g2, g3, g4, g5, g6⟩ := this
  refine ⟨p, ⟨g1, g5, AllK.empty (by omega), g6⟩, g2⟩

theorem dupProbe1_sem (lo hi b c : Nat) (p : K) (s : St K V) (hlb : lo < b) (hbc : b ≤ c) (hc : c + 1 < hi)
    (hsz : hi ≤ s.keys.size) (Z : Zones lt s.keys lo hi b c p) :
    Zones lt (dupProbe1 (stdLess lt) lo hi c s).2.2.keys lo hi b (dupProbe1 (stdLess lt) lo hi c s).1 p := by
  obtain ⟨y, hy⟩ := getElem?_some_of_lt s.keys (hi - 1) (by omega)
  obtain ⟨z, hz⟩ := getElem?_some_of_lt s.keys c (by omega)
  unfold dupProbe1
  dsimp only
  rw [stdLess_eq lt s lo (hi - 1) p y Z.piv hy]
  cases hr : lt p y with
  | true => simp only [Bool.not_true, Bool.false_eq_true, if_false]; exact Z
  | false =>
    simp only [Bool.not_false, if_true]
    have hsw : ∀ k, ((s.note lo (hi - 1) false).swap c (hi - 1)).keys[k]? =
        if k = c then s.keys[hi - 1]? else if k = hi - 1 then s.keys[c]? else s.keys[k]? := by
      intro k
      exact getElem?_swapIfInBounds s.keys _ _ _ (by omega) (by omega)
    have hy2 : lt y p = false := Z.right (hi - 1) y (by omega) (by omega) hy
    have hz2 : lt z p = false := Z.right c z (by omega) (by omega) hz
    constructor
    · rw [hsw, if_neg (by omega), if_neg (by omega)]; exact Z.piv
    · intro k x hk1 hk2 hx
      rw [hsw, if_neg (by omega), if_neg (by omega)] at hx
      exact Z.left k x hk1 hk2 hx
    · intro k x hk1 hk2 hx
      rw [hsw] at hx
      split at hx
      · rw [hy] at hx; cases hx; exact ⟨hr, hy2⟩
      · rw [if_neg (by omega)] at hx
        exact Z.mid k x hk1 (by omega) hx
    · intro k x hk1 hk2 hx
      rw [hsw, if_neg (by omega)] at hx
      split at hx
      · rw [hz] at hx; cases hx; exact hz2
      · exact Z.right k x (by omega) hk2 hx

theorem dupProbe2_sem (lo hi b c dups : Nat) (p : K) (s : St K V) (hlb : lo + 1 < b) (hbc : b ≤ c) (hc : c ≤ hi)
    (hsz : hi ≤ s.keys.size) (Z : Zones lt s.keys lo hi b c p) :
    Zones lt (dupProbe2 (stdLess lt) lo b dups s).2.2.keys lo hi (dupProbe2 (stdLess lt) lo b dups s).1 c p := by
  obtain ⟨y, hy⟩ := getElem?_some_of_lt s.keys (b - 1) (by omega)
  unfold dupProbe2
  dsimp only
  rw [stdLess_eq lt s (b - 1) lo y p hy Z.piv]
  cases hr : lt y p with
  | true => simp only [Bool.not_true, Bool.false_eq_true, if_false]; exact Z
  | false =>
    simp only [Bool.not_false, if_true]
    have hy2 : lt p y = false := Z.left (b - 1) y (by omega) (by omega) hy
    refine ⟨Z.piv, Z.left.mono (Nat.le_refl _) (by omega), ?_, Z.right⟩
    intro k x hk1 hk2 hx
    have hx' : s.keys[k]? = some x := hx
    by_cases hk : k = b - 1
    · subst hk; rw [hy] at hx'; cases hx'; exact ⟨hy2, hr⟩
    · exact Z.mid k x (by omega) hk2 hx'

theorem dupProbe3_sem (lo hi m b c dups : Nat) (p : K) (s : St K V) (hlb : lo + 1 < b) (hm : lo < m ∧ m < b)
    (hbc : b ≤ c) (hc : c ≤ hi) (hsz : hi ≤ s.keys.size) (Z : Zones lt s.keys lo hi b c p) :
    Zones lt (dupProbe3 (stdLess lt) lo m b dups s).2.2.keys lo hi (dupProbe3 (stdLess lt) lo m b dups s).1 c p := by
  obtain ⟨y, hy⟩ := getElem?_some_of_lt s.keys m (by omega)
  obtain ⟨z, hz⟩ := getElem?_some_of_lt s.keys (b - 1) (by omega)
  unfold dupProbe3
  dsimp only
  rw [stdLess_eq lt s m lo y p hy Z.piv]
  cases hr : lt y p with
  | true => simp only [Bool.not_true, Bool.false_eq_true, if_false]; exact Z
  | false =>
    simp only [Bool.not_false, if_true]
    have hsw : ∀ k, ((s.note m lo false).swap m (b - 1)).keys[k]? =
        if k = m then s.keys[b - 1]? else if k = b - 1 then s.keys[m]? else s.keys[k]? := by
      intro k
      exact getElem?_swapIfInBounds s.keys _ _ _ (by omega) (by omega)
    have hy2 : lt p y = false := Z.left m y (by omega) (by omega) hy
    have hz2 : lt p z = false := Z.left (b - 1) z (by omega) (by omega) hz
    constructor
    · rw [hsw, if_neg (by omega), if_neg (by omega)]; exact Z.piv
    · intro k x hk1 hk2 hx
      rw [hsw] at hx
      split at hx
      · rw [hz] at hx; cases hx; exact hz2
      · rw [if_neg (by omega)] at hx
        exact Z.left k x hk1 (by omega) hx
    · intro k x hk1 hk2 hx
      rw [hsw] at hx
      split at hx
      · rename_i hkm
        -- k = m = b-1: the swap is the identity
        have : m = b - 1 := by omega
        rw [← this, hy] at hx; cases hx; exact ⟨hy2, hr⟩
      · split at hx
        · rw [hy] at hx; cases hx; exact ⟨hy2, hr⟩
        · exact Z.mid k x (by omega) hk2 hx
    · intro k x hk1 hk2 hx
      rw [hsw, if_neg (by omega), if_neg (by omega)] at hx
      exact Z.right k x hk1 hk2 hx

theorem dupProbe_sem (lo hi m b c : Nat) (p : K) (s : St K V) (hlb : lo + 2 < b) (hm : lo < m ∧ m + 1 < b)
    (hbc : b ≤ c) (hc : c + 1 < hi) (hsz : hi ≤ s.keys.size) (Z : Zones lt s.keys lo hi b c p) :
    Zones lt (dupProbe (stdLess lt) lo hi m b c s).2.2.2.keys lo hi (dupProbe (stdLess lt) lo hi m b c s).1
      (dupProbe (stdLess lt) lo hi m b c s).2.1 p := by
  unfold dupProbe
  dsimp only
  have z1 := dupProbe1_sem lo hi b c p s (by omega) hbc hc hsz Z
  have b1 := dupProbe1_spec (stdLess lt) lo hi lo c s (by omega) (by omega)
  generalize dupProbe1 (stdLess lt) lo hi c s = p1 at *
  have hsz1 := b1.1.keys_size
  have z2 := dupProbe2_sem lo hi b p1.1 p1.2.1 p p1.2.2 (by omega) (by omega) (by omega) (by omega) z1
  have b2 := dupProbe2_spec (stdLess lt) lo hi lo b p1.2.1 p1.2.2 (by omega) (by omega)
  generalize dupProbe2 (stdLess lt) lo b p1.2.1 p1.2.2 = p2 at *
  have hsz2 := b2.1.keys_size
  exact dupProbe3_sem lo hi m p2.1 p1.1 p2.2.1 p p2.2.2 (by omega) (by omega) (by omega) (by omega) (by omega) z2

theorem dupPhase_sem (lo hi b c : Nat) (p : K) (s : St K V) (h : lo + 3 ≤ hi) (hb : lo + 1 ≤ b) (hbc : b = c)
    (_hc : c ≤ hi - 1) (hsz : hi ≤ s.keys.size) (Z : Zones lt s.keys lo hi b c p) :
    Zones lt (dupPhase (stdLess lt) lo hi b c s).2.2.2.keys lo hi (dupPhase (stdLess lt) lo hi b c s).1
      (dupPhase (stdLess lt) lo hi b c s).2.1 p := by
  unfold dupPhase
  dsimp only
  split
  · rename_i hcond
    simp only [Bool.and_eq_true, Bool.not_eq_eq_eq_not, Bool.not_true, decide_eq_false_iff_not, decide_eq_true_eq,
      thrProtect_eq, divDups_eq] at hcond
    dsimp only
    exact dupProbe_sem lo hi ((lo + hi) / 2) b c p s (by omega) (by omega) (by omega) (by omega) hsz Z
  · exact Z

/-- doPivot_func, strict weak order: the returned `(midlo, midhi)` split `[lo,hi)` into "≤ p", "equivalent to p"
    (non-empty: it contains the pivot, at `midlo`) and "≥ p". -/
theorem doPivot_sem (sw : StrictWeak lt) (lo hi : Nat) (s : St K V) (h : lo + 3 ≤ hi) (hsz : hi ≤ s.keys.size) :
    ∃ p, (doPivot (stdLess lt) lo hi s).2.2.keys[(doPivot (stdLess lt) lo hi s).1]? = some p ∧
      AllK (doPivot (stdLess lt) lo hi s).2.2.keys lo (doPivot (stdLess lt) lo hi s).1 (fun x => lt p x = false) ∧
      AllK (doPivot (stdLess lt) lo hi s).2.2.keys (doPivot (stdLess lt) lo hi s).1 (doPivot (stdLess lt) lo hi s).2.1
        (fun x => lt p x = false ∧ lt x p = false) ∧
      AllK (doPivot (stdLess lt) lo hi s).2.2.keys (doPivot (stdLess lt) lo hi s).2.1 hi (fun x => lt x p = false) ∧
      (doPivot (stdLess lt) lo hi s).1 < (doPivot (stdLess lt) lo hi s).2.1 := by
  unfold doPivot
  dsimp only
  have hp := partitionPhase_spec (stdLess lt) lo hi s h
  obtain ⟨p, zp, hbc⟩ := partitionPhase_sem sw lo hi s h hsz
  generalize partitionPhase (stdLess lt) lo hi s = pp at *
  obtain ⟨st1, p1, p2, p3, p4, p5⟩ := hp
  have hsz1 := st1.keys_size
  have hd := dupPhase_spec (stdLess lt) lo hi pp.2.1 pp.2.2.1 pp.2.2.2 h (by omega) p3 p4 p5
  have zd := dupPhase_sem lo hi pp.2.1 pp.2.2.1 p pp.2.2.2 h (by omega) hbc p3 (by omega) zp
  generalize dupPhase (stdLess lt) lo hi pp.2.1 pp.2.2.1 pp.2.2.2 = d at *
  obtain ⟨st2, d1, d2, d3, d4⟩ := hd
  have hsz2 := st2.keys_size
  -- state, b'' after the optional protect loop, with zones (b'', c'') and bounds
  obtain ⟨t, b', hb1, hb2, zt, htsz, he1, he2⟩ : ∃ (t : St K V) (b' : Nat), lo + 1 ≤ b' ∧ b' ≤ d.2.1 ∧
      Zones lt t.keys lo hi b' d.2.1 p ∧ t.keys.size = s.keys.size ∧
      (if d.2.2.1 = true then protectLoop (stdLess lt) lo pp.1 d.1 d.2.2.2 else (pp.1, d.1, d.2.2.2)).2.1 = b' ∧
      (if d.2.2.1 = true then protectLoop (stdLess lt) lo pp.1 d.1 d.2.2.2 else (pp.1, d.1, d.2.2.2)).2.2 = t := by
    split
    · have hb := protectLoop_bounds (stdLess lt) lo pp.1 d.1 d.2.2.2
      have st3 := protectLoop_steps (stdLess lt) lo d.2.1 lo pp.1 d.1 d.2.2.2 (by omega) (by omega) (by omega)
      have zs := protectLoop_sem (lt := lt) lo (lo + 1) d.2.1 pp.1 d.1 p d.2.2.2 zd.piv (by omega) (by omega) (by omega)
        (by omega) zd.left zd.mid
      generalize protectLoop (stdLess lt) lo pp.1 d.1 d.2.2.2 = pr at *
      refine ⟨pr.2.2, pr.2.1, by omega, by omega, ⟨zs.1, zs.2.1, zs.2.2, ?_⟩, by rw [st3.keys_size]; omega, rfl, rfl⟩
      exact st3.allK_disjoint (Or.inr (Nat.le_refl _)) zd.right
    · exact ⟨d.2.2.2, d.1, by omega, by omega, zd, by omega, rfl, rfl⟩
  rw [he1, he2]
  obtain ⟨z, hz⟩ := getElem?_some_of_lt t.keys (b' - 1) (by omega)
  have hsw : ∀ k, (t.swap lo (b' - 1)).keys[k]? =
      if k = lo then t.keys[b' - 1]? else if k = b' - 1 then t.keys[lo]? else t.keys[k]? := by
    intro k
    exact getElem?_swapIfInBounds t.keys _ _ _ (by omega) (by omega)
  have hpk : (t.swap lo (b' - 1)).keys[b' - 1]? = some p := by
    rw [hsw]
    split
    · rename_i e; rw [e]; exact zt.piv
    · rw [if_pos rfl]; exact zt.piv
  refine ⟨p, hpk, ?_, ?_, ?_, by omega⟩
  · intro k x hk1 hk2 hx
    rw [hsw] at hx
    split at hx
    · rw [hz] at hx; cases hx
      exact zt.left (b' - 1) z (by omega) (by omega) hz
    · rw [if_neg (by omega)] at hx
      exact zt.left k x (by omega) (by omega) hx
  · intro k x hk1 hk2 hx
    by_cases hk : k = b' - 1
    · subst hk; rw [hpk] at hx; cases hx; exact ⟨sw.irrefl _, sw.irrefl _⟩
    · rw [hsw, if_neg (by omega), if_neg hk] at hx
      exact zt.mid k x (by omega) hk2 hx
  · intro k x hk1 hk2 hx
    rw [hsw, if_neg (by omega), if_neg (by omega)] at hx
    exact zt.right k x hk1 hk2 hx

end Got.Lemmas.Sort
