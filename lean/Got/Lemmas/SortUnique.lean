import Got.Model.SortUnique
/- helper lemmas for C15_unique -/
namespace Got.Lemmas.SortUnique
open Got.Model.SortUnique

variable {α : Type} [DecidableEq α]

/-- loop invariant, stated on the list view: the kept prefix grows by the collapse of the unread suffix,
    and the backing array keeps its size -/
theorem uniqueLoop_spec (size : Nat) : ∀ (n i j : Nat) (a : Array α), n = size - i → j < i → i ≤ size → a.size = size →
    ∀ y, a[j]? = some y →
    ∃ j' a', uniqueLoop size i j a = some (j', a') ∧ a'.size = size ∧ j' < size ∧
      a'.toList.take (j' + 1) = a.toList.take (j + 1) ++ collapseFrom y (a.toList.drop i) := by
  intro n
  induction n with
  | zero =>
    intro i j a hn hj hi hs y hy
    have : i = size := by omega
    subst this
    rw [uniqueLoop, if_neg (by omega)]
    refine ⟨j, a, rfl, hs, by omega, ?_⟩
    rw [List.drop_of_length_le (by simp [hs])]
    simp [collapseFrom]
  | succ n ih =>
    intro i j a hn hj hi hs y hy
    have hlt : i < size := by omega
    have hil : i < a.toList.length := by simp [hs, hlt]
    have hxi : a[i]? = some (a[i]'(by omega)) := Array.getElem?_eq_getElem (by omega)
    have hd : a.toList.drop i = a[i]'(by omega) :: a.toList.drop (i + 1) := by
      rw [List.drop_eq_getElem_cons hil]; simp
    rw [uniqueLoop, if_pos hlt]
    simp only [hxi, hy]
    rw [hd]
    generalize a[i]'(by omega) = x at *
    by_cases hxy : x = y
    · -- same run: skip
      subst hxy
      simp only [ne_eq, not_true_eq_false, if_false, collapseFrom, if_true]
      exact ih (i + 1) j a (by omega) (by omega) (by omega) hs x hy
    · simp only [ne_eq, hxy, not_false_eq_true, if_true, collapseFrom, if_false]
      by_cases hji : j + 1 = i
      · -- adjacent: no write
        simp only [hji, not_true_eq_false, if_false]
        obtain ⟨j', a', h1, h2, h3, h4⟩ := ih (i + 1) i a (by omega) (by omega) (by omega) hs x hxi
        refine ⟨j', a', ?_, h2, h3, ?_⟩
        · rw [← hji] at h1 ⊢; exact h1
        · rw [h4, List.take_add_one, Array.getElem?_toList, hxi]; simp
      · have hlt2 : j + 1 < a.size := by omega
        simp only [hji, not_false_eq_true, if_true, hlt2]
        have hset : (a.set! (j + 1) x)[j + 1]? = some x := by
          simp [Array.set!_eq_setIfInBounds, hlt2]
        obtain ⟨j', a', h1, h2, h3, h4⟩ := ih (i + 1) (j + 1) (a.set! (j + 1) x) (by omega) (by omega) (by omega)
          (by simp [hs]) x hset
        refine ⟨j', a', h1, h2, h3, ?_⟩
        rw [h4]
        simp only [Array.set!_eq_setIfInBounds, Array.toList_setIfInBounds]
        rw [List.drop_set_of_lt (by omega), List.take_add_one, List.take_set_of_le (by omega)]
        simp [hlt2]

/-- UniqueInt / UniqueString on the model: never panics, returns the collapsed list -/
theorem unique_spec (a : Array α) :
    ∃ r b, unique a = some (r, b) ∧ r.toList = collapseRuns a.toList ∧ b.size = a.size := by
  unfold unique
  by_cases h2 : a.size < 2
  · simp only [h2, if_true]
    refine ⟨a, a, rfl, ?_, rfl⟩
    rcases a with ⟨l⟩
    match l, h2 with
    | [], _ => rfl
    | [x], _ => simp [collapseRuns, collapseFrom]
    | _ :: _ :: _, h => simp at h; omega
  · simp only [h2, if_false]
    have h0 : a[0]? = some (a[0]'(by omega)) := Array.getElem?_eq_getElem (by omega)
    obtain ⟨j', a', h1, h3, h4, h5⟩ := uniqueLoop_spec a.size (a.size - 1) 1 0 a rfl (by omega) (by omega) rfl _ h0
    simp only [h1]
    have hle : j' + 1 ≤ a'.size := by omega
    simp only [hle, if_true]
    refine ⟨_, _, rfl, ?_, h3⟩
    rw [Array.toList_extract, List.extract_eq_take_drop]
    simp only [List.drop_zero, Nat.sub_zero]
    rw [h5]
    rcases a with ⟨l⟩
    match l, h2 with
    | x :: t, _ => simp [collapseRuns]

/-! ### what `collapseRuns` is -/

theorem eraseReps_loop (a : α) (as acc : List α) :
    List.eraseRepsBy.loop (fun x y => x == y) a as acc = acc.reverse ++ a :: collapseFrom a as := by
  induction as generalizing a acc with
  | nil => simp [List.eraseRepsBy.loop, collapseFrom]
  | cons b t ih =>
    rw [List.eraseRepsBy.loop]
    by_cases h : b = a
    · subst h; simp [collapseFrom, ih]
    · have h' : (a == b) = false := by simp; exact fun e => h e.symm
      simp [h', collapseFrom, h, ih]

theorem collapseRuns_eq_eraseReps (l : List α) : collapseRuns l = l.eraseReps := by
  cases l with
  | nil => rfl
  | cons a t => simp [collapseRuns, List.eraseReps, List.eraseRepsBy, eraseReps_loop]

theorem mem_collapseFrom {last x : α} {t : List α} (h : x ∈ collapseFrom last t) : x ∈ t := by
  induction t generalizing last with
  | nil => simp [collapseFrom] at h
  | cons b t ih =>
    simp only [collapseFrom] at h
    split at h
    · exact List.mem_cons_of_mem _ (ih h)
    · rcases List.mem_cons.1 h with h | h
      · simp [h]
      · exact List.mem_cons_of_mem _ (ih h)

/-- non-decreasing input (any antisymmetric `le`) gives a strictly increasing result -/
theorem collapseFrom_strict (le : α → α → Prop) (antisymm : ∀ x y, le x y → le y x → x = y)
    (last : α) (t : List α) (h : List.Pairwise le (last :: t)) :
    List.Pairwise (fun x y => le x y ∧ x ≠ y) (last :: collapseFrom last t) := by
  induction t generalizing last with
  | nil => simp [collapseFrom]
  | cons b t ih =>
    have hb : le last b := (List.pairwise_cons.1 h).1 b (by simp)
    have htail : List.Pairwise le (b :: t) := (List.pairwise_cons.1 h).2
    simp only [collapseFrom]
    split
    · rename_i hbl
      subst hbl
      exact ih b htail
    · rename_i hbl
      refine List.pairwise_cons.2 ⟨?_, ih b htail⟩
      intro z hz
      have hzt : z ∈ b :: t := by
        rcases List.mem_cons.1 hz with hz | hz
        · simp [hz]
        · exact List.mem_cons_of_mem _ (mem_collapseFrom hz)
      have hlz : le last z := (List.pairwise_cons.1 h).1 z hzt
      refine ⟨hlz, ?_⟩
      intro hzl
      subst hzl
      rcases List.mem_cons.1 hzt with hzb | hzt'
      · exact hbl hzb.symm
      · have : le b last := (List.pairwise_cons.1 htail).1 last hzt'
        exact hbl (antisymm _ _ this hb)

/-- no two equal neighbours -/
def NoAdjEq : List α → Prop
  | x :: y :: t => x ≠ y ∧ NoAdjEq (y :: t)
  | _ => True

/-- the result has no two equal neighbours -/
theorem collapseFrom_noAdjEq (last : α) (t : List α) : NoAdjEq (last :: collapseFrom last t) := by
  induction t generalizing last with
  | nil => simp [collapseFrom, NoAdjEq]
  | cons b t ih =>
    simp only [collapseFrom]
    split
    · exact ih last
    · rename_i h
      exact ⟨fun e => h e.symm, ih b⟩

/-- the input is recovered by repeating each result element: `l` = runs of the result's elements -/
theorem collapseFrom_runs (last : α) (t : List α) :
    ∃ ns : List Nat, ns.length = (collapseFrom last t).length + 1 ∧
      last :: t = (List.zipWith (fun n x => List.replicate (n + 1) x) ns (last :: collapseFrom last t)).flatten := by
  induction t generalizing last with
  | nil => exact ⟨[0], by simp [collapseFrom]⟩
  | cons b t ih =>
    simp only [collapseFrom]
    split
    · rename_i h
      subst h
      obtain ⟨ns, h1, h2⟩ := ih b
      match ns, h1 with
      | n :: ns', h1 =>
        refine ⟨(n + 1) :: ns', by simpa using h1, ?_⟩
        simp only [List.zipWith_cons_cons, List.flatten_cons] at h2 ⊢
        rw [List.replicate_succ, List.cons_append, ← h2]
    · obtain ⟨ns, h1, h2⟩ := ih b
      refine ⟨0 :: ns, by simpa using h1, ?_⟩
      simp only [List.zipWith_cons_cons, List.flatten_cons]
      rw [← h2]; simp

end Got.Lemmas.SortUnique
