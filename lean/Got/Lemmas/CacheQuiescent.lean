import Got.Lemmas.CacheInv
/-
C06: a reachable state of the fixed code in which no client / worker / loader transition is enabled has every call
returned and every future resolved.  Core Lean only.
-/
namespace Got.Lemmas.Cache
open Got.Model.CacheCore Got.Model.Cache Got.Spec.Cache

theorem quiescent_done (cfg : Cfg) (s : State) (hfix : cfg.old = false) (hP : 1 ≤ cfg.P) (hJ : 1 ≤ cfg.J)
    (h : Inv cfg s) (hq : ¬ CanProgress cfg s) : AllReturned s ∧ AllResolved s := by
  have hno : ∀ a : Act, a.isProgress = true → step? cfg s a = none := by
    intro a ha
    cases hs : step? cfg s a with
    | none => rfl
    | some s' => exact absurd ⟨a, ha, by rw [hs]; rfl⟩ hq
  have hcl : ∀ c, clStep cfg s c = none := fun c => hno (.cl c) rfl
  -- nobody is inside Load's critical section or in sendJob under the lock
  have hnoUnlock : ∀ c sh send plan, s.cpc c ≠ .ldUnlock sh send plan := by
    intro c sh send plan hc
    have := hcl c
    cases send <;> simp [clStep, hc] at this
  have hlock : ∀ sh, s.lock sh = none := by
    intro sh
    cases hl : s.lock sh with
    | none => rfl
    | some c =>
      rcases h.l_holder sh c hl with ⟨send, plan, e⟩ | ⟨j, plan, e⟩
      · exact absurd e (hnoUnlock c sh send plan)
      · have := h.l_fixed hfix c j plan (some sh) e; cases this
  -- every worker is in its select
  have hidle : ∀ w, s.wpc w = .idle := by
    intro w
    cases hw : s.wpc w with
    | idle => rfl
    | got j => have := hno (.wStart w) rfl; simp [step?, hw] at this
    | running j => have := hno (.wEnd w ⟨none, none⟩) rfl; simp [step?, hw] at this
    | publish j r => have := hno (.wk w) rfl; simp [step?, wkStep, hw] at this
    | clearPred j => have := hno (.wk w) rfl; simp [step?, wkStep, hw] at this
    | wgDone j => have := hno (.wk w) rfl; simp [step?, wkStep, hw] at this
    | sweep i => have := hno (.wk w) rfl; simp [step?, wkStep, hw, hlock i] at this
  -- the job channel is empty
  have hchan : s.chan = [] := by
    cases hch : s.chan with
    | nil => rfl
    | cons j rest =>
      have := hno (.wTake 0) rfl
      have h0 : 0 < cfg.P := hP
      simp [step?, h0, hidle 0, hch] at this
  have hnoSend : ∀ c j plan lk, s.cpc c ≠ .ldSend j plan lk := by
    intro c j plan lk hc
    have := hcl c
    have hlen : s.chan.length < cfg.J := by rw [hchan]; exact hJ
    cases lk <;> simp [clStep, hc, hlen] at this
  -- hence every allocated future is resolved
  have hres : ∀ f, f < s.nfut → (s.fut f).done = true ∧ (s.fut f).res.isSome = true := by
    intro f hf
    have hst := h.stage f hf
    unfold StageOK at hst
    cases hl : s.jobAt f with
    | nowhere => rw [hl] at hst; exact absurd hst id
    | creator c =>
      obtain ⟨j, hj, _⟩ := h.j_creator f c hf hl
      cases hc : s.cpc c <;> simp [hc, jobOf] at hj
      · exact absurd hc (hnoUnlock c _ _ _)
      · exact absurd hc (hnoSend c _ _ _)
    | chan =>
      obtain ⟨j, hj, _⟩ := h.j_chan f hf hl
      rw [hchan] at hj; cases hj
    | worker w =>
      obtain ⟨j, hj, _⟩ := h.j_worker f w hf hl
      rw [hidle w] at hj; cases hj
    | finished => rw [hl] at hst; exact hst
  refine ⟨?_, hres⟩
  intro c
  cases hc : s.cpc c with
  | idle => exact Or.inl rfl
  | done o => exact Or.inr ⟨o, rfl⟩
  | ldStart k ld => have := hcl c; simp [clStep, hc, hlock] at this
  | ldUnlock sh send plan => exact absurd hc (hnoUnlock c sh send plan)
  | ldSend j plan lk => exact absurd hc (hnoSend c j plan lk)
  | fetch f g => have := hcl c; simp [clStep, hc] at this
  | fetchSt f p g => have := hcl c; simp [clStep, hc] at this
  | ldRet f => have := hcl c; simp [clStep, hc] at this
  | g2Start k => have := hcl c; simp [clStep, hc, hlock] at this
  | g2Status o => have := hcl c; simp [clStep, hc] at this
  | wait f =>
    have hf : f < s.nfut := h.a_pc c f (by rw [hc]; simp [pcFuts])
    have := hcl c; simp [clStep, hc, (hres f hf).1] at this
  | retNil => have := hcl c; simp [clStep, hc] at this
  | setStart k r => have := hcl c; simp [clStep, hc, hlock] at this
  | setRet => have := hcl c; simp [clStep, hc] at this

end Got.Lemmas.Cache
