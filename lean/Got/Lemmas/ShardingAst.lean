import Got.Model.Sharding
import Got.Model.MiniGo
import Got.Generated.AstLoom
import Got.Lemmas.SearchAst
/-
The MiniGo translation of loom.convertPowerOfTwo that tools/srcfacts regenerates from /repo on every run
(Got/Generated/AstLoom.lean) computes, under the interpreter of Got/Model/MiniGo.lean, what the hand-written model
`Got.Model.Sharding.convertPowerOfTwo` computes, whenever the model terminates (argument ≤ 2^62).
Positional names: `a0` = sharding, `v0` = result.
-/
namespace Got.Lemmas.ShardingAst
open Got.Model.MiniGo Got.Model.Sharding

def W : Stmt := .while (.lt (.var "v0") (.var "a0")) [.assign "v0" (.shl (.var "v0") 1)]

theorem body_shape : Got.Generated.AstLoom.convertPowerOfTwo.body =
    [.decl "v0" (.lit 1), W, .ret (.var "v0")] := rfl

theorem wrap_small {x : Int} (h0 : -9223372036854775808 ≤ x) (h1 : x < 9223372036854775808) : wrap x = x :=
  Got.Lemmas.SearchAst.wrap_of_rng (by unfold Got.Lemmas.SearchAst.Rng; omega)

theorem loop_exec (n : Int) :
    ∀ (fuel result r : Nat) (env : Env) (f : Nat),
      convertLoop n fuel result = some r → (result : Int) < 9223372036854775808 →
      env.lookup "v0" = some (result : Int) → env.lookup "a0" = some n →
      2 * fuel + 3 ≤ f →
      exec (fun _ _ => false) f [W, .ret (.var "v0")] env [] = some (.ret (r : Int) []) := by
  intro fuel
  induction fuel with
  | zero => intro result r env f h; simp [convertLoop] at h
  | succ fuel ih =>
    intro result r env f h hr hv ha hf
    obtain ⟨g, rfl⟩ : ∃ g, f = g + 3 := ⟨f - 3, by omega⟩
    unfold convertLoop at h
    split at h
    · rename_i hlt
      split at h
      · rename_i h2
        have hw : wrap ((result : Int) * 2) = ((result * 2 : Nat) : Int) := by
          rw [wrap_small (by omega) (by omega)]; omega
        have := ih (result * 2) r (("v0", ((result * 2 : Nat) : Int)) :: env) (g + 2) h (by omega)
          (by simp [List.lookup]) (by simp [List.lookup, ha]) (by omega)
        rw [← this]
        exact Got.Lemmas.SearchAst.exec_while_true (log' := []) (by simp [evalC, eval, hv, ha, hlt])
          (by simp [exec, eval, hv, hw])
      · simp at h
    · rename_i hge
      simp at h
      subst h
      rw [W, Got.Lemmas.SearchAst.exec_while_false (log' := []) (by simp [evalC, eval, hv, ha, hge])]
      simp [exec, eval, hv]

theorem convert_ast_refines (n : Int) (hn : -9223372036854775808 ≤ n ∧ n < 9223372036854775808) (r : Nat)
    (h : convertPowerOfTwo n = some r) (fuel : Nat) (hf : 140 ≤ fuel) :
    Got.Generated.AstLoom.convertPowerOfTwo.run (fun _ _ => false) fuel [n] = some (.ret (r : Int) []) := by
  unfold Fn.run
  rw [body_shape]
  obtain ⟨g, rfl⟩ : ∃ g, fuel = g + 1 := ⟨fuel - 1, by omega⟩
  have hw : wrap n = n := wrap_small hn.1 hn.2
  have := loop_exec n 64 1 r [("v0", 1), ("a0", n)] g h (by omega) (by simp [List.lookup]) (by simp [List.lookup]) (by omega)
  rw [← this]
  simp [Got.Generated.AstLoom.convertPowerOfTwo, exec, eval, hw, Got.Lemmas.SearchAst.wrap_one]

end Got.Lemmas.ShardingAst
