import Got.Lemmas.CacheInv
/-
C04: a future is resolved at most once, by the worker holding its job, with the pair the loader returned.
Core Lean only.
-/
namespace Got.Lemmas.Cache
open Got.Model.CacheCore Got.Model.Cache Got.Spec.Cache

/-- client steps never touch the result of an allocated future -/
theorem clStep_res (cfg : Cfg) (s s' : State) (c : Cid) (hs : clStep cfg s c = some s') (f : FutId) (hf : f < s.nfut) :
    (s'.fut f).res = (s.fut f).res ∧ (s'.fut f).key = (s.fut f).key := by
  have hne : f ≠ s.nfut := Nat.ne_of_lt hf
  cases hc : s.cpc c with
  | ldStart k ld =>
    simp only [clStep, hc] at hs
    split at hs
    · simp only [Option.some.injEq] at hs; subst hs
      simp only [loadCS, applyLoad]
      split <;> simp [upd, hne]
    · cases hs
  | setStart k r =>
    simp only [clStep, hc] at hs
    split at hs
    · simp only [Option.some.injEq] at hs; subst hs
      have := orphanMark_fields s.fut (s.map k) f
      simp only [setCS, upd_other _ _ _ _ hne]
      exact ⟨this.2.1, this.1⟩
    · cases hs
  | ldUnlock sh send plan =>
    simp only [clStep, hc] at hs
    cases send <;> simp only [Option.some.injEq] at hs <;> subst hs <;> exact ⟨rfl, rfl⟩
  | ldSend j plan lk =>
    simp only [clStep, hc] at hs
    split at hs
    · cases lk <;> simp only [Option.some.injEq] at hs <;> subst hs <;> exact ⟨rfl, rfl⟩
    · cases hs
  | g2Start k =>
    simp only [clStep, hc] at hs
    split at hs
    · simp only [Option.some.injEq] at hs; subst hs; exact ⟨rfl, rfl⟩
    · cases hs
  | wait f' =>
    simp only [clStep, hc] at hs
    split at hs
    · simp only [Option.some.injEq] at hs; subst hs; exact ⟨rfl, rfl⟩
    · cases hs
  | idle => simp [clStep, hc] at hs
  | done o => simp [clStep, hc] at hs
  | fetch f' g => simp only [clStep, hc, Option.some.injEq] at hs; subst hs; exact ⟨rfl, rfl⟩
  | fetchSt f' p g => simp only [clStep, hc, Option.some.injEq] at hs; subst hs; exact ⟨rfl, rfl⟩
  | ldRet f' => simp only [clStep, hc, Option.some.injEq] at hs; subst hs; exact ⟨rfl, rfl⟩
  | g2Status o => simp only [clStep, hc, Option.some.injEq] at hs; subst hs; exact ⟨rfl, rfl⟩
  | retNil => simp only [clStep, hc, Option.some.injEq] at hs; subst hs; exact ⟨rfl, rfl⟩
  | setRet => simp only [clStep, hc, Option.some.injEq] at hs; subst hs; exact ⟨rfl, rfl⟩

/-- a step changes the result of an allocated future only by the publication step of the worker holding its job -/
theorem step_res (cfg : Cfg) (s s' : State) (a : Act) (hs : step? cfg s a = some s') (f : FutId) (hf : f < s.nfut) :
    ((s'.fut f).res = (s.fut f).res ∨
      ∃ w j r, a = .wk w ∧ s.wpc w = .publish j r ∧ j.fut = f ∧ (s'.fut f).res = some r) ∧
    (s'.fut f).key = (s.fut f).key := by
  cases a with
  | cl c => have := clStep_res cfg s s' c hs f hf; exact ⟨Or.inl this.1, this.2⟩
  | wk w =>
    simp only [step?] at hs
    cases hw : s.wpc w with
    | publish j r =>
      simp only [wkStep, hw, Option.some.injEq] at hs; subst hs
      by_cases e : f = j.fut
      · subst e; exact ⟨Or.inr ⟨w, j, r, rfl, hw, rfl, by simp [setWpc]⟩, by simp [setWpc]⟩
      · exact ⟨Or.inl (by simp [setWpc, upd, e]), by simp [setWpc, upd, e]⟩
    | clearPred j =>
      simp only [wkStep, hw, Option.some.injEq] at hs; subst hs
      by_cases e : f = j.fut
      · subst e; exact ⟨Or.inl (by simp [setWpc]), by simp [setWpc]⟩
      · exact ⟨Or.inl (by simp [setWpc, upd, e]), by simp [setWpc, upd, e]⟩
    | wgDone j =>
      simp only [wkStep, hw, Option.some.injEq] at hs; subst hs
      by_cases e : f = j.fut
      · subst e; exact ⟨Or.inl (by simp [setWpc]), by simp [setWpc]⟩
      · exact ⟨Or.inl (by simp [setWpc, upd, e]), by simp [setWpc, upd, e]⟩
    | sweep i =>
      simp only [wkStep, hw] at hs
      split at hs
      · simp only [Option.some.injEq] at hs; subst hs; exact ⟨Or.inl rfl, rfl⟩
      · cases hs
    | idle => simp [wkStep, hw] at hs
    | got j => simp [wkStep, hw] at hs
    | running j => simp [wkStep, hw] at hs
  | invLoad c k ld =>
    simp only [step?] at hs; split at hs <;> simp only [Option.some.injEq, reduceCtorEq] at hs
    subst hs; exact ⟨Or.inl rfl, rfl⟩
  | invGet2 c k =>
    simp only [step?] at hs; split at hs <;> simp only [Option.some.injEq, reduceCtorEq] at hs
    subst hs; exact ⟨Or.inl rfl, rfl⟩
  | invSet c k r =>
    simp only [step?] at hs; split at hs <;> simp only [Option.some.injEq, reduceCtorEq] at hs
    subst hs; exact ⟨Or.inl rfl, rfl⟩
  | invFGet c o =>
    simp only [step?] at hs; split at hs <;> simp only [Option.some.injEq, reduceCtorEq] at hs
    subst hs; exact ⟨Or.inl rfl, rfl⟩
  | wTake w =>
    simp only [step?] at hs
    split at hs <;> (try split at hs) <;> simp only [Option.some.injEq, reduceCtorEq] at hs
    subst hs; exact ⟨Or.inl rfl, rfl⟩
  | wTick w =>
    simp only [step?] at hs
    split at hs <;> (try split at hs) <;> (try split at hs) <;> simp only [Option.some.injEq, reduceCtorEq] at hs
    subst hs; exact ⟨Or.inl rfl, rfl⟩
  | wStart w =>
    simp only [step?] at hs; split at hs <;> simp only [Option.some.injEq, reduceCtorEq] at hs
    subst hs; exact ⟨Or.inl rfl, rfl⟩
  | wEnd w r =>
    simp only [step?] at hs; split at hs <;> simp only [Option.some.injEq, reduceCtorEq] at hs
    subst hs; exact ⟨Or.inl rfl, rfl⟩
  | tick => simp only [step?, Option.some.injEq] at hs; subst hs; exact ⟨Or.inl rfl, rfl⟩
  | delay d => simp only [step?, Option.some.injEq] at hs; subst hs; exact ⟨Or.inl rfl, rfl⟩

/-- … and that publication happens only while the result is still unset (invariant): resolved at most once -/
theorem res_stable (cfg : Cfg) (s s' : State) (a : Act) (h : Inv cfg s) (hs : step? cfg s a = some s') (f : FutId)
    (hf : f < s.nfut) (r : Res) (hr : (s.fut f).res = some r) : (s'.fut f).res = some r := by
  rcases (step_res cfg s s' a hs f hf).1 with e | ⟨w, j, r', _, hw, hj, _⟩
  · rw [e]; exact hr
  · have hwj : wjob (s.wpc w) = some j := by rw [hw]; rfl
    have hst := h.stage j.fut (h.k_worker w j hwj).1
    unfold StageOK at hst; rw [h.f_worker w j hwj] at hst; simp only [hw, prePub] at hst
    rw [hj] at hst
    have := hst.2.2 trivial
    rw [this] at hr; cases hr

/-- allocation only grows -/
theorem step_nfut (cfg : Cfg) (s s' : State) (a : Act) (hs : step? cfg s a = some s') : s.nfut ≤ s'.nfut := by
  cases a with
  | cl c =>
    simp only [step?] at hs
    cases hc : s.cpc c with
    | ldStart k ld =>
      simp only [clStep, hc] at hs
      split at hs
      · simp only [Option.some.injEq] at hs; subst hs
        simp only [loadCS, applyLoad]; split <;> simp
      · cases hs
    | setStart k r =>
      simp only [clStep, hc] at hs
      split at hs
      · simp only [Option.some.injEq] at hs; subst hs; simp [setCS]
      · cases hs
    | ldUnlock sh send plan =>
      simp only [clStep, hc] at hs
      cases send <;> simp only [Option.some.injEq] at hs <;> subst hs <;> exact Nat.le_refl _
    | ldSend j plan lk =>
      simp only [clStep, hc] at hs
      split at hs
      · cases lk <;> simp only [Option.some.injEq] at hs <;> subst hs <;> exact Nat.le_refl _
      · cases hs
    | g2Start k =>
      simp only [clStep, hc] at hs
      split at hs
      · simp only [Option.some.injEq] at hs; subst hs; exact Nat.le_refl _
      · cases hs
    | wait f' =>
      simp only [clStep, hc] at hs
      split at hs
      · simp only [Option.some.injEq] at hs; subst hs; exact Nat.le_refl _
      · cases hs
    | idle => simp [clStep, hc] at hs
    | done o => simp [clStep, hc] at hs
    | fetch f' g => simp only [clStep, hc, Option.some.injEq] at hs; subst hs; exact Nat.le_refl _
    | fetchSt f' p g => simp only [clStep, hc, Option.some.injEq] at hs; subst hs; exact Nat.le_refl _
    | ldRet f' => simp only [clStep, hc, Option.some.injEq] at hs; subst hs; exact Nat.le_refl _
    | g2Status o => simp only [clStep, hc, Option.some.injEq] at hs; subst hs; exact Nat.le_refl _
    | retNil => simp only [clStep, hc, Option.some.injEq] at hs; subst hs; exact Nat.le_refl _
    | setRet => simp only [clStep, hc, Option.some.injEq] at hs; subst hs; exact Nat.le_refl _
  | wk w =>
    simp only [step?] at hs
    unfold wkStep at hs
    split at hs <;> (try split at hs) <;> simp only [Option.some.injEq, reduceCtorEq] at hs <;> subst hs <;>
      exact Nat.le_refl _
  | invLoad c k ld =>
    simp only [step?] at hs; split at hs <;> simp only [Option.some.injEq, reduceCtorEq] at hs
    subst hs; exact Nat.le_refl _
  | invGet2 c k =>
    simp only [step?] at hs; split at hs <;> simp only [Option.some.injEq, reduceCtorEq] at hs
    subst hs; exact Nat.le_refl _
  | invSet c k r =>
    simp only [step?] at hs; split at hs <;> simp only [Option.some.injEq, reduceCtorEq] at hs
    subst hs; exact Nat.le_refl _
  | invFGet c o =>
    simp only [step?] at hs; split at hs <;> simp only [Option.some.injEq, reduceCtorEq] at hs
    subst hs; exact Nat.le_refl _
  | wTake w =>
    simp only [step?] at hs
    split at hs <;> (try split at hs) <;> simp only [Option.some.injEq, reduceCtorEq] at hs
    subst hs; exact Nat.le_refl _
  | wTick w =>
    simp only [step?] at hs
    split at hs <;> (try split at hs) <;> (try split at hs) <;> simp only [Option.some.injEq, reduceCtorEq] at hs
    subst hs; exact Nat.le_refl _
  | wStart w =>
    simp only [step?] at hs; split at hs <;> simp only [Option.some.injEq, reduceCtorEq] at hs
    subst hs; exact Nat.le_refl _
  | wEnd w r =>
    simp only [step?] at hs; split at hs <;> simp only [Option.some.injEq, reduceCtorEq] at hs
    subst hs; exact Nat.le_refl _
  | tick => simp only [step?, Option.some.injEq] at hs; subst hs; exact Nat.le_refl _
  | delay d => simp only [step?, Option.some.injEq] at hs; subst hs; exact Nat.le_refl _

/-- once resolved, the result never changes along any run -/
theorem res_stable_run (cfg : Cfg) (acts : List Act) (s : State) (h : Inv cfg s) (f : FutId) (hf : f < s.nfut) (r : Res)
    (hr : (s.fut f).res = some r) : ((run cfg s acts).fut f).res = some r := by
  induction acts generalizing s with
  | nil => exact hr
  | cons a as ih =>
    simp only [run, List.foldl_cons]
    unfold step
    cases hs : step? cfg s a with
    | none => exact ih s h hf hr
    | some s' =>
      exact ih s' (inv_step cfg s s' a h hs) (Nat.lt_of_lt_of_le hf (step_nfut cfg s s' a hs))
        (res_stable cfg s s' a h hs f hf r hr)

end Got.Lemmas.Cache
