import Got.Spec.Cache
/-
Lemmas about the pure decision core of cachex (status arithmetic) and their state-level forms.
Core Lean only (no Mathlib).
-/
namespace Got.Lemmas.Cache
open Got.Model.CacheCore Got.Model.Cache Got.Spec.Cache

theorem rotFactor_eq : rotFactor = 2 := by decide
theorem tickFactor_eq : tickFactor = 4 := by decide

theorem status_unresolved (now u En Ee : Nat) (e : Bool) : status now u e En Ee false = .good := by
  simp [status]

theorem status_cases (now u En Ee : Nat) (e : Bool) :
    status now u e En Ee true =
      if now - u < expiryOf e En Ee then .good
      else if now - u < 2 * expiryOf e En Ee then .expired else .rotted := by
  simp [status, rotFactor_eq]

theorem status_ne_empty (now u En Ee : Nat) (e r : Bool) : status now u e En Ee r ≠ .empty := by
  cases r
  · simp [status]
  · rw [status_cases]; split
    · simp
    · split <;> simp

theorem status_good_iff (now u En Ee : Nat) (e : Bool) :
    status now u e En Ee true = .good ↔ now - u < expiryOf e En Ee := by
  rw [status_cases]; split
  · simp [*]
  · split <;> simp [*]

theorem status_expired_iff (now u En Ee : Nat) (e : Bool) :
    status now u e En Ee true = .expired ↔ expiryOf e En Ee ≤ now - u ∧ now - u < 2 * expiryOf e En Ee := by
  rw [status_cases]; split
  · simp; omega
  · split
    · simp; omega
    · simp; omega

theorem status_rotted_iff (now u En Ee : Nat) (e : Bool) :
    status now u e En Ee true = .rotted ↔ 2 * expiryOf e En Ee ≤ now - u := by
  rw [status_cases]; split
  · simp; omega
  · split
    · simp; omega
    · simp; omega

theorem status_rotted_resolved (now u En Ee : Nat) (e r : Bool) (h : status now u e En Ee r = .rotted) : r = true := by
  cases r
  · simp [status] at h
  · rfl

/-- rottedness is stable: time only grows -/
theorem status_rotted_mono (now now' u En Ee : Nat) (e r : Bool) (hle : now ≤ now')
    (h : status now u e En Ee r = .rotted) : status now' u e En Ee r = .rotted := by
  have hr := status_rotted_resolved _ _ _ _ _ _ h
  subst hr
  rw [status_rotted_iff] at *
  omega

/-! state-level forms -/

theorem statusAt_none (cfg : Cfg) (s : State) : statusAt cfg s none = .empty := rfl

theorem statusAt_some (cfg : Cfg) (s : State) (f : FutId) :
    statusAt cfg s (some f) =
      status s.now (s.fut f).upd ((s.fut f).res.bind (·.err)).isSome cfg.En cfg.Ee (s.fut f).res.isSome := rfl

theorem statusAt_unresolved (cfg : Cfg) (s : State) (f : FutId) (h : (s.fut f).res = none) :
    statusAt cfg s (some f) = .good := by
  simp [statusAt_some, h, status]

theorem statusAt_resolved (cfg : Cfg) (s : State) (f : FutId) (r : Res) (h : (s.fut f).res = some r) :
    statusAt cfg s (some f) = status s.now (s.fut f).upd r.err.isSome cfg.En cfg.Ee true := by
  simp [statusAt_some, h]

theorem statusAt_empty_iff (cfg : Cfg) (s : State) (o : Option FutId) : statusAt cfg s o = .empty ↔ o = none := by
  cases o with
  | none => simp [statusAt_none]
  | some f => simp [statusAt_some, status_ne_empty]

/-- statusAt depends only on the clock, the expiries and the future store -/
theorem statusAt_congr (cfg : Cfg) (s t : State) (o : Option FutId) (hn : s.now = t.now)
    (hf : ∀ f, o = some f → s.fut f = t.fut f) : statusAt cfg s o = statusAt cfg t o := by
  cases o with
  | none => rfl
  | some f => simp [statusAt_some, hn, hf f rfl]

/-- a future whose status is good or expired may be handed out -/
theorem servable_of_status (cfg : Cfg) (s : State) (f : FutId)
    (h : statusAt cfg s (some f) = .good ∨ statusAt cfg s (some f) = .expired) : Servable cfg s f := by
  intro r hr
  rw [statusAt_resolved cfg s f r hr] at h
  unfold futExpiry
  rcases h with h | h
  · rw [status_good_iff] at h; omega
  · rw [status_expired_iff] at h; omega

theorem servable_of_unresolved (cfg : Cfg) (s : State) (f : FutId) (h : (s.fut f).res = none) : Servable cfg s f := by
  intro r hr; rw [h] at hr; cases hr

theorem not_servable_of_rotted (cfg : Cfg) (s : State) (f : FutId) (h : statusAt cfg s (some f) = .rotted) :
    ¬ Servable cfg s f := by
  intro hs
  cases hres : (s.fut f).res with
  | none => rw [statusAt_unresolved cfg s f hres] at h; cases h
  | some r =>
    rw [statusAt_resolved cfg s f r hres, status_rotted_iff] at h
    have := hs r hres
    unfold futExpiry at this
    omega

end Got.Lemmas.Cache
