import Got.Model.TaskQ
/-
Invariants of the taskx.Queue model (Got.Model.TaskQ) used by Props/C09.
-/
namespace Got.Model.TaskQ

/-- per-producer order in a global sequence of messages -/
def ProdOrdered (l : List Msg) : Prop := l.Pairwise (fun a b => a.prod = b.prod → a.seq < b.seq)

/-- the task value is an allocated object -/
def TaskOk (s : State) : TaskRef → Prop
  | .cb id => id < s.nextTask
  | _ => True

structure Inv (s : State) : Prop where
  fifo : s.received ++ s.chan = s.puts
  capOk : s.chan.length ≤ s.cap
  putsOrd : ProdOrdered s.puts
  putsLt : ∀ m ∈ s.puts, m.seq < s.nextSeq m.prod
  selOk : ∀ p m, s.ppc p = .sel m → m.prod = p ∧ m.seq + 1 = s.nextSeq p ∧ (∀ a ∈ s.puts, a.prod = p → a.seq < m.seq) ∧ TaskOk s m.task
  begunOk : ∀ m ∈ s.begun, m ∈ s.puts ∨ m ∈ s.aborted ∨ s.ppc m.prod = .sel m
  openNoAbort : s.closed = false → s.aborted = []
  putsTask : ∀ m ∈ s.puts, TaskOk s m.task
  handledLt : ∀ id, s.handled id = true → id < s.nextTask
  cpcOk : match s.cpc with
    | .idle => True
    | .got t => TaskOk s t
    | .ran id r => id < s.nextTask ∧ (id, r) ∈ s.execLog
    | .stored id => id < s.nextTask ∧ (id, s.result id) ∈ s.execLog
  doneOk : ∀ id, s.done id = true → s.handled id = true ∧ (id, s.result id) ∈ s.execLog
  logLt : ∀ e ∈ s.execLog, e.1 < s.nextTask

theorem inv_init (cap : Nat) : Inv (init cap) := by
  constructor <;> simp [init, ProdOrdered]

theorem taskOk_mono {s s' : State} (h : s.nextTask ≤ s'.nextTask) {t : TaskRef} (ht : TaskOk s t) : TaskOk s' t := by
  cases t <;> simp_all [TaskOk]; omega


theorem inv_put {s s' : State} {p : Nat} (h : Inv s) (hs : step s (.put p) = some s') : Inv s' := by
  simp only [step] at hs
  split at hs <;> try contradiction
  rename_i m hm
  split at hs <;> try contradiction
  rename_i hlen
  injection hs with hs; subst hs
  have hsel := h.selOk p m hm
  constructor
  all_goals simp only []
  · rw [← h.fifo]; simp
  · simp; omega
  · unfold ProdOrdered; rw [List.pairwise_append]
    refine ⟨h.putsOrd, by simp, ?_⟩
    intro a ha b hb heq
    simp at hb; subst hb
    exact hsel.2.2.1 a ha (heq.trans hsel.1)
  · intro a ha
    simp at ha
    rcases ha with ha | ha
    · exact h.putsLt a ha
    · subst ha; have h2 := hsel.2.1; rw [hsel.1]; omega
  · intro p' m' hp'
    by_cases hpp : p' = p
    · subst hpp; simp [upd] at hp'
    · rw [upd_other _ _ _ _ hpp] at hp'
      have := h.selOk p' m' hp'
      refine ⟨this.1, this.2.1, ?_, this.2.2.2⟩
      intro a ha hap
      simp at ha
      rcases ha with ha | ha
      · exact this.2.2.1 a ha hap
      · subst ha; exact absurd (hap.symm.trans hsel.1) hpp
  · intro a ha
    rcases h.begunOk a ha with h1 | h1 | h1
    · left; simp [h1]
    · right; left; exact h1
    · by_cases hpp : a.prod = p
      · left; rw [hpp, hm] at h1; injection h1 with h1; simp [h1]
      · right; right; rw [upd_other _ _ _ _ hpp]; exact h1
  · exact h.openNoAbort
  · intro a ha; simp at ha
    rcases ha with ha | ha
    · exact h.putsTask a ha
    · subst ha; exact hsel.2.2.2
  · exact h.handledLt
  · exact h.cpcOk
  · exact h.doneOk
  · exact h.logLt

theorem inv_beginSend {s : State} {p : Nat} {t : TaskRef} (h : Inv s) (hp : s.ppc p = .idle) (ht : TaskOk s t) :
    Inv (beginSend s p t) := by
  constructor
  all_goals simp only [beginSend]
  · exact h.fifo
  · exact h.capOk
  · exact h.putsOrd
  · intro a ha
    have := h.putsLt a ha
    by_cases hap : a.prod = p
    · rw [hap, upd_same]; rw [hap] at this; omega
    · rw [upd_other _ _ _ _ hap]; exact this
  · intro p' m' hp'
    by_cases hpp : p' = p
    · subst hpp
      rw [upd_same] at hp'; injection hp' with hp'; subst hp'
      refine ⟨rfl, by simp, ?_, ht⟩
      intro a ha hap
      have := h.putsLt a ha
      rw [hap] at this; exact this
    · rw [upd_other _ _ _ _ hpp] at hp'
      rw [upd_other _ _ _ _ hpp]
      exact h.selOk p' m' hp'
  · intro a ha
    simp at ha
    rcases ha with ha | ha
    · rcases h.begunOk a ha with h1 | h1 | h1
      · left; exact h1
      · right; left; exact h1
      · right; right
        have hap : a.prod ≠ p := by
          intro hap; rw [hap, hp] at h1; cases h1
        rw [upd_other _ _ _ _ hap]; exact h1
    · right; right; subst ha; simp
  · exact h.openNoAbort
  · exact h.putsTask
  · exact h.handledLt
  · exact h.cpcOk
  · exact h.doneOk
  · exact h.logLt

/-- `&taskCallback{handler}` + `wg.Add(1)` -/
def alloc (s : State) : State :=
  { s with nextTask := s.nextTask + 1, done := upd s.done s.nextTask false, handled := upd s.handled s.nextTask false,
           result := upd s.result s.nextTask nilPair }

theorem inv_alloc {s : State} (h : Inv s) : Inv (alloc s) := by
  have hmono : s.nextTask ≤ (alloc s).nextTask := by simp [alloc]
  constructor
  all_goals simp only [alloc]
  · exact h.fifo
  · exact h.capOk
  · exact h.putsOrd
  · exact h.putsLt
  · intro p m hp
    have := h.selOk p m hp
    exact ⟨this.1, this.2.1, this.2.2.1, taskOk_mono hmono this.2.2.2⟩
  · exact h.begunOk
  · exact h.openNoAbort
  · intro m hm; exact taskOk_mono hmono (h.putsTask m hm)
  · intro id hid
    by_cases hx : id = s.nextTask
    · subst hx; simp at hid
    · rw [upd_other _ _ _ _ hx] at hid
      have := h.handledLt id hid; omega
  · have hc := h.cpcOk
    cases hcp : s.cpc with
    | idle => trivial
    | got t => rw [hcp] at hc; exact taskOk_mono hmono hc
    | ran id r => rw [hcp] at hc; exact ⟨by have := hc.1; omega, hc.2⟩
    | stored id =>
      rw [hcp] at hc
      have hne : id ≠ s.nextTask := by have := hc.1; omega
      refine ⟨by have := hc.1; omega, ?_⟩
      simp only [upd, hne, if_false]; exact hc.2
  · intro id hid
    by_cases hx : id = s.nextTask
    · subst hx; simp at hid
    · rw [upd_other _ _ _ _ hx] at hid
      rw [upd_other _ _ _ _ hx, upd_other _ _ _ _ hx]
      exact h.doneOk id hid
  · intro e he; have := h.logLt e he; omega

theorem inv_sendCallback {s s' : State} {p : Nat} {b : Bool} (h : Inv s) (hs : step s (.sendCallback p b) = some s') : Inv s' := by
  simp only [step] at hs
  split at hs <;> try contradiction
  rename_i hp
  split at hs
  · injection hs with hs; subst hs
    have h1 := inv_alloc h
    exact inv_beginSend (s := alloc s) h1 hp (by simp [TaskOk, alloc])
  · injection hs with hs; subst hs
    constructor
    all_goals simp only []
    · exact h.fifo
    · exact h.capOk
    · exact h.putsOrd
    · intro a ha
      have := h.putsLt a ha
      by_cases hap : a.prod = p
      · rw [hap, upd_same]; rw [hap] at this; omega
      · rw [upd_other _ _ _ _ hap]; exact this
    · intro p' m' hp'
      have hpp : p' ≠ p := by intro hpp; subst hpp; rw [hp] at hp'; cases hp'
      rw [upd_other _ _ _ _ hpp]
      exact h.selOk p' m' hp'
    · exact h.begunOk
    · exact h.openNoAbort
    · exact h.putsTask
    · exact h.handledLt
    · exact h.cpcOk
    · exact h.doneOk
    · exact h.logLt

theorem inv_sendTask {s s' : State} {p : Nat} {t : Option TaskRef} (h : Inv s) (hs : step s (.sendTask p t) = some s') : Inv s' := by
  simp only [step] at hs
  split at hs <;> try contradiction
  rename_i hp
  split at hs
  · injection hs with hs; subst hs
    constructor
    all_goals simp only []
    · exact h.fifo
    · exact h.capOk
    · exact h.putsOrd
    · intro a ha
      have := h.putsLt a ha
      by_cases hap : a.prod = p
      · rw [hap, upd_same]; rw [hap] at this; omega
      · rw [upd_other _ _ _ _ hap]; exact this
    · intro p' m' hp'
      have hpp : p' ≠ p := by intro hpp; subst hpp; rw [hp] at hp'; cases hp'
      rw [upd_other _ _ _ _ hpp]
      exact h.selOk p' m' hp'
    · exact h.begunOk
    · exact h.openNoAbort
    · exact h.putsTask
    · exact h.handledLt
    · exact h.cpcOk
    · exact h.doneOk
    · exact h.logLt
  · split at hs <;> try contradiction
    rename_i hid
    injection hs with hs; subst hs
    exact inv_beginSend h hp (by simpa [TaskOk] using hid)
  · rename_i t' hne
    injection hs with hs; subst hs
    refine inv_beginSend h hp ?_
    cases t' with
    | cb id => exact absurd rfl (hne id)
    | empty => trivial
    | user u => trivial

theorem inv_abort {s s' : State} {p : Nat} (h : Inv s) (hs : step s (.abort p) = some s') : Inv s' := by
  simp only [step] at hs
  split at hs <;> try contradiction
  rename_i m hm
  split at hs <;> try contradiction
  rename_i hcl
  injection hs with hs; subst hs
  constructor
  all_goals simp only []
  · exact h.fifo
  · exact h.capOk
  · exact h.putsOrd
  · exact h.putsLt
  · intro p' m' hp'
    by_cases hpp : p' = p
    · subst hpp; simp [upd] at hp'
    · rw [upd_other _ _ _ _ hpp] at hp'
      exact h.selOk p' m' hp'
  · intro a ha
    rcases h.begunOk a ha with h1 | h1 | h1
    · left; exact h1
    · right; left; simp [h1]
    · by_cases hpp : a.prod = p
      · right; left; rw [hpp, hm] at h1; injection h1 with h1; simp [h1]
      · right; right; rw [upd_other _ _ _ _ hpp]; exact h1
  · intro hc; rw [hcl] at hc; cases hc
  · exact h.putsTask
  · exact h.handledLt
  · exact h.cpcOk
  · exact h.doneOk
  · exact h.logLt

theorem inv_close {s s' : State} (h : Inv s) (hs : step s .close = some s') : Inv s' := by
  simp only [step] at hs
  injection hs with hs; subst hs
  exact { h with openNoAbort := by intro hc; cases hc }

theorem inv_recv {s s' : State} (h : Inv s) (hs : step s .recv = some s') : Inv s' := by
  simp only [step] at hs
  split at hs <;> try contradiction
  rename_i m rest hc hch
  injection hs with hs; subst hs
  have hmem : m ∈ s.puts := by rw [← h.fifo, hch]; simp
  constructor
  all_goals simp only []
  · rw [← h.fifo, hch]; simp
  · have := h.capOk; rw [hch] at this; simp at this; omega
  · exact h.putsOrd
  · exact h.putsLt
  · exact h.selOk
  · exact h.begunOk
  · exact h.openNoAbort
  · exact h.putsTask
  · exact h.handledLt
  · exact h.putsTask m hmem
  · exact h.doneOk
  · exact h.logLt

theorem inv_call {s s' : State} {r : Pair} (h : Inv s) (hs : step s (.call r) = some s') : Inv s' := by
  simp only [step] at hs
  split at hs <;> try contradiction
  rename_i id hc
  injection hs with hs; subst hs
  have hid : id < s.nextTask := by have := h.cpcOk; rw [hc] at this; exact this
  constructor
  all_goals simp only []
  · exact h.fifo
  · exact h.capOk
  · exact h.putsOrd
  · exact h.putsLt
  · exact h.selOk
  · exact h.begunOk
  · exact h.openNoAbort
  · exact h.putsTask
  · exact h.handledLt
  · exact ⟨hid, by simp⟩
  · intro x hx; have := h.doneOk x hx; exact ⟨this.1, by simp [this.2]⟩
  · intro e he; simp at he
    rcases he with he | he
    · exact h.logLt e he
    · subst he; exact hid

theorem inv_store {s s' : State} (h : Inv s) (hs : step s .store = some s') : Inv s' := by
  simp only [step] at hs
  split at hs <;> try contradiction
  rename_i id r hc
  injection hs with hs; subst hs
  have hid : id < s.nextTask ∧ (id, r) ∈ s.execLog := by have := h.cpcOk; rw [hc] at this; exact this
  constructor
  all_goals simp only []
  · exact h.fifo
  · exact h.capOk
  · exact h.putsOrd
  · exact h.putsLt
  · exact h.selOk
  · exact h.begunOk
  · exact h.openNoAbort
  · exact h.putsTask
  · exact h.handledLt
  · exact ⟨hid.1, by rw [upd_same]; exact hid.2⟩
  · intro x hx
    have := h.doneOk x hx
    refine ⟨this.1, ?_⟩
    by_cases hxi : x = id
    · subst hxi; rw [upd_same]; exact hid.2
    · rw [upd_other _ _ _ _ hxi]; exact this.2
  · exact h.logLt

theorem inv_finish {s s' : State} (h : Inv s) (hs : step s .finish = some s') : Inv s' := by
  simp only [step] at hs
  split at hs <;> try contradiction
  rename_i id hc
  have hid : id < s.nextTask ∧ (id, s.result id) ∈ s.execLog := by have := h.cpcOk; rw [hc] at this; exact this
  split at hs
  · injection hs with hs; subst hs
    exact { h with cpcOk := trivial }
  · injection hs with hs; subst hs
    constructor
    all_goals simp only []
    · exact h.fifo
    · exact h.capOk
    · exact h.putsOrd
    · exact h.putsLt
    · exact h.selOk
    · exact h.begunOk
    · exact h.openNoAbort
    · exact h.putsTask
    · intro x hx
      by_cases hxi : x = id
      · subst hxi; exact hid.1
      · rw [upd_other _ _ _ _ hxi] at hx; exact h.handledLt x hx
    · intro x hx
      by_cases hxi : x = id
      · subst hxi; exact ⟨by rw [upd_same], hid.2⟩
      · rw [upd_other _ _ _ _ hxi] at hx
        rw [upd_other _ _ _ _ hxi]
        exact h.doneOk x hx
    · exact h.logLt

theorem inv_doOther {s s' : State} (h : Inv s) (hs : step s .doOther = some s') : Inv s' := by
  simp only [step] at hs
  split at hs <;> try contradiction
  all_goals
    injection hs with hs; subst hs
    exact { h with cpcOk := trivial }

theorem inv_redo {s s' : State} {id : Nat} (h : Inv s) (hs : step s (.redo id) = some s') : Inv s' := by
  simp only [step] at hs
  split at hs <;> try contradiction
  split at hs <;> try contradiction
  rename_i hh
  injection hs with hs; subst hs
  exact { h with cpcOk := h.handledLt id hh }

theorem inv_step {s s' : State} {a : Act} (h : Inv s) (hs : step s a = some s') : Inv s' := by
  cases a with
  | sendCallback p b => exact inv_sendCallback h hs
  | sendTask p t => exact inv_sendTask h hs
  | put p => exact inv_put h hs
  | abort p => exact inv_abort h hs
  | close => exact inv_close h hs
  | recv => exact inv_recv h hs
  | call r => exact inv_call h hs
  | store => exact inv_store h hs
  | finish => exact inv_finish h hs
  | doOther => exact inv_doOther h hs
  | redo id => exact inv_redo h hs

theorem inv_stepD {s : State} {a : Act} (h : Inv s) : Inv (stepD s a) := by
  unfold stepD
  cases hs : step s a with
  | none => exact h
  | some s' => exact inv_step h hs

theorem inv_foldl (acts : List Act) {s : State} (h : Inv s) : Inv (acts.foldl stepD s) := by
  induction acts generalizing s with
  | nil => exact h
  | cons a rest ih => exact ih (inv_stepD h)

theorem inv_run (cap : Nat) (acts : List Act) : Inv (run cap acts) := inv_foldl acts (inv_init cap)

/-- closeChan stays closed -/
theorem closed_stepD {s : State} {a : Act} (h : s.closed = true) : (stepD s a).closed = true := by
  unfold stepD
  cases hs : step s a with
  | none => exact h
  | some s' =>
    cases a <;> simp only [step, beginSend] at hs <;> (repeat' split at hs) <;>
      first | contradiction | (injection hs with hs; subst hs; simp [h])

theorem closed_foldl (acts : List Act) {s : State} (h : s.closed = true) : (acts.foldl stepD s).closed = true := by
  induction acts generalizing s with
  | nil => exact h
  | cons a rest ih => exact ih (closed_stepD h)

/-- nothing is invented: whatever is in flight, delivered or aborted was begun by a Send* call -/
structure Inv2 (s : State) : Prop where
  putsBegun : ∀ m ∈ s.puts, m ∈ s.begun
  selBegun : ∀ p m, s.ppc p = .sel m → m ∈ s.begun
  abortedBegun : ∀ m ∈ s.aborted, m ∈ s.begun

theorem inv2_beginSend {s : State} {p : Nat} {t : TaskRef} (h : Inv2 s) : Inv2 (beginSend s p t) := by
  constructor
  all_goals simp only [beginSend]
  · intro m hm; simp [h.putsBegun m hm]
  · intro p' m' hp'
    by_cases hpp : p' = p
    · subst hpp; rw [upd_same] at hp'; injection hp' with hp'; subst hp'; simp
    · rw [upd_other _ _ _ _ hpp] at hp'; simp [h.selBegun p' m' hp']
  · intro m hm; simp [h.abortedBegun m hm]

theorem inv2_step {s s' : State} {a : Act} (h : Inv2 s) (hs : step s a = some s') : Inv2 s' := by
  cases a with
  | sendCallback p b =>
    simp only [step] at hs
    split at hs <;> try contradiction
    split at hs
    · injection hs with hs; subst hs
      exact inv2_beginSend (s := alloc s) ⟨h.putsBegun, h.selBegun, h.abortedBegun⟩
    · injection hs with hs; subst hs; exact ⟨h.putsBegun, h.selBegun, h.abortedBegun⟩
  | sendTask p t =>
    simp only [step] at hs
    split at hs <;> try contradiction
    split at hs
    · injection hs with hs; subst hs; exact ⟨h.putsBegun, h.selBegun, h.abortedBegun⟩
    · split at hs <;> try contradiction
      injection hs with hs; subst hs; exact inv2_beginSend h
    · injection hs with hs; subst hs; exact inv2_beginSend h
  | put p =>
    simp only [step] at hs
    split at hs <;> try contradiction
    rename_i m hm
    split at hs <;> try contradiction
    injection hs with hs; subst hs
    refine ⟨?_, ?_, h.abortedBegun⟩
    · intro a ha; simp at ha
      rcases ha with ha | ha
      · exact h.putsBegun a ha
      · subst ha; exact h.selBegun p _ hm
    · intro p' m' hp'
      simp only [] at hp'
      by_cases hpp : p' = p
      · subst hpp; simp [upd] at hp'
      · rw [upd_other _ _ _ _ hpp] at hp'; exact h.selBegun p' m' hp'
  | abort p =>
    simp only [step] at hs
    split at hs <;> try contradiction
    rename_i m hm
    split at hs <;> try contradiction
    injection hs with hs; subst hs
    refine ⟨h.putsBegun, ?_, ?_⟩
    · intro p' m' hp'
      simp only [] at hp'
      by_cases hpp : p' = p
      · subst hpp; simp [upd] at hp'
      · rw [upd_other _ _ _ _ hpp] at hp'; exact h.selBegun p' m' hp'
    · intro a ha; simp at ha
      rcases ha with ha | ha
      · exact h.abortedBegun a ha
      · subst ha; exact h.selBegun p _ hm
  | close => simp only [step] at hs; injection hs with hs; subst hs; exact ⟨h.putsBegun, h.selBegun, h.abortedBegun⟩
  | recv =>
    simp only [step] at hs
    split at hs <;> try contradiction
    injection hs with hs; subst hs; exact ⟨h.putsBegun, h.selBegun, h.abortedBegun⟩
  | call r =>
    simp only [step] at hs
    split at hs <;> try contradiction
    injection hs with hs; subst hs; exact ⟨h.putsBegun, h.selBegun, h.abortedBegun⟩
  | store =>
    simp only [step] at hs
    split at hs <;> try contradiction
    injection hs with hs; subst hs; exact ⟨h.putsBegun, h.selBegun, h.abortedBegun⟩
  | finish =>
    simp only [step] at hs
    split at hs <;> try contradiction
    split at hs <;> (injection hs with hs; subst hs; exact ⟨h.putsBegun, h.selBegun, h.abortedBegun⟩)
  | doOther =>
    simp only [step] at hs
    split at hs <;> try contradiction
    all_goals (injection hs with hs; subst hs; exact ⟨h.putsBegun, h.selBegun, h.abortedBegun⟩)
  | redo id =>
    simp only [step] at hs
    split at hs <;> try contradiction
    split at hs <;> try contradiction
    injection hs with hs; subst hs; exact ⟨h.putsBegun, h.selBegun, h.abortedBegun⟩

theorem inv2_run (cap : Nat) (acts : List Act) : Inv2 (run cap acts) := by
  unfold run
  suffices ∀ s, Inv2 s → Inv2 (acts.foldl stepD s) from this _ ⟨by simp [init], by simp [init], by simp [init]⟩
  induction acts with
  | nil => intro s h; exact h
  | cons a rest ih =>
    intro s h
    apply ih
    unfold stepD
    cases hs : step s a with
    | none => exact h
    | some s' => exact inv2_step h hs

theorem prodOrdered_nodup {l : List Msg} (h : ProdOrdered l) : l.Nodup := by
  unfold ProdOrdered at h
  exact h.imp (fun {a b} hab heq => by subst heq; exact absurd (hab rfl) (Nat.lt_irrefl _))

end Got.Model.TaskQ
