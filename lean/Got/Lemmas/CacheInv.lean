import Got.Lemmas.CacheCore
/-
The invariant `Inv` of the cachex LTS holds in every reachable state.  Core Lean only.
-/
namespace Got.Lemmas.Cache
open Got.Model.CacheCore Got.Model.Cache Got.Spec.Cache

theorem inv_init (cfg : Cfg) : Inv cfg init := by
  constructor <;> simp [init, pcFuts, jobOf, wjob, emptyFut]

/-- stage facts only depend on result / done flag of the future, its ghost location and the pcs of workers -/
theorem stageOK_congr' (s t : State) (f : FutId) (hj : t.jobAt f = s.jobAt f) (hr : (t.fut f).res = (s.fut f).res)
    (hd : (t.fut f).done = (s.fut f).done)
    (hw : ∀ w, s.jobAt f = .worker w → prePub (t.wpc w) = prePub (s.wpc w)) (h : StageOK s f) : StageOK t f := by
  unfold StageOK at *
  rw [hj, hr, hd]
  cases hl : s.jobAt f with
  | worker w => rw [hl] at h; simp only at h ⊢; rw [hw w hl]; exact h
  | _ => rw [hl] at h; exact h

theorem stageOK_congr (s t : State) (f : FutId) (hj : t.jobAt f = s.jobAt f) (hf : t.fut f = s.fut f)
    (hw : ∀ w, s.jobAt f = .worker w → prePub (t.wpc w) = prePub (s.wpc w)) (h : StageOK s f) : StageOK t f :=
  stageOK_congr' s t f hj (by rw [hf]) (by rw [hf]) hw h

theorem jobOK_congr (s t : State) (j : Job) (hn : s.nfut ≤ t.nfut) (hf : j.fut < s.nfut → t.fut j.fut = s.fut j.fut)
    (h : JobOK s j) : JobOK t j := by
  obtain ⟨h1, h2, h3⟩ := h
  exact ⟨Nat.lt_of_lt_of_le h1 hn, by rw [hf h1]; exact h2, by rw [hf h1]; exact h3⟩

/-- a worker moves on with the same job and the same publication stage (wStart, wEnd) -/
theorem inv_wpc_same (cfg : Cfg) (s : State) (w : Wid) (j : Job) (new : WPc) (hw : wjob (s.wpc w) = some j)
    (hnew : wjob new = some j) (hpre : prePub new = prePub (s.wpc w)) (h : Inv cfg s) :
    Inv cfg (setWpc s w new) := by
  have hwj : ∀ w' j', wjob (upd s.wpc w new w') = some j' → wjob (s.wpc w') = some j' := by
    intro w' j' h'
    by_cases e : w' = w
    · subst e; simp only [upd_same] at h'; rw [hnew] at h'; rw [hw]; exact h'
    · simpa [upd, e] using h'
  refine { h with k_worker := ?_, j_worker := ?_, f_worker := ?_, stage := ?_ }
  · intro w' j' h'; exact h.k_worker w' j' (hwj w' j' h')
  · intro f w' hf hl
    obtain ⟨j', hj', e⟩ := h.j_worker f w' hf hl
    by_cases e' : w' = w
    · subst e'; rw [hw] at hj'; simp only [Option.some.injEq] at hj'; subst hj'
      exact ⟨j, by simp [setWpc, hnew], e⟩
    · exact ⟨j', by simpa [setWpc, upd, e'] using hj', e⟩
  · intro w' j' h'; exact h.f_worker w' j' (hwj w' j' h')
  · intro f hf
    refine stageOK_congr s _ f rfl rfl ?_ (h.stage f hf)
    intro w' _
    by_cases e' : w' = w
    · subst e'; simp [setWpc, hpre]
    · simp [setWpc, upd, e']

/-- a client moves to a pc that carries the same job (or none as before) and refers to allocated futures only; the lock
    table may change as long as every holder's pc says so -/
theorem inv_setPcL (cfg : Cfg) (s : State) (c : Cid) (pc' : CPc) (lock' : Nat → Option Cid) (h : Inv cfg s)
    (hjob : jobOf pc' = jobOf (s.cpc c))
    (hfuts : ∀ f, f ∈ pcFuts pc' → f < s.nfut)
    (hlock : ∀ sh c', lock' sh = some c' →
      (c' = c ∧ ((∃ send plan, pc' = .ldUnlock sh send plan) ∨ (∃ j plan, pc' = .ldSend j plan (some sh)))) ∨
      (c' ≠ c ∧ s.lock sh = some c'))
    (hfixed : cfg.old = false → ∀ j plan lk, pc' = .ldSend j plan lk → lk = none)
    (hpair : ∀ f r, pc' = .done (.pair (some f) r) → f < s.nfut ∧ (s.fut f).done = true ∧ r = (s.fut f).res) :
    Inv cfg (setPc { s with lock := lock' } c pc') := by
  have hjo : ∀ c' j', jobOf (upd s.cpc c pc' c') = some j' → jobOf (s.cpc c') = some j' := by
    intro c' j' h'
    by_cases e : c' = c
    · subst e; simp only [upd_same] at h'; rw [← hjob]; exact h'
    · simpa [upd, e] using h'
  refine { h with a_pc := ?_, k_creator := ?_, j_creator := ?_, f_creator := ?_, l_holder := ?_, l_fixed := ?_, r_pair := ?_ }
  · intro c' f hf
    by_cases e : c' = c
    · subst e; simp only [setPc, upd_same] at hf; exact hfuts f hf
    · simp only [setPc, upd_other _ _ _ _ e] at hf; exact h.a_pc c' f hf
  · intro c' j' h'; exact h.k_creator c' j' (hjo c' j' h')
  · intro f c' hf hl
    obtain ⟨j', hj', e⟩ := h.j_creator f c' hf hl
    by_cases e' : c' = c
    · subst e'; exact ⟨j', by simp only [setPc, upd_same]; rw [hjob]; exact hj', e⟩
    · exact ⟨j', by simpa [setPc, upd, e'] using hj', e⟩
  · intro c' j' h'; exact h.f_creator c' j' (hjo c' j' h')
  · intro sh c' hl
    rcases hlock sh c' hl with ⟨e, hh⟩ | ⟨e, hh⟩
    · subst e; simp only [setPc, upd_same]; exact hh
    · simp only [setPc, upd_other _ _ _ _ e]; exact h.l_holder sh c' hh
  · intro hold c' j plan lk hc'
    by_cases e : c' = c
    · subst e; simp only [setPc, upd_same] at hc'; exact hfixed hold j plan lk hc'
    · simp only [setPc, upd_other _ _ _ _ e] at hc'; exact h.l_fixed hold c' j plan lk hc'
  · intro c' f r hc'
    by_cases e : c' = c
    · subst e; simp only [setPc, upd_same] at hc'; exact hpair f r hc'
    · simp only [setPc, upd_other _ _ _ _ e] at hc'; exact h.r_pair c' f r hc'

/-- … with the lock table unchanged (fetch, fetchSt, ldRet, g2Start, g2Status, wait, retNil, setRet, the invocations) -/
theorem inv_setPc (cfg : Cfg) (s : State) (c : Cid) (pc' : CPc) (h : Inv cfg s)
    (hjob : jobOf pc' = jobOf (s.cpc c))
    (hfuts : ∀ f, f ∈ pcFuts pc' → f < s.nfut)
    (hlock : ∀ sh, s.lock sh = some c →
      (∃ send plan, pc' = .ldUnlock sh send plan) ∨ (∃ j plan, pc' = .ldSend j plan (some sh)))
    (hfixed : cfg.old = false → ∀ j plan lk, pc' = .ldSend j plan lk → lk = none)
    (hpair : ∀ f r, pc' = .done (.pair (some f) r) → f < s.nfut ∧ (s.fut f).done = true ∧ r = (s.fut f).res) :
    Inv cfg (setPc s c pc') :=
  inv_setPcL cfg s c pc' s.lock h hjob hfuts
    (fun sh c' hl => by
      by_cases e : c' = c
      · subst e; exact Or.inl ⟨rfl, hlock sh hl⟩
      · exact Or.inr ⟨e, hl⟩) hfixed hpair

/-- the worker holding job j rewrites parts of the job's future (publication of the result, predecessor := nil) -/
theorem inv_wfut (cfg : Cfg) (s : State) (w : Wid) (j : Job) (new : WPc) (x : Fut) (h : Inv cfg s)
    (hw : wjob (s.wpc w) = some j) (hnew : wjob new = some j)
    (hkey : x.key = (s.fut j.fut).key) (hby : x.bySet = (s.fut j.fut).bySet) (horph : x.orphan = (s.fut j.fut).orphan)
    (hdone : x.done = (s.fut j.fut).done) (hpred : x.pred = none ∨ x.pred = (s.fut j.fut).pred)
    (hres : x.res = none ↔ prePub new = true)
    (hmono : x.res = none → (s.fut j.fut).res = none) :
    Inv cfg (setWpc { s with fut := upd s.fut j.fut x } w new) := by
  have hloc := h.f_worker w j hw
  have hwj : ∀ w' j', wjob (upd s.wpc w new w') = some j' → wjob (s.wpc w') = some j' := by
    intro w' j' h'
    by_cases e : w' = w
    · subst e; simp only [upd_same] at h'; rw [hnew] at h'; rw [hw]; exact h'
    · simpa [upd, e] using h'
  have hjok : ∀ j', JobOK s j' → JobOK (setWpc { s with fut := upd s.fut j.fut x } w new) j' := by
    intro j' ⟨h1, h2, h3⟩
    refine ⟨h1, ?_, ?_⟩
    · by_cases e : j'.fut = j.fut
      · simp only [setWpc, e, upd_same]; rw [hkey, ← e]; exact h2
      · simp only [setWpc, upd_other _ _ _ _ e]; exact h2
    · by_cases e : j'.fut = j.fut
      · simp only [setWpc, e, upd_same]; rw [hby, ← e]; exact h3
      · simp only [setWpc, upd_other _ _ _ _ e]; exact h3
  have hst := h.stage j.fut (h.k_worker w j hw).1
  unfold StageOK at hst; rw [hloc] at hst; simp only at hst
  refine { h with a_pred := ?_, k_creator := ?_, k_chan := ?_, k_worker := ?_, j_worker := ?_, f_worker := ?_,
                  stage := ?_, o_map := ?_, r_pair := ?_ }
  · intro f p hf hp
    by_cases e : f = j.fut
    · subst e; simp only [setWpc, upd_same] at hp
      rcases hpred with hp' | hp'
      · rw [hp'] at hp; cases hp
      · rw [hp'] at hp; exact h.a_pred _ p hf hp
    · simp only [setWpc, upd_other _ _ _ _ e] at hp; exact h.a_pred f p hf hp
  · intro c' j' h'; exact hjok j' (h.k_creator c' j' h')
  · intro j' h'; exact hjok j' (h.k_chan j' h')
  · intro w' j' h'; exact hjok j' (h.k_worker w' j' (hwj w' j' h'))
  · intro f w' hf hl
    obtain ⟨j', hj', e⟩ := h.j_worker f w' hf hl
    by_cases e' : w' = w
    · subst e'; rw [hw] at hj'; simp only [Option.some.injEq] at hj'; subst hj'
      exact ⟨j, by simp [setWpc, hnew], e⟩
    · exact ⟨j', by simpa [setWpc, upd, e'] using hj', e⟩
  · intro w' j' h'; exact h.f_worker w' j' (hwj w' j' h')
  · intro f hf
    by_cases e : f = j.fut
    · subst e
      unfold StageOK
      simp only [setWpc, upd_same]
      rw [hloc]; simp only [upd_same]
      exact ⟨by rw [hdone]; exact hst.1, hres⟩
    · refine stageOK_congr s _ f rfl (by simp [setWpc, upd, e]) ?_ (h.stage f hf)
      intro w' hl
      by_cases e' : w' = w
      · subst e'
        obtain ⟨j', hj', ef⟩ := h.j_worker f w' hf hl
        rw [hw] at hj'; simp only [Option.some.injEq] at hj'; subst hj'
        exact absurd ef.symm e
      · simp [setWpc, upd, e']
  · intro f hf hr ho
    by_cases e : f = j.fut
    · subst e
      simp only [setWpc, upd_same] at hr ho ⊢
      rw [hkey]; rw [horph] at ho
      exact h.o_map _ hf (hmono hr) ho
    · simp only [setWpc, upd_other _ _ _ _ e] at hr ho ⊢
      exact h.o_map f hf hr ho
  · intro c' f r hc'
    obtain ⟨h1, h2, h3⟩ := h.r_pair c' f r hc'
    have e : f ≠ j.fut := by
      intro e; subst e; rw [hst.1] at h2; cases h2
    exact ⟨h1, by simp only [setWpc, upd_other _ _ _ _ e]; exact h2, by simp only [setWpc, upd_other _ _ _ _ e]; exact h3⟩

/-- wg.Done(): the job is finished -/
theorem inv_wgDone (cfg : Cfg) (s : State) (w : Wid) (j : Job) (h : Inv cfg s) (hw : s.wpc w = .wgDone j) :
    Inv cfg (setWpc { s with fut := upd s.fut j.fut { s.fut j.fut with done := true },
                             jobAt := upd s.jobAt j.fut .finished } w .idle) := by
  have hwj' : wjob (s.wpc w) = some j := by rw [hw]; rfl
  have hloc := h.f_worker w j hwj'
  have hjf := (h.k_worker w j hwj').1
  have hst := h.stage j.fut hjf
  unfold StageOK at hst; rw [hloc] at hst; simp only [hw, prePub] at hst
  have hwj : ∀ w' j', wjob (upd s.wpc w .idle w') = some j' → w' ≠ w ∧ wjob (s.wpc w') = some j' := by
    intro w' j' h'
    by_cases e : w' = w
    · subst e; simp [wjob] at h'
    · exact ⟨e, by simpa [upd, e] using h'⟩
  have hjok : ∀ j', JobOK s j' → JobOK (setWpc { s with fut := upd s.fut j.fut { s.fut j.fut with done := true }, jobAt := upd s.jobAt j.fut .finished } w .idle) j' := by
    intro j' ⟨h1, h2, h3⟩
    refine ⟨h1, ?_, ?_⟩ <;>
    · by_cases e : j'.fut = j.fut
      · simp only [setWpc, e, upd_same]; rw [← e]; assumption
      · simp only [setWpc, upd_other _ _ _ _ e]; assumption
  refine { h with a_pred := ?_, k_creator := ?_, k_chan := ?_, k_worker := ?_, j_creator := ?_, j_chan := ?_,
                  j_worker := ?_, f_creator := ?_, f_chan := ?_, f_worker := ?_, stage := ?_, o_map := ?_, r_pair := ?_ }
  · intro f p hf hp
    by_cases e : f = j.fut
    · subst e; simp only [setWpc, upd_same] at hp; exact h.a_pred _ p hf hp
    · simp only [setWpc, upd_other _ _ _ _ e] at hp; exact h.a_pred f p hf hp
  · intro c' j' h'; exact hjok j' (h.k_creator c' j' h')
  · intro j' h'; exact hjok j' (h.k_chan j' h')
  · intro w' j' h'; exact hjok j' (h.k_worker w' j' (hwj w' j' h').2)
  · intro f c' hf hl
    by_cases e : f = j.fut
    · subst e; simp [setWpc] at hl
    · simp only [setWpc, upd_other _ _ _ _ e] at hl; exact h.j_creator f c' hf hl
  · intro f hf hl
    by_cases e : f = j.fut
    · subst e; simp [setWpc] at hl
    · simp only [setWpc, upd_other _ _ _ _ e] at hl; exact h.j_chan f hf hl
  · intro f w' hf hl
    by_cases e : f = j.fut
    · subst e; simp [setWpc] at hl
    · simp only [setWpc, upd_other _ _ _ _ e] at hl
      obtain ⟨j', hj', ef⟩ := h.j_worker f w' hf hl
      by_cases e' : w' = w
      · subst e'; rw [hwj'] at hj'; simp only [Option.some.injEq] at hj'; subst hj'; exact absurd ef.symm e
      · exact ⟨j', by simpa [setWpc, upd, e'] using hj', ef⟩
  · intro c' j' h'
    have := h.f_creator c' j' h'
    by_cases e : j'.fut = j.fut
    · rw [e, hloc] at this; cases this
    · simp only [setWpc, upd_other _ _ _ _ e]; exact this
  · intro j' h'
    have := h.f_chan j' h'
    by_cases e : j'.fut = j.fut
    · rw [e, hloc] at this; cases this
    · simp only [setWpc, upd_other _ _ _ _ e]; exact this
  · intro w' j' h'
    obtain ⟨hne, h''⟩ := hwj w' j' h'
    have := h.f_worker w' j' h''
    by_cases e : j'.fut = j.fut
    · rw [e, hloc] at this; simp only [Loc.worker.injEq] at this; exact absurd this.symm hne
    · simp only [setWpc, upd_other _ _ _ _ e]; exact this
  · intro f hf
    by_cases e : f = j.fut
    · subst e
      unfold StageOK
      simp only [setWpc, upd_same]
      have : (s.fut j.fut).res ≠ none := by
        intro hn; have := hst.2.1 hn; cases this
      exact ⟨trivial, by cases hr : (s.fut j.fut).res <;> simp_all⟩
    · refine stageOK_congr s _ f (by simp [setWpc, upd, e]) (by simp [setWpc, upd, e]) ?_ (h.stage f hf)
      intro w' hl
      by_cases e' : w' = w
      · subst e'
        obtain ⟨j', hj', ef⟩ := h.j_worker f w' hf hl
        rw [hwj'] at hj'; simp only [Option.some.injEq] at hj'; subst hj'
        exact absurd ef.symm e
      · simp [setWpc, upd, e']
  · intro f hf hr ho
    by_cases e : f = j.fut
    · subst e
      simp only [setWpc, upd_same] at hr ho ⊢
      exact h.o_map _ hf hr ho
    · simp only [setWpc, upd_other _ _ _ _ e] at hr ho ⊢
      exact h.o_map f hf hr ho
  · intro c' f r hc'
    obtain ⟨h1, h2, h3⟩ := h.r_pair c' f r hc'
    have e : f ≠ j.fut := by
      intro e; subst e; rw [hst.1] at h2; cases h2
    exact ⟨h1, by simp only [setWpc, upd_other _ _ _ _ e]; exact h2, by simp only [setWpc, upd_other _ _ _ _ e]; exact h3⟩

/-- a worker without a job moves on (tick branch, sweep of one shard); the map may lose resolved entries -/
theorem inv_wpc_nojob (cfg : Cfg) (s : State) (w : Wid) (new : WPc) (m' : Key → Option FutId) (tp : Bool) (h : Inv cfg s)
    (hw : wjob (s.wpc w) = none) (hnew : wjob new = none) (hpre : prePub new = prePub (s.wpc w))
    (hm1 : ∀ k f, m' k = some f → s.map k = some f)
    (hm2 : ∀ k f, s.map k = some f → (s.fut f).res = none → m' k = some f) :
    Inv cfg (setWpc { s with map := m', tickPending := tp } w new) := by
  have hwj : ∀ w' j', wjob (upd s.wpc w new w') = some j' → wjob (s.wpc w') = some j' := by
    intro w' j' h'
    by_cases e : w' = w
    · subst e; simp only [upd_same] at h'; rw [hnew] at h'; cases h'
    · simpa [upd, e] using h'
  refine { h with a_map := ?_, k_worker := ?_, j_worker := ?_, f_worker := ?_, stage := ?_, o_map := ?_ }
  · intro k f hk; exact h.a_map k f (hm1 k f hk)
  · intro w' j' h'; exact h.k_worker w' j' (hwj w' j' h')
  · intro f w' hf hl
    obtain ⟨j', hj', e⟩ := h.j_worker f w' hf hl
    by_cases e' : w' = w
    · subst e'; rw [hw] at hj'; cases hj'
    · exact ⟨j', by simpa [setWpc, upd, e'] using hj', e⟩
  · intro w' j' h'; exact h.f_worker w' j' (hwj w' j' h')
  · intro f hf
    refine stageOK_congr s _ f rfl rfl ?_ (h.stage f hf)
    intro w' _
    by_cases e' : w' = w
    · subst e'; simp [setWpc, hpre]
    · simp [setWpc, upd, e']
  · intro f hf hr ho
    exact hm2 _ f (h.o_map f hf hr ho) hr

/-- `case job := <-jobChan` -/
theorem inv_wTake (cfg : Cfg) (s : State) (w : Wid) (j : Job) (rest : List Job) (h : Inv cfg s)
    (hw : s.wpc w = .idle) (hch : s.chan = j :: rest) :
    Inv cfg (setWpc { s with chan := rest, jobAt := upd s.jobAt j.fut (.worker w) } w (.got j)) := by
  have hjin : j ∈ s.chan := by rw [hch]; exact List.mem_cons_self
  have hsub : ∀ j', j' ∈ rest → j' ∈ s.chan := fun j' hj' => by rw [hch]; exact List.mem_cons_of_mem _ hj'
  have hloc := h.f_chan j hjin
  have hjok := h.k_chan j hjin
  have hnd := h.f_nodup
  rw [hch, List.map_cons, List.nodup_cons] at hnd
  have hrest : ∀ j', j' ∈ rest → j'.fut ≠ j.fut := by
    intro j' hj' e
    exact hnd.1 (e ▸ List.mem_map_of_mem (f := (·.fut)) hj')
  have hwj : ∀ w' j', wjob (upd s.wpc w (.got j) w') = some j' → (w' = w ∧ j' = j) ∨ (w' ≠ w ∧ wjob (s.wpc w') = some j') := by
    intro w' j' h'
    by_cases e : w' = w
    · subst e; simp [wjob] at h'; exact Or.inl ⟨rfl, h'.symm⟩
    · exact Or.inr ⟨e, by simpa [upd, e] using h'⟩
  have hst := h.stage j.fut hjok.1
  unfold StageOK at hst; rw [hloc] at hst; simp only at hst
  refine { h with k_chan := ?_, k_worker := ?_, j_creator := ?_, j_chan := ?_, j_worker := ?_, f_creator := ?_,
                  f_chan := ?_, f_nodup := hnd.2, f_worker := ?_, stage := ?_ }
  · intro j' hj'; exact h.k_chan j' (hsub j' hj')
  · intro w' j' h'
    rcases hwj w' j' h' with ⟨_, rfl⟩ | ⟨_, h''⟩
    · exact hjok
    · exact h.k_worker w' j' h''
  · intro f c' hf hl
    by_cases e : f = j.fut
    · subst e; simp [setWpc] at hl
    · simp only [setWpc, upd_other _ _ _ _ e] at hl; exact h.j_creator f c' hf hl
  · intro f hf hl
    by_cases e : f = j.fut
    · subst e; simp [setWpc] at hl
    · simp only [setWpc, upd_other _ _ _ _ e] at hl
      obtain ⟨j', hj', ef⟩ := h.j_chan f hf hl
      rw [hch] at hj'
      cases hj' with
      | head => exact absurd ef.symm e
      | tail _ hj'' => exact ⟨j', hj'', ef⟩
  · intro f w' hf hl
    by_cases e : f = j.fut
    · subst e
      simp only [setWpc, upd_same, Loc.worker.injEq] at hl
      subst hl
      exact ⟨j, by simp [setWpc, wjob], rfl⟩
    · simp only [setWpc, upd_other _ _ _ _ e] at hl
      obtain ⟨j', hj', ef⟩ := h.j_worker f w' hf hl
      by_cases e' : w' = w
      · subst e'; rw [hw] at hj'; cases hj'
      · exact ⟨j', by simpa [setWpc, upd, e'] using hj', ef⟩
  · intro c' j' h'
    have := h.f_creator c' j' h'
    by_cases e : j'.fut = j.fut
    · rw [e, hloc] at this; cases this
    · simp only [setWpc, upd_other _ _ _ _ e]; exact this
  · intro j' hj'
    have e := hrest j' hj'
    simp only [setWpc, upd_other _ _ _ _ e]; exact h.f_chan j' (hsub j' hj')
  · intro w' j' h'
    rcases hwj w' j' h' with ⟨rfl, rfl⟩ | ⟨hne, h''⟩
    · simp [setWpc]
    · have := h.f_worker w' j' h''
      by_cases e : j'.fut = j.fut
      · rw [e, hloc] at this; cases this
      · simp only [setWpc, upd_other _ _ _ _ e]; exact this
  · intro f hf
    by_cases e : f = j.fut
    · subst e
      unfold StageOK
      simp only [setWpc, upd_same, prePub]
      exact ⟨hst.2, by simp [hst.1]⟩
    · refine stageOK_congr s _ f (by simp [setWpc, upd, e]) rfl ?_ (h.stage f hf)
      intro w' hl
      by_cases e' : w' = w
      · subst e'
        obtain ⟨j', hj', _⟩ := h.j_worker f w' hf hl
        rw [hw] at hj'; cases hj'
      · simp [setWpc, upd, e']

/-- sendJob succeeds: the job moves from its creator into the channel -/
theorem inv_send (cfg : Cfg) (s : State) (c : Cid) (j : Job) (plan : Plan) (lk : Option Nat) (pc' : CPc) (h : Inv cfg s)
    (hc : s.cpc c = .ldSend j plan lk)
    (hpc : (lk = none ∧ pc' = planPc plan) ∨ (∃ sh, lk = some sh ∧ pc' = .ldUnlock sh none plan)) :
    Inv cfg (setPc { s with chan := s.chan ++ [j], jobAt := upd s.jobAt j.fut .chan } c pc') := by
  have hjo : jobOf (s.cpc c) = some j := by rw [hc]; rfl
  have hloc := h.f_creator c j hjo
  have hjok := h.k_creator c j hjo
  have hpf : planFut plan < s.nfut := h.a_pc c _ (by rw [hc]; simp [pcFuts])
  have hjn : jobOf pc' = none := by
    rcases hpc with ⟨_, rfl⟩ | ⟨sh, _, rfl⟩
    · cases plan <;> rfl
    · rfl
  have hjo' : ∀ c' j', jobOf (upd s.cpc c pc' c') = some j' → c' ≠ c ∧ jobOf (s.cpc c') = some j' := by
    intro c' j' h'
    by_cases e : c' = c
    · subst e; simp only [upd_same] at h'; rw [hjn] at h'; cases h'
    · exact ⟨e, by simpa [upd, e] using h'⟩
  have hst := h.stage j.fut hjok.1
  unfold StageOK at hst; rw [hloc] at hst; simp only at hst
  have hmem : ∀ j', j' ∈ s.chan ++ [j] → j' ∈ s.chan ∨ j' = j := by
    intro j' hj'; simpa using hj'
  refine { h with a_pc := ?_, k_creator := ?_, k_chan := ?_, j_creator := ?_, j_chan := ?_, j_worker := ?_,
                  f_creator := ?_, f_chan := ?_, f_nodup := ?_, f_worker := ?_, stage := ?_,
                  l_holder := ?_, l_fixed := ?_, r_pair := ?_ }
  · intro c' f hf
    by_cases e : c' = c
    · subst e; simp only [setPc, upd_same] at hf
      rcases hpc with ⟨_, rfl⟩ | ⟨sh, _, rfl⟩
      · cases plan <;> simp [planPc, pcFuts] at hf <;> subst hf <;> exact hpf
      · simp [pcFuts] at hf; subst hf; exact hpf
    · simp only [setPc, upd_other _ _ _ _ e] at hf; exact h.a_pc c' f hf
  · intro c' j' h'; exact h.k_creator c' j' (hjo' c' j' h').2
  · intro j' hj'
    rcases hmem j' hj' with h' | rfl
    · exact h.k_chan j' h'
    · exact hjok
  · intro f c' hf hl
    by_cases e : f = j.fut
    · subst e; simp [setPc] at hl
    · simp only [setPc, upd_other _ _ _ _ e] at hl
      obtain ⟨j', hj', ef⟩ := h.j_creator f c' hf hl
      by_cases e' : c' = c
      · subst e'; rw [hjo] at hj'; simp only [Option.some.injEq] at hj'; subst hj'; exact absurd ef.symm e
      · exact ⟨j', by simpa [setPc, upd, e'] using hj', ef⟩
  · intro f hf hl
    by_cases e : f = j.fut
    · exact ⟨j, by simp [setPc], e.symm⟩
    · simp only [setPc, upd_other _ _ _ _ e] at hl
      obtain ⟨j', hj', ef⟩ := h.j_chan f hf hl
      exact ⟨j', by simp [setPc, hj'], ef⟩
  · intro f w' hf hl
    by_cases e : f = j.fut
    · subst e; simp [setPc] at hl
    · simp only [setPc, upd_other _ _ _ _ e] at hl; exact h.j_worker f w' hf hl
  · intro c' j' h'
    obtain ⟨hne, h''⟩ := hjo' c' j' h'
    have := h.f_creator c' j' h''
    by_cases e : j'.fut = j.fut
    · rw [e, hloc] at this; simp only [Loc.creator.injEq] at this; exact absurd this.symm hne
    · simp only [setPc, upd_other _ _ _ _ e]; exact this
  · intro j' hj'
    by_cases e : j'.fut = j.fut
    · simp [setPc, e]
    · simp only [setPc, upd_other _ _ _ _ e]
      rcases hmem j' hj' with h' | rfl
      · exact h.f_chan j' h'
      · exact absurd rfl e
  · show ((s.chan ++ [j]).map (·.fut)).Nodup
    rw [List.map_append, List.nodup_append]
    refine ⟨h.f_nodup, by simp, ?_⟩
    intro a ha b hb
    simp only [List.map_cons, List.map_nil, List.mem_singleton] at hb
    subst hb
    obtain ⟨j', hj', rfl⟩ := List.mem_map.mp ha
    intro e
    have := h.f_chan j' hj'
    rw [e, hloc] at this; cases this
  · intro w' j' h'
    have := h.f_worker w' j' h'
    by_cases e : j'.fut = j.fut
    · rw [e, hloc] at this; cases this
    · simp only [setPc, upd_other _ _ _ _ e]; exact this
  · intro f hf
    by_cases e : f = j.fut
    · subst e
      unfold StageOK
      simp only [setPc, upd_same]
      exact hst
    · exact stageOK_congr s _ f (by simp [setPc, upd, e]) rfl (fun _ _ => rfl) (h.stage f hf)
  · intro sh c' hl
    by_cases e : c' = c
    · subst e
      simp only [setPc, upd_same]
      rcases h.l_holder sh c' hl with ⟨send, plan', hh⟩ | ⟨j', plan', hh⟩
      · rw [hc] at hh; cases hh
      · rw [hc] at hh; simp only [CPc.ldSend.injEq] at hh
        obtain ⟨_, rfl, rfl⟩ := hh
        rcases hpc with ⟨hlk, _⟩ | ⟨sh', hlk, rfl⟩
        · cases hlk
        · simp only [Option.some.injEq] at hlk; subst hlk
          exact Or.inl ⟨none, plan, rfl⟩
    · simp only [setPc, upd_other _ _ _ _ e]; exact h.l_holder sh c' hl
  · intro hold c' j' plan' lk' hc'
    by_cases e : c' = c
    · subst e; simp only [setPc, upd_same] at hc'
      rcases hpc with ⟨_, rfl⟩ | ⟨sh, _, rfl⟩
      · cases plan <;> simp [planPc] at hc'
      · cases hc'
    · simp only [setPc, upd_other _ _ _ _ e] at hc'; exact h.l_fixed hold c' j' plan' lk' hc'
  · intro c' f r hc'
    by_cases e : c' = c
    · subst e; simp only [setPc, upd_same] at hc'
      rcases hpc with ⟨_, rfl⟩ | ⟨sh, _, rfl⟩
      · cases plan <;> simp [planPc] at hc'
      · cases hc'
    · simp only [setPc, upd_other _ _ _ _ e] at hc'; exact h.r_pair c' f r hc'

/-- Load's critical section creates a future: new entry of the key, job with its creator -/
theorem inv_create (cfg : Cfg) (s : State) (c : Cid) (k : Key) (ld : Nat) (pred : Option FutId) (plan : Plan) (pc' : CPc)
    (h : Inv cfg s)
    (hc : jobOf (s.cpc c) = none) (hnl : ∀ sh, s.lock sh ≠ some c)
    (hpred : pred = none ∨ pred = s.map k)
    (hplan : planFut plan = s.nfut ∨ s.map k = some (planFut plan))
    (hres : ∀ l, s.map k = some l → (s.fut l).res ≠ none)
    (hpc : (cfg.old = true ∧ pc' = .ldSend ⟨k, s.nfut, ld⟩ plan (some (cfg.shardOf k))) ∨
           pc' = .ldUnlock (cfg.shardOf k) (some ⟨k, s.nfut, ld⟩) plan) :
    Inv cfg { s with lock := upd s.lock (cfg.shardOf k) (some c), fut := upd s.fut s.nfut (newLoadFut k pred),
                     map := upd s.map k (some s.nfut), nfut := s.nfut + 1,
                     jobAt := upd s.jobAt s.nfut (.creator c), cpc := upd s.cpc c pc' } := by
  have hjob : jobOf pc' = some ⟨k, s.nfut, ld⟩ := by
    rcases hpc with ⟨_, rfl⟩ | rfl <;> rfl
  have hfuts : ∀ f, f ∈ pcFuts pc' → f = planFut plan ∨ f = s.nfut := by
    intro f hf
    rcases hpc with ⟨_, rfl⟩ | rfl <;> simpa [pcFuts] using hf
  have hpl : planFut plan < s.nfut + 1 := by
    rcases hplan with e | e
    · rw [e]; exact Nat.lt_succ_self _
    · exact Nat.lt_succ_of_lt (h.a_map k _ e)
  have hjo : ∀ c' j', jobOf (upd s.cpc c pc' c') = some j' →
      (c' = c ∧ j' = ⟨k, s.nfut, ld⟩) ∨ (c' ≠ c ∧ jobOf (s.cpc c') = some j') := by
    intro c' j' h'
    by_cases e : c' = c
    · subst e; simp only [upd_same] at h'; rw [hjob] at h'
      simp only [Option.some.injEq] at h'; exact Or.inl ⟨rfl, h'.symm⟩
    · exact Or.inr ⟨e, by simpa [upd, e] using h'⟩
  have hold : ∀ f, f < s.nfut → upd s.fut s.nfut (newLoadFut k pred) f = s.fut f := fun f hf =>
    upd_other _ _ _ _ (Nat.ne_of_lt hf)
  have holdj : ∀ f, f < s.nfut → upd s.jobAt s.nfut (.creator c) f = s.jobAt f := fun f hf =>
    upd_other _ _ _ _ (Nat.ne_of_lt hf)
  have hjok : ∀ j', JobOK s j' → JobOK { s with lock := upd s.lock (cfg.shardOf k) (some c), fut := upd s.fut s.nfut (newLoadFut k pred), map := upd s.map k (some s.nfut), nfut := s.nfut + 1, jobAt := upd s.jobAt s.nfut (.creator c), cpc := upd s.cpc c pc' } j' := by
    intro j' ⟨h1, h2, h3⟩
    exact ⟨Nat.lt_succ_of_lt h1, by simp only [hold _ h1]; exact h2, by simp only [hold _ h1]; exact h3⟩
  constructor
  · -- a_map
    intro k' f hk
    by_cases e : k' = k
    · subst e; simp only [upd_same, Option.some.injEq] at hk; subst hk; exact Nat.lt_succ_self _
    · simp only [upd_other _ _ _ _ e] at hk; exact Nat.lt_succ_of_lt (h.a_map k' f hk)
  · -- a_pc
    intro c' f hf
    by_cases e : c' = c
    · subst e; simp only [upd_same] at hf
      rcases hfuts f hf with rfl | rfl
      · exact hpl
      · exact Nat.lt_succ_self _
    · simp only [upd_other _ _ _ _ e] at hf; exact Nat.lt_succ_of_lt (h.a_pc c' f hf)
  · -- a_pred
    intro f p hf hp
    by_cases e : f = s.nfut
    · subst e; simp only [upd_same, newLoadFut] at hp
      rcases hpred with e' | e'
      · rw [e'] at hp; cases hp
      · rw [e'] at hp; exact Nat.lt_succ_of_lt (h.a_map k p hp)
    · have hf' : f < s.nfut := Nat.lt_of_le_of_ne (Nat.le_of_lt_succ hf) e
      simp only [hold f hf'] at hp; exact Nat.lt_succ_of_lt (h.a_pred f p hf' hp)
  · -- k_creator
    intro c' j' h'
    rcases hjo c' j' h' with ⟨_, rfl⟩ | ⟨_, h''⟩
    · exact ⟨Nat.lt_succ_self _, by simp [newLoadFut], by simp [newLoadFut]⟩
    · exact hjok j' (h.k_creator c' j' h'')
  · intro j' h'; exact hjok j' (h.k_chan j' h')
  · intro w' j' h'; exact hjok j' (h.k_worker w' j' h')
  · -- j_creator
    intro f c' hf hl
    by_cases e : f = s.nfut
    · subst e; simp only [upd_same, Loc.creator.injEq] at hl; subst hl
      exact ⟨⟨k, s.nfut, ld⟩, by simp only [upd_same]; exact hjob, rfl⟩
    · have hf' : f < s.nfut := Nat.lt_of_le_of_ne (Nat.le_of_lt_succ hf) e
      simp only [holdj f hf'] at hl
      obtain ⟨j', hj', ef⟩ := h.j_creator f c' hf' hl
      by_cases e' : c' = c
      · subst e'; rw [hc] at hj'; cases hj'
      · exact ⟨j', by simpa [upd, e'] using hj', ef⟩
  · -- j_chan
    intro f hf hl
    by_cases e : f = s.nfut
    · subst e; simp at hl
    · have hf' : f < s.nfut := Nat.lt_of_le_of_ne (Nat.le_of_lt_succ hf) e
      simp only [holdj f hf'] at hl; exact h.j_chan f hf' hl
  · -- j_worker
    intro f w' hf hl
    by_cases e : f = s.nfut
    · subst e; simp at hl
    · have hf' : f < s.nfut := Nat.lt_of_le_of_ne (Nat.le_of_lt_succ hf) e
      simp only [holdj f hf'] at hl; exact h.j_worker f w' hf' hl
  · -- f_creator
    intro c' j' h'
    rcases hjo c' j' h' with ⟨rfl, rfl⟩ | ⟨_, h''⟩
    · simp
    · have := (h.k_creator c' j' h'').1
      simp only [holdj _ this]; exact h.f_creator c' j' h''
  · intro j' h'
    have := (h.k_chan j' h').1
    simp only [holdj _ this]; exact h.f_chan j' h'
  · exact h.f_nodup
  · intro w' j' h'
    have := (h.k_worker w' j' h').1
    simp only [holdj _ this]; exact h.f_worker w' j' h'
  · -- stage
    intro f hf
    by_cases e : f = s.nfut
    · subst e; unfold StageOK; simp [newLoadFut]
    · have hf' : f < s.nfut := Nat.lt_of_le_of_ne (Nat.le_of_lt_succ hf) e
      exact stageOK_congr s _ f (holdj f hf') (hold f hf') (fun _ _ => rfl) (h.stage f hf')
  · -- l_holder
    intro sh c' hl
    by_cases es : sh = cfg.shardOf k
    · subst es; simp only [upd_same, Option.some.injEq] at hl; subst hl
      simp only [upd_same]
      rcases hpc with ⟨_, rfl⟩ | rfl
      · exact Or.inr ⟨_, _, rfl⟩
      · exact Or.inl ⟨_, _, rfl⟩
    · simp only [upd_other _ _ _ _ es] at hl
      by_cases e : c' = c
      · subst e; exact absurd hl (hnl sh)
      · simp only [upd_other _ _ _ _ e]; exact h.l_holder sh c' hl
  · -- l_fixed
    intro hold' c' j' plan' lk' hc'
    by_cases e : c' = c
    · subst e; simp only [upd_same] at hc'
      rcases hpc with ⟨ho, _⟩ | rfl
      · rw [hold'] at ho; cases ho
      · cases hc'
    · simp only [upd_other _ _ _ _ e] at hc'; exact h.l_fixed hold' c' j' plan' lk' hc'
  · -- o_map
    intro f hf hr ho
    by_cases e : f = s.nfut
    · subst e; simp [newLoadFut]
    · have hf' : f < s.nfut := Nat.lt_of_le_of_ne (Nat.le_of_lt_succ hf) e
      simp only [hold f hf'] at hr ho ⊢
      have := h.o_map f hf' hr ho
      by_cases ek : (s.fut f).key = k
      · rw [ek] at this; exact absurd hr (hres f this)
      · simp only [upd_other _ _ _ _ ek]; exact this
  · -- r_pair
    intro c' f r hc'
    by_cases e : c' = c
    · subst e; simp only [upd_same] at hc'
      rcases hpc with ⟨_, rfl⟩ | rfl <;> cases hc'
    · simp only [upd_other _ _ _ _ e] at hc'
      obtain ⟨h1, h2, h3⟩ := h.r_pair c' f r hc'
      exact ⟨Nat.lt_succ_of_lt h1, by simp only [hold f h1]; exact h2, by simp only [hold f h1]; exact h3⟩

theorem orphanMark_fields (fut : FutId → Fut) (o : Option FutId) (f : FutId) :
    (orphanMark fut o f).key = (fut f).key ∧ (orphanMark fut o f).res = (fut f).res ∧
    (orphanMark fut o f).pred = (fut f).pred ∧ (orphanMark fut o f).done = (fut f).done ∧
    (orphanMark fut o f).bySet = (fut f).bySet := by
  cases o with
  | none => simp [orphanMark]
  | some l =>
    simp only [orphanMark]
    by_cases hr : (fut l).res.isNone = true
    · simp only [hr, if_true]
      by_cases e : f = l
      · subst e; simp [upd]
      · simp [upd, e]
    · simp [hr]

theorem orphanMark_orphan (fut : FutId → Fut) (o : Option FutId) (f : FutId)
    (h : (orphanMark fut o f).orphan = false) : (fut f).orphan = false ∧ (o = some f → (fut f).res ≠ none) := by
  cases o with
  | none => exact ⟨h, fun e => by cases e⟩
  | some l =>
    simp only [orphanMark] at h
    by_cases hr : (fut l).res.isNone = true
    · simp only [hr, if_true] at h
      by_cases e : f = l
      · subst e; simp [upd] at h
      · simp only [upd_other _ _ _ _ e] at h
        exact ⟨h, fun e' => by simp only [Option.some.injEq] at e'; exact absurd e'.symm e⟩
    · simp only [hr] at h
      refine ⟨h, fun e' => ?_⟩
      simp only [Option.some.injEq] at e'; subst e'
      intro hn; rw [hn] at hr; simp at hr

/-- Set's critical section -/
theorem inv_set (cfg : Cfg) (s : State) (c : Cid) (k : Key) (r : Res) (h : Inv cfg s)
    (hc : jobOf (s.cpc c) = none) (hnl : ∀ sh, s.lock sh ≠ some c) : Inv cfg (setCS s c k r) := by
  have hf0 : ∀ f, f < s.nfut → (setCS s c k r).fut f = orphanMark s.fut (s.map k) f := fun f hf => by
    simp only [setCS]; exact upd_other _ _ _ _ (Nat.ne_of_lt hf)
  have holdj : ∀ f, f < s.nfut → (setCS s c k r).jobAt f = s.jobAt f := fun f hf => by
    simp only [setCS]; exact upd_other _ _ _ _ (Nat.ne_of_lt hf)
  have hnew : (setCS s c k r).fut s.nfut =
      { key := k, res := some r, upd := s.now, pred := none, done := true, bySet := true, orphan := false } := by
    simp [setCS]
  have hnf : (setCS s c k r).nfut = s.nfut + 1 := rfl
  have hjo : ∀ c' j', jobOf ((setCS s c k r).cpc c') = some j' → c' ≠ c ∧ jobOf (s.cpc c') = some j' := by
    intro c' j' h'
    by_cases e : c' = c
    · subst e; simp [setCS, jobOf] at h'
    · exact ⟨e, by simpa [setCS, upd, e] using h'⟩
  have hjok : ∀ j', JobOK s j' → JobOK (setCS s c k r) j' := by
    intro j' ⟨h1, h2, h3⟩
    have := orphanMark_fields s.fut (s.map k) j'.fut
    exact ⟨Nat.lt_succ_of_lt h1, by rw [hf0 _ h1, this.1]; exact h2, by rw [hf0 _ h1, this.2.2.2.2]; exact h3⟩
  constructor
  · intro k' f hk
    rw [hnf]
    by_cases e : k' = k
    · subst e; simp only [setCS, upd_same, Option.some.injEq] at hk; subst hk; exact Nat.lt_succ_self _
    · simp only [setCS, upd_other _ _ _ _ e] at hk; exact Nat.lt_succ_of_lt (h.a_map k' f hk)
  · intro c' f hf
    rw [hnf]
    by_cases e : c' = c
    · subst e; simp [setCS, pcFuts] at hf
    · simp only [setCS, upd_other _ _ _ _ e] at hf; exact Nat.lt_succ_of_lt (h.a_pc c' f hf)
  · intro f p hf hp
    rw [hnf] at hf ⊢
    by_cases e : f = s.nfut
    · subst e; rw [hnew] at hp; cases hp
    · have hf' : f < s.nfut := Nat.lt_of_le_of_ne (Nat.le_of_lt_succ hf) e
      rw [hf0 f hf', (orphanMark_fields s.fut (s.map k) f).2.2.1] at hp
      exact Nat.lt_succ_of_lt (h.a_pred f p hf' hp)
  · intro c' j' h'; exact hjok j' (h.k_creator c' j' (hjo c' j' h').2)
  · intro j' h'; exact hjok j' (h.k_chan j' h')
  · intro w' j' h'; exact hjok j' (h.k_worker w' j' h')
  · intro f c' hf hl
    rw [hnf] at hf
    by_cases e : f = s.nfut
    · subst e; simp [setCS] at hl
    · have hf' : f < s.nfut := Nat.lt_of_le_of_ne (Nat.le_of_lt_succ hf) e
      rw [holdj f hf'] at hl
      obtain ⟨j', hj', ef⟩ := h.j_creator f c' hf' hl
      by_cases e' : c' = c
      · subst e'; rw [hc] at hj'; cases hj'
      · exact ⟨j', by simpa [setCS, upd, e'] using hj', ef⟩
  · intro f hf hl
    rw [hnf] at hf
    by_cases e : f = s.nfut
    · subst e; simp [setCS] at hl
    · have hf' : f < s.nfut := Nat.lt_of_le_of_ne (Nat.le_of_lt_succ hf) e
      rw [holdj f hf'] at hl; exact h.j_chan f hf' hl
  · intro f w' hf hl
    rw [hnf] at hf
    by_cases e : f = s.nfut
    · subst e; simp [setCS] at hl
    · have hf' : f < s.nfut := Nat.lt_of_le_of_ne (Nat.le_of_lt_succ hf) e
      rw [holdj f hf'] at hl; exact h.j_worker f w' hf' hl
  · intro c' j' h'
    obtain ⟨_, h''⟩ := hjo c' j' h'
    rw [holdj _ (h.k_creator c' j' h'').1]; exact h.f_creator c' j' h''
  · intro j' h'
    rw [holdj _ (h.k_chan j' h').1]; exact h.f_chan j' h'
  · exact h.f_nodup
  · intro w' j' h'
    rw [holdj _ (h.k_worker w' j' h').1]; exact h.f_worker w' j' h'
  · intro f hf
    rw [hnf] at hf
    by_cases e : f = s.nfut
    · subst e; unfold StageOK; simp [setCS]
    · have hf' : f < s.nfut := Nat.lt_of_le_of_ne (Nat.le_of_lt_succ hf) e
      have := orphanMark_fields s.fut (s.map k) f
      exact stageOK_congr' s _ f (holdj f hf') (by rw [hf0 f hf', this.2.1]) (by rw [hf0 f hf', this.2.2.2.1])
        (fun _ _ => rfl) (h.stage f hf')
  · intro sh c' hl
    have hl' : s.lock sh = some c' := hl
    by_cases e : c' = c
    · subst e; exact absurd hl' (hnl sh)
    · simp only [setCS, upd_other _ _ _ _ e]; exact h.l_holder sh c' hl'
  · intro hold' c' j' plan' lk' hc'
    by_cases e : c' = c
    · subst e; simp [setCS] at hc'
    · simp only [setCS, upd_other _ _ _ _ e] at hc'; exact h.l_fixed hold' c' j' plan' lk' hc'
  · intro f hf hr ho
    rw [hnf] at hf
    by_cases e : f = s.nfut
    · subst e; rw [hnew] at hr; cases hr
    · have hf' : f < s.nfut := Nat.lt_of_le_of_ne (Nat.le_of_lt_succ hf) e
      have hfld := orphanMark_fields s.fut (s.map k) f
      rw [hf0 f hf'] at hr ho ⊢
      rw [hfld.2.1] at hr
      obtain ⟨ho', hne⟩ := orphanMark_orphan s.fut (s.map k) f ho
      have := h.o_map f hf' hr ho'
      rw [hfld.1]
      by_cases ek : (s.fut f).key = k
      · rw [ek] at this; exact absurd hr (hne this)
      · simp only [setCS, upd_other _ _ _ _ ek]; exact this
  · intro c' f r' hc'
    by_cases e : c' = c
    · subst e; simp [setCS] at hc'
    · simp only [setCS, upd_other _ _ _ _ e] at hc'
      obtain ⟨h1, h2, h3⟩ := h.r_pair c' f r' hc'
      have hfld := orphanMark_fields s.fut (s.map k) f
      exact ⟨Nat.lt_succ_of_lt h1, by rw [hf0 f h1, hfld.2.2.2.1]; exact h2, by rw [hf0 f h1, hfld.2.1]; exact h3⟩

/-- what Load's critical section decides, in the shape the invariant lemmas need -/
theorem loadOut_spec (cfg : Cfg) (s : State) (k : Key) (ld : Nat) :
    let o := loadOut cfg.old (cfg.shardOf k) (s.map k) (statusAt cfg s (s.map k)) s.nfut k ld
    (o.create = true ∧ statusAt cfg s (s.map k) ≠ .good ∧ (o.pred = none ∨ o.pred = s.map k) ∧
      ∃ plan, (planFut plan = s.nfut ∨ s.map k = some (planFut plan)) ∧
        ((cfg.old = true ∧ o.pc = .ldSend ⟨k, s.nfut, ld⟩ plan (some (cfg.shardOf k))) ∨
         o.pc = .ldUnlock (cfg.shardOf k) (some ⟨k, s.nfut, ld⟩) plan)) ∨
    (o.create = false ∧ ∃ l, s.map k = some l ∧ o.pc = .ldUnlock (cfg.shardOf k) none (.fetch l)) := by
  intro o
  cases hmap : s.map k with
  | none =>
    left
    cases hold : cfg.old <;>
      simp [o, loadOut, hmap, statusAt_none, loadDecide, hold, planFut]
  | some l =>
    cases hst : statusAt cfg s (some l) with
    | empty => exact absurd hst (by simp [statusAt_empty_iff])
    | good => right; simp [o, loadOut, hmap, hst, loadDecide]
    | expired =>
      left
      cases hold : cfg.old <;>
        simp [o, loadOut, hmap, hst, loadDecide, hold, planFut]
    | rotted =>
      left
      cases hold : cfg.old <;>
        simp [o, loadOut, hmap, hst, loadDecide, hold, planFut]

/-- a client that is neither at ldUnlock nor at ldSend holds no lock -/
theorem no_lock_of_pc (cfg : Cfg) (s : State) (c : Cid) (h : Inv cfg s)
    (h1 : ∀ sh send plan, s.cpc c ≠ .ldUnlock sh send plan) (h2 : ∀ j plan sh, s.cpc c ≠ .ldSend j plan (some sh)) :
    ∀ sh, s.lock sh ≠ some c := by
  intro sh hl
  rcases h.l_holder sh c hl with ⟨send, plan, e⟩ | ⟨j, plan, e⟩
  · exact h1 sh send plan e
  · exact h2 j plan sh e

theorem inv_clStep (cfg : Cfg) (s s' : State) (c : Cid) (h : Inv cfg s) (hs : clStep cfg s c = some s') : Inv cfg s' := by
  cases hc : s.cpc c with
  | idle => simp [clStep, hc] at hs
  | done o => simp [clStep, hc] at hs
  | ldStart k ld =>
    have hnl := no_lock_of_pc cfg s c h (by simp [hc]) (by simp [hc])
    simp only [clStep, hc] at hs
    split at hs
    · simp only [Option.some.injEq] at hs; subst hs
      rcases loadOut_spec cfg s k ld with ⟨hcr, hst, hpred, plan, hplan, hpc⟩ | ⟨hcr, l, hl, hpc⟩
      · simp only [loadCS, applyLoad, hcr, if_true]
        refine inv_create cfg s c k ld _ plan _ h (by rw [hc]; rfl) hnl hpred hplan ?_ hpc
        intro l hl hn
        apply hst
        rw [hl]; exact statusAt_unresolved cfg s l hn
      · simp only [loadCS, applyLoad, hcr]
        rw [hpc]
        refine inv_setPcL cfg s c _ (upd s.lock (cfg.shardOf k) (some c)) h (by rw [hc]; rfl) ?_ ?_ ?_ ?_
        · intro f hf; simp [pcFuts, planFut] at hf; subst hf; exact h.a_map k _ hl
        · intro sh c' hl'
          by_cases es : sh = cfg.shardOf k
          · subst es; simp only [upd_same, Option.some.injEq] at hl'; subst hl'
            exact Or.inl ⟨rfl, Or.inl ⟨_, _, rfl⟩⟩
          · simp only [upd_other _ _ _ _ es] at hl'
            by_cases e : c' = c
            · subst e; exact absurd hl' (hnl sh)
            · exact Or.inr ⟨e, hl'⟩
        · intro _ j plan lk e; cases e
        · intro f r e; cases e
    · cases hs
  | ldUnlock sh send plan =>
    simp only [clStep, hc] at hs
    have hlk : ∀ sh' c', upd s.lock sh none sh' = some c' → c' ≠ c ∧ s.lock sh' = some c' := by
      intro sh' c' hl'
      by_cases es : sh' = sh
      · subst es; simp at hl'
      · simp only [upd_other _ _ _ _ es] at hl'
        refine ⟨?_, hl'⟩
        intro e; subst e
        rcases h.l_holder sh' c' hl' with ⟨send', plan', e⟩ | ⟨j, plan', e⟩
        · rw [hc] at e; simp only [CPc.ldUnlock.injEq] at e; exact es e.1.symm
        · rw [hc] at e; cases e
    cases send with
    | some j =>
      simp only [Option.some.injEq] at hs; subst hs
      refine inv_setPcL cfg s c _ _ h (by rw [hc]; rfl) ?_ (fun sh' c' hl' => Or.inr (hlk sh' c' hl')) ?_ ?_
      · intro f hf; exact h.a_pc c f (by rw [hc]; simpa [pcFuts] using hf)
      · intro _ j' plan' lk e; simp only [CPc.ldSend.injEq] at e; exact e.2.2.symm
      · intro f r e; cases e
    | none =>
      simp only [Option.some.injEq] at hs; subst hs
      refine inv_setPcL cfg s c _ _ h (by rw [hc]; cases plan <;> rfl) ?_ (fun sh' c' hl' => Or.inr (hlk sh' c' hl')) ?_ ?_
      · intro f hf; exact h.a_pc c f (by rw [hc]; cases plan <;> simpa [pcFuts, planPc, planFut] using hf)
      · intro _ j' plan' lk e; cases plan <;> simp [planPc] at e
      · intro f r e; cases plan <;> simp [planPc] at e
  | ldSend j plan lk =>
    simp only [clStep, hc] at hs
    split at hs
    · cases lk with
      | none =>
        simp only [Option.some.injEq] at hs; subst hs
        exact inv_send cfg s c j plan none _ h hc (Or.inl ⟨rfl, rfl⟩)
      | some sh =>
        simp only [Option.some.injEq] at hs; subst hs
        exact inv_send cfg s c j plan (some sh) _ h hc (Or.inr ⟨sh, rfl, rfl⟩)
    · cases hs
  | fetch f g =>
    have hnl := no_lock_of_pc cfg s c h (by simp [hc]) (by simp [hc])
    simp only [clStep, hc, Option.some.injEq] at hs; subst hs
    have hf : f < s.nfut := h.a_pc c f (by rw [hc]; simp [pcFuts])
    refine inv_setPc cfg s c _ h (by rw [hc]; rfl) ?_ (fun sh hl => absurd hl (hnl sh)) (fun _ _ _ _ e => by cases e)
      (fun _ _ e => by cases e)
    intro f' hf'
    simp only [pcFuts, List.mem_cons, Option.mem_toList] at hf'
    rcases hf' with rfl | hp
    · exact hf
    · exact h.a_pred f f' hf hp
  | fetchSt f p g =>
    have hnl := no_lock_of_pc cfg s c h (by simp [hc]) (by simp [hc])
    simp only [clStep, hc, Option.some.injEq] at hs; subst hs
    have htgt : fetchTarget f p (statusAt cfg s p) < s.nfut := by
      have hf : f < s.nfut := h.a_pc c f (by rw [hc]; simp [pcFuts])
      unfold fetchTarget
      cases p with
      | none => exact hf
      | some q =>
        have hq : q < s.nfut := h.a_pc c q (by rw [hc]; simp [pcFuts])
        simp only; split
        · exact hq
        · exact hf
    cases g with
    | true =>
      refine inv_setPc cfg s c _ h (by rw [hc]; rfl) ?_ (fun sh hl => absurd hl (hnl sh)) (fun _ _ _ _ e => by cases e)
        (fun _ _ e => by cases e)
      intro f' hf'; simp [pcFuts] at hf'; subst hf'; exact htgt
    | false =>
      refine inv_setPc cfg s c _ h (by rw [hc]; rfl) ?_ (fun sh hl => absurd hl (hnl sh)) (fun _ _ _ _ e => by cases e)
        (fun _ _ e => by cases e)
      intro f' hf'; simp [pcFuts] at hf'; subst hf'; exact htgt
  | ldRet f =>
    have hnl := no_lock_of_pc cfg s c h (by simp [hc]) (by simp [hc])
    simp only [clStep, hc, Option.some.injEq] at hs; subst hs
    refine inv_setPc cfg s c _ h (by rw [hc]; rfl) ?_ (fun sh hl => absurd hl (hnl sh)) (fun _ _ _ _ e => by cases e)
      (fun _ _ e => by cases e)
    intro f' hf'; exact h.a_pc c f' (by rw [hc]; simpa [pcFuts] using hf')
  | g2Start k =>
    have hnl := no_lock_of_pc cfg s c h (by simp [hc]) (by simp [hc])
    simp only [clStep, hc] at hs
    split at hs
    · simp only [Option.some.injEq] at hs; subst hs
      refine inv_setPc cfg s c _ h (by rw [hc]; rfl) ?_ (fun sh hl => absurd hl (hnl sh)) (fun _ _ _ _ e => by cases e)
        (fun _ _ e => by cases e)
      intro f' hf'; simp only [pcFuts, Option.mem_toList] at hf'; exact h.a_map k f' hf'
    · cases hs
  | g2Status o =>
    have hnl := no_lock_of_pc cfg s c h (by simp [hc]) (by simp [hc])
    simp only [clStep, hc, Option.some.injEq] at hs; subst hs
    have ho : ∀ f, o = some f → f < s.nfut := fun f e => h.a_pc c f (by rw [hc]; simp [pcFuts, e])
    unfold g2Next
    split
    · rename_i f _
      refine inv_setPc cfg s c _ h (by rw [hc]; rfl) ?_ (fun sh hl => absurd hl (hnl sh)) (fun _ _ _ _ e => by cases e)
        (fun _ _ e => by cases e)
      intro f' hf'; simp [pcFuts] at hf'; subst hf'; exact ho _ rfl
    · rename_i f _
      refine inv_setPc cfg s c _ h (by rw [hc]; rfl) ?_ (fun sh hl => absurd hl (hnl sh)) (fun _ _ _ _ e => by cases e)
        (fun _ _ e => by cases e)
      intro f' hf'; simp [pcFuts] at hf'; subst hf'; exact ho _ rfl
    · refine inv_setPc cfg s c _ h (by rw [hc]; rfl) ?_ (fun sh hl => absurd hl (hnl sh)) (fun _ _ _ _ e => by cases e)
        (fun _ _ e => by cases e)
      intro f' hf'; simp [pcFuts] at hf'
  | wait f =>
    have hnl := no_lock_of_pc cfg s c h (by simp [hc]) (by simp [hc])
    simp only [clStep, hc] at hs
    split at hs
    · rename_i hd
      simp only [Option.some.injEq] at hs; subst hs
      refine inv_setPc cfg s c _ h (by rw [hc]; rfl) ?_ (fun sh hl => absurd hl (hnl sh)) (fun _ _ _ _ e => by cases e) ?_
      · intro f' hf'; simp [pcFuts] at hf'
      · intro f' r e
        simp only [CPc.done.injEq, Out.pair.injEq, Option.some.injEq] at e
        obtain ⟨rfl, rfl⟩ := e
        exact ⟨h.a_pc c _ (by rw [hc]; simp [pcFuts]), hd, rfl⟩
    · cases hs
  | retNil =>
    have hnl := no_lock_of_pc cfg s c h (by simp [hc]) (by simp [hc])
    simp only [clStep, hc, Option.some.injEq] at hs; subst hs
    refine inv_setPc cfg s c _ h (by rw [hc]; rfl) ?_ (fun sh hl => absurd hl (hnl sh)) (fun _ _ _ _ e => by cases e) ?_
    · intro f' hf'; simp [pcFuts] at hf'
    · intro f' r e; simp at e
  | setStart k r =>
    have hnl := no_lock_of_pc cfg s c h (by simp [hc]) (by simp [hc])
    simp only [clStep, hc] at hs
    split at hs
    · simp only [Option.some.injEq] at hs; subst hs
      exact inv_set cfg s c k r h (by rw [hc]; rfl) hnl
    · cases hs
  | setRet =>
    have hnl := no_lock_of_pc cfg s c h (by simp [hc]) (by simp [hc])
    simp only [clStep, hc, Option.some.injEq] at hs; subst hs
    refine inv_setPc cfg s c _ h (by rw [hc]; rfl) ?_ (fun sh hl => absurd hl (hnl sh)) (fun _ _ _ _ e => by cases e)
      (fun _ _ e => by cases e)
    intro f' hf'; simp [pcFuts] at hf'

theorem inv_wkStep (cfg : Cfg) (s s' : State) (w : Wid) (h : Inv cfg s) (hs : wkStep cfg s w = some s') : Inv cfg s' := by
  cases hw : s.wpc w with
  | idle => simp [wkStep, hw] at hs
  | got j => simp [wkStep, hw] at hs
  | running j => simp [wkStep, hw] at hs
  | publish j r =>
    simp only [wkStep, hw, Option.some.injEq] at hs; subst hs
    exact inv_wfut cfg s w j (.clearPred j) _ h (by rw [hw]; rfl) rfl rfl rfl rfl rfl (Or.inr rfl)
      (by simp [prePub]) (by intro e; cases e)
  | clearPred j =>
    simp only [wkStep, hw, Option.some.injEq] at hs; subst hs
    have hwj : wjob (s.wpc w) = some j := by rw [hw]; rfl
    have hst := h.stage j.fut (h.k_worker w j hwj).1
    unfold StageOK at hst; rw [h.f_worker w j hwj] at hst; simp only [hw, prePub] at hst
    have hne : (s.fut j.fut).res ≠ none := fun e => by have := hst.2.1 e; cases this
    exact inv_wfut cfg s w j (.wgDone j) _ h hwj rfl rfl rfl rfl rfl (Or.inl rfl)
      (by simp [prePub, hne]) (fun e => e)
  | wgDone j =>
    simp only [wkStep, hw, Option.some.injEq] at hs; subst hs
    exact inv_wgDone cfg s w j h hw
  | sweep i =>
    simp only [wkStep, hw] at hs
    split at hs
    · simp only [Option.some.injEq] at hs; subst hs
      refine inv_wpc_nojob cfg s w _ (sweepShard cfg s i) s.tickPending h (by rw [hw]; rfl) ?_ ?_ ?_ ?_
      · split <;> rfl
      · rw [hw]; split <;> rfl
      · intro k f hk
        unfold sweepShard at hk
        split at hk
        · cases hk
        · exact hk
      · intro k f hk hr
        unfold sweepShard
        have : statusAt cfg s (some f) = .good := statusAt_unresolved cfg s f hr
        simp [this, sweepRemoves, hk]
    · cases hs

/-- the invariant is preserved by every enabled action -/
theorem inv_step (cfg : Cfg) (s s' : State) (a : Act) (h : Inv cfg s) (hs : step? cfg s a = some s') : Inv cfg s' := by
  have idleNoLock : ∀ c, s.cpc c = .idle → ∀ sh, s.lock sh ≠ some c := fun c hc =>
    no_lock_of_pc cfg s c h (by simp [hc]) (by simp [hc])
  cases a with
  | cl c => exact inv_clStep cfg s s' c h hs
  | wk w => exact inv_wkStep cfg s s' w h hs
  | invLoad c k ld =>
    simp only [step?] at hs
    split at hs
    · rename_i hc
      simp only [Option.some.injEq] at hs; subst hs
      exact inv_setPc cfg s c _ h (by rw [hc]; rfl) (by simp [pcFuts]) (fun sh hl => absurd hl (idleNoLock c hc sh))
        (fun _ _ _ _ e => by cases e) (fun _ _ e => by cases e)
    · cases hs
  | invGet2 c k =>
    simp only [step?] at hs
    split at hs
    · rename_i hc
      simp only [Option.some.injEq] at hs; subst hs
      exact inv_setPc cfg s c _ h (by rw [hc]; rfl) (by simp [pcFuts]) (fun sh hl => absurd hl (idleNoLock c hc sh))
        (fun _ _ _ _ e => by cases e) (fun _ _ e => by cases e)
    · cases hs
  | invSet c k r =>
    simp only [step?] at hs
    split at hs
    · rename_i hc
      simp only [Option.some.injEq] at hs; subst hs
      exact inv_setPc cfg s c _ h (by rw [hc]; rfl) (by simp [pcFuts]) (fun sh hl => absurd hl (idleNoLock c hc sh))
        (fun _ _ _ _ e => by cases e) (fun _ _ e => by cases e)
    · cases hs
  | invFGet c o =>
    simp only [step?] at hs
    split at hs
    · rename_i f hc ho
      simp only [Option.some.injEq] at hs; subst hs
      refine inv_setPc cfg s c _ h (by rw [hc]; rfl) ?_ (fun sh hl => absurd hl (idleNoLock c hc sh))
        (fun _ _ _ _ e => by cases e) (fun _ _ e => by cases e)
      intro f' hf'; simp [pcFuts] at hf'; subst hf'
      exact h.a_pc o _ (by rw [ho]; simp [pcFuts])
    · cases hs
  | wTake w =>
    simp only [step?] at hs
    split at hs
    · split at hs
      · rename_i j rest hw hch
        simp only [Option.some.injEq] at hs; subst hs
        exact inv_wTake cfg s w j rest h hw hch
      · cases hs
    · cases hs
  | wTick w =>
    simp only [step?] at hs
    split at hs
    · split at hs
      · rename_i hw
        split at hs
        · simp only [Option.some.injEq] at hs; subst hs
          exact inv_wpc_nojob cfg s w (.sweep 0) s.map false h (by rw [hw]; rfl) rfl (by rw [hw]; rfl)
            (fun _ _ e => e) (fun _ _ e _ => e)
        · cases hs
      · cases hs
    · cases hs
  | wStart w =>
    simp only [step?] at hs
    split at hs
    · rename_i j hw
      simp only [Option.some.injEq] at hs; subst hs
      exact inv_wpc_same cfg s w j _ (by rw [hw]; rfl) rfl (by rw [hw]; rfl) h
    · cases hs
  | wEnd w r =>
    simp only [step?] at hs
    split at hs
    · rename_i j hw
      simp only [Option.some.injEq] at hs; subst hs
      exact inv_wpc_same cfg s w j _ (by rw [hw]; rfl) rfl (by rw [hw]; rfl) h
    · cases hs
  | tick =>
    simp only [step?, Option.some.injEq] at hs; subst hs
    cases h; constructor <;> assumption
  | delay d =>
    simp only [step?, Option.some.injEq] at hs; subst hs
    cases h; constructor <;> assumption

theorem inv_run (cfg : Cfg) (acts : List Act) (s : State) (h : Inv cfg s) : Inv cfg (run cfg s acts) := by
  induction acts generalizing s with
  | nil => exact h
  | cons a as ih =>
    simp only [run, List.foldl_cons]
    apply ih
    unfold step
    cases hs : step? cfg s a with
    | none => exact h
    | some s' => exact inv_step cfg s s' a h hs

/-- every reachable state satisfies the invariant -/
theorem inv_reachable (cfg : Cfg) (s : State) (h : Reachable cfg s) : Inv cfg s := by
  obtain ⟨acts, rfl⟩ := h
  exact inv_run cfg acts init (inv_init cfg)

end Got.Lemmas.Cache
