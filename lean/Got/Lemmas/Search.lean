import Got.Model.Search
/-
Helper lemmas for C14 (sortx.Search): loop invariants of the bisection loop.
-/
namespace Got.Lemmas.Search
open Got.Model.Search

def isLess : Probe → Bool
  | .less _ => true
  | .equal _ => false

def idx : Probe → Int
  | .less k => k
  | .equal k => k

def countLess (l : List Probe) : Nat := (l.filter isLess).length

theorem countLess_single (k : Int) : countLess [Probe.less k] = 1 := by
  simp [countLess, List.filter, isLess]

theorem countLess_append (a b : List Probe) : countLess (a ++ b) = countLess a + countLess b := by
  simp [countLess, List.filter_append]

/-- The loop started with `i < j` terminates (never reaches the `none` branch). -/
theorem loop_isSome (less : Int → Bool) (i j : Int) (log : List Probe) (h : i < j) :
    (loop less i j log).isSome := by
  fun_induction loop less i j log with
  | case1 => simp
  | case2 i j log hne hlt mid hl ih => exact ih (by omega)
  | case3 i j log hne hlt mid hl ih => exact ih (by omega)
  | case4 i j log hne hnlt => omega

/-- Range invariant: with `lo ≤ i < j ≤ hi`, the final `j` stays in `(lo, hi]`, and every new probe is
    strictly between `lo` and `hi`. -/
theorem loop_range (less : Int → Bool) (i j : Int) (log : List Probe) (lo hi : Int)
    (hi1 : lo ≤ i) (hij : i < j) (hj : j ≤ hi)
    (hlog : ∀ p ∈ log, lo < idx p ∧ idx p < hi)
    (r : Int) (log' : List Probe) (hr : loop less i j log = some (r, log')) :
    lo < r ∧ r ≤ hi ∧ (∀ p ∈ log', lo < idx p ∧ idx p < hi) := by
  fun_induction loop less i j log with
  | case1 =>
    simp at hr; obtain ⟨rfl, rfl⟩ := hr
    exact ⟨by omega, hj, hlog⟩
  | case2 i j log hne hlt mid hl ih =>
    apply ih (by omega) (by omega) hj _ hr
    intro p hp
    rcases List.mem_append.mp hp with h | h
    · exact hlog p h
    · simp at h; subst h; simp only [idx]; omega
  | case3 i j log hne hlt mid hl ih =>
    apply ih hi1 (by omega) (by omega) _ hr
    intro p hp
    rcases List.mem_append.mp hp with h | h
    · exact hlog p h
    · simp at h; subst h; simp only [idx]; omega
  | case4 i j log hne hnlt => simp at hr

/-- Only `less` probes are appended by the loop, and the old log is a prefix. -/
theorem loop_log (less : Int → Bool) (i j : Int) (log : List Probe)
    (r : Int) (log' : List Probe) (hr : loop less i j log = some (r, log')) :
    ∃ ext, log' = log ++ ext ∧ ∀ p ∈ ext, isLess p = true := by
  fun_induction loop less i j log with
  | case1 =>
    simp at hr; obtain ⟨rfl, rfl⟩ := hr; exact ⟨[], by simp⟩
  | case2 i j log hne hlt mid hl ih =>
    obtain ⟨ext, he, hp⟩ := ih hr
    refine ⟨Probe.less mid :: ext, by simp [he], ?_⟩
    intro p hp'; rcases List.mem_cons.mp hp' with h | h
    · subst h; rfl
    · exact hp p h
  | case3 i j log hne hlt mid hl ih =>
    obtain ⟨ext, he, hp⟩ := ih hr
    refine ⟨Probe.less mid :: ext, by simp [he], ?_⟩
    intro p hp'; rcases List.mem_cons.mp hp' with h | h
    · subst h; rfl
    · exact hp p h
  | case4 i j log hne hnlt => simp at hr

/-- Bisection invariant: if `less` is true exactly below `b` on `(i, j)` and `i < b ≤ j`, the loop
    returns `b`. -/
theorem loop_result (less : Int → Bool) (b : Int) (i j : Int) (log : List Probe)
    (hmono : ∀ k, i < k → k < j → (less k = true ↔ k < b))
    (hib : i < b) (hbj : b ≤ j)
    (r : Int) (log' : List Probe) (hr : loop less i j log = some (r, log')) : r = b := by
  fun_induction loop less i j log with
  | case1 =>
    simp at hr; obtain ⟨rfl, _⟩ := hr; omega
  | case2 i j log hne hlt mid hl ih =>
    have hm := (hmono mid (by omega) (by omega)).mp hl
    exact ih (fun k h1 h2 => hmono k (by omega) h2) hm hbj hr
  | case3 i j log hne hlt mid hl ih =>
    have hm : ¬ mid < b := fun h => hl ((hmono mid (by omega) (by omega)).mpr h)
    exact ih (fun k h1 h2 => hmono k h1 (by omega)) hib (by omega) hr
  | case4 i j log hne hnlt => simp at hr

/-- Probe-count bound: a gap of at most `2^c` needs at most `c` more `less` probes. -/
theorem loop_count (less : Int → Bool) (c : Nat) (i j : Int) (log : List Probe)
    (hgap : j - i ≤ (2 : Int) ^ c) (hij : i < j)
    (r : Int) (log' : List Probe) (hr : loop less i j log = some (r, log')) :
    countLess log' ≤ countLess log + c := by
  induction c generalizing i j log with
  | zero =>
    have : i + 1 = j := by simp at hgap; omega
    unfold loop at hr; simp [this] at hr; obtain ⟨_, rfl⟩ := hr; omega
  | succ c ih =>
    unfold loop at hr
    by_cases h1 : i + 1 = j
    · simp [h1] at hr; obtain ⟨_, rfl⟩ := hr; omega
    · have h2 : i + 1 < j := by omega
      have hp : (2 : Int) ^ (c + 1) = 2 * 2 ^ c := by rw [Int.pow_succ]; omega
      simp only [h1, h2, if_false, dite_true] at hr
      by_cases hl : less ((i + j) / 2) = true
      · simp only [hl, if_true] at hr
        have := ih ((i + j) / 2) j (log ++ [Probe.less ((i + j) / 2)]) (by omega) (by omega) hr
        rw [countLess_append, countLess_single] at this
        omega
      · simp only [hl] at hr
        have := ih i ((i + j) / 2) (log ++ [Probe.less ((i + j) / 2)]) (by omega) (by omega) hr
        rw [countLess_append, countLess_single] at this
        omega

/-- The Go midpoint expression `int(uint(i+j) >> 1)` on 64-bit words equals `(i+j)/2` on the integers
    whenever `0 ≤ i + j` (true inside the loop: `-1 ≤ i`, `i + 1 < j`). -/
theorem mid_bitvec (i j : BitVec 64) (h0 : 0 ≤ i.toInt + j.toInt) :
    ((i + j) >>> 1).toInt = (i.toInt + j.toInt) / 2 := by
  have hi := i.isLt
  have hj := j.isLt
  rw [BitVec.toInt_eq_toNat_cond] at h0 ⊢
  rw [BitVec.toInt_eq_toNat_cond (x := j)] at h0 ⊢
  rw [BitVec.toInt_eq_toNat_cond (x := i)] at ⊢
  rw [BitVec.toNat_ushiftRight, BitVec.toNat_add]
  simp only [Nat.shiftRight_eq_div_pow, Nat.pow_one, Nat.reducePow] at *
  split at h0 <;> split at h0 <;> split <;> omega

end Got.Lemmas.Search
