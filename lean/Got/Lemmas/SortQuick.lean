import Got.Lemmas.SortPivot
import Got.Lemmas.SortInsertion
import Got.Lemmas.SortHeap
/- quickSort_func sorts (strict weak order, standard less closure); recursion depth; maxDepth -/
namespace Got.Lemmas.Sort
open Got.Model.Sort

variable {K V : Type} {lt : K → K → Bool}

/-- three zones around a pivot value, the outer two sorted: the whole range is sorted -/
theorem sorted_of_zones (sw : StrictWeak lt) (ks : Array K) (a mlo mhi b : Nat) (p : K)
    (h1 : AllK ks a mlo (fun x => lt p x = false))
    (h2 : AllK ks mlo mhi (fun x => lt p x = false ∧ lt x p = false))
    (h3 : AllK ks mhi b (fun x => lt x p = false))
    (s1 : SortedOn lt ks a mlo) (s2 : SortedOn lt ks mhi b) : SortedOn lt ks a b := by
  intro i j x y hi hij hj hx hy
  by_cases c1 : j < mlo
  · exact s1 i j x y hi hij c1 hx hy
  · by_cases c2 : mhi ≤ i
    · exact s2 i j x y c2 hij hj hx hy
    · -- x ≤ p ≤ y
      have hxp : lt p x = false := by
        by_cases c3 : i < mlo
        · exact h1 i x hi c3 hx
        · exact (h2 i x (by omega) (by omega) hx).1
      have hpy : lt y p = false := by
        by_cases c3 : j < mhi
        · exact (h2 j y (by omega) c3 hy).2
        · exact h3 j y (by omega) hj hy
      exact sw.le_trans hxp hpy

/-- quickSort_func sorts `[a,b)` whatever the depth budget is -/
theorem quickSort_sorted (sw : StrictWeak lt) (d a b : Nat) (s : St K V) (hb : b ≤ s.keys.size) :
    SortedOn lt (quickSort (stdLess lt) a b d s).keys a b := by
  induction d generalizing a b s with
  | zero =>
    rw [quickSort]
    split
    · exact heapSort_sorted sw a b s (by omega) hb
    · exact smallSort_sorted sw a b s hb
  | succ d ih =>
    rw [quickSort]
    split
    · rename_i hgt
      have hthr := thrInsertion_ge
      have hst := doPivot_steps (stdLess lt) a b s (by omega)
      obtain ⟨p, _, z1, z2, z3, hlt⟩ := doPivot_sem sw a b s (by omega) hb
      dsimp only
      generalize doPivot (stdLess lt) a b s = pv at *
      obtain ⟨st, b1, b2, b3, b4⟩ := hst
      have hsz := st.keys_size
      split
      · -- left part first
        have stL := quickSort_steps (stdLess lt) a pv.1 d pv.2.2
        have sL := ih a pv.1 pv.2.2 (by omega)
        generalize quickSort (stdLess lt) a pv.1 d pv.2.2 = t1 at *
        have hsz1 := stL.keys_size
        have stR := quickSort_steps (stdLess lt) pv.2.1 b d t1
        have sR := ih pv.2.1 b t1 (by omega)
        generalize quickSort (stdLess lt) pv.2.1 b d t1 = t2 at *
        refine sorted_of_zones sw t2.keys a pv.1 pv.2.1 b p ?_ ?_ ?_ ?_ sR
        · exact stR.allK_disjoint (Or.inl (by omega)) (stL.allK (by omega) (Nat.le_refl _) (Nat.le_refl _) z1)
        · exact stR.allK_disjoint (Or.inl (Nat.le_refl _)) (stL.allK_disjoint (Or.inr (Nat.le_refl _)) z2)
        · exact stR.allK (by omega) (Nat.le_refl _) (Nat.le_refl _) (stL.allK_disjoint (Or.inr (by omega)) z3)
        · exact stR.sortedOn_disjoint (Or.inl (by omega)) sL
      · -- right part first
        have stR := quickSort_steps (stdLess lt) pv.2.1 b d pv.2.2
        have sR := ih pv.2.1 b pv.2.2 (by omega)
        generalize quickSort (stdLess lt) pv.2.1 b d pv.2.2 = t1 at *
        have hsz1 := stR.keys_size
        have stL := quickSort_steps (stdLess lt) a pv.1 d t1
        have sL := ih a pv.1 t1 (by omega)
        generalize quickSort (stdLess lt) a pv.1 d t1 = t2 at *
        refine sorted_of_zones sw t2.keys a pv.1 pv.2.1 b p ?_ ?_ ?_ sL ?_
        · exact stL.allK (by omega) (Nat.le_refl _) (Nat.le_refl _) (stR.allK_disjoint (Or.inl (by omega)) z1)
        · exact stL.allK_disjoint (Or.inr (Nat.le_refl _)) (stR.allK_disjoint (Or.inl (Nat.le_refl _)) z2)
        · exact stL.allK_disjoint (Or.inr (by omega)) (stR.allK (by omega) (Nat.le_refl _) (Nat.le_refl _) z3)
        · exact stL.sortedOn_disjoint (Or.inr (by omega)) sR
    · exact smallSort_sorted sw a b s hb

/-- SliceBy sorts the first `min(len keys, len values)` keys -/
theorem sliceBy_sorted (sw : StrictWeak lt) (keys : Array K) (vals : Array V) :
    SortedOn lt (sliceBy (stdLess lt) keys vals).keys 0 (min keys.size vals.size) := by
  unfold sliceBy
  dsimp only
  split
  · intro i j x y h1 h2 h3; omega
  · exact quickSort_sorted sw _ 0 _ _ (Nat.min_le_left _ _)

/-! ### depth -/

theorem quickSortLevels_spec (less : LessFn K V) (d a b : Nat) (s : St K V) :
    (quickSortLevels less a b d s).1 = quickSort less a b d s ∧ (quickSortLevels less a b d s).2 ≤ d := by
  induction d generalizing a b s with
  | zero =>
    rw [quickSortLevels, quickSort]
    exact ⟨rfl, Nat.le_refl _⟩
  | succ d ih =>
    rw [quickSortLevels, quickSort]
    split
    · dsimp only
      split
      · have h1 := ih a (doPivot less a b s).1 (doPivot less a b s).2.2
        have h2 := ih (doPivot less a b s).2.1 b (quickSortLevels less a (doPivot less a b s).1 d (doPivot less a b s).2.2).1
        refine ⟨by rw [h2.1, h1.1], ?_⟩
        dsimp only
        omega
      · have h1 := ih (doPivot less a b s).2.1 b (doPivot less a b s).2.2
        have h2 := ih a (doPivot less a b s).1 (quickSortLevels less (doPivot less a b s).2.1 b d (doPivot less a b s).2.2).1
        refine ⟨by rw [h2.1, h1.1], ?_⟩
        dsimp only
        omega
    · exact ⟨rfl, Nat.zero_le _⟩

theorem maxDepthLoop_spec (i d : Nat) :
    d ≤ maxDepthLoop i d ∧ i < 2 ^ (maxDepthLoop i d - d) ∧ (i > 0 → 2 ^ (maxDepthLoop i d - d - 1) ≤ i) ∧
    (i = 0 → maxDepthLoop i d = d) := by
  fun_induction maxDepthLoop i d with
  | case1 i d h ih =>
    have e0 : i >>> 1 = i / 2 := by rw [Nat.shiftRight_eq_div_pow]
    rw [e0] at ih ⊢
    obtain ⟨h1, h2, h3, h4⟩ := ih
    generalize maxDepthLoop (i / 2) (d + 1) = F at *
    obtain ⟨k, hk⟩ : ∃ k, F = d + 1 + k := ⟨F - (d + 1), by omega⟩
    subst hk
    have e1 : d + 1 + k - (d + 1) = k := by omega
    have e2 : d + 1 + k - d = k + 1 := by omega
    have e3 : d + 1 + k - d - 1 = k := by omega
    rw [e1] at h2 h3
    have e5 : k + 1 - 1 = k := by omega
    rw [e2, e5]
    refine ⟨by omega, ?_, ?_, by omega⟩
    · rw [Nat.pow_succ]; omega
    · intro _
      by_cases hz : i / 2 = 0
      · have := h4 hz
        have hk0 : k = 0 := by omega
        subst hk0; simp; omega
      · have h5 := h3 (by omega)
        have hk1 : k ≥ 1 := by
          rcases Nat.eq_zero_or_pos k with hk0 | hk0
          · subst hk0; simp at h2; omega
          · exact hk0
        obtain ⟨k', hk'⟩ : ∃ k', k = k' + 1 := ⟨k - 1, by omega⟩
        subst hk'
        have e4 : k' + 1 - 1 = k' := by omega
        rw [e4] at h5
        rw [Nat.pow_succ]; omega
  | case2 i d h =>
    have : i = 0 := by omega
    subst this
    simp

/-- `maxDepth n = 2·⌈lg(n+1)⌉`: `k = maxDepth n / 2` is the least `k` with `n + 1 ≤ 2^k` -/
theorem maxDepth_spec (n : Nat) :
    ∃ k, maxDepth n = 2 * k ∧ n + 1 ≤ 2 ^ k ∧ ∀ k', n + 1 ≤ 2 ^ k' → k ≤ k' := by
  obtain ⟨_, h2, h3, h4⟩ := maxDepthLoop_spec n 0
  refine ⟨maxDepthLoop n 0, by unfold maxDepth; omega, by simp only [Nat.sub_zero] at h2; omega, ?_⟩
  intro k' hk'
  rcases Nat.eq_zero_or_pos n with hn | hn
  · rw [h4 hn]; omega
  · have h5 := h3 hn
    simp only [Nat.sub_zero] at h5
    rcases Nat.lt_or_ge k' (maxDepthLoop n 0) with hlt | hge
    · have : 2 ^ k' ≤ 2 ^ (maxDepthLoop n 0 - 1) := Nat.pow_le_pow_right (by omega) (by omega)
      omega
    · exact hge

end Got.Lemmas.Sort
