import Got.Model.Sort
/-
Basic lemmas about the state of the sort model: the `Steps a b s t` relation ("t is reached from s by
Less/Swap calls whose indices all lie in [a,b)") and what follows from it.
-/
namespace Got.Lemmas.Sort
open Got.Model.Sort

variable {K V : Type}

/-! ### constants (regenerated from the Go source; pinned here, the proofs below use the numerals;
    the two size thresholds 12 and 40 are NOT pinned: any value ≥ 2 resp. any value keeps the proofs valid) -/
/-- all that the proofs need from the insertion-sort threshold (12 in the source): ranges handed to doPivot have ≥ 3 elements -/
theorem thrInsertion_ge : 2 ≤ thrInsertion := by decide
theorem gapInit_eq : gapInit = 6 := by decide
theorem gapLess_eq : gapLess = 6 := by decide
theorem gapSwap_eq : gapSwap = 6 := by decide
theorem divNinther_eq : divNinther = 8 := by decide
theorem thrProtect_eq : thrProtect = 5 := by decide
theorem divDups_eq : divDups = 4 := by decide

/-! ### fields of note / swap -/
@[simp] theorem note_keys (s : St K V) (i j : Nat) (r : Bool) : (s.note i j r).keys = s.keys := rfl
@[simp] theorem note_vals (s : St K V) (i j : Nat) (r : Bool) : (s.note i j r).vals = s.vals := rfl
@[simp] theorem note_log (s : St K V) (i j : Nat) (r : Bool) : (s.note i j r).log = Ev.less i j r :: s.log := rfl
@[simp] theorem swap_keys (s : St K V) (i j : Nat) : (s.swap i j).keys = s.keys.swapIfInBounds i j := rfl
@[simp] theorem swap_vals (s : St K V) (i j : Nat) : (s.swap i j).vals = s.vals.swapIfInBounds i j := rfl
@[simp] theorem swap_log (s : St K V) (i j : Nat) : (s.swap i j).log = Ev.swap i j :: s.log := rfl

theorem getElem?_swapIfInBounds {α : Type} (xs : Array α) (i j k : Nat) (hi : i < xs.size) (hj : j < xs.size) :
    (xs.swapIfInBounds i j)[k]? = if k = i then xs[j]? else if k = j then xs[i]? else xs[k]? := by
  rw [Array.swapIfInBounds_def, dif_pos hi, dif_pos hj, Array.getElem?_swap]
  by_cases h1 : k = i
  · subst h1
    by_cases h2 : j = k
    · subst h2; simp
    · simp [h2]
  · by_cases h2 : k = j
    · subst h2; simp [h1]
    · have h3 : ¬ j = k := fun e => h2 e.symm
      have h4 : ¬ i = k := fun e => h1 e.symm
      simp [h1, h2, h3, h4]

theorem getElem?_swapIfInBounds_of_ne {α : Type} (xs : Array α) (i j k : Nat) (h1 : k ≠ i) (h2 : k ≠ j) :
    (xs.swapIfInBounds i j)[k]? = xs[k]? := by
  rw [Array.swapIfInBounds_def]
  split
  · split
    · rw [Array.getElem?_swap]
      have h3 : ¬ j = k := fun e => h2 e.symm
      have h4 : ¬ i = k := fun e => h1 e.symm
      simp [h3, h4]
    · rfl
  · rfl

/-! ### index ranges of events -/

/-- both indices of a call lie in `[a,b)` -/
def InR (a b i j : Nat) : Prop := a ≤ i ∧ i < b ∧ a ≤ j ∧ j < b

def EvIn (a b : Nat) : Ev → Prop
  | .less i j _ => InR a b i j
  | .swap i j => InR a b i j

theorem InR.mono {a b a' b' i j : Nat} (h : InR a b i j) (ha : a' ≤ a) (hb : b ≤ b') : InR a' b' i j := by
  unfold InR at *; omega

/-- `t` is reached from `s` by Less / Swap calls with all indices in `[a,b)` -/
inductive Steps (a b : Nat) : St K V → St K V → Prop
  | refl (s) : Steps a b s s
  | note {s t} (i j r) : Steps a b s t → InR a b i j → Steps a b s (t.note i j r)
  | swap {s t} (i j) : Steps a b s t → InR a b i j → Steps a b s (t.swap i j)

theorem Steps.trans {a b : Nat} {s t u : St K V} (h1 : Steps a b s t) (h2 : Steps a b t u) : Steps a b s u := by
  induction h2 with
  | refl => exact h1
  | note i j r _ hr ih => exact Steps.note i j r ih hr
  | swap i j _ hr ih => exact Steps.swap i j ih hr

theorem Steps.mono {a b a' b' : Nat} {s t : St K V} (h : Steps a b s t) (ha : a' ≤ a) (hb : b ≤ b') :
    Steps a' b' s t := by
  induction h with
  | refl => exact Steps.refl _
  | note i j r _ hr ih => exact Steps.note i j r ih (hr.mono ha hb)
  | swap i j _ hr ih => exact Steps.swap i j ih (hr.mono ha hb)

theorem Steps.note1 {a b : Nat} (s : St K V) (i j : Nat) (r : Bool) (h : InR a b i j) : Steps a b s (s.note i j r) :=
  Steps.note i j r (Steps.refl s) h

theorem Steps.swap1 {a b : Nat} (s : St K V) (i j : Nat) (h : InR a b i j) : Steps a b s (s.swap i j) :=
  Steps.swap i j (Steps.refl s) h

/-! ### consequences -/

theorem Steps.sizes {a b : Nat} {s t : St K V} (h : Steps a b s t) :
    t.keys.size = s.keys.size ∧ t.vals.size = s.vals.size := by
  induction h with
  | refl => exact ⟨rfl, rfl⟩
  | note i j r _ _ ih => exact ih
  | swap i j _ _ ih => simpa using ih

theorem Steps.keys_size {a b : Nat} {s t : St K V} (h : Steps a b s t) : t.keys.size = s.keys.size := h.sizes.1

/-- nothing outside `[a,b)` is touched, in either slice -/
theorem Steps.outside {a b : Nat} {s t : St K V} (h : Steps a b s t) (k : Nat) (hk : k < a ∨ b ≤ k) :
    t.keys[k]? = s.keys[k]? ∧ t.vals[k]? = s.vals[k]? := by
  induction h with
  | refl => exact ⟨rfl, rfl⟩
  | note i j r _ _ ih => exact ih
  | swap i j _ hr ih =>
    unfold InR at hr
    rw [swap_keys, swap_vals, getElem?_swapIfInBounds_of_ne _ _ _ _ (by omega) (by omega),
      getElem?_swapIfInBounds_of_ne _ _ _ _ (by omega) (by omega)]
    exact ih

/-- the log only grows, by events in range -/
theorem Steps.log {a b : Nat} {s t : St K V} (h : Steps a b s t) :
    ∃ evs, t.log = evs ++ s.log ∧ ∀ e ∈ evs, EvIn a b e := by
  induction h with
  | refl => exact ⟨[], rfl, by simp⟩
  | note i j r _ hr ih =>
    obtain ⟨evs, h1, h2⟩ := ih
    refine ⟨Ev.less i j r :: evs, by simp [h1], ?_⟩
    intro e he
    rcases List.mem_cons.1 he with he | he
    · subst he; exact hr
    · exact h2 e he
  | swap i j _ hr ih =>
    obtain ⟨evs, h1, h2⟩ := ih
    refine ⟨Ev.swap i j :: evs, by simp [h1], ?_⟩
    intro e he
    rcases List.mem_cons.1 he with he | he
    · subst he; exact hr
    · exact h2 e he

theorem zip_swapIfInBounds {α β : Type} (xs : Array α) (ys : Array β) (i j : Nat)
    (hi : i < xs.size) (hj : j < xs.size) (hi' : i < ys.size) (hj' : j < ys.size) :
    (xs.swapIfInBounds i j).zip (ys.swapIfInBounds i j) = (xs.zip ys).swapIfInBounds i j := by
  apply Array.ext_getElem?
  intro k
  have hzs : (xs.zip ys).size = min xs.size ys.size := Array.size_zip
  rw [getElem?_swapIfInBounds (xs.zip ys) i j k (by omega) (by omega)]
  simp only [Array.zip_eq_zipWith, Array.getElem?_zipWith]
  rw [getElem?_swapIfInBounds xs i j k hi hj, getElem?_swapIfInBounds ys i j k hi' hj']
  by_cases h1 : k = i
  · simp [h1]
  · by_cases h2 : k = j
    · subst h2
      have h3 : ¬ k = i := h1
      simp [h3]
    · simp [h1, h2]

/-- the (key, value) pairs are permuted -/
theorem Steps.zip_perm {a b : Nat} {s t : St K V} (h : Steps a b s t) (hb : b ≤ s.keys.size) (hb' : b ≤ s.vals.size) :
    (t.keys.zip t.vals).Perm (s.keys.zip s.vals) := by
  induction h with
  | refl => exact Array.Perm.refl _
  | note i j r _ _ ih => exact ih
  | @swap t i j hst hr ih =>
    unfold InR at hr
    have hsz := hst.sizes
    rw [swap_keys, swap_vals, zip_swapIfInBounds _ _ _ _ (by omega) (by omega) (by omega) (by omega)]
    refine Array.Perm.trans ?_ ih
    have hzs : (t.keys.zip t.vals).size = min t.keys.size t.vals.size := Array.size_zip
    rw [Array.swapIfInBounds_def, dif_pos (by omega), dif_pos (by omega)]
    exact Array.swap_perm _ _

/-- a property of all keys in `[a',b') ⊇ [a,b)` is kept -/
theorem Steps.keys_all {a b : Nat} {s t : St K V} (h : Steps a b s t) (hb : b ≤ s.keys.size) (P : K → Prop)
    (a' b' : Nat) (ha : a' ≤ a) (hb2 : b ≤ b')
    (hP : ∀ k x, a' ≤ k → k < b' → s.keys[k]? = some x → P x) :
    ∀ k x, a' ≤ k → k < b' → t.keys[k]? = some x → P x := by
  induction h with
  | refl => exact hP
  | note i j r _ _ ih => exact ih
  | @swap t i j hst hr ih =>
    unfold InR at hr
    have hsz := hst.sizes
    intro k x hk1 hk2 hx
    rw [swap_keys, getElem?_swapIfInBounds _ _ _ _ (by omega) (by omega)] at hx
    split at hx
    · exact ih j x (by omega) (by omega) hx
    · split at hx
      · exact ih i x (by omega) (by omega) hx
      · exact ih k x hk1 hk2 hx

end Got.Lemmas.Sort
