import Got.Model.Wheel
set_option linter.unusedSimpArgs false
/-
Invariant of the wheel transition system (variant `fixed`) and the arithmetic behind C03.
Core Lean only (no Mathlib).

Blueprint.  Channels are allocated in tick order, so channel `c` is due at tick `c+1` (`due_eq`).
`swp s` = number of slot replacements performed.  Slot `i` always holds the unique channel whose due tick
is ≡ i+1 (mod n) and lies in `(swp, swp+n]` (`slot_mod/slot_lo/slot_hi`).  A requester that has read
`position` at `adv = a1` and then the slot `(a1+k) % n` holds a channel with due ≡ a1+k+1 (mod n),
`a1 ≤ due`, `cls@invoke < due ≤ adv + n` (`RInv.data`); these facts are stable under further ticks.  When the
re-read of `position` succeeds at `adv = a3` we have `a3 ≡ a1 (mod n)`, and the window lemma `mod_window`
pins `due = L + k + 1` with `a1 ≤ L ≤ a3` (for n ≥ 2; for n = 1 with `cls@invoke ≤ L ≤ a3`).
-/
namespace Got.Lemmas.Wheel
open Got.Model.Wheel

/-! ### arithmetic -/

/-- two numbers in the same residue class differ by at least `n` -/
theorem mod_window {n x y : Nat} (h : x % n = y % n) (hlt : y < x) : y + n ≤ x := by
  have hx := Nat.div_add_mod x n
  have hy := Nat.div_add_mod y n
  have h1 : y / n < x / n := by
    apply Nat.lt_of_not_le
    intro hc
    have := Nat.mul_le_mul_left n hc
    omega
  have h2 := Nat.mul_le_mul_left n (Nat.succ_le_of_lt h1)
  rw [Nat.mul_succ] at h2
  omega

theorem succ_mod_inj {n i j : Nat} (hi : i < n) (hj : j < n) (h : (i + 1) % n = (j + 1) % n) : i = j := by
  rcases Nat.lt_trichotomy i j with hlt | heq | hgt
  · have := mod_window (n := n) (x := j + 1) (y := i + 1) h.symm (by omega); omega
  · exact heq
  · have := mod_window (n := n) (x := i + 1) (y := j + 1) h (by omega); omega

theorem add_mod_congr {n a b : Nat} (k : Nat) (h : a % n = b % n) : (a + k) % n = (b + k) % n := by
  rw [← Nat.mod_add_mod a n k, h, Nat.mod_add_mod]

/-! ### pure part -/

theorem rangePanics_iff (step n : Nat) (d : Int) :
    rangePanics step n d = true ↔ (d < 0 ∨ (step : Int) * n ≤ d) := by
  simp [rangePanics]

theorem toNat_div (step : Nat) (d : Int) (hd : 0 ≤ d) : (d / (step : Int)).toNat = d.toNat / step := by
  obtain ⟨m, rfl⟩ := Int.eq_ofNat_of_zero_le hd
  simp
  norm_cast

/-- `index + 1 = max ⌊d/step⌋ 1` -/
theorem bucketIndex_succ (step : Nat) (d : Int) (hd : 0 ≤ d) :
    bucketIndex step d + 1 = max (d.toNat / step) 1 := by
  unfold bucketIndex
  simp only [toNat_div step d hd]
  generalize d.toNat / step = q
  split <;> omega

/-- in range ⇒ the bucket offset is at most `n-2` (or 0 on a one-bucket wheel) -/
theorem bucketIndex_range (step n : Nat) (d : Int) (h : rangePanics step n d = false) :
    bucketIndex step d + 1 < n ∨ (n = 1 ∧ bucketIndex step d = 0) := by
  have h' : ¬ (d < 0 ∨ (step : Int) * n ≤ d) := by
    rw [← rangePanics_iff]; simp [h]
  have hd : 0 ≤ d := by omega
  have hlt : d < (step : Int) * n := by omega
  have hk := bucketIndex_succ step d hd
  obtain ⟨m, rfl⟩ := Int.eq_ofNat_of_zero_le hd
  have hm : m < step * n := by exact_mod_cast hlt
  have hq : m / step < n := by
    have hs : 0 < step := by
      rcases Nat.eq_zero_or_pos step with h0 | h0
      · subst h0; simp at hm
      · exact h0
    exact (Nat.div_lt_iff_lt_mul hs).mpr (by rw [Nat.mul_comm]; exact hm)
  simp only [Int.toNat_natCast] at hk
  generalize m / step = q at hq hk
  have hn : 0 < n := by omega
  by_cases h1 : n = 1
  · right; refine ⟨h1, ?_⟩; omega
  · left; omega

/-- `D = max (s·⌊d/s⌋) s = s·(k+1)` -/
theorem nominal_eq (s d : Nat) : nominal s d = s * (bucketIndex s (d : Int) + 1) := by
  have hk := bucketIndex_succ s (d : Int) (Int.natCast_nonneg d)
  simp only [Int.toNat_natCast] at hk
  unfold nominal
  rw [hk]
  generalize d / s = q
  rcases Nat.eq_zero_or_pos q with hq | hq
  · subst hq; simp
  · have h2 : s * 1 ≤ s * q := Nat.mul_le_mul_left s hq
    rw [Nat.max_eq_left hq, Nat.max_eq_left (by omega)]

theorem fireTime_eq (s L k : Nat) : fireTime s L k = L * s + s * (k + 1) := by
  unfold fireTime
  rw [Nat.add_assoc, Nat.add_mul, Nat.mul_comm (k + 1) s]

/-! ### frame facts -/

@[simp] theorem upd_same {α : Type} (f : Nat → α) (i : Nat) (v : α) : upd f i v i = v := by simp [upd]
theorem upd_ne {α : Type} (f : Nat → α) {i j : Nat} (v : α) (h : j ≠ i) : upd f i v j = f j := by simp [upd, h]

/-- number of slot replacements performed so far -/
def swp (s : State) : Nat := if s.tpc = .close then s.cls + 1 else s.cls

/-! ### invariant: global / ticker part -/

structure TInv (s : State) : Prop where
  npos : 0 < s.n
  pos_eq : s.pos = s.adv % s.n
  adv_eq : s.adv = if s.tpc = .swapSlot ∨ s.tpc = .close then s.cls + 1 else s.cls
  tpos_eq : s.tpc ≠ .loadPos → s.tpos = s.cls % s.n
  next_eq : s.nextChan = s.n + swp s
  due_eq : ∀ c, s.due c = c + 1
  slot_mod : ∀ i, i < s.n → (s.slot i + 1) % s.n = (i + 1) % s.n
  slot_lo : ∀ i, i < s.n → swp s < s.slot i + 1
  slot_hi : ∀ i, i < s.n → s.slot i + 1 ≤ swp s + s.n
  tlast_eq : s.tpc = .close → s.tlast = s.cls
  closed_eq : ∀ c, s.closedBy c = if c + 1 ≤ s.cls then some (c + 1) else none
  nodbl : s.dblClose = false

theorem TInv.cls_le_adv {s : State} (h : TInv s) : s.cls ≤ s.adv := by
  have := h.adv_eq; split at this <;> omega

theorem TInv.adv_le_swp {s : State} (h : TInv s) : s.adv ≤ swp s + 1 ∧ swp s ≤ s.adv ∧ s.cls ≤ swp s := by
  have := h.adv_eq
  unfold swp
  cases ht : s.tpc <;> simp [ht] at this ⊢ <;> omega

theorem tinv_init (n step : Nat) (hn : 0 < n) : TInv (init n step) := by
  refine ⟨hn, ?_, ?_, ?_, ?_, ?_, ?_, ?_, ?_, ?_, ?_, ?_⟩ <;> simp [init, swp]
  · intro i hi; omega

theorem tinv_tick {s : State} (h : TInv s) : TInv (tickStep fixed s) := by
  have hn := h.npos
  cases ht : s.tpc with
  | loadPos =>
    have hadv : s.adv = s.cls := by have := h.adv_eq; simpa [ht] using this
    have hswp : swp s = s.cls := by simp [swp, ht]
    refine ⟨?_, ?_, ?_, ?_, ?_, ?_, ?_, ?_, ?_, ?_, ?_, ?_⟩ <;>
      simp only [tickStep, ht, fixed, swp, Bool.false_eq_true, ↓reduceIte, reduceCtorEq, or_self, ne_eq,
        not_false_eq_true, forall_const, false_implies, implies_true]
    · exact hn
    · exact h.pos_eq
    · exact hadv
    · rw [h.pos_eq, hadv]
    · rw [h.next_eq, hswp]
    · exact h.due_eq
    · exact h.slot_mod
    · intro i hi; have := h.slot_lo i hi; omega
    · intro i hi; have := h.slot_hi i hi; omega
    · exact h.closed_eq
    · exact h.nodbl
  | storePos =>
    have hadv : s.adv = s.cls := by have := h.adv_eq; simpa [ht] using this
    have hswp : swp s = s.cls := by simp [swp, ht]
    have htp : s.tpos = s.cls % s.n := h.tpos_eq (by simp [ht])
    refine ⟨?_, ?_, ?_, ?_, ?_, ?_, ?_, ?_, ?_, ?_, ?_, ?_⟩ <;>
      simp only [tickStep, ht, fixed, swp, Bool.false_eq_true, ↓reduceIte, reduceCtorEq, or_self, ne_eq,
        not_false_eq_true, forall_const, false_implies, implies_true, true_or]
    · exact hn
    · rw [htp, hadv, Nat.mod_add_mod]
    · omega
    · exact htp
    · rw [h.next_eq, hswp]
    · exact h.due_eq
    · exact h.slot_mod
    · intro i hi; have := h.slot_lo i hi; omega
    · intro i hi; have := h.slot_hi i hi; omega
    · exact h.closed_eq
    · exact h.nodbl
  | swapSlot =>
    have hadv : s.adv = s.cls + 1 := by have := h.adv_eq; simpa [ht] using this
    have hswp : swp s = s.cls := by simp [swp, ht]
    have htp : s.tpos = s.cls % s.n := h.tpos_eq (by simp [ht])
    have htlt : s.tpos < s.n := by rw [htp]; exact Nat.mod_lt _ hn
    have hnext : s.nextChan = s.n + s.cls := by rw [h.next_eq, hswp]
    have htmod : (s.tpos + 1) % s.n = (s.cls + 1) % s.n := by rw [htp, Nat.mod_add_mod]
    -- the channel being replaced is the one due at the tick in progress
    have hlast : s.slot s.tpos = s.cls := by
      have h1 := h.slot_mod _ htlt
      have h2 := h.slot_lo _ htlt
      have h3 := h.slot_hi _ htlt
      rw [hswp] at h2 h3
      rw [htmod] at h1
      by_cases hc : s.cls + 1 < s.slot s.tpos + 1
      · have := mod_window h1 hc; omega
      · omega
    refine ⟨?_, ?_, ?_, ?_, ?_, ?_, ?_, ?_, ?_, ?_, ?_, ?_⟩ <;>
      simp only [tickStep, ht, fixed, swp, Bool.false_eq_true, ↓reduceIte, reduceCtorEq, or_self, ne_eq,
        not_false_eq_true, forall_const, false_implies, implies_true, true_or, or_true]
    · exact hn
    · exact h.pos_eq
    · exact hadv
    · exact htp
    · rw [hnext]; omega
    · intro c
      by_cases hc : c = s.nextChan
      · subst hc; rw [upd_same, hnext]; omega
      · rw [upd_ne _ _ hc]; exact h.due_eq c
    · intro i hi
      by_cases hc : i = s.tpos
      · subst hc; rw [upd_same, hnext, htmod]
        have : s.n + s.cls + 1 = (s.cls + 1) + s.n := by omega
        rw [this, Nat.add_mod_right]
      · rw [upd_ne _ _ hc]; exact h.slot_mod i hi
    · intro i hi
      by_cases hc : i = s.tpos
      · subst hc; rw [upd_same, hnext]; omega
      · rw [upd_ne _ _ hc]
        have h2 := h.slot_lo i hi
        rw [hswp] at h2
        by_cases he : s.slot i + 1 = s.cls + 1
        · exfalso
          have h1 := h.slot_mod i hi
          rw [he, ← htmod] at h1
          exact hc (succ_mod_inj hi htlt h1.symm)
        · omega
    · intro i hi
      by_cases hc : i = s.tpos
      · subst hc; rw [upd_same, hnext]; omega
      · rw [upd_ne _ _ hc]; have := h.slot_hi i hi; rw [hswp] at this; omega
    · exact hlast
    · exact h.closed_eq
    · exact h.nodbl
  | close =>
    have hadv : s.adv = s.cls + 1 := by have := h.adv_eq; simpa [ht] using this
    have hswp : swp s = s.cls + 1 := by simp [swp, ht]
    have hlast : s.tlast = s.cls := h.tlast_eq ht
    refine ⟨?_, ?_, ?_, ?_, ?_, ?_, ?_, ?_, ?_, ?_, ?_, ?_⟩ <;>
      simp only [tickStep, ht, fixed, swp, Bool.false_eq_true, ↓reduceIte, reduceCtorEq, or_self, ne_eq,
        not_false_eq_true, forall_const, false_implies, implies_true, true_or, or_true, not_true_eq_false]
    · exact hn
    · exact h.pos_eq
    · exact hadv
    · rw [h.next_eq, hswp]
    · exact h.due_eq
    · exact h.slot_mod
    · intro i hi; have := h.slot_lo i hi; omega
    · intro i hi; have := h.slot_hi i hi; omega
    · intro c
      by_cases hc : c = s.tlast
      · subst hc; rw [upd_same, hlast]; simp
      · rw [upd_ne _ _ hc, h.closed_eq c]
        rw [hlast] at hc
        by_cases h1 : c + 1 ≤ s.cls
        · rw [if_pos h1, if_pos (by omega)]
        · rw [if_neg h1, if_neg (by omega)]
    · rw [h.nodbl, h.closed_eq, hlast]; simp

/-! ### invariant: requester part -/

structure RInv (s : State) (t : Nat) : Prop where
  krange : s.rpc t ≠ .idle → (s.rk t + 1 < s.n ∨ (s.n = 1 ∧ s.rk t = 0))
  inv_le : s.rpc t ≠ .idle → s.ginvCls t ≤ s.ginvAdv t ∧ s.ginvCls t ≤ s.cls ∧ s.ginvAdv t ≤ s.adv
  a1 : (s.rpc t = .loadSlot ∨ s.rpc t = .reloadPos) →
    s.rpos t = s.ga1 t % s.n ∧ s.ginvAdv t ≤ s.ga1 t ∧ s.ga1 t ≤ s.adv
  data : s.rpc t = .reloadPos →
    (s.rdata t + 1) % s.n = (s.ga1 t + s.rk t + 1) % s.n ∧ s.ga1 t ≤ s.rdata t + 1 ∧
    s.ginvCls t < s.rdata t + 1 ∧ s.rdata t + 1 ≤ s.adv + s.n

/-- what is recorded about a completed request -/
def DInv (s : State) (r : Req) : Prop :=
  r.retAdv ≤ s.adv ∧ r.invCls ≤ r.invAdv ∧ r.invAdv ≤ r.retAdv ∧
  ∃ L, r.invCls ≤ L ∧ L ≤ r.retAdv ∧ r.chan + 1 = L + r.k + 1 ∧ (2 ≤ s.n → r.invAdv ≤ L)

/-- the ticker touches no requester field; `adv` and `cls` only grow -/
theorem tick_frame (v : Variant) (s : State) :
    let s' := tickStep v s
    s'.n = s.n ∧ s'.step = s.step ∧ s'.rpc = s.rpc ∧ s'.rk = s.rk ∧ s'.rpos = s.rpos ∧ s'.rdata = s.rdata ∧
    s'.ginvCls = s.ginvCls ∧ s'.ginvAdv = s.ginvAdv ∧ s'.ga1 = s.ga1 ∧ s'.done = s.done ∧ s'.panics = s.panics ∧
    s.adv ≤ s'.adv ∧ s.cls ≤ s'.cls := by
  cases ht : s.tpc <;> simp [tickStep, ht]

theorem rinv_tick {s : State} (t : Nat) (h : RInv s t) : RInv (tickStep fixed s) t := by
  obtain ⟨hn, _, hrpc, hrk, hrpos, hrdata, hic, hia, hga, _, _, hadv, hcls⟩ := tick_frame fixed s
  refine ⟨?_, ?_, ?_, ?_⟩ <;> simp only [hn, hrpc, hrk, hrpos, hrdata, hic, hia, hga]
  · exact h.krange
  · intro hp; have := h.inv_le hp; omega
  · intro hp; have := h.a1 hp; omega
  · intro hp; have := h.data hp; omega

theorem dinv_tick {s : State} (r : Req) (h : DInv s r) : DInv (tickStep fixed s) r := by
  obtain ⟨hn, _, _, _, _, _, _, _, _, _, _, hadv, _⟩ := tick_frame fixed s
  obtain ⟨h1, h2, h3, L, h4⟩ := h
  refine ⟨by omega, h2, h3, L, ?_⟩
  rw [hn]; exact h4

/-- a requester step touches no global field -/
theorem req_frame (t : Nat) (s : State) :
    let s' := reqStep fixed t s
    s'.n = s.n ∧ s'.step = s.step ∧ s'.pos = s.pos ∧ s'.slot = s.slot ∧ s'.closedBy = s.closedBy ∧
    s'.nextChan = s.nextChan ∧ s'.dblClose = s.dblClose ∧ s'.tpc = s.tpc ∧ s'.tpos = s.tpos ∧ s'.tlast = s.tlast ∧
    s'.adv = s.adv ∧ s'.cls = s.cls ∧ s'.due = s.due ∧ s'.rk = s.rk ∧ s'.ginvCls = s.ginvCls ∧
    s'.ginvAdv = s.ginvAdv ∧ s'.panics = s.panics := by
  cases hp : s.rpc t
  · simp [reqStep, hp]
  · simp [reqStep, hp]
  · simp [reqStep, hp, fixed]
  · by_cases hc : s.rpos t = s.pos <;> simp [reqStep, hp, hc, complete]

theorem tinv_of_frame {s s' : State} (h : TInv s)
    (f : s'.n = s.n ∧ s'.pos = s.pos ∧ s'.slot = s.slot ∧ s'.closedBy = s.closedBy ∧
      s'.nextChan = s.nextChan ∧ s'.dblClose = s.dblClose ∧ s'.tpc = s.tpc ∧ s'.tpos = s.tpos ∧ s'.tlast = s.tlast ∧
      s'.adv = s.adv ∧ s'.cls = s.cls ∧ s'.due = s.due) : TInv s' := by
  obtain ⟨f1, f2, f3, f4, f5, f6, f7, f8, f9, f10, f11, f12⟩ := f
  have hswp : swp s' = swp s := by simp [swp, f7, f11]
  refine ⟨?_, ?_, ?_, ?_, ?_, ?_, ?_, ?_, ?_, ?_, ?_, ?_⟩ <;>
    simp only [f1, f2, f3, f4, f5, f6, f7, f8, f9, f10, f11, f12, hswp]
  · exact h.npos
  · exact h.pos_eq
  · exact h.adv_eq
  · exact h.tpos_eq
  · exact h.next_eq
  · exact h.due_eq
  · exact h.slot_mod
  · exact h.slot_lo
  · exact h.slot_hi
  · exact h.tlast_eq
  · exact h.closed_eq
  · exact h.nodbl

theorem tinv_req {s : State} (t : Nat) (h : TInv s) : TInv (reqStep fixed t s) := by
  obtain ⟨f1, _, f2, f3, f4, f5, f6, f7, f8, f9, f10, f11, f12, _⟩ := req_frame t s
  exact tinv_of_frame h ⟨f1, f2, f3, f4, f5, f6, f7, f8, f9, f10, f11, f12⟩

/-- a step of thread `t` leaves the requester invariant of every other thread alone -/
theorem rinv_req_other {s : State} (t u : Nat) (hne : u ≠ t) (h : RInv s u) : RInv (reqStep fixed t s) u := by
  have key : let s' := reqStep fixed t s
      s'.n = s.n ∧ s'.adv = s.adv ∧ s'.cls = s.cls ∧ s'.rpc u = s.rpc u ∧ s'.rk u = s.rk u ∧ s'.rpos u = s.rpos u ∧
      s'.rdata u = s.rdata u ∧ s'.ginvCls u = s.ginvCls u ∧ s'.ginvAdv u = s.ginvAdv u ∧ s'.ga1 u = s.ga1 u := by
    cases hp : s.rpc t
    · simp [reqStep, hp]
    · simp [reqStep, hp, upd_ne _ _ hne]
    · simp [reqStep, hp, fixed, upd_ne _ _ hne]
    · by_cases hc : s.rpos t = s.pos <;> simp [reqStep, hp, hc, complete, upd_ne _ _ hne]
  obtain ⟨k1, k2, k3, k4, k5, k6, k7, k8, k9, k10⟩ := key
  refine ⟨?_, ?_, ?_, ?_⟩ <;> simp only [k1, k2, k3, k4, k5, k6, k7, k8, k9, k10]
  · exact h.krange
  · exact h.inv_le
  · exact h.a1
  · exact h.data

theorem rinv_req_self {s : State} (t : Nat) (hT : TInv s) (h : RInv s t) : RInv (reqStep fixed t s) t := by
  have hn := hT.npos
  cases hp : s.rpc t with
  | idle => simpa [reqStep, hp] using h
  | loadPos =>
    have hk := h.krange (by simp [hp])
    have hi := h.inv_le (by simp [hp])
    refine ⟨?_, ?_, ?_, ?_⟩ <;> simp [reqStep, hp]
    · exact hk
    · exact hi
    · exact ⟨hT.pos_eq, hi.2.2⟩
  | loadSlot =>
    have hk := h.krange (by simp [hp])
    have hi := h.inv_le (by simp [hp])
    have ha := h.a1 (by simp [hp])
    refine ⟨?_, ?_, ?_, ?_⟩ <;> simp [reqStep, hp, fixed]
    · exact hk
    · exact hi
    · exact ha
    · have hlt : (s.rpos t + s.rk t) % s.n < s.n := Nat.mod_lt _ hn
      have h1 := hT.slot_mod _ hlt
      have h2 := hT.slot_lo _ hlt
      have h3 := hT.slot_hi _ hlt
      have h4 := hT.adv_le_swp
      refine ⟨?_, by omega, by omega, by omega⟩
      rw [h1, ha.1, Nat.mod_add_mod, Nat.add_assoc, Nat.mod_add_mod, Nat.add_assoc]
  | reloadPos =>
    by_cases hc : s.rpos t = s.pos
    · refine ⟨?_, ?_, ?_, ?_⟩ <;> simp [reqStep, hp, hc, complete]
    · have hk := h.krange (by simp [hp])
      have hi := h.inv_le (by simp [hp])
      refine ⟨?_, ?_, ?_, ?_⟩ <;> simp [reqStep, hp, hc]
      · exact hk
      · exact hi

theorem dinv_req_old {s : State} (t : Nat) (r : Req) (h : DInv s r) : DInv (reqStep fixed t s) r := by
  obtain ⟨f1, _, _, _, _, _, _, _, _, _, f10, _⟩ := req_frame t s
  unfold DInv
  rw [f1, f10]
  exact h

/-- the record written by a completing request satisfies `DInv` — the heart of C03 -/
theorem dinv_complete {s : State} (t : Nat) (hT : TInv s) (h : RInv s t)
    (hp : s.rpc t = .reloadPos) (hc : s.rpos t = s.pos) :
    DInv s { tid := t, k := s.rk t, invCls := s.ginvCls t, invAdv := s.ginvAdv t,
             retAdv := s.adv, retCls := s.cls, chan := s.rdata t } := by
  have hn := hT.npos
  have hk := h.krange (by simp [hp])
  have hi := h.inv_le (by simp [hp])
  obtain ⟨ha1, ha2, ha3⟩ := h.a1 (Or.inr hp)
  obtain ⟨hd1, hd2, hd3, hd4⟩ := h.data hp
  have hmod : s.ga1 t % s.n = s.adv % s.n := by rw [← ha1, hc, hT.pos_eq]
  refine ⟨Nat.le_refl _, hi.1, (by show s.ginvAdv t ≤ s.adv; omega), ?_⟩
  simp only []
  rcases hk with hk | ⟨hn1, hk0⟩
  · -- n ≥ 2
    have hd1' : (s.rdata t + 1) % s.n = (s.adv + (s.rk t + 1)) % s.n := by
      rw [hd1, Nat.add_assoc]; exact add_mod_congr _ hmod
    have lower : s.ga1 t + s.rk t + 1 ≤ s.rdata t + 1 := by
      apply Nat.le_of_not_lt
      intro hlt
      have := mod_window hd1.symm hlt
      omega
    have upper : s.rdata t + 1 ≤ s.adv + (s.rk t + 1) := by
      apply Nat.le_of_not_lt
      intro hlt
      have := mod_window hd1' hlt
      omega
    exact ⟨s.rdata t - s.rk t, by omega, by omega, by omega, fun _ => by omega⟩
  · -- n = 1, k = 0
    exact ⟨s.rdata t, by omega, by omega, by omega, fun h2 => by omega⟩

theorem dinv_req_new {s : State} (t : Nat) (hT : TInv s) (h : RInv s t) :
    ∀ r ∈ (reqStep fixed t s).done, r ∈ s.done ∨ DInv (reqStep fixed t s) r := by
  intro r hr
  cases hp : s.rpc t with
  | idle => left; simpa [reqStep, hp] using hr
  | loadPos => left; simpa [reqStep, hp] using hr
  | loadSlot => left; simpa [reqStep, hp, fixed] using hr
  | reloadPos =>
    by_cases hc : s.rpos t = s.pos
    · have hd := dinv_complete t hT h hp hc
      simp only [reqStep, hp, hc, ↓reduceIte, complete, List.mem_cons] at hr
      rcases hr with hr | hr
      · right
        obtain ⟨f1, _, _, _, _, _, _, _, _, _, f10, _⟩ := req_frame t s
        unfold DInv
        rw [f1, f10, hr]
        exact hd
      · left; exact hr
    · left; simpa [reqStep, hp, hc] using hr

/-! ### invoke -/

theorem invoke_frame (t : Nat) (d : Int) (s : State) :
    let s' := invokeStep t d s
    s'.n = s.n ∧ s'.step = s.step ∧ s'.pos = s.pos ∧ s'.slot = s.slot ∧ s'.closedBy = s.closedBy ∧
    s'.nextChan = s.nextChan ∧ s'.dblClose = s.dblClose ∧ s'.tpc = s.tpc ∧ s'.tpos = s.tpos ∧ s'.tlast = s.tlast ∧
    s'.adv = s.adv ∧ s'.cls = s.cls ∧ s'.due = s.due ∧ s'.done = s.done ∧ s'.rpos = s.rpos ∧ s'.rdata = s.rdata ∧
    s'.ga1 = s.ga1 := by
  unfold invokeStep
  cases hp : s.rpc t <;> simp
  split <;> simp

theorem tinv_invoke {s : State} (t : Nat) (d : Int) (h : TInv s) : TInv (invokeStep t d s) := by
  obtain ⟨f1, _, f2, f3, f4, f5, f6, f7, f8, f9, f10, f11, f12, _⟩ := invoke_frame t d s
  exact tinv_of_frame h ⟨f1, f2, f3, f4, f5, f6, f7, f8, f9, f10, f11, f12⟩

theorem rinv_invoke {s : State} (t u : Nat) (d : Int) (hT : TInv s) (h : RInv s u) : RInv (invokeStep t d s) u := by
  unfold invokeStep
  cases hp : s.rpc t with
  | idle =>
    simp only []
    by_cases hr : rangePanics s.step s.n d = true
    · rw [if_pos hr]; exact ⟨h.krange, h.inv_le, h.a1, h.data⟩
    · rw [if_neg hr]
      by_cases hu : u = t
      · subst hu
        have hk := bucketIndex_range s.step s.n d (by simpa using hr)
        have := hT.cls_le_adv
        refine ⟨?_, ?_, ?_, ?_⟩ <;> simp
        · exact hk
        · exact this
      · refine ⟨?_, ?_, ?_, ?_⟩ <;> simp only [upd_ne _ _ hu]
        · exact h.krange
        · exact h.inv_le
        · exact h.a1
        · exact h.data
  | loadPos => exact h
  | loadSlot => exact h
  | reloadPos => exact h

theorem dinv_invoke {s : State} (t : Nat) (d : Int) (r : Req) (h : DInv s r) : DInv (invokeStep t d s) r := by
  obtain ⟨f1, _, _, _, _, _, _, _, _, _, f10, _⟩ := invoke_frame t d s
  unfold DInv
  rw [f1, f10]
  exact h

/-! ### the whole invariant -/

structure Inv (s : State) : Prop where
  t : TInv s
  r : ∀ u, RInv s u
  d : ∀ q ∈ s.done, DInv s q

theorem inv_init (n step : Nat) (hn : 0 < n) : Inv (init n step) := by
  refine ⟨tinv_init n step hn, ?_, ?_⟩
  · intro u; refine ⟨?_, ?_, ?_, ?_⟩ <;> simp [init]
  · simp [init]

theorem inv_invoke {s : State} (h : Inv s) (t : Nat) (d : Int) : Inv (invokeStep t d s) := by
  refine ⟨tinv_invoke t d h.t, fun u => rinv_invoke t u d h.t (h.r u), ?_⟩
  intro q hq
  have : (invokeStep t d s).done = s.done := (invoke_frame t d s).2.2.2.2.2.2.2.2.2.2.2.2.2.1
  rw [this] at hq
  exact dinv_invoke t d q (h.d q hq)

theorem inv_step {s : State} (h : Inv s) (a : Act) : Inv (step fixed s a) := by
  cases a with
  | tick =>
    refine ⟨tinv_tick h.t, fun u => rinv_tick u (h.r u), ?_⟩
    intro q hq
    have : (tickStep fixed s).done = s.done := (tick_frame fixed s).2.2.2.2.2.2.2.2.2.1
    simp only [step] at hq
    rw [this] at hq
    exact dinv_tick q (h.d q hq)
  | invoke t d => exact inv_invoke h t d
  | reset t base arg => exact inv_invoke h t _
  | req t =>
    refine ⟨tinv_req t h.t, ?_, ?_⟩
    · intro u
      by_cases hu : u = t
      · subst hu; exact rinv_req_self u h.t (h.r u)
      · exact rinv_req_other t u hu (h.r u)
    · intro q hq
      rcases dinv_req_new t h.t (h.r t) q hq with hold | hnew
      · exact dinv_req_old t q (h.d q hold)
      · exact hnew

theorem inv_run {s : State} (h : Inv s) (acts : List Act) : Inv (run fixed s acts) := by
  induction acts generalizing s with
  | nil => exact h
  | cons a rest ih => exact ih (inv_step h a)

theorem inv_reachable (n step : Nat) (hn : 0 < n) (acts : List Act) : Inv (run fixed (init n step) acts) :=
  inv_run (inv_init n step hn) acts

/-! ### monotonicity of the tick counters along a run -/

theorem step_mono (v : Variant) (s : State) (a : Act) :
    s.cls ≤ (step v s a).cls ∧ s.adv ≤ (step v s a).adv := by
  cases a with
  | tick => have := tick_frame v s; exact ⟨this.2.2.2.2.2.2.2.2.2.2.2.2, this.2.2.2.2.2.2.2.2.2.2.2.1⟩
  | invoke t d => have := invoke_frame t d s; simp only [step]; omega
  | reset t base arg => have := invoke_frame t (resetInterval s.step base arg) s; simp only [step]; omega
  | req t =>
    simp only [step]
    cases hp : s.rpc t
    · simp [reqStep, hp]
    · simp [reqStep, hp]
    · by_cases hv : v.recheck = true <;> simp [reqStep, hp, hv, complete]
    · by_cases hc : s.rpos t = s.pos <;> simp [reqStep, hp, hc, complete]

theorem run_mono (v : Variant) (s : State) (acts : List Act) :
    s.cls ≤ (run v s acts).cls ∧ s.adv ≤ (run v s acts).adv := by
  induction acts generalizing s with
  | nil => exact ⟨Nat.le_refl _, Nat.le_refl _⟩
  | cons a rest ih =>
    have h1 := step_mono v s a
    have h2 := ih (step v s a)
    simp only [run, List.foldl_cons] at h2 ⊢
    omega

theorem run_append (v : Variant) (s : State) (a b : List Act) : run v s (a ++ b) = run v (run v s a) b := by
  simp [run, List.foldl_append]

/-! ### erasure: the ghost fields are never read by the real part -/

/-- the non-ghost part of a state -/
structure Real where
  n : Nat
  step : Nat
  pos : Nat
  slot : Nat → Nat
  closed : Nat → Bool
  nextChan : Nat
  dblClose : Bool
  tpc : TPc
  tpos : Nat
  tlast : Nat
  rpc : Nat → RPc
  rk : Nat → Nat
  rpos : Nat → Nat
  rdata : Nat → Nat
  panics : List (Nat × Int)

def real (s : State) : Real :=
  { n := s.n, step := s.step, pos := s.pos, slot := s.slot, closed := fun c => (s.closedBy c).isSome,
    nextChan := s.nextChan, dblClose := s.dblClose, tpc := s.tpc, tpos := s.tpos, tlast := s.tlast,
    rpc := s.rpc, rk := s.rk, rpos := s.rpos, rdata := s.rdata, panics := s.panics }

def tickReal (v : Variant) (r : Real) : Real :=
  match r.tpc with
  | .loadPos => { r with tpos := r.pos, tpc := if v.swapFirst then .swapSlot else .storePos }
  | .storePos => { r with pos := (r.tpos + 1) % r.n, tpc := if v.swapFirst then .close else .swapSlot }
  | .swapSlot =>
    { r with tlast := r.slot r.tpos, slot := upd r.slot r.tpos r.nextChan, nextChan := r.nextChan + 1,
             tpc := if v.swapFirst then .storePos else .close }
  | .close =>
    { r with closed := upd r.closed r.tlast true, dblClose := r.dblClose || r.closed r.tlast, tpc := .loadPos }

def reqReal (v : Variant) (t : Nat) (r : Real) : Real :=
  match r.rpc t with
  | .idle => r
  | .loadPos => { r with rpos := upd r.rpos t r.pos, rpc := upd r.rpc t .loadSlot }
  | .loadSlot =>
    let c := r.slot ((r.rpos t + r.rk t) % r.n)
    if v.recheck then { r with rdata := upd r.rdata t c, rpc := upd r.rpc t .reloadPos }
    else { r with rdata := upd r.rdata t c, rpc := upd r.rpc t .idle }
  | .reloadPos =>
    if r.rpos t = r.pos then { r with rpc := upd r.rpc t .idle } else { r with rpc := upd r.rpc t .loadPos }

def invokeReal (t : Nat) (d : Int) (r : Real) : Real :=
  match r.rpc t with
  | .idle =>
    if rangePanics r.step r.n d then { r with panics := (t, d) :: r.panics }
    else { r with rk := upd r.rk t (bucketIndex r.step d), rpc := upd r.rpc t .loadPos }
  | _ => r

def stepReal (v : Variant) (r : Real) : Act → Real
  | .tick => tickReal v r
  | .invoke t d => invokeReal t d r
  | .reset t base arg => invokeReal t (resetInterval r.step base arg) r
  | .req t => reqReal v t r

theorem real_invoke (t : Nat) (d : Int) (s : State) : real (invokeStep t d s) = invokeReal t d (real s) := by
  unfold invokeStep invokeReal
  cases hp : s.rpc t <;> simp [real, hp]
  by_cases hr : rangePanics s.step s.n d = true <;> simp [hr]

/-- the real part evolves on its own: ghost fields are never read -/
theorem real_step (v : Variant) (s : State) (a : Act) : real (step v s a) = stepReal v (real s) a := by
  cases a with
  | tick =>
    simp only [step, stepReal]
    unfold tickStep tickReal
    cases ht : s.tpc <;> simp [real, ht]
    funext c
    by_cases hc : c = s.tlast <;> simp [upd, hc]
  | invoke t d => exact real_invoke t d s
  | reset t base arg => exact real_invoke t _ s
  | req t =>
    simp only [step, stepReal]
    unfold reqStep reqReal
    cases hp : s.rpc t <;> simp [real, hp]
    · by_cases hv : v.recheck = true <;> simp [hv, complete]
    · by_cases hc : s.rpos t = s.pos <;> simp [hc, complete]

theorem erasure (v : Variant) (s s' : State) (a : Act) (h : real s = real s') :
    real (step v s a) = real (step v s' a) := by
  rw [real_step, real_step, h]

end Got.Lemmas.Wheel
