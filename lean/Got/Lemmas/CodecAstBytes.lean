import Got.Lemmas.CodecAstLoop
/-
Translator tie of the iox codec, part 3: `OctetsStream.Read` (the case ReadBytes uses: the whole request is available)
and `OctetsReader.ReadBytes` / `ReadString` — `make([]byte, size)` with the ghost allocation counter, the call
`my.stream.Read(data)` whose element writes (`copy`) come back to the caller's slice, the inlined `Len()`/`Position()`.
-/
set_option linter.unusedSimpArgs false
namespace Got.Lemmas.CodecAst
open Got.Model.MiniGoBytes Got.Generated.AstIox
open Got.Model.Codec (read7 readBytes readString streamRead)

theorem tbl_s_Read' : table "OctetsStream.Read" = some OctetsStream_Read := rfl

theorem copy_full (buf : List Byte) (pos n : Nat) (h : pos + n ≤ buf.length) :
    copyInto (List.replicate n (0 : Byte)) ((buf.take (pos + n)).drop pos) = (buf.drop pos).take n := by
  have e : (buf.take (pos + n)).drop pos = (buf.drop pos).take n := by
    rw [List.drop_take]; congr 1; omega
  have hl : ((buf.drop pos).take n).length = n := by
    rw [List.length_take, List.length_drop]; omega
  unfold copyInto
  rw [e, List.length_replicate, hl, List.take_take, Nat.min_self, List.drop_replicate, Nat.sub_self]
  simp

/-- `Read(buffer)` with a zero-filled buffer of `n ≥ 1` bytes when `n` bytes are available: count `n`, the bytes come
    back in the caller's slice, the cursor moves by `n` -/
theorem s_read_full_ast (buf : List Byte) (pos a n : Nat) (fuel : Nat) (hf : 14 ≤ fuel) (hn : 0 < n)
    (h : pos + n ≤ buf.length) :
    run table "OctetsStream.Read" fuel [.bytes (List.replicate n 0)] ⟨buf, pos, a⟩ =
      some (.ret [.int n, .err none] [some ((buf.drop pos).take n)] ⟨buf, ((pos + n : Nat) : Int), a⟩) := by
  obtain ⟨f, rfl⟩ : ∃ f, fuel = f + 14 := ⟨fuel - 14, by omega⟩
  rw [run_eq tbl_s_Read' _ _ _ rfl]
  simp only [OctetsStream_Read]
  have h1 : ¬ ((n : Int) = 0) := by omega
  have h2 : ¬ ((buf.length : Int) - (pos : Int) = 0) := by omega
  have h3 : ¬ ((buf.length : Int) - (pos : Int) < (n : Int)) := by omega
  have h4 : ¬ ((pos : Int) < 0 ∨ (pos : Int) + (n : Int) < (pos : Int) ∨ (buf.length : Int) < (pos : Int) + (n : Int)) := by
    omega
  have h5 : ((pos : Int) + (n : Int)).toNat = pos + n := by omega
  ast_eval [List.length_replicate, h1, h2, h3, Val.slice, sliceList, h4, h5, copy_full buf pos n h]
  simp [List.lookup, Int.natCast_add]

theorem tbl_r_ReadBytes' : table "OctetsReader.ReadBytes" = some OctetsReader_ReadBytes := rfl

/-- **ReadBytes** on arbitrary bytes: outcome, position and the number of bytes passed to `make` are the model's -/
theorem r_readBytes_ast (buf : List Byte) (pos a : Nat) (fuel : Nat) (hf : 120 ≤ fuel) (hp : pos ≤ buf.length) :
    run table "OctetsReader.ReadBytes" fuel [] ⟨buf, pos, a⟩ =
      some (readOut .bytes (.bytes []) ⟨buf, pos, a⟩ (readBytes buf pos)) := by
  obtain ⟨f, rfl⟩ : ∃ f, fuel = f + 20 := ⟨fuel - 20, by omega⟩
  rw [run_eq tbl_r_ReadBytes' _ _ _ rfl]
  simp only [OctetsReader_ReadBytes]
  rw [exec_call (vs := []) (h := rfl), r_read7_ast buf pos a (f + 19) (by omega)]
  rcases Got.Lemmas.Codec.readBytes_char buf pos hp with ⟨e, p, h7, hr⟩ | ⟨size, p, h7, hc⟩
  · rw [h7, hr]
    simp only [readOut]
    ast_eval
    try (cases e <;> simp [cv])
  · rw [h7]
    simp only [readOut]
    cases hc with
    | negative hneg hr =>
      rw [hr]
      have hs : size.slt 0#32 = true := by simp [BitVec.slt, hneg]
      ast_eval [hs]
      try simp [cv]
    | empty hz hr =>
      rw [hr]
      subst hz
      have hs : (0#32 : BitVec 32).slt 0#32 = false := by decide
      ast_eval [hs]
      try simp
    | short h0 hi hsh hr =>
      rw [hr]
      have hs : size.slt 0#32 = false := by simp [BitVec.slt]; omega
      have hz : ¬ (size = 0#32) := by
        intro hz; subst hz; simp at h0
      have hc : (buf.length : Int) - (p : Int) < size.toInt := by omega
      ast_eval [hs, hz, hc]
      try simp [cv]
    | full h0 hi hfull hr =>
      rw [hr]
      have hs : size.slt 0#32 = false := by simp [BitVec.slt]; omega
      have hz : ¬ (size = 0#32) := by
        intro hz; subst hz; simp at h0
      have hc : ¬ ((buf.length : Int) - (p : Int) < size.toInt) := by omega
      have hk : ¬ (size.toInt < 0) := by omega
      have hn : size.toInt.toNat = size.toNat := by omega
      ast_eval [hs, hz, hc, hk, hn]
      rw [exec_call (vs := [.bytes (List.replicate size.toNat 0)]) (h := by ast_eval),
        s_read_full_ast buf p (a + size.toNat) size.toNat (f + 13) (by omega) h0 hfull]
      have hback : BitVec.ofInt 32 ((size.toNat : Nat) : Int) = size := by
        rw [BitVec.ofInt_natCast, BitVec.ofNat_toNat, BitVec.setWidth_eq]
      ast_eval [hback]
      try simp [List.lookup]

theorem tbl_r_ReadString' : table "OctetsReader.ReadString" = some OctetsReader_ReadString := rfl

/-- ReadString = ReadBytes + `convert.String` (identity on the bytes) -/
theorem r_readString_ast (buf : List Byte) (pos a : Nat) (fuel : Nat) (hf : 130 ≤ fuel) (hp : pos ≤ buf.length) :
    run table "OctetsReader.ReadString" fuel [] ⟨buf, pos, a⟩ =
      some (readOut .bytes (.bytes []) ⟨buf, pos, a⟩ (readString buf pos)) := by
  obtain ⟨f, rfl⟩ : ∃ f, fuel = f + 8 := ⟨fuel - 8, by omega⟩
  rw [run_eq tbl_r_ReadString' _ _ _ rfl]
  simp only [OctetsReader_ReadString]
  rw [exec_call (vs := []) (h := rfl), r_readBytes_ast buf pos a (f + 7) (by omega) hp]
  unfold readString readOut
  cases (readBytes buf pos).out with
  | ok v => ast_eval
  | err e => ast_eval
  | crash => rfl

end Got.Lemmas.CodecAst
