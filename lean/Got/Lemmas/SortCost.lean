import Got.Lemmas.SortBounds
/-
Number of Less calls (read off the log) of every function of the sort model, for an ARBITRARY less function.
`cnt s` = number of Less entries in the log of `s`; every lemma has the form `cnt (f … s) ≤ cnt s + bound`.
All loops of the Go code are index-bounded whatever the comparisons answer, so no hypothesis on less is needed.
-/
namespace Got.Lemmas.Sort
open Got.Model.Sort

variable {K V : Type} (less : LessFn K V)

def cnt (s : St K V) : Nat := lessCount s.log

@[simp] theorem cnt_note (s : St K V) (i j : Nat) (r : Bool) : cnt (s.note i j r) = cnt s + 1 := rfl
@[simp] theorem cnt_swap (s : St K V) (i j : Nat) : cnt (s.swap i j) = cnt s := rfl

/-- further facts about the two size thresholds (12 and 40 in the source) used by the cost bounds only -/
theorem thrInsertion_le : thrInsertion ≤ 12 := by decide
theorem thrInsertion_ge5 : 5 ≤ thrInsertion := by decide
theorem thrNinther_ge : 14 ≤ thrNinther := by decide

/-- `tri k = 0 + 1 + … + (k-1)` -/
def tri : Nat → Nat
  | 0 => 0
  | k + 1 => tri k + k

theorem tri_le_small : ∀ m, m ≤ 12 → tri m ≤ 6 * m := by decide

/-! ### insertion sort and the tail of quickSort -/

theorem insInner_cost (a j : Nat) (s : St K V) : cnt (insInner less a j s) ≤ cnt s + (j - a) := by
  fun_induction insInner less a j s with
  | case1 s => omega
  | case2 j s h r s1 hr ih =>
    have : cnt (s1.swap (j + 1) j) = cnt s + 1 := rfl
    omega
  | case3 j s h r s1 hr =>
    have : cnt s1 = cnt s + 1 := rfl
    omega
  | case4 j s h => omega

theorem insOuter_cost (a b i : Nat) (s : St K V) (hai : a ≤ i) (hib : i ≤ b) :
    cnt (insOuter less a b i s) + tri (i - a) ≤ cnt s + tri (b - a) := by
  fun_induction insOuter less a b i s with
  | case1 i s h ih =>
    have h1 := insInner_cost less a i s
    have h2 := ih (by omega) (by omega)
    have e : i + 1 - a = (i - a) + 1 := by omega
    rw [e, tri] at h2
    omega
  | case2 i s h =>
    have : i = b := by omega
    subst this; omega

theorem insertionSort_cost (a b : Nat) (s : St K V) (hab : a + 1 ≤ b) :
    cnt (insertionSort less a b s) ≤ cnt s + tri (b - a) := by
  unfold insertionSort
  have := insOuter_cost less a b (a + 1) s (by omega) hab
  have e : a + 1 - a = 0 + 1 := by omega
  rw [e, tri, tri] at this
  omega

theorem gapPass_cost (b : Nat) : ∀ (n i : Nat) (s : St K V), n = b - i → cnt (gapPass less b i s) ≤ cnt s + (b - i) := by
  intro n
  induction n with
  | zero =>
    intro i s hn
    rw [gapPass, if_neg (by omega)]; omega
  | succ n ih =>
    intro i s hn
    rw [gapPass, if_pos (by omega)]
    dsimp only
    split
    · have := ih (i + 1) ((s.note i (i - gapLess) (less s i (i - gapLess))).swap i (i - gapSwap)) (by omega)
      rw [cnt_swap, cnt_note] at this
      omega
    · have := ih (i + 1) (s.note i (i - gapLess) (less s i (i - gapLess))) (by omega)
      rw [cnt_note] at this
      omega

theorem smallSort_cost (a b : Nat) (s : St K V) (hm : b - a ≤ 12) :
    cnt (smallSort less a b s) ≤ cnt s + 7 * (b - a) := by
  unfold smallSort
  split
  · have h1 := gapPass_cost less b _ (a + gapInit) s rfl
    have h2 := insertionSort_cost less a b (gapPass less b (a + gapInit) s) (by omega)
    have h3 := tri_le_small (b - a) hm
    rw [gapInit_eq] at h1 h2 ⊢
    omega
  · omega

/-! ### heap sort -/

theorem pickChild_cost (hi first child : Nat) (s : St K V) :
    cnt (pickChild less hi first child s).2 ≤ cnt s + 1 := by
  unfold pickChild
  split
  · dsimp only; rw [cnt_note]; omega
  · dsimp only; omega

/-- one sift costs at most two comparisons per level below `root` -/
theorem siftDown_cost (hi first root : Nat) (s : St K V) :
    ∀ k, hi < (root + 1) * 2 ^ k → cnt (siftDown less hi first root s) ≤ cnt s + 2 * k := by
  fun_induction siftDown less hi first root s with
  | case1 root s child h => intro k _; omega
  | case2 root s child h pc r s1 hr =>
    intro k hk
    have hp : cnt pc.2 ≤ cnt s + 1 := pickChild_cost less hi first child s
    have h1 : cnt s1 = cnt pc.2 + 1 := rfl
    have hk1 : k ≥ 1 := by
      rcases Nat.eq_zero_or_pos k with hk0 | hk0
      · subst hk0; simp at hk; omega
      · exact hk0
    omega
  | case3 root s child h pc r s1 hr ih =>
    intro k hk
    have hp : cnt pc.2 ≤ cnt s + 1 := pickChild_cost less hi first child s
    have hf : child ≤ pc.1 ∧ pc.1 < hi ∧ pc.1 ≤ child + 1 := pickChild_fst less hi first child s (by omega)
    have h1 : cnt (s1.swap (first + root) (first + pc.1)) = cnt pc.2 + 1 := rfl
    have hk1 : k ≥ 1 := by
      rcases Nat.eq_zero_or_pos k with hk0 | hk0
      · subst hk0; simp at hk; omega
      · exact hk0
    obtain ⟨k', hk'⟩ : ∃ k', k = k' + 1 := ⟨k - 1, by omega⟩
    subst hk'
    have hstep : hi < (pc.1 + 1) * 2 ^ k' := by
      have e : (root + 1) * 2 ^ (k' + 1) = (2 * (root + 1)) * 2 ^ k' := by
        rw [Nat.pow_succ, Nat.mul_comm (2 ^ k') 2, ← Nat.mul_assoc, Nat.mul_comm (root + 1) 2]
      rw [e] at hk
      have : (2 * (root + 1)) * 2 ^ k' ≤ (pc.1 + 1) * 2 ^ k' := Nat.mul_le_mul_right _ (by omega)
      omega
    have := ih k' hstep
    omega

theorem siftDown_cost0 (hi first root k : Nat) (s : St K V) (hk : hi < 2 ^ k) :
    cnt (siftDown less hi first root s) ≤ cnt s + 2 * k := by
  apply siftDown_cost less hi first root s k
  have : 1 * 2 ^ k ≤ (root + 1) * 2 ^ k := Nat.mul_le_mul_right _ (by omega)
  omega

theorem heapBuild_cost (hi first i k : Nat) (s : St K V) (hk : hi < 2 ^ k) :
    cnt (heapBuild less hi first i s) ≤ cnt s + (i + 1) * (2 * k) := by
  fun_induction heapBuild less hi first i s with
  | case1 s =>
    have := siftDown_cost0 less hi first 0 k s hk
    omega
  | case2 i s ih =>
    have h1 := siftDown_cost0 less hi first (i + 1) k s hk
    have e : (i + 1 + 1) * (2 * k) = (i + 1) * (2 * k) + 2 * k := by
      rw [Nat.add_mul (i + 1) 1 (2 * k), Nat.one_mul]
    rw [e]
    omega

theorem heapPop_cost (first i k : Nat) (s : St K V) (hk : i ≤ 2 ^ k) :
    cnt (heapPop less first i s) ≤ cnt s + i * (2 * k) := by
  fun_induction heapPop less first i s with
  | case1 s => omega
  | case2 i s ih =>
    have h1 := siftDown_cost0 less i first 0 k (s.swap first (first + i)) (by omega)
    rw [cnt_swap] at h1
    have h2 := ih (by omega)
    have e : (i + 1) * (2 * k) = i * (2 * k) + 2 * k := by
      rw [Nat.add_mul i 1 (2 * k), Nat.one_mul]
    rw [e]
    omega

/-- heapSort_func on `m = b-a < 2^k` elements: at most `(3m+2)·k` comparisons -/
theorem heapSort_cost (a b k : Nat) (s : St K V) (hk : b - a < 2 ^ k) :
    cnt (heapSort less a b s) ≤ cnt s + (3 * (b - a) + 2) * k := by
  unfold heapSort
  dsimp only
  have h1 := heapBuild_cost less (b - a) a ((b - a - 1) / 2) k s hk
  have h2 := heapPop_cost less a (b - a) k (heapBuild less (b - a) a ((b - a - 1) / 2) s) (by omega)
  generalize heapBuild less (b - a) a ((b - a - 1) / 2) s = s1 at *
  have e1 : ((b - a - 1) / 2 + 1) * (2 * k) + (b - a) * (2 * k) = (((b - a - 1) / 2 + 1 + (b - a)) * 2) * k := by
    rw [← Nat.add_mul, Nat.mul_assoc]
  have e2 : (((b - a - 1) / 2 + 1 + (b - a)) * 2) * k ≤ (3 * (b - a) + 2) * k := Nat.mul_le_mul_right _ (by omega)
  omega

/-! ### doPivot -/

theorem condSwap_cost (i j : Nat) (s : St K V) : cnt (condSwap less i j s) = cnt s + 1 := by
  unfold condSwap
  dsimp only
  split <;> rfl

theorem medianOfThree_cost (m1 m0 m2 : Nat) (s : St K V) : cnt (medianOfThree less m1 m0 m2 s) ≤ cnt s + 3 := by
  unfold medianOfThree
  dsimp only
  split
  · rw [condSwap_cost, cnt_swap, cnt_note, condSwap_cost]; omega
  · rw [cnt_note, condSwap_cost]; omega

theorem choosePivot_cost (lo hi : Nat) (s : St K V) :
    cnt (choosePivot less lo hi s) ≤ cnt s + (if hi - lo > thrNinther then 12 else 3) := by
  unfold choosePivot
  dsimp only
  split
  · have h1 := medianOfThree_cost less lo (lo + (hi - lo) / divNinther) (lo + 2 * ((hi - lo) / divNinther)) s
    generalize medianOfThree less lo (lo + (hi - lo) / divNinther) (lo + 2 * ((hi - lo) / divNinther)) s = s1 at *
    have h2 := medianOfThree_cost less ((lo + hi) / 2) ((lo + hi) / 2 - (hi - lo) / divNinther)
      ((lo + hi) / 2 + (hi - lo) / divNinther) s1
    generalize medianOfThree less ((lo + hi) / 2) ((lo + hi) / 2 - (hi - lo) / divNinther)
      ((lo + hi) / 2 + (hi - lo) / divNinther) s1 = s2 at *
    have h3 := medianOfThree_cost less (hi - 1) (hi - 1 - (hi - lo) / divNinther) (hi - 1 - 2 * ((hi - lo) / divNinther)) s2
    generalize medianOfThree less (hi - 1) (hi - 1 - (hi - lo) / divNinther) (hi - 1 - 2 * ((hi - lo) / divNinther)) s2 = s3 at *
    have h4 := medianOfThree_cost less lo ((lo + hi) / 2) (hi - 1) s3
    omega
  · have h4 := medianOfThree_cost less lo ((lo + hi) / 2) (hi - 1) s
    omega

/-- a scan costs one comparison per step, plus one if it was stopped by a comparison (not by the index bound) -/
theorem scanUpLt_cost (pivot c a : Nat) (s : St K V) :
    cnt (scanUpLt less pivot c a s).2 ≤ cnt s + ((scanUpLt less pivot c a s).1 - a) +
      (if (scanUpLt less pivot c a s).1 < c then 1 else 0) := by
  fun_induction scanUpLt less pivot c a s with
  | case1 a s h r s1 hr ih =>
    have h1 : cnt s1 = cnt s + 1 := rfl
    have h2 := scanUpLt_fst less pivot c (a + 1) s1
    split at ih <;> split <;> omega
  | case2 a s h r s1 hr =>
    have h1 : cnt s1 = cnt s + 1 := rfl
    dsimp only
    rw [if_pos h]; omega
  | case3 a s h => dsimp only; omega

theorem scanUpNotGt_cost (pivot c b : Nat) (s : St K V) :
    cnt (scanUpNotGt less pivot c b s).2 ≤ cnt s + ((scanUpNotGt less pivot c b s).1 - b) +
      (if (scanUpNotGt less pivot c b s).1 < c then 1 else 0) := by
  fun_induction scanUpNotGt less pivot c b s with
  | case1 b s h r s1 hr ih =>
    have h1 : cnt s1 = cnt s + 1 := rfl
    have h2 := scanUpNotGt_fst less pivot c (b + 1) s1
    split at ih <;> split <;> omega
  | case2 b s h r s1 hr =>
    have h1 : cnt s1 = cnt s + 1 := rfl
    dsimp only
    rw [if_pos h]; omega
  | case3 b s h => dsimp only; omega

theorem scanDownGt_cost (pivot b c : Nat) (s : St K V) :
    cnt (scanDownGt less pivot b c s).2 ≤ cnt s + (c - (scanDownGt less pivot b c s).1) +
      (if b < (scanDownGt less pivot b c s).1 then 1 else 0) := by
  fun_induction scanDownGt less pivot b c s with
  | case1 s => dsimp only; omega
  | case2 c s h r s1 hr ih =>
    have h1 : cnt s1 = cnt s + 1 := rfl
    have h2 := scanDownGt_fst less pivot b c s1
    split at ih <;> split <;> omega
  | case3 c s h r s1 hr =>
    have h1 : cnt s1 = cnt s + 1 := rfl
    dsimp only
    rw [if_pos h]; omega
  | case4 c s h => dsimp only; omega

theorem scanDownNotLt_cost (pivot a b : Nat) (s : St K V) :
    cnt (scanDownNotLt less pivot a b s).2 ≤ cnt s + (b - (scanDownNotLt less pivot a b s).1) +
      (if a < (scanDownNotLt less pivot a b s).1 then 1 else 0) := by
  fun_induction scanDownNotLt less pivot a b s with
  | case1 s => dsimp only; omega
  | case2 b s h r s1 hr ih =>
    have h1 : cnt s1 = cnt s + 1 := rfl
    have h2 := scanDownNotLt_fst less pivot a b s1
    split at ih <;> split <;> omega
  | case3 b s h r s1 hr =>
    have h1 : cnt s1 = cnt s + 1 := rfl
    dsimp only
    rw [if_pos h]; omega
  | case4 b s h => dsimp only; omega

/-- the main partition loop compares every index of `[b,c)` at most once, plus one -/
theorem partLoop_cost (pivot b c : Nat) (s : St K V) (hbc : b ≤ c + 1) :
    cnt (partLoop less pivot b c s).2.2 ≤ cnt s + (c + 1 - b) := by
  fun_induction partLoop less pivot b c s with
  | case1 b c s rb rc h =>
    have f1 : b ≤ rb.1 ∧ (rb.1 ≤ c ∨ rb.1 = b) := scanUpNotGt_fst less pivot c b s
    have f2 : rc.1 ≤ c ∧ (rb.1 ≤ rc.1 ∨ rc.1 = c) := scanDownGt_fst less pivot rb.1 c rb.2
    have c1 : cnt rb.2 ≤ cnt s + (rb.1 - b) + (if rb.1 < c then 1 else 0) := scanUpNotGt_cost less pivot c b s
    have c2 : cnt rc.2 ≤ cnt rb.2 + (c - rc.1) + (if rb.1 < rc.1 then 1 else 0) := scanDownGt_cost less pivot rb.1 c rb.2
    dsimp only
    split at c1 <;> split at c2 <;> omega
  | case2 b c s rb rc h ih =>
    have f1 : b ≤ rb.1 ∧ (rb.1 ≤ c ∨ rb.1 = b) := scanUpNotGt_fst less pivot c b s
    have f2 : rc.1 ≤ c ∧ (rb.1 ≤ rc.1 ∨ rc.1 = c) := scanDownGt_fst less pivot rb.1 c rb.2
    have c1 : cnt rb.2 ≤ cnt s + (rb.1 - b) + (if rb.1 < c then 1 else 0) := scanUpNotGt_cost less pivot c b s
    have c2 : cnt rc.2 ≤ cnt rb.2 + (c - rc.1) + (if rb.1 < rc.1 then 1 else 0) := scanDownGt_cost less pivot rb.1 c rb.2
    have h3 := ih (by omega)
    rw [cnt_swap] at h3
    split at c1 <;> split at c2 <;> omega

/-- the protect loop compares every index of `[a,b)` at most once, plus one -/
theorem protectLoop_cost (pivot a b : Nat) (s : St K V) :
    cnt (protectLoop less pivot a b s).2.2 ≤ cnt s + (b + 1 - a) := by
  fun_induction protectLoop less pivot a b s with
  | case1 a b s rb ra h =>
    have f1 : rb.1 ≤ b ∧ (a ≤ rb.1 ∨ rb.1 = b) := scanDownNotLt_fst less pivot a b s
    have f2 : a ≤ ra.1 ∧ (ra.1 ≤ rb.1 ∨ ra.1 = a) := scanUpLt_fst less pivot rb.1 a rb.2
    have c1 : cnt rb.2 ≤ cnt s + (b - rb.1) + (if a < rb.1 then 1 else 0) := scanDownNotLt_cost less pivot a b s
    have c2 : cnt ra.2 ≤ cnt rb.2 + (ra.1 - a) + (if ra.1 < rb.1 then 1 else 0) := scanUpLt_cost less pivot rb.1 a rb.2
    dsimp only
    split at c1 <;> split at c2 <;> omega
  | case2 a b s rb ra h ih =>
    have f1 : rb.1 ≤ b ∧ (a ≤ rb.1 ∨ rb.1 = b) := scanDownNotLt_fst less pivot a b s
    have f2 : a ≤ ra.1 ∧ (ra.1 ≤ rb.1 ∨ ra.1 = a) := scanUpLt_fst less pivot rb.1 a rb.2
    have c1 : cnt rb.2 ≤ cnt s + (b - rb.1) + (if a < rb.1 then 1 else 0) := scanDownNotLt_cost less pivot a b s
    have c2 : cnt ra.2 ≤ cnt rb.2 + (ra.1 - a) + (if ra.1 < rb.1 then 1 else 0) := scanUpLt_cost less pivot rb.1 a rb.2
    have h3 := ih
    rw [cnt_swap] at h3
    split at c1 <;> split at c2 <;> omega

theorem dupProbe1_cost (pivot hi c : Nat) (s : St K V) : cnt (dupProbe1 less pivot hi c s).2.2 = cnt s + 1 := by
  unfold dupProbe1; dsimp only; split <;> rfl

theorem dupProbe2_cost (pivot b dups : Nat) (s : St K V) : cnt (dupProbe2 less pivot b dups s).2.2 = cnt s + 1 := by
  unfold dupProbe2; dsimp only; split <;> rfl

theorem dupProbe3_cost (pivot m b dups : Nat) (s : St K V) : cnt (dupProbe3 less pivot m b dups s).2.2 = cnt s + 1 := by
  unfold dupProbe3; dsimp only; split <;> rfl

theorem dupPhase_cost (lo hi b c : Nat) (s : St K V) : cnt (dupPhase less lo hi b c s).2.2.2 ≤ cnt s + 3 := by
  unfold dupPhase
  dsimp only
  split
  · unfold dupProbe
    dsimp only
    rw [dupProbe3_cost, dupProbe2_cost, dupProbe1_cost]; omega
  · dsimp only; omega

theorem partitionPhase_cost (lo hi : Nat) (s : St K V) (h : lo + 3 ≤ hi) :
    cnt (partitionPhase less lo hi s).2.2.2 ≤ cnt s + (if hi - lo > thrNinther then 12 else 3) + (hi - lo) := by
  unfold partitionPhase
  dsimp only
  have h1 := choosePivot_cost less lo hi s
  generalize choosePivot less lo hi s = s1 at *
  have f1 := scanUpLt_fst less lo (hi - 1) (lo + 1) s1
  have c1 := scanUpLt_cost less lo (hi - 1) (lo + 1) s1
  generalize scanUpLt less lo (hi - 1) (lo + 1) s1 = ra at *
  have c2 := partLoop_cost less lo ra.1 (hi - 1) ra.2 (by omega)
  generalize partLoop less lo ra.1 (hi - 1) ra.2 = pl at *
  split at c1 <;> omega

/-- doPivot_func on `m = hi-lo ≥ 3` elements, any less: at most `2m + 3 + (12 or 3)` comparisons, and `midlo ≤ midhi` -/
theorem doPivot_cost (lo hi : Nat) (s : St K V) (h : lo + 3 ≤ hi) :
    cnt (doPivot less lo hi s).2.2 ≤ cnt s + 2 * (hi - lo) + 3 + (if hi - lo > thrNinther then 12 else 3) ∧
    (doPivot less lo hi s).1 ≤ (doPivot less lo hi s).2.1 := by
  unfold doPivot
  dsimp only
  have hp := partitionPhase_spec less lo hi s h
  have cp := partitionPhase_cost less lo hi s h
  generalize partitionPhase less lo hi s = p at *
  obtain ⟨st1, p1, p2, p3, p4, p5⟩ := hp
  have hd := dupPhase_spec less lo hi p.2.1 p.2.2.1 p.2.2.2 h (by omega) p3 p4 p5
  have cd := dupPhase_cost less lo hi p.2.1 p.2.2.1 p.2.2.2
  generalize dupPhase less lo hi p.2.1 p.2.2.1 p.2.2.2 = d at *
  obtain ⟨st2, d1, d2, d3, d4⟩ := hd
  split
  · have hb := protectLoop_bounds less lo p.1 d.1 d.2.2.2
    have cpr := protectLoop_cost less lo p.1 d.1 d.2.2.2
    generalize protectLoop less lo p.1 d.1 d.2.2.2 = pr at *
    rw [cnt_swap]
    constructor <;> omega
  · dsimp only
    rw [cnt_swap]
    constructor <;> omega

end Got.Lemmas.Sort
