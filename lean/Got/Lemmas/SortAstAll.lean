import Got.Lemmas.SortAstQuick
import Got.Lemmas.SortAstHeap
import Got.Lemmas.SortAstPivot
import Got.Lemmas.SortQuick
/-
Translator tie of C15, assembly: with the generated program `Got.Generated.AstSortxSort.prog` as the callee table,
the refinement statements of the single functions compose to: `sliceByAst` (SliceBy with maxDepth and quickSort_func
interpreted from the generated terms) = the model's `sliceBy`, for every sufficiently large fuel.
`PivotSpec less` is the refinement statement of doPivot_func (its proof lives in Got/Lemmas/SortAstPivot.lean).
-/
set_option linter.unusedSimpArgs false
namespace Got.Lemmas.SortAst
open Got.Model.MiniGoSort Got.Model.Sort Got.Model.SortAst
open Got.Generated.AstSortxSort

variable {K V : Type}

/-- refinement statement of doPivot_func over the generated program -/
def PivotSpec (less : LessFn K V) : Prop :=
  ∀ (lo hi : Nat) (s : St K V), lo + 3 ≤ hi → hi < B62 →
    FnRuns (sortWorld less) prog doPivot_func [(lo : Int), (hi : Int)] s
      [(((doPivot less lo hi s).1 : Nat) : Int), (((doPivot less lo hi s).2.1 : Nat) : Int)] (doPivot less lo hi s).2.2

theorem prog_insertionSort : prog "insertionSort_func" = some insertionSort_func := by rfl
theorem prog_heapSort : prog "heapSort_func" = some heapSort_func := by rfl
theorem prog_medianOfThree : prog "medianOfThree_func" = some medianOfThree_func := by rfl
theorem prog_doPivot : prog "doPivot_func" = some doPivot_func := by rfl
theorem prog_quickSort : prog "quickSort_func" = some quickSort_func := by rfl
theorem prog_maxDepth : prog "maxDepth" = some Got.Generated.AstSortxSort.maxDepth := by rfl

theorem callees_of_pivot (less : LessFn K V) (hpiv : PivotSpec less) : Callees prog less where
  hPi := prog_insertionSort
  hPh := prog_heapSort
  hPd := prog_doPivot
  hPq := prog_quickSort
  heap := fun a b s hab hb => heapSort_runs prog prog_siftDown less a b hab hb s
  pivot := hpiv

theorem maxDepth_small (n : Nat) (hn : n < B62) : Got.Model.Sort.maxDepth n < B62 := by
  obtain ⟨k, h1, _, h3⟩ := Got.Lemmas.Sort.maxDepth_spec n
  have : k ≤ 62 := h3 62 (by unfold B62 at hn; omega)
  unfold B62; omega

/-- SliceBy with the translated maxDepth / quickSort_func interpreted = the model's `sliceBy` -/
theorem sliceByAst_refines_of_pivot (less : LessFn K V) (hpiv : PivotSpec less) (keys : Array K) (vals : Array V)
    (hn : min keys.size vals.size < B62) :
    ∃ f0, ∀ fuel, f0 ≤ fuel → sliceByAst fuel less keys vals = some (sliceBy less keys vals) := by
  unfold sliceByAst sliceBy
  by_cases h1 : min keys.size vals.size ≤ 1
  · exact ⟨0, fun fuel _ => by simp only [h1, if_true]⟩
  · have hw1 : ([((min keys.size vals.size : Nat) : Int)] : List Int).map wrap = [((min keys.size vals.size : Nat) : Int)] := by
      unfold B62 at hn
      simp (disch := omega) only [List.map, wrap_eq]
    have hd := maxDepth_small _ hn
    have hw2 : ([0, ((min keys.size vals.size : Nat) : Int), ((Got.Model.Sort.maxDepth (min keys.size vals.size) : Nat) : Int)] : List Int).map wrap =
        [((0 : Nat) : Int), ((min keys.size vals.size : Nat) : Int), ((Got.Model.Sort.maxDepth (min keys.size vals.size) : Nat) : Int)] := by
      unfold B62 at hn hd
      simp (disch := omega) only [List.map, wrap_eq]
      rfl
    obtain ⟨f1, hf1⟩ := run_of_FnRuns (W := sortWorld less) (P := prog) (fn := Got.Generated.AstSortxSort.maxDepth)
      (args := [((min keys.size vals.size : Nat) : Int)]) (w := (⟨keys, vals, []⟩ : St K V)) rfl rfl
      (by rw [hw1]; exact maxDepth_runs (sortWorld less) prog _ hn _)
    obtain ⟨f2, hf2⟩ := run_of_FnRuns (W := sortWorld less) (P := prog) (fn := quickSort_func)
      (args := [0, ((min keys.size vals.size : Nat) : Int), ((Got.Model.Sort.maxDepth (min keys.size vals.size) : Nat) : Int)])
      (w := (⟨keys, vals, []⟩ : St K V)) (vs := []) rfl rfl
      (by rw [hw2]; exact quickSort_runs prog less (callees_of_pivot less hpiv) 0 _ _ (Nat.zero_le _) hn hd _)
    refine ⟨f1 + f2, fun fuel hf => ?_⟩
    simp only [h1, if_false]
    rw [hf1 fuel (by omega)]
    simp only
    rw [hf2 fuel (by omega)]

/-- doPivot_func over the generated program refines the model (Got/Lemmas/SortAstPivot.lean) -/
theorem pivotSpec (less : LessFn K V) : PivotSpec less :=
  fun lo hi s h hh => doPivot_runs prog prog_medianOfThree less lo hi h hh s

theorem callees (less : LessFn K V) : Callees prog less := callees_of_pivot less (pivotSpec less)

/-- SliceBy with the translated maxDepth / quickSort_func interpreted = the model's `sliceBy` -/
theorem sliceByAst_refines (less : LessFn K V) (keys : Array K) (vals : Array V)
    (hn : min keys.size vals.size < B62) :
    ∃ f0, ∀ fuel, f0 ≤ fuel → sliceByAst fuel less keys vals = some (sliceBy less keys vals) :=
  sliceByAst_refines_of_pivot less (pivotSpec less) keys vals hn

end Got.Lemmas.SortAst
