import Got.Model.AntsLive
import Got.Lemmas.AntsHonour
/- ants model: liveness at quiescence (C07_quiescent_invocations).
   "attempt begun ∧ handler not yet invoked" has exactly three shapes — the closure has not been sent yet (the
   dispatcher is at `sendCl`), it is in `innerCallbackChan`, or an inner worker holds it and is about to call the
   handler — and in each of them some goroutine of the pool can take a step. -/
namespace Got.Model.Ants
set_option linter.unusedVariables false
set_option linter.unusedSimpArgs false

/-! ### a closure that has not been sent belongs to the attempt the dispatcher is submitting -/

/-- an attempt that was begun and whose closure has not been handed to `sendInnerCallback` yet is the current attempt
    of a dispatcher standing before that send -/
def NoneOK (t : Task) : Prop := ∀ a, a < t.att → (t.at_ a).pc = .none → t.pc = .sendCl ∧ a + 1 = t.att

theorem noneOK_default : NoneOK {} := by
  intro a ha; simp at ha

theorem noneOK_tstep {c : Cfg} {now qlen : Nat} {t t' : Task} {act : Act} (ok : TaskOK t) (hn : NoneOK t)
    (h : tstep c now qlen t act = some t') : NoneOK t' := by
  have h0 : t.pc.pre = true → t.att = 0 := ok.pre0
  cases act <;> simp only [tstep] at h <;> (repeat' split at h) <;> (try cases h) <;>
    intro b hb hpc <;> simp only [Task.setAt, upd] at hb hpc ⊢ <;>
    first
      | (split at hpc <;> simp_all [NoneOK])
      | skip
  all_goals
    first
      | (have h1 := hn b hb hpc; simp_all; done)
      | exact hn b (by omega) hpc
      | (have h1 := hn b hb hpc; simp only [Task.cur] at *; omega)
      | (have h1 := hn b hb hpc; simp_all [Task.cur]; omega)
      | (rename_i h1 h2; exact (hn _ h1.1 hpc).1)

/-! ### what is in stage `queued` is in its channel; a pool of size 0 accepts nothing -/

/-- stages of a client goroutine inside `Send` before the task has been put into `taskChan` -/
def TPc.early : TPc → Bool
  | .none | .sendTest | .discardCb | .discarded | .enq => true
  | _ => false

theorem tstep_early {c : Cfg} {now qlen : Nat} {t t' : Task} {act : Act} (h : tstep c now qlen t act = some t')
    (he : t'.pc.early = false) : t.pc.early = false ∨ ∃ k, act = .enq k := by
  cases act <;> simp only [tstep] at h <;> (repeat' split at h) <;> (try cases h) <;>
    simp_all [TPc.early, Task.setAt]

theorem step_enq_guard {c : Cfg} {s s2 : State} {k : Nat} (h : step c s (.enq k) = some s2) : s.taskQ.length < c.N := by
  simp only [step] at h
  split at h
  · cases h
  · split at h
    · assumption
    · cases h

/-- the converse of `QueueInv`: a task / closure in stage `queued` really is in its channel; plus `NoneOK`, and the pool
    size is positive as soon as some task got past the enqueue -/
structure LiveInv (c : Cfg) (s : State) : Prop where
  none : ∀ k, NoneOK (s.task k)
  cq : ∀ k a, ((s.task k).at_ a).pc = .queued → (k, a) ∈ s.innerQ
  tq : ∀ k, (s.task k).pc = .queued → k ∈ s.taskQ
  npos : ∀ k, (s.task k).pc.early = false → 0 < c.N

theorem liveInv_init (c : Cfg) : LiveInv c init := by
  constructor
  · intro k; exact noneOK_default
  · intro k a h; simp [init] at h
  · intro k h; simp [init] at h
  · intro k h; simp [init, TPc.early] at h

theorem liveInv_step {c : Cfg} {s s2 : State} {act : Act} (hinv : Inv s) (hl : LiveInv c s)
    (h : step c s act = some s2) : LiveInv c s2 := by
  rcases step_task h with ⟨t, rfl, ht⟩ | ⟨t', ht, hst⟩
  · simp only [step] at h
    split at h
    · cases h; exact ⟨hl.none, hl.cq, hl.tq, hl.npos⟩
    · cases h
  have hqd := tstep_queued (hinv act.task) ht
  have htask : ∀ k', k' ≠ act.task → s2.task k' = s.task k' := by
    intro k' hk; rw [hst]; simp [hk]
  have hself : s2.task act.task = t' := by rw [hst]; simp
  constructor
  · intro k
    by_cases hk : k = act.task
    · subst hk; rw [hself]; exact noneOK_tstep (hinv _) (hl.none _) ht
    · rw [htask k hk]; exact hl.none k
  · intro k' a' hpc
    by_cases hold : ((s.task k').at_ a').pc = .queued
    · have hm := hl.cq k' a' hold
      rcases step_innerQ h with ⟨k, rfl, e⟩ | ⟨k, a, w, rfl, e⟩ | ⟨_, _, e⟩
      · rw [e]; exact List.mem_append_left _ hm
      · rw [e] at hm
        rcases List.mem_cons.mp hm with h1 | h1
        · exfalso
          cases h1
          have hk : (Act.wTake k' a' w).task = k' := rfl
          rw [hk] at hself; rw [hself] at hpc
          simp only [tstep] at ht
          split at ht <;> cases ht
          simp [Task.setAt] at hpc
        · exact h1
      · rw [e]; exact hm
    · by_cases hk : k' = act.task
      · subst hk
        rw [hself] at hpc
        obtain ⟨k, rfl, ha⟩ := hqd.2.2.2 a' hold hpc
        rcases step_innerQ h with ⟨k2, e1, e⟩ | ⟨k2, a, w, e1, e⟩ | ⟨n1, _, e⟩
        · cases e1; rw [e, ha]; simp [Act.task]
        · cases e1
        · exact absurd rfl (n1 k)
      · rw [htask k' hk] at hpc; exact absurd hpc hold
  · intro k' hpc
    by_cases hold : (s.task k').pc = .queued
    · have hm := hl.tq k' hold
      rcases step_taskQ h with ⟨k, rfl, e⟩ | ⟨k, rfl, e⟩ | ⟨_, _, e⟩
      · rw [e]; exact List.mem_append_left _ hm
      · rw [e] at hm
        rcases List.mem_cons.mp hm with h1 | h1
        · exfalso
          subst h1
          have hk : (Act.take k').task = k' := rfl
          rw [hk] at hself; rw [hself] at hpc
          simp only [tstep] at ht
          split at ht <;> cases ht
          simp at hpc
        · exact h1
      · rw [e]; exact hm
    · by_cases hk : k' = act.task
      · subst hk
        rw [hself] at hpc
        obtain ⟨k, rfl⟩ := hqd.2.1 hold hpc
        rcases step_taskQ h with ⟨k2, e1, e⟩ | ⟨k2, e1, e⟩ | ⟨n1, _, e⟩
        · cases e1; rw [e]; simp [Act.task]
        · cases e1
        · exact absurd rfl (n1 k)
      · rw [htask k' hk] at hpc; exact absurd hpc hold
  · intro k' he
    by_cases hk : k' = act.task
    · subst hk
      rw [hself] at he
      rcases tstep_early ht he with h1 | ⟨k, rfl⟩
      · exact hl.npos _ h1
      · have := step_enq_guard h; omega
    · rw [htask k' hk] at he; exact hl.npos k' he

theorem liveInv_run {c : Cfg} (hc : c.old = false) {acts : List Act} {s s2 : State} (hinv : Inv s) (hl : LiveInv c s)
    (h : run c s acts = some s2) : LiveInv c s2 := by
  induction acts generalizing s with
  | nil => simp [run] at h; subst h; exact hl
  | cons a rest ih =>
    simp only [run] at h
    split at h
    · cases h
    · rename_i s1 hs; exact ih (inv_step hc hinv hs) (liveInv_step hinv hl hs) h

theorem liveInv_reachable {c : Cfg} (hc : c.old = false) {s : State} (h : Reachable c s) : LiveInv c s := by
  obtain ⟨acts, ha⟩ := h
  exact liveInv_run hc inv_init (liveInv_init c) ha

/-! ### all invariants of reachable states used below -/
structure Live (c : Cfg) (s : State) : Prop where
  inv : Inv s
  slots : SlotInv c s
  queues : QueueInv s
  supp : Supp s
  tasks : TasksInv s
  disp : dispatching s ≤ c.N
  live : LiveInv c s

theorem live_init (c : Cfg) : Live c init :=
  ⟨inv_init, slotInv_init c, queueInv_init, supp_init, tasksInv_init, by simp [dispatching, init], liveInv_init c⟩

theorem live_step {c : Cfg} (hc : c.old = false) {s s2 : State} {act : Act} (hi : Live c s)
    (h : step c s act = some s2) : Live c s2 :=
  ⟨inv_step hc hi.inv h, slotInv_step hi.inv hi.slots h, queueInv_step hi.inv hi.queues h, supp_step hi.supp h,
    tasksInv_step hi.inv hi.tasks h, disp_step hi.inv hi.tasks hi.disp h, liveInv_step hi.inv hi.live h⟩

theorem live_run {c : Cfg} (hc : c.old = false) {acts : List Act} {s s2 : State} (hi : Live c s)
    (h : run c s acts = some s2) : Live c s2 := by
  induction acts generalizing s with
  | nil => simp [run] at h; subst h; exact hi
  | cons a rest ih =>
    simp only [run] at h
    split at h
    · cases h
    · rename_i s1 hs; exact ih (live_step hc hi hs) h

theorem live_reachable {c : Cfg} (hc : c.old = false) {s : State} (h : Reachable c s) : Live c s := by
  obtain ⟨acts, ha⟩ := h
  exact live_run hc (live_init c) ha

/-! ### what a quiescent state looks like -/

/-- an inner worker that holds a closure can always take its next step, except while the handler runs -/
theorem quiescent_no_slot {c : Cfg} {s : State} (hq : Quiescent c s) (k a : Nat) :
    ((s.task k).at_ a).pc.slot? = none := by
  cases hpc : ((s.task k).at_ a).pc
  case none => rfl
  case queued => rfl
  case closed => rfl
  case taken w =>
    have := hq.1 (.wStart k a true) rfl
    simp [step, tstep, hpc, Act.task] at this
  case running w hon => exact absurd hpc (hq.2 k a w hon)
  case returned w v e =>
    have := hq.1 (.wCheck k a) rfl
    by_cases hx : ((s.task k).at_ a).ctxDone = true <;> simp [step, tstep, hpc, Act.task, hx] at this
  case hook1 w v e =>
    have := hq.1 (.hook1 k a) rfl
    simp [step, tstep, hpc, Act.task] at this
  case cas w v e =>
    have := hq.1 (.wCas k a) rfl
    by_cases hx : ((s.task k).at_ a).decided = 0 <;> simp [step, tstep, hpc, Act.task, hx] at this
  case hook4 w v e =>
    have := hq.1 (.hook4 k a) rfl
    simp [step, tstep, hpc, Act.task] at this
  case write w v e =>
    have := hq.1 (.wWrite k a) rfl
    simp [step, tstep, hpc, Act.task] at this
  case closing w =>
    have := hq.1 (.wClose k a) rfl
    simp [step, tstep, hpc, Act.task, CPc.slot?] at this

theorem quiescent_slots_free {c : Cfg} {s : State} (hL : Live c s) (hq : Quiescent c s) (w : Nat) : s.slot w = none := by
  cases hs : s.slot w with
  | none => rfl
  | some p =>
    have := hL.slots.back w p.1 p.2 (by rw [hs])
    rw [quiescent_no_slot hq] at this; cases this

theorem not_early_of_att {s : State} (hinv : Inv s) {k : Nat} (h : 1 ≤ (s.task k).att) : (s.task k).pc.early = false := by
  cases he : (s.task k).pc.early
  · rfl
  · have := (hinv k).pre0 (by cases hp : (s.task k).pc <;> simp_all [TPc.early, TPc.pre])
    omega

/-- `innerCallbackChan` is empty: all inner workers are free, so its head could be received -/
theorem quiescent_innerQ {c : Cfg} {s : State} (hL : Live c s) (hq : Quiescent c s) : s.innerQ = [] := by
  cases hq1 : s.innerQ with
  | nil => rfl
  | cons p rest =>
    exfalso
    obtain ⟨k1, a1⟩ := p
    have hpc1 := hL.queues.iq k1 a1 (by rw [hq1]; simp)
    have hlt1 := lt_of_pc (hL.inv k1) (a := a1) (by rw [hpc1]; simp)
    have hN : 0 < c.N := hL.live.npos k1 (not_early_of_att hL.inv (by omega))
    have := hq.1 (.wTake k1 a1 0) rfl
    simp [step, tstep, Act.task, hpc1, hq1, hN, quiescent_slots_free hL hq 0] at this

/-- every attempt that was begun has run to the end of its closure (which includes exactly one handler call) -/
theorem quiescent_closed {c : Cfg} {s : State} (hL : Live c s) (hq : Quiescent c s) (k a : Nat)
    (ha : a < (s.task k).att) : ((s.task k).at_ a).pc = .closed := by
  have hns := quiescent_no_slot hq k a
  have hiq := quiescent_innerQ hL hq
  cases hpc : ((s.task k).at_ a).pc <;> simp only [hpc, CPc.slot?] at hns <;> (try cases hns)
  case none =>
    exfalso
    obtain ⟨hp, hcur⟩ := hL.live.none k a ha hpc
    have hc : (s.task k).cur = a := by simp [Task.cur]; omega
    have hN : 0 < c.N := hL.live.npos k (by rw [hp]; rfl)
    have := hq.1 (.sendCl k) rfl
    simp [step, tstep, Act.task, hp, hc, hpc, hiq, hN] at this
  case queued =>
    have := hL.live.cq k a hpc
    rw [hiq] at this; cases this
  case closed => rfl

theorem sumStarts_all (f : Nat → Att) (n : Nat) (h : ∀ a, a < n → (f a).starts = 1) : sumStarts f n = n := by
  induction n with
  | zero => rfl
  | succ m ih => simp [sumStarts, ih (fun a ha => h a (by omega)), h m (by omega)]

/-- at quiescence the handler has been invoked exactly once for every attempt begun -/
theorem quiescent_inv_eq_att {c : Cfg} {s : State} (hL : Live c s) (hq : Quiescent c s) (k : Nat) :
    (s.task k).inv = (s.task k).att ∧ ∀ a, a < (s.task k).att → ((s.task k).at_ a).starts = 1 := by
  have hst : ∀ a, a < (s.task k).att → ((s.task k).at_ a).starts = 1 := by
    intro a ha
    have := ((hL.inv k).atts a).2.2.2.2.2.2
    rw [quiescent_closed hL hq k a ha] at this
    simpa [CPc.started] using this
  exact ⟨by rw [(hL.inv k).inv_eq]; exact sumStarts_all _ _ hst, hst⟩

/-- no dispatcher is inside `task.run`: each of its stages has an enabled step once every closure has closed its
    doneChan -/
theorem quiescent_not_dispatching {c : Cfg} {s : State} (hL : Live c s) (hq : Quiescent c s) (k : Nat) :
    (s.task k).pc.dispatching = false := by
  have ok := hL.inv k
  have hcl : 1 ≤ (s.task k).att → ((s.task k).at_ (s.task k).cur).closedCh = true := by
    intro h
    have := quiescent_closed hL hq k (s.task k).cur (by simp [Task.cur]; omega)
    exact ((ok.atts _).1).2 this
  cases hpc : (s.task k).pc <;> simp only [TPc.dispatching] <;> exfalso
  case loopTest =>
    have := hq.1 (.loopTest k) rfl
    by_cases hx : (s.task k).att < (s.task k).R <;> simp [step, tstep, hpc, Act.task, hx] at this
  case sendCl =>
    have hatt := ok.att_pos (by simp [hpc, TPc.pre]) (by simp [hpc])
    have h1 := (ok.sendCl hpc).1
    rw [quiescent_closed hL hq k (s.task k).cur (by simp [Task.cur]; omega)] at h1
    cases h1
  case hook3 =>
    have := hq.1 (.hook3 k) rfl
    simp [step, tstep, hpc, Act.task] at this
  case select =>
    have hatt := ok.att_pos (by simp [hpc, TPc.pre]) (by simp [hpc])
    have := hq.1 (.selDone k) rfl
    simp [step, tstep, hpc, Act.task, hcl hatt] at this
  case hook2 =>
    have := hq.1 (.hook2 k) rfl
    simp [step, tstep, hpc, Act.task] at this
  case decide =>
    have := hq.1 (.decide k) rfl
    by_cases hx : ((s.task k).at_ (s.task k).cur).decided = 0 <;> simp [step, tstep, hpc, Act.task, hx] at this
  case writeDE =>
    have := hq.1 (.writeDE k) rfl
    simp [step, tstep, hpc, Act.task] at this
  case waitDone =>
    have hatt := ok.att_pos (by simp [hpc, TPc.pre]) (by simp [hpc])
    have := hq.1 (.waitDone k) rfl
    simp [step, tstep, hpc, Act.task, hcl hatt] at this
  case cancel =>
    have := hq.1 (.cancel k) rfl
    simp [step, tstep, hpc, Act.task] at this
  case errTest =>
    have := hq.1 (.errTest k) rfl
    by_cases hx : (s.task k).err = .nil <;> simp [step, tstep, hpc, Act.task, hx] at this
  case onError =>
    have := hq.1 (.onError k) rfl
    simp [step, tstep, hpc, Act.task] at this
  case wgDone =>
    have := hq.1 (.wgDone k) rfl
    simp [step, tstep, hpc, Act.task] at this

theorem quiescent_dispatching {c : Cfg} {s : State} (hL : Live c s) (hq : Quiescent c s) : dispatching s = 0 := by
  simp only [dispatching, List.length_eq_zero_iff, List.filter_eq_nil_iff]
  intro k _
  rw [quiescent_not_dispatching hL hq k]; simp

/-- `taskChan` is empty: every dispatcher is idle, so its head could be received -/
theorem quiescent_taskQ {c : Cfg} {s : State} (hL : Live c s) (hq : Quiescent c s) : s.taskQ = [] := by
  cases hq1 : s.taskQ with
  | nil => rfl
  | cons k1 rest =>
    exfalso
    have hpc1 := hL.queues.tq k1 (by rw [hq1]; simp)
    have hN : 0 < c.N := hL.live.npos k1 (by rw [hpc1]; rfl)
    have := hq.1 (.take k1) rfl
    simp [step, tstep, Act.task, hpc1, hq1, hN, quiescent_dispatching hL hq] at this

/-- every task handed to Send is finished (done or discarded); in a pool of size 0 — which `NewPool` never builds —
    the clients stay blocked in the enqueue -/
theorem quiescent_tasks {c : Cfg} {s : State} (hL : Live c s) (hq : Quiescent c s) (k : Nat) :
    (s.task k).pc = .none ∨ (s.task k).pc = .discarded ∨ (s.task k).pc = .done ∨ ((s.task k).pc = .enq ∧ c.N = 0) := by
  have hd := quiescent_not_dispatching hL hq k
  have htq := quiescent_taskQ hL hq
  cases hpc : (s.task k).pc <;> simp only [hpc, TPc.dispatching] at hd <;> (try cases hd) <;> simp
  case sendTest =>
    have := hq.1 (.busyTest k) rfl
    by_cases hx : ((s.task k).discard && s.taskQ.length == c.N) = true <;> simp [step, tstep, hpc, Act.task, hx] at this
  case discardCb =>
    have := hq.1 (.discardCb k) rfl
    simp [step, tstep, hpc, Act.task] at this
  case enq =>
    have := hq.1 (.enq k) rfl
    simp [step, tstep, hpc, Act.task, htq] at this
    exact this
  case queued =>
    have := hL.live.tq k hpc
    rw [htq] at this; cases this

/-- no context timer is armed: every attempt's ctx1 has been cancelled or has fired -/
theorem quiescent_timers {c : Cfg} {s : State} (hL : Live c s) (hq : Quiescent c s) (k a : Nat)
    (ha : a < (s.task k).att) : ((s.task k).at_ a).ctxDone = true := by
  have ok := hL.inv k
  by_cases hlast : a + 1 < (s.task k).att
  · exact (ok.past a hlast).2.1
  · have hc : (s.task k).cur = a := by simp [Task.cur]; omega
    have hpost : (s.task k).pc.post = true := by
      rcases quiescent_tasks hL hq k with h | h | h | ⟨h, _⟩
      · have := ok.pre0 (by simp [h, TPc.pre]); omega
      · have := ok.pre0 (by simp [h, TPc.pre]); omega
      · simp [h, TPc.post]
      · have := ok.pre0 (by simp [h, TPc.pre]); omega
    have := ok.ctxd (by omega) hpost
    rw [hc] at this; exact this

/-! ### the executable form `idle` agrees with `Quiescent` on reachable states -/

theorem taskActs_internal {c : Cfg} {s : State} {k : Nat} {act : Act} (h : act ∈ taskActs c s k) :
    act.internal = true := by
  simp only [taskActs, List.mem_append, List.mem_flatMap, List.mem_range] at h
  rcases h with h | ⟨a, _, h | h⟩
  · cases hp : (s.task k).pc <;> simp [hp] at h <;>
      first
        | (subst h; rfl)
        | (rcases h with h | h <;> subst h <;> rfl)
  · split at h
    · simp at h; subst h; rfl
    · simp at h
  · cases hp : ((s.task k).at_ a).pc <;> simp [hp] at h
    all_goals first
      | (subst h; rfl)
      | (obtain ⟨w, _, h⟩ := h; subst h; rfl)

/-- the candidate examined by `internalActs` for a given internal transition (the handler's behaviour flag of `wStart`
    does not matter for enabledness) -/
def Act.cand : Act → Act
  | .wStart k a _ => .wStart k a true
  | x => x

theorem cand_mem {c : Cfg} {s s2 : State} {act : Act} {t' : Task} (ok : TaskOK (s.task act.task))
    (hi : act.internal = true) (ht : tstep c s.now s.taskQ.length (s.task act.task) act = some t')
    (h : step c s act = some s2) : act.cand ∈ taskActs c s act.task := by
  cases act <;> simp only [Act.internal] at hi <;> (try cases hi) <;> simp only [Act.task, Act.cand] at ht ok ⊢
  case wTake k a w =>
    have hpc : ((s.task k).at_ a).pc = .queued := by
      simp only [tstep] at ht
      split at ht
      · assumption
      · cases ht
    have hw : w < c.N := by
      apply Classical.byContradiction
      intro hn
      simp only [step, Act.task, ht] at h
      split at h
      · simp [hn] at h
      · cases h
    exact cl_mem (lt_of_pc ok (a := a) (by rw [hpc]; simp))
      (by rw [hpc]; simp only [List.mem_map, List.mem_range]; exact ⟨w, hw, rfl⟩)
  case fire k a =>
    simp only [tstep] at ht
    split at ht
    · rename_i hg
      simp only [taskActs, List.mem_append, List.mem_flatMap, List.mem_range]
      exact Or.inr ⟨a, hg.1, Or.inl (by simp [hg.2.1, hg.2.2])⟩
    · cases ht
  case wStart k a hon =>
    cases hpc : ((s.task k).at_ a).pc <;> simp only [tstep, hpc] at ht <;> (try cases ht)
    all_goals exact cl_mem (lt_of_pc ok (a := a) (by rw [hpc]; simp)) (by rw [hpc]; simp)
  case wCheck k a =>
    cases hpc : ((s.task k).at_ a).pc <;> simp only [tstep, hpc] at ht <;> (try cases ht)
    all_goals exact cl_mem (lt_of_pc ok (a := a) (by rw [hpc]; simp)) (by rw [hpc]; simp)
  case hook1 k a =>
    cases hpc : ((s.task k).at_ a).pc <;> simp only [tstep, hpc] at ht <;> (try cases ht)
    all_goals exact cl_mem (lt_of_pc ok (a := a) (by rw [hpc]; simp)) (by rw [hpc]; simp)
  case wCas k a =>
    cases hpc : ((s.task k).at_ a).pc <;> simp only [tstep, hpc] at ht <;> (try cases ht)
    all_goals exact cl_mem (lt_of_pc ok (a := a) (by rw [hpc]; simp)) (by rw [hpc]; simp)
  case hook4 k a =>
    cases hpc : ((s.task k).at_ a).pc <;> simp only [tstep, hpc] at ht <;> (try cases ht)
    all_goals exact cl_mem (lt_of_pc ok (a := a) (by rw [hpc]; simp)) (by rw [hpc]; simp)
  case wWrite k a =>
    cases hpc : ((s.task k).at_ a).pc <;> simp only [tstep, hpc] at ht <;> (try cases ht)
    all_goals exact cl_mem (lt_of_pc ok (a := a) (by rw [hpc]; simp)) (by rw [hpc]; simp)
  case wClose k a =>
    cases hpc : ((s.task k).at_ a).pc <;> simp only [tstep, hpc] at ht <;> (try cases ht)
    all_goals exact cl_mem (lt_of_pc ok (a := a) (by rw [hpc]; simp)) (by rw [hpc]; simp)
  all_goals
    simp only [tstep] at ht
    (repeat' split at ht) <;> (try cases ht)
  all_goals exact own_mem (by simp_all)

theorem cand_enabled {c : Cfg} {s s2 : State} {act : Act} (hinv : Inv s) (hsup : Supp s) (hi : act.internal = true)
    (h : step c s act = some s2) : act.cand ∈ internalActs c s ∧ step c s act.cand ≠ none := by
  have hne : step c s act.cand ≠ none := by
    cases act <;> simp only [Act.cand] <;> (try (rw [h]; simp))
    rename_i k a hon
    simp only [step, Act.task] at h ⊢
    cases hpc : ((s.task k).at_ a).pc <;> simp [tstep, hpc] at h ⊢
  refine ⟨?_, hne⟩
  rcases step_task h with ⟨t, rfl, _⟩ | ⟨t', ht, _⟩
  · cases hi
  have hk : act.task ∈ s.tasks := by
    apply Classical.byContradiction
    intro hn
    rw [hsup _ hn] at ht
    obtain ⟨k, o, rfl⟩ := tstep_default_send ht
    cases hi
  simp only [internalActs, List.mem_flatMap]
  exact ⟨act.task, hk, cand_mem (hinv _) hi ht h⟩

/-- `idle` decides `Quiescent` (in every state satisfying the reachable-state invariants) -/
theorem quiescent_iff_idle {c : Cfg} {s : State} (hinv : Inv s) (hsup : Supp s) :
    Quiescent c s ↔ idle c s = true := by
  constructor
  · intro hq
    simp only [idle, Bool.and_eq_true, List.all_eq_true, Bool.not_eq_true']
    constructor
    · intro a ha
      simp only [internalActs, List.mem_flatMap] at ha
      obtain ⟨k, _, hm⟩ := ha
      rw [hq.1 a (taskActs_internal hm)]; rfl
    · cases hr : handlerRunning s
      · rfl
      · exfalso
        simp only [handlerRunning, List.any_eq_true, List.mem_range] at hr
        obtain ⟨k, _, a, _, hm⟩ := hr
        cases hpc : ((s.task k).at_ a).pc <;> simp [hpc] at hm
        exact hq.2 k a _ _ hpc
  · intro hi
    simp only [idle, Bool.and_eq_true, List.all_eq_true, Bool.not_eq_true'] at hi
    constructor
    · intro act hint
      cases hst : step c s act with
      | none => rfl
      | some s2 =>
        exfalso
        obtain ⟨hm, hne⟩ := cand_enabled hinv hsup hint hst
        have := hi.1 _ hm
        simp only [Option.isNone_iff_eq_none] at this
        exact hne this
    · intro k a w hon hpc
      have hk := mem_of_cl hsup (k := k) (a := a) (by rw [hpc]; simp)
      have hlt := lt_of_pc (hinv k) (a := a) (by rw [hpc]; simp)
      have : handlerRunning s = true := by
        simp only [handlerRunning, List.any_eq_true, List.mem_range]
        exact ⟨k, hk, a, hlt, by simp [hpc]⟩
      rw [hi.2] at this; cases this

/-! ### where an attempt without a handler invocation is (every reachable state, no quiescence assumed) -/

/-- an attempt that was begun and whose handler has not been invoked yet is in exactly one of three places: not yet
    submitted (its dispatcher stands before the send into `innerCallbackChan`), inside `innerCallbackChan`, or held by
    an inner worker that is about to call the handler -/
theorem uninvoked_located {c : Cfg} {s : State} (hL : Live c s) (k a : Nat) (ha : a < (s.task k).att)
    (h0 : ((s.task k).at_ a).starts = 0) :
    (((s.task k).at_ a).pc = .none ∧ (s.task k).pc = .sendCl ∧ a + 1 = (s.task k).att) ∨
    (((s.task k).at_ a).pc = .queued ∧ (k, a) ∈ s.innerQ) ∨
    (∃ w, ((s.task k).at_ a).pc = .taken w ∧ s.slot w = some (k, a) ∧ w < c.N) := by
  have hst := ((hL.inv k).atts a).2.2.2.2.2.2
  rw [h0] at hst
  cases hpc : ((s.task k).at_ a).pc <;> simp [hpc, CPc.started] at hst
  · exact Or.inl ⟨rfl, hL.live.none k a ha hpc⟩
  · exact Or.inr (Or.inl ⟨rfl, hL.live.cq k a hpc⟩)
  · rename_i w
    exact Or.inr (Or.inr ⟨w, rfl, hL.slots.own k a w (by rw [hpc]; rfl)⟩)

theorem cnt_false (p : Nat → Bool) (n : Nat) (h : ∀ w, p w = false) : cnt p n = 0 := by
  induction n with
  | zero => rfl
  | succ m ih => simp [cnt, ih, h]

theorem quiescent_running {c : Cfg} {s : State} (hL : Live c s) (hq : Quiescent c s) : s.running = 0 := by
  rw [hL.slots.run]
  exact cnt_false _ _ (fun w => by simp [inH, quiescent_slots_free hL hq w])

/-! ### bounded work: without further Sends the pool performs only finitely many non-clock transitions -/

def TPc.rank : TPc → Nat
  | .none => 0 | .done => 0 | .discarded => 0 | .discardCb => 1 | .wgDone => 1 | .onError => 2 | .loopTest => 3
  | .errTest => 4 | .cancel => 5 | .writeDE => 6 | .waitDone => 6 | .decide => 7 | .hook2 => 8 | .select => 9
  | .hook3 => 10 | .sendCl => 11 | .queued => 12 | .enq => 13 | .sendTest => 14

def CPc.rank : CPc → Nat
  | .closed => 0 | .closing _ => 1 | .write _ _ _ => 2 | .hook4 _ _ _ => 3 | .cas _ _ _ => 4 | .hook1 _ _ _ => 5
  | .returned _ _ _ => 6 | .running _ _ => 7 | .taken _ => 8 | .queued => 9 | .none => 10

/-- steps the closure of an attempt can still take, plus one if its context timer is still armed -/
def Att.work (x : Att) : Nat := x.pc.rank + (if x.ctxDone then 0 else 1)

def sumWork (f : Nat → Att) : Nat → Nat
  | 0 => 0
  | n + 1 => sumWork f n + (f n).work

theorem sumWork_upd_ge (f : Nat → Att) (a : Nat) (x : Att) (n : Nat) (h : n ≤ a) :
    sumWork (upd f a x) n = sumWork f n := by
  induction n with
  | zero => rfl
  | succ m ih =>
    have : m ≠ a := by omega
    simp [sumWork, ih (by omega), upd, this]

theorem sumWork_upd_lt (f : Nat → Att) (a : Nat) (x : Att) (n : Nat) (h : a < n) :
    sumWork (upd f a x) n + (f a).work = sumWork f n + x.work := by
  induction n with
  | zero => omega
  | succ m ih =>
    by_cases hm : m = a
    · subst hm
      simp [sumWork, sumWork_upd_ge f m x m (Nat.le_refl _), upd]
      omega
    · have := ih (by omega)
      simp [sumWork, upd, hm]
      omega

/-- an upper bound on the non-clock transitions still to be taken on behalf of one task: 24 per attempt not yet begun
    (9 dispatcher steps, 10 closure steps, one timer, and slack), the remaining dispatcher stages, and the remaining
    steps of the closures and timers of the attempts begun -/
def wk (R att : Nat) (pc : TPc) (f : Nat → Att) : Nat := (R - att) * 24 + pc.rank + sumWork f att

def Task.work (t : Task) : Nat := wk t.R t.att t.pc t.at_

def work (s : State) : Nat := (s.tasks.map fun k => (s.task k).work).sum

theorem wk_setAt {R att : Nat} {pc pc' : TPc} {f : Nat → Att} {a : Nat} {x : Att} (hlt : a < att)
    (h : pc'.rank + x.work < pc.rank + (f a).work) : wk R att pc' (upd f a x) < wk R att pc f := by
  have := sumWork_upd_lt f a x att hlt
  simp only [wk]
  omega

def Act.isCl : Act → Bool
  | .wTake _ _ _ | .wStart _ _ _ | .wEnd _ _ _ _ | .wCheck _ _ | .hook1 _ _ | .wCas _ _ | .hook4 _ _ | .wWrite _ _
  | .wClose _ _ => true
  | _ => false

def Act.isAttOwn : Act → Bool
  | .loopTest _ | .sendCl _ | .decide _ | .cancel _ | .fire _ _ => true
  | _ => false

/-- dispatcher / client steps that only move the task's own program counter -/
theorem tstep_work_pc {c : Cfg} {now qlen : Nat} {t t' : Task} {act : Act}
    (hs : ∀ k o, act ≠ .send k o) (h1 : act.isCl = false) (h2 : act.isAttOwn = false)
    (h : tstep c now qlen t act = some t') : t'.work < t.work := by
  cases act <;> simp only [Act.isCl, Act.isAttOwn] at h1 h2 <;> (try cases h1) <;> (try cases h2) <;>
    simp only [tstep] at h <;> (repeat' split at h) <;> (try cases h) <;>
    (try (exfalso; exact hs _ _ rfl)) <;> simp only [Task.work, Task.setAt]
  all_goals
    first
      | (simp_all [wk, TPc.rank]; done)
      | (simp_all [wk, TPc.rank]; omega)

/-- dispatcher steps that also touch the current attempt's record, and timer firings -/
theorem tstep_work_att {c : Cfg} {now qlen : Nat} {t t' : Task} {act : Act} (ok : TaskOK t)
    (h2 : act.isAttOwn = true) (h : tstep c now qlen t act = some t') : t'.work < t.work := by
  have hcur : t.pc.pre = false → t.pc ≠ .loopTest → t.cur < t.att := by
    intro h1 h2; have := ok.att_pos h1 h2; simp [Task.cur]; omega
  cases act <;> simp only [Act.isAttOwn] at h2 <;> (try cases h2) <;>
    simp only [tstep] at h <;> (repeat' split at h) <;> (try cases h) <;> simp only [Task.work, Task.setAt]
  case loopTest.intro.isTrue.isTrue.refl hp hlt =>
    simp only [wk, sumWork, upd_same, sumWork_upd_ge _ _ _ _ (Nat.le_refl _), Att.work, CPc.rank, TPc.rank, hp]
    split <;> omega
  all_goals
    first
      | (simp_all [wk, TPc.rank]; done)
      | (simp_all [wk, TPc.rank]; omega)
      | (refine wk_setAt (by first
            | exact hcur (by simp_all [TPc.pre]) (by simp_all)
            | (simp_all; done)) ?_
         simp_all [Att.work, CPc.rank, TPc.rank]
         done)
      | (refine wk_setAt (by first
            | exact hcur (by simp_all [TPc.pre]) (by simp_all)
            | (simp_all; done)) ?_
         simp_all [Att.work, CPc.rank, TPc.rank]
         omega)

/-- inner-worker steps -/
theorem tstep_work_cl {c : Cfg} {now qlen : Nat} {t t' : Task} {act : Act} (ok : TaskOK t)
    (h1 : act.isCl = true) (h : tstep c now qlen t act = some t') : t'.work < t.work := by
  cases act <;> simp only [Act.isCl] at h1 <;> (try cases h1) <;>
    simp only [tstep] at h <;> (repeat' split at h) <;> (try cases h) <;> simp only [Task.work, Task.setAt]
  all_goals
    refine wk_setAt (lt_of_pc ok (by simp_all)) ?_
    simp_all [Att.work, CPc.rank, TPc.rank]

theorem tstep_work {c : Cfg} {now qlen : Nat} {t t' : Task} {act : Act} (ok : TaskOK t)
    (hs : ∀ k o, act ≠ .send k o) (h : tstep c now qlen t act = some t') : t'.work < t.work := by
  cases h1 : act.isCl
  · cases h2 : act.isAttOwn
    · exact tstep_work_pc hs h1 h2 h
    · exact tstep_work_att ok h2 h
  · exact tstep_work_cl ok h1 h

def Act.isSend : Act → Bool
  | .send _ _ => true
  | _ => false

def Act.isClock : Act → Bool
  | .advance _ => true
  | _ => false

theorem sum_map_lt (l : List Nat) (f g : Nat → Nat) (hle : ∀ x, x ∈ l → g x ≤ f x) (hlt : ∃ x, x ∈ l ∧ g x < f x) :
    (l.map g).sum < (l.map f).sum := by
  induction l with
  | nil => obtain ⟨x, hx, _⟩ := hlt; cases hx
  | cons y ys ih =>
    have hy := hle y (by simp)
    have hle' : ∀ x, x ∈ ys → g x ≤ f x := fun x hx => hle x (by simp [hx])
    have hsum : (ys.map g).sum ≤ (ys.map f).sum := by
      clear ih hlt
      induction ys with
      | nil => simp
      | cons z zs ih2 =>
        have := hle' z (by simp)
        have := ih2 (fun x hx => hle x (by simp at hx ⊢; rcases hx with h | h <;> simp [h]))
          (fun x hx => hle' x (by simp [hx]))
        simp only [List.map_cons, List.sum_cons]; omega
    obtain ⟨x, hx, hxlt⟩ := hlt
    simp only [List.map_cons, List.sum_cons]
    rcases List.mem_cons.mp hx with h | h
    · subst h; omega
    · have := ih hle' ⟨x, h, hxlt⟩; omega

/-- every transition other than a Send and the clock consumes work; the clock leaves it unchanged -/
theorem step_work {c : Cfg} {s s2 : State} {act : Act} (hinv : Inv s) (hsup : Supp s) (hs : act.isSend = false)
    (h : step c s act = some s2) : (if act.isClock then work s2 = work s else work s2 < work s) := by
  rcases step_task h with ⟨t, rfl, ht⟩ | ⟨t', ht, hst⟩
  · simp only [Act.isClock, ↓reduceIte]
    simp only [step] at h
    split at h
    · cases h; rfl
    · cases h
  have hnc : act.isClock = false := by
    cases act <;> first | rfl | (simp [tstep] at ht)
  have hns : ∀ k o, act ≠ .send k o := by intro k o e; subst e; cases hs
  have hk : act.task ∈ s.tasks := by
    apply Classical.byContradiction
    intro hn
    rw [hsup _ hn] at ht
    obtain ⟨k, o, rfl⟩ := tstep_default_send ht
    cases hs
  have htasks : s2.tasks = s.tasks := by
    rcases step_tasks2 h with ⟨k, o, rfl, _⟩ | e
    · cases hs
    · exact e
  have hw := tstep_work (hinv act.task) hns ht
  simp only [hnc, Bool.false_eq_true, ↓reduceIte, work, htasks, hst]
  refine sum_map_lt s.tasks _ _ ?_ ⟨act.task, hk, by simpa using hw⟩
  intro x _
  by_cases hx : x = act.task
  · subst hx; simp only [upd_same]; omega
  · simp only [upd_other _ _ _ _ hx]; omega

/-- after the last Send: along any run without Send, (number of non-clock transitions taken) + (work left) ≤ work at the
    start -/
theorem run_work {c : Cfg} (hc : c.old = false) {acts : List Act} {s s2 : State} (hL : Live c s)
    (hns : ∀ a, a ∈ acts → a.isSend = false) (h : run c s acts = some s2) :
    (acts.filter (fun a => !a.isClock)).length + work s2 ≤ work s := by
  induction acts generalizing s with
  | nil => simp [run] at h; subst h; simp
  | cons a rest ih =>
    simp only [run] at h
    split at h
    · cases h
    · rename_i s1 hs1
      have h1 := step_work hL.inv hL.supp (hns a (by simp)) hs1
      have h2 := ih (live_step hc hL hs1) (fun x hx => hns x (by simp [hx])) h
      cases hck : a.isClock <;> simp only [hck, Bool.false_eq_true, ↓reduceIte] at h1 <;>
        simp only [List.filter_cons, hck, Bool.not_false, Bool.not_true, ↓reduceIte, List.length_cons,
          Bool.false_eq_true] <;> omega

theorem not_quiescent_cases {c : Cfg} {s : State} (hq : ¬ Quiescent c s) :
    (∃ act s1, act.internal = true ∧ step c s act = some s1) ∨
    (∃ k a w hon, ((s.task k).at_ a).pc = .running w hon) := by
  apply Classical.byContradiction
  intro hn
  apply hq
  constructor
  · intro act hi
    cases hs : step c s act with
    | none => rfl
    | some s1 => exact absurd (Or.inl ⟨act, s1, hi, hs⟩) hn
  · intro k a w hon hp
    exact hn (Or.inr ⟨k, a, w, hon, hp⟩)

/-- from every state satisfying the invariants a quiescent state can be reached without any further Send: let the
    goroutines of the pool run and let every running handler return -/
theorem reaches_quiescent {c : Cfg} (hc : c.old = false) (n : Nat) : ∀ s, Live c s → work s ≤ n →
    ∃ acts s2, run c s acts = some s2 ∧ (∀ a, a ∈ acts → a.isSend = false) ∧ Quiescent c s2 := by
  induction n with
  | zero =>
    intro s hL hw
    by_cases hq : Quiescent c s
    · exact ⟨[], s, rfl, by simp, hq⟩
    · exfalso
      rcases not_quiescent_cases hq with ⟨act, s1, hi, hs⟩ | ⟨k, a, w, hon, hp⟩
      · have := step_work hL.inv hL.supp (by cases act <;> first | rfl | cases hi) hs
        have hck : act.isClock = false := by cases act <;> first | rfl | cases hi
        simp only [hck, Bool.false_eq_true, ↓reduceIte] at this
        omega
      · have hs : (step c s (.wEnd k a 0 .nil)).isSome = true := by simp [step, tstep, hp, Act.task]
        obtain ⟨s1, hs1⟩ := Option.isSome_iff_exists.mp hs
        have := step_work hL.inv hL.supp (act := .wEnd k a 0 .nil) rfl hs1
        simp only [Act.isClock, Bool.false_eq_true, ↓reduceIte] at this
        omega
  | succ m ih =>
    intro s hL hw
    by_cases hq : Quiescent c s
    · exact ⟨[], s, rfl, by simp, hq⟩
    · rcases not_quiescent_cases hq with ⟨act, s1, hi, hs⟩ | ⟨k, a, w, hon, hp⟩
      · have hsend : act.isSend = false := by cases act <;> first | rfl | cases hi
        have := step_work hL.inv hL.supp hsend hs
        have hck : act.isClock = false := by cases act <;> first | rfl | cases hi
        simp only [hck, Bool.false_eq_true, ↓reduceIte] at this
        obtain ⟨acts, s2, hr, hns, hq2⟩ := ih s1 (live_step hc hL hs) (by omega)
        refine ⟨act :: acts, s2, by simp [run, hs, hr], ?_, hq2⟩
        intro x hx
        rcases List.mem_cons.mp hx with h | h
        · subst h; exact hsend
        · exact hns x h
      · have hs : (step c s (.wEnd k a 0 .nil)).isSome = true := by simp [step, tstep, hp, Act.task]
        obtain ⟨s1, hs1⟩ := Option.isSome_iff_exists.mp hs
        have := step_work hL.inv hL.supp (act := .wEnd k a 0 .nil) rfl hs1
        simp only [Act.isClock, Bool.false_eq_true, ↓reduceIte] at this
        obtain ⟨acts, s2, hr, hns, hq2⟩ := ih s1 (live_step hc hL hs1) (by omega)
        refine ⟨.wEnd k a 0 .nil :: acts, s2, by simp [run, hs1, hr], ?_, hq2⟩
        intro x hx
        rcases List.mem_cons.mp hx with h | h
        · subst h; rfl
        · exact hns x h

end Got.Model.Ants
