import Got.Lemmas.SortAstSmall
import Got.Lemmas.SortBounds
/-
Translator tie of C15, part 3: quickSort_func (and its tail: the gap pass + insertionSort_func), relative to
refinement statements for its callees heapSort_func and doPivot_func (hypotheses `hheap`, `hpiv`; discharged in
Got/Lemmas/SortAstAll.lean by the theorems of SortAstHeap.lean / SortAstPivot.lean).
-/
set_option linter.unusedSimpArgs false
namespace Got.Lemmas.SortAst
open Got.Model.MiniGoSort Got.Model.Sort Got.Model.SortAst
open Got.Generated.AstSortxSort

variable {K V : Type}

theorem thrInsertion_small : thrInsertion < 4611686018427387904 := by decide

/-! ### the tail of quickSort_func -/

def gapLoopStmt : Stmt :=
  .loop (.lt (.var 5) (.var 1))
    [.ite (.less (.var 5) (.sub (.var 5) (.lit 6))) [.swap (.var 5) (.sub (.var 5) (.lit 6))] []]
    [.set 5 (.add (.var 5) (.lit 1))]

def tailStmt : Stmt :=
  .ite (.lt (.lit 1) (.sub (.var 1) (.var 0)))
    [.set 5 (.add (.var 0) (.lit 6)), gapLoopStmt, .call "insertionSort_func" [(.var 0), (.var 1)] []] []

theorem gapPass_runs (P : String → Option Fn) (less : LessFn K V) (b : Nat) (hb : b < B62) :
    ∀ (n i : Nat) (env : Env) (s : St K V), b - i = n → env.get 1 = b → env.get 5 = i → 6 ≤ i → i ≤ 2 * B62 →
      ∃ env', (∀ y, y ≠ 5 → env'.get y = env.get y) ∧
        ∀ rest r, Runs (sortWorld less) P rest env' (gapPass less b i s) r →
          Runs (sortWorld less) P (gapLoopStmt :: rest) env s r := by
  intro n
  induction n using Nat.strongRecOn with
  | _ n ih =>
    intro i env s hn h1 h5 h6 hi
    unfold B62 at hb hi
    rw [gapPass]
    split
    · rename_i hlt
      have hc : evalC (sortWorld less) env (.lt (.var 5) (.var 1)) s = (true, s) := by
        simp only [evalC, eval, h1, h5]
        have : ((i : Int) < (b : Int)) := by omega
        simp only [this, decide_true]
      have e1 : wrap ((i : Int) - wrap 6) = ((i - 6 : Nat) : Int) := by
        simp (disch := omega) only [wrap_eq]; omega
      have i1 : idx (i : Int) = i := idx_natCast (by omega)
      have i2 : idx ((i - 6 : Nat) : Int) = i - 6 := idx_natCast (by omega)
      have hcl : evalC (sortWorld less) env (.less (.var 5) (.sub (.var 5) (.lit 6))) s =
          (less s i (i - 6), s.note i (i - 6) (less s i (i - 6))) := by
        simp only [evalC, eval, h5, e1, sortWorld, i1, i2]
      -- the body, by the result of Less
      have hbody : Runs (sortWorld less) P
          [.ite (.less (.var 5) (.sub (.var 5) (.lit 6))) [.swap (.var 5) (.sub (.var 5) (.lit 6))] []] env s
          (.cont env (if less s i (i - gapLess) = true then (s.note i (i - gapLess) (less s i (i - gapLess))).swap i (i - gapSwap)
            else s.note i (i - gapLess) (less s i (i - gapLess)))) := by
        rw [gapLess_eq_six, gapSwap_eq_six]
        cases hr : less s i (i - 6)
        · rw [hr] at hcl
          refine Runs.ite (env' := env) (w' := s.note i (i - 6) false) ?_ Runs.nil
          rw [hcl]
          simp only [Bool.false_eq_true, if_false]
          exact Runs.nil
        · rw [hr] at hcl
          refine Runs.ite (env' := env) (w' := (s.note i (i - 6) true).swap i (i - 6)) ?_ Runs.nil
          rw [hcl]
          simp only [if_true]
          refine Runs.swap ?_
          simp only [eval, h5, e1, sortWorld, i1, i2]
          exact Runs.nil
      obtain ⟨env2, hfr2, hk2⟩ := ih (b - (i + 1)) (by omega) (i + 1)
        (env.set 5 (eval env (.add (.var 5) (.lit 1))))
        (if less s i (i - gapLess) = true then (s.note i (i - gapLess) (less s i (i - gapLess))).swap i (i - gapSwap)
            else s.note i (i - gapLess) (less s i (i - gapLess))) rfl
        (by rw [Env.get_set]; simpa using h1)
        (by rw [Env.get_set]; simp (disch := omega) only [eval, h5, wrap_eq]; simp) (by omega) (by unfold B62; omega)
      refine ⟨env2, fun y hy => by rw [hfr2 y hy, Env.get_set, if_neg hy], fun rest r h => ?_⟩
      refine Runs.loop_iter (by rw [hc]) (by rw [hc]; exact hbody) (Runs.set Runs.nil) ?_
      exact hk2 rest r h
    · rename_i hlt
      have hc : evalC (sortWorld less) env (.lt (.var 5) (.var 1)) s = (false, s) := by
        simp only [evalC, eval, h1, h5]
        have : ¬ ((i : Int) < (b : Int)) := by omega
        simp only [this, decide_false]
      refine ⟨env, fun _ _ => rfl, fun rest r h => ?_⟩
      refine Runs.loop_exit (by rw [hc]) ?_
      rw [hc]
      exact h
where
  gapLess_eq_six : gapLess = 6 := by decide
  gapSwap_eq_six : gapSwap = 6 := by decide

theorem tail_runs (P : String → Option Fn) (hPi : P "insertionSort_func" = some insertionSort_func)
    (less : LessFn K V) (a b : Nat) (hle : a ≤ b) (hb : b < B62) (env : Env) (s : St K V)
    (h0 : env.get 0 = a) (h1 : env.get 1 = b) :
    ∃ env', ∀ rest r, Runs (sortWorld less) P rest env' (smallSort less a b s) r →
      Runs (sortWorld less) P (tailStmt :: rest) env s r := by
  unfold smallSort
  have hB := hb
  unfold B62 at hb
  split
  · rename_i hgt
    have hab : a + 1 < b := by omega
    clear hgt
    have hc : evalC (sortWorld less) env (.lt (.lit 1) (.sub (.var 1) (.var 0))) s = (true, s) := by
      simp (disch := omega) only [evalC, eval, h0, h1, wrap_eq]
      have : ((1 : Int) < (b : Int) - (a : Int)) := by omega
      simp only [this, decide_true]
    obtain ⟨env2, hfr2, hk2⟩ := gapPass_runs P less b hB (b - (a + gapInit)) (a + gapInit)
      (env.set 5 (eval env (.add (.var 0) (.lit 6)))) s rfl
      (by rw [Env.get_set]; simpa using h1)
      (by rw [Env.get_set, gapInit_eq_six]; simp (disch := omega) only [eval, h0, wrap_eq]; simp)
      (by rw [gapInit_eq_six]; omega) (by rw [gapInit_eq_six]; unfold B62; omega)
    have g0 : env2.get 0 = a := by rw [hfr2 0 (by decide), Env.get_set]; simpa using h0
    have g1 : env2.get 1 = b := by rw [hfr2 1 (by decide), Env.get_set]; simpa using h1
    have hargs : ([.var 0, .var 1] : List Expr).map (eval env2) = [(a : Int), (b : Int)] := by
      simp only [List.map, eval, g0, g1]
    refine ⟨env2, fun rest r h => ?_⟩
    refine Runs.ite (env' := env2) (w' := insertionSort less a b (gapPass less b (a + gapInit) s)) ?_ h
    rw [hc]
    simp only [if_true]
    refine Runs.set (hk2 _ _ ?_)
    refine Runs.call hPi rfl rfl (vs := []) ?_ rfl Runs.nil
    rw [hargs]
    exact insertionSort_runs P less a b (by unfold B62; omega) hB _
  · rename_i hgt
    have hab : b ≤ a + 1 := by omega
    clear hgt
    have hc : evalC (sortWorld less) env (.lt (.lit 1) (.sub (.var 1) (.var 0))) s = (false, s) := by
      simp only [evalC, eval, h0, h1]
      have : ¬ (wrap 1 < wrap ((b : Int) - (a : Int))) := by
        simp (disch := omega) only [wrap_eq]; omega
      simp only [this, decide_false]
    refine ⟨env, fun rest r h => ?_⟩
    refine Runs.ite (env' := env) (w' := s) ?_ h
    rw [hc]
    simp only [Bool.false_eq_true, if_false]
    exact Runs.nil
where
  gapInit_eq_six : gapInit = 6 := by decide

/-! ### quickSort_func

The loop threshold `12` of `for b-a > 12` is not fixed here: the generated term carries the literal of the current source
and the model reads the same literal from the regenerated table (`thrInsertion`), so `quickSort_body` (by `rfl`) holds
for whatever the source says and the proof only uses `2 ≤ thrInsertion < 2^62`. -/

def quickLoopStmt : Stmt :=
  .loop (.lt (.lit (thrInsertion : Int)) (.sub (.var 1) (.var 0)))
    [ .ite (.eq (.var 2) (.lit 0)) [.call "heapSort_func" [(.var 0), (.var 1)] [], .ret []] [],
      .set 2 (.sub (.var 2) (.lit 1)),
      .call "doPivot_func" [(.var 0), (.var 1)] [3, 4],
      .ite (.lt (.sub (.var 3) (.var 0)) (.sub (.var 1) (.var 4)))
        [.call "quickSort_func" [(.var 0), (.var 3), (.var 2)] [], .set 0 (.var 4)]
        [.call "quickSort_func" [(.var 4), (.var 1), (.var 2)] [], .set 1 (.var 3)] ] []

theorem quickSort_body : quickSort_func.body = [quickLoopStmt, tailStmt] := rfl

/-- what the callees of quickSort_func are assumed to do (proved in SortAstHeap.lean / SortAstPivot.lean) -/
structure Callees (P : String → Option Fn) (less : LessFn K V) : Prop where
  hPi : P "insertionSort_func" = some insertionSort_func
  hPh : P "heapSort_func" = some heapSort_func
  hPd : P "doPivot_func" = some doPivot_func
  hPq : P "quickSort_func" = some quickSort_func
  heap : ∀ (a b : Nat) (s : St K V), a ≤ b → b < B62 →
    FnRuns (sortWorld less) P heapSort_func [(a : Int), (b : Int)] s [] (heapSort less a b s)
  pivot : ∀ (lo hi : Nat) (s : St K V), lo + 3 ≤ hi → hi < B62 →
    FnRuns (sortWorld less) P doPivot_func [(lo : Int), (hi : Int)] s
      [(((doPivot less lo hi s).1 : Nat) : Int), (((doPivot less lo hi s).2.1 : Nat) : Int)] (doPivot less lo hi s).2.2

/-- result of a function body: returned or fell off the end, with final state `S` -/
def Ends (r : Res (St K V)) (S : St K V) : Prop := r = .ret [] S ∨ ∃ e, r = .cont e S

theorem quick_body_runs (P : String → Option Fn) (less : LessFn K V) (C : Callees P less) :
    ∀ (d a b : Nat) (env : Env) (s : St K V), env.get 0 = a → env.get 1 = b → env.get 2 = d →
      a ≤ b → b < B62 → d < B62 →
      ∃ r, Runs (sortWorld less) P [quickLoopStmt, tailStmt] env s r ∧ Ends r (quickSort less a b d s) := by
  intro d
  induction d with
  | zero =>
    intro a b env s h0 h1 h2 hab hb _
    have hB := hb
    unfold B62 at hb
    rw [quickSort]
    have hthr := thrInsertion_small
    have hthr2 := Got.Lemmas.Sort.thrInsertion_ge
    split
    · rename_i hgt
      have hc : evalC (sortWorld less) env (.lt (.lit (thrInsertion : Int)) (.sub (.var 1) (.var 0))) s = (true, s) := by
        simp (disch := omega) only [evalC, eval, h0, h1, wrap_eq]
        have : ((thrInsertion : Int) < (b : Int) - (a : Int)) := by omega
        simp only [this, decide_true]
      have hc0 : evalC (sortWorld less) env (.eq (.var 2) (.lit 0)) s = (true, s) := by
        simp (disch := omega) only [evalC, eval, h2, wrap_eq]
        simp
      have hargs : ([.var 0, .var 1] : List Expr).map (eval env) = [(a : Int), (b : Int)] := by
        simp only [List.map, eval, h0, h1]
      refine ⟨.ret [] (heapSort less a b s), ?_, Or.inl rfl⟩
      refine Runs.loop_ret (by rw [hc]) ?_
      rw [hc]
      refine Runs.ite_ret ?_
      rw [hc0]
      simp only [if_true]
      refine Runs.call C.hPh rfl rfl (vs := []) ?_ rfl Runs.ret
      rw [hargs]
      exact C.heap a b s hab hB
    · rename_i hgt
      have hc : evalC (sortWorld less) env (.lt (.lit (thrInsertion : Int)) (.sub (.var 1) (.var 0))) s = (false, s) := by
        simp (disch := omega) only [evalC, eval, h0, h1, wrap_eq]
        have : ¬ ((thrInsertion : Int) < (b : Int) - (a : Int)) := by omega
        simp only [this, decide_false]
      obtain ⟨env', hk⟩ := tail_runs P C.hPi less a b hab hB env s h0 h1
      refine ⟨.cont env' (smallSort less a b s), ?_, Or.inr ⟨env', rfl⟩⟩
      refine Runs.loop_exit (by rw [hc]) ?_
      rw [hc]
      exact hk [] _ Runs.nil
  | succ d ih =>
    intro a b env s h0 h1 h2 hab hb hd
    have hB := hb
    unfold B62 at hb hd
    rw [quickSort]
    have hthr := thrInsertion_small
    have hthr2 := Got.Lemmas.Sort.thrInsertion_ge
    split
    · rename_i hgt
      have hc : evalC (sortWorld less) env (.lt (.lit (thrInsertion : Int)) (.sub (.var 1) (.var 0))) s = (true, s) := by
        simp (disch := omega) only [evalC, eval, h0, h1, wrap_eq]
        have : ((thrInsertion : Int) < (b : Int) - (a : Int)) := by omega
        simp only [this, decide_true]
      have hc0 : evalC (sortWorld less) env (.eq (.var 2) (.lit 0)) s = (false, s) := by
        simp (disch := omega) only [evalC, eval, h2, wrap_eq]
        have : ¬ (((d + 1 : Nat) : Int) = 0) := by omega
        simp only [this, decide_false]
      -- maxDepth--
      obtain ⟨env1, hE1⟩ : ∃ e : Env, e = env.set 2 (eval env (.sub (.var 2) (.lit 1))) := ⟨_, rfl⟩
      have a0 : env1.get 0 = a := by rw [hE1, Env.get_set]; simpa using h0
      have a1 : env1.get 1 = b := by rw [hE1, Env.get_set]; simpa using h1
      have a2 : env1.get 2 = d := by
        rw [hE1, Env.get_set]; simp (disch := omega) only [eval, h2, wrap_eq]; simp
      have hargs1 : ([.var 0, .var 1] : List Expr).map (eval env1) = [(a : Int), (b : Int)] := by
        simp only [List.map, eval, a0, a1]
      -- mlo, mhi := doPivot_func(data, a, b)
      obtain ⟨hst, p1, p2, p3, p4⟩ := Got.Lemmas.Sort.doPivot_steps less a b s (by omega)
      generalize hp : doPivot less a b s = p at *
      obtain ⟨mlo, mhi, s1⟩ := p
      simp only at p1 p2 p3 p4 ⊢
      obtain ⟨env3, hE3⟩ : ∃ e : Env, e = (env1.set 3 (mlo : Int)).set 4 (mhi : Int) := ⟨_, rfl⟩
      have b0 : env3.get 0 = a := by rw [hE3, Env.get_set, Env.get_set]; simpa using a0
      have b1 : env3.get 1 = b := by rw [hE3, Env.get_set, Env.get_set]; simpa using a1
      have b2 : env3.get 2 = d := by rw [hE3, Env.get_set, Env.get_set]; simpa using a2
      have b3 : env3.get 3 = mlo := by rw [hE3, Env.get_set, Env.get_set]; simp
      have b4 : env3.get 4 = mhi := by rw [hE3, Env.get_set]; simp
      have hpiv := C.pivot a b s (by omega) hB
      rw [hp] at hpiv
      simp only at hpiv
      have hcmp : evalC (sortWorld less) env3 (.lt (.sub (.var 3) (.var 0)) (.sub (.var 1) (.var 4))) s1 =
          (decide (mlo - a < b - mhi), s1) := by
        simp (disch := omega) only [evalC, eval, b0, b1, b3, b4, wrap_eq]
        congr 1
        apply decide_eq_decide.mpr
        omega
      by_cases hside : mlo - a < b - mhi
      · simp only [hside, if_true]
        rw [decide_eq_true hside] at hcmp
        -- quickSort_func(data, a, mlo, maxDepth); a = mhi
        obtain ⟨r1, hr1, he1⟩ := ih a mlo #[(a : Int), (mlo : Int), (d : Int)] s1 rfl rfl rfl p1 (by unfold B62; omega)
          (by unfold B62; omega)
        have hcall1 : FnRuns (sortWorld less) P quickSort_func [(a : Int), (mlo : Int), (d : Int)] s1 []
            (quickSort less a mlo d s1) := by
          unfold FnRuns
          rw [quickSort_body]
          rcases he1 with rfl | ⟨e, rfl⟩
          · exact Or.inl hr1
          · exact Or.inr ⟨rfl, e, hr1⟩
        have hargs3 : ([.var 0, .var 3, .var 2] : List Expr).map (eval env3) = [(a : Int), (mlo : Int), (d : Int)] := by
          simp only [List.map, eval, b0, b3, b2]
        obtain ⟨env5, hE5⟩ : ∃ e : Env, e = env3.set 0 (eval env3 (.var 4)) := ⟨_, rfl⟩
        obtain ⟨r2, hr2, he2⟩ := ih mhi b env5 (quickSort less a mlo d s1)
          (by rw [hE5, Env.get_set]; simpa [eval] using b4) (by rw [hE5, Env.get_set]; simpa using b1)
          (by rw [hE5, Env.get_set]; simpa using b2) p4 hB (by unfold B62; omega)
        refine ⟨r2, ?_, he2⟩
        refine Runs.loop_iter (env' := env5) (w' := quickSort less a mlo d s1) (by rw [hc]) ?_ Runs.nil hr2
        rw [hc]
        refine Runs.ite (env' := env) (w' := s) (by rw [hc0]; exact Runs.nil) ?_
        refine Runs.set ?_
        rw [← hE1]
        refine Runs.call C.hPd rfl rfl (vs := [(mlo : Int), (mhi : Int)]) (by rw [hargs1]; exact hpiv) rfl ?_
        simp only [Env.setMany]
        rw [← hE3]
        refine Runs.ite (env' := env5) (w' := quickSort less a mlo d s1) ?_ Runs.nil
        rw [hcmp]
        simp only [if_true]
        refine Runs.call C.hPq rfl rfl (vs := []) (by rw [hargs3]; exact hcall1) rfl ?_
        simp only [Env.setMany]
        rw [hE5]
        exact Runs.set Runs.nil
      · simp only [hside, if_false]
        rw [decide_eq_false hside] at hcmp
        -- quickSort_func(data, mhi, b, maxDepth); b = mlo
        obtain ⟨r1, hr1, he1⟩ := ih mhi b #[(mhi : Int), (b : Int), (d : Int)] s1 rfl rfl rfl p4 hB
          (by unfold B62; omega)
        have hcall1 : FnRuns (sortWorld less) P quickSort_func [(mhi : Int), (b : Int), (d : Int)] s1 []
            (quickSort less mhi b d s1) := by
          unfold FnRuns
          rw [quickSort_body]
          rcases he1 with rfl | ⟨e, rfl⟩
          · exact Or.inl hr1
          · exact Or.inr ⟨rfl, e, hr1⟩
        have hargs3 : ([.var 4, .var 1, .var 2] : List Expr).map (eval env3) = [(mhi : Int), (b : Int), (d : Int)] := by
          simp only [List.map, eval, b4, b1, b2]
        obtain ⟨env5, hE5⟩ : ∃ e : Env, e = env3.set 1 (eval env3 (.var 3)) := ⟨_, rfl⟩
        obtain ⟨r2, hr2, he2⟩ := ih a mlo env5 (quickSort less mhi b d s1)
          (by rw [hE5, Env.get_set]; simpa using b0) (by rw [hE5, Env.get_set]; simpa [eval] using b3)
          (by rw [hE5, Env.get_set]; simpa using b2) p1 (by unfold B62; omega) (by unfold B62; omega)
        refine ⟨r2, ?_, he2⟩
        refine Runs.loop_iter (env' := env5) (w' := quickSort less mhi b d s1) (by rw [hc]) ?_ Runs.nil hr2
        rw [hc]
        refine Runs.ite (env' := env) (w' := s) (by rw [hc0]; exact Runs.nil) ?_
        refine Runs.set ?_
        rw [← hE1]
        refine Runs.call C.hPd rfl rfl (vs := [(mlo : Int), (mhi : Int)]) (by rw [hargs1]; exact hpiv) rfl ?_
        simp only [Env.setMany]
        rw [← hE3]
        refine Runs.ite (env' := env5) (w' := quickSort less mhi b d s1) ?_ Runs.nil
        rw [hcmp]
        simp only [Bool.false_eq_true, if_false]
        refine Runs.call C.hPq rfl rfl (vs := []) (by rw [hargs3]; exact hcall1) rfl ?_
        simp only [Env.setMany]
        rw [hE5]
        exact Runs.set Runs.nil
    · rename_i hgt
      have hc : evalC (sortWorld less) env (.lt (.lit (thrInsertion : Int)) (.sub (.var 1) (.var 0))) s = (false, s) := by
        simp (disch := omega) only [evalC, eval, h0, h1, wrap_eq]
        have : ¬ ((thrInsertion : Int) < (b : Int) - (a : Int)) := by omega
        simp only [this, decide_false]
      obtain ⟨env', hk⟩ := tail_runs P C.hPi less a b hab hB env s h0 h1
      refine ⟨.cont env' (smallSort less a b s), ?_, Or.inr ⟨env', rfl⟩⟩
      refine Runs.loop_exit (by rw [hc]) ?_
      rw [hc]
      exact hk [] _ Runs.nil

/-- quickSort_func: the translated source computes the model's `quickSort` (state and log), given its callees do -/
theorem quickSort_runs (P : String → Option Fn) (less : LessFn K V) (C : Callees P less) (a b d : Nat)
    (hab : a ≤ b) (hb : b < B62) (hd : d < B62) (s : St K V) :
    FnRuns (sortWorld less) P quickSort_func [(a : Int), (b : Int), (d : Int)] s [] (quickSort less a b d s) := by
  obtain ⟨r, hr, he⟩ := quick_body_runs P less C d a b #[(a : Int), (b : Int), (d : Int)] s rfl rfl rfl hab hb hd
  unfold FnRuns
  rw [quickSort_body]
  rcases he with rfl | ⟨e, rfl⟩
  · exact Or.inl hr
  · exact Or.inr ⟨rfl, e, hr⟩

end Got.Lemmas.SortAst
