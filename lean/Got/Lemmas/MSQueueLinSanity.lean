import Got.Lemmas.MSQueueLin
/-
Sanity of the definition `Linearizable`: it rejects a history that invents a value, and a history that
violates the real-time order (a Pop that starts after a Push has returned must not miss its value).
-/
namespace Got.Spec.Lin

theorem complete_subset : ∀ (X : List HEv) (e : HEv), e ∈ complete X → e ∈ X := by
  intro X
  induction X with
  | nil => intro e h; cases h
  | cons x X ih =>
    intro e h
    cases x with
    | ret t r =>
      rw [complete, List.mem_cons] at h
      rcases h with h | h
      · exact h ▸ List.mem_cons_self ..
      · exact List.mem_cons_of_mem _ (ih e h)
    | inv t o =>
      rw [complete] at h
      split at h
      · rw [List.mem_cons] at h
        rcases h with h | h
        · exact h ▸ List.mem_cons_self ..
        · exact List.mem_cons_of_mem _ (ih e h)
      · exact List.mem_cons_of_mem _ (ih e h)

theorem mem_proj {t : Nat} {X : List HEv} {e : HEv} : e ∈ proj t X ↔ e ∈ X ∧ e.tid = t := by
  unfold proj; rw [List.mem_filter]; simp

theorem inv_mem_seqHist {S : List OpRec} {x : OpRec} (h : x ∈ S) : HEv.inv x.t x.o ∈ seqHist S := by
  induction S with
  | nil => cases h
  | cons y S ih =>
    rw [List.mem_cons] at h
    rcases h with h | h
    · subst h; exact List.mem_cons_self ..
    · exact List.mem_cons_of_mem _ (List.mem_cons_of_mem _ (ih h))

/-- a thread without invocation in `H` has no operation in any linearization of `H`. -/
theorem no_ops_of_silent_thread {H ext : List HEv} {S : List OpRec}
    (hext : ∀ e, e ∈ ext → e.isRet = true)
    (hL1 : ∀ t, proj t (complete (H ++ ext)) = proj t (seqHist S))
    {t : Nat} (hH : ∀ e, e ∈ H → e.tid ≠ t) : ∀ x, x ∈ S → x.t ≠ t := by
  intro x hx hxt
  have h1 : HEv.inv x.t x.o ∈ proj t (seqHist S) := mem_proj.mpr ⟨inv_mem_seqHist hx, hxt⟩
  rw [← hL1 t] at h1
  obtain ⟨h2, _⟩ := mem_proj.mp h1
  have h3 := complete_subset _ _ h2
  rw [List.mem_append] at h3
  rcases h3 with h3 | h3
  · exact hH _ h3 hxt
  · have := hext _ h3; cases this

theorem filterT_eq_self {t : Nat} {S : List OpRec} (h : ∀ x, x ∈ S → x.t = t) : filterT t S = S := by
  unfold filterT
  rw [List.filter_eq_self]
  intro x hx; simp [h x hx]

/-- a Pop that returns a value nobody pushed: not linearizable. -/
theorem not_linearizable_invented :
    ¬ Linearizable FifoSpec [.inv 0 .pop, .ret 0 (.val (some 5))] := by
  rintro ⟨ext, S, hext, hleg, hL1, _⟩
  have hall : ∀ x, x ∈ S → x.t = 0 := by
    intro x hx
    rcases Nat.eq_zero_or_pos x.t with h | h
    · exact h
    · exfalso
      refine no_ops_of_silent_thread hext hL1 (t := x.t) ?_ x hx rfl
      intro e he
      simp only [List.mem_cons, List.mem_nil_iff, or_false] at he
      rcases he with he | he <;> subst he <;> simp only [HEv.tid] <;> omega
  have h0 := hL1 0
  rw [proj_seqHist, filterT_eq_self hall] at h0
  have hc : complete ([HEv.inv 0 Op.pop, HEv.ret 0 (Res.val (some 5))] ++ ext)
      = .inv 0 .pop :: .ret 0 (.val (some 5)) :: complete ext := by
    simp [complete, HEv.tid]
  rw [hc, proj_cons_same (t := 0) (e := .inv 0 .pop) rfl, proj_cons_same (t := 0) (e := .ret 0 _) rfl] at h0
  cases S with
  | nil => cases h0
  | cons x S' =>
    simp only [seqHist] at h0
    injection h0 with h1 h2
    injection h2 with h2 _
    injection h1 with h1a h1b
    injection h2 with h2a h2b
    unfold Legal at hleg
    have : (FifoSpec.apply FifoSpec.init x.o).2 ≠ x.r := by
      rw [← h1b, ← h2b]; simp [FifoSpec, fifoApply]
    simp only [SeqSpec.runOps, if_neg this] at hleg
    cases hleg

theorem filterT_cons_same {t : Nat} {x : OpRec} (h : x.t = t) (S : List OpRec) :
    filterT t (x :: S) = x :: filterT t S := by
  simp [filterT, h]

theorem filterT_cons_other {t : Nat} {x : OpRec} (h : x.t ≠ t) (S : List OpRec) :
    filterT t (x :: S) = filterT t S := by
  simp [filterT, h]

theorem only_thread_one {S : List OpRec} (h01 : ∀ x, x ∈ S → x.t = 0 ∨ x.t = 1)
    (h0 : filterT 0 S = []) : filterT 1 S = S := by
  apply filterT_eq_self
  intro x hx
  rcases h01 x hx with h | h
  · exfalso
    have : x ∈ filterT 0 S := by
      unfold filterT; rw [List.mem_filter]; exact ⟨hx, by simp [h]⟩
    rw [h0] at this; cases this
  · exact h

theorem only_thread_zero {S : List OpRec} (h01 : ∀ x, x ∈ S → x.t = 0 ∨ x.t = 1)
    (h1 : filterT 1 S = []) : filterT 0 S = S := by
  apply filterT_eq_self
  intro x hx
  rcases h01 x hx with h | h
  · exact h
  · exfalso
    have : x ∈ filterT 1 S := by
      unfold filterT; rw [List.mem_filter]; exact ⟨hx, by simp [h]⟩
    rw [h1] at this; cases this

/-- the only trailing events a completion can add to a thread's subhistory are responses. -/
theorem proj_complete_ext_rets {ext : List HEv} (hext : ∀ e, e ∈ ext → e.isRet = true) (t : Nat) :
    ∀ e, e ∈ proj t (complete ext) → e.isRet = true := by
  intro e he
  exact hext e (complete_subset _ _ (mem_proj.mp he).1)

/-- if a thread's part of a sequential history is `inv · ret · (responses only)`, the thread has exactly
    one operation in it. -/
theorem single_op {St : List OpRec} {t : Nat} {o : Op} {r : Res} {R : List HEv}
    (hR : ∀ e, e ∈ R → e.isRet = true) (h : HEv.inv t o :: HEv.ret t r :: R = seqHist St) :
    St = [⟨t, o, r⟩] := by
  cases St with
  | nil => cases h
  | cons x St' =>
    simp only [seqHist] at h
    injection h with h1 h2
    injection h2 with h2 h3
    injection h1 with h1a h1b
    injection h2 with h2a h2b
    cases St' with
    | nil =>
      cases x; simp only at h1a h1b h2b; subst h1a; subst h1b; subst h2b; rfl
    | cons y St'' =>
      exfalso
      simp only [seqHist] at h3
      have : HEv.inv y.t y.o ∈ R := by rw [h3]; exact List.mem_cons_self ..
      have := hR _ this
      cases this

/-- a Pop invoked after a Push has returned must see its value: answering nil violates the real-time
    order, so the history is not linearizable. -/
theorem not_linearizable_stale_empty :
    ¬ Linearizable FifoSpec
      [.inv 0 (.push 1), .ret 0 .ack, .inv 1 .pop, .ret 1 (.val none)] := by
  rintro ⟨ext, S, hext, hleg, hL1, hL2⟩
  have h01 : ∀ x, x ∈ S → x.t = 0 ∨ x.t = 1 := by
    intro x hx
    by_cases h0 : x.t = 0
    · exact Or.inl h0
    · by_cases h1 : x.t = 1
      · exact Or.inr h1
      · exfalso
        refine no_ops_of_silent_thread hext hL1 (t := x.t) ?_ x hx rfl
        intro e he
        simp only [List.mem_cons, List.mem_nil_iff, or_false] at he
        rcases he with he | he | he | he <;> subst he <;> simp only [HEv.tid] <;> omega
  have hc : complete ([HEv.inv 0 (.push 1), .ret 0 .ack, .inv 1 .pop, .ret 1 (.val none)] ++ ext)
      = .inv 0 (.push 1) :: .ret 0 .ack :: .inv 1 .pop :: .ret 1 (.val none) :: complete ext := by
    simp [complete, HEv.tid]
  -- thread 0 has exactly the Push, thread 1 exactly the Pop
  have hS0 : filterT 0 S = [⟨0, .push 1, .ack⟩] := by
    have h0 := hL1 0
    rw [proj_seqHist, hc, proj_cons_same (t := 0) (e := .inv 0 _) rfl, proj_cons_same (t := 0) (e := .ret 0 _) rfl,
      proj_cons_other (t := 0) (e := .inv 1 _) (by simp [HEv.tid]),
      proj_cons_other (t := 0) (e := .ret 1 _) (by simp [HEv.tid])] at h0
    exact single_op (proj_complete_ext_rets hext 0) h0
  have hS1 : filterT 1 S = [⟨1, .pop, .val none⟩] := by
    have h1 := hL1 1
    rw [proj_seqHist, hc, proj_cons_other (t := 1) (e := .inv 0 _) (by simp [HEv.tid]),
      proj_cons_other (t := 1) (e := .ret 0 _) (by simp [HEv.tid]),
      proj_cons_same (t := 1) (e := .inv 1 _) rfl, proj_cons_same (t := 1) (e := .ret 1 _) rfl] at h1
    exact single_op (proj_complete_ext_rets hext 1) h1
  -- real-time order: the Push returned before the Pop was invoked
  have hrt : RetBeforeInv [HEv.inv 0 (.push 1), .ret 0 .ack, .inv 1 .pop, .ret 1 (.val none)] 0 0 1 0 :=
    ⟨[.inv 0 (.push 1), .ret 0 .ack], [.inv 1 .pop, .ret 1 (.val none)], rfl, by decide, by decide⟩
  obtain ⟨Y₁, Y₂, hY, hr, hi⟩ := hL2 0 0 1 0 hrt
  cases S with
  | nil => cases hS0
  | cons x S' =>
    have hS' : ∀ y, y ∈ S' → y.t = 0 ∨ y.t = 1 := fun y hy => h01 y (List.mem_cons_of_mem _ hy)
    rcases h01 x (List.mem_cons_self ..) with hx | hx
    · -- S = [push, pop]: illegal (the Pop must return 1)
      rw [filterT_cons_same hx] at hS0
      rw [filterT_cons_other (by omega : x.t ≠ 1)] at hS1
      injection hS0 with hxa hS0'
      have hS'eq : S' = [⟨1, .pop, .val none⟩] := by rw [← only_thread_one hS' hS0']; exact hS1
      subst hxa; subst hS'eq
      unfold Legal at hleg
      revert hleg
      decide
    · -- S = [pop, push]: the real-time order is violated
      rw [filterT_cons_other (by omega : x.t ≠ 0)] at hS0
      rw [filterT_cons_same hx] at hS1
      injection hS1 with hxa hS1'
      have hS'eq : S' = [⟨0, .push 1, .ack⟩] := by rw [← only_thread_zero hS' hS1']; exact hS0
      subst hxa; subst hS'eq
      simp only [seqHist] at hY
      cases Y₁ with
      | nil => revert hr; decide
      | cons y Y₁' =>
        simp only [List.cons_append] at hY
        injection hY with hy _
        subst hy
        unfold nInv at hi
        rw [List.countP_cons] at hi
        simp [HEv.isInvOf] at hi

end Got.Spec.Lin
