import Got.Model.AntsEvents
import Got.Lemmas.AntsQueues
import Got.Lemmas.Discipline
/-
C18 for ants (taskCallback.result / err) from the LTS of Got/Model/Ants.lean: for every execution of the current code
(`c.old = false`: any pool size, any Send stream, any handler behaviour, every interleaving and timing) extended with
any number of client Get2/Get1/Err calls, the `result/err` trace of task `k` (Got/Model/AntsEvents.lean) is accepted by the
publication-discipline monitor, hence race free (`accepts_raceFree`).

Invariant `DInv k t m` (t = record of task k, m = monitor state; x = record of the current attempt):
  s1  the closure that won the flag is closed before the dispatcher leaves its waiting stages
  d1  the dispatcher is current (ordered after every access) except while the inner worker owns the attempt's outcome
      (decided = 1 and the dispatcher has not yet received from doneChan) and after Done
  d2  after the hand-over of an undecided attempt's closure, the channel object carries "after every access"
  d3  the inner worker holding the closure of an attempt the dispatcher did not win is current (it acquired the hand-over;
      it stays current as the CAS winner, through its write, until close)
  d4  after the winner's write and close(doneChan), doneObj carries the write while the dispatcher is still waiting
  d5  after Done the WaitGroup object carries the last write
Negative controls (kernel-evaluated): the torn-result runs of the code before the decided flag and a read without Wait
are rejected.
-/
set_option linter.unusedSimpArgs false
set_option linter.unusedVariables false

namespace Got.Lemmas.DiscAnts
open Got.Model.Ants Got.Model.AntsEvents Got.Model.Discipline Got.Lemmas.Discipline

def afterWait : TPc → Bool
  | .cancel | .errTest | .loopTest | .onError | .wgDone => true
  | _ => false

structure DInv (k : Nat) (t : Task) (m : Mon) : Prop where
  s1 : 1 ≤ t.att → (t.at_ t.cur).decided = 1 → (t.at_ t.cur).pc ≠ .closed → t.pc.waiting = true
  d1 : t.pc ≠ .done → (t.att = 0 ∨ (t.at_ t.cur).decided ≠ 1 ∨ afterWait t.pc = true) →
        m.acur dispT = true ∧ m.wcur dispT = true
  d2 : 1 ≤ t.att → (t.at_ t.cur).decided = 0 → (t.at_ t.cur).pc = .queued →
        m.carA (clObj k t.cur) = true ∧ m.carW (clObj k t.cur) = true
  d3 : 1 ≤ t.att → (t.at_ t.cur).decided ≠ 2 → (t.at_ t.cur).pc.slot?.isSome = true →
        m.acur (innT t.cur) = true ∧ m.wcur (innT t.cur) = true
  d4 : 1 ≤ t.att → (t.at_ t.cur).decided = 1 → (t.at_ t.cur).pc = .closed → t.pc.waiting = true →
        m.carA (doneObj k t.cur) = true ∧ m.carW (doneObj k t.cur) = true
  d5 : t.pc = .done → m.carW (wgObj k) = true

theorem dinv_init (k : Nat) : DInv k {} Mon.init := by
  constructor <;> simp [Mon.init, Task.cur]


theorem dv_send {c : Cfg} (hc : c.old = false) {k now qlen kk a w v : Nat} {o : Opts} {hon : Bool} {e : Err} {t t' : Task} {m : Mon}
    (ok : TaskOK t) (hd : DInv k t m)
    (h : tstep c now qlen t (.send kk o) = some t') : ∃ m', m.run (tev k t (.send kk o)) = some m' ∧ DInv k t' m' := by
  obtain ⟨s1, d1, d2, d3, d4, d5⟩ := hd
  have hsc := ok.sendCl
  have hatt := ok.att_pos
  have hpre := ok.pre0
  have hd0 := ok.dec0
  have hd2 := ok.dec2
  have hwde := ok.wDE
  have hwdn := ok.wDone
  have hww := ok.writeW a
  have hwc := ok.writeW t.cur
  have hAa := ok.atts a
  have hAc := ok.atts t.cur
  have hbe := ok.beyond a
  simp only [tstep, hc, Bool.false_eq_true, ↓reduceIte] at h
  (repeat' split at h) <;> (try cases h) <;>
  (refine ⟨_, by simp_all [tev, Mon.run, Mon.step]; (try rfl), ?_⟩ <;>
   constructor <;> simp_all [TPc.waiting, afterWait, Task.cur, Task.setAt, upd, CPc.slot?, TPc.pre, AttOK, CPc.isWrite, CPc.afterCas,
     TPc.preDecide, dispT, innT, clObj, decObj, doneObj, wgObj])

theorem dv_busyTest {c : Cfg} (hc : c.old = false) {k now qlen kk a w v : Nat} {o : Opts} {hon : Bool} {e : Err} {t t' : Task} {m : Mon}
    (ok : TaskOK t) (hd : DInv k t m)
    (h : tstep c now qlen t (.busyTest kk) = some t') : ∃ m', m.run (tev k t (.busyTest kk)) = some m' ∧ DInv k t' m' := by
  obtain ⟨s1, d1, d2, d3, d4, d5⟩ := hd
  have hsc := ok.sendCl
  have hatt := ok.att_pos
  have hpre := ok.pre0
  have hd0 := ok.dec0
  have hd2 := ok.dec2
  have hwde := ok.wDE
  have hwdn := ok.wDone
  have hww := ok.writeW a
  have hwc := ok.writeW t.cur
  have hAa := ok.atts a
  have hAc := ok.atts t.cur
  have hbe := ok.beyond a
  simp only [tstep, hc, Bool.false_eq_true, ↓reduceIte] at h
  (repeat' split at h) <;> (try cases h) <;>
  (refine ⟨_, by simp_all [tev, Mon.run, Mon.step]; (try rfl), ?_⟩ <;>
   constructor <;> simp_all [TPc.waiting, afterWait, Task.cur, Task.setAt, upd, CPc.slot?, TPc.pre, AttOK, CPc.isWrite, CPc.afterCas,
     TPc.preDecide, dispT, innT, clObj, decObj, doneObj, wgObj])

theorem dv_discardCb {c : Cfg} (hc : c.old = false) {k now qlen kk a w v : Nat} {o : Opts} {hon : Bool} {e : Err} {t t' : Task} {m : Mon}
    (ok : TaskOK t) (hd : DInv k t m)
    (h : tstep c now qlen t (.discardCb kk) = some t') : ∃ m', m.run (tev k t (.discardCb kk)) = some m' ∧ DInv k t' m' := by
  obtain ⟨s1, d1, d2, d3, d4, d5⟩ := hd
  have hsc := ok.sendCl
  have hatt := ok.att_pos
  have hpre := ok.pre0
  have hd0 := ok.dec0
  have hd2 := ok.dec2
  have hwde := ok.wDE
  have hwdn := ok.wDone
  have hww := ok.writeW a
  have hwc := ok.writeW t.cur
  have hAa := ok.atts a
  have hAc := ok.atts t.cur
  have hbe := ok.beyond a
  simp only [tstep, hc, Bool.false_eq_true, ↓reduceIte] at h
  (repeat' split at h) <;> (try cases h) <;>
  (refine ⟨_, by simp_all [tev, Mon.run, Mon.step]; (try rfl), ?_⟩ <;>
   constructor <;> simp_all [TPc.waiting, afterWait, Task.cur, Task.setAt, upd, CPc.slot?, TPc.pre, AttOK, CPc.isWrite, CPc.afterCas,
     TPc.preDecide, dispT, innT, clObj, decObj, doneObj, wgObj])

theorem dv_enq {c : Cfg} (hc : c.old = false) {k now qlen kk a w v : Nat} {o : Opts} {hon : Bool} {e : Err} {t t' : Task} {m : Mon}
    (ok : TaskOK t) (hd : DInv k t m)
    (h : tstep c now qlen t (.enq kk) = some t') : ∃ m', m.run (tev k t (.enq kk)) = some m' ∧ DInv k t' m' := by
  obtain ⟨s1, d1, d2, d3, d4, d5⟩ := hd
  have hsc := ok.sendCl
  have hatt := ok.att_pos
  have hpre := ok.pre0
  have hd0 := ok.dec0
  have hd2 := ok.dec2
  have hwde := ok.wDE
  have hwdn := ok.wDone
  have hww := ok.writeW a
  have hwc := ok.writeW t.cur
  have hAa := ok.atts a
  have hAc := ok.atts t.cur
  have hbe := ok.beyond a
  simp only [tstep, hc, Bool.false_eq_true, ↓reduceIte] at h
  (repeat' split at h) <;> (try cases h) <;>
  (refine ⟨_, by simp_all [tev, Mon.run, Mon.step]; (try rfl), ?_⟩ <;>
   constructor <;> simp_all [TPc.waiting, afterWait, Task.cur, Task.setAt, upd, CPc.slot?, TPc.pre, AttOK, CPc.isWrite, CPc.afterCas,
     TPc.preDecide, dispT, innT, clObj, decObj, doneObj, wgObj])

theorem dv_take {c : Cfg} (hc : c.old = false) {k now qlen kk a w v : Nat} {o : Opts} {hon : Bool} {e : Err} {t t' : Task} {m : Mon}
    (ok : TaskOK t) (hd : DInv k t m)
    (h : tstep c now qlen t (.take kk) = some t') : ∃ m', m.run (tev k t (.take kk)) = some m' ∧ DInv k t' m' := by
  obtain ⟨s1, d1, d2, d3, d4, d5⟩ := hd
  have hsc := ok.sendCl
  have hatt := ok.att_pos
  have hpre := ok.pre0
  have hd0 := ok.dec0
  have hd2 := ok.dec2
  have hwde := ok.wDE
  have hwdn := ok.wDone
  have hww := ok.writeW a
  have hwc := ok.writeW t.cur
  have hAa := ok.atts a
  have hAc := ok.atts t.cur
  have hbe := ok.beyond a
  simp only [tstep, hc, Bool.false_eq_true, ↓reduceIte] at h
  (repeat' split at h) <;> (try cases h) <;>
  (refine ⟨_, by simp_all [tev, Mon.run, Mon.step]; (try rfl), ?_⟩ <;>
   constructor <;> simp_all [TPc.waiting, afterWait, Task.cur, Task.setAt, upd, CPc.slot?, TPc.pre, AttOK, CPc.isWrite, CPc.afterCas,
     TPc.preDecide, dispT, innT, clObj, decObj, doneObj, wgObj])

theorem dv_loopTest {c : Cfg} (hc : c.old = false) {k now qlen kk a w v : Nat} {o : Opts} {hon : Bool} {e : Err} {t t' : Task} {m : Mon}
    (ok : TaskOK t) (hd : DInv k t m)
    (h : tstep c now qlen t (.loopTest kk) = some t') : ∃ m', m.run (tev k t (.loopTest kk)) = some m' ∧ DInv k t' m' := by
  obtain ⟨s1, d1, d2, d3, d4, d5⟩ := hd
  have hsc := ok.sendCl
  have hatt := ok.att_pos
  have hpre := ok.pre0
  have hd0 := ok.dec0
  have hd2 := ok.dec2
  have hwde := ok.wDE
  have hwdn := ok.wDone
  have hww := ok.writeW a
  have hwc := ok.writeW t.cur
  have hAa := ok.atts a
  have hAc := ok.atts t.cur
  have hbe := ok.beyond a
  simp only [tstep, hc, Bool.false_eq_true, ↓reduceIte] at h
  (repeat' split at h) <;> (try cases h) <;>
  (refine ⟨_, by simp_all [tev, Mon.run, Mon.step]; (try rfl), ?_⟩ <;>
   constructor <;> simp_all [TPc.waiting, afterWait, Task.cur, Task.setAt, upd, CPc.slot?, TPc.pre, AttOK, CPc.isWrite, CPc.afterCas,
     TPc.preDecide, dispT, innT, clObj, decObj, doneObj, wgObj])

theorem dv_sendCl {c : Cfg} (hc : c.old = false) {k now qlen kk a w v : Nat} {o : Opts} {hon : Bool} {e : Err} {t t' : Task} {m : Mon}
    (ok : TaskOK t) (hd : DInv k t m)
    (h : tstep c now qlen t (.sendCl kk) = some t') : ∃ m', m.run (tev k t (.sendCl kk)) = some m' ∧ DInv k t' m' := by
  obtain ⟨s1, d1, d2, d3, d4, d5⟩ := hd
  have hsc := ok.sendCl
  have hatt := ok.att_pos
  have hpre := ok.pre0
  have hd0 := ok.dec0
  have hd2 := ok.dec2
  have hwde := ok.wDE
  have hwdn := ok.wDone
  have hww := ok.writeW a
  have hwc := ok.writeW t.cur
  have hAa := ok.atts a
  have hAc := ok.atts t.cur
  have hbe := ok.beyond a
  simp only [tstep, hc, Bool.false_eq_true, ↓reduceIte] at h
  (repeat' split at h) <;> (try cases h) <;>
  (refine ⟨_, by simp_all [tev, Mon.run, Mon.step]; (try rfl), ?_⟩ <;>
   constructor <;> simp_all [TPc.waiting, afterWait, Task.cur, Task.setAt, upd, CPc.slot?, TPc.pre, AttOK, CPc.isWrite, CPc.afterCas,
     TPc.preDecide, dispT, innT, clObj, decObj, doneObj, wgObj])

theorem dv_hook3 {c : Cfg} (hc : c.old = false) {k now qlen kk a w v : Nat} {o : Opts} {hon : Bool} {e : Err} {t t' : Task} {m : Mon}
    (ok : TaskOK t) (hd : DInv k t m)
    (h : tstep c now qlen t (.hook3 kk) = some t') : ∃ m', m.run (tev k t (.hook3 kk)) = some m' ∧ DInv k t' m' := by
  obtain ⟨s1, d1, d2, d3, d4, d5⟩ := hd
  have hsc := ok.sendCl
  have hatt := ok.att_pos
  have hpre := ok.pre0
  have hd0 := ok.dec0
  have hd2 := ok.dec2
  have hwde := ok.wDE
  have hwdn := ok.wDone
  have hww := ok.writeW a
  have hwc := ok.writeW t.cur
  have hAa := ok.atts a
  have hAc := ok.atts t.cur
  have hbe := ok.beyond a
  simp only [tstep, hc, Bool.false_eq_true, ↓reduceIte] at h
  (repeat' split at h) <;> (try cases h) <;>
  (refine ⟨_, by simp_all [tev, Mon.run, Mon.step]; (try rfl), ?_⟩ <;>
   constructor <;> simp_all [TPc.waiting, afterWait, Task.cur, Task.setAt, upd, CPc.slot?, TPc.pre, AttOK, CPc.isWrite, CPc.afterCas,
     TPc.preDecide, dispT, innT, clObj, decObj, doneObj, wgObj])

theorem dv_selDone {c : Cfg} (hc : c.old = false) {k now qlen kk a w v : Nat} {o : Opts} {hon : Bool} {e : Err} {t t' : Task} {m : Mon}
    (ok : TaskOK t) (hd : DInv k t m)
    (h : tstep c now qlen t (.selDone kk) = some t') : ∃ m', m.run (tev k t (.selDone kk)) = some m' ∧ DInv k t' m' := by
  obtain ⟨s1, d1, d2, d3, d4, d5⟩ := hd
  have hsc := ok.sendCl
  have hatt := ok.att_pos
  have hpre := ok.pre0
  have hd0 := ok.dec0
  have hd2 := ok.dec2
  have hwde := ok.wDE
  have hwdn := ok.wDone
  have hww := ok.writeW a
  have hwc := ok.writeW t.cur
  have hAa := ok.atts a
  have hAc := ok.atts t.cur
  have hbe := ok.beyond a
  simp only [tstep, hc, Bool.false_eq_true, ↓reduceIte] at h
  (repeat' split at h) <;> (try cases h) <;>
  (refine ⟨_, by simp_all [tev, Mon.run, Mon.step]; (try rfl), ?_⟩ <;>
   constructor <;> simp_all [TPc.waiting, afterWait, Task.cur, Task.setAt, upd, CPc.slot?, TPc.pre, AttOK, CPc.isWrite, CPc.afterCas,
     TPc.preDecide, dispT, innT, clObj, decObj, doneObj, wgObj])

theorem dv_selCtx {c : Cfg} (hc : c.old = false) {k now qlen kk a w v : Nat} {o : Opts} {hon : Bool} {e : Err} {t t' : Task} {m : Mon}
    (ok : TaskOK t) (hd : DInv k t m)
    (h : tstep c now qlen t (.selCtx kk) = some t') : ∃ m', m.run (tev k t (.selCtx kk)) = some m' ∧ DInv k t' m' := by
  obtain ⟨s1, d1, d2, d3, d4, d5⟩ := hd
  have hsc := ok.sendCl
  have hatt := ok.att_pos
  have hpre := ok.pre0
  have hd0 := ok.dec0
  have hd2 := ok.dec2
  have hwde := ok.wDE
  have hwdn := ok.wDone
  have hww := ok.writeW a
  have hwc := ok.writeW t.cur
  have hAa := ok.atts a
  have hAc := ok.atts t.cur
  have hbe := ok.beyond a
  simp only [tstep, hc, Bool.false_eq_true, ↓reduceIte] at h
  (repeat' split at h) <;> (try cases h) <;>
  (refine ⟨_, by simp_all [tev, Mon.run, Mon.step]; (try rfl), ?_⟩ <;>
   constructor <;> simp_all [TPc.waiting, afterWait, Task.cur, Task.setAt, upd, CPc.slot?, TPc.pre, AttOK, CPc.isWrite, CPc.afterCas,
     TPc.preDecide, dispT, innT, clObj, decObj, doneObj, wgObj])

theorem dv_hook2 {c : Cfg} (hc : c.old = false) {k now qlen kk a w v : Nat} {o : Opts} {hon : Bool} {e : Err} {t t' : Task} {m : Mon}
    (ok : TaskOK t) (hd : DInv k t m)
    (h : tstep c now qlen t (.hook2 kk) = some t') : ∃ m', m.run (tev k t (.hook2 kk)) = some m' ∧ DInv k t' m' := by
  obtain ⟨s1, d1, d2, d3, d4, d5⟩ := hd
  have hsc := ok.sendCl
  have hatt := ok.att_pos
  have hpre := ok.pre0
  have hd0 := ok.dec0
  have hd2 := ok.dec2
  have hwde := ok.wDE
  have hwdn := ok.wDone
  have hww := ok.writeW a
  have hwc := ok.writeW t.cur
  have hAa := ok.atts a
  have hAc := ok.atts t.cur
  have hbe := ok.beyond a
  simp only [tstep, hc, Bool.false_eq_true, ↓reduceIte] at h
  (repeat' split at h) <;> (try cases h) <;>
  (refine ⟨_, by simp_all [tev, Mon.run, Mon.step]; (try rfl), ?_⟩ <;>
   constructor <;> simp_all [TPc.waiting, afterWait, Task.cur, Task.setAt, upd, CPc.slot?, TPc.pre, AttOK, CPc.isWrite, CPc.afterCas,
     TPc.preDecide, dispT, innT, clObj, decObj, doneObj, wgObj])

theorem dv_decide {c : Cfg} (hc : c.old = false) {k now qlen kk a w v : Nat} {o : Opts} {hon : Bool} {e : Err} {t t' : Task} {m : Mon}
    (ok : TaskOK t) (hd : DInv k t m)
    (h : tstep c now qlen t (.decide kk) = some t') : ∃ m', m.run (tev k t (.decide kk)) = some m' ∧ DInv k t' m' := by
  obtain ⟨s1, d1, d2, d3, d4, d5⟩ := hd
  have hsc := ok.sendCl
  have hatt := ok.att_pos
  have hpre := ok.pre0
  have hd0 := ok.dec0
  have hd2 := ok.dec2
  have hwde := ok.wDE
  have hwdn := ok.wDone
  have hww := ok.writeW a
  have hwc := ok.writeW t.cur
  have hAa := ok.atts a
  have hAc := ok.atts t.cur
  have hbe := ok.beyond a
  simp only [tstep, hc, Bool.false_eq_true, ↓reduceIte] at h
  (repeat' split at h) <;> (try cases h) <;>
  (refine ⟨_, by simp_all [tev, Mon.run, Mon.step]; (try rfl), ?_⟩ <;>
   constructor <;> simp_all [TPc.waiting, afterWait, Task.cur, Task.setAt, upd, CPc.slot?, TPc.pre, AttOK, CPc.isWrite, CPc.afterCas,
     TPc.preDecide, dispT, innT, clObj, decObj, doneObj, wgObj])

theorem dv_writeDE {c : Cfg} (hc : c.old = false) {k now qlen kk a w v : Nat} {o : Opts} {hon : Bool} {e : Err} {t t' : Task} {m : Mon}
    (ok : TaskOK t) (hd : DInv k t m)
    (h : tstep c now qlen t (.writeDE kk) = some t') : ∃ m', m.run (tev k t (.writeDE kk)) = some m' ∧ DInv k t' m' := by
  obtain ⟨s1, d1, d2, d3, d4, d5⟩ := hd
  have hsc := ok.sendCl
  have hatt := ok.att_pos
  have hpre := ok.pre0
  have hd0 := ok.dec0
  have hd2 := ok.dec2
  have hwde := ok.wDE
  have hwdn := ok.wDone
  have hww := ok.writeW a
  have hwc := ok.writeW t.cur
  have hAa := ok.atts a
  have hAc := ok.atts t.cur
  have hbe := ok.beyond a
  simp only [tstep, hc, Bool.false_eq_true, ↓reduceIte] at h
  (repeat' split at h) <;> (try cases h) <;>
  (refine ⟨_, by simp_all [tev, Mon.run, Mon.step]; (try rfl), ?_⟩ <;>
   constructor <;> simp_all [TPc.waiting, afterWait, Task.cur, Task.setAt, upd, CPc.slot?, TPc.pre, AttOK, CPc.isWrite, CPc.afterCas,
     TPc.preDecide, dispT, innT, clObj, decObj, doneObj, wgObj])

theorem dv_waitDone {c : Cfg} (hc : c.old = false) {k now qlen kk a w v : Nat} {o : Opts} {hon : Bool} {e : Err} {t t' : Task} {m : Mon}
    (ok : TaskOK t) (hd : DInv k t m)
    (h : tstep c now qlen t (.waitDone kk) = some t') : ∃ m', m.run (tev k t (.waitDone kk)) = some m' ∧ DInv k t' m' := by
  obtain ⟨s1, d1, d2, d3, d4, d5⟩ := hd
  have hsc := ok.sendCl
  have hatt := ok.att_pos
  have hpre := ok.pre0
  have hd0 := ok.dec0
  have hd2 := ok.dec2
  have hwde := ok.wDE
  have hwdn := ok.wDone
  have hww := ok.writeW a
  have hwc := ok.writeW t.cur
  have hAa := ok.atts a
  have hAc := ok.atts t.cur
  have hbe := ok.beyond a
  simp only [tstep, hc, Bool.false_eq_true, ↓reduceIte] at h
  (repeat' split at h) <;> (try cases h) <;>
  (refine ⟨_, by simp_all [tev, Mon.run, Mon.step]; (try rfl), ?_⟩ <;>
   constructor <;> simp_all [TPc.waiting, afterWait, Task.cur, Task.setAt, upd, CPc.slot?, TPc.pre, AttOK, CPc.isWrite, CPc.afterCas,
     TPc.preDecide, dispT, innT, clObj, decObj, doneObj, wgObj])

theorem dv_cancel {c : Cfg} (hc : c.old = false) {k now qlen kk a w v : Nat} {o : Opts} {hon : Bool} {e : Err} {t t' : Task} {m : Mon}
    (ok : TaskOK t) (hd : DInv k t m)
    (h : tstep c now qlen t (.cancel kk) = some t') : ∃ m', m.run (tev k t (.cancel kk)) = some m' ∧ DInv k t' m' := by
  obtain ⟨s1, d1, d2, d3, d4, d5⟩ := hd
  have hsc := ok.sendCl
  have hatt := ok.att_pos
  have hpre := ok.pre0
  have hd0 := ok.dec0
  have hd2 := ok.dec2
  have hwde := ok.wDE
  have hwdn := ok.wDone
  have hww := ok.writeW a
  have hwc := ok.writeW t.cur
  have hAa := ok.atts a
  have hAc := ok.atts t.cur
  have hbe := ok.beyond a
  simp only [tstep, hc, Bool.false_eq_true, ↓reduceIte] at h
  (repeat' split at h) <;> (try cases h) <;>
  (refine ⟨_, by simp_all [tev, Mon.run, Mon.step]; (try rfl), ?_⟩ <;>
   constructor <;> simp_all [TPc.waiting, afterWait, Task.cur, Task.setAt, upd, CPc.slot?, TPc.pre, AttOK, CPc.isWrite, CPc.afterCas,
     TPc.preDecide, dispT, innT, clObj, decObj, doneObj, wgObj])

theorem dv_wgDone {c : Cfg} (hc : c.old = false) {k now qlen kk a w v : Nat} {o : Opts} {hon : Bool} {e : Err} {t t' : Task} {m : Mon}
    (ok : TaskOK t) (hd : DInv k t m)
    (h : tstep c now qlen t (.wgDone kk) = some t') : ∃ m', m.run (tev k t (.wgDone kk)) = some m' ∧ DInv k t' m' := by
  obtain ⟨s1, d1, d2, d3, d4, d5⟩ := hd
  have hsc := ok.sendCl
  have hatt := ok.att_pos
  have hpre := ok.pre0
  have hd0 := ok.dec0
  have hd2 := ok.dec2
  have hwde := ok.wDE
  have hwdn := ok.wDone
  have hww := ok.writeW a
  have hwc := ok.writeW t.cur
  have hAa := ok.atts a
  have hAc := ok.atts t.cur
  have hbe := ok.beyond a
  simp only [tstep, hc, Bool.false_eq_true, ↓reduceIte] at h
  (repeat' split at h) <;> (try cases h) <;>
  (refine ⟨_, by simp_all [tev, Mon.run, Mon.step]; (try rfl), ?_⟩ <;>
   constructor <;> simp_all [TPc.waiting, afterWait, Task.cur, Task.setAt, upd, CPc.slot?, TPc.pre, AttOK, CPc.isWrite, CPc.afterCas,
     TPc.preDecide, dispT, innT, clObj, decObj, doneObj, wgObj])


/-! ### monitor steps -/
def acqM (m : Mon) (t a : Nat) : Mon :=
  { m with wcur := fun u => m.wcur u || (decide (u = t) && m.carW a),
           acur := fun u => m.acur u || (decide (u = t) && m.carA a) }
def relM (m : Mon) (t a : Nat) : Mon :=
  { m with carW := fun b => m.carW b || (decide (b = a) && m.wcur t),
           carA := fun b => m.carA b || (decide (b = a) && m.acur t) }
def rdM (m : Mon) (t : Nat) : Mon :=
  { m with acur := fun u => m.acur u && decide (u = t), carA := fun _ => false }
def wrM (t : Nat) : Mon :=
  { wcur := fun u => decide (u = t), acur := fun u => decide (u = t), carW := fun _ => false, carA := fun _ => false }

theorem run_rd (m : Mon) (t : Nat) (h : m.wcur t = true) : m.run [.rd t] = some (rdM m t) := by
  simp [Mon.run, Mon.step, h, rdM]
theorem run_wr (m : Mon) (t : Nat) (h : m.acur t = true) : m.run [.wr t] = some (wrM t) := by
  simp [Mon.run, Mon.step, h, wrM]
theorem run_acq (m : Mon) (t a : Nat) : m.run [.acq t a] = some (acqM m t a) := rfl
theorem run_rel (m : Mon) (t a : Nat) : m.run [.rel t a] = some (relM m t a) := rfl
theorem run_acq_rel (m : Mon) (t a : Nat) : m.run [.acq t a, .rel t a] = some (relM (acqM m t a) t a) := rfl

theorem dv_errTest {c : Cfg} (hc : c.old = false) {k now qlen kk : Nat} {t t' : Task} {m : Mon}
    (ok : TaskOK t) (hd : DInv k t m)
    (h : tstep c now qlen t (.errTest kk) = some t') : ∃ m', m.run (tev k t (.errTest kk)) = some m' ∧ DInv k t' m' := by
  obtain ⟨s1, d1, d2, d3, d4, d5⟩ := hd
  have hsc := ok.sendCl
  have hatt := ok.att_pos
  have hpre := ok.pre0
  have hd0 := ok.dec0
  have hd2 := ok.dec2
  have hwde := ok.wDE
  have hwdn := ok.wDone
  have hwc := ok.writeW t.cur
  have hAc := ok.atts t.cur
  have h012 : (t.at_ t.cur).decided = 0 ∨ (t.at_ t.cur).decided = 1 ∨ (t.at_ t.cur).decided = 2 := by
    have := hAc.2.2.2.2.2.1; omega
  simp only [tstep] at h
  split at h
  · rename_i hp
    have hcur := d1 (by simp [hp]) (Or.inr (Or.inr (by simp [hp, afterWait])))
    refine ⟨rdM m dispT, run_rd m dispT hcur.2, ?_⟩
    split at h <;> cases h <;> constructor <;> rcases h012 with h0 | h0 | h0 <;> simp_all [TPc.waiting, afterWait, Task.cur, Task.setAt, upd, CPc.slot?, TPc.pre, AttOK, CPc.isWrite, CPc.afterCas, TPc.preDecide, dispT, innT, clObj, decObj, doneObj, wgObj, rdM, wrM, acqM, relM]
  · cases h

theorem dv_onError {c : Cfg} (hc : c.old = false) {k now qlen kk : Nat} {t t' : Task} {m : Mon}
    (ok : TaskOK t) (hd : DInv k t m)
    (h : tstep c now qlen t (.onError kk) = some t') : ∃ m', m.run (tev k t (.onError kk)) = some m' ∧ DInv k t' m' := by
  obtain ⟨s1, d1, d2, d3, d4, d5⟩ := hd
  have hsc := ok.sendCl
  have hatt := ok.att_pos
  have hpre := ok.pre0
  have hd0 := ok.dec0
  have hd2 := ok.dec2
  have hwde := ok.wDE
  have hwdn := ok.wDone
  have hwc := ok.writeW t.cur
  have hAc := ok.atts t.cur
  have h012 : (t.at_ t.cur).decided = 0 ∨ (t.at_ t.cur).decided = 1 ∨ (t.at_ t.cur).decided = 2 := by
    have := hAc.2.2.2.2.2.1; omega
  simp only [tstep] at h
  split at h
  · rename_i hp
    have hcur := d1 (by simp [hp]) (Or.inr (Or.inr (by simp [hp, afterWait])))
    cases h
    by_cases hcb : t.hasCb = true
    · refine ⟨rdM m dispT, by simp only [tev, hcb, ↓reduceIte]; exact run_rd m dispT hcur.2, ?_⟩
      constructor <;> rcases h012 with h0 | h0 | h0 <;> simp_all [TPc.waiting, afterWait, Task.cur, Task.setAt, upd, CPc.slot?, TPc.pre, AttOK, CPc.isWrite, CPc.afterCas, TPc.preDecide, dispT, innT, clObj, decObj, doneObj, wgObj, rdM, wrM, acqM, relM]
    · refine ⟨m, by simp [tev, hcb, Mon.run], ?_⟩
      constructor <;> rcases h012 with h0 | h0 | h0 <;> simp_all [TPc.waiting, afterWait, Task.cur, Task.setAt, upd, CPc.slot?, TPc.pre, AttOK, CPc.isWrite, CPc.afterCas, TPc.preDecide, dispT, innT, clObj, decObj, doneObj, wgObj, rdM, wrM, acqM, relM]
  · cases h

/-! ### steps that leave the current attempt's signature alone; the monitor only learns -/
theorem dinv_same {k : Nat} {t t' : Task} {m m' : Mon} (hd : DInv k t m) (hpc : t'.pc = t.pc) (hatt : t'.att = t.att)
    (hdec : (t'.at_ t.cur).decided = (t.at_ t.cur).decided)
    (hq : (t'.at_ t.cur).pc = .queued ↔ (t.at_ t.cur).pc = .queued)
    (hcl : (t'.at_ t.cur).pc = .closed ↔ (t.at_ t.cur).pc = .closed)
    (hh : (t'.at_ t.cur).pc.slot?.isSome = (t.at_ t.cur).pc.slot?.isSome)
    (ha : ∀ u, m.acur u = true → m'.acur u = true) (hw : ∀ u, m.wcur u = true → m'.wcur u = true)
    (hca : ∀ b, m.carA b = true → m'.carA b = true) (hcw : ∀ b, m.carW b = true → m'.carW b = true) :
    DInv k t' m' := by
  have hc : t'.cur = t.cur := by simp [Task.cur, hatt]
  constructor
  · rw [hc, hatt, hdec, hpc]; intro h1 h2 h3; exact hd.s1 h1 h2 (fun e => h3 (hcl.2 e))
  · rw [hc, hatt, hdec, hpc]; intro h1 h2; have := hd.d1 h1 h2; exact ⟨ha _ this.1, hw _ this.2⟩
  · rw [hc, hatt, hdec]; intro h1 h2 h3; have := hd.d2 h1 h2 (hq.1 h3); exact ⟨hca _ this.1, hcw _ this.2⟩
  · rw [hc, hatt, hdec, hh]; intro h1 h2 h3; have := hd.d3 h1 h2 h3; exact ⟨ha _ this.1, hw _ this.2⟩
  · rw [hc, hatt, hdec, hpc]; intro h1 h2 h3 h4; have := hd.d4 h1 h2 (hcl.1 h3) h4; exact ⟨hca _ this.1, hcw _ this.2⟩
  · rw [hpc]; intro h; exact hcw _ (hd.d5 h)

theorem acq_mono (m : Mon) (t a : Nat) :
    (∀ u, m.acur u = true → (acqM m t a).acur u = true) ∧ (∀ u, m.wcur u = true → (acqM m t a).wcur u = true) ∧
    (∀ b, m.carA b = true → (acqM m t a).carA b = true) ∧ (∀ b, m.carW b = true → (acqM m t a).carW b = true) := by
  refine ⟨?_, ?_, ?_, ?_⟩ <;> intro u h <;> simp [acqM, h]

theorem rel_mono (m : Mon) (t a : Nat) :
    (∀ u, m.acur u = true → (relM m t a).acur u = true) ∧ (∀ u, m.wcur u = true → (relM m t a).wcur u = true) ∧
    (∀ b, m.carA b = true → (relM m t a).carA b = true) ∧ (∀ b, m.carW b = true → (relM m t a).carW b = true) := by
  refine ⟨?_, ?_, ?_, ?_⟩ <;> intro u h <;> simp [relM, h]

/-- closure transitions that touch neither `decided`, nor the queued / closed / held status, and emit no event -/
theorem dv_quiet {c : Cfg} (hc : c.old = false) {k now qlen : Nat} {t t' : Task} {m : Mon} {act : Act}
    (hq : (∃ kk a, act = .fire kk a) ∨ (∃ kk a hon, act = .wStart kk a hon) ∨ (∃ kk a v e, act = .wEnd kk a v e) ∨
      (∃ kk a, act = .wCheck kk a) ∨ (∃ kk a, act = .hook1 kk a) ∨ (∃ kk a, act = .hook4 kk a))
    (hd : DInv k t m) (h : tstep c now qlen t act = some t') :
    ∃ m', m.run (tev k t act) = some m' ∧ DInv k t' m' := by
  rcases hq with ⟨kk, a, rfl⟩ | ⟨kk, a, hon, rfl⟩ | ⟨kk, a, v, e, rfl⟩ | ⟨kk, a, rfl⟩ | ⟨kk, a, rfl⟩ | ⟨kk, a, rfl⟩ <;>
    refine ⟨m, rfl, ?_⟩ <;>
    simp only [tstep, hc, Bool.false_eq_true, ↓reduceIte] at h <;> (repeat' split at h) <;> (try cases h) <;>
    (refine dinv_same hd rfl rfl ?_ ?_ ?_ ?_ (fun _ x => x) (fun _ x => x) (fun _ x => x) (fun _ x => x) <;>
      simp only [Task.setAt, upd] <;> split <;> simp_all [CPc.slot?])

theorem setAt_other_cur {t : Task} {a : Nat} {x : Att} (h : a ≠ t.cur) : (t.setAt a x).at_ t.cur = t.at_ t.cur := by
  simp [Task.setAt, upd, Ne.symm h]

theorem dv_wTake {c : Cfg} (hc : c.old = false) {k now qlen kk a w : Nat} {t t' : Task} {m : Mon}
    (ok : TaskOK t) (hd : DInv k t m)
    (h : tstep c now qlen t (.wTake kk a w) = some t') :
    ∃ m', m.run (tev k t (.wTake kk a w)) = some m' ∧ DInv k t' m' := by
  simp only [tstep] at h
  split at h <;> cases h
  rename_i hp
  refine ⟨acqM m (innT a) (clObj k a), run_acq _ _ _, ?_⟩
  obtain ⟨m1, m2, m3, m4⟩ := acq_mono m (innT a) (clObj k a)
  by_cases hac : a = t.cur
  · subst hac
    obtain ⟨s1, d1, d2, d3, d4, d5⟩ := hd
    have hAc := ok.atts t.cur
    have h012 : (t.at_ t.cur).decided = 0 ∨ (t.at_ t.cur).decided = 1 ∨ (t.at_ t.cur).decided = 2 := by
      have := hAc.2.2.2.2.2.1; omega
    constructor <;> rcases h012 with h0 | h0 | h0 <;> simp_all [TPc.waiting, afterWait, Task.cur, Task.setAt, upd, CPc.slot?, TPc.pre, AttOK, CPc.isWrite, CPc.afterCas, TPc.preDecide, dispT, innT, clObj, decObj, doneObj, wgObj, rdM, wrM, acqM, relM]
  · refine dinv_same hd rfl rfl ?_ ?_ ?_ ?_ m1 m2 m3 m4 <;> rw [setAt_other_cur hac]

theorem dv_wClose {c : Cfg} (hc : c.old = false) {k now qlen kk a : Nat} {t t' : Task} {m : Mon}
    (ok : TaskOK t) (hd : DInv k t m)
    (h : tstep c now qlen t (.wClose kk a) = some t') :
    ∃ m', m.run (tev k t (.wClose kk a)) = some m' ∧ DInv k t' m' := by
  simp only [tstep] at h
  split at h <;> cases h
  rename_i w hp
  refine ⟨relM m (innT a) (doneObj k a), run_rel _ _ _, ?_⟩
  obtain ⟨m1, m2, m3, m4⟩ := rel_mono m (innT a) (doneObj k a)
  by_cases hac : a = t.cur
  · subst hac
    obtain ⟨s1, d1, d2, d3, d4, d5⟩ := hd
    have hAc := ok.atts t.cur
    have h012 : (t.at_ t.cur).decided = 0 ∨ (t.at_ t.cur).decided = 1 ∨ (t.at_ t.cur).decided = 2 := by
      have := hAc.2.2.2.2.2.1; omega
    constructor <;> rcases h012 with h0 | h0 | h0 <;> simp_all [TPc.waiting, afterWait, Task.cur, Task.setAt, upd, CPc.slot?, TPc.pre, AttOK, CPc.isWrite, CPc.afterCas, TPc.preDecide, dispT, innT, clObj, decObj, doneObj, wgObj, rdM, wrM, acqM, relM]
  · refine dinv_same hd rfl rfl ?_ ?_ ?_ ?_ m1 m2 m3 m4 <;> rw [setAt_other_cur hac]

theorem dv_wWrite {c : Cfg} (hc : c.old = false) {k now qlen kk a : Nat} {t t' : Task} {m : Mon}
    (ok : TaskOK t) (hd : DInv k t m)
    (h : tstep c now qlen t (.wWrite kk a) = some t') :
    ∃ m', m.run (tev k t (.wWrite kk a)) = some m' ∧ DInv k t' m' := by
  simp only [tstep] at h
  split at h <;> cases h
  rename_i w v e hp
  have hw := ok.writeW a (by rw [hp]; rfl)
  have hac : a = t.cur := by simp [Task.cur]; omega
  subst hac
  obtain ⟨s1, d1, d2, d3, d4, d5⟩ := hd
  have hAc := ok.atts t.cur
  have hdec : (t.at_ t.cur).decided = 1 := hAc.2.2.2.2.1 (by rw [hp]; rfl)
  have hatt : 1 ≤ t.att := by omega
  have hcur := d3 hatt (by omega) (by rw [hp]; rfl)
  refine ⟨wrM (innT t.cur), run_wr m _ hcur.1, ?_⟩
  have hwt := hw.2
  constructor <;> simp_all [TPc.waiting, afterWait, Task.cur, Task.setAt, upd, CPc.slot?, TPc.pre, AttOK, CPc.isWrite, CPc.afterCas, TPc.preDecide, dispT, innT, clObj, decObj, doneObj, wgObj, rdM, wrM, acqM, relM]
  all_goals (cases hpc : t.pc <;> simp_all [TPc.waiting, afterWait] <;> (try omega))

theorem dv_wCas {c : Cfg} (hc : c.old = false) {k now qlen kk a : Nat} {t t' : Task} {m : Mon}
    (ok : TaskOK t) (hd : DInv k t m)
    (h : tstep c now qlen t (.wCas kk a) = some t') :
    ∃ m', m.run (tev k t (.wCas kk a)) = some m' ∧ DInv k t' m' := by
  simp only [tstep] at h
  split at h
  · rename_i w v e hp
    have hlt := lt_of_pc ok (a := a) (by rw [hp]; simp)
    by_cases hz : (t.at_ a).decided = 0
    · -- the closure wins the flag: it is the current attempt
      simp only [hz, ↓reduceIte, Option.some.injEq] at h
      subst h
      have hac : a = t.cur := by
        have : ¬ a + 1 < t.att := fun hh => (ok.past a hh).1 hz
        simp [Task.cur]; omega
      subst hac
      have hatt : 1 ≤ t.att := by omega
      have hpd := ok.dec0 hatt hz
      have hns : t.pc ≠ .sendCl := by intro hs; have := (ok.sendCl hs).1; rw [hp] at this; cases this
      obtain ⟨s1, d1, d2, d3, d4, d5⟩ := hd
      have hcur := d3 hatt (by omega) (by rw [hp]; rfl)
      refine ⟨relM (acqM m (innT t.cur) (decObj k t.cur)) (innT t.cur) (decObj k t.cur), ?_, ?_⟩
      · simp only [tev, hz, ↓reduceIte]; exact run_acq_rel _ _ _
      · constructor <;> simp_all [TPc.waiting, afterWait, Task.cur, Task.setAt, upd, CPc.slot?, TPc.pre, AttOK, CPc.isWrite, CPc.afterCas, TPc.preDecide, dispT, innT, clObj, decObj, doneObj, wgObj, rdM, wrM, acqM, relM]
        all_goals (cases hpc : t.pc <;> simp_all [TPc.waiting, afterWait, TPc.preDecide] <;> (try omega))
    · simp only [hz, ↓reduceIte, Option.some.injEq] at h
      subst h
      refine ⟨acqM m (innT a) (decObj k a), by simp only [tev, hz, ↓reduceIte]; exact run_acq _ _ _, ?_⟩
      obtain ⟨m1, m2, m3, m4⟩ := acq_mono m (innT a) (decObj k a)
      by_cases hac : a = t.cur
      · subst hac
        obtain ⟨s1, d1, d2, d3, d4, d5⟩ := hd
        have hAc := ok.atts t.cur
        have h012 : (t.at_ t.cur).decided = 0 ∨ (t.at_ t.cur).decided = 1 ∨ (t.at_ t.cur).decided = 2 := by
          have := hAc.2.2.2.2.2.1; omega
        constructor <;> rcases h012 with h0 | h0 | h0 <;> simp_all [TPc.waiting, afterWait, Task.cur, Task.setAt, upd, CPc.slot?, TPc.pre, AttOK, CPc.isWrite, CPc.afterCas, TPc.preDecide, dispT, innT, clObj, decObj, doneObj, wgObj, rdM, wrM, acqM, relM]
      · refine dinv_same hd rfl rfl ?_ ?_ ?_ ?_ m1 m2 m3 m4 <;> rw [setAt_other_cur hac]
  · cases h


/-- every task-local transition of the current code: the monitor accepts its events and the invariant is kept -/
theorem dinv_tstep {c : Cfg} (hc : c.old = false) {k now qlen : Nat} {t t' : Task} {m : Mon} {act : Act}
    (ok : TaskOK t) (hd : DInv k t m) (h : tstep c now qlen t act = some t') :
    ∃ m', m.run (tev k t act) = some m' ∧ DInv k t' m' := by
  cases act with
  | send kk o => exact dv_send hc (a := 0) (w := 0) (v := 0) (hon := true) (e := .nil) ok hd h
  | busyTest kk => exact dv_busyTest hc (a := 0) (w := 0) (v := 0) (o := default) (hon := true) (e := .nil) ok hd h
  | discardCb kk => exact dv_discardCb hc (a := 0) (w := 0) (v := 0) (o := default) (hon := true) (e := .nil) ok hd h
  | enq kk => exact dv_enq hc (a := 0) (w := 0) (v := 0) (o := default) (hon := true) (e := .nil) ok hd h
  | take kk => exact dv_take hc (a := 0) (w := 0) (v := 0) (o := default) (hon := true) (e := .nil) ok hd h
  | loopTest kk => exact dv_loopTest hc (a := 0) (w := 0) (v := 0) (o := default) (hon := true) (e := .nil) ok hd h
  | sendCl kk => exact dv_sendCl hc (a := 0) (w := 0) (v := 0) (o := default) (hon := true) (e := .nil) ok hd h
  | hook3 kk => exact dv_hook3 hc (a := 0) (w := 0) (v := 0) (o := default) (hon := true) (e := .nil) ok hd h
  | selDone kk => exact dv_selDone hc (a := 0) (w := 0) (v := 0) (o := default) (hon := true) (e := .nil) ok hd h
  | selCtx kk => exact dv_selCtx hc (a := 0) (w := 0) (v := 0) (o := default) (hon := true) (e := .nil) ok hd h
  | hook2 kk => exact dv_hook2 hc (a := 0) (w := 0) (v := 0) (o := default) (hon := true) (e := .nil) ok hd h
  | decide kk => exact dv_decide hc (a := 0) (w := 0) (v := 0) (o := default) (hon := true) (e := .nil) ok hd h
  | writeDE kk => exact dv_writeDE hc (a := 0) (w := 0) (v := 0) (o := default) (hon := true) (e := .nil) ok hd h
  | waitDone kk => exact dv_waitDone hc (a := 0) (w := 0) (v := 0) (o := default) (hon := true) (e := .nil) ok hd h
  | cancel kk => exact dv_cancel hc (a := 0) (w := 0) (v := 0) (o := default) (hon := true) (e := .nil) ok hd h
  | errTest kk => exact dv_errTest hc ok hd h
  | onError kk => exact dv_onError hc ok hd h
  | wgDone kk => exact dv_wgDone hc (a := 0) (w := 0) (v := 0) (o := default) (hon := true) (e := .nil) ok hd h
  | fire kk a => exact dv_quiet hc (Or.inl ⟨kk, a, rfl⟩) hd h
  | wTake kk a w => exact dv_wTake hc ok hd h
  | wStart kk a hon => exact dv_quiet hc (Or.inr (Or.inl ⟨kk, a, hon, rfl⟩)) hd h
  | wEnd kk a v e => exact dv_quiet hc (Or.inr (Or.inr (Or.inl ⟨kk, a, v, e, rfl⟩))) hd h
  | wCheck kk a => exact dv_quiet hc (Or.inr (Or.inr (Or.inr (Or.inl ⟨kk, a, rfl⟩)))) hd h
  | hook1 kk a => exact dv_quiet hc (Or.inr (Or.inr (Or.inr (Or.inr (Or.inl ⟨kk, a, rfl⟩))))) hd h
  | wCas kk a => exact dv_wCas hc ok hd h
  | hook4 kk a => exact dv_quiet hc (Or.inr (Or.inr (Or.inr (Or.inr (Or.inr ⟨kk, a, rfl⟩))))) hd h
  | wWrite kk a => exact dv_wWrite hc ok hd h
  | wClose kk a => exact dv_wClose hc ok hd h
  | advance t0 => simp [tstep] at h

/-! ### one extended step -/
theorem dstep (k : Nat) {c : Cfg} (hc : c.old = false) {s s' : State} {m : Mon} (a : XAct) (hraw : a.isRaw = false)
    (hI : Inv s) (hd : DInv k (s.task k) m) (hx : xstep c s a = some s') :
    ∃ m', m.run (evOf k s a) = some m' ∧ DInv k (s'.task k) m' := by
  cases a with
  | rawRead t id => simp [XAct.isRaw] at hraw
  | get2 t id =>
    simp only [xstep, Option.some.injEq] at hx
    subst hx
    simp only [evOf]
    split
    · rename_i hcnd
      have hp := hcnd.2
      have ok := hI k
      have hcw := hd.d5 hp
      have hw1 : (acqM m (cliT t) (wgObj k)).wcur (cliT t) = true := by simp [acqM, hcw]
      refine ⟨rdM (acqM m (cliT t) (wgObj k)) (cliT t), ?_, ?_⟩
      · show (acqM m (cliT t) (wgObj k)).run [.rd (cliT t)] = _
        exact run_rd _ _ hw1
      · have hatt : 1 ≤ (s.task k).att := ok.att_pos (by simp [hp, TPc.pre]) (by simp [hp])
        have h0 : ((s.task k).at_ (s.task k).cur).decided ≠ 0 := by
          intro h; have := ok.dec0 hatt h; simp [hp, TPc.preDecide] at this
        have hle := (ok.atts (s.task k).cur).2.2.2.2.2.1
        have hs1 := hd.s1 hatt
        refine ⟨hd.s1, ?_, ?_, ?_, ?_, ?_⟩
        · intro h; exact absurd hp h
        · intro _ h; exact absurd h h0
        · intro _ h2 hh
          exfalso
          have h1 : ((s.task k).at_ (s.task k).cur).decided = 1 := by omega
          by_cases hcl : ((s.task k).at_ (s.task k).cur).pc = .closed
          · rw [hcl] at hh; simp [CPc.slot?] at hh
          · have := hs1 h1 hcl; simp [hp, TPc.waiting] at this
        · intro _ _ _ h; simp [hp, TPc.waiting] at h
        · intro _; simp [rdM, acqM, hcw]
    · exact ⟨m, rfl, hd⟩
  | act act =>
    simp only [xstep] at hx
    simp only [evOf]
    rcases step_task hx with ⟨t0, rfl, ht⟩ | ⟨t', ht, hst⟩
    · rw [ht]
      refine ⟨m, ?_, hd⟩
      split <;> rfl
    · by_cases hk : act.task = k
      · subst hk
        simp only [↓reduceIte]
        rw [hst]; simp only [upd_same]
        exact dinv_tstep hc (hI _) hd ht
      · simp only [hk, ↓reduceIte]
        rw [hst, upd_other _ _ _ _ (Ne.symm hk)]
        exact ⟨m, rfl, hd⟩

theorem run_append (m : Mon) (xs ys : List Ev) :
    m.run (xs ++ ys) = match m.run xs with | none => none | some m' => m'.run ys := by
  induction xs generalizing m with
  | nil => rfl
  | cons x xs ih =>
    simp only [List.cons_append, Mon.run]
    cases m.step x with
    | none => rfl
    | some m1 => exact ih m1

theorem result_run (k : Nat) {c : Cfg} (hc : c.old = false) (acts : List XAct) (hraw : ∀ x, x ∈ acts → x.isRaw = false)
    (s : State) (m : Mon) (hI : Inv s) (hd : DInv k (s.task k) m) :
    ∃ m', m.run (resultEvents k c s acts) = some m' := by
  induction acts generalizing s m with
  | nil => exact ⟨m, rfl⟩
  | cons a as ih =>
    simp only [resultEvents]
    cases hx : xstep c s a with
    | none => exact ⟨m, rfl⟩
    | some s' =>
      simp only
      obtain ⟨m1, hr1, hd1⟩ := dstep k hc a (hraw a (by simp)) hI hd hx
      have hI' : Inv s' := by
        cases a with
        | act act => exact inv_step hc hI hx
        | get2 t id => simp only [xstep, Option.some.injEq] at hx; subst hx; exact hI
        | rawRead t id => simp only [xstep, Option.some.injEq] at hx; subst hx; exact hI
      obtain ⟨m2, hr2⟩ := ih (fun x hxm => hraw x (by simp [hxm])) s' m1 hI' hd1
      refine ⟨m2, ?_⟩
      rw [run_append, hr1]
      exact hr2

/-- ants, current code: in every execution (with any client Get2/Get1/Err calls) the plain accesses of
    `taskCallback.result / err` of every task follow the publication discipline -/
theorem result_accepted (c : Cfg) (hc : c.old = false) (acts : List XAct) (hraw : ∀ x, x ∈ acts → x.isRaw = false)
    (k : Nat) : accepts (resultEvents k c init acts) = true := by
  obtain ⟨m', hm⟩ := result_run k hc acts hraw init Mon.init inv_init (dinv_init k)
  simp [accepts, hm]

theorem result_raceFree (c : Cfg) (hc : c.old = false) (acts : List XAct) (hraw : ∀ x, x ∈ acts → x.isRaw = false)
    (k : Nat) : RaceFree (resultEvents k c init acts) :=
  accepts_raceFree _ (result_accepted c hc acts hraw k)

/-! ### controls (kernel-evaluated) -/

/-- current code, N = 1, T = 1000, R = 2: attempt 0 times out (the dispatcher wins the flag and writes (nil, DE)),
    attempt 1 succeeds (the inner worker wins, is held at hook4, writes, closes); client 0 calls Get2 too early (blocked:
    no event), clients 0 and 1 call it after Done -/
def okActs : List XAct :=
  ([.send 0 { timeout := 1000, retry := 2, discard := true, hasCb := true }, .busyTest 0, .enq 0, .take 0,
    .loopTest 0, .sendCl 0, .wTake 0 0 0, .wStart 0 0 true, .hook3 0,
    .advance 1000, .fire 0 0, .selCtx 0, .hook2 0, .decide 0, .writeDE 0, .cancel 0, .errTest 0,
    .wEnd 0 0 0 (.h 999), .wCheck 0 0, .wClose 0 0,
    .loopTest 0, .sendCl 0, .wTake 0 1 0, .wStart 0 1 true, .hook3 0, .advance 1500, .wEnd 0 1 8 .nil, .wCheck 0 1,
    .hook1 0 1, .wCas 0 1, .hook4 0 1] : List Act).map XAct.act ++ [.get2 0 0] ++
  ([.wWrite 0 1, .wClose 0 1, .selDone 0, .decide 0, .waitDone 0, .cancel 0, .errTest 0, .wgDone 0] : List Act).map XAct.act ++
  [.get2 0 0, .get2 1 0]

theorem ok_trace : resultEvents 0 { N := 1 } init okActs =
    [.rel dispT (clObj 0 0), .acq (innT 0) (clObj 0 0), .acq dispT (decObj 0 0), .rel dispT (decObj 0 0), .wr dispT,
     .rd dispT, .rel (innT 0) (doneObj 0 0),
     .rel dispT (clObj 0 1), .acq (innT 1) (clObj 0 1), .acq (innT 1) (decObj 0 1), .rel (innT 1) (decObj 0 1),
     .wr (innT 1), .rel (innT 1) (doneObj 0 1), .acq dispT (doneObj 0 1), .acq dispT (decObj 0 1),
     .acq dispT (doneObj 0 1), .rd dispT, .rel dispT (wgObj 0),
     .acq (cliT 0) (wgObj 0), .rd (cliT 0), .acq (cliT 1) (wgObj 0), .rd (cliT 1)] := by decide

theorem ok_accepted : accepts (resultEvents 0 { N := 1 } init okActs) = true := by decide

/-- a client reads the fields WITHOUT Wait (what Err() did before commit d93a739) right after the inner worker's write -/
def rawActs : List XAct :=
  ([.send 0 { timeout := 1000, retry := 1, discard := true, hasCb := true }, .busyTest 0, .enq 0, .take 0,
    .loopTest 0, .sendCl 0, .wTake 0 0 0, .wStart 0 0 true, .hook3 0, .advance 500, .wEnd 0 0 8 .nil, .wCheck 0 0,
    .hook1 0 0, .wCas 0 0, .hook4 0 0, .wWrite 0 0] : List Act).map XAct.act ++ [.rawRead 5 0]

theorem raw_run_ok : (xrun { N := 1 } init rawActs).isSome = true := by decide

/-- negative control: a read without Wait is rejected (it is not ordered after the inner worker's write) -/
theorem read_without_wait_rejected : accepts (resultEvents 0 { N := 1 } init rawActs) = false := by decide

/-- the same run with a proper Get2 (blocked until Done) is accepted -/
theorem read_with_wait_accepted :
    accepts (resultEvents 0 { N := 1 } init
      (rawActs.dropLast ++ [.get2 5 0] ++
        ([.wClose 0 0, .selDone 0, .decide 0, .waitDone 0, .cancel 0, .errTest 0, .wgDone 0] : List Act).map XAct.act ++
        [.get2 5 0])) = true := by decide

/-- OLD code (no decided flag), the torn-result schedule of C07_old_torn: the first attempt's write lands after the
    dispatcher's own writes, reads, onError and Done -/
def oldTornActs : List XAct :=
  ([.send 0 { timeout := 1000, retry := 2, discard := true, hasCb := true }, .busyTest 0, .enq 0, .take 0,
    .loopTest 0, .sendCl 0, .wTake 0 0 0, .wStart 0 0 false, .hook3 0, .advance 900, .wEnd 0 0 7 .nil, .wCheck 0 0,
    .advance 1000, .fire 0 0, .selCtx 0, .hook2 0, .writeDE 0, .cancel 0, .errTest 0,
    .loopTest 0, .sendCl 0, .hook3 0, .advance 2000, .fire 0 1, .selCtx 0, .hook2 0, .writeDE 0, .cancel 0, .errTest 0,
    .loopTest 0, .onError 0, .wgDone 0] : List Act).map XAct.act ++ [.get2 0 0] ++
  ([.hook1 0 0, .wWrite 0 0] : List Act).map XAct.act

theorem old_torn_run_ok : (xrun { N := 1, old := true } init oldTornActs).isSome = true := by decide

/-- negative control: the torn run of the old code is rejected -/
theorem old_torn_rejected : accepts (resultEvents 0 { N := 1, old := true } init oldTornActs) = false := by decide

/-- OLD code, one attempt: the handler returns at 900 and passes its ctx check, the deadline branch writes (nil, DE) at
    1000, then the closure writes: two unordered plain writes -/
def oldWriteWriteActs : List XAct :=
  ([.send 0 { timeout := 1000, retry := 1, discard := true, hasCb := false }, .busyTest 0, .enq 0, .take 0,
    .loopTest 0, .sendCl 0, .wTake 0 0 0, .wStart 0 0 false, .hook3 0, .advance 900, .wEnd 0 0 7 .nil, .wCheck 0 0,
    .advance 1000, .fire 0 0, .selCtx 0, .hook2 0, .writeDE 0, .hook1 0 0, .wWrite 0 0] : List Act).map XAct.act

theorem old_write_write_run_ok : (xrun { N := 1, old := true } init oldWriteWriteActs).isSome = true := by decide

theorem old_write_write_rejected :
    accepts (resultEvents 0 { N := 1, old := true } init oldWriteWriteActs) = false := by decide

/-- OLD code, the empty-result schedule of C07_old_empty: nobody writes at all (that defect is a lost outcome, not a data
    race), so its trace is accepted; the race of the old code shows in the two runs above -/
def oldEmptyActs : List XAct :=
  ([.send 0 { timeout := 1000, retry := 1, discard := true, hasCb := true }, .busyTest 0, .enq 0, .take 0,
    .loopTest 0, .sendCl 0, .wTake 0 0 0, .wStart 0 0 false, .advance 1000, .fire 0 0, .advance 1500,
    .wEnd 0 0 7 .nil, .wCheck 0 0, .wClose 0 0,
    .hook3 0, .selDone 0, .cancel 0, .errTest 0, .wgDone 0] : List Act).map XAct.act ++ [.get2 0 0]

theorem old_empty_trace : resultEvents 0 { N := 1, old := true } init oldEmptyActs =
    [.rel dispT (clObj 0 0), .acq (innT 0) (clObj 0 0), .rel (innT 0) (doneObj 0 0), .acq dispT (doneObj 0 0),
     .rd dispT, .rel dispT (wgObj 0), .acq (cliT 0) (wgObj 0), .rd (cliT 0)] := by decide

theorem old_empty_no_write_accepted :
    accepts (resultEvents 0 { N := 1, old := true } init oldEmptyActs) = true := by decide

end Got.Lemmas.DiscAnts
