import Got.Lemmas.HeapAstUp
import Got.Lemmas.HeapAstDown
import Got.Lemmas.SampleAst
/-
Translator tie of container/heap, assembly: with the generated program `Got.Generated.AstContainerHeap.prog` as the
callee table, the interpreted heap.Push / heap.Pop / heap.Init (`pushAst`, `popAst`, `initAst`) are the GoHeap model
functions, heap.Fix and heap.Remove refine `GoHeap.fix` / `GoHeap.remove`, and WeightedSampling over the interpreted heap
terms is the model `weightedSampling`.
-/
set_option linter.unusedSimpArgs false
namespace Got.Lemmas.HeapAst
open Got.Model.MiniGoSort (wrap Env)
open Got.Model.MiniGoHeap Got.Model.HeapAst Got.Model Got.Generated.AstContainerHeap
open Got.Lemmas.SortAst (wrap_eq)

variable {α : Type}

theorem prog_up : prog "up" = some h_up := by rfl
theorem prog_down : prog "down" = some h_down := by rfl

/-- heap.Push interpreted from the generated term = the model's `push` -/
theorem pushAst_refines (less : α → α → Bool) (a : Array α) (x : α) (hsz : a.size + 1 < B62) :
    ∃ f0, ∀ f, f0 ≤ f → pushAst f less a x = some (some (GoHeap.push less a x)) := by
  obtain ⟨e, hr⟩ := push_runs prog prog_up less a x hsz
  obtain ⟨f0, h⟩ := run_of_Runs (fn := h_Push) (args := []) (x := some x) rfl rfl hr
  refine ⟨f0, fun f hf => ?_⟩
  unfold pushAst
  rw [h f hf]
  rfl

/-- heap.Pop interpreted from the generated term = the model's `pop` (`none` = panic on the empty heap) -/
theorem popAst_refines (less : α → α → Bool) (a : Array α) (hsz : a.size < B62) :
    ∃ f0, ∀ f, f0 ≤ f → popAst f less a = some (GoHeap.pop less a) := by
  have hr := pop_runs prog prog_down less a hsz
  cases hp : GoHeap.pop less a with
  | none =>
    rw [hp] at hr
    obtain ⟨f0, h⟩ := run_of_Runs (fn := h_Pop) (args := []) (x := none) rfl rfl hr
    refine ⟨f0, fun f hf => ?_⟩
    unfold popAst
    rw [h f hf]
  | some p =>
    obtain ⟨x, b⟩ := p
    rw [hp] at hr
    obtain ⟨f0, h⟩ := run_of_Runs (fn := h_Pop) (args := []) (x := none) rfl rfl hr
    refine ⟨f0, fun f hf => ?_⟩
    unfold popAst
    rw [h f hf]

/-- heap.Init interpreted from the generated term = the model's `init` -/
theorem initAst_refines (less : α → α → Bool) (a : Array α) (hsz : a.size < B62) :
    ∃ f0, ∀ f, f0 ≤ f → initAst f less a = some (some (GoHeap.init less a)) := by
  obtain ⟨e, hr⟩ := init_runs prog prog_down less a hsz
  obtain ⟨f0, h⟩ := run_of_Runs (fn := h_Init) (args := []) (x := none) rfl rfl hr
  refine ⟨f0, fun f hf => ?_⟩
  unfold initAst
  rw [h f hf]
  rfl

theorem pushSpec (α : Type) : Got.Lemmas.SampleAst.PushSpec α := fun less a x h => pushAst_refines less a x h
theorem popSpec (α : Type) : Got.Lemmas.SampleAst.PopSpec α := fun less a h => popAst_refines less a h

theorem down_size (less : α → α → Bool) (a : Array α) (i n : Nat) : (GoHeap.down less a i n).1.size = a.size := by
  unfold GoHeap.down GoHeap.downLoop
  exact Got.Lemmas.GoHeap.downAux_size less _ _ _ _

/-! ### heap.Fix, heap.Remove -/

theorem fix_body : h_Fix.body =
    [.call "down" [(.var 0), .len] [1], .ite (.not (.bvar 1)) [.call "up" [(.var 0)] []] []] := rfl

/-- the tail `if !down(…) { up(h, i) }` shared by Fix and Remove: `tmp` holds down's result -/
theorem fixTail_runs (P : String → Option Fn) (hPu : P "up" = some h_up) (x : Option α) (less : α → α → Bool)
    (b : Array α) (moved : Bool) (i tmp : Nat) (hi : i < b.size) (hsz : b.size < B62) (env : Env)
    (h0 : env.get 0 = (i : Int)) (ht : env.get tmp = if moved then 1 else 0) (rest : List Stmt) (r : Res (Array α) α)
    (h : Runs (heapWorld less) P x rest env (if !moved then GoHeap.up less b i else b) r) :
    Runs (heapWorld less) P x (.ite (.not (.bvar tmp)) [.call "up" [(.var 0)] []] [] :: rest) env b r := by
  cases moved with
  | true =>
    have hc : evalC (heapWorld less) env (.not (.bvar tmp)) b = some (false, b) := by
      simp only [evalC, ht, if_true]; rfl
    refine Runs.ite (env' := env) (w' := b) hc ?_ (by simpa using h)
    simp only [Bool.false_eq_true, if_false]
    exact Runs.nil
  | false =>
    have hc : evalC (heapWorld less) env (.not (.bvar tmp)) b = some (true, b) := by
      simp only [evalC, ht, Bool.false_eq_true, if_false]; rfl
    have hargs : ([.var 0] : List Expr).map (eval ((heapWorld less).len b) env) = [(i : Int)] := by
      simp only [List.map, eval, h0]
    refine Runs.ite (env' := env) (w' := GoHeap.up less b i) hc ?_ (by simpa using h)
    simp only [if_true]
    refine Runs.call hPu rfl rfl rfl (vs := []) ?_ rfl Runs.nil
    rw [hargs]
    exact up_runs P less b i hi hsz

/-- heap.Fix(h, i) for an index inside the heap -/
theorem fix_runs (P : String → Option Fn) (hPd : P "down" = some h_down) (hPu : P "up" = some h_up)
    (less : α → α → Bool) (a : Array α) (i : Nat) (hi : i < a.size) (hsz : a.size < B62) :
    ∃ e, Runs (heapWorld less) P none h_Fix.body #[(i : Int)] a (.cont e (GoHeap.fix less a i)) := by
  rw [fix_body]
  have hB := hsz
  unfold B62 at hsz
  have hargs : ([.var 0, .len] : List Expr).map (eval ((heapWorld less).len a) #[(i : Int)]) = [(i : Int), (a.size : Int)] := by
    simp only [List.map, eval]; rfl
  refine ⟨Env.set #[(i : Int)] 1 (if (GoHeap.down less a i a.size).2 then 1 else 0), ?_⟩
  refine Runs.call hPd rfl rfl rfl (vs := [if (GoHeap.down less a i a.size).2 then 1 else 0])
    (by rw [hargs]; exact down_runs P less a i a.size (Nat.le_refl _) hB (by unfold B62; omega)) rfl ?_
  simp only [Env.setMany]
  refine fixTail_runs P hPu none less (GoHeap.down less a i a.size).1 (GoHeap.down less a i a.size).2 i 1
    (by rw [down_size]; exact hi) (by rw [down_size]; exact hB) _ (by rw [Env.get_set]; rfl)
    (by rw [Env.get_set]; simp) [] _ ?_
  unfold GoHeap.fix
  exact Runs.nil

theorem remove_body : h_Remove.body =
    [ .set 1 (.sub .len (.lit 1)),
      .ite (.ne (.var 1) (.var 0))
        [.swap (.var 0) (.var 1), .call "down" [(.var 0), (.var 1)] [2],
         .ite (.not (.bvar 2)) [.call "up" [(.var 0)] []] []] [],
      .retPop ] := rfl

/-- heap.Remove(h, i), any `i ≥ 0`: the model's `remove`, including the index-out-of-range panic -/
theorem remove_runs (P : String → Option Fn) (hPd : P "down" = some h_down) (hPu : P "up" = some h_up)
    (less : α → α → Bool) (a : Array α) (i : Nat) (hi62 : i < B62) (hsz : a.size < B62) :
    Runs (heapWorld less) P none h_Remove.body #[(i : Int)] a
      (match GoHeap.remove less a i with | some (x, b) => .retv x b | none => .panic) := by
  rw [remove_body]
  have hB := hsz
  unfold B62 at hsz hi62
  refine Runs.set ?_
  obtain ⟨env1, hE1⟩ : ∃ e : Env, e = Env.set #[(i : Int)] 1 (eval ((heapWorld less).len a) #[(i : Int)] (.sub .len (.lit 1))) := ⟨_, rfl⟩
  rw [← hE1]
  have g0 : env1.get 0 = (i : Int) := by rw [hE1, Env.get_set]; rfl
  have g1 : env1.get 1 = (a.size : Int) - 1 := by
    rw [hE1, Env.get_set]
    simp (disch := omega) only [eval, hw_len, wrap_eq]
    simp
  unfold GoHeap.remove
  by_cases hi : i < a.size
  · rw [dif_pos hi]
    dsimp only
    have g1' : env1.get 1 = ((a.size - 1 : Nat) : Int) := by rw [g1]; omega
    by_cases hn : a.size - 1 ≠ i
    · rw [dif_pos hn]
      have hc : evalC (heapWorld less) env1 (.ne (.var 1) (.var 0)) a = some (true, a) := by
        simp only [evalC, eval, g0, g1']
        have : (((a.size - 1 : Nat) : Int) ≠ (i : Int)) := by omega
        simp only [ne_eq, this, not_false_eq_true, decide_true]
      have hsw : (heapWorld less).swap a (eval ((heapWorld less).len a) env1 (.var 0)) (eval ((heapWorld less).len a) env1 (.var 1)) =
          some (a.swap i (a.size - 1) hi (by omega)) := by
        simp only [eval, g0, g1']
        exact hw_swap less a i (a.size - 1) hi (by omega)
      have hargs : ([.var 0, .var 1] : List Expr).map (eval ((heapWorld less).len (a.swap i (a.size - 1) hi (by omega))) env1) =
          [(i : Int), ((a.size - 1 : Nat) : Int)] := by
        simp only [List.map, eval, g0, g1']
      obtain ⟨r, hr⟩ : ∃ r, r = GoHeap.down less (a.swap i (a.size - 1) hi (by omega)) i (a.size - 1) := ⟨_, rfl⟩
      have hrs : r.1.size = a.size := by rw [hr, down_size]; simp
      refine Runs.ite (env' := env1.set 2 (if r.2 then 1 else 0)) (w' := if !r.2 then GoHeap.up less r.1 i else r.1) hc ?_ ?_
      · simp only [if_true]
        refine Runs.swap hsw ?_
        refine Runs.call hPd rfl rfl rfl (vs := [if r.2 then 1 else 0])
          (by rw [hargs, hr]; exact down_runs P less _ i (a.size - 1) (by rw [Array.size_swap]; omega) (by rw [Array.size_swap]; exact hB) (by unfold B62; omega)) rfl ?_
        simp only [Env.setMany]
        rw [← hr]
        exact fixTail_runs P hPu none less r.1 r.2 i 2 (by omega) (by rw [hrs]; exact hB) _
          (by rw [Env.get_set]; simpa using g0) (by rw [Env.get_set]; simp) [] _ Runs.nil
      · rw [← hr]
        exact retPop_runs P none less [] _ _
    · rw [dif_neg hn]
      have hc : evalC (heapWorld less) env1 (.ne (.var 1) (.var 0)) a = some (false, a) := by
        simp only [evalC, eval, g0, g1']
        have : ¬ (((a.size - 1 : Nat) : Int) ≠ (i : Int)) := by omega
        simp only [this, decide_false]
      refine Runs.ite (env' := env1) (w' := a) hc ?_ (retPop_runs P none less [] _ _)
      simp only [Bool.false_eq_true, if_false]
      exact Runs.nil
  · rw [dif_neg hi]
    have hc : evalC (heapWorld less) env1 (.ne (.var 1) (.var 0)) a = some (true, a) := by
      simp only [evalC, eval, g0, g1]
      have : ((a.size : Int) - 1 ≠ (i : Int)) := by omega
      simp only [ne_eq, this, not_false_eq_true, decide_true]
    refine Runs.ite_stop hc ?_ (fun _ _ h => by cases h)
    simp only [if_true]
    refine Runs.swap_panic ?_
    simp only [eval, g0, g1, heapWorld]
    rw [dif_neg]
    intro h
    have := h.2.2.1
    simp only [Int.toNat_natCast] at this
    omega

end Got.Lemmas.HeapAst
