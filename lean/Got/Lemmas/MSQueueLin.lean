import Got.Lemmas.MSQueueWitness
/-
`lp_sound`: an LP witness yields a Herlihy–Wing linearization of the client-visible history.

Construction.  `S` = the *effective* markers of the log in log order: every `lin` marker, and for every
Pop that returns nil the last `obs` marker before its response (found by a right-to-left scan:
`scanF`/`scanS`).  `ext` = the responses of the operations that are linearised but have not returned.
Pending operations without an effective marker are dropped by `complete`.
-/
namespace Got.Spec.Lin

/-! ### the linearization extracted from a log -/

def LEv.tid : LEv → Nat
  | .inv t _ => t
  | .lin t _ _ => t
  | .obs t => t
  | .ret t _ => t

/-- flags of the right-to-left scan: `f t` = the next event of thread `t` to the right is `ret t nil`. -/
def stepF (e : LEv) (f : Nat → Bool) : Nat → Bool :=
  match e with
  | .ret t r => upd f t (decide (r = .val none))
  | e => upd f e.tid false

/-- the operation record contributed by an event, given the flags to its right. -/
def stepS (e : LEv) (f : Nat → Bool) : List OpRec :=
  match e with
  | .lin t o r => [⟨t, o, r⟩]
  | .obs t => if f t = true then [⟨t, .pop, .val none⟩] else []
  | _ => []

def scanF (f : Nat → Bool) : List LEv → (Nat → Bool)
  | [] => f
  | e :: l => stepF e (scanF f l)

def scanS (f : Nat → Bool) : List LEv → List OpRec
  | [] => []
  | e :: l => stepS e (scanF f l) ++ scanS f l

/-- the linearization of a log: its effective markers, in log order. -/
def lins (l : List LEv) : List OpRec := scanS (fun _ => false) l

theorem scanF_append (f : Nat → Bool) (l₁ l₂ : List LEv) :
    scanF f (l₁ ++ l₂) = scanF (scanF f l₂) l₁ := by
  induction l₁ with
  | nil => rfl
  | cons e l ih => simp only [List.cons_append, scanF, ih]

theorem scanS_append (f : Nat → Bool) (l₁ l₂ : List LEv) :
    scanS f (l₁ ++ l₂) = scanS (scanF f l₂) l₁ ++ scanS f l₂ := by
  induction l₁ with
  | nil => rfl
  | cons e l ih => simp only [List.cons_append, scanS, ih, scanF_append, List.append_assoc]

theorem scanS_snoc (f : Nat → Bool) (l : List LEv) (e : LEv) :
    scanS f (l ++ [e]) = scanS (stepF e f) l ++ stepS e f := by
  rw [scanS_append]; simp [scanS, scanF]

/-! ### small facts about histories -/

theorem history_append (l₁ l₂ : List LEv) : history (l₁ ++ l₂) = history l₁ ++ history l₂ := by
  unfold history; rw [List.filterMap_append]

theorem proj_append (t : Nat) (X Y : List HEv) : proj t (X ++ Y) = proj t X ++ proj t Y := by
  unfold proj; rw [List.filter_append]

theorem seqHist_append (A B : List OpRec) : seqHist (A ++ B) = seqHist A ++ seqHist B := by
  induction A with
  | nil => rfl
  | cons x A ih => simp only [List.cons_append, seqHist, ih]

def filterT (t : Nat) (S : List OpRec) : List OpRec := S.filter (fun x => decide (x.t = t))

theorem filterT_append (t : Nat) (A B : List OpRec) : filterT t (A ++ B) = filterT t A ++ filterT t B := by
  unfold filterT; rw [List.filter_append]

theorem proj_seqHist (t : Nat) (S : List OpRec) : proj t (seqHist S) = seqHist (filterT t S) := by
  induction S with
  | nil => rfl
  | cons x S ih =>
    by_cases h : x.t = t
    · simp only [seqHist, proj, filterT, List.filter_cons, HEv.tid, h, decide_true, if_true] at ih ⊢
      rw [ih]
    · simp only [seqHist, proj, filterT, List.filter_cons, HEv.tid, h, decide_false] at ih ⊢
      simpa using ih

/-- the status of a thread, its subhistory and its part of the linearization (`ft` = flag of the scan
    at the right end of the prefix). -/
def ThreadRel (t : Nat) (Ht : List HEv) (St : List OpRec) (st : TSt) (ft : Bool) : Prop :=
  match st with
  | .idle => Ht = seqHist St
  | .pend o b =>
    if b = true ∧ ft = true then Ht ++ [.ret t (.val none)] = seqHist St
    else Ht = seqHist St ++ [.inv t o]
  | .done _ r => Ht ++ [.ret t r] = seqHist St

theorem history_snoc (l : List LEv) (e : LEv) :
    history (l ++ [e]) = history l ++ (match e.toH with | some h => [h] | none => []) := by
  rw [history_append]
  congr 1
  unfold history
  cases h : e.toH <;> simp [List.filterMap, h]

theorem stepS_tid (e : LEv) (f : Nat → Bool) : ∀ x, x ∈ stepS e f → x.t = e.tid := by
  intro x hx
  cases e with
  | inv t o => cases hx
  | ret t r => cases hx
  | lin t o r =>
    simp only [stepS, List.mem_singleton] at hx
    subst hx; rfl
  | obs t =>
    simp only [stepS] at hx
    split at hx
    · rw [List.mem_singleton] at hx; subst hx; rfl
    · cases hx

theorem filterT_stepS_other {e : LEv} {t : Nat} (h : e.tid ≠ t) (f : Nat → Bool) :
    filterT t (stepS e f) = [] := by
  unfold filterT
  rw [List.filter_eq_nil_iff]
  intro x hx
  have := stepS_tid e f x hx
  simp only [decide_eq_true_eq]
  rw [this]; exact h

theorem stepF_other {e : LEv} {t : Nat} (h : e.tid ≠ t) (f : Nat → Bool) : stepF e f t = f t := by
  have h' : t ≠ e.tid := fun x => h x.symm
  cases e <;> simp only [stepF] <;> exact upd_other _ _ _ _ h'

theorem toH_tid {e : LEv} {h : HEv} (he : e.toH = some h) : h.tid = e.tid := by
  cases e <;> simp only [LEv.toH] at he <;> cases he <;> rfl

theorem proj_toH_other {e : LEv} {t : Nat} (h : e.tid ≠ t) :
    proj t (match e.toH with | some x => [x] | none => []) = [] := by
  cases hx : e.toH with
  | none => rfl
  | some x =>
    have := toH_tid hx
    simp only [proj, List.filter_cons, this, h, decide_false]
    rfl

/-- the replay status of the threads other than the one of the event does not change. -/
theorem wstep_other {w w' : WSt} {e : LEv} (he : wstep w e = some w') {t : Nat} (h : e.tid ≠ t) :
    w'.st t = w.st t := by
  have h' : t ≠ e.tid := fun x => h x.symm
  cases e with
  | inv t' o =>
    obtain ⟨_, h2⟩ := wstep_inv_iff.mp he
    subst h2; exact upd_other _ _ _ _ h'
  | lin t' o r =>
    obtain ⟨_, _, _, _, h2⟩ := wstep_lin_iff.mp he
    subst h2; exact upd_other _ _ _ _ h'
  | obs t' =>
    obtain ⟨_, _, _, h2⟩ := wstep_obs_iff.mp he
    subst h2; exact upd_other _ _ _ _ h'
  | ret t' r =>
    obtain ⟨_, h2⟩ := wstep_ret_iff.mp he
    subst h2; exact upd_other _ _ _ _ h'

theorem proj_single {t : Nat} {e : HEv} (h : e.tid = t) : proj t [e] = [e] := by
  simp [proj, h]

theorem filterT_single (t : Nat) (o : Op) (r : Res) : filterT t [⟨t, o, r⟩] = [⟨t, o, r⟩] := by
  simp [filterT]

theorem seqHist_single (t : Nat) (o : Op) (r : Res) : seqHist [⟨t, o, r⟩] = [.inv t o, .ret t r] := rfl

theorem threadRel_idle {t : Nat} {Ht : List HEv} {St : List OpRec} {ft : Bool} :
    ThreadRel t Ht St .idle ft ↔ Ht = seqHist St := Iff.rfl

theorem threadRel_done {t : Nat} {Ht : List HEv} {St : List OpRec} {ft : Bool} {o : Op} {r : Res} :
    ThreadRel t Ht St (.done o r) ft ↔ Ht ++ [.ret t r] = seqHist St := Iff.rfl

theorem threadRel_pend_commit {t : Nat} {Ht : List HEv} {St : List OpRec} {o : Op} :
    ThreadRel t Ht St (.pend o true) true ↔ Ht ++ [.ret t (.val none)] = seqHist St := by
  simp [ThreadRel]

theorem threadRel_pend_open {t : Nat} {Ht : List HEv} {St : List OpRec} {o : Op} {b ft : Bool}
    (h : b = false ∨ ft = false) :
    ThreadRel t Ht St (.pend o b) ft ↔ Ht = seqHist St ++ [.inv t o] := by
  have : ¬ (b = true ∧ ft = true) := by
    rintro ⟨h1, h2⟩
    rcases h with h | h
    · rw [h] at h1; cases h1
    · rw [h] at h2; cases h2
  simp only [ThreadRel, if_neg this]

/-- **key lemma**: for every prefix, every thread and every right context of the scan. -/
theorem thread_rel {l : List LEv} {w : WSt} (h : wrun l = some w) :
    ∀ (f : Nat → Bool) (t : Nat),
      ThreadRel t (proj t (history l)) (filterT t (scanS f l)) (w.st t) (f t) := by
  refine wrun_induction
    (P := fun l w => ∀ (f : Nat → Bool) (t : Nat),
      ThreadRel t (proj t (history l)) (filterT t (scanS f l)) (w.st t) (f t)) ?_ ?_ l w h
  · intro f t; show [] = seqHist []; rfl
  · intro l w e w' _ ih he f t
    rw [scanS_snoc, filterT_append, history_snoc, proj_append]
    have ih' := ih (stepF e f) t
    by_cases htt : e.tid = t
    · -- an event of thread t
      cases e with
      | inv t' o =>
        have : t' = t := htt
        subst this
        obtain ⟨h1, h2⟩ := wstep_inv_iff.mp he
        subst h2
        rw [h1, threadRel_idle] at ih'
        have e1 : proj t' (match (LEv.inv t' o).toH with | some h => [h] | none => []) = [.inv t' o] :=
          proj_single rfl
        have e2 : filterT t' (stepS (.inv t' o) f) = [] := rfl
        rw [e1, e2, List.append_nil]
        show ThreadRel t' _ _ (upd w.st t' (.pend o false) t') (f t')
        rw [upd_same, threadRel_pend_open (Or.inl rfl), ih']
      | lin t' o r =>
        have : t' = t := htt
        subst this
        obtain ⟨b, h1, _, _, h4⟩ := wstep_lin_iff.mp he
        subst h4
        have hf : stepF (.lin t' o r) f t' = false := upd_same _ _ _
        rw [h1, threadRel_pend_open (Or.inr hf)] at ih'
        have e1 : proj t' (match (LEv.lin t' o r).toH with | some h => [h] | none => []) = [] := rfl
        have e2 : filterT t' (stepS (.lin t' o r) f) = [⟨t', o, r⟩] := filterT_single _ _ _
        rw [e1, e2, List.append_nil]
        show ThreadRel t' _ _ (upd w.st t' (.done o r) t') (f t')
        rw [upd_same, threadRel_done, seqHist_append, seqHist_single, ih', List.append_assoc]
        rfl
      | obs t' =>
        have : t' = t := htt
        subst this
        obtain ⟨b, h1, _, h4⟩ := wstep_obs_iff.mp he
        subst h4
        have hf' : stepF (.obs t') f t' = false := upd_same _ _ _
        rw [h1, threadRel_pend_open (Or.inr hf')] at ih'
        have e1 : proj t' (match (LEv.obs t').toH with | some h => [h] | none => []) = [] := rfl
        rw [e1, List.append_nil]
        show ThreadRel t' _ _ (upd w.st t' (.pend .pop true) t') (f t')
        rw [upd_same]
        by_cases hf : f t' = true
        · have e2 : filterT t' (stepS (.obs t') f) = [⟨t', .pop, .val none⟩] := by
            simp only [stepS, hf, if_true]; exact filterT_single _ _ _
          rw [e2, hf, threadRel_pend_commit, seqHist_append, seqHist_single, ih', List.append_assoc]
          rfl
        · have hf0 : f t' = false := by cases hx : f t' <;> simp_all
          have e2 : filterT t' (stepS (.obs t') f) = [] := by
            simp only [stepS, hf0, Bool.false_eq_true, if_false]; rfl
          rw [e2, List.append_nil, threadRel_pend_open (Or.inr hf0)]
          exact ih'
      | ret t' r =>
        have : t' = t := htt
        subst this
        obtain ⟨h1, h4⟩ := wstep_ret_iff.mp he
        subst h4
        have e1 : proj t' (match (LEv.ret t' r).toH with | some h => [h] | none => []) = [.ret t' r] :=
          proj_single rfl
        have e2 : filterT t' (stepS (.ret t' r) f) = [] := rfl
        rw [e1, e2, List.append_nil]
        show ThreadRel t' _ _ (upd w.st t' .idle t') (f t')
        rw [upd_same, threadRel_idle]
        rcases h1 with ⟨o, ho⟩ | ⟨hp, hr⟩
        · rw [ho, threadRel_done] at ih'
          exact ih'
        · subst hr
          have hf' : stepF (.ret t' (.val none)) f t' = true := by
            simp only [stepF, upd_same, decide_true]
          rw [hp, hf', threadRel_pend_commit] at ih'
          exact ih'
    · -- an event of another thread
      rw [filterT_stepS_other htt, proj_toH_other htt, List.append_nil, List.append_nil,
        wstep_other he htt]
      rw [stepF_other htt] at ih'
      exact ih'

/-! ### legality of the extracted sequential history -/

theorem runOps_append {σ : Type} (spec : SeqSpec σ) (s : σ) (A B : List OpRec) :
    spec.runOps s (A ++ B) = (spec.runOps s A).bind (fun s' => spec.runOps s' B) := by
  induction A generalizing s with
  | nil => rfl
  | cons x A ih =>
    simp only [List.cons_append, SeqSpec.runOps]
    split
    · exact ih _
    · rfl

theorem legal_scan {l : List LEv} {w : WSt} (h : wrun l = some w) :
    ∀ f : Nat → Bool, FifoSpec.runOps [] (scanS f l) = some w.q := by
  refine wrun_induction (P := fun l w => ∀ f : Nat → Bool, FifoSpec.runOps [] (scanS f l) = some w.q) ?_ ?_ l w h
  · intro f; rfl
  · intro l w e w' _ ih he f
    rw [scanS_snoc, runOps_append, ih]
    show FifoSpec.runOps w.q (stepS e f) = some w'.q
    cases e with
    | inv t o =>
      obtain ⟨_, h2⟩ := wstep_inv_iff.mp he
      subst h2; rfl
    | ret t r =>
      obtain ⟨_, h2⟩ := wstep_ret_iff.mp he
      subst h2; rfl
    | lin t o r =>
      obtain ⟨_, _, h2, _, h4⟩ := wstep_lin_iff.mp he
      subst h4
      show (if (fifoApply w.q o).2 = r then some (fifoApply w.q o).1 else none) = _
      rw [if_pos h2]
    | obs t =>
      obtain ⟨_, _, h2, h4⟩ := wstep_obs_iff.mp he
      subst h4
      simp only [stepS]
      split
      · rw [h2]; rfl
      · rfl

/-! ### `complete` and thread projections -/

/-- `complete` on the subhistory of a single thread: drop a trailing invocation. -/
def completeT : List HEv → List HEv
  | [] => []
  | .inv t o :: Y => if Y.isEmpty then [] else .inv t o :: completeT Y
  | .ret t r :: Y => .ret t r :: completeT Y

theorem any_tid_iff (t : Nat) (H : List HEv) :
    H.any (fun e => decide (e.tid = t)) = !(proj t H).isEmpty := by
  induction H with
  | nil => rfl
  | cons e H ih =>
    by_cases h : e.tid = t
    · simp [proj, h]
    · simp only [List.any_cons, h, decide_false, Bool.false_or, ih, proj, List.filter_cons]
      simp

theorem proj_cons_same {t : Nat} {e : HEv} (h : e.tid = t) (H : List HEv) : proj t (e :: H) = e :: proj t H := by
  simp [proj, h]

theorem proj_cons_other {t : Nat} {e : HEv} (h : e.tid ≠ t) (H : List HEv) : proj t (e :: H) = proj t H := by
  simp [proj, h]

theorem proj_complete (t : Nat) (X : List HEv) : proj t (complete X) = completeT (proj t X) := by
  induction X with
  | nil => rfl
  | cons e X ih =>
    cases e with
    | ret t' r =>
      by_cases h : t' = t
      · subst h
        rw [complete, proj_cons_same (t := t') (e := .ret t' r) rfl, proj_cons_same (t := t') (e := .ret t' r) rfl, ih]; rfl
      · have h' : (HEv.ret t' r).tid ≠ t := h
        rw [complete, proj_cons_other h', proj_cons_other h', ih]
    | inv t' o =>
      by_cases h : t' = t
      · subst h
        rw [complete, any_tid_iff, proj_cons_same (t := t') (e := .inv t' o) rfl (H := X)]
        cases hY : (proj t' X).isEmpty with
        | true =>
          simp only [Bool.not_true, Bool.false_eq_true, if_false]
          rw [ih]
          have : proj t' X = [] := List.isEmpty_iff.mp hY
          rw [this]; rfl
        | false =>
          simp only [Bool.not_false, if_true]
          rw [proj_cons_same (t := t') (e := .inv t' o) rfl, ih]
          simp only [completeT, hY, Bool.false_eq_true, if_false]
      · have h' : (HEv.inv t' o).tid ≠ t := h
        rw [complete, proj_cons_other h']
        split
        · rw [proj_cons_other h', ih]
        · exact ih

theorem completeT_seqHist (S : List OpRec) : completeT (seqHist S) = seqHist S := by
  induction S with
  | nil => rfl
  | cons x S ih => simp only [seqHist, completeT, List.isEmpty_cons, Bool.false_eq_true, if_false, ih]

theorem completeT_seqHist_inv (S : List OpRec) (t : Nat) (o : Op) :
    completeT (seqHist S ++ [.inv t o]) = seqHist S := by
  induction S with
  | nil => rfl
  | cons x S ih =>
    simp only [seqHist, List.cons_append, completeT, List.isEmpty_cons, Bool.false_eq_true, if_false, ih]

/-! ### the responses appended for linearised-but-unreturned operations -/

def addT (t : Nat) (T : List Nat) : List Nat := if t ∈ T then T else t :: T

def threadsOf : List LEv → List Nat
  | [] => []
  | e :: l => addT e.tid (threadsOf l)

theorem addT_nodup {t : Nat} {T : List Nat} (h : T.Nodup) : (addT t T).Nodup := by
  unfold addT; split
  · exact h
  · rename_i hn; exact List.nodup_cons.mpr ⟨hn, h⟩

theorem mem_addT {t x : Nat} {T : List Nat} : x ∈ addT t T ↔ x = t ∨ x ∈ T := by
  unfold addT; split
  · rename_i hm
    constructor
    · exact Or.inr
    · rintro (h | h)
      · subst h; exact hm
      · exact h
  · exact List.mem_cons

theorem threadsOf_nodup (l : List LEv) : (threadsOf l).Nodup := by
  induction l with
  | nil => exact List.nodup_nil
  | cons e l ih => exact addT_nodup ih

theorem mem_threadsOf {l : List LEv} {e : LEv} (h : e ∈ l) : e.tid ∈ threadsOf l := by
  induction l with
  | nil => cases h
  | cons x l ih =>
    rw [List.mem_cons] at h
    simp only [threadsOf, mem_addT]
    rcases h with h | h
    · subst h; exact Or.inl rfl
    · exact Or.inr (ih h)

def pendingRet (w : WSt) (t : Nat) : Option HEv :=
  match w.st t with
  | .done _ r => some (.ret t r)
  | _ => none

def extOf (w : WSt) (T : List Nat) : List HEv := T.filterMap (pendingRet w)

theorem pendingRet_tid {w : WSt} {t : Nat} {e : HEv} (h : pendingRet w t = some e) : e.tid = t ∧ e.isRet = true := by
  unfold pendingRet at h
  split at h
  · injection h with h; subst h; exact ⟨rfl, rfl⟩
  · cases h

theorem extOf_isRet (w : WSt) (T : List Nat) : ∀ e, e ∈ extOf w T → e.isRet = true := by
  intro e he
  obtain ⟨t, _, ht⟩ := List.mem_filterMap.mp he
  exact (pendingRet_tid ht).2

theorem proj_extOf_notin (w : WSt) (t : Nat) (T : List Nat) (h : t ∉ T) : proj t (extOf w T) = [] := by
  unfold proj
  rw [List.filter_eq_nil_iff]
  intro e he
  obtain ⟨t', ht', hp⟩ := List.mem_filterMap.mp he
  have := (pendingRet_tid hp).1
  simp only [decide_eq_true_eq]
  intro hc
  rw [this] at hc
  exact h (hc ▸ ht')

theorem proj_extOf (w : WSt) (t : Nat) (T : List Nat) (hn : T.Nodup) (hm : t ∈ T) :
    proj t (extOf w T) = (match pendingRet w t with | some e => [e] | none => []) := by
  induction T with
  | nil => cases hm
  | cons x T ih =>
    rw [List.nodup_cons] at hn
    rw [List.mem_cons] at hm
    by_cases hx : t = x
    · subst hx
      have h0 := proj_extOf_notin w t T hn.1
      unfold extOf at h0 ⊢
      rw [List.filterMap_cons]
      cases hp : pendingRet w t with
      | none => exact h0
      | some e =>
        simp only []
        rw [proj_cons_same (pendingRet_tid hp).1, h0]
    · rcases hm with hm | hm
      · exact absurd hm hx
      · have ih' := ih hn.2 hm
        unfold extOf at ih' ⊢
        rw [List.filterMap_cons]
        cases hp : pendingRet w x with
        | none => exact ih'
        | some e =>
          simp only []
          have : e.tid ≠ t := by rw [(pendingRet_tid hp).1]; exact fun h => hx h.symm
          rw [proj_cons_other this]; exact ih'

theorem busy_mem_threadsOf {l : List LEv} {w : WSt} (h : wrun l = some w) {t : Nat}
    (hb : w.st t ≠ .idle) : t ∈ threadsOf l := by
  cases hs : w.st t with
  | idle => exact absurd hs hb
  | pend o b => exact mem_threadsOf ((state_facts h t).1 o b hs)
  | done o r => exact mem_threadsOf ((state_facts h t).2 o r hs).1

/-! ### L1: equivalence of `complete(H ++ ext)` with the sequential history, thread by thread -/

theorem equiv_thread {l : List LEv} {w : WSt} (h : wrun l = some w) (t : Nat) :
    proj t (complete (history l ++ extOf w (threadsOf l))) = proj t (seqHist (lins l)) := by
  have hrel := thread_rel h (fun _ => false) t
  rw [proj_complete, proj_append, proj_seqHist]
  show completeT (_ ++ _) = seqHist (filterT t (scanS (fun _ => false) l))
  cases hs : w.st t with
  | idle =>
    rw [hs, threadRel_idle] at hrel
    have hext : proj t (extOf w (threadsOf l)) = [] := by
      by_cases hm : t ∈ threadsOf l
      · rw [proj_extOf w t _ (threadsOf_nodup l) hm]
        simp only [pendingRet, hs]
      · exact proj_extOf_notin w t _ hm
    rw [hext, List.append_nil, hrel, completeT_seqHist]
  | pend o b =>
    rw [hs, threadRel_pend_open (Or.inr rfl)] at hrel
    have hm : t ∈ threadsOf l := busy_mem_threadsOf h (by rw [hs]; exact fun e => by cases e)
    have hext : proj t (extOf w (threadsOf l)) = [] := by
      rw [proj_extOf w t _ (threadsOf_nodup l) hm]
      simp only [pendingRet, hs]
    rw [hext, List.append_nil, hrel, completeT_seqHist_inv]
  | done o r =>
    rw [hs, threadRel_done] at hrel
    have hm : t ∈ threadsOf l := busy_mem_threadsOf h (by rw [hs]; exact fun e => by cases e)
    have hext : proj t (extOf w (threadsOf l)) = [.ret t r] := by
      rw [proj_extOf w t _ (threadsOf_nodup l) hm]
      simp only [pendingRet, hs]
    rw [hext, hrel, completeT_seqHist]

/-! ### L2: real-time order -/

theorem isRetOf_tid {t : Nat} {e : HEv} (h : e.isRetOf t = true) : e.tid = t := by
  cases e with
  | inv _ _ => cases h
  | ret t' r => simpa [HEv.isRetOf, HEv.tid] using h

theorem isInvOf_tid {t : Nat} {e : HEv} (h : e.isInvOf t = true) : e.tid = t := by
  cases e with
  | ret _ _ => cases h
  | inv t' r => simpa [HEv.isInvOf, HEv.tid] using h

theorem nRet_proj (t : Nat) (X : List HEv) : nRet t (proj t X) = nRet t X := by
  unfold nRet proj
  rw [List.countP_filter]
  apply List.countP_congr
  intro e _
  constructor
  · intro h; rw [Bool.and_eq_true] at h; exact h.1
  · intro h; rw [Bool.and_eq_true]; exact ⟨h, by simp [isRetOf_tid h]⟩

theorem nInv_proj (t : Nat) (X : List HEv) : nInv t (proj t X) = nInv t X := by
  unfold nInv proj
  rw [List.countP_filter]
  apply List.countP_congr
  intro e _
  constructor
  · intro h; rw [Bool.and_eq_true] at h; exact h.1
  · intro h; rw [Bool.and_eq_true]; exact ⟨h, by simp [isInvOf_tid h]⟩

theorem nRet_seqHist (t : Nat) (S : List OpRec) : nRet t (seqHist S) = (filterT t S).length := by
  induction S with
  | nil => rfl
  | cons x S ih =>
    unfold nRet at ih ⊢
    simp only [seqHist, List.countP_cons, HEv.isRetOf, ih, filterT, List.filter_cons]
    by_cases h : x.t = t <;> simp [h]

theorem nInv_seqHist (t : Nat) (S : List OpRec) : nInv t (seqHist S) = (filterT t S).length := by
  induction S with
  | nil => rfl
  | cons x S ih =>
    unfold nInv at ih ⊢
    simp only [seqHist, List.countP_cons, HEv.isInvOf, ih, filterT, List.filter_cons]
    by_cases h : x.t = t <;> simp [h]

theorem filterT_idem (t : Nat) (S : List OpRec) : filterT t (filterT t S) = filterT t S := by
  unfold filterT; rw [List.filter_filter]; simp

/-- counting consequence of `thread_rel`: in every prefix, for every right context, the number of
    responses of `t` ≤ the number of effective markers of `t` ≤ the number of invocations of `t`. -/
theorem counts {l : List LEv} {w : WSt} (h : wrun l = some w) (f : Nat → Bool) (t : Nat) :
    nRet t (history l) ≤ (filterT t (scanS f l)).length ∧
    (filterT t (scanS f l)).length ≤ nInv t (history l) := by
  have hrel := thread_rel h f t
  rw [← nRet_proj, ← nInv_proj]
  have hR : nRet t (seqHist (filterT t (scanS f l))) = (filterT t (scanS f l)).length := by
    rw [nRet_seqHist, filterT_idem]
  have hI : nInv t (seqHist (filterT t (scanS f l))) = (filterT t (scanS f l)).length := by
    rw [nInv_seqHist, filterT_idem]
  -- apply the counters to the equation given by the status
  have app_ret : ∀ (A : List HEv) (r : Res), nRet t (A ++ [.ret t r]) = nRet t A + 1 := by
    intro A r; unfold nRet; rw [List.countP_append]; simp [HEv.isRetOf]
  have app_ret' : ∀ (A : List HEv) (r : Res), nInv t (A ++ [.ret t r]) = nInv t A := by
    intro A r; unfold nInv; rw [List.countP_append]; simp [HEv.isInvOf]
  have app_inv : ∀ (A : List HEv) (o : Op), nRet t (A ++ [.inv t o]) = nRet t A := by
    intro A o; unfold nRet; rw [List.countP_append]; simp [HEv.isRetOf]
  have app_inv' : ∀ (A : List HEv) (o : Op), nInv t (A ++ [.inv t o]) = nInv t A + 1 := by
    intro A o; unfold nInv; rw [List.countP_append]; simp [HEv.isInvOf]
  cases hs : w.st t with
  | idle =>
    rw [hs, threadRel_idle] at hrel
    rw [hrel, hR, hI]; exact ⟨Nat.le_refl _, Nat.le_refl _⟩
  | done o r =>
    rw [hs, threadRel_done] at hrel
    have h1 := congrArg (nRet t) hrel
    have h2 := congrArg (nInv t) hrel
    rw [app_ret, hR] at h1
    rw [app_ret', hI] at h2
    omega
  | pend o b =>
    by_cases hc : b = true ∧ f t = true
    · obtain ⟨hb, hf⟩ := hc
      subst hb
      rw [hs, hf, threadRel_pend_commit] at hrel
      have h1 := congrArg (nRet t) hrel
      have h2 := congrArg (nInv t) hrel
      rw [app_ret, hR] at h1
      rw [app_ret', hI] at h2
      omega
    · have : b = false ∨ f t = false := by
        cases b <;> cases hf : f t <;> simp_all
      rw [hs, threadRel_pend_open this] at hrel
      have h1 := congrArg (nRet t) hrel
      have h2 := congrArg (nInv t) hrel
      rw [app_inv, hR] at h1
      rw [app_inv', hI] at h2
      omega

theorem realtime {l : List LEv} {w : WSt} (h : wrun l = some w) (t k t' k' : Nat)
    (hp : RetBeforeInv (history l) t k t' k') : RetBeforeInv (seqHist (lins l)) t k t' k' := by
  obtain ⟨X₁, X₂, hX, h1, h2⟩ := hp
  unfold history at hX
  obtain ⟨l₁, l₂, hl, hl1, _⟩ := List.filterMap_eq_append_iff.mp hX
  subst hl
  obtain ⟨w₁, hw₁⟩ := wrun_prefix h
  have hc := counts hw₁ (scanF (fun _ => false) l₂) t
  have hc' := counts hw₁ (scanF (fun _ => false) l₂) t'
  refine ⟨seqHist (scanS (scanF (fun _ => false) l₂) l₁), seqHist (scanS (fun _ => false) l₂), ?_, ?_, ?_⟩
  · unfold lins; rw [scanS_append, seqHist_append]
  · rw [nRet_seqHist]
    have : history l₁ = X₁ := hl1
    rw [this] at hc
    omega
  · rw [nInv_seqHist]
    have : history l₁ = X₁ := hl1
    rw [this] at hc'
    omega

/-! ### the meta-theorem -/

/-- **LP soundness**: a log whose markers replay legally (an LP witness) has a linearizable history. -/
theorem lp_sound {l : List LEv} (h : LinWitness l) : Linearizable FifoSpec (history l) := by
  unfold LinWitness at h
  cases hw : wrun l with
  | none => rw [hw] at h; cases h
  | some w =>
    refine ⟨extOf w (threadsOf l), lins l, extOf_isRet _ _, ?_, equiv_thread hw, realtime hw⟩
    unfold Legal
    show (FifoSpec.runOps [] (scanS (fun _ => false) l)).isSome = true
    rw [legal_scan hw]; rfl

end Got.Spec.Lin
