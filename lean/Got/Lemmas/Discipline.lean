import Got.Model.Discipline
/-
Soundness of the publication-discipline monitor: every accepted trace is race free
(w.r.t. the declarative happens-before of Got/Model/Discipline.lean).
-/
namespace Got.Lemmas.Discipline
open Got.Model.Discipline

theorem get_append_left {tr : List Ev} {x : Ev} {i : Nat} {e : Ev} (h : tr[i]? = some e) :
    (tr ++ [x])[i]? = some e := by
  have hi : i < tr.length := by
    rcases Nat.lt_or_ge i tr.length with h' | h'
    · exact h'
    · rw [List.getElem?_eq_none h'] at h; cases h
  rw [List.getElem?_append_left hi]; exact h

theorem get_append_cases {tr : List Ev} {x : Ev} {i : Nat} {e : Ev} (h : (tr ++ [x])[i]? = some e) :
    (i < tr.length ∧ tr[i]? = some e) ∨ (i = tr.length ∧ e = x) := by
  rcases Nat.lt_or_ge i tr.length with h' | h'
  · left; rw [List.getElem?_append_left h'] at h; exact ⟨h', h⟩
  · right
    rw [List.getElem?_append_right h'] at h
    have : i - tr.length = 0 := by
      rcases Nat.eq_zero_or_pos (i - tr.length) with h0 | h0
      · exact h0
      · rw [List.getElem?_eq_none (by simp only [List.length_cons, List.length_nil]; omega)] at h; cases h
    rw [this] at h; simp at h
    exact ⟨by omega, h.symm⟩

theorem get_lt {tr : List Ev} {i : Nat} {e : Ev} (h : tr[i]? = some e) : i < tr.length := by
  rcases Nat.lt_or_ge i tr.length with h' | h'
  · exact h'
  · rw [List.getElem?_eq_none h'] at h; cases h

theorem get_last (tr : List Ev) (x : Ev) : (tr ++ [x])[tr.length]? = some x := by
  rw [List.getElem?_append_right (Nat.le_refl _)]; simp

theorem HB.mono {tr : List Ev} (x : Ev) {i j : Nat} (h : HB tr i j) : HB (tr ++ [x]) i j := by
  induction h with
  | po i j e f hij hi hj ht => exact HB.po i j e f hij (get_append_left hi) (get_append_left hj) ht
  | sw i j t u a hij hi hj => exact HB.sw i j t u a hij (get_append_left hi) (get_append_left hj)
  | trans i j k _ _ ih1 ih2 => exact HB.trans i j k ih1 ih2

/-- `t` has an event at position `i` itself or happens-after it -/
def After (tr : List Ev) (t : Nat) (i : Nat) : Prop :=
  ∃ k e, tr[k]? = some e ∧ e.thr = t ∧ (k = i ∨ HB tr i k)

theorem After.mono {tr : List Ev} (x : Ev) {t i : Nat} (h : After tr t i) : After (tr ++ [x]) t i := by
  obtain ⟨k, e, hk, ht, hor⟩ := h
  exact ⟨k, e, get_append_left hk, ht, hor.imp id (HB.mono x)⟩

/-- if `t` is after position `i` in `tr`, a new event of `t` appended to `tr` happens after `i` -/
theorem After.toNew {tr : List Ev} {x : Ev} {t i : Nat} {ei : Ev} (hi : tr[i]? = some ei)
    (h : After tr t i) (hx : x.thr = t) : HB (tr ++ [x]) i tr.length := by
  obtain ⟨k, e, hk, ht, hor⟩ := h
  have hkn := get_lt hk
  have hpo : HB (tr ++ [x]) k tr.length :=
    HB.po k tr.length e x hkn (get_append_left hk) (get_last tr x) (by rw [ht, hx])
  rcases hor with rfl | hb
  · exact hpo
  · exact HB.trans i k tr.length (HB.mono x hb) hpo

structure Inv (tr : List Ev) (m : Mon) : Prop where
  rf : RaceFree tr
  w : ∀ t, m.wcur t = true → ∀ i e, tr[i]? = some e → e.isWr = true → After tr t i
  a : ∀ t, m.acur t = true → ∀ i e, tr[i]? = some e → e.isAcc = true → After tr t i
  cw : ∀ o, m.carW o = true → ∃ r t', tr[r]? = some (.rel t' o) ∧ ∀ i e, tr[i]? = some e → e.isWr = true → HB tr i r
  ca : ∀ o, m.carA o = true → ∃ r t', tr[r]? = some (.rel t' o) ∧ ∀ i e, tr[i]? = some e → e.isAcc = true → HB tr i r

theorem inv_init : Inv [] Mon.init := by
  refine ⟨?_, ?_, ?_, ?_, ?_⟩
  · intro i j e f _ hi; simp at hi
  · intro t _ i e hi; simp at hi
  · intro t _ i e hi; simp at hi
  · intro o h; simp [Mon.init] at h
  · intro o h; simp [Mon.init] at h

theorem isWr_isAcc {e : Ev} (h : e.isWr = true) : e.isAcc = true := by
  cases e <;> simp [Ev.isWr, Ev.isAcc] at *

/-- race freedom is preserved when the appended event is ordered after every conflicting earlier one -/
theorem raceFree_snoc {tr : List Ev} {x : Ev} (h : RaceFree tr)
    (hx : ∀ i e, tr[i]? = some e → conflict e x = true → HB (tr ++ [x]) i tr.length) :
    RaceFree (tr ++ [x]) := by
  intro i j e f hij hi hj hc
  rcases get_append_cases hj with ⟨hjl, hj'⟩ | ⟨rfl, rfl⟩
  · have hil : i < tr.length := by omega
    rw [List.getElem?_append_left hil] at hi
    exact HB.mono x (h i j e f hij hi hj' hc)
  · rw [List.getElem?_append_left hij] at hi
    exact hx i e hi hc

theorem conflict_nonacc_right {e x : Ev} (hx : x.isAcc = false) : conflict e x = false := by
  simp [conflict, hx]

/-- the single-step lemma -/
theorem inv_step {tr : List Ev} {m m' : Mon} {x : Ev} (hI : Inv tr m) (hs : m.step x = some m') :
    Inv (tr ++ [x]) m' := by
  cases x with
  | rd t =>
    simp only [Mon.step] at hs
    split at hs
    · rename_i hw
      injection hs with hs; subst hs
      refine ⟨?_, ?_, ?_, ?_, ?_⟩
      · apply raceFree_snoc hI.rf
        intro i e hi hc
        have hwr : e.isWr = true := by
          simp [conflict, Ev.isWr, Ev.isAcc] at hc; exact hc.1.2
        exact After.toNew hi (hI.w t hw i e hi hwr) rfl
      · intro u hu i e hi hwr
        rcases get_append_cases hi with ⟨_, hi'⟩ | ⟨_, rfl⟩
        · exact After.mono _ (hI.w u hu i e hi' hwr)
        · simp [Ev.isWr] at hwr
      · intro u hu i e hi hacc
        simp only [Bool.and_eq_true, decide_eq_true_eq] at hu
        obtain ⟨hu1, rfl⟩ := hu
        rcases get_append_cases hi with ⟨_, hi'⟩ | ⟨rfl, rfl⟩
        · exact After.mono _ (hI.a u hu1 i e hi' hacc)
        · exact ⟨tr.length, .rd u, get_last tr _, rfl, Or.inl rfl⟩
      · intro o ho
        obtain ⟨r, t', hr, hall⟩ := hI.cw o ho
        refine ⟨r, t', get_append_left hr, ?_⟩
        intro i e hi hwr
        rcases get_append_cases hi with ⟨_, hi'⟩ | ⟨_, rfl⟩
        · exact HB.mono _ (hall i e hi' hwr)
        · simp [Ev.isWr] at hwr
      · intro o ho; simp at ho
    · cases hs
  | wr t =>
    simp only [Mon.step] at hs
    split at hs
    · rename_i ha
      injection hs with hs; subst hs
      refine ⟨?_, ?_, ?_, ?_, ?_⟩
      · apply raceFree_snoc hI.rf
        intro i e hi hc
        have hacc : e.isAcc = true := by
          simp [conflict] at hc; exact hc.1.1.1
        exact After.toNew hi (hI.a t ha i e hi hacc) rfl
      · intro u hu i e hi hwr
        simp only [decide_eq_true_eq] at hu; subst hu
        rcases get_append_cases hi with ⟨_, hi'⟩ | ⟨rfl, rfl⟩
        · exact After.mono _ (hI.a u ha i e hi' (isWr_isAcc hwr))
        · exact ⟨tr.length, .wr u, get_last tr _, rfl, Or.inl rfl⟩
      · intro u hu i e hi hacc
        simp only [decide_eq_true_eq] at hu; subst hu
        rcases get_append_cases hi with ⟨_, hi'⟩ | ⟨rfl, rfl⟩
        · exact After.mono _ (hI.a u ha i e hi' hacc)
        · exact ⟨tr.length, .wr u, get_last tr _, rfl, Or.inl rfl⟩
      · intro o ho; simp at ho
      · intro o ho; simp at ho
    · cases hs
  | rel t o' =>
    simp only [Mon.step] at hs
    injection hs with hs; subst hs
    refine ⟨?_, ?_, ?_, ?_, ?_⟩
    · apply raceFree_snoc hI.rf
      intro i e _ hc
      rw [conflict_nonacc_right (by rfl)] at hc; cases hc
    · intro u hu i e hi hwr
      rcases get_append_cases hi with ⟨_, hi'⟩ | ⟨_, rfl⟩
      · exact After.mono _ (hI.w u hu i e hi' hwr)
      · simp [Ev.isWr] at hwr
    · intro u hu i e hi hacc
      rcases get_append_cases hi with ⟨_, hi'⟩ | ⟨_, rfl⟩
      · exact After.mono _ (hI.a u hu i e hi' hacc)
      · simp [Ev.isAcc] at hacc
    · intro o ho
      simp only [Bool.or_eq_true, Bool.and_eq_true, decide_eq_true_eq] at ho
      rcases ho with ho | ⟨rfl, hw⟩
      · obtain ⟨r, t', hr, hall⟩ := hI.cw o ho
        refine ⟨r, t', get_append_left hr, ?_⟩
        intro i e hi hwr
        rcases get_append_cases hi with ⟨_, hi'⟩ | ⟨_, rfl⟩
        · exact HB.mono _ (hall i e hi' hwr)
        · simp [Ev.isWr] at hwr
      · refine ⟨tr.length, t, get_last tr _, ?_⟩
        intro i e hi hwr
        rcases get_append_cases hi with ⟨_, hi'⟩ | ⟨_, rfl⟩
        · exact After.toNew hi' (hI.w t hw i e hi' hwr) rfl
        · simp [Ev.isWr] at hwr
    · intro o ho
      simp only [Bool.or_eq_true, Bool.and_eq_true, decide_eq_true_eq] at ho
      rcases ho with ho | ⟨rfl, ha⟩
      · obtain ⟨r, t', hr, hall⟩ := hI.ca o ho
        refine ⟨r, t', get_append_left hr, ?_⟩
        intro i e hi hacc
        rcases get_append_cases hi with ⟨_, hi'⟩ | ⟨_, rfl⟩
        · exact HB.mono _ (hall i e hi' hacc)
        · simp [Ev.isAcc] at hacc
      · refine ⟨tr.length, t, get_last tr _, ?_⟩
        intro i e hi hacc
        rcases get_append_cases hi with ⟨_, hi'⟩ | ⟨_, rfl⟩
        · exact After.toNew hi' (hI.a t ha i e hi' hacc) rfl
        · simp [Ev.isAcc] at hacc
  | acq t o' =>
    simp only [Mon.step] at hs
    injection hs with hs; subst hs
    refine ⟨?_, ?_, ?_, ?_, ?_⟩
    · apply raceFree_snoc hI.rf
      intro i e _ hc
      rw [conflict_nonacc_right (by rfl)] at hc; cases hc
    · intro u hu i e hi hwr
      simp only [Bool.or_eq_true, Bool.and_eq_true, decide_eq_true_eq] at hu
      rcases get_append_cases hi with ⟨_, hi'⟩ | ⟨_, rfl⟩
      · rcases hu with hu | ⟨rfl, hc⟩
        · exact After.mono _ (hI.w u hu i e hi' hwr)
        · obtain ⟨r, t', hr, hall⟩ := hI.cw o' hc
          have hsw : HB (tr ++ [Ev.acq u o']) r tr.length :=
            HB.sw r tr.length t' u o' (get_lt hr) (get_append_left hr) (get_last tr _)
          exact ⟨tr.length, .acq u o', get_last tr _, rfl,
            Or.inr (HB.trans i r tr.length (HB.mono _ (hall i e hi' hwr)) hsw)⟩
      · simp [Ev.isWr] at hwr
    · intro u hu i e hi hacc
      simp only [Bool.or_eq_true, Bool.and_eq_true, decide_eq_true_eq] at hu
      rcases get_append_cases hi with ⟨_, hi'⟩ | ⟨_, rfl⟩
      · rcases hu with hu | ⟨rfl, hc⟩
        · exact After.mono _ (hI.a u hu i e hi' hacc)
        · obtain ⟨r, t', hr, hall⟩ := hI.ca o' hc
          have hsw : HB (tr ++ [Ev.acq u o']) r tr.length :=
            HB.sw r tr.length t' u o' (get_lt hr) (get_append_left hr) (get_last tr _)
          exact ⟨tr.length, .acq u o', get_last tr _, rfl,
            Or.inr (HB.trans i r tr.length (HB.mono _ (hall i e hi' hacc)) hsw)⟩
      · simp [Ev.isAcc] at hacc
    · intro o ho
      obtain ⟨r, t', hr, hall⟩ := hI.cw o ho
      refine ⟨r, t', get_append_left hr, ?_⟩
      intro i e hi hwr
      rcases get_append_cases hi with ⟨_, hi'⟩ | ⟨_, rfl⟩
      · exact HB.mono _ (hall i e hi' hwr)
      · simp [Ev.isWr] at hwr
    · intro o ho
      obtain ⟨r, t', hr, hall⟩ := hI.ca o ho
      refine ⟨r, t', get_append_left hr, ?_⟩
      intro i e hi hacc
      rcases get_append_cases hi with ⟨_, hi'⟩ | ⟨_, rfl⟩
      · exact HB.mono _ (hall i e hi' hacc)
      · simp [Ev.isAcc] at hacc

theorem inv_run {tr0 : List Ev} {m0 : Mon} (hI : Inv tr0 m0) :
    ∀ (es : List Ev) (m : Mon), m0.run es = some m → Inv (tr0 ++ es) m := by
  intro es
  induction es generalizing tr0 m0 with
  | nil => intro m h; simp [Mon.run] at h; subst h; simpa using hI
  | cons e es ih =>
    intro m h
    simp only [Mon.run] at h
    cases hs : m0.step e with
    | none => simp [hs] at h
    | some m1 =>
      simp only [hs] at h
      have := ih (inv_step hI hs) m h
      simpa using this

/-- Soundness: every trace accepted by the discipline monitor is race free. -/
theorem accepts_raceFree (tr : List Ev) (h : accepts tr = true) : RaceFree tr := by
  unfold accepts at h
  cases hr : Mon.init.run tr with
  | none => simp [hr] at h
  | some m => simpa using (inv_run inv_init tr m hr).rf

end Got.Lemmas.Discipline
