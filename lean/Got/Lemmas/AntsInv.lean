import Got.Lemmas.AntsPc
/- ants model: the remaining preservation lemmas, the global invariant and its consequences -/
namespace Got.Model.Ants
set_option linter.unusedVariables false
set_option linter.unusedSimpArgs false

theorem no_write_cur {t : Task} (ok : TaskOK t) (h : (t.at_ t.cur).pc.isWrite = false) :
    ∀ a, (t.at_ a).pc.isWrite = false := by
  intro a
  cases hw : (t.at_ a).pc.isWrite
  · rfl
  · have h1 := (ok.writeW a hw).1
    have : t.cur = a := by simp [Task.cur]; omega
    rw [this] at h; rw [h] at hw; exact hw.symm

theorem no_write {t : Task} (ok : TaskOK t) (h : t.pc.waiting = false) : ∀ a, (t.at_ a).pc.isWrite = false := by
  intro a
  cases hw : (t.at_ a).pc.isWrite
  · rfl
  · have := (ok.writeW a hw).2; rw [h] at this; exact absurd this (by simp)

/-- the CAS of the dispatcher wins: decided := 2, pc := writeDE -/
theorem ok_decide_win {t : Task} (ok : TaskOK t) (hp : t.pc = .decide) (hd : (t.at_ t.cur).decided = 0) :
    TaskOK { (t.setAt t.cur { t.at_ t.cur with decided := 2 }) with pc := .writeDE } := by
  have hatt : 1 ≤ t.att := ok.att_pos (by simp [hp, TPc.pre]) (by simp [hp])
  have ax := ok.atts t.cur
  have hnwc : (t.at_ t.cur).pc.isWrite = false := by
    cases hw : (t.at_ t.cur).pc.isWrite
    · rfl
    · have := ax.2.2.2.2.1 hw; omega
  have hnw := no_write_cur ok hnwc
  have hcur : ∀ b, b + 1 < t.att → b ≠ t.cur := by intro b hb; simp [Task.cur]; omega
  refine
    { r_pos := ok.r_pos, att_le := ok.att_le, atts := ?_, beyond := ?_, inv_eq := ?_, pre0 := ?_,
      att_pos := fun _ _ => hatt, writeW := ?_, past := ?_, sendCl := ?_, dec0 := ?_, dec2 := ?_, wDE := ?_,
      wDone := ?_, pub1 := ?_, pub2 := ?_, ctxd := ?_, errLoop := ?_, errOn := ?_, errFin := ?_,
      onErrD := ?_, onErrF := ?_, onErr0 := ?_, gotD := ?_ }
  · intro b
    show AttOK (upd t.at_ t.cur _ b)
    by_cases hb : b = t.cur
    · subst hb
      simp only [upd_same]
      have hpair := ax.2.1
      simp_all [AttOK, CPc.isWrite]
      exact hpair
    · simpa [hb] using ok.atts b
  · intro b hb
    have hb' : t.att ≤ b := hb
    have : b ≠ t.cur := by simp [Task.cur]; omega
    show upd t.at_ t.cur _ b = {}
    simpa [this] using ok.beyond b hb'
  · show t.inv = sumStarts (upd t.at_ t.cur _) t.att
    have h1 := sumStarts_upd_lt t.at_ t.cur { t.at_ t.cur with decided := 2 } t.att (by simp [Task.cur]; omega)
    have h2 := ok.inv_eq
    simp only at h1
    omega
  · intro h; simp [TPc.pre] at h
  · intro b hb
    have hb' : (upd t.at_ t.cur { t.at_ t.cur with decided := 2 } b).pc.isWrite = true := hb
    by_cases hbc : b = t.cur
    · subst hbc; simp [hnwc] at hb'
    · simp [hbc, hnw b] at hb'
  · intro b hb
    have hb' : b + 1 < t.att := hb
    simp only [setAt_at_]
    simpa [hcur b hb'] using ok.past b hb'
  · intro h; simp at h
  · intro _ h
    have : (upd t.at_ t.cur { t.at_ t.cur with decided := 2 } t.cur).decided = 0 := h
    simp at this
  · intro _ _; simp [TPc.preDecide]
  · intro _; show (upd t.at_ t.cur { t.at_ t.cur with decided := 2 } t.cur).decided = 2; simp
  · intro h; simp at h
  · intro _ h
    have : (upd t.at_ t.cur { t.at_ t.cur with decided := 2 } t.cur).decided = 1 := h
    simp at this
  · intro _ _ h; exact absurd rfl h
  · intro _ h; simp [TPc.post] at h
  · intro h; simp at h
  · intro h; simp at h
  · intro h; simp [TPc.fin] at h
  · intro h; simp at h
  · intro h; simp [TPc.fin] at h
  · intro _ _; exact ok.onErr0 (by simp [hp]) (by simp [hp, TPc.fin])
  · intro h; simp at h

/-- a new attempt begins: context.WithTimeout, fresh doneChan / decided flag -/
theorem ok_begin {t : Task} (ok : TaskOK t) (hp : t.pc = .loopTest) (hlt : t.att < t.R) (d b : Nat) (cd : Bool) :
    TaskOK { (t.setAt t.att { deadline := d, beginAt := b, ctxDone := cd }) with pc := .sendCl, att := t.att + 1 } := by
  have hnw := no_write ok (by simp [hp, TPc.waiting])
  have hcur' : ({ (t.setAt t.att { deadline := d, beginAt := b, ctxDone := cd }) with pc := .sendCl, att := t.att + 1 } : Task).cur = t.att := by
    simp [Task.cur]
  refine
    { r_pos := ok.r_pos, att_le := ?_, atts := ?_, beyond := ?_, inv_eq := ?_, pre0 := ?_,
      att_pos := ?_, writeW := ?_, past := ?_, sendCl := ?_, dec0 := ?_, dec2 := ?_, wDE := ?_,
      wDone := ?_, pub1 := ?_, pub2 := ?_, ctxd := ?_, errLoop := ?_, errOn := ?_, errFin := ?_,
      onErrD := ?_, onErrF := ?_, onErr0 := ?_, gotD := ?_ }
  · show t.att + 1 ≤ t.R; omega
  · intro a
    show AttOK (upd t.at_ t.att _ a)
    by_cases ha : a = t.att
    · subst ha; simpa using attOK_fresh d b cd
    · simpa [ha] using ok.atts a
  · intro a ha
    have ha' : t.att + 1 ≤ a := ha
    show upd t.at_ t.att _ a = {}
    have : a ≠ t.att := by omega
    simpa [this] using ok.beyond a (by omega)
  · show t.inv = sumStarts (upd t.at_ t.att _) (t.att + 1)
    simp only [sumStarts, upd_same]
    rw [sumStarts_upd_ge _ _ _ _ (Nat.le_refl _)]
    have := ok.inv_eq
    simpa using this
  · intro h; simp [TPc.pre] at h
  · intro _ _; show 1 ≤ t.att + 1; omega
  · intro a ha
    have ha' : (upd t.at_ t.att { deadline := d, beginAt := b, ctxDone := cd } a).pc.isWrite = true := ha
    by_cases hat : a = t.att
    · subst hat; simp [CPc.isWrite] at ha'
    · simp [hat, hnw a] at ha'
  · intro a ha
    have ha' : a + 1 < t.att + 1 := ha
    have hne : a ≠ t.att := by omega
    simp only [setAt_at_, upd_other _ _ _ _ hne]
    by_cases hlast : a + 1 < t.att
    · exact ok.past a hlast
    · have hatt : 1 ≤ t.att := by omega
      have hc : t.cur = a := by simp [Task.cur]; omega
      have ax := ok.atts a
      have h0 := ok.dec0 hatt
      have hctx := ok.ctxd hatt (by simp [hp, TPc.post])
      have hpub := ok.pub1 hatt
      have herr := ok.errLoop hp hatt
      rw [hc] at h0 hctx hpub
      refine ⟨?_, hctx, ?_⟩
      · intro h; have := h0 h; simp [hp, TPc.preDecide] at this
      · intro h1
        have hac := (ax.2.2.2.1 h1).2.2
        have hf : (t.at_ a).pc.fin = true := by
          have := hnw a
          cases hpc : (t.at_ a).pc <;> simp_all [CPc.afterCas, CPc.isWrite, CPc.fin]
        exact ⟨t.result, t.err, hpub h1 hf, herr⟩
  · intro _
    rw [hcur']
    show (upd t.at_ t.att { deadline := d, beginAt := b, ctxDone := cd } t.att).pc = .none ∧ (upd t.at_ t.att { deadline := d, beginAt := b, ctxDone := cd } t.att).decided = 0
    simp
  · intro _ _; simp [TPc.preDecide]
  · intro _ h
    rw [hcur'] at h
    have : (upd t.at_ t.att { deadline := d, beginAt := b, ctxDone := cd } t.att).decided = 2 := h
    simp at this
  · intro h; simp at h
  · intro h; simp at h
  · intro _ h
    rw [hcur'] at h
    have : (upd t.at_ t.att { deadline := d, beginAt := b, ctxDone := cd } t.att).decided = 1 := h
    simp at this
  · intro _ h
    rw [hcur'] at h
    have : (upd t.at_ t.att { deadline := d, beginAt := b, ctxDone := cd } t.att).decided = 2 := h
    simp at this
  · intro _ h; simp [TPc.post] at h
  · intro h; simp at h
  · intro h; simp at h
  · intro h; simp [TPc.fin] at h
  · intro h; simp at h
  · intro h; simp [TPc.fin] at h
  · intro _ _; exact ok.onErr0 (by simp [hp]) (by simp [hp, TPc.fin])
  · intro h; simp at h

theorem ok_writeDE {c : Cfg} {now qlen k : Nat} {t t' : Task} (ok : TaskOK t)
    (h : tstep c now qlen t (.writeDE k) = some t') : TaskOK t' := by
  simp only [tstep] at h
  split at h <;> cases h
  rename_i hp
  have hnw := no_write ok (by simp [hp, TPc.waiting])
  obtain ⟨h1, h2, h3, h4, h5, h6, h7, h8, h9, h10, h11, h12, h13, h14, h15, h16, h17, h18, h19, h20, h21, h22, h23, h24⟩ := ok
  clear h8
  ants_pc

theorem ok_waitDone {c : Cfg} {now qlen k : Nat} {t t' : Task} (ok : TaskOK t)
    (h : tstep c now qlen t (.waitDone k) = some t') : TaskOK t' := by
  simp only [tstep] at h
  split at h <;> cases h
  rename_i hp
  have hcl := (ok.atts t.cur).1.1 hp.2
  have hnw := no_write_cur ok (by rw [hcl]; rfl)
  obtain ⟨h1, h2, h3, h4, h5, h6, h7, h8, h9, h10, h11, h12, h13, h14, h15, h16, h17, h18, h19, h20, h21, h22, h23, h24⟩ := ok
  clear h8
  ants_pc

theorem ok_decide {c : Cfg} {now qlen k : Nat} {t t' : Task} (ok : TaskOK t)
    (h : tstep c now qlen t (.decide k) = some t') : TaskOK t' := by
  simp only [tstep] at h
  split at h
  · rename_i hp
    split at h
    · cases h; rename_i hd; exact ok_decide_win ok hp hd
    · cases h
      rename_i hd
      have hle := (ok.atts t.cur).2.2.2.2.2.1
      obtain ⟨h1, h2, h3, h4, h5, h6, h7, h8, h9, h10, h11, h12, h13, h14, h15, h16, h17, h18, h19, h20, h21, h22, h23, h24⟩ := ok
      ants_pc
  · cases h

theorem ok_loopTest {c : Cfg} {now qlen k : Nat} {t t' : Task} (ok : TaskOK t)
    (h : tstep c now qlen t (.loopTest k) = some t') : TaskOK t' := by
  simp only [tstep] at h
  split at h
  · rename_i hp
    split at h
    · cases h; rename_i hl; exact ok_begin ok hp hl _ _ _
    · cases h
      rename_i hl
      obtain ⟨h1, h2, h3, h4, h5, h6, h7, h8, h9, h10, h11, h12, h13, h14, h15, h16, h17, h18, h19, h20, h21, h22, h23, h24⟩ := ok
      ants_pc
  · cases h

theorem ok_sendCl {c : Cfg} {now qlen k : Nat} {t t' : Task} (ok : TaskOK t)
    (h : tstep c now qlen t (.sendCl k) = some t') : TaskOK t' := by
  simp only [tstep] at h
  split at h <;> cases h
  rename_i hp
  have hatt : 1 ≤ t.att := ok.att_pos (by simp [hp.1, TPc.pre]) (by simp [hp.1])
  -- first move the pc, then enqueue the closure
  have okA : TaskOK { t with pc := .hook3 } := by
    have hp1 := hp.1
    obtain ⟨h1, h2, h3, h4, h5, h6, h7, h8, h9, h10, h11, h12, h13, h14, h15, h16, h17, h18, h19, h20, h21, h22, h23, h24⟩ := ok
    ants_pc
  have hc : ({ t with pc := .hook3 } : Task).cur = t.cur := rfl
  have ax := ok.atts t.cur
  have hcu := ok_cur okA (a := t.cur) (by show t.cur + 1 = t.att; simp [Task.cur]; omega)
  have hd := (ok.sendCl hp.1).2
  refine ok_setAt okA t.cur _ t.result t.err t.inv ?_ (by show t.cur < t.att; simp [Task.cur]; omega) ?_ ?_ ?_ ?_
    (fun _ => ⟨rfl, rfl⟩) (fun _ => ⟨rfl, rfl⟩)
  all_goals simp_all [AttOK, CPc.isWrite, CPc.fin, CPc.afterCas, CPc.pair?, CPc.live, CPc.started, TPc.preDecide, TPc.post, Task.cur]
  all_goals (try omega)
  all_goals (try (intro _; omega))

theorem ok_cancel {c : Cfg} {now qlen k : Nat} {t t' : Task} (ok : TaskOK t)
    (h : tstep c now qlen t (.cancel k) = some t') : TaskOK t' := by
  simp only [tstep] at h
  split at h <;> cases h
  rename_i hp
  have hatt : 1 ≤ t.att := ok.att_pos (by simp [hp, TPc.pre]) (by simp [hp])
  have ax := ok.atts t.cur
  have hw := ok.writeW t.cur
  have hcu := ok_cur ok (a := t.cur) (by simp [Task.cur]; omega)
  have okA : TaskOK (t.setAt t.cur { t.at_ t.cur with ctxDone := true }) := by
    refine ok_setAt ok t.cur _ t.result t.err t.inv ?_ (by simp [Task.cur]; omega) ?_ ?_ ?_ ?_
      (fun _ => ⟨rfl, rfl⟩) (fun _ => ⟨rfl, rfl⟩)
    all_goals simp_all [AttOK, Task.cur]
    all_goals (first | exact ax.2.1 | (intro _; omega) | omega)
  have hctx : ((t.setAt t.cur { t.at_ t.cur with ctxDone := true }).at_ (t.setAt t.cur { t.at_ t.cur with ctxDone := true }).cur).ctxDone = true := by
    show (upd t.at_ t.cur _ t.cur).ctxDone = true
    simp
  have hpA : (t.setAt t.cur { t.at_ t.cur with ctxDone := true }).pc = .cancel := hp
  generalize (t.setAt t.cur { t.at_ t.cur with ctxDone := true }) = u at okA hctx hpA ⊢
  have hnw := no_write okA (by simp [hpA, TPc.waiting])
  obtain ⟨h1, h2, h3, h4, h5, h6, h7, h8, h9, h10, h11, h12, h13, h14, h15, h16, h17, h18, h19, h20, h21, h22, h23, h24⟩ := okA
  clear h8
  ants_pc

theorem ok_fire {c : Cfg} {now qlen k a : Nat} {t t' : Task} (ok : TaskOK t)
    (h : tstep c now qlen t (.fire k a) = some t') : TaskOK t' := by
  simp only [tstep] at h
  split at h <;> cases h
  rename_i hg
  have ax := ok.atts a
  have hw := ok.writeW a
  have hpa := ok.past a
  have hcu := fun h => ok_cur ok (a := a) h
  refine ok_setAt ok a _ t.result t.err t.inv ?_ hg.1 ?_ ?_ ?_ ?_ (fun _ => ⟨rfl, rfl⟩) (fun _ => ⟨rfl, rfl⟩)
  all_goals simp_all [AttOK]
  all_goals (first | exact ax.2.1 | (intro _; omega) | omega)



/-- every task-local transition of the current code preserves the per-task invariant -/
theorem tstep_ok {c : Cfg} (hc : c.old = false) {now qlen : Nat} {t t' : Task} {act : Act} (ok : TaskOK t)
    (h : tstep c now qlen t act = some t') : TaskOK t' := by
  cases act with
  | send k o => exact ok_send hc ok h
  | busyTest k => exact ok_busyTest (o := default) hc ok h
  | discardCb k => exact ok_discardCb (o := default) hc ok h
  | enq k => exact ok_enq (o := default) hc ok h
  | take k => exact ok_take (o := default) hc ok h
  | loopTest k => exact ok_loopTest ok h
  | sendCl k => exact ok_sendCl ok h
  | hook3 k => exact ok_hook3 (o := default) hc ok h
  | selDone k => exact ok_selDone (o := default) hc ok h
  | selCtx k => exact ok_selCtx (o := default) hc ok h
  | hook2 k => exact ok_hook2 (o := default) hc ok h
  | decide k => exact ok_decide ok h
  | writeDE k => exact ok_writeDE ok h
  | waitDone k => exact ok_waitDone ok h
  | cancel k => exact ok_cancel ok h
  | errTest k => exact ok_errTest (o := default) hc ok h
  | onError k => exact ok_onError (o := default) hc ok h
  | wgDone k => exact ok_wgDone (o := default) hc ok h
  | fire k a => exact ok_fire ok h
  | wTake k a w => exact ok_wTake (v := 0) (hon := true) (e := .nil) hc ok h
  | wStart k a hon => exact ok_wStart (w := 0) (v := 0) (e := .nil) hc ok h
  | wEnd k a v e => exact ok_wEnd (w := 0) (hon := true) hc ok h
  | wCheck k a => exact ok_wCheck (w := 0) (v := 0) (hon := true) (e := .nil) hc ok h
  | hook1 k a => exact ok_hook1 (w := 0) (v := 0) (hon := true) (e := .nil) hc ok h
  | wCas k a => exact ok_wCas (w := 0) (v := 0) (hon := true) (e := .nil) hc ok h
  | hook4 k a => exact ok_hook4 (w := 0) (v := 0) (hon := true) (e := .nil) hc ok h
  | wWrite k a => exact ok_wWrite (w := 0) (v := 0) (hon := true) (e := .nil) hc ok h
  | wClose k a => exact ok_wClose (w := 0) (v := 0) (hon := true) (e := .nil) hc ok h
  | advance t => simp [tstep] at h

/-- how a global step changes the task map -/
theorem step_task {c : Cfg} {s s2 : State} {act : Act} (h : step c s act = some s2) :
    (∃ t, act = .advance t ∧ s2.task = s.task) ∨
    (∃ t', tstep c s.now s.taskQ.length (s.task act.task) act = some t' ∧ s2.task = upd s.task act.task t') := by
  cases act
  case advance t =>
    left
    simp only [step] at h
    split at h
    · cases h; exact ⟨t, rfl, rfl⟩
    · cases h
  all_goals
    right
    simp only [step] at h
    split at h
    · cases h
    · rename_i t' ht
      refine ⟨t', ht, ?_⟩
      (repeat' split at h) <;> first | (cases h; rfl) | cases h

def Inv (s : State) : Prop := ∀ k, TaskOK (s.task k)

theorem inv_init : Inv init := fun _ => taskOK_default

theorem inv_step {c : Cfg} (hc : c.old = false) {s s2 : State} {act : Act} (hi : Inv s)
    (h : step c s act = some s2) : Inv s2 := by
  intro k
  rcases step_task h with ⟨_, _, ht⟩ | ⟨t', ht, hs⟩
  · rw [ht]; exact hi k
  · rw [hs]
    by_cases hk : k = act.task
    · subst hk; simp only [upd_same]; exact tstep_ok hc (hi _) ht
    · simp only [upd_other _ _ _ _ hk]; exact hi k

theorem inv_run {c : Cfg} (hc : c.old = false) {acts : List Act} {s s2 : State} (hi : Inv s)
    (h : run c s acts = some s2) : Inv s2 := by
  induction acts generalizing s with
  | nil => simp [run] at h; subst h; exact hi
  | cons a rest ih =>
    simp only [run] at h
    split at h
    · cases h
    · rename_i s1 hs; exact ih (inv_step hc hi hs) h

theorem inv_reachable {c : Cfg} (hc : c.old = false) {s : State} (h : Reachable c s) : Inv s := by
  obtain ⟨acts, ha⟩ := h
  exact inv_run hc inv_init ha

/-! ### a finished task is frozen -/
def Frozen (t t' : Task) : Prop :=
  t'.pc = t.pc ∧ t'.result = t.result ∧ t'.err = t.err ∧ t'.onErr = t.onErr ∧ t'.got = t.got ∧ t'.att = t.att ∧
    t'.R = t.R ∧ t'.inv ≥ t.inv

theorem tstep_frozen {c : Cfg} {now qlen : Nat} {t t' : Task} {act : Act} (ok : TaskOK t)
    (hp : t.pc = .done ∨ t.pc = .discarded) (h : tstep c now qlen t act = some t') : Frozen t t' := by
  have hnw := no_write ok (by rcases hp with hp | hp <;> simp [hp, TPc.waiting])
  cases act <;> simp only [tstep] at h <;> (repeat' split at h) <;> (try cases h) <;>
    (first
      | (rcases hp with hp | hp <;> simp_all [Frozen] ; done)
      | (simp [Frozen, Task.setAt])
      | skip)
  all_goals
    rename_i a _ _ _ _ heq
    have := hnw a
    simp [heq, CPc.isWrite] at this

theorem step_frozen {c : Cfg} {s s2 : State} {act : Act} (hi : Inv s) (k : Nat)
    (hp : (s.task k).pc = .done ∨ (s.task k).pc = .discarded) (h : step c s act = some s2) :
    Frozen (s.task k) (s2.task k) := by
  rcases step_task h with ⟨_, _, ht⟩ | ⟨t', ht, hs⟩
  · rw [ht]; simp [Frozen]
  · rw [hs]
    by_cases hk : k = act.task
    · subst hk; simp only [upd_same]; exact tstep_frozen (hi _) hp ht
    · simp only [upd_other _ _ _ _ hk]; simp [Frozen]

theorem frozen_trans {a b c : Task} (h1 : Frozen a b) (h2 : Frozen b c) : Frozen a c := by
  obtain ⟨a1, a2, a3, a4, a5, a6, a7, a8⟩ := h1
  obtain ⟨b1, b2, b3, b4, b5, b6, b7, b8⟩ := h2
  refine ⟨by rw [b1, a1], by rw [b2, a2], by rw [b3, a3], by rw [b4, a4], by rw [b5, a5], by rw [b6, a6], by rw [b7, a7], by omega⟩

theorem run_frozen {c : Cfg} (hc : c.old = false) {acts : List Act} {s s2 : State} (hi : Inv s) (k : Nat)
    (hp : (s.task k).pc = .done ∨ (s.task k).pc = .discarded) (h : run c s acts = some s2) :
    Frozen (s.task k) (s2.task k) := by
  induction acts generalizing s with
  | nil => simp [run] at h; subst h; simp [Frozen]
  | cons a rest ih =>
    simp only [run] at h
    split at h
    · cases h
    · rename_i s1 hs
      have f1 := step_frozen hi k hp hs
      have hp1 : (s1.task k).pc = .done ∨ (s1.task k).pc = .discarded := by rw [f1.1]; exact hp
      exact frozen_trans f1 (ih (inv_step hc hi hs) hp1 h)

end Got.Model.Ants
