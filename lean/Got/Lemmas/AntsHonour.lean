import Got.Lemmas.AntsQueues
/- ants model: if every handler honours cancellation and N ≥ 1, no closure-send waits across a clock step
   (the lemma behind C08_bound_honour) -/
namespace Got.Model.Ants
set_option linter.unusedVariables false
set_option linter.unusedSimpArgs false

/-! ### counting -/
theorem countP_le_succ_of_nodup (l : List Nat) (hn : l.Nodup) (p q : Nat → Bool) (k : Nat)
    (h : ∀ x, x ∈ l → x ≠ k → q x = true → p x = true) : l.countP q ≤ l.countP p + 1 := by
  induction l with
  | nil => simp
  | cons a l ih =>
    obtain ⟨ha, hl⟩ := List.nodup_cons.mp hn
    simp only [List.countP_cons]
    by_cases hak : a = k
    · subst hak
      have : l.countP q ≤ l.countP p :=
        List.countP_mono_left (fun x hx hq => h x (List.mem_cons_of_mem _ hx) (by intro e; subst e; exact ha hx) hq)
      split <;> split <;> omega
    · have ih' := ih hl (fun x hx => h x (List.mem_cons_of_mem _ hx))
      have ha' := h a (List.mem_cons_self) hak
      by_cases hq : q a = true
      · simp [hq, ha' hq]; omega
      · simp [hq]; split <;> omega

theorem countP_erase_mem (l : List Nat) (p : Nat → Bool) (x : Nat) (hx : x ∈ l) (hp : p x = true) :
    l.countP p = (l.erase x).countP p + 1 := by
  induction l with
  | nil => cases hx
  | cons a l ih =>
    by_cases hax : a = x
    · subst hax; simp [List.countP_cons, hp]
    · have hx' : x ∈ l := by
        rcases List.mem_cons.mp hx with e | e
        · exact absurd e.symm hax
        · exact e
      have : (a :: l).erase x = a :: l.erase x := by simp [List.erase_cons, hax]
      rw [this]
      simp only [List.countP_cons]
      rw [ih hx']
      omega

/-- pigeonhole: n distinct members of l satisfying p -/
theorem countP_ge_of_inj (n : Nat) (f : Nat → Nat) (l : List Nat) (p : Nat → Bool)
    (hm : ∀ w, w < n → f w ∈ l ∧ p (f w) = true)
    (hinj : ∀ w w', w < n → w' < n → f w = f w' → w = w') : n ≤ l.countP p := by
  induction n generalizing l with
  | zero => omega
  | succ n ih =>
    obtain ⟨hx, hpx⟩ := hm n (by omega)
    have hne : ∀ w, w < n → f w ≠ f n := by
      intro w hw e; have := hinj w n (by omega) (by omega) e; omega
    have := ih (l.erase (f n))
      (fun w hw => ⟨(List.mem_erase_of_ne (hne w hw)).mpr (hm w (by omega)).1, (hm w (by omega)).2⟩)
      (fun w w' hw hw' e => hinj w w' (by omega) (by omega) e)
    rw [countP_erase_mem l p (f n) hx hpx]
    omega

/-! ### the list of task ids -/
structure TasksInv (s : State) : Prop where
  pcs : ∀ k, k ∈ s.tasks → (s.task k).pc ≠ .none
  nd : s.tasks.Nodup

theorem tasksInv_init : TasksInv init := by
  constructor <;> simp [init]

theorem tstep_pc_ne_none {c : Cfg} {now qlen : Nat} {t t' : Task} {act : Act} (ok : TaskOK t)
    (h : tstep c now qlen t act = some t') : t'.pc ≠ .none ∧ (t.pc = .none → ∃ k o, act = .send k o) := by
  have hbe : t.pc = .none → ∀ a, t.at_ a = {} := by
    intro hp a; exact ok.beyond a (by rw [ok.pre0 (by simp [hp, TPc.pre])]; omega)
  have h0 : t.pc = .none → t.att = 0 := fun hp => ok.pre0 (by simp [hp, TPc.pre])
  cases act <;> simp only [tstep] at h <;> (repeat' split at h) <;> (try cases h) <;>
    (constructor <;> (try intro hp) <;> (try have hx := hbe hp) <;> (try have hy := h0 hp) <;>
      simp_all [Task.setAt])

theorem step_tasks2 {c : Cfg} {s s2 : State} {act : Act} (h : step c s act = some s2) :
    (∃ k o, act = .send k o ∧ s2.tasks = s.tasks ++ [k]) ∨ s2.tasks = s.tasks := by
  cases act <;> simp only [step] at h <;> (repeat' split at h) <;> (try cases h) <;>
    first | exact Or.inr rfl | exact Or.inl ⟨_, _, rfl, rfl⟩

theorem tasksInv_step {c : Cfg} {s s2 : State} {act : Act} (hinv : Inv s) (ht : TasksInv s)
    (h : step c s act = some s2) : TasksInv s2 := by
  rcases step_task h with ⟨t, rfl, hta⟩ | ⟨t', hts, hst⟩
  · simp only [step] at h
    split at h
    · cases h; exact ⟨ht.pcs, ht.nd⟩
    · cases h
  have hpc := tstep_pc_ne_none (hinv act.task) hts
  rcases step_tasks2 h with ⟨k, o, rfl, e⟩ | e
  · have hk : (Act.send k o).task = k := rfl
    rw [hk] at hst hpc hts
    have hnone : (s.task k).pc = .none := by
      simp only [tstep] at hts
      by_cases hp : (s.task k).pc = .none
      · exact hp
      · simp [hp] at hts
    have hnot : k ∉ s.tasks := fun hm => ht.pcs k hm hnone
    constructor
    · intro k' hk'
      rw [e] at hk'; rw [hst]
      by_cases hkk : k' = k
      · subst hkk; simp only [upd_same]; exact hpc.1
      · simp only [upd_other _ _ _ _ hkk]
        rcases List.mem_append.mp hk' with h1 | h1
        · exact ht.pcs k' h1
        · simp at h1; exact absurd h1 hkk
    · rw [e]
      exact List.nodup_append.mpr ⟨ht.nd, by simp, by
        intro a ha b hb; simp at hb; subst hb; intro e; subst e; exact hnot ha⟩
  · constructor
    · intro k' hk'
      rw [e] at hk'; rw [hst]
      by_cases hkk : k' = act.task
      · subst hkk; simp only [upd_same]; exact hpc.1
      · simp only [upd_other _ _ _ _ hkk]; exact ht.pcs k' hk'
    · rw [e]; exact ht.nd

/-! ### at most N dispatchers are inside `task.run` -/
theorem dispatching_eq (s : State) : dispatching s = s.tasks.countP (fun k => (s.task k).pc.dispatching) := by
  simp [dispatching, List.countP_eq_length_filter]

theorem tstep_disp {c : Cfg} {now qlen : Nat} {t t' : Task} {act : Act} (hn : ∀ k, act ≠ .take k)
    (h : tstep c now qlen t act = some t') : t'.pc.dispatching = true → t.pc.dispatching = true := by
  cases act <;> simp only [tstep] at h <;> (repeat' split at h) <;> (try cases h) <;>
    simp_all [Task.setAt, TPc.dispatching]

theorem step_take_guard {c : Cfg} {s s2 : State} {k : Nat} (h : step c s (.take k) = some s2) :
    dispatching s < c.N ∧ s2.tasks = s.tasks := by
  simp only [step] at h
  split at h
  · cases h
  · split at h
    · rename_i k' rest hq
      by_cases hg : k' = (Act.take k).task ∧ dispatching s < c.N
      · simp only [hg, and_self, ↓reduceIte, Option.some.injEq] at h
        subst h
        exact ⟨hg.2, rfl⟩
      · simp [hg] at h
    · cases h

theorem disp_step {c : Cfg} {s s2 : State} {act : Act} (hinv : Inv s) (ht : TasksInv s)
    (hd : dispatching s ≤ c.N) (h : step c s act = some s2) : dispatching s2 ≤ c.N := by
  rw [dispatching_eq] at hd ⊢
  rcases step_task h with ⟨t, rfl, hta⟩ | ⟨t', hts, hst⟩
  · simp only [step] at h
    split at h
    · cases h; exact hd
    · cases h
  by_cases htk : ∃ k, act = .take k
  · obtain ⟨k, rfl⟩ := htk
    obtain ⟨hg, e⟩ := step_take_guard h
    rw [dispatching_eq] at hg
    rw [e]
    have := countP_le_succ_of_nodup s.tasks ht.nd (fun k => (s.task k).pc.dispatching)
      (fun k => (s2.task k).pc.dispatching) k
      (fun x _ hx hq => by rw [hst] at hq; simpa [show x ≠ (Act.take k).task from hx] using hq)
    omega
  · have hn : ∀ k, act ≠ .take k := fun k e => htk ⟨k, e⟩
    have hmono : ∀ x, (s2.task x).pc.dispatching = true → (s.task x).pc.dispatching = true := by
      intro x hq
      rw [hst] at hq
      by_cases hx : x = act.task
      · subst hx; simp only [upd_same] at hq; exact tstep_disp hn hts hq
      · simpa [hx] using hq
    rcases step_tasks2 h with ⟨k, o, rfl, e⟩ | e
    · rw [e, List.countP_append]
      have h1 : s.tasks.countP (fun k => (s2.task k).pc.dispatching) ≤ s.tasks.countP (fun k => (s.task k).pc.dispatching) :=
        List.countP_mono_left (fun x _ hq => hmono x hq)
      have h2 : (s2.task k).pc.dispatching = false := by
        rw [hst]
        have hk : (Act.send k o).task = k := rfl
        rw [hk]; simp only [upd_same]
        simp only [tstep] at hts
        by_cases hp : (s.task (Act.send k o).task).pc = .none
        · simp only [hp, ↓reduceIte, Option.some.injEq] at hts
          subst hts; rfl
        · simp [hp] at hts
      simp [h2]
      omega
    · rw [e]
      have h1 : s.tasks.countP (fun k => (s2.task k).pc.dispatching) ≤ s.tasks.countP (fun k => (s.task k).pc.dispatching) :=
        List.countP_mono_left (fun x _ hq => hmono x hq)
      omega

/-! ### all handlers honour cancellation -/
def honourAct : Act → Bool
  | .wStart _ _ hon => hon
  | _ => true

def AllHon (s : State) : Prop := ∀ k a w, ((s.task k).at_ a).pc ≠ .running w false

theorem tstep_hon {c : Cfg} {now qlen : Nat} {t t' : Task} {act : Act} (ha : honourAct act = true)
    (hh : ∀ a w, (t.at_ a).pc ≠ .running w false)
    (h : tstep c now qlen t act = some t') : ∀ a w, (t'.at_ a).pc ≠ .running w false := by
  intro b w
  cases act <;> simp only [tstep] at h <;> (repeat' split at h) <;> (try cases h) <;>
    (first
      | exact hh b w
      | (simp only [Task.setAt, upd]; split <;> simp_all [honourAct]))

theorem allHon_step {c : Cfg} {s s2 : State} {act : Act} (ha : honourAct act = true) (hh : AllHon s)
    (h : step c s act = some s2) : AllHon s2 := by
  intro k a w
  rcases step_task h with ⟨t, rfl, hta⟩ | ⟨t', hts, hst⟩
  · rw [hta]; exact hh k a w
  · rw [hst]
    by_cases hk : k = act.task
    · subst hk; simp only [upd_same]; exact tstep_hon ha (hh _) hts a w
    · simp only [upd_other _ _ _ _ hk]; exact hh k a w

theorem mem_of_cl {s : State} (hs : Supp s) {k a : Nat} (h : ((s.task k).at_ a).pc ≠ .none) : k ∈ s.tasks := by
  apply Classical.byContradiction
  intro hn
  rw [hs k hn] at h
  exact h rfl

theorem cl_mem {c : Cfg} {s : State} {k a : Nat} {act : Act} (ha : a < (s.task k).att)
    (h : act ∈ (match ((s.task k).at_ a).pc with
     | .queued => (List.range c.N).map fun w => Act.wTake k a w
     | .taken _ => [.wStart k a true]
     | .returned _ _ _ => [.wCheck k a]
     | .hook1 _ _ _ => [.hook1 k a]
     | .cas _ _ _ => [.wCas k a]
     | .hook4 _ _ _ => [.hook4 k a]
     | .write _ _ _ => [.wWrite k a]
     | .closing _ => [.wClose k a]
     | _ => ([] : List Act))) : act ∈ taskActs c s k := by
  simp only [taskActs, List.mem_append, List.mem_flatMap, List.mem_range]
  exact Or.inr ⟨a, ha, Or.inr h⟩

/-- in a quiescent state with honouring handlers, an occupied inner-worker slot runs the live current attempt of a
    task that is being dispatched -/
theorem busy_slot {c : Cfg} {s : State} (hinv : Inv s) (hsl : SlotInv c s) (hsup : Supp s) (hh : AllHon s)
    (hqu : quiescent c s = true) {w kw aw : Nat} (hs : s.slot w = some (kw, aw)) :
    kw ∈ s.tasks ∧ aw + 1 = (s.task kw).att ∧ (s.task kw).pc.dispatching = true ∧ (s.task kw).pc ≠ .sendCl := by
  have hb := hsl.back w kw aw hs
  have hne : ((s.task kw).at_ aw).pc ≠ .none := by intro h; rw [h] at hb; cases hb
  have hk := mem_of_cl hsup hne
  have ok := hinv kw
  have hlt := lt_of_pc ok hne
  have hqn := fun act (hm : act ∈ taskActs c s kw) => quiescent_none hqu hk hm
  -- the closure is inside its handler
  have hrun : ∃ w', ((s.task kw).at_ aw).pc = .running w' true := by
    cases hpc : ((s.task kw).at_ aw).pc <;> simp [hpc, CPc.slot?] at hb
    · have := hqn (.wStart kw aw true) (cl_mem hlt (by rw [hpc]; simp))
      simp [step, tstep, hpc, Act.task] at this
    · rename_i w' hon
      cases hon
      · exact absurd hpc (hh kw aw w')
      · exact ⟨w', rfl⟩
    · have := tstep_none_of_step (act := .wCheck kw aw) rfl (hqn _ (cl_mem hlt (by rw [hpc]; simp)))
      by_cases hx : ((s.task kw).at_ aw).ctxDone = true <;> simp [tstep, hpc, Act.task, hx] at this
    · have := tstep_none_of_step (act := .hook1 kw aw) rfl (hqn _ (cl_mem hlt (by rw [hpc]; simp)))
      simp [tstep, hpc, Act.task] at this
    · have := tstep_none_of_step (act := .wCas kw aw) rfl (hqn _ (cl_mem hlt (by rw [hpc]; simp)))
      by_cases hx : ((s.task kw).at_ aw).decided = 0 <;> simp [tstep, hpc, Act.task, hx] at this
    · have := tstep_none_of_step (act := .hook4 kw aw) rfl (hqn _ (cl_mem hlt (by rw [hpc]; simp)))
      simp [tstep, hpc, Act.task] at this
    · have := tstep_none_of_step (act := .wWrite kw aw) rfl (hqn _ (cl_mem hlt (by rw [hpc]; simp)))
      simp [tstep, hpc, Act.task] at this
    · have := hqn (.wClose kw aw) (cl_mem hlt (by rw [hpc]; simp))
      simp [step, tstep, hpc, Act.task, CPc.slot?] at this
  obtain ⟨w', hpc⟩ := hrun
  -- its context is not done (no honouring handler is overdue in a quiescent state)
  have hctx : ((s.task kw).at_ aw).ctxDone = false := by
    simp only [quiescent, Bool.and_eq_true, Bool.not_eq_true'] at hqu
    have := hqu.2
    simp only [overdueHandler, List.any_eq_false] at this
    have := this kw hk
    cases hcd : ((s.task kw).at_ aw).ctxDone
    · rfl
    · exfalso
      apply this
      rw [List.any_eq_true]
      exact ⟨aw, List.mem_range.mpr hlt, by simp [hpc, hcd]⟩
  have hcur : aw + 1 = (s.task kw).att := by
    apply Classical.byContradiction
    intro hn
    have := (ok.past aw (by omega)).2.1
    rw [hctx] at this; cases this
  have hc : (s.task kw).cur = aw := by simp [Task.cur]; omega
  have hpost : (s.task kw).pc.post = false := by
    cases hp : (s.task kw).pc.post
    · rfl
    · have := ok.ctxd (by omega) hp
      rw [hc, hctx] at this; cases this
  have hpre : (s.task kw).pc.pre = false := by
    cases hp : (s.task kw).pc.pre
    · rfl
    · have := ok.pre0 hp; omega
  have hns : (s.task kw).pc ≠ .sendCl := by
    intro hp
    have := (ok.sendCl hp).1
    rw [hc, hpc] at this; cases this
  refine ⟨hk, hcur, ?_, hns⟩
  cases hp : (s.task kw).pc <;> simp_all [TPc.post, TPc.pre, TPc.dispatching]

/-- the missing lemma of C08_bound_partial: with N ≥ 1 and honouring handlers, in a quiescent state no dispatcher
    is blocked in the closure send -/
theorem no_stall {c : Cfg} {s : State} (hN : 1 ≤ c.N) (hinv : Inv s) (hsl : SlotInv c s) (hq : QueueInv s)
    (hsup : Supp s) (hti : TasksInv s) (hd : dispatching s ≤ c.N) (hh : AllHon s)
    (hqu : quiescent c s = true) (k : Nat) : (s.task k).pc ≠ .sendCl := by
  intro hp
  have hk : k ∈ s.tasks := mem_of_pc hsup (by rw [hp]; simp)
  have hdk : (s.task k).pc.dispatching = true := by rw [hp]; rfl
  -- A: the inner channel is full
  have hA : c.N ≤ s.innerQ.length := by
    have := quiescent_none hqu hk (act := .sendCl k) (own_mem (by rw [hp]; simp))
    have hcl := ((hinv k).sendCl hp).1
    simp [step, tstep, Act.task, hp, hcl] at this
    omega
  obtain ⟨k1, a1, rest, hq1⟩ : ∃ k1 a1 rest, s.innerQ = (k1, a1) :: rest := by
    cases h : s.innerQ with
    | nil => simp [h] at hA; omega
    | cons p rest => exact ⟨p.1, p.2, rest, rfl⟩
  have hpc1 := hq.iq k1 a1 (by rw [hq1]; simp)
  have hk1 : k1 ∈ s.tasks := mem_of_cl hsup (by rw [hpc1]; simp)
  have hlt1 := lt_of_pc (hinv k1) (a := a1) (by rw [hpc1]; simp)
  -- B: every slot is occupied
  have hB : ∀ w, w < c.N → ∃ kw aw, s.slot w = some (kw, aw) := by
    intro w hw
    cases hs : s.slot w with
    | some p => exact ⟨p.1, p.2, rfl⟩
    | none =>
      exfalso
      have := quiescent_none hqu hk1 (act := .wTake k1 a1 w)
        (cl_mem hlt1 (by rw [hpc1]; simp only [List.mem_map, List.mem_range]; exact ⟨w, hw, rfl⟩))
      simp [step, tstep, Act.task, hpc1, hq1, hw, hs] at this
  -- C: pick the task occupying each slot
  let f : Nat → Nat := fun w => ((s.slot w).getD (0, 0)).1
  let g : Nat → Nat := fun w => if w < c.N then f w else k
  have hf : ∀ w, w < c.N → ∃ aw, s.slot w = some (f w, aw) := by
    intro w hw
    obtain ⟨kw, aw, hs⟩ := hB w hw
    exact ⟨aw, by simp [f, hs]⟩
  have hmem : ∀ w, w < c.N + 1 → g w ∈ s.tasks ∧ (fun x => (s.task x).pc.dispatching) (g w) = true := by
    intro w hw
    by_cases hwN : w < c.N
    · obtain ⟨aw, hs⟩ := hf w hwN
      have := busy_slot hinv hsl hsup hh hqu hs
      simp only [g, hwN, ↓reduceIte]
      exact ⟨this.1, this.2.2.1⟩
    · simp only [g, hwN, ↓reduceIte]; exact ⟨hk, hdk⟩
  have hinj : ∀ w w', w < c.N + 1 → w' < c.N + 1 → g w = g w' → w = w' := by
    intro w w' hw hw' e
    by_cases hwN : w < c.N <;> by_cases hwN' : w' < c.N <;> simp only [g, hwN, hwN', ↓reduceIte] at e
    · obtain ⟨aw, hs⟩ := hf w hwN
      obtain ⟨aw', hs'⟩ := hf w' hwN'
      have b1 := busy_slot hinv hsl hsup hh hqu hs
      have b2 := busy_slot hinv hsl hsup hh hqu hs'
      rw [← e] at hs' b2
      have : aw = aw' := by have := b1.2.1; have := b2.2.1; omega
      subst this
      have s1 := hsl.back w _ _ hs
      have s2 := hsl.back w' _ _ hs'
      rw [s1] at s2; cases s2; rfl
    · obtain ⟨aw, hs⟩ := hf w hwN
      have b1 := busy_slot hinv hsl hsup hh hqu hs
      rw [e] at b1; exact absurd hp b1.2.2.2
    · obtain ⟨aw, hs⟩ := hf w' hwN'
      have b1 := busy_slot hinv hsl hsup hh hqu hs
      rw [← e] at b1; exact absurd hp b1.2.2.2
    · omega
  have := countP_ge_of_inj (c.N + 1) g s.tasks (fun x => (s.task x).pc.dispatching) hmem hinj
  rw [dispatching_eq] at hd
  omega

/-! ### executions under maximal progress in which every handler honours cancellation -/
def clockH (c : Cfg) (s : State) : Act → Bool
  | .advance _ => quiescent c s
  | a => honourAct a

/-- like `run`, but the clock moves only in quiescent states (which includes: no honouring handler is overdue) and every
    handler invocation honours cancellation (`wStart … hon` with hon = true) -/
def runH (c : Cfg) (s : State) : List Act → Option State
  | [] => some s
  | a :: rest =>
    if clockH c s a then
      match step c s a with
      | none => none
      | some s' => runH c s' rest
    else none

structure AllInv (c : Cfg) (s : State) : Prop where
  inv : Inv s
  slots : SlotInv c s
  queues : QueueInv s
  supp : Supp s
  tasks : TasksInv s
  disp : dispatching s ≤ c.N
  hon : AllHon s

theorem allInv_init (c : Cfg) : AllInv c init :=
  ⟨inv_init, slotInv_init c, queueInv_init, supp_init, tasksInv_init, by simp [dispatching, init],
    by intro k a w; simp [init]⟩

theorem allInv_step {c : Cfg} (hc : c.old = false) {s s2 : State} {act : Act} (ha : honourAct act = true)
    (hi : AllInv c s) (h : step c s act = some s2) : AllInv c s2 :=
  ⟨inv_step hc hi.inv h, slotInv_step hi.inv hi.slots h, queueInv_step hi.inv hi.queues h, supp_step hi.supp h,
    tasksInv_step hi.inv hi.tasks h, disp_step hi.inv hi.tasks hi.disp h, allHon_step ha hi.hon h⟩

theorem runH_runMP {c : Cfg} (hc : c.old = false) (hN : 1 ≤ c.N) (k : Nat) {acts : List Act} {s s2 : State}
    (hi : AllInv c s) (h : runH c s acts = some s2) : runMP c k s acts = some s2 := by
  induction acts generalizing s with
  | nil => simpa [runH, runMP] using h
  | cons a rest ih =>
    simp only [runH] at h
    split at h
    · rename_i hg
      split at h
      · cases h
      · rename_i s1 hst
        have hha : honourAct a = true := by
          cases a <;> simp_all [clockH, honourAct]
        have hck : clockOK c k s a = true := by
          cases a <;> simp_all [clockH, clockOK]
          exact no_stall hN hi.inv hi.slots hi.queues hi.supp hi.tasks hi.disp hi.hon (by simpa [clockH] using hg) k
        simp only [runMP, hck, ↓reduceIte, hst]
        exact ih (allInv_step hc hha hi hst) h
    · cases h


end Got.Model.Ants
