import Got.Model.Sample
import Got.Lemmas.GoHeap
/-
Lemmas for C20 (core Lean only).
Part 1: validity of the result of `weightedSampling` for ARBITRARY comparisons (loop invariant:
        size = min i m, indices in the heap pairwise distinct and < i).
Part 2: (further below) the result is the top-m set when `less` is a strict total order on distinct keys.
-/
namespace Got.Lemmas.Sample
open Got.Model Got.Model.Sample Got.Lemmas.GoHeap

variable {κ : Type}

/-! ### pigeonhole on lists of naturals (no Mathlib) -/

theorem length_le_of_nodup_lt : ∀ (n : Nat) (l : List Nat), l.Nodup → (∀ x ∈ l, x < n) → l.length ≤ n := by
  intro n
  induction n with
  | zero =>
    intro l _ h
    cases l with
    | nil => simp
    | cons a t => exact absurd (h a (by simp)) (by omega)
  | succ n ih =>
    intro l hnd h
    by_cases hm : n ∈ l
    · have h1 := ih (l.erase n) (hnd.erase n) (fun x hx => by
        have := (hnd.mem_erase_iff).mp hx
        have := h x this.2
        omega)
      rw [List.length_erase_of_mem hm] at h1
      omega
    · have := ih l hnd (fun x hx => by
        have h2 := h x hx
        have : x ≠ n := fun e => hm (e ▸ hx)
        omega)
      omega

/-- a duplicate-free list of `n` naturals below `n` is a permutation of `0..n-1` -/
theorem perm_range_of_nodup : ∀ (n : Nat) (l : List Nat), l.Nodup → (∀ x ∈ l, x < n) → l.length = n →
    l.Perm (List.range n) := by
  intro n
  induction n with
  | zero =>
    intro l _ _ hl
    have : l = [] := List.eq_nil_of_length_eq_zero hl
    subst this
    exact List.Perm.refl _
  | succ n ih =>
    intro l hnd h hl
    have hm : n ∈ l := by
      apply Classical.byContradiction
      intro hm
      have := length_le_of_nodup_lt n l hnd (fun x hx => by
        have h2 := h x hx
        have : x ≠ n := fun e => hm (e ▸ hx)
        omega)
      omega
    have h1 := ih (l.erase n) (hnd.erase n) (fun x hx => by
        have := (hnd.mem_erase_iff).mp hx
        have := h x this.2
        omega) (by rw [List.length_erase_of_mem hm]; omega)
    rw [List.range_succ]
    exact (List.perm_cons_erase hm).trans ((List.Perm.cons n h1).trans (List.perm_append_singleton n _).symm)

/-! ### Part 1: validity for arbitrary comparisons -/

/-- loop invariant before processing index `i` -/
structure Inv (m i : Nat) (h : Array (Item κ)) : Prop where
  size : h.size = min i m
  nodup : (h.toList.map (·.index)).Nodup
  lt : ∀ x ∈ h.toList, x.index < i

theorem inv_init (m : Nat) : Inv (κ := κ) m 0 #[] :=
  ⟨by simp, by simp, by simp⟩

theorem inv_push (less : κ → κ → Bool) (m i : Nat) (h : Array (Item κ)) (k : κ) (hi : Inv m i h) :
    ((GoHeap.push (itemLess less) h ⟨k, i⟩).toList.map (·.index)).Nodup ∧
    (∀ x ∈ (GoHeap.push (itemLess less) h ⟨k, i⟩).toList, x.index < i + 1) := by
  have hp := push_perm (itemLess less) h ⟨k, i⟩
  constructor
  · refine ((hp.map (·.index)).nodup_iff).mpr ?_
    simp only [List.map_cons, List.nodup_cons]
    refine ⟨?_, hi.nodup⟩
    intro hmem
    obtain ⟨x, hx, hxi⟩ := List.mem_map.mp hmem
    have := hi.lt x hx
    omega
  · intro x hx
    rcases List.mem_cons.mp (hp.mem_iff.mp hx) with rfl | hx
    · exact Nat.lt_succ_self _
    · exact Nat.lt_succ_of_lt (hi.lt x hx)

theorem step_inv (less gt : κ → κ → Bool) (m i : Nat) (hm : 1 ≤ m) (h : Array (Item κ)) (k : κ) (hi : Inv m i h) :
    ∃ h', step less gt m h i k = some h' ∧ Inv m (i + 1) h' := by
  unfold step
  by_cases hs : h.size < m
  · rw [if_pos hs]
    obtain ⟨hnd, hlt⟩ := inv_push less m i h k hi
    refine ⟨_, rfl, ⟨?_, hnd, hlt⟩⟩
    rw [push_size, hi.size]
    have := hi.size
    omega
  · rw [if_neg hs]
    have hsz := hi.size
    have hsm : h.size = m := by omega
    have h0 : h[0]? = some (h[0]'(by omega)) := Array.getElem?_eq_getElem (by omega)
    rw [h0]
    simp only []
    by_cases hg : gt k (h[0]'(by omega)).ki = true
    · rw [if_pos hg]
      have hps := push_size (itemLess less) h ⟨k, i⟩
      rw [if_pos (by omega)]
      have hpos : 0 < (GoHeap.push (itemLess less) h ⟨k, i⟩).size := by omega
      rw [pop_eq (itemLess less) _ hpos]
      simp only [Option.map_some]
      refine ⟨_, rfl, ?_⟩
      obtain ⟨hperm, hsize⟩ := pop_perm (itemLess less) _ _ _ (pop_eq (itemLess less) _ hpos)
      obtain ⟨hnd, hlt⟩ := inv_push less m i h k hi
      refine ⟨by omega, ?_, ?_⟩
      · have := ((hperm.map (·.index)).nodup_iff).mpr hnd
        simp only [List.map_cons, List.nodup_cons] at this
        exact this.2
      · intro x hx
        exact hlt x (hperm.mem_iff.mp (List.mem_cons_of_mem _ hx))
    · rw [if_neg hg]
      exact ⟨h, rfl, ⟨by omega, hi.nodup, fun x hx => Nat.lt_succ_of_lt (hi.lt x hx)⟩⟩

theorem loop_inv (less gt : κ → κ → Bool) (m : Nat) (hm : 1 ≤ m) : ∀ (ks : List κ) (i : Nat) (h : Array (Item κ)),
    Inv m i h → ∃ h', loop less gt m h i ks = some h' ∧ Inv m (i + ks.length) h' := by
  intro ks
  induction ks with
  | nil => intro i h hi; exact ⟨h, rfl, hi⟩
  | cons k ks ih =>
    intro i h hi
    obtain ⟨h1, hs, hi1⟩ := step_inv less gt m i hm h k hi
    obtain ⟨h2, hl, hi2⟩ := ih (i + 1) h1 hi1
    refine ⟨h2, ?_, ?_⟩
    · simp only [loop, hs, hl]
    · have : i + (k :: ks).length = i + 1 + ks.length := by simp; omega
      rw [this]; exact hi2

/-- `weightedSampling` on `n` keys with `1 ≤ m ≤ n` returns the indices of a heap satisfying the invariant -/
theorem weightedSampling_ok (less gt : κ → κ → Bool) (m : Nat) (keys : List κ) (h1 : 1 ≤ m) (h2 : m ≤ keys.length) :
    ∃ h, loop less gt m #[] 0 keys = some h ∧ Inv m keys.length h ∧
      weightedSampling less gt (m : Int) keys = .ok (h.toList.map (·.index)) := by
  obtain ⟨h, hl, hi⟩ := loop_inv less gt m h1 keys 0 #[] (inv_init m)
  rw [Nat.zero_add] at hi
  refine ⟨h, hl, hi, ?_⟩
  unfold weightedSampling
  have hn : ¬((keys.length : Int) < (m : Int) ∨ keys.length = 0) := by omega
  rw [if_neg hn, if_neg (by omega)]
  simp only [Int.toNat_natCast, hl]
  unfold readResults
  have hs := hi.size
  rw [if_neg (by omega)]
  rw [List.take_of_length_le (by simp only [Array.length_toList]; omega)]

/-! ### Part 2: strict total order on pairwise distinct keys ⇒ the result is the top-m set -/

/-- `less` is a strict total order on the key type -/
structure StrictTotal (less : κ → κ → Bool) : Prop where
  asymm : ∀ a b, less a b = true → less b a = false
  trans : ∀ a b c, less a b = true → less b c = true → less a c = true
  tri : ∀ a b, less a b = true ∨ a = b ∨ less b a = true

theorem StrictTotal.ntrans {less : κ → κ → Bool} (st : StrictTotal less) (a b c : κ)
    (h1 : less b a = false) (h2 : less c b = false) : less c a = false := by
  cases h : less c a with
  | false => rfl
  | true =>
    rcases st.tri a b with hab | hab | hab
    · rw [st.trans c a b h hab] at h2; cases h2
    · subst hab; rw [h] at h2; cases h2
    · rw [hab] at h1; cases h1

theorem StrictTotal.totalPreorder {less : κ → κ → Bool} (st : StrictTotal less) :
    TotalPreorder (itemLess less) :=
  ⟨fun a b h => st.asymm a.ki b.ki h, fun a b c h1 h2 => st.ntrans a.ki b.ki c.ki h1 h2⟩

theorem key_inj (keys : List κ) (hnd : keys.Nodup) (a b : Nat) (v : κ) (ha : keys[a]? = some v) (hb : keys[b]? = some v) :
    a = b := by
  obtain ⟨hal, _⟩ := List.getElem?_eq_some_iff.mp ha
  exact (List.getElem?_inj hal hnd).mp (by rw [ha, hb])

/-- what the heap holds before processing index `i`: a heap whose items are `(keys[j], j)`, and every index `< i`
    that is NOT in the heap has a key smaller than every key in the heap -/
structure TopInv (less : κ → κ → Bool) (keys : List κ) (i : Nat) (h : Array (Item κ)) : Prop where
  heap : IsHeap (itemLess less) h
  item : ∀ x ∈ h.toList, keys[x.index]? = some x.ki
  excl : ∀ j, j < i → (∀ x ∈ h.toList, x.index ≠ j) → ∀ kj, keys[j]? = some kj → ∀ x ∈ h.toList, less kj x.ki = true

theorem top_init (less : κ → κ → Bool) (keys : List κ) : TopInv less keys 0 #[] :=
  ⟨fun k hk => by simp at hk, by simp, by simp⟩

theorem step_top (less gt : κ → κ → Bool) (st : StrictTotal less) (hgt : ∀ a b, gt a b = less b a)
    (keys : List κ) (hnd : keys.Nodup) (m i : Nat) (hm : 1 ≤ m) (h : Array (Item κ)) (k : κ)
    (hk : keys[i]? = some k) (hi : Inv m i h) (ht : TopInv less keys i h) (h' : Array (Item κ))
    (hs : step less gt m h i k = some h') : TopInv less keys (i + 1) h' := by
  have tp := st.totalPreorder
  unfold step at hs
  by_cases hsz : h.size < m
  · -- the heap is not full: push
    rw [if_pos hsz] at hs
    injection hs with hs
    subst hs
    have hp := push_perm (itemLess less) h ⟨k, i⟩
    refine ⟨push_heap tp h _ ht.heap, ?_, ?_⟩
    · intro x hx
      rcases List.mem_cons.mp (hp.mem_iff.mp hx) with rfl | hx
      · exact hk
      · exact ht.item x hx
    · -- every index < i is in the heap (it holds i items with distinct indices < i), so nothing is excluded
      intro j hj hnot
      exfalso
      have hsize : h.size = i := by have := hi.size; omega
      have hperm := perm_range_of_nodup i (h.toList.map (·.index)) hi.nodup
        (fun x hx => by obtain ⟨y, hy, rfl⟩ := List.mem_map.mp hx; exact hi.lt y hy)
        (by simp only [List.length_map, Array.length_toList, hsize])
      by_cases hji : j = i
      · subst hji
        exact hnot ⟨k, j⟩ (hp.mem_iff.mpr (List.mem_cons_self)) rfl
      · have hjm : j ∈ h.toList.map (·.index) := hperm.mem_iff.mpr (List.mem_range.mpr (by omega))
        obtain ⟨y, hy, hyj⟩ := List.mem_map.mp hjm
        exact hnot y (hp.mem_iff.mpr (List.mem_cons_of_mem _ hy)) hyj
  · rw [if_neg hsz] at hs
    have hsize := hi.size
    have hsm : h.size = m := by omega
    have h0 : h[0]? = some (h[0]'(by omega)) := Array.getElem?_eq_getElem (by omega)
    rw [h0] at hs
    simp only [] at hs
    have htop_mem : (h[0]'(by omega)) ∈ h.toList := Array.getElem_mem_toList _
    have htop_min : ∀ y ∈ h.toList, less y.ki (h[0]'(by omega)).ki = false := by
      intro y hy
      obtain ⟨q, hq, rfl⟩ := List.mem_iff_getElem.mp hy
      rw [Array.getElem_toList]
      exact root_min tp h ht.heap q (by simpa using hq)
    by_cases hg : gt k (h[0]'(by omega)).ki = true
    · -- the new key beats the minimum: push, then pop the minimum
      rw [if_pos hg] at hs
      have hps := push_size (itemLess less) h ⟨k, i⟩
      rw [if_pos (by omega)] at hs
      have hpp := push_perm (itemLess less) h ⟨k, i⟩
      cases hpop : GoHeap.pop (itemLess less) (GoHeap.push (itemLess less) h ⟨k, i⟩) with
      | none => rw [hpop] at hs; cases hs
      | some xb =>
        obtain ⟨x, b⟩ := xb
        rw [hpop] at hs
        simp only [Option.map_some] at hs
        injection hs with hs
        subst hs
        obtain ⟨hbheap, hxmin, hperm, _⟩ := pop_heap tp _ (push_heap tp h _ ht.heap) x b hpop
        have hall : ∀ y, y ∈ x :: b.toList → y = ⟨k, i⟩ ∨ y ∈ h.toList := fun y hy =>
          List.mem_cons.mp (hpp.mem_iff.mp (hperm.mem_iff.mp hy))
        have hitem : ∀ y, y ∈ x :: b.toList → keys[y.index]? = some y.ki := by
          intro y hy
          rcases hall y hy with rfl | hy
          · exact hk
          · exact ht.item y hy
        have hnd' : ((x :: b.toList).map (·.index)).Nodup :=
          ((hperm.map (·.index)).nodup_iff).mpr (((hpp.map (·.index)).nodup_iff).mpr (by
            simp only [List.map_cons, List.nodup_cons]
            refine ⟨?_, hi.nodup⟩
            intro hmem
            obtain ⟨z, hz, hzi⟩ := List.mem_map.mp hmem
            have := hi.lt z hz
            omega))
        have hlk : less (h[0]'(by omega)).ki k = true := by rw [← hgt]; exact hg
        refine ⟨hbheap, fun y hy => hitem y (List.mem_cons_of_mem _ hy), ?_⟩
        intro j hj hnot kj hkj y hy
        by_cases hjx : j = x.index
        · -- the popped item: it was minimal, and keys are distinct
          have hxk : kj = x.ki := by
            have := hitem x (List.mem_cons_self)
            rw [← hjx, hkj] at this
            injection this
          have hmin := hxmin y (hperm.mem_iff.mp (List.mem_cons_of_mem _ hy))
          have hne : y.ki ≠ x.ki := by
            intro he
            have h1 := hitem y (List.mem_cons_of_mem _ hy)
            have h2 := hitem x (List.mem_cons_self)
            rw [he] at h1
            have hidx := key_inj keys hnd _ _ _ h1 h2
            simp only [List.map_cons, List.nodup_cons] at hnd'
            exact hnd'.1 (List.mem_map.mpr ⟨y, hy, hidx⟩)
          rw [hxk]
          rcases st.tri x.ki y.ki with h1 | h1 | h1
          · exact h1
          · exact absurd h1.symm hne
          · rw [show itemLess less y x = less y.ki x.ki from rfl, h1] at hmin; cases hmin
        · -- an index excluded before (it is neither i nor in the old heap)
          have hnot' : ∀ z, z ∈ x :: b.toList → z.index ≠ j := by
            intro z hz
            rcases List.mem_cons.mp hz with rfl | hz
            · exact fun e => hjx e.symm
            · exact hnot z hz
          have hji : j ≠ i := by
            intro e
            have hmem : (⟨k, i⟩ : Item κ) ∈ x :: b.toList := hperm.mem_iff.mpr (hpp.mem_iff.mpr (List.mem_cons_self))
            exact hnot' _ hmem e.symm
          have hnoth : ∀ z ∈ h.toList, z.index ≠ j := fun z hz =>
            hnot' z (hperm.mem_iff.mpr (hpp.mem_iff.mpr (List.mem_cons_of_mem _ hz)))
          have hold := ht.excl j (by omega) hnoth kj hkj
          rcases hall y (List.mem_cons_of_mem _ hy) with rfl | hyh
          · exact st.trans _ _ _ (hold _ htop_mem) hlk
          · exact hold y hyh
    · -- the new key does not beat the minimum: index i is excluded
      rw [if_neg hg] at hs
      injection hs with hs
      subst hs
      refine ⟨ht.heap, ht.item, ?_⟩
      intro j hj hnot kj hkj y hy
      by_cases hji : j = i
      · subst hji
        have hkk : kj = k := by rw [hk] at hkj; injection hkj with e; exact e.symm
        subst hkk
        have hnl : less (h[0]'(by omega)).ki kj = false := by
          rw [← hgt]; cases hgk : gt kj (h[0]'(by omega)).ki with
          | false => rfl
          | true => exact absurd hgk hg
        have hyk : less y.ki kj = false := st.ntrans kj _ y.ki hnl (htop_min y hy)
        have hne : kj ≠ y.ki := by
          intro he
          have h1 := ht.item y hy
          rw [← he] at h1
          have := key_inj keys hnd _ _ _ h1 hk
          exact hnot y hy this
        rcases st.tri kj y.ki with h1 | h1 | h1
        · exact h1
        · exact absurd h1 hne
        · rw [h1] at hyk; cases hyk
      · exact ht.excl j (by omega) hnot kj hkj y hy

theorem loop_top (less gt : κ → κ → Bool) (st : StrictTotal less) (hgt : ∀ a b, gt a b = less b a)
    (keys : List κ) (hnd : keys.Nodup) (m : Nat) (hm : 1 ≤ m) : ∀ (ks : List κ) (i : Nat) (h : Array (Item κ)),
    keys.drop i = ks → i ≤ keys.length → Inv m i h → TopInv less keys i h →
    ∃ h', loop less gt m h i ks = some h' ∧ Inv m keys.length h' ∧ TopInv less keys keys.length h' := by
  intro ks
  induction ks with
  | nil =>
    intro i h hd hle hi ht
    have : keys.length ≤ i := List.drop_eq_nil_iff.mp hd
    have : i = keys.length := by omega
    subst this
    exact ⟨h, rfl, hi, ht⟩
  | cons k ks ih =>
    intro i h hd hle hi ht
    have hlt : i < keys.length := by
      apply Classical.byContradiction
      intro hn
      rw [List.drop_eq_nil_iff.mpr (by omega)] at hd
      cases hd
    rw [List.drop_eq_getElem_cons hlt] at hd
    injection hd with hk hks
    have hk' : keys[i]? = some k := by rw [← hk]; exact List.getElem?_eq_getElem hlt
    obtain ⟨h1, hs, hi1⟩ := step_inv less gt m i hm h k hi
    have ht1 := step_top less gt st hgt keys hnd m i hm h k hk' hi ht h1 hs
    obtain ⟨h2, hl, hi2, ht2⟩ := ih (i + 1) h1 hks (by omega) hi1 ht1
    exact ⟨h2, by simp only [loop, hs, hl], hi2, ht2⟩

end Got.Lemmas.Sample
