import Got.Model.MSQueueGen
/-
Translator tie for loom.Queue (C01/C02): the labelled transition system that the generic semantics of
Got/Model/AtomicIR.lean gives to the per-thread programs `push`/`pop` that tools/srcfacts re-translates from
/repo/loom/queue.go on every run (Got/Generated/AstLoomQueue.lean) coincides, step for step, with the non-ghost
part of the hand-written model Got/Model/MSQueue.lean — under the explicit mapping `conf` from the hand-written
program counters (yield point + live locals) to IR configurations (continuation + locals), whose control parts
are read off the generated term.

`concState s aux` = the generated-LTS state that corresponds to the hand-written state `s`; `aux t` supplies the
one local of thread `t` that is dead in the hand-written pc but still in scope in the source (the parameter `v` of
Push after the allocation; `tail` of Pop after the `head == tail` test failed).  Main statements:
`sim_step` (every action commutes with the mapping) and `sim_run` (hence every run).
-/
set_option linter.unusedSimpArgs false
namespace Got.Lemmas.MSQueueAst
open Got.Model.AtomicIR Got.Generated.AstLoomQueue Got.Spec.Lin Got.Model.MSQueueGen
open Got.Model.MSQueue (State Pc tau setPc casTail)


def loopOf : List Stmt → List Stmt
  | [.loop b] => b
  | [_, .loop b] => b
  | _ => []
def thenOf : Option Stmt → List Stmt
  | some (.ite _ t _) => t
  | _ => []
def elseOf : Option Stmt → List Stmt
  | some (.ite _ _ e) => e
  | _ => []

def pushB : List Stmt := loopOf push.body
def pushTail : List Item := [.pop 2, .loopEnd pushB]
def pushT1 : List Stmt := thenOf pushB[2]?
def pushT2 : List Stmt := thenOf pushT1[0]?
def pushE2 : List Stmt := elseOf pushT1[0]?
def pushT3 : List Stmt := thenOf pushT2[0]?
def popB : List Stmt := loopOf pop.body
def popTail : List Item := [.pop 0, .loopEnd popB]
def popT1 : List Stmt := thenOf popB[3]?
def popT2 : List Stmt := thenOf popT1[0]?
def popE2 : List Stmt := elseOf popT1[0]?

def ctl (l : List Stmt) (k : List Item) : List Item := l.map .stmt ++ k

def conf (x : Nat) : Pc → Config
  | .idle => .idle
  | .crash => .crash
  | .p1 n => .run (ctl pushB pushTail) [.data x, .ptr (some n)] [.data x]
  | .p2 n tl => .run (ctl (pushB.drop 1) pushTail) [.data x, .ptr (some n), .ptr (some tl)] [.data x]
  | .p3 n tl nx => .run (ctl (pushB.drop 2) pushTail) [.data x, .ptr (some n), .ptr (some tl), .ptr nx] [.data x]
  | .p4 n tl => .run (ctl pushT2 (.pop 4 :: .pop 4 :: pushTail)) [.data x, .ptr (some n), .ptr (some tl), .ptr none] [.data x]
  | .p4h n tl y => .run (ctl pushE2 (.pop 4 :: .pop 4 :: pushTail)) [.data x, .ptr (some n), .ptr (some tl), .ptr (some y)] [.data x]
  | .p5 n tl => .run (ctl pushT3 (.pop 4 :: .pop 4 :: .pop 4 :: pushTail)) [.data x, .ptr (some n), .ptr (some tl), .ptr none] [.data x]
  | .d1 => .run (ctl popB popTail) [] []
  | .d2 hd => .run (ctl (popB.drop 1) popTail) [.ptr (some hd)] []
  | .d3 hd tl => .run (ctl (popB.drop 2) popTail) [.ptr (some hd), .ptr (some tl)] []
  | .d4 hd tl nx => .run (ctl (popB.drop 3) popTail) [.ptr (some hd), .ptr (some tl), .ptr nx] []
  | .d5h hd tl y => .run (ctl (popT2.drop 1) (.pop 3 :: .pop 3 :: popTail)) [.ptr (some hd), .ptr (some tl), .ptr (some y)] []
  | .d5 hd y v => .run (ctl (popE2.drop 1) (.pop 3 :: .pop 3 :: popTail)) [.ptr (some hd), .ptr (some x), .ptr (some y), .data v] []

def memOf (s : State) : Mem := ⟨s.val, s.next, s.nalloc, some s.head, some s.tail, 0, 0, 0, fun _ => none, 0, fun _ => false, false⟩

def hev : HEv → Nat × Ev
  | .inv t (.push v) => (t, .inv 0 [.data v])
  | .inv t .pop => (t, .inv 1 [])
  | .ret t .ack => (t, .ret none)
  | .ret t (.val none) => (t, .ret (some (.ptr none)))
  | .ret t (.val (some v)) => (t, .ret (some (.data v)))

def concState (s : State) (aux : Nat → Nat) : GState :=
  { mem := memOf s, conf := fun t => conf (aux t) (s.pc t), hist := (history s.log).map hev }

theorem glue (s s' : State) (aux aux' : Nat → Nat) (t : Nat) (o : Out) (p' : Pc)
    (hstep : stepThread noPred (memOf s) (conf (aux t) (s.pc t)) = some o)
    (hmem : o.mem = memOf s') (hpc : s'.pc = Got.Spec.Lin.upd s.pc t p') (hconf : o.conf = conf (aux' t) p')
    (haux : ∀ u, u ≠ t → aux' u = aux u)
    (hhist : (history s'.log).map hev = (history s.log).map hev ++ retEvs t o.ret) :
    step prog noPred (concState s aux) (.tau t) = concState s' aux' := by
  simp only [step, concState, hstep, GState.apply, hmem, hhist, hconf]
  congr 1
  funext u
  simp only [hpc, Got.Spec.Lin.upd, Got.Model.AtomicIR.upd]
  by_cases hu : u = t
  · simp [hu]
  · simp [hu, haux u hu]


local macro "qsimp" "[" ts:Lean.Parser.Tactic.simpLemma,* "]" : tactic =>
  `(tactic| simp [tau, casTail, setPc, conf, ctl, pushB, pushTail, pushT1, pushT2, pushE2, pushT3, popB, popTail, popT1,
      popT2, popE2, push, pop, loopOf, thenOf, elseOf, enter, exec, stepFuel, Stmt.needs, Cond.needs, Rhs.needs, evalC,
      evalRhs, doAcc, eval, resolve, loadAt, casAt, memOf, retEvs, history, LEv.toH, hev, List.filterMap_append, List.filterMap_cons,
      Got.Spec.Lin.upd, Got.Model.AtomicIR.upd, stepThread, $ts,*])

theorem sim_p1 (s : State) (aux : Nat → Nat) (t n : Nat) (h : s.pc t = .p1 n) :
    step prog noPred (concState s aux) (.tau t) = concState (tau s t) aux := by
  apply glue s _ aux aux t _ (.p2 n s.tail) (by rw [h]; rfl) <;> qsimp [h]

theorem sim_p2 (s : State) (aux : Nat → Nat) (t n tl : Nat) (h : s.pc t = .p2 n tl) :
    step prog noPred (concState s aux) (.tau t) = concState (tau s t) aux := by
  apply glue s _ aux aux t _ (.p3 n tl (s.next tl)) (by rw [h]; rfl) <;> qsimp [h]

theorem sim_p3 (s : State) (aux : Nat → Nat) (t n tl : Nat) (nx : Option Nat) (h : s.pc t = .p3 n tl nx) :
    step prog noPred (concState s aux) (.tau t) = concState (tau s t) aux := by
  by_cases h1 : tl = s.tail
  · cases nx with
    | none => apply glue s _ aux aux t _ (.p4 n tl) (by rw [h]; rfl) <;> qsimp [h, h1]
    | some x => apply glue s _ aux aux t _ (.p4h n tl x) (by rw [h]; rfl) <;> qsimp [h, h1]
  · apply glue s _ aux aux t _ (.p1 n) (by rw [h]; rfl) <;> qsimp [h, h1]

theorem sim_p4 (s : State) (aux : Nat → Nat) (t n tl : Nat) (h : s.pc t = .p4 n tl) :
    step prog noPred (concState s aux) (.tau t) = concState (tau s t) aux := by
  by_cases h1 : s.next tl = none
  · apply glue s _ aux aux t _ (.p5 n tl) (by rw [h]; rfl) <;> qsimp [h, h1]
    rfl
  · apply glue s _ aux aux t _ (.p1 n) (by rw [h]; rfl) <;> qsimp [h, h1]

theorem sim_p4h (s : State) (aux : Nat → Nat) (t n tl x : Nat) (h : s.pc t = .p4h n tl x) :
    step prog noPred (concState s aux) (.tau t) = concState (tau s t) aux := by
  by_cases h1 : s.tail = tl
  · apply glue s _ aux aux t _ (.p1 n) (by rw [h]; rfl) <;> qsimp [h, h1]
  · apply glue s _ aux aux t _ (.p1 n) (by rw [h]; rfl) <;> qsimp [h, h1]

theorem sim_p5 (s : State) (aux : Nat → Nat) (t n tl : Nat) (h : s.pc t = .p5 n tl) :
    step prog noPred (concState s aux) (.tau t) = concState (tau s t) aux := by
  by_cases h1 : s.tail = tl
  · apply glue s _ aux aux t _ .idle (by rw [h]; rfl) <;> qsimp [h, h1]
  · apply glue s _ aux aux t _ .idle (by rw [h]; rfl) <;> qsimp [h, h1]

theorem sim_d1 (s : State) (aux : Nat → Nat) (t : Nat) (h : s.pc t = .d1) :
    step prog noPred (concState s aux) (.tau t) = concState (tau s t) aux := by
  apply glue s _ aux aux t _ (.d2 s.head) (by rw [h]; rfl) <;> qsimp [h]

theorem sim_d2 (s : State) (aux : Nat → Nat) (t hd : Nat) (h : s.pc t = .d2 hd) :
    step prog noPred (concState s aux) (.tau t) = concState (tau s t) aux := by
  apply glue s _ aux aux t _ (.d3 hd s.tail) (by rw [h]; rfl) <;> qsimp [h]

theorem sim_d3 (s : State) (aux : Nat → Nat) (t hd tl : Nat) (h : s.pc t = .d3 hd tl) :
    step prog noPred (concState s aux) (.tau t) = concState (tau s t) aux := by
  cases h1 : s.next hd with
  | none => apply glue s _ aux aux t _ (.d4 hd tl none) (by rw [h]; rfl) <;> qsimp [h, h1]
  | some x => apply glue s _ aux aux t _ (.d4 hd tl (some x)) (by rw [h]; rfl) <;> qsimp [h, h1]

def auxTau (s : State) (aux : Nat → Nat) (t : Nat) : Nat → Nat :=
  match s.pc t with
  | .d4 _ tl _ => Got.Spec.Lin.upd aux t tl
  | _ => aux

theorem sim_d4 (s : State) (aux : Nat → Nat) (t hd tl : Nat) (nx : Option Nat) (h : s.pc t = .d4 hd tl nx) :
    step prog noPred (concState s aux) (.tau t) = concState (tau s t) (Got.Spec.Lin.upd aux t tl) := by
  have ha : ∀ u, u ≠ t → Got.Spec.Lin.upd aux t tl u = aux u := fun u hu => upd_other _ _ _ _ hu
  by_cases h1 : hd = s.head
  · subst h1
    by_cases h2 : s.head = tl
    · cases nx with
      | none => apply glue s _ aux _ t _ .idle (by rw [h]; rfl) _ _ _ ha <;> qsimp [h, h2]
      | some x => apply glue s _ aux _ t _ (.d5h s.head tl x) (by rw [h]; rfl) _ _ _ ha <;> qsimp [h, h2]
    · cases nx with
      | none => apply glue s _ aux _ t _ .crash (by rw [h]; rfl) _ _ _ ha <;> qsimp [h, h2]
      | some x => apply glue s _ aux _ t _ (.d5 s.head x (s.val x)) (by rw [h]; rfl) _ _ _ ha <;> qsimp [h, h2]
  · apply glue s _ aux _ t _ .d1 (by rw [h]; rfl) _ _ _ ha <;> qsimp [h, h1]

theorem sim_d5h (s : State) (aux : Nat → Nat) (t hd tl x : Nat) (h : s.pc t = .d5h hd tl x) :
    step prog noPred (concState s aux) (.tau t) = concState (tau s t) aux := by
  by_cases h1 : s.tail = tl
  · apply glue s _ aux aux t _ .d1 (by rw [h]; rfl) <;> qsimp [h, h1]
  · apply glue s _ aux aux t _ .d1 (by rw [h]; rfl) <;> qsimp [h, h1]

theorem sim_d5 (s : State) (aux : Nat → Nat) (t hd x v : Nat) (h : s.pc t = .d5 hd x v) :
    step prog noPred (concState s aux) (.tau t) = concState (tau s t) aux := by
  by_cases h1 : s.head = hd
  · apply glue s _ aux aux t _ .idle (by rw [h]; rfl) <;> qsimp [h, h1]
  · apply glue s _ aux aux t _ .d1 (by rw [h]; rfl) <;> qsimp [h, h1]

/-- every `tau` of the hand-written model is the step of the generated LTS -/
theorem sim_tau (s : State) (aux : Nat → Nat) (t : Nat) :
    step prog noPred (concState s aux) (.tau t) = concState (tau s t) (auxTau s aux t) := by
  unfold auxTau
  cases h : s.pc t with
  | idle => simp [step, concState, h, conf, stepThread, tau]
  | crash => simp [step, concState, h, conf, stepThread, tau]
  | p1 n => exact sim_p1 s aux t n h
  | p2 n tl => exact sim_p2 s aux t n tl h
  | p3 n tl nx => exact sim_p3 s aux t n tl nx h
  | p4 n tl => exact sim_p4 s aux t n tl h
  | p4h n tl x => exact sim_p4h s aux t n tl x h
  | p5 n tl => exact sim_p5 s aux t n tl h
  | d1 => exact sim_d1 s aux t h
  | d2 hd => exact sim_d2 s aux t hd h
  | d3 hd tl => exact sim_d3 s aux t hd tl h
  | d4 hd tl nx => exact sim_d4 s aux t hd tl nx h
  | d5h hd tl x => exact sim_d5h s aux t hd tl x h
  | d5 hd x v => exact sim_d5 s aux t hd x v h

theorem conf_idle_iff (x : Nat) (p : Pc) : conf x p = .idle ↔ p = .idle := by
  cases p <;> simp [conf]

theorem glueInv (s s' : State) (aux aux' : Nat → Nat) (t f : Nat) (args : List Val) (fn : Func) (p' : Pc) (e : HEv)
    (hidle : s.pc t = .idle) (hf : prog[f]? = some fn) (hn : args.length = fn.nparams)
    (hmem : (startThread noPred (memOf s) fn args).mem = memOf s') (hpc : s'.pc = Got.Spec.Lin.upd s.pc t p')
    (hconf : (startThread noPred (memOf s) fn args).conf = conf (aux' t) p')
    (haux : ∀ u, u ≠ t → aux' u = aux u) (hret : (startThread noPred (memOf s) fn args).ret = none)
    (he : hev e = (t, .inv f args))
    (hhist : history s'.log = history s.log ++ [e]) :
    step prog noPred (concState s aux) (.inv t f args) = concState s' aux' := by
  simp only [step, concState, hidle, conf, hf, hn, if_true, GState.apply, hmem, hhist, hconf, hret, retEvs,
    List.map_append, List.map_cons, List.map_nil, he, List.append_nil]
  congr 1
  funext u
  simp only [hpc, Got.Spec.Lin.upd, Got.Model.AtomicIR.upd]
  by_cases hu : u = t
  · simp [hu]
  · simp [hu, haux u hu]

def auxStep (s : State) (aux : Nat → Nat) : Got.Model.MSQueue.Act → Nat → Nat
  | .invPush t v => if s.pc t = .idle then Got.Spec.Lin.upd aux t v else aux
  | .invPop _ => aux
  | .tau t => auxTau s aux t

theorem sim_invPush (s : State) (aux : Nat → Nat) (t v : Nat) :
    step prog noPred (concState s aux) (.inv t 0 [.data v]) =
      concState (Got.Model.MSQueue.step s (.invPush t v))
        (if s.pc t = .idle then Got.Spec.Lin.upd aux t v else aux) := by
  by_cases hi : s.pc t = .idle
  · rw [if_pos hi]
    apply glueInv s _ aux _ t 0 [.data v] push (.p1 s.nalloc) (.inv t (.push v)) hi rfl rfl _ _ _
      (fun u hu => upd_other _ _ _ _ hu) <;> qsimp [Got.Model.MSQueue.step, hi, startThread]
    all_goals rfl
  · rw [if_neg hi]
    cases h : s.pc t
    case idle => exact absurd h hi
    all_goals simp [step, concState, conf, h, Got.Model.MSQueue.step]

theorem sim_invPop (s : State) (aux : Nat → Nat) (t : Nat) :
    step prog noPred (concState s aux) (.inv t 1 []) = concState (Got.Model.MSQueue.step s (.invPop t)) aux := by
  by_cases hi : s.pc t = .idle
  · apply glueInv s _ aux _ t 1 [] pop .d1 (.inv t .pop) hi rfl rfl _ _ _
      (fun u _ => rfl) <;> qsimp [Got.Model.MSQueue.step, hi, startThread]
  · cases h : s.pc t
    case idle => exact absurd h hi
    all_goals simp [step, concState, conf, h, Got.Model.MSQueue.step]

/-- **every action of the hand-written model is the corresponding action of the generated LTS** -/
theorem sim_step (s : State) (aux : Nat → Nat) (a : Got.Model.MSQueue.Act) :
    step prog noPred (concState s aux) (gact a) = concState (Got.Model.MSQueue.step s a) (auxStep s aux a) := by
  cases a with
  | invPush t v => exact sim_invPush s aux t v
  | invPop t => exact sim_invPop s aux t
  | tau t => exact sim_tau s aux t

def auxRun (s : State) (aux : Nat → Nat) : List Got.Model.MSQueue.Act → Nat → Nat
  | [] => aux
  | a :: as => auxRun (Got.Model.MSQueue.step s a) (auxStep s aux a) as

theorem sim_run (acts : List Got.Model.MSQueue.Act) : ∀ (s : State) (aux : Nat → Nat),
    run prog noPred (concState s aux) (acts.map gact) =
      concState (Got.Model.MSQueue.run s acts) (auxRun s aux acts) := by
  induction acts with
  | nil => intro s aux; rfl
  | cons a as ih =>
    intro s aux
    simp only [List.map_cons, run, Got.Model.MSQueue.run, List.foldl_cons, auxRun]
    rw [sim_step]
    exact ih _ _

theorem genInit_eq (aux : Nat → Nat) : genInit = concState Got.Model.MSQueue.init aux := rfl

theorem genRun_eq (acts : List Got.Model.MSQueue.Act) :
    genRun acts = concState (Got.Model.MSQueue.run Got.Model.MSQueue.init acts)
      (auxRun Got.Model.MSQueue.init (fun _ => 0) acts) := by
  unfold genRun
  rw [genInit_eq (fun _ => 0)]
  exact sim_run acts _ _

theorem toHEv_hev (e : HEv) : toHEv (hev e) = e := by
  cases e with
  | inv t o => cases o <;> rfl
  | ret t r =>
    cases r with
    | ack => rfl
    | val v => cases v <;> rfl

theorem genRun_hist (acts : List Got.Model.MSQueue.Act) :
    genHistory (genRun acts) = history (Got.Model.MSQueue.run Got.Model.MSQueue.init acts).log := by
  rw [genRun_eq]
  simp only [genHistory, concState, List.map_map]
  conv => rhs; rw [← List.map_id (history _)]
  apply List.map_congr_left
  intro e _
  exact toHEv_hev e

theorem conf_crash_iff (x : Nat) (p : Pc) : conf x p = .crash ↔ p = .crash := by
  cases p <;> simp [conf]

theorem conf_ne_stuck (x : Nat) (p : Pc) : conf x p ≠ .stuck := by
  cases p <;> simp [conf]

theorem solo_sim (t : Nat) : ∀ (k : Nat) (s : State) (aux : Nat → Nat),
    ∃ aux', solo prog noPred t k (concState s aux) = concState (Got.Model.MSQueue.solo t k s) aux' := by
  intro k
  induction k with
  | zero => intro s aux; exact ⟨aux, rfl⟩
  | succ k ih =>
    intro s aux
    simp only [solo, Got.Model.MSQueue.solo]
    rw [sim_tau]
    exact ih _ _

end Got.Lemmas.MSQueueAst
