import Got.Lemmas.SortAstSmall
import Got.Lemmas.SortBounds
/-
Translator tie of C15, part 2a: the loops of doPivot_func (the four scan loops, the partition loop, the protect loop).
Each lemma: the generated loop statement run from an arbitrary environment that holds the loop's variables computes the
model's loop function (value of the loop variables, state, log), and leaves every other variable alone.
-/
set_option linter.unusedSimpArgs false
namespace Got.Lemmas.SortAst
open Got.Model.MiniGoSort Got.Model.Sort Got.Model.SortAst
open Got.Generated.AstSortxSort

variable {K V : Type}

/-! ### the scan loops (variables: 6 = pivot, 7 = a, 8 = c, 9 = b) -/

/-- `for ; a < BOUND && data.Less(a, pivot); a++ {}`; the bound is variable `vc` (8 = c before the partition loop,
    9 = b inside the protect loop) -/
def scanUpLtStmt (vc : Nat) : Stmt :=
  .loop (.and (.lt (.var 7) (.var vc)) (.less (.var 7) (.var 6))) [] [.set 7 (.add (.var 7) (.lit 1))]

theorem scanUpLt_runs (P : String → Option Fn) (less : LessFn K V) (vc : Nat) (hvc : vc ≠ 7) (pivot c : Nat)
    (hp : pivot < B62) (hc : c < B62) :
    ∀ (n a : Nat) (env : Env) (s : St K V), c - a = n → env.get 6 = pivot → env.get vc = c → env.get 7 = a →
      ∃ env', (∀ y, y ≠ 7 → env'.get y = env.get y) ∧ env'.get 7 = (((scanUpLt less pivot c a s).1 : Nat) : Int) ∧
        ∀ rest r, Runs (sortWorld less) P rest env' (scanUpLt less pivot c a s).2 r →
          Runs (sortWorld less) P (scanUpLtStmt vc :: rest) env s r := by
  intro n
  induction n using Nat.strongRecOn with
  | _ n ih =>
    intro a env s hn h6 h8 h7
    unfold B62 at hp hc
    rw [scanUpLt]
    split
    · rename_i hlt
      have ia : idx (a : Int) = a := idx_natCast (by omega)
      have ip : idx (pivot : Int) = pivot := idx_natCast (by omega)
      have hcnd : evalC (sortWorld less) env (.and (.lt (.var 7) (.var vc)) (.less (.var 7) (.var 6))) s =
          (less s a pivot, s.note a pivot (less s a pivot)) := by
        simp only [evalC, eval, h6, h7, h8]
        have : ((a : Int) < (c : Int)) := by omega
        simp only [this, decide_true, if_true, sortWorld, ia, ip]
      cases hr : less s a pivot
      · rw [hr] at hcnd
        simp only [Bool.false_eq_true, if_false]
        refine ⟨env, fun _ _ => rfl, h7, fun rest r h => ?_⟩
        refine Runs.loop_exit (by rw [hcnd]) ?_
        rw [hcnd]
        exact h
      · rw [hr] at hcnd
        simp only [if_true]
        obtain ⟨env', hfr, hv, hk⟩ := ih (c - (a + 1)) (by omega) (a + 1) (env.set 7 ((a + 1 : Nat) : Int))
          (s.note a pivot true) rfl (by rw [Env.get_set]; simpa using h6)
          (by rw [Env.get_set, if_neg hvc]; exact h8) (by rw [Env.get_set]; simp)
        refine ⟨env', fun y hy => by rw [hfr y hy, Env.get_set, if_neg hy], hv, fun rest r h => ?_⟩
        refine Runs.loop_iter (by rw [hcnd]) Runs.nil (Runs.set Runs.nil) ?_
        rw [hcnd]
        have e1 : eval env (.add (.var 7) (.lit 1)) = ((a + 1 : Nat) : Int) := by
          simp (disch := omega) only [eval, h7, wrap_eq]; simp
        rw [e1]
        exact hk rest r h
    · rename_i hlt
      refine ⟨env, fun _ _ => rfl, h7, fun rest r h => ?_⟩
      have hcnd : evalC (sortWorld less) env (.and (.lt (.var 7) (.var vc)) (.less (.var 7) (.var 6))) s = (false, s) := by
        simp only [evalC, eval, h7, h8]
        have : ¬ ((a : Int) < (c : Int)) := by omega
        simp only [this, decide_false, Bool.false_eq_true, if_false]
      refine Runs.loop_exit (by rw [hcnd]) ?_
      rw [hcnd]
      exact h

/-- `for ; b < c && !data.Less(pivot, b); b++ {}` -/
def scanUpNotGtStmt : Stmt :=
  .loop (.and (.lt (.var 9) (.var 8)) (.not (.less (.var 6) (.var 9)))) [] [.set 9 (.add (.var 9) (.lit 1))]

theorem scanUpNotGt_runs (P : String → Option Fn) (less : LessFn K V) (pivot c : Nat)
    (hp : pivot < B62) (hc : c < B62) :
    ∀ (n b : Nat) (env : Env) (s : St K V), c - b = n → env.get 6 = pivot → env.get 8 = c → env.get 9 = b →
      ∃ env', (∀ y, y ≠ 9 → env'.get y = env.get y) ∧ env'.get 9 = (((scanUpNotGt less pivot c b s).1 : Nat) : Int) ∧
        ∀ rest r, Runs (sortWorld less) P rest env' (scanUpNotGt less pivot c b s).2 r →
          Runs (sortWorld less) P (scanUpNotGtStmt :: rest) env s r := by
  intro n
  induction n using Nat.strongRecOn with
  | _ n ih =>
    intro b env s hn h6 h8 h9
    unfold B62 at hp hc
    rw [scanUpNotGt]
    split
    · rename_i hlt
      have ib : idx (b : Int) = b := idx_natCast (by omega)
      have ip : idx (pivot : Int) = pivot := idx_natCast (by omega)
      have hcnd : evalC (sortWorld less) env (.and (.lt (.var 9) (.var 8)) (.not (.less (.var 6) (.var 9)))) s =
          (!less s pivot b, s.note pivot b (less s pivot b)) := by
        simp only [evalC, eval, h6, h8, h9]
        have : ((b : Int) < (c : Int)) := by omega
        simp only [this, decide_true, if_true, sortWorld, ib, ip]
      cases hr : less s pivot b
      · rw [hr] at hcnd
        simp only [Bool.not_false, if_true]
        obtain ⟨env', hfr, hv, hk⟩ := ih (c - (b + 1)) (by omega) (b + 1) (env.set 9 ((b + 1 : Nat) : Int))
          (s.note pivot b false) rfl (by rw [Env.get_set]; simpa using h6)
          (by rw [Env.get_set]; simpa using h8) (by rw [Env.get_set]; simp)
        refine ⟨env', fun y hy => by rw [hfr y hy, Env.get_set, if_neg hy], hv, fun rest r h => ?_⟩
        refine Runs.loop_iter (by rw [hcnd]; rfl) Runs.nil (Runs.set Runs.nil) ?_
        rw [hcnd]
        have e1 : eval env (.add (.var 9) (.lit 1)) = ((b + 1 : Nat) : Int) := by
          simp (disch := omega) only [eval, h9, wrap_eq]; simp
        rw [e1]
        exact hk rest r h
      · rw [hr] at hcnd
        simp only [Bool.not_true, Bool.false_eq_true, if_false]
        refine ⟨env, fun _ _ => rfl, h9, fun rest r h => ?_⟩
        refine Runs.loop_exit (by rw [hcnd]; rfl) ?_
        rw [hcnd]
        exact h
    · rename_i hlt
      refine ⟨env, fun _ _ => rfl, h9, fun rest r h => ?_⟩
      have hcnd : evalC (sortWorld less) env (.and (.lt (.var 9) (.var 8)) (.not (.less (.var 6) (.var 9)))) s = (false, s) := by
        simp only [evalC, eval, h8, h9]
        have : ¬ ((b : Int) < (c : Int)) := by omega
        simp only [this, decide_false, Bool.false_eq_true, if_false]
      refine Runs.loop_exit (by rw [hcnd]) ?_
      rw [hcnd]
      exact h

/-- `for ; b < c && data.Less(pivot, c-1); c-- {}` -/
def scanDownGtStmt : Stmt :=
  .loop (.and (.lt (.var 9) (.var 8)) (.less (.var 6) (.sub (.var 8) (.lit 1)))) [] [.set 8 (.sub (.var 8) (.lit 1))]

theorem scanDownGt_runs (P : String → Option Fn) (less : LessFn K V) (pivot b : Nat) (hp : pivot < B62) :
    ∀ (c : Nat) (env : Env) (s : St K V), c < B62 → env.get 6 = pivot → env.get 9 = b → env.get 8 = c →
      ∃ env', (∀ y, y ≠ 8 → env'.get y = env.get y) ∧ env'.get 8 = (((scanDownGt less pivot b c s).1 : Nat) : Int) ∧
        ∀ rest r, Runs (sortWorld less) P rest env' (scanDownGt less pivot b c s).2 r →
          Runs (sortWorld less) P (scanDownGtStmt :: rest) env s r := by
  intro c
  induction c with
  | zero =>
    intro env s hc h6 h9 h8
    refine ⟨env, fun _ _ => rfl, h8, fun rest r h => ?_⟩
    have hcnd : evalC (sortWorld less) env (.and (.lt (.var 9) (.var 8)) (.less (.var 6) (.sub (.var 8) (.lit 1)))) s = (false, s) := by
      simp only [evalC, eval, h8, h9]
      have : ¬ ((b : Int) < ((0 : Nat) : Int)) := by omega
      simp only [this, decide_false, Bool.false_eq_true, if_false]
    refine Runs.loop_exit (by rw [hcnd]) ?_
    rw [hcnd]
    exact h
  | succ c ih =>
    intro env s hc h6 h9 h8
    unfold B62 at hp hc
    have e1 : wrap (((c + 1 : Nat) : Int) - wrap 1) = (c : Int) := by
      simp (disch := omega) only [wrap_eq]; omega
    have ic : idx (c : Int) = c := idx_natCast (by omega)
    have ip : idx (pivot : Int) = pivot := idx_natCast (by omega)
    rw [scanDownGt]
    split
    · rename_i hlt
      have hcnd : evalC (sortWorld less) env (.and (.lt (.var 9) (.var 8)) (.less (.var 6) (.sub (.var 8) (.lit 1)))) s =
          (less s pivot c, s.note pivot c (less s pivot c)) := by
        simp only [evalC, eval, h6, h8, h9, e1]
        have : ((b : Int) < ((c + 1 : Nat) : Int)) := by omega
        simp only [this, decide_true, if_true, sortWorld, ic, ip]
      cases hr : less s pivot c
      · rw [hr] at hcnd
        simp only [Bool.false_eq_true, if_false]
        refine ⟨env, fun _ _ => rfl, h8, fun rest r h => ?_⟩
        refine Runs.loop_exit (by rw [hcnd]) ?_
        rw [hcnd]
        exact h
      · rw [hr] at hcnd
        simp only [if_true]
        obtain ⟨env', hfr, hv, hk⟩ := ih (env.set 8 (c : Int)) (s.note pivot c true) (by unfold B62; omega)
          (by rw [Env.get_set]; simpa using h6) (by rw [Env.get_set]; simpa using h9) (by rw [Env.get_set]; simp)
        refine ⟨env', fun y hy => by rw [hfr y hy, Env.get_set, if_neg hy], hv, fun rest r h => ?_⟩
        refine Runs.loop_iter (by rw [hcnd]) Runs.nil (Runs.set Runs.nil) ?_
        rw [hcnd]
        simp only [eval, h8, e1]
        exact hk rest r h
    · rename_i hlt
      refine ⟨env, fun _ _ => rfl, h8, fun rest r h => ?_⟩
      have hcnd : evalC (sortWorld less) env (.and (.lt (.var 9) (.var 8)) (.less (.var 6) (.sub (.var 8) (.lit 1)))) s = (false, s) := by
        simp only [evalC, eval, h8, h9]
        have : ¬ ((b : Int) < ((c + 1 : Nat) : Int)) := by omega
        simp only [this, decide_false, Bool.false_eq_true, if_false]
      refine Runs.loop_exit (by rw [hcnd]) ?_
      rw [hcnd]
      exact h

/-- `for ; a < b && !data.Less(b-1, pivot); b-- {}` -/
def scanDownNotLtStmt : Stmt :=
  .loop (.and (.lt (.var 7) (.var 9)) (.not (.less (.sub (.var 9) (.lit 1)) (.var 6)))) [] [.set 9 (.sub (.var 9) (.lit 1))]

theorem scanDownNotLt_runs (P : String → Option Fn) (less : LessFn K V) (pivot a : Nat) (hp : pivot < B62) :
    ∀ (b : Nat) (env : Env) (s : St K V), b < B62 → env.get 6 = pivot → env.get 7 = a → env.get 9 = b →
      ∃ env', (∀ y, y ≠ 9 → env'.get y = env.get y) ∧ env'.get 9 = (((scanDownNotLt less pivot a b s).1 : Nat) : Int) ∧
        ∀ rest r, Runs (sortWorld less) P rest env' (scanDownNotLt less pivot a b s).2 r →
          Runs (sortWorld less) P (scanDownNotLtStmt :: rest) env s r := by
  intro b
  induction b with
  | zero =>
    intro env s hb h6 h7 h9
    refine ⟨env, fun _ _ => rfl, h9, fun rest r h => ?_⟩
    have hcnd : evalC (sortWorld less) env (.and (.lt (.var 7) (.var 9)) (.not (.less (.sub (.var 9) (.lit 1)) (.var 6)))) s = (false, s) := by
      simp only [evalC, eval, h7, h9]
      have : ¬ ((a : Int) < ((0 : Nat) : Int)) := by omega
      simp only [this, decide_false, Bool.false_eq_true, if_false]
    refine Runs.loop_exit (by rw [hcnd]) ?_
    rw [hcnd]
    exact h
  | succ b ih =>
    intro env s hb h6 h7 h9
    unfold B62 at hp hb
    have e1 : wrap (((b + 1 : Nat) : Int) - wrap 1) = (b : Int) := by
      simp (disch := omega) only [wrap_eq]; omega
    have ib : idx (b : Int) = b := idx_natCast (by omega)
    have ip : idx (pivot : Int) = pivot := idx_natCast (by omega)
    rw [scanDownNotLt]
    split
    · rename_i hlt
      have hcnd : evalC (sortWorld less) env (.and (.lt (.var 7) (.var 9)) (.not (.less (.sub (.var 9) (.lit 1)) (.var 6)))) s =
          (!less s b pivot, s.note b pivot (less s b pivot)) := by
        simp only [evalC, eval, h6, h7, h9, e1]
        have : ((a : Int) < ((b + 1 : Nat) : Int)) := by omega
        simp only [this, decide_true, if_true, sortWorld, ib, ip]
      cases hr : less s b pivot
      · rw [hr] at hcnd
        simp only [Bool.not_false, if_true]
        obtain ⟨env', hfr, hv, hk⟩ := ih (env.set 9 (b : Int)) (s.note b pivot false) (by unfold B62; omega)
          (by rw [Env.get_set]; simpa using h6) (by rw [Env.get_set]; simpa using h7) (by rw [Env.get_set]; simp)
        refine ⟨env', fun y hy => by rw [hfr y hy, Env.get_set, if_neg hy], hv, fun rest r h => ?_⟩
        refine Runs.loop_iter (by rw [hcnd]; rfl) Runs.nil (Runs.set Runs.nil) ?_
        rw [hcnd]
        simp only [eval, h9, e1]
        exact hk rest r h
      · rw [hr] at hcnd
        simp only [Bool.not_true, Bool.false_eq_true, if_false]
        refine ⟨env, fun _ _ => rfl, h9, fun rest r h => ?_⟩
        refine Runs.loop_exit (by rw [hcnd]; rfl) ?_
        rw [hcnd]
        exact h
    · rename_i hlt
      refine ⟨env, fun _ _ => rfl, h9, fun rest r h => ?_⟩
      have hcnd : evalC (sortWorld less) env (.and (.lt (.var 7) (.var 9)) (.not (.less (.sub (.var 9) (.lit 1)) (.var 6)))) s = (false, s) := by
        simp only [evalC, eval, h7, h9]
        have : ¬ ((a : Int) < ((b + 1 : Nat) : Int)) := by omega
        simp only [this, decide_false, Bool.false_eq_true, if_false]
      refine Runs.loop_exit (by rw [hcnd]) ?_
      rw [hcnd]
      exact h

end Got.Lemmas.SortAst
