import Got.Spec.Linearizable
/-
Generic consequences of the LP witness (`LinWitness l`, i.e. `wrun l = some w`): inversion of the
replay automaton, induction over logs from the right, conservation of values in linearisation order,
no invention, "nil only if empty at some instant inside the Pop".  Independent of the queue model.
-/
namespace Got.Spec.Lin

/-! ### inversion of one replay step -/

theorem wstep_inv_iff {w w' : WSt} {t : Nat} {o : Op} :
    wstep w (.inv t o) = some w' ↔ w.st t = .idle ∧ w' = { w with st := upd w.st t (.pend o false) } := by
  cases h : w.st t <;> simp [wstep, h, eq_comm]

theorem wstep_lin_iff {w w' : WSt} {t : Nat} {o : Op} {r : Res} :
    wstep w (.lin t o r) = some w' ↔
      ∃ b, w.st t = .pend o b ∧ (fifoApply w.q o).2 = r ∧ r ≠ .val none ∧
        w' = ⟨(fifoApply w.q o).1, upd w.st t (.done o r)⟩ := by
  simp only [wstep]
  cases h : w.st t with
  | idle => simp
  | done o' r' => simp
  | pend o' b =>
    dsimp only
    by_cases hc : o' = o ∧ (fifoApply w.q o).2 = r ∧ r ≠ .val none
    · rw [if_pos hc]
      obtain ⟨h1, h2, h3⟩ := hc
      subst h1
      constructor
      · intro hh; injection hh with hh
        exact ⟨b, rfl, h2, h3, hh.symm⟩
      · rintro ⟨_, _, _, _, h4⟩; rw [h4]
    · rw [if_neg hc]
      constructor
      · intro hh; cases hh
      · rintro ⟨b', hb, h2, h3, _⟩
        injection hb with h5 _
        exact absurd ⟨h5, h2, h3⟩ hc

theorem wstep_obs_iff {w w' : WSt} {t : Nat} :
    wstep w (.obs t) = some w' ↔
      ∃ b, w.st t = .pend .pop b ∧ w.q = [] ∧ w' = { w with st := upd w.st t (.pend .pop true) } := by
  simp only [wstep]
  cases h : w.st t with
  | idle => simp
  | done o' r' => simp
  | pend o' b =>
    cases o' with
    | push v => simp
    | pop =>
      dsimp only
      by_cases hc : w.q = []
      · rw [if_pos hc]
        constructor
        · intro hh; injection hh with hh; exact ⟨b, rfl, hc, hh.symm⟩
        · rintro ⟨_, _, _, h4⟩; rw [h4]
      · rw [if_neg hc]
        constructor
        · intro hh; cases hh
        · rintro ⟨_, _, h2, _⟩; exact absurd h2 hc

theorem wstep_ret_iff {w w' : WSt} {t : Nat} {r : Res} :
    wstep w (.ret t r) = some w' ↔
      ((∃ o, w.st t = .done o r) ∨ (w.st t = .pend .pop true ∧ r = .val none)) ∧
        w' = { w with st := upd w.st t .idle } := by
  simp only [wstep]
  cases h : w.st t with
  | idle => simp
  | done o' r' =>
    dsimp only
    by_cases hc : r' = r
    · rw [if_pos hc]; subst hc
      constructor
      · intro hh; injection hh with hh; exact ⟨Or.inl ⟨o', rfl⟩, hh.symm⟩
      · rintro ⟨_, h2⟩; rw [h2]
    · rw [if_neg hc]
      constructor
      · intro hh; cases hh
      · rintro ⟨h1, _⟩
        rcases h1 with ⟨o, ho⟩ | ⟨ho, _⟩
        · injection ho with _ h3; exact absurd h3 hc
        · cases ho
  | pend o' b =>
    cases o' with
    | push v => simp
    | pop =>
      cases b with
      | false => simp
      | true =>
        dsimp only
        by_cases hc : r = .val none
        · rw [if_pos hc]
          constructor
          · intro hh; injection hh with hh; exact ⟨Or.inr ⟨rfl, hc⟩, hh.symm⟩
          · rintro ⟨_, h2⟩; rw [h2]
        · rw [if_neg hc]
          constructor
          · intro hh; cases hh
          · rintro ⟨h1, _⟩
            rcases h1 with ⟨o, ho⟩ | ⟨_, hr⟩
            · cases ho
            · exact absurd hr hc

/-! ### induction over logs from the right -/

theorem wrun_nil : wrun [] = some WSt.init := rfl

theorem wrun_snoc_some {l : List LEv} {e : LEv} {w' : WSt} (h : wrun (l ++ [e]) = some w') :
    ∃ w, wrun l = some w ∧ wstep w e = some w' := by
  rw [wrun_snoc] at h
  cases hw : wrun l with
  | none => rw [hw] at h; cases h
  | some w => rw [hw] at h; exact ⟨w, rfl, h⟩

/-- a prefix of a replayable log is replayable. -/
theorem wrun_prefix {l₁ l₂ : List LEv} {w : WSt} (h : wrun (l₁ ++ l₂) = some w) : ∃ w₁, wrun l₁ = some w₁ := by
  unfold wrun at h ⊢
  rw [wrunFrom_append] at h
  cases hw : wrunFrom WSt.init l₁ with
  | none => rw [hw] at h; cases h
  | some w₁ => exact ⟨w₁, rfl⟩

theorem snoc_induction {α : Type} {P : List α → Prop} (h0 : P [])
    (hs : ∀ l e, P l → P (l ++ [e])) : ∀ l, P l := by
  intro l
  generalize hn : l.length = n
  induction n generalizing l with
  | zero =>
    have : l = [] := List.eq_nil_of_length_eq_zero hn
    subst this; exact h0
  | succ n ih =>
    rcases List.eq_nil_or_concat l with h | ⟨l', b, h⟩
    · subst h; cases hn
    · rw [List.concat_eq_append] at h
      subst h
      apply hs
      apply ih
      simp at hn; omega

/-- induction principle for replayable logs: a property of (log, replay state) that holds initially and
    is preserved by every legal event holds for every replayable log. -/
theorem wrun_induction {P : List LEv → WSt → Prop} (h0 : P [] WSt.init)
    (hs : ∀ l w e w', wrun l = some w → P l w → wstep w e = some w' → P (l ++ [e]) w') :
    ∀ l w, wrun l = some w → P l w := by
  intro l
  induction l using snoc_induction with
  | h0 => intro w h; rw [wrun_nil] at h; injection h with h; subst h; exact h0
  | hs l e ih =>
    intro w' h
    obtain ⟨w, hw, he⟩ := wrun_snoc_some h
    exact hs l w e w' hw (ih w hw) he

/-! ### values in linearisation order -/

def LEv.pushLin : LEv → Option Nat
  | .lin _ (.push v) _ => some v
  | _ => none

def LEv.popLin : LEv → Option Nat
  | .lin _ .pop (.val (some v)) => some v
  | _ => none

/-- values of the Pushes in the order in which they took effect. -/
def pushedLin (l : List LEv) : List Nat := l.filterMap LEv.pushLin

/-- values taken by the Pops in the order in which they took effect. -/
def poppedLin (l : List LEv) : List Nat := l.filterMap LEv.popLin

theorem pushedLin_snoc (l : List LEv) (e : LEv) :
    pushedLin (l ++ [e]) = pushedLin l ++ (match e.pushLin with | some v => [v] | none => []) := by
  unfold pushedLin
  rw [List.filterMap_append]
  cases h : e.pushLin <;> simp [List.filterMap, h]

theorem poppedLin_snoc (l : List LEv) (e : LEv) :
    poppedLin (l ++ [e]) = poppedLin l ++ (match e.popLin with | some v => [v] | none => []) := by
  unfold poppedLin
  rw [List.filterMap_append]
  cases h : e.popLin <;> simp [List.filterMap, h]

/-- **conservation in linearisation order**: the values pushed so far are exactly the values popped so
    far followed by the current contents of the abstract queue.  (FIFO order, no loss, no duplication
    and no invention at the level of linearisation points.) -/
theorem pushed_eq_popped_append {l : List LEv} {w : WSt} (h : wrun l = some w) :
    pushedLin l = poppedLin l ++ w.q := by
  refine wrun_induction (P := fun l w => pushedLin l = poppedLin l ++ w.q) rfl ?_ l w h
  intro l w e w' _ ih he
  rw [pushedLin_snoc, poppedLin_snoc, ih]
  cases e with
  | inv t o =>
    obtain ⟨_, h2⟩ := wstep_inv_iff.mp he
    subst h2; simp [LEv.pushLin, LEv.popLin]
  | obs t =>
    obtain ⟨_, _, _, h2⟩ := wstep_obs_iff.mp he
    subst h2; simp [LEv.pushLin, LEv.popLin]
  | ret t r =>
    obtain ⟨_, h2⟩ := wstep_ret_iff.mp he
    subst h2; simp [LEv.pushLin, LEv.popLin]
  | lin t o r =>
    obtain ⟨b, _, h2, h3, h4⟩ := wstep_lin_iff.mp he
    subst h4
    cases o with
    | push v =>
      simp [LEv.pushLin, LEv.popLin, fifoApply]
    | pop =>
      cases hq : w.q with
      | nil =>
        rw [hq] at h2
        simp only [fifoApply] at h2
        exact absurd h2.symm h3
      | cons x q' =>
        rw [hq] at h2
        simp only [fifoApply] at h2
        subst h2
        simp [LEv.pushLin, LEv.popLin, fifoApply]

/-! ### markers sit inside their operations -/

/-- what the replay state of a thread says about the log. -/
theorem state_facts {l : List LEv} {w : WSt} (h : wrun l = some w) (t : Nat) :
    (∀ o b, w.st t = .pend o b → .inv t o ∈ l) ∧
    (∀ o r, w.st t = .done o r → .lin t o r ∈ l ∧ .inv t o ∈ l) := by
  refine wrun_induction
    (P := fun l w => (∀ o b, w.st t = .pend o b → .inv t o ∈ l) ∧
                     (∀ o r, w.st t = .done o r → .lin t o r ∈ l ∧ .inv t o ∈ l)) ?_ ?_ l w h
  · exact ⟨fun o b h => (by cases h), fun o r h => (by cases h)⟩
  · intro l w e w' _ ih he
    have mono : ∀ x, x ∈ l → x ∈ l ++ [e] := fun x hx => List.mem_append_left _ hx
    have last : e ∈ l ++ [e] := List.mem_append_right _ (List.mem_singleton.mpr rfl)
    -- the status of thread t after the event, by cases on whether the event belongs to t
    have key : ∀ t' st', w' = { w' with st := upd w.st t' st' } → t ≠ t' → w'.st t = w.st t := by
      intro t' st' h1 h2; rw [h1]; exact upd_other _ _ _ _ h2
    cases e with
    | inv t' o' =>
      obtain ⟨h1, h2⟩ := wstep_inv_iff.mp he
      subst h2
      by_cases htt : t = t'
      · subst htt
        simp only [upd_same]
        refine ⟨fun o b hh => ?_, fun o r hh => (by cases hh)⟩
        injection hh with hh _; subst hh; exact last
      · simp only [upd_other _ _ _ _ htt]
        exact ⟨fun o b hh => mono _ (ih.1 o b hh), fun o r hh => ⟨mono _ (ih.2 o r hh).1, mono _ (ih.2 o r hh).2⟩⟩
    | lin t' o' r' =>
      obtain ⟨b, h1, _, _, h4⟩ := wstep_lin_iff.mp he
      subst h4
      by_cases htt : t = t'
      · subst htt
        simp only [upd_same]
        refine ⟨fun o b hh => (by cases hh), fun o r hh => ?_⟩
        injection hh with hh1 hh2; subst hh1; subst hh2
        exact ⟨last, mono _ (ih.1 _ b h1)⟩
      · simp only [upd_other _ _ _ _ htt]
        exact ⟨fun o b hh => mono _ (ih.1 o b hh), fun o r hh => ⟨mono _ (ih.2 o r hh).1, mono _ (ih.2 o r hh).2⟩⟩
    | obs t' =>
      obtain ⟨b, h1, _, h4⟩ := wstep_obs_iff.mp he
      subst h4
      by_cases htt : t = t'
      · subst htt
        simp only [upd_same]
        refine ⟨fun o b' hh => ?_, fun o r hh => (by cases hh)⟩
        injection hh with hh _; subst hh
        exact mono _ (ih.1 _ b h1)
      · simp only [upd_other _ _ _ _ htt]
        exact ⟨fun o b hh => mono _ (ih.1 o b hh), fun o r hh => ⟨mono _ (ih.2 o r hh).1, mono _ (ih.2 o r hh).2⟩⟩
    | ret t' r' =>
      obtain ⟨_, h4⟩ := wstep_ret_iff.mp he
      subst h4
      by_cases htt : t = t'
      · subst htt
        simp only [upd_same]
        exact ⟨fun o b hh => (by cases hh), fun o r hh => (by cases hh)⟩
      · simp only [upd_other _ _ _ _ htt]
        exact ⟨fun o b hh => mono _ (ih.1 o b hh), fun o r hh => ⟨mono _ (ih.2 o r hh).1, mono _ (ih.2 o r hh).2⟩⟩

/-- a linearisation marker is preceded by the invocation of its operation. -/
theorem lin_has_inv {l : List LEv} {w : WSt} (h : wrun l = some w) {t : Nat} {o : Op} {r : Res}
    (hm : .lin t o r ∈ l) : .inv t o ∈ l := by
  revert w
  induction l using snoc_induction with
  | h0 => cases hm
  | hs l e ih =>
    intro w' h
    obtain ⟨w, hw, he⟩ := wrun_snoc_some h
    rw [List.mem_append, List.mem_singleton] at hm
    rcases hm with hm | hm
    · exact List.mem_append_left _ (ih hm hw)
    · subst hm
      obtain ⟨b, h1, _⟩ := wstep_lin_iff.mp he
      exact List.mem_append_left _ ((state_facts hw t).1 o b h1)

/-- a returned value was taken by a linearisation marker of the same thread. -/
theorem ret_val_has_lin {l : List LEv} {w : WSt} (h : wrun l = some w) {t v : Nat}
    (hm : .ret t (.val (some v)) ∈ l) : .lin t .pop (.val (some v)) ∈ l := by
  revert w
  induction l using snoc_induction with
  | h0 => cases hm
  | hs l e ih =>
    intro w' h
    obtain ⟨w, hw, he⟩ := wrun_snoc_some h
    rw [List.mem_append, List.mem_singleton] at hm
    rcases hm with hm | hm
    · exact List.mem_append_left _ (ih hm hw)
    · subst hm
      obtain ⟨h1, _⟩ := wstep_ret_iff.mp he
      rcases h1 with ⟨o, ho⟩ | ⟨_, hr⟩
      · have h2 := (state_facts hw t).2 o _ ho
        have h3 := h2.1
        -- the operation of a `done` status with a value result is a pop
        have : o = .pop := by
          -- find the lin event's legality: its result is the FIFO's answer for `o`
          cases o with
          | pop => rfl
          | push x =>
            exfalso
            -- replay the prefix up to that lin event
            obtain ⟨l₁, l₂, hl⟩ := List.append_of_mem h3
            have hl' : l = (l₁ ++ [.lin t (.push x) (.val (some v))]) ++ l₂ := by rw [hl]; simp
            rw [hl'] at hw
            obtain ⟨w₁, hw₁⟩ := wrun_prefix hw
            obtain ⟨w₀, _, he₀⟩ := wrun_snoc_some hw₁
            obtain ⟨_, _, h5, _⟩ := wstep_lin_iff.mp he₀
            simp [fifoApply] at h5
        subst this
        exact List.mem_append_left _ h3
      · cases hr

/-- **no invention**: a value returned by a Pop was the argument of an invoked Push. -/
theorem no_invention {l : List LEv} {w : WSt} (h : wrun l = some w) {t v : Nat}
    (hm : .ret t (.val (some v)) ∈ l) : ∃ t', .inv t' (.push v) ∈ l := by
  have h1 := ret_val_has_lin h hm
  have h2 : v ∈ poppedLin l := List.mem_filterMap.mpr ⟨_, h1, rfl⟩
  have h3 : v ∈ pushedLin l := by
    rw [pushed_eq_popped_append h]; exact List.mem_append_left _ h2
  obtain ⟨e, he, hv⟩ := List.mem_filterMap.mp h3
  cases e with
  | lin t' o r =>
    cases o with
    | push x =>
      simp only [LEv.pushLin] at hv
      injection hv with hv; subst hv
      exact ⟨t', lin_has_inv h he⟩
    | pop => simp [LEv.pushLin] at hv
  | inv _ _ => simp [LEv.pushLin] at hv
  | obs _ => simp [LEv.pushLin] at hv
  | ret _ _ => simp [LEv.pushLin] at hv

/-! ### nil only if empty at some instant inside the Pop -/

def LEv.isInvRetOf (t : Nat) : LEv → Prop
  | .inv t' _ => t' = t
  | .ret t' _ => t' = t
  | _ => False

/-- thread `t` is inside a Pop at the end of `a`, the abstract queue is empty at that instant, and
    `b` contains no invocation/response of `t` (so the instant lies in the same Pop as what follows `b`). -/
def EmptyInstant (t : Nat) (a b : List LEv) : Prop :=
  (∃ wa bb, wrun a = some wa ∧ wa.q = [] ∧ wa.st t = .pend .pop bb) ∧ ∀ e, e ∈ b → ¬ e.isInvRetOf t

theorem seen_has_instant {l : List LEv} {w : WSt} (h : wrun l = some w) (t : Nat) :
    w.st t = .pend .pop true → ∃ a b, l = a ++ b ∧ EmptyInstant t a b := by
  refine wrun_induction
    (P := fun l w => w.st t = .pend .pop true → ∃ a b, l = a ++ b ∧ EmptyInstant t a b) ?_ ?_ l w h
  · intro h; cases h
  · intro l w e w' hw ih he hst
    -- extend an existing instant by one event that is not an inv/ret of t
    have extend : w.st t = .pend .pop true → ¬ e.isInvRetOf t → ∃ a b, l ++ [e] = a ++ b ∧ EmptyInstant t a b := by
      intro h1 h2
      obtain ⟨a, b, hl, hE, hb⟩ := ih h1
      refine ⟨a, b ++ [e], by rw [hl, List.append_assoc], hE, ?_⟩
      intro x hx
      rw [List.mem_append, List.mem_singleton] at hx
      rcases hx with hx | hx
      · exact hb x hx
      · subst hx; exact h2
    cases e with
    | inv t' o' =>
      obtain ⟨_, h2⟩ := wstep_inv_iff.mp he
      subst h2
      by_cases htt : t = t'
      · subst htt; simp only [upd_same] at hst; cases hst
      · simp only [upd_other _ _ _ _ htt] at hst
        exact extend hst (fun hc => htt hc.symm)
    | lin t' o' r' =>
      obtain ⟨_, _, _, _, h4⟩ := wstep_lin_iff.mp he
      subst h4
      by_cases htt : t = t'
      · subst htt; simp only [upd_same] at hst; cases hst
      · simp only [upd_other _ _ _ _ htt] at hst
        exact extend hst (fun hc => hc)
    | obs t' =>
      obtain ⟨b, h1, h2, h4⟩ := wstep_obs_iff.mp he
      by_cases htt : t = t'
      · subst htt
        refine ⟨l ++ [.obs t], [], by simp, ⟨w', true, ?_, ?_, hst⟩, fun e he => (by cases he)⟩
        · rw [wrun_snoc, hw]; exact he
        · rw [h4]; exact h2
      · subst h4
        simp only [upd_other _ _ _ _ htt] at hst
        exact extend hst (fun hc => hc)
    | ret t' r' =>
      obtain ⟨_, h4⟩ := wstep_ret_iff.mp he
      subst h4
      by_cases htt : t = t'
      · subst htt; simp only [upd_same] at hst; cases hst
      · simp only [upd_other _ _ _ _ htt] at hst
        exact extend hst (fun hc => htt hc.symm)

/-- **nil only if empty**: a Pop that returns nil contains an instant (after its invocation, before
    its response) at which the abstract queue was empty. -/
theorem nil_only_if_empty {l : List LEv} {t : Nat} {w : WSt} (h : wrun (l ++ [.ret t (.val none)]) = some w) :
    ∃ a b, l = a ++ b ∧ EmptyInstant t a b := by
  obtain ⟨w₀, hw, he⟩ := wrun_snoc_some h
  obtain ⟨h1, _⟩ := wstep_ret_iff.mp he
  rcases h1 with ⟨o, ho⟩ | ⟨hp, _⟩
  · -- a `done` status with result nil is impossible: lin markers never carry the empty answer
    exfalso
    have h3 := ((state_facts hw t).2 o _ ho).1
    obtain ⟨l₁, l₂, hl⟩ := List.append_of_mem h3
    have hl' : l = (l₁ ++ [.lin t o (.val none)]) ++ l₂ := by rw [hl]; simp
    rw [hl'] at hw
    obtain ⟨w₁, hw₁⟩ := wrun_prefix hw
    obtain ⟨_, _, he₀⟩ := wrun_snoc_some hw₁
    obtain ⟨_, _, _, h5, _⟩ := wstep_lin_iff.mp he₀
    exact h5 rfl
  · exact seen_has_instant hw t hp

/-! ### client-visible values -/

def LEv.invPush : LEv → Option Nat
  | .inv _ (.push v) => some v
  | _ => none

def LEv.retVal : LEv → Option Nat
  | .ret _ (.val (some v)) => some v
  | _ => none

/-- arguments of the invoked Pushes, in invocation order. -/
def invPushVals (l : List LEv) : List Nat := l.filterMap LEv.invPush

/-- values returned by Pops, in return order. -/
def retVals (l : List LEv) : List Nat := l.filterMap LEv.retVal

/-- the operation of thread `t`'s latest invocation. -/
def lastInv (t : Nat) (l : List LEv) : Option Op :=
  l.foldl (fun acc e => match e with
    | .inv t' o => if t' = t then some o else acc
    | _ => acc) none

theorem lastInv_snoc (t : Nat) (l : List LEv) (e : LEv) :
    lastInv t (l ++ [e]) = (match e with
      | .inv t' o => if t' = t then some o else lastInv t l
      | _ => lastInv t l) := by
  unfold lastInv
  rw [List.foldl_append]
  cases e <;> rfl

/-- the replay status of a thread names its latest invocation; a `done` status has its marker in the log. -/
theorem state_lastInv {l : List LEv} {w : WSt} (h : wrun l = some w) (t : Nat) :
    (∀ o b, w.st t = .pend o b → lastInv t l = some o) ∧
    (∀ o r, w.st t = .done o r → lastInv t l = some o ∧ .lin t o r ∈ l) := by
  refine wrun_induction
    (P := fun l w => (∀ o b, w.st t = .pend o b → lastInv t l = some o) ∧
                     (∀ o r, w.st t = .done o r → lastInv t l = some o ∧ .lin t o r ∈ l)) ?_ ?_ l w h
  · exact ⟨fun o b h => (by cases h), fun o r h => (by cases h)⟩
  · intro l w e w' _ ih he
    have mono : ∀ x, x ∈ l → x ∈ l ++ [e] := fun x hx => List.mem_append_left _ hx
    have last : e ∈ l ++ [e] := List.mem_append_right _ (List.mem_singleton.mpr rfl)
    cases e with
    | inv t' o' =>
      obtain ⟨_, h2⟩ := wstep_inv_iff.mp he
      subst h2
      rw [lastInv_snoc]
      by_cases htt : t = t'
      · subst htt
        simp only [upd_same, if_true]
        refine ⟨fun o b hh => ?_, fun o r hh => (by cases hh)⟩
        injection hh with hh _; subst hh; rfl
      · have htt' : ¬ t' = t := fun e => htt e.symm
        simp only [upd_other _ _ _ _ htt, if_neg htt']
        exact ⟨ih.1, fun o r hh => ⟨(ih.2 o r hh).1, mono _ (ih.2 o r hh).2⟩⟩
    | lin t' o' r' =>
      obtain ⟨b, h1, _, _, h4⟩ := wstep_lin_iff.mp he
      subst h4
      rw [lastInv_snoc]
      by_cases htt : t = t'
      · subst htt
        simp only [upd_same]
        refine ⟨fun o b hh => (by cases hh), fun o r hh => ?_⟩
        injection hh with hh1 hh2; subst hh1; subst hh2
        exact ⟨ih.1 _ b h1, last⟩
      · simp only [upd_other _ _ _ _ htt]
        exact ⟨ih.1, fun o r hh => ⟨(ih.2 o r hh).1, mono _ (ih.2 o r hh).2⟩⟩
    | obs t' =>
      obtain ⟨b, h1, _, h4⟩ := wstep_obs_iff.mp he
      subst h4
      rw [lastInv_snoc]
      by_cases htt : t = t'
      · subst htt
        simp only [upd_same]
        refine ⟨fun o b' hh => ?_, fun o r hh => (by cases hh)⟩
        injection hh with hh _; subst hh
        exact ih.1 _ b h1
      · simp only [upd_other _ _ _ _ htt]
        exact ⟨ih.1, fun o r hh => ⟨(ih.2 o r hh).1, mono _ (ih.2 o r hh).2⟩⟩
    | ret t' r' =>
      obtain ⟨_, h4⟩ := wstep_ret_iff.mp he
      subst h4
      rw [lastInv_snoc]
      by_cases htt : t = t'
      · subst htt
        simp only [upd_same]
        exact ⟨fun o b hh => (by cases hh), fun o r hh => (by cases hh)⟩
      · simp only [upd_other _ _ _ _ htt]
        exact ⟨ih.1, fun o r hh => ⟨(ih.2 o r hh).1, mono _ (ih.2 o r hh).2⟩⟩

/-- **no loss**: when a Push returns, the argument of that Push (the thread's latest invocation) has
    taken effect: it has been popped or it is in the abstract queue. -/
theorem no_loss {l : List LEv} {t : Nat} {w : WSt} (h : wrun (l ++ [.ret t .ack]) = some w) :
    ∃ v, lastInv t l = some (.push v) ∧ v ∈ poppedLin l ++ w.q := by
  obtain ⟨w₀, hw, he⟩ := wrun_snoc_some h
  obtain ⟨h1, h2⟩ := wstep_ret_iff.mp he
  have hq : w.q = w₀.q := by rw [h2]
  rcases h1 with ⟨o, ho⟩ | ⟨_, hr⟩
  · obtain ⟨h3, h4⟩ := (state_lastInv hw t).2 o _ ho
    -- the marker's result `ack` forces a push
    cases o with
    | pop =>
      exfalso
      obtain ⟨l₁, l₂, hl⟩ := List.append_of_mem h4
      have hl' : l = (l₁ ++ [.lin t .pop .ack]) ++ l₂ := by rw [hl]; simp
      rw [hl'] at hw
      obtain ⟨w₁, hw₁⟩ := wrun_prefix hw
      obtain ⟨w₂, _, he₀⟩ := wrun_snoc_some hw₁
      obtain ⟨_, _, h5, _⟩ := wstep_lin_iff.mp he₀
      cases hq2 : w₂.q <;> simp [fifoApply, hq2] at h5
    | push v =>
      refine ⟨v, h3, ?_⟩
      rw [hq, ← pushed_eq_popped_append hw]
      exact List.mem_filterMap.mpr ⟨_, h4, rfl⟩
  · cases hr

end Got.Spec.Lin
