import Got.Lemmas.AntsTime
/- ants model: the two channels hold each item once and only items in the `queued` stage -/
namespace Got.Model.Ants
set_option linter.unusedVariables false
set_option linter.unusedSimpArgs false

/-- the two channels hold each item once, and what they hold is in the `queued` stage: the extra guards
    `pc = queued` of `take` / `wTake` in the model are therefore never the reason a transition is disabled -/
structure QueueInv (s : State) : Prop where
  tq : ∀ k, k ∈ s.taskQ → (s.task k).pc = .queued
  tnd : s.taskQ.Nodup
  iq : ∀ k a, (k, a) ∈ s.innerQ → ((s.task k).at_ a).pc = .queued
  ind : s.innerQ.Nodup

theorem queueInv_init : QueueInv init := by
  constructor <;> simp [init]

/-- a queued task only reacts to `take`; a queued closure only to `wTake` -/
theorem tstep_queued {c : Cfg} {now qlen : Nat} {t t' : Task} {act : Act} (ok : TaskOK t)
    (h : tstep c now qlen t act = some t') :
    (t.pc = .queued → (∀ k, act ≠ .take k) → t'.pc = .queued) ∧
    (t.pc ≠ .queued → t'.pc = .queued → ∃ k, act = .enq k) ∧
    (∀ a, (t.at_ a).pc = .queued → (∀ k w, act ≠ .wTake k a w) → (t'.at_ a).pc = .queued) ∧
    (∀ a, (t.at_ a).pc ≠ .queued → (t'.at_ a).pc = .queued → ∃ k, act = .sendCl k ∧ a = t.cur) := by
  have hb := ok.beyond t.att (Nat.le_refl _)
  cases act <;> simp only [tstep] at h <;> (repeat' split at h) <;> (try cases h) <;>
    (refine ⟨?_, ?_, ?_, ?_⟩ <;> intros <;> simp_all [Task.setAt, upd] <;> (try split at * <;> simp_all))

theorem step_taskQ {c : Cfg} {s s2 : State} {act : Act} (h : step c s act = some s2) :
    (∃ k, act = .enq k ∧ s2.taskQ = s.taskQ ++ [k]) ∨ (∃ k, act = .take k ∧ s.taskQ = k :: s2.taskQ) ∨
    ((∀ k, act ≠ .enq k) ∧ (∀ k, act ≠ .take k) ∧ s2.taskQ = s.taskQ) := by
  cases act
  case enq k =>
    left
    simp only [step] at h
    (repeat' split at h) <;> (try cases h)
    exact ⟨k, rfl, rfl⟩
  case take k =>
    right; left
    simp only [step] at h
    split at h
    · cases h
    · split at h
      · rename_i k' rest hq
        by_cases hg : k' = (Act.take k).task ∧ dispatching s < c.N
        · simp only [hg, and_self, ↓reduceIte, Option.some.injEq] at h
          subst h
          exact ⟨k, rfl, by rw [hq, hg.1]; rfl⟩
        · simp [hg] at h
      · cases h
  all_goals
    right; right
    refine ⟨(by intro _ e; cases e), (by intro _ e; cases e), ?_⟩
    simp only [step] at h
    (repeat' split at h) <;> (try cases h) <;> rfl

theorem step_innerQ {c : Cfg} {s s2 : State} {act : Act} (h : step c s act = some s2) :
    (∃ k, act = .sendCl k ∧ s2.innerQ = s.innerQ ++ [(k, (s.task k).cur)]) ∨
    (∃ k a w, act = .wTake k a w ∧ s.innerQ = (k, a) :: s2.innerQ) ∨
    ((∀ k, act ≠ .sendCl k) ∧ (∀ k a w, act ≠ .wTake k a w) ∧ s2.innerQ = s.innerQ) := by
  cases act
  case sendCl k =>
    left
    simp only [step] at h
    (repeat' split at h) <;> (try cases h)
    exact ⟨k, rfl, rfl⟩
  case wTake k a w =>
    right; left
    simp only [step] at h
    split at h
    · cases h
    · split at h
      · rename_i p rest hq
        by_cases hg : p = ((Act.wTake k a w).task, a) ∧ w < c.N ∧ s.slot w = none
        · simp only [hg, and_self, ↓reduceIte, Option.some.injEq] at h
          subst h
          exact ⟨k, a, w, rfl, by rw [hq, hg.1]; rfl⟩
        · simp [hg] at h
      · cases h
  all_goals
    right; right
    refine ⟨(by intro _ e; cases e), (by intro _ _ _ e; cases e), ?_⟩
    simp only [step] at h
    (repeat' split at h) <;> (try cases h) <;> rfl

theorem queueInv_step {c : Cfg} {s s2 : State} {act : Act} (hinv : Inv s) (hq : QueueInv s)
    (h : step c s act = some s2) : QueueInv s2 := by
  rcases step_task h with ⟨t, rfl, ht⟩ | ⟨t', ht, hst⟩
  · -- the clock: nothing but `now` changes
    simp only [step] at h
    split at h
    · cases h; exact ⟨hq.tq, hq.tnd, hq.iq, hq.ind⟩
    · cases h
  have hqd := tstep_queued (hinv act.task) ht
  -- task k' after the step
  have htask : ∀ k', k' ≠ act.task → s2.task k' = s.task k' := by
    intro k' hk; rw [hst]; simp [hk]
  have hself : s2.task act.task = t' := by rw [hst]; simp
  constructor
  · -- tq
    intro k' hk'
    rcases step_taskQ h with ⟨k, rfl, e⟩ | ⟨k, rfl, e⟩ | ⟨n1, n2, e⟩
    · rw [e] at hk'
      by_cases hkk : k' = k
      · subst hkk
        have : (Act.enq k').task = k' := rfl
        rw [this] at hself; rw [hself]
        simp only [tstep] at ht
        split at ht <;> cases ht
        rfl
      · have hm : k' ∈ s.taskQ := by
          rcases List.mem_append.mp hk' with h1 | h1
          · exact h1
          · simp at h1; exact absurd h1 hkk
        rw [htask k' hkk]; exact hq.tq k' hm
    · have hnd := hq.tnd
      rw [e] at hnd
      have hne : k' ≠ k := by
        intro hkk; subst hkk
        exact (List.nodup_cons.mp hnd).1 hk'
      rw [htask k' hne]
      exact hq.tq k' (by rw [e]; exact List.mem_cons_of_mem _ hk')
    · rw [e] at hk'
      by_cases hkk : k' = act.task
      · subst hkk; rw [hself]; exact hqd.1 (hq.tq _ hk') n2
      · rw [htask k' hkk]; exact hq.tq k' hk'
  · -- tnd
    rcases step_taskQ h with ⟨k, rfl, e⟩ | ⟨k, rfl, e⟩ | ⟨_, _, e⟩
    · rw [e]
      have hnot : k ∉ s.taskQ := by
        intro hm
        have := hq.tq k hm
        simp only [tstep, Act.task] at ht
        by_cases hp : (s.task k).pc = .enq
        · rw [hp] at this; cases this
        · simp [hp] at ht
      exact List.nodup_append.mpr ⟨hq.tnd, by simp, by
        intro a ha b hb; simp at hb; subst hb; intro e; subst e; exact hnot ha⟩
    · have := hq.tnd; rw [e] at this; exact (List.nodup_cons.mp this).2
    · rw [e]; exact hq.tnd
  · -- iq
    intro k' a' hk'
    rcases step_innerQ h with ⟨k, rfl, e⟩ | ⟨k, a, w, rfl, e⟩ | ⟨n1, n2, e⟩
    · rw [e] at hk'
      have hk : (Act.sendCl k).task = k := rfl
      rw [hk] at hself hqd ht
      rcases List.mem_append.mp hk' with h1 | h1
      · by_cases hkk : k' = k
        · subst hkk; rw [hself]
          exact hqd.2.2.1 a' (hq.iq _ _ h1) (by intro _ _ e; cases e)
        · rw [htask k' hkk]; exact hq.iq _ _ h1
      · simp only [List.mem_singleton, Prod.mk.injEq] at h1
        obtain ⟨rfl, rfl⟩ := h1
        rw [hself]
        simp only [tstep] at ht
        split at ht <;> cases ht
        simp [Task.setAt]
    · have hk : (Act.wTake k a w).task = k := rfl
      rw [hk] at hself hqd ht
      have hnd := hq.ind
      rw [e] at hnd
      have hne : (k', a') ≠ (k, a) := by
        intro hkk; rw [hkk] at hk'
        exact (List.nodup_cons.mp hnd).1 hk'
      have hold := hq.iq k' a' (by rw [e]; exact List.mem_cons_of_mem _ hk')
      by_cases hkk : k' = k
      · subst hkk; rw [hself]
        have ha : a' ≠ a := by intro e; subst e; exact hne rfl
        exact hqd.2.2.1 a' hold (by intro _ _ e; cases e; exact ha rfl)
      · rw [htask k' hkk]; exact hold
    · rw [e] at hk'
      by_cases hkk : k' = act.task
      · subst hkk; rw [hself]; exact hqd.2.2.1 a' (hq.iq _ _ hk') (by intro k w e; exact n2 _ _ _ e)
      · rw [htask k' hkk]; exact hq.iq _ _ hk'
  · -- ind
    rcases step_innerQ h with ⟨k, rfl, e⟩ | ⟨k, a, w, rfl, e⟩ | ⟨_, _, e⟩
    · rw [e]
      have hnot : (k, (s.task k).cur) ∉ s.innerQ := by
        intro hm
        have := hq.iq _ _ hm
        simp only [tstep, Act.task] at ht
        by_cases hp : (s.task k).pc = .sendCl ∧ ((s.task k).at_ (s.task k).cur).pc = .none
        · rw [hp.2] at this; cases this
        · simp [hp] at ht
      exact List.nodup_append.mpr ⟨hq.ind, by simp, by
        intro x hx y hy; simp at hy; subst hy; intro e; subst e; exact hnot hx⟩
    · have := hq.ind; rw [e] at this; exact (List.nodup_cons.mp this).2
    · rw [e]; exact hq.ind

theorem queueInv_run {c : Cfg} (hc : c.old = false) {acts : List Act} {s s2 : State} (hinv : Inv s) (hq : QueueInv s)
    (h : run c s acts = some s2) : QueueInv s2 := by
  induction acts generalizing s with
  | nil => simp [run] at h; subst h; exact hq
  | cons a rest ih =>
    simp only [run] at h
    split at h
    · cases h
    · rename_i s1 hs; exact ih (inv_step hc hinv hs) (queueInv_step hinv hq hs) h

theorem queueInv_reachable {c : Cfg} (hc : c.old = false) {s : State} (h : Reachable c s) : QueueInv s := by
  obtain ⟨acts, ha⟩ := h
  exact queueInv_run hc inv_init queueInv_init ha

end Got.Model.Ants
