import Got.Lemmas.CodecAst
import Got.Lemmas.BytesCorollaries
import Got.Model.BytesStreamAst
/-
Translator tie of C13 (iox.OctetsStream as a seekable FIFO byte stream).

`Got.Generated.AstIox` holds the MiniGoBytes terms tools/srcfacts (minigo_codec.go) regenerates from
/repo/iox/octets_stream.go on every run.  For each stream operation the hand-written model `Got.Model.Bytes.Stream`
covers, the theorem `s_<op>_ast` states that interpreting the *generated* term (`run table "OctetsStream.<Method>"`) on
an arbitrary stream state `⟨buf, pos, alloc⟩` with `pos ≤ len buf` (the representation invariant; `pos : Nat`, i.e.
`0 ≤ position`) returns exactly the model's results and ends in exactly the model's state:

    run table "OctetsStream.X" fuel args ⟨buf, pos, a⟩ = some (<encoding of (mdl buf pos).X …>)

`mdl buf pos` is the model's stream with the same bytes (the model holds bytes as `Nat`, the embedding as `BitVec 8`),
`conc s a` goes back.  Seek: the embedding computes `num += offset` in `BitVec 64` (two's complement wrap-around, signed
comparison), the model in `Int` with `wrap64`; the theorem covers ALL int64 offsets and ALL `whence` values.
-/
set_option linter.unusedSimpArgs false
set_option linter.unusedVariables false
namespace Got.Lemmas.BytesStreamAst
open Got.Model.MiniGoBytes Got.Generated.AstIox Got.Lemmas.CodecAst
open Got.Model.Bytes (Stream wrap64 copyAt)
open Got.Model.BytesStreamAst (astCall outState astRun)

/-- the model's stream represented by a state of the embedding -/
def mdl (buf : List Byte) (pos : Nat) : Stream := ⟨buf.map BitVec.toNat, pos⟩

/-- the embedding's state for a stream of the model (`a` = ghost allocation counter, untouched by these methods) -/
def conc (s : Stream) (a : Nat) : St := ⟨s.buf.map (BitVec.ofNat 8), (s.pos : Int), a⟩

theorem map_ofNat_toNat (l : List Byte) : (l.map BitVec.toNat).map (BitVec.ofNat 8) = l := by
  induction l with
  | nil => rfl
  | cons b t ih => simp [ih]

theorem map_ofNat_toNat' (l : List Byte) : l.map (BitVec.ofNat 8 ∘ BitVec.toNat) = l := by
  rw [← List.map_map, map_ofNat_toNat]

theorem conc_mdl (buf : List Byte) (pos a : Nat) : conc (mdl buf pos) a = ⟨buf, pos, a⟩ := by
  simp [conc, mdl, map_ofNat_toNat']

theorem mdl_conc_inv (buf : List Byte) (pos a : Nat) :
    mdl (conc (mdl buf pos) a).buffer (conc (mdl buf pos) a).position.toNat = mdl buf pos := by
  simp [conc_mdl]

/-- the model's error enum ↦ the embedding's `error` value -/
def cvS : Stream.Err → Option Err
  | .nil => none
  | .invalidArgument => some .InvalidArgument
  | .notEnoughData => some .NotEnoughData

/-! ### table look-ups (by evaluation on the generated table) -/
theorem tbl_Len : table "OctetsStream.Len" = some OctetsStream_Len := rfl
theorem tbl_Position : table "OctetsStream.Position" = some OctetsStream_Position := rfl
theorem tbl_Bytes : table "OctetsStream.Bytes" = some OctetsStream_Bytes := rfl
theorem tbl_Tidy : table "OctetsStream.Tidy" = some OctetsStream_Tidy := rfl
theorem tbl_Reset : table "OctetsStream.Reset" = some OctetsStream_Reset := rfl
theorem tbl_Seek : table "OctetsStream.Seek" = some OctetsStream_Seek := rfl

/-! ### observers -/

/-- `Len()` = the model's `len` (total retained length) -/
theorem s_len_ast (buf : List Byte) (pos a : Nat) (fuel : Nat) (hf : 2 ≤ fuel) :
    run table "OctetsStream.Len" fuel [] ⟨buf, pos, a⟩ = some (.ret [.int (mdl buf pos).len] [] ⟨buf, pos, a⟩) := by
  obtain ⟨f, rfl⟩ : ∃ f, fuel = f + 2 := ⟨fuel - 2, by omega⟩
  rw [run_eq tbl_Len _ _ _ rfl]
  simp only [OctetsStream_Len]
  ast_eval
  simp [mdl, Stream.len]

/-- `Position()` = the model's `position` -/
theorem s_position_ast (buf : List Byte) (pos a : Nat) (fuel : Nat) (hf : 2 ≤ fuel) :
    run table "OctetsStream.Position" fuel [] ⟨buf, pos, a⟩ =
      some (.ret [.int (mdl buf pos).position] [] ⟨buf, pos, a⟩) := by
  obtain ⟨f, rfl⟩ : ∃ f, fuel = f + 2 := ⟨fuel - 2, by omega⟩
  rw [run_eq tbl_Position _ _ _ rfl]
  simp only [OctetsStream_Position]
  ast_eval
  simp [mdl, Stream.position]

/-- what the translated `Bytes()` returns for the model's `bytes?` (`none` = Go panic: slice bounds out of range) -/
def bytesOut (st : St) : Option (List Nat) → Out
  | some bs => .ret [.bytes (bs.map (BitVec.ofNat 8))] [] st
  | none => .panic

/-- `Bytes()` = the model's `bytes?` — for ALL states, including `pos > len` where both panic -/
theorem s_bytes_ast (buf : List Byte) (pos a : Nat) (fuel : Nat) (hf : 2 ≤ fuel) :
    run table "OctetsStream.Bytes" fuel [] ⟨buf, pos, a⟩ = some (bytesOut ⟨buf, pos, a⟩ (mdl buf pos).bytes?) := by
  obtain ⟨f, rfl⟩ : ∃ f, fuel = f + 2 := ⟨fuel - 2, by omega⟩
  rw [run_eq tbl_Bytes _ _ _ rfl]
  simp only [OctetsStream_Bytes]
  have hn : ¬ ((pos : Int) < 0) := by omega
  by_cases h : pos ≤ buf.length
  · have h1 : ¬ ((buf.length : Int) < (pos : Int)) := by omega
    ast_eval [hn, h1]
    simp [mdl, Stream.bytes?, h, bytesOut, ← List.map_drop, map_ofNat_toNat']
  · have h1 : (buf.length : Int) < (pos : Int) := by omega
    ast_eval [hn, h1]
    simp [mdl, Stream.bytes?, h, bytesOut]


/-! ### Reset, Tidy -/

/-- a method without results that ends in the model's stream `s` -/
def unitOut (s : Stream) (a : Nat) : Out := .ret [] [] (conc s a)

/-- `Reset()` = the model's `reset` -/
theorem s_reset_ast (buf : List Byte) (pos a : Nat) (fuel : Nat) (hf : 4 ≤ fuel) :
    run table "OctetsStream.Reset" fuel [] ⟨buf, pos, a⟩ = some (unitOut (mdl buf pos).reset a) := by
  obtain ⟨f, rfl⟩ : ∃ f, fuel = f + 4 := ⟨fuel - 4, by omega⟩
  rw [run_eq tbl_Reset _ _ _ rfl]
  simp only [OctetsStream_Reset]
  have h0 : ¬ ((buf.length : Int) < 0) := by omega
  ast_eval [Val.sliceTo, sliceList, h0]
  simp [unitOut, conc, Stream.reset]

theorem copyInto_tidy (buf : List Byte) (pos : Nat) (h : pos ≤ buf.length) :
    (copyInto buf (buf.drop pos)).length = buf.length ∧
    (copyInto buf (buf.drop pos)).take (buf.length - pos) = buf.drop pos := by
  unfold copyInto
  have hl : (buf.drop pos).length = buf.length - pos := List.length_drop
  have ht : (buf.drop pos).take buf.length = buf.drop pos := List.take_of_length_le (by omega)
  rw [ht]
  refine ⟨by simp only [List.length_append, List.length_drop]; omega, ?_⟩
  rw [List.take_append_of_le_length (by omega), List.take_of_length_le (by omega)]

/-- the model's `tidy` is "drop the consumed prefix" -/
theorem mdl_tidy (buf : List Byte) (pos : Nat) (h : pos ≤ buf.length) : (mdl buf pos).tidy = mdl (buf.drop pos) 0 := by
  unfold Stream.tidy mdl
  by_cases hpos : pos > 0
  · simp only [hpos, if_true]
    have hsrc : ((buf.map BitVec.toNat).drop pos).length = (buf.map BitVec.toNat).length - pos := List.length_drop
    have := Got.Lemmas.Bytes.copyAt_zero_take (buf.map BitVec.toNat) ((buf.map BitVec.toNat).drop pos)
      (by rw [hsrc]; omega)
    rw [hsrc] at this; rw [this, List.map_drop]
  · have h0 : pos = 0 := by omega
    subst h0
    simp

/-- `Tidy()` = the model's `tidy`, in every state with `pos ≤ len` -/
theorem s_tidy_ast (buf : List Byte) (pos a : Nat) (fuel : Nat) (hf : 8 ≤ fuel) (hp : pos ≤ buf.length) :
    run table "OctetsStream.Tidy" fuel [] ⟨buf, pos, a⟩ = some (unitOut (mdl buf pos).tidy a) := by
  obtain ⟨f, rfl⟩ : ∃ f, fuel = f + 8 := ⟨fuel - 8, by omega⟩
  rw [run_eq tbl_Tidy _ _ _ rfl, mdl_tidy buf pos hp]
  simp only [OctetsStream_Tidy, unitOut, conc_mdl]
  by_cases h : 0 < pos
  · have h1 : (0 : Int) < (pos : Int) := by omega
    have hn : ¬ ((pos : Int) < 0 ∨ (buf.length : Int) < (pos : Int)) := by omega
    obtain ⟨hl, ht⟩ := copyInto_tidy buf pos hp
    have h2 : ¬ ((buf.length : Int) - (pos : Int) < 0 ∨
        (buf.length : Int) < (buf.length : Int) - (pos : Int)) := by omega
    have h3 : ((buf.length : Int) - (pos : Int)).toNat = buf.length - pos := by omega
    ast_eval [h1, hn, Val.sliceTo, sliceList, hl, h2, h3, ht, List.drop_zero]
    rfl
  · have h0 : pos = 0 := by omega
    subst h0
    ast_eval
    simp [exec_nil]


/-! ### writers -/

/-- a writer: result `nil`, the slice parameter (if any) unchanged, the model's state -/
def wOut (outs : List (Option (List Byte))) (s : Stream) (a : Nat) : Out := .ret [.err none] outs (conc s a)

/-- `Write(data)` = the model's `write` (re-using the codec family's refinement of the same generated term) -/
theorem s_write_ast' (buf data : List Byte) (pos a : Nat) (fuel : Nat) (hf : 5 ≤ fuel) :
    run table "OctetsStream.Write" fuel [.bytes data] ⟨buf, pos, a⟩ =
      some (wOut [some data] ((mdl buf pos).write (data.map BitVec.toNat)) a) := by
  rw [s_write_ast data _ fuel hf, Got.Lemmas.Codec.writeRaw_eq, Got.Lemmas.Bytes.write_eq_append]
  simp [wOut, conc, mdl, Stream.append, map_ofNat_toNat']

/-- `WriteByte(b)` = the model's `append [b]` -/
theorem s_writeByte_ast' (buf : List Byte) (b : Byte) (pos a : Nat) (fuel : Nat) (hf : 3 ≤ fuel) :
    run table "OctetsStream.WriteByte" fuel [.bv 8 false b] ⟨buf, pos, a⟩ =
      some (wOut [none] ((mdl buf pos).append [b.toNat]) a) := by
  rw [s_writeByte_ast b _ fuel hf]
  simp [writeOut, wOut, conc, mdl, Stream.append, map_ofNat_toNat', Got.Model.Codec.writeByte]

/-! ### ReadByte -/

/-- what the translated `ReadByte()` returns for the model's result -/
def byteOut (a : Nat) : Stream × Stream.Out → Out
  | (s, .byte b e) => .ret [.bv 8 false (BitVec.ofNat 8 b), .err (cvS e)] [] (conc s a)
  | _ => .panic

theorem mdl_readByte_lt (buf : List Byte) (pos : Nat) (h : pos < buf.length) :
    (mdl buf pos).readByte = (mdl buf (pos + 1), .byte buf[pos].toNat .nil) := by
  have h1 : ¬ (pos ≥ (buf.map BitVec.toNat).length) := by simp; omega
  simp only [Stream.readByte, mdl, h1, if_false]
  simp [List.getD_eq_getElem?_getD, h]

theorem mdl_readByte_ge (buf : List Byte) (pos : Nat) (h : buf.length ≤ pos) :
    (mdl buf pos).readByte = (mdl buf pos, .byte 0 .notEnoughData) := by
  have h1 : pos ≥ (buf.map BitVec.toNat).length := by simp; omega
  simp only [Stream.readByte, mdl, h1, if_true]

/-- `ReadByte()` = the model's `readByte` (all states) -/
theorem s_readByte_ast' (buf : List Byte) (pos a : Nat) (fuel : Nat) (hf : 5 ≤ fuel) :
    run table "OctetsStream.ReadByte" fuel [] ⟨buf, pos, a⟩ = some (byteOut a (mdl buf pos).readByte) := by
  rw [s_readByte_ast buf pos a fuel hf]
  by_cases h : pos < buf.length
  · rw [Got.Lemmas.Codec.readByte_lt buf pos h, mdl_readByte_lt buf pos h]
    simp [byteOut, readOut, conc_mdl, cvS]
  · rw [Got.Lemmas.Codec.readByte_ge buf pos (by omega), mdl_readByte_ge buf pos (by omega)]
    simp [byteOut, readOut, conc_mdl, cvS, cv]


/-! ### Seek

`num` is an `int64` in the Go code.  The embedding holds it as `BitVec 64` (addition wraps, `<` is the signed
comparison `slt`), the model as an `Int` re-normalised by `wrap64`. -/

theorem toInt_ofInt_small (n : Nat) (h : (n : Int) < 2 ^ 63) : (BitVec.ofInt 64 (n : Int)).toInt = n := by
  rw [BitVec.toInt_ofInt]
  simp only [Int.reducePow, Nat.reducePow] at *
  unfold Int.bmod
  simp only [Int.reducePow, Nat.reducePow, Int.cast_ofNat_Int] at *
  omega

/-- two's-complement `x + o` in 64 bits is the model's `wrap64 (num + o)` -/
theorem add_toInt_wrap (x o : BitVec 64) (num : Int) (hx : x.toInt = num) :
    (x + o).toInt = wrap64 (num + o.toInt) := by
  rw [BitVec.toInt_add, hx]
  unfold wrap64 Int.bmod
  simp only [Int.reducePow, Nat.reducePow, Int.cast_ofNat_Int] at *
  omega

theorem eq_ofNat_of_toInt (v : BitVec 64) (N : Int) (h : v.toInt = N) (h0 : 0 ≤ N) : v = BitVec.ofNat 64 N.toNat := by
  rw [← BitVec.ofInt_toInt (x := v), h, ← BitVec.ofInt_natCast]
  congr 1
  omega

/-- the model's `go num` inside `seek` -/
def goM (buf : List Byte) (pos : Nat) (num o : Int) : Stream × Stream.Out :=
  if wrap64 (num + o) < 0 ∨ wrap64 (num + o) > (buf.length : Int) then (mdl buf pos, .seek 0 .invalidArgument)
  else (mdl buf (wrap64 (num + o)).toNat, .seek (wrap64 (num + o)).toNat .nil)

theorem mdl_seek (buf : List Byte) (pos : Nat) (o w : Int) :
    (mdl buf pos).seek o w =
      if w = 0 then (if o < 0 then (mdl buf pos, .seek 0 .invalidArgument) else goM buf pos 0 o)
      else if w = 1 then goM buf pos pos o
      else if w = 2 then goM buf pos buf.length o
      else (mdl buf pos, .seek 0 .invalidArgument) := by
  unfold Stream.seek goM mdl
  simp only [List.length_map]

/-- what the translated `Seek` returns for the model's result -/
def seekOut (a : Nat) : Stream × Stream.Out → Out
  | (s, .seek r e) => .ret [.bv 64 true (BitVec.ofNat 64 r), .err (cvS e)] [none, none] (conc s a)
  | _ => .panic

def seekRes (a : Nat) : Stream × Stream.Out → Res
  | (s, .seek r e) => .ret [.bv 64 true (BitVec.ofNat 64 r), .err (cvS e)] [none, none] (conc s a)
  | _ => .panic

theorem finish_seekRes (ps : List String) (a : Nat) (X : Stream × Stream.Out) :
    finish ps (some (seekRes a X)) = some (seekOut a X) := by
  obtain ⟨s, out⟩ := X
  cases out <;> rfl

/-- the statements of `Seek` after the `switch whence` (`num += offset` … `return num, nil`) -/
def seekTail : List Stmt := OctetsStream_Seek.body.drop 2

theorem seek_tail_ast (buf : List Byte) (pos a : Nat) (env : Env) (x o : BitVec 64) (num : Nat) (w : Int) (f : Nat)
    (hx : x.toInt = num) (hL : (buf.length : Int) < 2 ^ 63)
    (hv0 : env.lookup "v0" = some (.bv 64 true x)) (ha0 : env.lookup "a0" = some (.bv 64 true o))
    (ha1 : env.lookup "a1" = some (.int w)) :
    exec table ["a0", "a1"] (f + 6) seekTail env ⟨buf, pos, a⟩ = some (seekRes a (goM buf pos num o.toInt)) := by
  have hv : (x + o).toInt = wrap64 ((num : Int) + o.toInt) := add_toInt_wrap x o num hx
  have hlen : (BitVec.ofInt 64 (buf.length : Int)).toInt = buf.length := toInt_ofInt_small _ hL
  have hz : (0#64 : BitVec 64).toInt = 0 := by decide
  simp only [seekTail, OctetsStream_Seek, List.drop]
  unfold goM
  generalize wrap64 ((num : Int) + o.toInt) = N at hv
  by_cases h1 : N < 0
  · have hc : (N < 0 ∨ N > (buf.length : Int)) := Or.inl h1
    rw [if_pos hc]
    ast_eval [hv0, ha0, ha1, BitVec.slt, hv, hlen, hz, h1]
    simp [seekRes, conc_mdl, cvS]
  · by_cases h2 : (buf.length : Int) < N
    · have hc : (N < 0 ∨ N > (buf.length : Int)) := Or.inr h2
      rw [if_pos hc]
      ast_eval [hv0, ha0, ha1, BitVec.slt, hv, hlen, hz, h1, h2]
      simp [seekRes, conc_mdl, cvS]
    · have hc : ¬ (N < 0 ∨ N > (buf.length : Int)) := by omega
      rw [if_neg hc]
      have hN : ((N.toNat : Nat) : Int) = N := by omega
      ast_eval [hv0, ha0, ha1, BitVec.slt, hv, hlen, hz, h1, h2]
      simp [seekRes, conc_mdl, cvS, hN, ← eq_ofNat_of_toInt (x + o) N hv (by omega)]


/-- **Seek(offset, whence)** = the model's `seek`, for ALL int64 offsets (including those where `num += offset`
    overflows and wraps) and ALL `whence` values, in every state with `pos ≤ len buf < 2^63` -/
theorem s_seek_ast (buf : List Byte) (pos a : Nat) (o : BitVec 64) (w : Int) (fuel : Nat) (hf : 16 ≤ fuel)
    (hp : pos ≤ buf.length) (hL : (buf.length : Int) < 2 ^ 63) :
    run table "OctetsStream.Seek" fuel [.bv 64 true o, .int w] ⟨buf, pos, a⟩ =
      some (seekOut a ((mdl buf pos).seek o.toInt w)) := by
  obtain ⟨f, rfl⟩ : ∃ f, fuel = f + 16 := ⟨fuel - 16, by omega⟩
  rw [run_eq tbl_Seek _ _ _ rfl, mdl_seek]
  have hb : OctetsStream_Seek.body = OctetsStream_Seek.body.take 2 ++ seekTail := (List.take_append_drop 2 _).symm
  rw [hb]
  simp only [OctetsStream_Seek, List.take, List.cons_append, List.nil_append]
  have hz : (0#64 : BitVec 64).toInt = 0 := by decide
  by_cases hw0 : w = 0
  · subst hw0
    rw [if_pos rfl]
    by_cases hneg : o.toInt < 0
    · rw [if_pos hneg]
      ast_eval [BitVec.slt, hz, hneg]
      simp [seekOut, conc_mdl, cvS]
    · rw [if_neg hneg]
      ast_eval [BitVec.slt, hz, hneg]
      rw [seek_tail_ast buf pos a _ 0#64 o 0 0 (f + 8) hz hL rfl rfl rfl]
      exact finish_seekRes ["a0", "a1"] a (goM buf pos 0 o.toInt)
  · rw [if_neg hw0]
    by_cases hw1 : w = 1
    · subst hw1
      rw [if_pos rfl]
      have hx : (BitVec.ofInt 64 (pos : Int)).toInt = pos := toInt_ofInt_small pos (by omega)
      ast_eval [BitVec.slt, hz, Int.reduceEq]
      rw [seek_tail_ast buf pos a _ (BitVec.ofInt 64 (pos : Int)) o pos 1 (f + 8) hx hL rfl rfl rfl]
      exact finish_seekRes ["a0", "a1"] a (goM buf pos pos o.toInt)
    · rw [if_neg hw1]
      by_cases hw2 : w = 2
      · subst hw2
        rw [if_pos rfl]
        have hx : (BitVec.ofInt 64 (buf.length : Int)).toInt = buf.length := toInt_ofInt_small _ hL
        ast_eval [BitVec.slt, hz, Int.reduceEq]
        rw [seek_tail_ast buf pos a _ (BitVec.ofInt 64 (buf.length : Int)) o buf.length 2 (f + 8) hx hL rfl rfl rfl]
        exact finish_seekRes ["a0", "a1"] a (goM buf pos buf.length o.toInt)
      · rw [if_neg hw2]
        ast_eval [hw0, hw1, hw2]
        simp [seekOut, conc_mdl, cvS]


/-! ### Read -/

theorem mdl_read_zero (buf : List Byte) (pos : Nat) : (mdl buf pos).read 0 = (mdl buf pos, .read [] .invalidArgument) := by
  simp [Stream.read]

theorem mdl_read_empty (buf : List Byte) (pos k : Nat) (hk : k ≠ 0) (h : pos = buf.length) :
    (mdl buf pos).read k = (mdl buf pos, .read [] .nil) := by
  simp [Stream.read, mdl, hk, h]

theorem mdl_read_some (buf : List Byte) (pos k : Nat) (hk : k ≠ 0) (h : pos < buf.length) :
    (mdl buf pos).read k = (mdl buf (pos + min k (buf.length - pos)),
      .read (((buf.drop pos).take (min k (buf.length - pos))).map BitVec.toNat) .nil) := by
  unfold Stream.read mdl
  have hrem : ¬ (((buf.map BitVec.toNat).length : Int) - (pos : Int) = 0) := by simp; omega
  simp only [hk, if_false, hrem]
  have hclamp : ¬ ((if (k : Int) > ((buf.map BitVec.toNat).length : Int) - (pos : Int)
      then ((buf.map BitVec.toNat).length : Int) - (pos : Int) else (k : Int)) < 0) := by
    simp only [List.length_map]; split <;> omega
  have hmin : (if (k : Int) > ((buf.map BitVec.toNat).length : Int) - (pos : Int)
      then ((buf.map BitVec.toNat).length : Int) - (pos : Int) else (k : Int)).toNat = min k (buf.length - pos) := by
    simp only [List.length_map]; split <;> omega
  simp only [hclamp, if_false, hmin, List.map_take, List.map_drop]

/-- what the translated `Read(dst)` returns for the model's result: the count, the error, and — through the slice
    parameter — the caller's buffer with the data copied over its first bytes -/
def readOut' (a : Nat) (dst : List Byte) : Stream × Stream.Out → Out
  | (s, .read data e) =>
    .ret [.int data.length, .err (cvS e)] [some (data.map (BitVec.ofNat 8) ++ dst.drop data.length)] (conc s a)
  | _ => .panic

theorem copyInto_read (buf dst : List Byte) (pos n : Nat) (hn : n ≤ dst.length) (hpn : pos + n ≤ buf.length) :
    copyInto dst ((buf.take (pos + n)).drop pos) = (buf.drop pos).take n ++ dst.drop n := by
  have e : (buf.take (pos + n)).drop pos = (buf.drop pos).take n := by
    rw [List.drop_take]; congr 1; omega
  have hl : ((buf.drop pos).take n).length = n := by
    rw [List.length_take, List.length_drop]; omega
  unfold copyInto
  rw [e, hl, List.take_of_length_le (by omega)]

theorem read_fin (buf dst : List Byte) (pos a n : Nat) (N P : Int) (hn : n ≤ dst.length) (hpn : pos + n ≤ buf.length)
    (hN : N = n) (hP : P = pos + n) :
    Out.ret [Val.int N, .err none] [some ((buf.drop pos).take n ++ dst.drop n)] ⟨buf, P, a⟩ =
      readOut' a dst (mdl buf (pos + n), .read (((buf.drop pos).take n).map BitVec.toNat) .nil) := by
  subst hN hP
  have hl : ((buf.drop pos).take n).length = n := by
    rw [List.length_take, List.length_drop]; omega
  simp [readOut', conc_mdl, cvS, hl, map_ofNat_toNat']
  omega

/-- **Read(dst)** = the model's `read (len dst)`, for every destination slice and every state with `pos ≤ len buf` -/
theorem s_read_ast (buf dst : List Byte) (pos a : Nat) (fuel : Nat) (hf : 14 ≤ fuel) (hp : pos ≤ buf.length) :
    run table "OctetsStream.Read" fuel [.bytes dst] ⟨buf, pos, a⟩ =
      some (readOut' a dst ((mdl buf pos).read dst.length)) := by
  obtain ⟨f, rfl⟩ : ∃ f, fuel = f + 14 := ⟨fuel - 14, by omega⟩
  rw [run_eq tbl_s_Read _ _ _ rfl]
  simp only [OctetsStream_Read]
  by_cases hk : dst.length = 0
  · have hd : dst = [] := List.eq_nil_of_length_eq_zero hk
    subst hd
    rw [List.length_nil, mdl_read_zero]
    ast_eval [Int.natCast_zero, Int.reduceEq]
    simp [readOut', conc_mdl, cvS]
  · have hk' : ¬ ((dst.length : Int) = 0) := by omega
    by_cases he : pos = buf.length
    · rw [mdl_read_empty buf pos _ hk he]
      subst he
      ast_eval [hk', Int.sub_self]
      simp [readOut', conc_mdl, cvS]
    · rw [mdl_read_some buf pos _ hk (by omega)]
      have hr : ¬ ((buf.length : Int) - (pos : Int) = 0) := by omega
      by_cases hlt : buf.length - pos < dst.length
      · have h3 : (buf.length : Int) - (pos : Int) < (dst.length : Int) := by omega
        have hmin : min dst.length (buf.length - pos) = buf.length - pos := by omega
        have h4 : ¬ ((pos : Int) < 0 ∨ (pos : Int) + ((buf.length : Int) - (pos : Int)) < (pos : Int) ∨
            (buf.length : Int) < (pos : Int) + ((buf.length : Int) - (pos : Int))) := by omega
        have h5 : ((pos : Int) + ((buf.length : Int) - (pos : Int))).toNat = pos + (buf.length - pos) := by omega
        ast_eval [hk', hr, h3, Val.slice, sliceList, h4, h5,
          copyInto_read buf dst pos (buf.length - pos) (by omega) (by omega)]
        rw [hmin]
        exact read_fin buf dst pos a (buf.length - pos) _ _ (by omega) (by omega) (by omega) (by omega)
      · have hmin : min dst.length (buf.length - pos) = dst.length := by omega
        have h3 : ¬ ((buf.length : Int) - (pos : Int) < (dst.length : Int)) := by omega
        have h4 : ¬ ((pos : Int) < 0 ∨ (pos : Int) + (dst.length : Int) < (pos : Int) ∨
            (buf.length : Int) < (pos : Int) + (dst.length : Int)) := by omega
        have h5 : ((pos : Int) + (dst.length : Int)).toNat = pos + dst.length := by omega
        ast_eval [hk', hr, h3, Val.slice, sliceList, h4, h5,
          copyInto_read buf dst pos dst.length (by omega) (by omega)]
        try ast_eval [hk', hr, h3, Val.slice, sliceList, h4, h5,
          copyInto_read buf dst pos dst.length (by omega) (by omega)]
        rw [hmin]
        exact read_fin buf dst pos a dst.length _ _ (by omega) (by omega) (by omega) (by omega)



/-! ### the fixed-width writers (WriteBool, WriteInt16/32/64)

Their generated terms are tied to the codec model (`Got.Model.Codec`, bytes as `BitVec 8`, arguments as `BitVec w`) by the
codec family (`s_writeInt16_ast` …); here the codec model's bytes are shown to be the bytes of this model's `payload`
(`leBytes`: `byte(d >> s)` computed on the `Int` the op carries), for every argument in the range of the Go type. -/
section fixed
open Got.Model.Codec (writeBool writeInt16 writeInt32 writeInt64)

theorem sw8_16 (y : BitVec 16) : ((y.setWidth 8).toNat : Int) = y.toInt % 256 := by
  rw [BitVec.toNat_setWidth]; unfold BitVec.toInt; have := y.isLt
  simp only [Nat.reducePow] at *
  split <;> omega

theorem sw8_32 (y : BitVec 32) : ((y.setWidth 8).toNat : Int) = y.toInt % 256 := by
  rw [BitVec.toNat_setWidth]; unfold BitVec.toInt; have := y.isLt
  simp only [Nat.reducePow] at *
  split <;> omega

theorem sw8_64 (y : BitVec 64) : ((y.setWidth 8).toNat : Int) = y.toInt % 256 := by
  rw [BitVec.toNat_setWidth]; unfold BitVec.toInt; have := y.isLt
  simp only [Nat.reducePow] at *
  split <;> omega

theorem byteOf_of (d : Int) (s n : Nat) (h : (n : Int) = (d >>> s) % 256) : n = Stream.byteOf d s := by
  unfold Stream.byteOf; omega

theorem toInt_ofInt16 (d : Int) (h : -(2 ^ 15 : Int) ≤ d ∧ d < 2 ^ 15) : (BitVec.ofInt 16 d).toInt = d := by
  rw [BitVec.toInt_ofInt]; unfold Int.bmod
  simp only [Int.reducePow, Nat.reducePow, Int.cast_ofNat_Int] at *
  omega

theorem toInt_ofInt32 (d : Int) (h : -(2 ^ 31 : Int) ≤ d ∧ d < 2 ^ 31) : (BitVec.ofInt 32 d).toInt = d := by
  rw [BitVec.toInt_ofInt]; unfold Int.bmod
  simp only [Int.reducePow, Nat.reducePow, Int.cast_ofNat_Int] at *
  omega

theorem toInt_ofInt64 (o : Int) (h : -(2 ^ 63 : Int) ≤ o ∧ o < 2 ^ 63) : (BitVec.ofInt 64 o).toInt = o := by
  rw [BitVec.toInt_ofInt]
  unfold Int.bmod
  simp only [Int.reducePow, Nat.reducePow, Int.cast_ofNat_Int] at *
  omega

theorem writeBool_bridge (b : Bool) :
    (writeBool b).map BitVec.toNat = (Stream.Op.writeBool b).payload.getD [] := by
  cases b <;> rfl

theorem writeInt16_bridge (d : Int) (h : -(2 ^ 15 : Int) ≤ d ∧ d < 2 ^ 15) :
    (writeInt16 (BitVec.ofInt 16 d)).map BitVec.toNat = (Stream.Op.writeInt16 d).payload.getD [] := by
  have hx := toInt_ofInt16 d h
  rw [Got.Lemmas.Codec.writeInt16_eq]
  simp only [Stream.Op.payload, Option.getD_some, Stream.leBytes, Got.Facts.lits_iox_OctetsStream_WriteInt16,
    List.map_cons, List.map_nil, Int.reduceToNat]
  have b0 := byteOf_of d 0 _ (by rw [sw8_16, hx, Int.shiftRight_zero])
  have b1 := byteOf_of d 8 _ (by rw [sw8_16 ((BitVec.ofInt 16 d).sshiftRight 8), BitVec.toInt_sshiftRight, hx])
  rw [b0, b1]

theorem writeInt32_bridge (d : Int) (h : -(2 ^ 31 : Int) ≤ d ∧ d < 2 ^ 31) :
    (writeInt32 (BitVec.ofInt 32 d)).map BitVec.toNat = (Stream.Op.writeInt32 d).payload.getD [] := by
  have hx := toInt_ofInt32 d h
  rw [Got.Lemmas.Codec.writeInt32_eq]
  simp only [Stream.Op.payload, Option.getD_some, Stream.leBytes, Got.Facts.lits_iox_OctetsStream_WriteInt32,
    List.map_cons, List.map_nil, Int.reduceToNat]
  have b0 := byteOf_of d 0 _ (by rw [sw8_32, hx, Int.shiftRight_zero])
  have b1 := byteOf_of d 8 _ (by rw [sw8_32 ((BitVec.ofInt 32 d).sshiftRight 8), BitVec.toInt_sshiftRight, hx])
  have b2 := byteOf_of d 16 _ (by rw [sw8_32 ((BitVec.ofInt 32 d).sshiftRight 16), BitVec.toInt_sshiftRight, hx])
  have b3 := byteOf_of d 24 _ (by rw [sw8_32 ((BitVec.ofInt 32 d).sshiftRight 24), BitVec.toInt_sshiftRight, hx])
  rw [b0, b1, b2, b3]

theorem writeInt64_bridge (d : Int) (h : -(2 ^ 63 : Int) ≤ d ∧ d < 2 ^ 63) :
    (writeInt64 (BitVec.ofInt 64 d)).map BitVec.toNat = (Stream.Op.writeInt64 d).payload.getD [] := by
  have hx := toInt_ofInt64 d h
  rw [Got.Lemmas.Codec.writeInt64_eq]
  simp only [Stream.Op.payload, Option.getD_some, Stream.leBytes, Got.Facts.lits_iox_OctetsStream_WriteInt64,
    List.map_cons, List.map_nil, Int.reduceToNat]
  have b0 := byteOf_of d 0 _ (by rw [sw8_64, hx, Int.shiftRight_zero])
  have b1 := byteOf_of d 8 _ (by rw [sw8_64 ((BitVec.ofInt 64 d).sshiftRight 8), BitVec.toInt_sshiftRight, hx])
  have b2 := byteOf_of d 16 _ (by rw [sw8_64 ((BitVec.ofInt 64 d).sshiftRight 16), BitVec.toInt_sshiftRight, hx])
  have b3 := byteOf_of d 24 _ (by rw [sw8_64 ((BitVec.ofInt 64 d).sshiftRight 24), BitVec.toInt_sshiftRight, hx])
  have b4 := byteOf_of d 32 _ (by rw [sw8_64 ((BitVec.ofInt 64 d).sshiftRight 32), BitVec.toInt_sshiftRight, hx])
  have b5 := byteOf_of d 40 _ (by rw [sw8_64 ((BitVec.ofInt 64 d).sshiftRight 40), BitVec.toInt_sshiftRight, hx])
  have b6 := byteOf_of d 48 _ (by rw [sw8_64 ((BitVec.ofInt 64 d).sshiftRight 48), BitVec.toInt_sshiftRight, hx])
  have b7 := byteOf_of d 56 _ (by rw [sw8_64 ((BitVec.ofInt 64 d).sshiftRight 56), BitVec.toInt_sshiftRight, hx])
  rw [b0, b1, b2, b3, b4, b5, b6, b7]

/-- a writer whose generated term appends the bytes `bs` (codec-family theorem `hcall`), where `bs` are the bytes of the
    model's payload: the model's `append` -/
theorem s_fixed_ast (buf : List Byte) (pos a : Nat) (bs : List Byte) (pay : List Nat) (hpay : bs.map BitVec.toNat = pay) :
    writeOut ⟨buf, pos, a⟩ bs = wOut [none] ((mdl buf pos).append pay) a := by
  subst hpay
  simp [writeOut, wOut, conc, mdl, Stream.append, map_ofNat_toNat']

end fixed

/-! ### op sequences: every API call is the interpretation of the generated term -/

open Got.Lemmas.Bytes (StreamOpSize streamSizes)

/-- the argument domain of the ops: the values the Go parameter types can hold — payload bytes are bytes, seek offsets
    and WriteInt64 arguments are int64, WriteInt16/32 arguments int16/int32 -/
def AstDom : Stream.Op → Prop
  | .write p => ∀ b ∈ p, b < 256
  | .writeByte b => b < 256
  | .seek o _ => -(2 ^ 63 : Int) ≤ o ∧ o < 2 ^ 63
  | .writeInt16 d => -(2 ^ 15 : Int) ≤ d ∧ d < 2 ^ 15
  | .writeInt32 d => -(2 ^ 31 : Int) ≤ d ∧ d < 2 ^ 31
  | .writeInt64 d => -(2 ^ 63 : Int) ≤ d ∧ d < 2 ^ 63
  | .writeBool _ => True
  | .read _ => True
  | .readByte => True
  | .tidy => True
  | .reset => True

instance : DecidablePred AstDom := fun op => by
  cases op <;> unfold AstDom <;> infer_instance

/-- the Go-level outcome that encodes the model's result of `op` -/
def encOut (a : Nat) (op : Stream.Op) (r : Stream × Stream.Out) : Out :=
  match op with
  | .write p => wOut [some (p.map (BitVec.ofNat 8))] r.1 a
  | .writeByte _ => wOut [none] r.1 a
  | .read k => readOut' a (List.replicate k 0) r
  | .readByte => byteOut a r
  | .tidy => unitOut r.1 a
  | .reset => unitOut r.1 a
  | .seek _ _ => seekOut a r
  | _ => wOut [none] r.1 a

/-- the encodings of the model's outputs along a run -/
def encRun (a : Nat) : Stream → List Stream.Op → List Out
  | _, [] => []
  | s, op :: ops => encOut a op (s.step op) :: encRun a (s.step op).1 ops

theorem map_toNat_ofNat (p : List Nat) (h : ∀ b ∈ p, b < 256) : (p.map (BitVec.ofNat 8)).map BitVec.toNat = p := by
  induction p with
  | nil => rfl
  | cons b t ih =>
    have hb : b < 256 := h b (by simp)
    have ht := ih (fun x hx => h x (by simp [hx]))
    simp only [List.map_cons, ht, BitVec.toNat_ofNat]
    congr 1
    exact Nat.mod_eq_of_lt hb

theorem mdl_seek_shape (buf : List Byte) (pos : Nat) (o w : Int) :
    ∃ pos' r e, (mdl buf pos).seek o w = (mdl buf pos', .seek r e) ∧ (pos ≤ buf.length → pos' ≤ buf.length) := by
  rw [mdl_seek]
  have hgo : ∀ num : Int, ∃ pos' r e, goM buf pos num o = (mdl buf pos', .seek r e) ∧
      (pos ≤ buf.length → pos' ≤ buf.length) := by
    intro num
    unfold goM
    by_cases hc : wrap64 (num + o) < 0 ∨ wrap64 (num + o) > (buf.length : Int)
    · rw [if_pos hc]; exact ⟨pos, _, _, rfl, id⟩
    · rw [if_neg hc]; exact ⟨_, _, _, rfl, fun _ => by omega⟩
  by_cases h0 : w = 0
  · rw [if_pos h0]
    by_cases hn : o < 0
    · rw [if_pos hn]; exact ⟨pos, _, _, rfl, id⟩
    · rw [if_neg hn]; exact hgo 0
  · rw [if_neg h0]
    by_cases h1 : w = 1
    · rw [if_pos h1]; exact hgo pos
    · rw [if_neg h1]
      by_cases h2 : w = 2
      · rw [if_pos h2]; exact hgo buf.length
      · rw [if_neg h2]; exact ⟨pos, _, _, rfl, id⟩

/-- ONE STEP.  In every state with `pos ≤ len buf` (and the length staying below 2^63) the interpreted generated term of
    the method returns the encoding of the model's result, ends in the model's state, and keeps the invariant. -/
theorem ast_step (fuel : Nat) (hf : 16 ≤ fuel) (buf : List Byte) (pos a : Nat) (hp : pos ≤ buf.length)
    (op : Stream.Op) (hop : AstDom op) (hL : ((buf.length + StreamOpSize op : Nat) : Int) < 2 ^ 63) :
    ∃ (buf' : List Byte) (pos' : Nat), astCall fuel ⟨buf, pos, a⟩ op = some (encOut a op ((mdl buf pos).step op)) ∧
      outState (encOut a op ((mdl buf pos).step op)) = some ⟨buf', pos', a⟩ ∧
      ((mdl buf pos).step op).1 = mdl buf' pos' ∧ pos' ≤ buf'.length ∧
      buf'.length ≤ buf.length + StreamOpSize op := by
  have hL0 : (buf.length : Int) < 2 ^ 63 := by omega
  -- the four fixed-width writers: one argument
  have fixed : ∀ (op : Stream.Op) (bs : List Byte), bs.map BitVec.toNat = op.payload.getD [] →
      (mdl buf pos).step op = ((mdl buf pos).append (op.payload.getD []), .err .nil) →
      (∀ r, encOut a op r = wOut [none] r.1 a) →
      astCall fuel ⟨buf, pos, a⟩ op = some (writeOut ⟨buf, pos, a⟩ bs) →
      ∃ (buf' : List Byte) (pos' : Nat), astCall fuel ⟨buf, pos, a⟩ op = some (encOut a op ((mdl buf pos).step op)) ∧
        outState (encOut a op ((mdl buf pos).step op)) = some ⟨buf', pos', a⟩ ∧
        ((mdl buf pos).step op).1 = mdl buf' pos' ∧ pos' ≤ buf'.length ∧
        buf'.length ≤ buf.length + StreamOpSize op := by
    intro op bs hpay hstep henc hcall
    refine ⟨buf ++ bs, pos, ?_, ?_, ?_, ?_, ?_⟩
    · rw [hcall, henc, hstep, s_fixed_ast buf pos a bs _ hpay]
    · rw [henc, hstep, ← hpay]
      simp only [wOut, outState, Stream.append, conc, mdl, List.map_append, map_ofNat_toNat]
    · rw [hstep, ← hpay]; simp only [Stream.append, mdl, List.map_append]
    · simp only [List.length_append]; omega
    · simp only [StreamOpSize, ← hpay, List.length_append, List.length_map]; omega
  cases op with
  | write p =>
    have hm := map_toNat_ofNat p hop
    refine ⟨buf ++ p.map (BitVec.ofNat 8), pos, ?_, ?_, ?_, ?_, ?_⟩
    · simp only [astCall, encOut, Stream.step]
      rw [s_write_ast' buf _ pos a fuel (by omega), hm]
    · simp only [encOut, Stream.step, wOut, outState, Got.Lemmas.Bytes.write_eq_append, Stream.append, conc, mdl,
        List.map_append, map_ofNat_toNat]
    · simp only [Stream.step, Got.Lemmas.Bytes.write_eq_append, Stream.append, mdl, List.map_append, hm]
    · simp only [List.length_append]; omega
    · simp [StreamOpSize, Stream.Op.payload]
  | writeByte b =>
    have hb : (BitVec.ofNat 8 b).toNat = b := by simp only [BitVec.toNat_ofNat]; exact Nat.mod_eq_of_lt hop
    refine ⟨buf ++ [BitVec.ofNat 8 b], pos, ?_, ?_, ?_, ?_, ?_⟩
    · simp only [astCall, encOut, Stream.step, Stream.Op.payload, Option.getD_some]
      rw [s_writeByte_ast' buf _ pos a fuel (by omega), hb]
    · simp only [encOut, Stream.step, wOut, outState, Stream.append, conc, mdl, Stream.Op.payload, Option.getD_some,
        List.map_append, map_ofNat_toNat, List.map_cons, List.map_nil]
    · simp only [Stream.step, Stream.append, mdl, List.map_append, Stream.Op.payload, Option.getD_some, List.map_cons,
        List.map_nil, hb]
    · simp only [List.length_append]; omega
    · simp [StreamOpSize, Stream.Op.payload]
  | read k =>
    have hcall := s_read_ast buf (List.replicate k 0) pos a fuel (by omega) hp
    rw [List.length_replicate] at hcall
    simp only [astCall, encOut, Stream.step, StreamOpSize, Stream.Op.payload, Option.getD_none, List.length_nil,
      Nat.add_zero]
    by_cases hk : k = 0
    · subst hk
      rw [mdl_read_zero] at hcall ⊢
      exact ⟨buf, pos, hcall, by simp [readOut', outState, conc_mdl], rfl, hp, Nat.le_refl _⟩
    · by_cases he : pos = buf.length
      · rw [mdl_read_empty buf pos k hk he] at hcall ⊢
        exact ⟨buf, pos, hcall, by simp [readOut', outState, conc_mdl], rfl, hp, Nat.le_refl _⟩
      · rw [mdl_read_some buf pos k hk (by omega)] at hcall ⊢
        exact ⟨buf, pos + min k (buf.length - pos), hcall, by simp [readOut', outState, conc_mdl], rfl, by omega,
          Nat.le_refl _⟩
  | readByte =>
    have hcall := s_readByte_ast' buf pos a fuel (by omega)
    simp only [astCall, encOut, Stream.step, StreamOpSize, Stream.Op.payload, Option.getD_none, List.length_nil,
      Nat.add_zero]
    by_cases h : pos < buf.length
    · rw [mdl_readByte_lt buf pos h] at hcall ⊢
      exact ⟨buf, pos + 1, hcall, by simp [byteOut, outState, conc_mdl], rfl, by omega, Nat.le_refl _⟩
    · rw [mdl_readByte_ge buf pos (by omega)] at hcall ⊢
      exact ⟨buf, pos, hcall, by simp [byteOut, outState, conc_mdl], rfl, hp, Nat.le_refl _⟩
  | tidy =>
    have hcall := s_tidy_ast buf pos a fuel (by omega) hp
    simp only [astCall, encOut, Stream.step, StreamOpSize, Stream.Op.payload, Option.getD_none, List.length_nil,
      Nat.add_zero]
    rw [mdl_tidy buf pos hp] at hcall ⊢
    exact ⟨buf.drop pos, 0, hcall, by simp [unitOut, outState, conc_mdl], rfl, Nat.zero_le _,
      by simp only [List.length_drop]; omega⟩
  | reset =>
    have hcall := s_reset_ast buf pos a fuel (by omega)
    simp only [astCall, encOut, Stream.step, StreamOpSize, Stream.Op.payload, Option.getD_none, List.length_nil,
      Nat.add_zero]
    exact ⟨[], 0, hcall, by simp [unitOut, outState, conc, Stream.reset], rfl, Nat.le_refl _, Nat.zero_le _⟩
  | seek o w =>
    have hcall := s_seek_ast buf pos a (BitVec.ofInt 64 o) w fuel hf hp hL0
    rw [toInt_ofInt64 o hop] at hcall
    simp only [astCall, encOut, Stream.step, StreamOpSize, Stream.Op.payload, Option.getD_none, List.length_nil,
      Nat.add_zero]
    obtain ⟨pos', r, e, hs, hle⟩ := mdl_seek_shape buf pos o w
    rw [hs] at hcall ⊢
    exact ⟨buf, pos', hcall, by simp [seekOut, outState, conc_mdl], rfl, hle hp, Nat.le_refl _⟩
  | writeBool b =>
    exact fixed _ (Got.Model.Codec.writeBool b) (writeBool_bridge b) rfl (fun _ => rfl) (s_writeBool_ast b _ fuel (by omega))
  | writeInt16 d =>
    exact fixed _ _ (writeInt16_bridge d hop) rfl (fun _ => rfl) (s_writeInt16_ast (BitVec.ofInt 16 d) _ fuel (by omega))
  | writeInt32 d =>
    exact fixed _ _ (writeInt32_bridge d hop) rfl (fun _ => rfl) (s_writeInt32_ast (BitVec.ofInt 32 d) _ fuel (by omega))
  | writeInt64 d =>
    exact fixed _ _ (writeInt64_bridge d hop) rfl (fun _ => rfl) (s_writeInt64_ast (BitVec.ofInt 64 d) _ fuel (by omega))


/-- ANY SEQUENCE.  Interpreting the generated terms call after call never panics or gets stuck, every call returns the
    encoding of the model's output, and the final state is the model's final state. -/
theorem ast_run (fuel : Nat) (hf : 16 ≤ fuel) (ops : List Stream.Op) :
    ∀ (buf : List Byte) (pos a : Nat), pos ≤ buf.length → (∀ op ∈ ops, AstDom op) →
      ((buf.length + streamSizes ops : Nat) : Int) < 2 ^ 63 →
      ∃ (buf' : List Byte) (pos' : Nat),
        astRun fuel ⟨buf, pos, a⟩ ops = some (⟨buf', pos', a⟩, encRun a (mdl buf pos) ops) ∧
        ((mdl buf pos).run ops).1 = mdl buf' pos' ∧ pos' ≤ buf'.length := by
  induction ops with
  | nil => intro buf pos a hp _ _; exact ⟨buf, pos, rfl, rfl, hp⟩
  | cons op ops ih =>
    intro buf pos a hp hdom hL
    rw [Got.Lemmas.Bytes.streamSizes_cons] at hL
    obtain ⟨buf1, pos1, hcall, hst, hmdl, hp1, hlen1⟩ :=
      ast_step fuel hf buf pos a hp op (hdom op (by simp)) (by omega)
    obtain ⟨buf', pos', hrun, hfin, hp'⟩ := ih buf1 pos1 a hp1 (fun o ho => hdom o (by simp [ho])) (by omega)
    refine ⟨buf', pos', ?_, ?_, hp'⟩
    · simp only [astRun, hcall, Option.bind_some, hst, encRun, hmdl, hrun, Option.map_some]
    · simp only [Stream.run, hmdl, hfin]


/-! ### corollaries stated of the interpreted generated terms only -/

theorem mdl_seek_cases (buf : List Byte) (pos : Nat) (o w : Int) (hp : pos ≤ buf.length) :
    (∃ pos', pos' ≤ buf.length ∧ (mdl buf pos).seek o w = (mdl buf pos', .seek pos' .nil)) ∨
    (mdl buf pos).seek o w = (mdl buf pos, .seek 0 .invalidArgument) := by
  rw [mdl_seek]
  have hgo : ∀ num : Int, (∃ pos', pos' ≤ buf.length ∧ goM buf pos num o = (mdl buf pos', .seek pos' .nil)) ∨
      goM buf pos num o = (mdl buf pos, .seek 0 .invalidArgument) := by
    intro num
    unfold goM
    by_cases hc : wrap64 (num + o) < 0 ∨ wrap64 (num + o) > (buf.length : Int)
    · rw [if_pos hc]; exact Or.inr rfl
    · rw [if_neg hc]; exact Or.inl ⟨_, by omega, rfl⟩
  by_cases h0 : w = 0
  · rw [if_pos h0]
    by_cases hn : o < 0
    · rw [if_pos hn]; exact Or.inr rfl
    · rw [if_neg hn]; exact hgo 0
  · rw [if_neg h0]
    by_cases h1 : w = 1
    · rw [if_pos h1]; exact hgo pos
    · rw [if_neg h1]
      by_cases h2 : w = 2
      · rw [if_pos h2]; exact hgo buf.length
      · rw [if_neg h2]; exact Or.inr rfl

/-- SEEK NEVER LEAVES THE DATA (interpreted generated term): whatever the int64 offset and the `whence`, `Seek` does not
    panic, and either succeeds, returns the new position `p` and leaves the cursor at `p` with `0 ≤ p ≤ len`, or fails
    with ErrInvalidArgument, returns 0 and leaves the stream exactly as it was.  The buffer is never touched. -/
theorem seek_in_range_ast (buf : List Byte) (pos a : Nat) (o : BitVec 64) (w : Int) (fuel : Nat) (hf : 16 ≤ fuel)
    (hp : pos ≤ buf.length) (hL : (buf.length : Int) < 2 ^ 63) :
    (∃ p : Nat, p ≤ buf.length ∧ run table "OctetsStream.Seek" fuel [.bv 64 true o, .int w] ⟨buf, pos, a⟩ =
        some (.ret [.bv 64 true (BitVec.ofNat 64 p), .err none] [none, none] ⟨buf, p, a⟩)) ∨
    run table "OctetsStream.Seek" fuel [.bv 64 true o, .int w] ⟨buf, pos, a⟩ =
        some (.ret [.bv 64 true 0, .err (some .InvalidArgument)] [none, none] ⟨buf, pos, a⟩) := by
  rw [s_seek_ast buf pos a o w fuel hf hp hL]
  rcases mdl_seek_cases buf pos o.toInt w hp with ⟨p, hple, hs⟩ | hs
  · left; exact ⟨p, hple, by rw [hs]; simp [seekOut, conc_mdl, cvS]⟩
  · right; rw [hs]; simp [seekOut, conc_mdl, cvS]

/-- TIDY IS INVISIBLE (interpreted generated terms): in every state with `pos ≤ len`, `Tidy()` does not panic and
    `Bytes()` after it returns the same bytes as `Bytes()` before it; the cursor is 0 afterwards. -/
theorem tidy_invisible_ast (buf : List Byte) (pos a : Nat) (fuel : Nat) (hf : 8 ≤ fuel) (hp : pos ≤ buf.length) :
    ∃ buf', run table "OctetsStream.Tidy" fuel [] ⟨buf, pos, a⟩ = some (.ret [] [] ⟨buf', (0 : Nat), a⟩) ∧
      ∃ bs, run table "OctetsStream.Bytes" fuel [] ⟨buf, pos, a⟩ = some (.ret [.bytes bs] [] ⟨buf, pos, a⟩) ∧
        run table "OctetsStream.Bytes" fuel [] ⟨buf', (0 : Nat), a⟩ = some (.ret [.bytes bs] [] ⟨buf', (0 : Nat), a⟩) := by
  refine ⟨buf.drop pos, ?_, buf.drop pos, ?_, ?_⟩
  · rw [s_tidy_ast buf pos a fuel hf hp, mdl_tidy buf pos hp]; simp [unitOut, conc_mdl]
  · rw [s_bytes_ast buf pos a fuel (by omega)]
    simp [mdl, Stream.bytes?, hp, bytesOut, ← List.map_drop, map_ofNat_toNat']
  · rw [s_bytes_ast (buf.drop pos) 0 a fuel (by omega)]
    simp [mdl, Stream.bytes?, bytesOut, map_ofNat_toNat']

end Got.Lemmas.BytesStreamAst
