import Got.Model.MSQueue
/-
The invariant of the Michael–Scott queue model and its preservation (C01_inv), in the
rely/guarantee shape of DESIGN Appendix D: the heap changes in four ways only
(U1 allocate, U2 link at the end, U3 advance tail, U4 advance head); every thread-local
invariant is stable under `Ext` (the heap only grows: chain appended, positions of head/tail move
forward, `next` goes from none to some, allocated values never change).
Core Lean only (no Mathlib).
-/
namespace Got.Model.MSQueue
open Got.Spec.Lin

/-! ### definitions -/

/-- list-structure invariant of the shared heap. -/
structure Global (h : Heap) : Prop where
  nodup : h.chain.Nodup
  lt : ∀ x, x ∈ h.chain → x < h.nalloc
  link : ∀ i x, h.chain[i]? = some x → h.next x = h.chain[i + 1]?
  off : ∀ x, x ∉ h.chain → h.next x = none
  hd : h.chain[h.hi]? = some h.head
  tl : h.chain[h.ti]? = some h.tail
  hile : h.hi ≤ h.ti
  lag : h.chain.length ≤ h.ti + 2

/-- the private (allocated, not yet linked) node of a thread inside Push. -/
def priv : Pc → Option Nat
  | .p1 n => some n
  | .p2 n _ => some n
  | .p3 n _ _ => some n
  | .p4 n _ => some n
  | .p4h n _ _ => some n
  | _ => none

structure PrivInv (s : State) : Prop where
  notin : ∀ t n, priv (s.pc t) = some n → n ∉ s.chain
  distinct : ∀ t t' n, t ≠ t' → priv (s.pc t) = some n → priv (s.pc t') ≠ some n

/-- `tl` is a chain node at or before the tail. -/
def TlOk (h : Heap) (tl : Nat) : Prop := ∃ i, i ≤ h.ti ∧ h.chain[i]? = some tl

/-- `hd` is a chain node at or before the head. -/
def HdOk (h : Heap) (hd : Nat) : Prop := ∃ i, i ≤ h.hi ∧ h.chain[i]? = some hd

/-- `hd`, `tl` are chain nodes, `hd` at or before head, `tl` at or before tail, `hd` not after `tl`. -/
def HdTlOk (h : Heap) (hd tl : Nat) : Prop :=
  ∃ i j, i ≤ j ∧ i ≤ h.hi ∧ j ≤ h.ti ∧ h.chain[i]? = some hd ∧ h.chain[j]? = some tl

/-- thread-local invariant, per yield point. -/
def Local (h : Heap) : Pc → Prop
  | .idle => True
  | .crash => False
  | .p1 n => n < h.nalloc
  | .p2 n tl => n < h.nalloc ∧ TlOk h tl
  | .p3 n tl nx => n < h.nalloc ∧ TlOk h tl ∧ ∀ x, nx = some x → h.next tl = some x
  | .p4 n tl => n < h.nalloc ∧ TlOk h tl
  | .p4h n tl x => n < h.nalloc ∧ TlOk h tl ∧ h.next tl = some x
  | .p5 n tl => n < h.nalloc ∧ TlOk h tl ∧ h.next tl = some n
  | .d1 => True
  | .d2 hd => HdOk h hd
  | .d3 hd tl => HdTlOk h hd tl
  | .d4 hd tl nx => HdTlOk h hd tl ∧ (∀ x, nx = some x → h.next hd = some x) ∧ (nx = none → hd = tl)
  | .d5h _ tl x => TlOk h tl ∧ h.next tl = some x
  | .d5 hd x v => (∃ i, i < h.ti ∧ i ≤ h.hi ∧ h.chain[i]? = some hd) ∧ h.next hd = some x ∧ v = h.val x

/-- relation between a thread's pc and its status in the replay of the log. -/
def TRel (h : Heap) : Pc → TSt → Prop
  | .idle, st => st = .idle
  | .crash, _ => False
  | .p1 n, st => st = .pend (.push (h.val n)) false
  | .p2 n _, st => st = .pend (.push (h.val n)) false
  | .p3 n _ _, st => st = .pend (.push (h.val n)) false
  | .p4 n _, st => st = .pend (.push (h.val n)) false
  | .p4h n _ _, st => st = .pend (.push (h.val n)) false
  | .p5 n _, st => st = .done (.push (h.val n)) .ack
  | .d1, st => ∃ b, st = .pend .pop b
  | .d2 _, st => ∃ b, st = .pend .pop b
  | .d3 _ _, st => ∃ b, st = .pend .pop b
  | .d4 _ _ nx, st => ∃ b, st = .pend .pop b ∧ (nx = none → b = true)
  | .d5h _ _ _, st => ∃ b, st = .pend .pop b
  | .d5 _ _ _, st => ∃ b, st = .pend .pop b

/-- the abstract queue: values of the nodes after the head. -/
def absQ (h : Heap) : List Nat := (h.chain.drop (h.hi + 1)).map h.val

structure LogInv (s : State) : Prop where
  ex : ∃ w, wrun s.log = some w ∧ w.q = absQ s.toHeap ∧ ∀ t, TRel s.toHeap (s.pc t) (w.st t)

structure Inv (s : State) : Prop where
  glob : Global s.toHeap
  privs : PrivInv s
  loc : ∀ t, Local s.toHeap (s.pc t)
  logi : LogInv s

/-- the heap only grows. -/
structure Ext (h h' : Heap) : Prop where
  chain : ∃ ext, h'.chain = h.chain ++ ext
  hi : h.hi ≤ h'.hi
  ti : h.ti ≤ h'.ti
  next : ∀ x y, h.next x = some y → h'.next x = some y
  nalloc : h.nalloc ≤ h'.nalloc
  val : ∀ x, x < h.nalloc → h'.val x = h.val x

/-! ### list helpers -/

theorem getElem?_append_some {l ext : List Nat} {i x : Nat} (h : l[i]? = some x) :
    (l ++ ext)[i]? = some x := by
  have hi : i < l.length := by
    rcases Nat.lt_or_ge i l.length with h' | h'
    · exact h'
    · rw [List.getElem?_eq_none h'] at h; cases h
  rw [List.getElem?_append_left hi]; exact h

theorem lt_length_of_getElem? {l : List Nat} {i x : Nat} (h : l[i]? = some x) : i < l.length := by
  rcases Nat.lt_or_ge i l.length with h' | h'
  · exact h'
  · rw [List.getElem?_eq_none h'] at h; cases h

theorem mem_of_getElem?' {l : List Nat} {i x : Nat} (h : l[i]? = some x) : x ∈ l :=
  List.mem_of_getElem? h

theorem nodup_idx_eq {l : List Nat} (hn : l.Nodup) {i j x : Nat} (hi : l[i]? = some x) (hj : l[j]? = some x) :
    i = j :=
  (List.getElem?_inj (lt_length_of_getElem? hi) hn).mp (hi.trans hj.symm)

/-! ### stability of the thread-local facts under heap growth -/

theorem Ext.refl (h : Heap) : Ext h h :=
  ⟨⟨[], by simp⟩, Nat.le_refl _, Nat.le_refl _, fun _ _ hx => hx, Nat.le_refl _, fun _ _ => rfl⟩

theorem Ext.at {h h' : Heap} (e : Ext h h') {i x : Nat} (hx : h.chain[i]? = some x) :
    h'.chain[i]? = some x := by
  obtain ⟨ext, he⟩ := e.chain
  rw [he]; exact getElem?_append_some hx

theorem TlOk.ext {h h' : Heap} (e : Ext h h') {tl : Nat} : TlOk h tl → TlOk h' tl :=
  fun ⟨i, hi, hx⟩ => ⟨i, Nat.le_trans hi e.ti, e.at hx⟩

theorem HdOk.ext {h h' : Heap} (e : Ext h h') {hd : Nat} : HdOk h hd → HdOk h' hd :=
  fun ⟨i, hi, hx⟩ => ⟨i, Nat.le_trans hi e.hi, e.at hx⟩

theorem HdTlOk.ext {h h' : Heap} (e : Ext h h') {hd tl : Nat} : HdTlOk h hd tl → HdTlOk h' hd tl :=
  fun ⟨i, j, hij, hi, hj, hx, hy⟩ => ⟨i, j, hij, Nat.le_trans hi e.hi, Nat.le_trans hj e.ti, e.at hx, e.at hy⟩

/-- the successor read from a chain node is a chain node (hence allocated). -/
theorem Global.succ_mem {h : Heap} (g : Global h) {i x y : Nat} (hx : h.chain[i]? = some x)
    (hn : h.next x = some y) : h.chain[i + 1]? = some y := by
  rw [← g.link i x hx]; exact hn

theorem Local.ext {h h' : Heap} (g : Global h) (e : Ext h h') : ∀ p, Local h p → Local h' p := by
  intro p
  cases p with
  | idle => exact id
  | crash => exact id
  | p1 n => exact fun hl => Nat.lt_of_lt_of_le hl e.nalloc
  | p2 n tl => exact fun ⟨h1, h2⟩ => ⟨Nat.lt_of_lt_of_le h1 e.nalloc, h2.ext e⟩
  | p3 n tl nx => exact fun ⟨h1, h2, h3⟩ => ⟨Nat.lt_of_lt_of_le h1 e.nalloc, h2.ext e, fun x hx => e.next _ _ (h3 x hx)⟩
  | p4 n tl => exact fun ⟨h1, h2⟩ => ⟨Nat.lt_of_lt_of_le h1 e.nalloc, h2.ext e⟩
  | p4h n tl x => exact fun ⟨h1, h2, h3⟩ => ⟨Nat.lt_of_lt_of_le h1 e.nalloc, h2.ext e, e.next _ _ h3⟩
  | p5 n tl => exact fun ⟨h1, h2, h3⟩ => ⟨Nat.lt_of_lt_of_le h1 e.nalloc, h2.ext e, e.next _ _ h3⟩
  | d1 => exact id
  | d2 hd => exact fun hl => HdOk.ext e hl
  | d3 hd tl => exact fun hl => HdTlOk.ext e hl
  | d4 hd tl nx => exact fun ⟨h1, h2, h3⟩ => ⟨h1.ext e, fun x hx => e.next _ _ (h2 x hx), h3⟩
  | d5h hd tl x => exact fun ⟨h1, h2⟩ => ⟨h1.ext e, e.next _ _ h2⟩
  | d5 hd x v =>
    intro ⟨⟨i, h1, h2, h3⟩, h4, h5⟩
    refine ⟨⟨i, Nat.lt_of_lt_of_le h1 e.ti, Nat.le_trans h2 e.hi, e.at h3⟩, e.next _ _ h4, ?_⟩
    have hx : x ∈ h.chain := List.mem_of_getElem? (g.succ_mem h3 h4)
    rw [e.val x (g.lt x hx)]; exact h5

theorem TRel.ext {h h' : Heap} (e : Ext h h') : ∀ p st, Local h p → TRel h p st → TRel h' p st := by
  intro p st
  cases p with
  | idle => exact fun _ => id
  | crash => exact fun _ => id
  | p1 n => intro hl hr; simp only [TRel] at *; rw [e.val n hl]; exact hr
  | p2 n tl => intro hl hr; simp only [TRel] at *; rw [e.val n hl.1]; exact hr
  | p3 n tl nx => intro hl hr; simp only [TRel] at *; rw [e.val n hl.1]; exact hr
  | p4 n tl => intro hl hr; simp only [TRel] at *; rw [e.val n hl.1]; exact hr
  | p4h n tl x => intro hl hr; simp only [TRel] at *; rw [e.val n hl.1]; exact hr
  | p5 n tl => intro hl hr; simp only [TRel] at *; rw [e.val n hl.1]; exact hr
  | d1 => exact fun _ => id
  | d2 hd => exact fun _ => id
  | d3 hd tl => exact fun _ => id
  | d4 hd tl nx => exact fun _ => id
  | d5h hd tl x => exact fun _ => id
  | d5 hd x v => exact fun _ => id

/-! ### the four heap updates -/

/-- U1: allocate a fresh node. -/
theorem Global.alloc {h : Heap} (g : Global h) (v : Nat) :
    Global { h with val := upd h.val h.nalloc v, nalloc := h.nalloc + 1 } :=
  ⟨g.nodup, fun x hx => Nat.lt_succ_of_lt (g.lt x hx), g.link, g.off, g.hd, g.tl, g.hile, g.lag⟩

theorem Ext.alloc (h : Heap) (v : Nat) :
    Ext h { h with val := upd h.val h.nalloc v, nalloc := h.nalloc + 1 } :=
  ⟨⟨[], by simp⟩, Nat.le_refl _, Nat.le_refl _, fun _ _ hx => hx, Nat.le_succ _,
   fun x hx => upd_other _ _ _ _ (Nat.ne_of_lt hx)⟩

/-- a chain node whose `next` is nil is the last node, and it is the tail. -/
theorem Global.last_of_next_none {h : Heap} (g : Global h) {i tl : Nat} (hi : i ≤ h.ti)
    (hx : h.chain[i]? = some tl) (hn : h.next tl = none) :
    i = h.ti ∧ h.chain.length = h.ti + 1 := by
  have h1 := g.link i tl hx
  rw [hn] at h1
  have h2 : h.chain.length ≤ i + 1 := by
    rcases Nat.lt_or_ge (i + 1) h.chain.length with h' | h'
    · rw [List.getElem?_eq_getElem h'] at h1; cases h1
    · exact h'
  have h3 := lt_length_of_getElem? g.tl
  omega

/-- U2: link a private node behind the last node. -/
theorem Global.link_node {h : Heap} (g : Global h) {tl n : Nat} (htl : TlOk h tl)
    (hn : h.next tl = none) (hnc : n ∉ h.chain) (hna : n < h.nalloc) :
    Global { h with next := upd h.next tl (some n), chain := h.chain ++ [n] } := by
  obtain ⟨i, hi, hx⟩ := htl
  obtain ⟨hit, hlen⟩ := g.last_of_next_none hi hx hn
  have htlc : tl ∈ h.chain := List.mem_of_getElem? hx
  have hntl : n ≠ tl := fun e => hnc (e ▸ htlc)
  refine ⟨?_, ?_, ?_, ?_, ?_, ?_, g.hile, ?_⟩
  · show (h.chain ++ [n]).Nodup
    rw [List.nodup_append]
    refine ⟨g.nodup, List.nodup_cons.mpr ⟨by simp, List.nodup_nil⟩, ?_⟩
    intro a ha b hb
    rw [List.mem_singleton] at hb
    subst hb
    exact fun e => hnc (e ▸ ha)
  · intro x hx'
    show x < h.nalloc
    rw [List.mem_append, List.mem_singleton] at hx'
    rcases hx' with hx' | hx'
    · exact g.lt x hx'
    · subst hx'; exact hna
  · intro j x hj
    show upd h.next tl (some n) x = (h.chain ++ [n])[j + 1]?
    change (h.chain ++ [n])[j]? = some x at hj
    rcases Nat.lt_or_ge j h.chain.length with hjl | hjl
    · rw [List.getElem?_append_left hjl] at hj
      by_cases hji : j = i
      · subst hji
        have : x = tl := by rw [hx] at hj; injection hj with hj; exact hj.symm
        subst this
        rw [upd_same, List.getElem?_append_right (by omega)]
        have : j + 1 - h.chain.length = 0 := by omega
        rw [this]; rfl
      · have hxt : x ≠ tl := by
          intro e; subst e
          exact hji (nodup_idx_eq g.nodup hj hx)
        rw [upd_other _ _ _ _ hxt, g.link j x hj]
        have : j + 1 < h.chain.length := by omega
        rw [List.getElem?_append_left this]
    · rw [List.getElem?_append_right hjl] at hj
      have hj0 : j - h.chain.length = 0 := by
        rcases Nat.eq_zero_or_pos (j - h.chain.length) with h0 | h0
        · exact h0
        · have : [n][j - h.chain.length]? = none := by
            apply List.getElem?_eq_none; simp; omega
          rw [this] at hj; cases hj
      rw [hj0] at hj
      have : x = n := by simpa using hj.symm
      subst this
      rw [upd_other _ _ _ _ hntl, g.off x hnc]
      symm
      apply List.getElem?_eq_none
      simp; omega
  · intro x hx'
    show upd h.next tl (some n) x = none
    rw [List.mem_append, List.mem_singleton] at hx'
    have hxc : x ∉ h.chain := fun hc => hx' (Or.inl hc)
    have hxt : x ≠ tl := fun e => hxc (e ▸ htlc)
    rw [upd_other _ _ _ _ hxt]; exact g.off x hxc
  · exact getElem?_append_some g.hd
  · exact getElem?_append_some g.tl
  · show (h.chain ++ [n]).length ≤ h.ti + 2
    simp; omega

theorem Ext.link_node (h : Heap) {tl n : Nat} (hn : h.next tl = none) :
    Ext h { h with next := upd h.next tl (some n), chain := h.chain ++ [n] } := by
  refine ⟨⟨[n], rfl⟩, Nat.le_refl _, Nat.le_refl _, ?_, Nat.le_refl _, fun _ _ => rfl⟩
  intro x y hx
  have : x ≠ tl := by intro e; subst e; rw [hn] at hx; cases hx
  show upd h.next tl (some n) x = some y
  rw [upd_other _ _ _ _ this]; exact hx

/-- U3: advance the tail to its successor. -/
theorem Global.adv_tail {h : Heap} (g : Global h) {x : Nat} (hn : h.next h.tail = some x) :
    Global { h with tail := x, ti := h.ti + 1 } :=
  ⟨g.nodup, g.lt, g.link, g.off, g.hd, g.succ_mem g.tl hn, Nat.le_succ_of_le g.hile,
   Nat.le_trans g.lag (Nat.le_succ _)⟩

theorem Ext.adv_tail (h : Heap) (x : Nat) : Ext h { h with tail := x, ti := h.ti + 1 } :=
  ⟨⟨[], by simp⟩, Nat.le_refl _, Nat.le_succ _, fun _ _ hx => hx, Nat.le_refl _, fun _ _ => rfl⟩

/-- U4: advance the head to its successor (only when head is strictly before tail). -/
theorem Global.adv_head {h : Heap} (g : Global h) {x : Nat} (hn : h.next h.head = some x)
    (hlt : h.hi < h.ti) :
    Global { h with head := x, hi := h.hi + 1 } :=
  ⟨g.nodup, g.lt, g.link, g.off, g.succ_mem g.hd hn, g.tl, hlt, g.lag⟩

theorem Ext.adv_head (h : Heap) (x : Nat) : Ext h { h with head := x, hi := h.hi + 1 } :=
  ⟨⟨[], by simp⟩, Nat.le_succ _, Nat.le_refl _, fun _ _ hx => hx, Nat.le_refl _, fun _ _ => rfl⟩

/-! ### assembling the invariant after a step of thread `t` -/

theorem priv_lt {h : Heap} {p : Pc} {n : Nat} (hp : priv p = some n) (hl : Local h p) : n < h.nalloc := by
  cases p <;> simp only [priv] at hp <;> first | cases hp | (injection hp with hp; subst hp)
  · exact hl
  · exact hl.1
  · exact hl.1
  · exact hl.1
  · exact hl.1

theorem loc_frame {s s' : State} (hI : Inv s) {t : Nat} {p' : Pc} (hpc : s'.pc = upd s.pc t p')
    (e : Ext s.toHeap s'.toHeap) (hL : Local s'.toHeap p') : ∀ t', Local s'.toHeap (s'.pc t') := by
  intro t'
  rw [hpc]
  by_cases h : t' = t
  · subst h; rw [upd_same]; exact hL
  · rw [upd_other _ _ _ _ h]; exact Local.ext hI.glob e _ (hI.loc t')

/-- the acting thread keeps (or drops) its private node and the chain is unchanged. -/
theorem PrivInv.same_chain {s s' : State} (hP : PrivInv s) {t : Nat} {p' : Pc}
    (hpc : s'.pc = upd s.pc t p') (hc : s'.chain = s.chain)
    (hp : priv p' = priv (s.pc t) ∨ priv p' = none) : PrivInv s' := by
  have key : ∀ t0 n, priv (s'.pc t0) = some n → priv (s.pc t0) = some n := by
    intro t0 n h0
    rw [hpc] at h0
    by_cases h : t0 = t
    · subst h
      rw [upd_same] at h0
      rcases hp with hp | hp
      · rw [← hp]; exact h0
      · rw [hp] at h0; cases h0
    · rw [upd_other _ _ _ _ h] at h0; exact h0
  constructor
  · intro t0 n h0; rw [hc]; exact hP.notin t0 n (key t0 n h0)
  · intro t0 t1 n hne h0 h1
    exact hP.distinct t0 t1 n hne (key t0 n h0) (key t1 n h1)

theorem PrivInv.alloc {s s' : State} (hI : Inv s) {t : Nat}
    (hpc : s'.pc = upd s.pc t (.p1 s.nalloc)) (hc : s'.chain = s.chain) (hidle : priv (s.pc t) = none) :
    PrivInv s' := by
  have old : ∀ t0 n, t0 ≠ t → priv (s'.pc t0) = some n → priv (s.pc t0) = some n ∧ n < s.nalloc := by
    intro t0 n h h0
    rw [hpc, upd_other _ _ _ _ h] at h0
    exact ⟨h0, priv_lt h0 (hI.loc t0)⟩
  have new : ∀ n, priv (s'.pc t) = some n → n = s.nalloc := by
    intro n h0
    rw [hpc, upd_same] at h0
    simp only [priv] at h0
    injection h0 with h0; exact h0.symm
  constructor
  · intro t0 n h0
    rw [hc]
    by_cases h : t0 = t
    · subst h
      rw [new n h0]
      intro hm
      exact Nat.lt_irrefl _ (hI.glob.lt _ hm)
    · exact hI.privs.notin t0 n (old t0 n h h0).1
  · intro t0 t1 n hne h0 h1
    by_cases ha : t0 = t
    · subst ha
      have hb : t1 ≠ t0 := fun e => hne e.symm
      have := (old t1 n hb h1).2
      rw [new n h0] at this
      exact Nat.lt_irrefl _ this
    · by_cases hb : t1 = t
      · subst hb
        have := (old t0 n ha h0).2
        rw [new n h1] at this
        exact Nat.lt_irrefl _ this
      · exact hI.privs.distinct t0 t1 n hne (old t0 n ha h0).1 (old t1 n hb h1).1

theorem PrivInv.link {s s' : State} (hP : PrivInv s) {t n tl : Nat} (hpt : priv (s.pc t) = some n)
    (hpc : s'.pc = upd s.pc t (.p5 n tl)) (hc : s'.chain = s.chain ++ [n]) : PrivInv s' := by
  have old : ∀ t0 m, priv (s'.pc t0) = some m → t0 ≠ t ∧ priv (s.pc t0) = some m := by
    intro t0 m h0
    rw [hpc] at h0
    by_cases h : t0 = t
    · subst h; rw [upd_same] at h0; simp only [priv] at h0; cases h0
    · rw [upd_other _ _ _ _ h] at h0; exact ⟨h, h0⟩
  constructor
  · intro t0 m h0
    obtain ⟨hne, h0'⟩ := old t0 m h0
    rw [hc, List.mem_append, List.mem_singleton]
    rintro (hm | hm)
    · exact hP.notin t0 m h0' hm
    · subst hm; exact hP.distinct t0 t m hne h0' hpt
  · intro t0 t1 m hne h0 h1
    exact hP.distinct t0 t1 m hne (old t0 m h0).2 (old t1 m h1).2

theorem LogInv.events {s s' : State} (hI : Inv s) {t : Nat} {p' : Pc} {evs : List LEv}
    (hpc : s'.pc = upd s.pc t p') (e : Ext s.toHeap s'.toHeap) (hlog : s'.log = s.log ++ evs)
    (hstep : ∀ w : WSt, w.q = absQ s.toHeap → TRel s.toHeap (s.pc t) (w.st t) →
      ∃ w', wrunFrom w evs = some w' ∧ w'.q = absQ s'.toHeap ∧ TRel s'.toHeap p' (w'.st t) ∧
        ∀ t', t' ≠ t → w'.st t' = w.st t') : LogInv s' := by
  obtain ⟨w, hw, hq, hT⟩ := hI.logi.ex
  obtain ⟨w', hw', hq', hTt, hoth⟩ := hstep w hq (hT t)
  refine ⟨w', ?_, hq', ?_⟩
  · rw [hlog]
    unfold wrun at hw ⊢
    rw [wrunFrom_append, hw]
    exact hw'
  · intro t'
    rw [hpc]
    by_cases h : t' = t
    · subst h; rw [upd_same]; exact hTt
    · rw [upd_other _ _ _ _ h, hoth t' h]
      exact TRel.ext e _ _ (hI.loc t') (hT t')

@[simp] theorem wrunFrom_nil (w : WSt) : wrunFrom w [] = some w := rfl

theorem wrunFrom_one (w : WSt) (ev : LEv) : wrunFrom w [ev] = wstep w ev := by
  simp [wrunFrom, List.foldl]

theorem wrunFrom_two (w : WSt) (e1 e2 : LEv) :
    wrunFrom w [e1, e2] = (wstep w e1).bind (fun w' => wstep w' e2) := by
  simp [wrunFrom, List.foldl]

/-- a step that only moves the pc of thread `t` (no heap change, no log event). -/
theorem inv_local_step {s : State} (hI : Inv s) (t : Nat) (p' : Pc)
    (hL : Local s.toHeap p') (hp : priv p' = priv (s.pc t) ∨ priv p' = none)
    (hT : ∀ st, TRel s.toHeap (s.pc t) st → TRel s.toHeap p' st) : Inv (setPc s t p') := by
  have hpc : (setPc s t p').pc = upd s.pc t p' := rfl
  refine ⟨hI.glob, hI.privs.same_chain hpc rfl hp, loc_frame hI hpc (Ext.refl _) hL, ?_⟩
  refine LogInv.events hI (evs := []) hpc (Ext.refl _) (by simp [setPc]) ?_
  intro w hq hTt
  exact ⟨w, rfl, hq, hT _ hTt, fun _ _ => rfl⟩

/-- a step that moves the pc of thread `t` and appends log events, heap unchanged. -/
theorem inv_log_step {s s' : State} (hI : Inv s) (t : Nat) (p' : Pc) (evs : List LEv)
    (hh : s'.toHeap = s.toHeap) (hpc : s'.pc = upd s.pc t p') (hlog : s'.log = s.log ++ evs)
    (hL : Local s.toHeap p') (hp : priv p' = priv (s.pc t) ∨ priv p' = none)
    (hstep : ∀ w : WSt, w.q = absQ s.toHeap → TRel s.toHeap (s.pc t) (w.st t) →
      ∃ w', wrunFrom w evs = some w' ∧ w'.q = w.q ∧ TRel s.toHeap p' (w'.st t) ∧
        ∀ t', t' ≠ t → w'.st t' = w.st t') : Inv s' := by
  have hc : s'.chain = s.chain := by rw [show s'.chain = s'.toHeap.chain from rfl, hh]
  have e : Ext s.toHeap s'.toHeap := by rw [hh]; exact Ext.refl _
  refine ⟨by rw [hh]; exact hI.glob, hI.privs.same_chain hpc hc hp, loc_frame hI hpc e (by rw [hh]; exact hL), ?_⟩
  refine LogInv.events hI hpc e hlog ?_
  intro w hq hTt
  obtain ⟨w', h1, h2, h3, h4⟩ := hstep w hq hTt
  exact ⟨w', h1, by rw [h2, hq, hh], by rw [hh]; exact h3, h4⟩

/-! ### CAS on the tail (helping CAS of Push/Pop and the final swing of Push) -/

theorem casTail_pc (s : State) (t tl x : Nat) (p' : Pc) : (casTail s t tl x p').pc = upd s.pc t p' := by
  unfold casTail; split <;> rfl

theorem casTail_log (s : State) (t tl x : Nat) (p' : Pc) : (casTail s t tl x p').log = s.log := by
  unfold casTail; split <;> rfl

theorem casTail_heap (s : State) (t tl x : Nat) (p' : Pc) :
    (casTail s t tl x p').toHeap = if s.tail = tl then { s.toHeap with tail := x, ti := s.ti + 1 } else s.toHeap := by
  unfold casTail; split <;> rfl

theorem absQ_adv_tail (h : Heap) (x : Nat) : absQ { h with tail := x, ti := h.ti + 1 } = absQ h := rfl

theorem inv_casTail {s s' : State} (hI : Inv s) {t tl x : Nat} {p' : Pc} {evs : List LEv}
    (hh : s'.toHeap = (casTail s t tl x p').toHeap) (hpc : s'.pc = upd s.pc t p')
    (hlog : s'.log = s.log ++ evs)
    (hn : s.next tl = some x) (hL : Local s.toHeap p') (hp : priv p' = priv (s.pc t) ∨ priv p' = none)
    (hstep : ∀ w : WSt, TRel s.toHeap (s.pc t) (w.st t) →
      ∃ w', wrunFrom w evs = some w' ∧ w'.q = w.q ∧ TRel s.toHeap p' (w'.st t) ∧
        ∀ t', t' ≠ t → w'.st t' = w.st t') : Inv s' := by
  rw [casTail_heap] at hh
  by_cases hc : s.tail = tl
  · rw [if_pos hc] at hh
    subst hc
    have e : Ext s.toHeap s'.toHeap := by rw [hh]; exact Ext.adv_tail _ _
    have g : Global s'.toHeap := by rw [hh]; exact hI.glob.adv_tail hn
    have hch : s'.chain = s.chain := by rw [show s'.chain = s'.toHeap.chain from rfl, hh]
    refine ⟨g, hI.privs.same_chain hpc hch hp, loc_frame hI hpc e (Local.ext hI.glob e _ hL), ?_⟩
    refine LogInv.events hI hpc e hlog ?_
    intro w hq hTt
    obtain ⟨w', h1, h2, h3, h4⟩ := hstep w hTt
    refine ⟨w', h1, ?_, TRel.ext e _ _ hL h3, h4⟩
    rw [h2, hq, hh]; rfl
  · rw [if_neg hc] at hh
    exact inv_log_step hI t p' evs hh hpc hlog hL hp (fun w _ hTt => hstep w hTt)

/-! ### the steps of Push -/

theorem inv_p1 {s : State} (hI : Inv s) {t n : Nat} (hp : s.pc t = .p1 n) :
    Inv (setPc s t (.p2 n s.tail)) := by
  have hl := hI.loc t; rw [hp] at hl
  refine inv_local_step hI t _ ⟨hl, s.ti, Nat.le_refl _, hI.glob.tl⟩ (Or.inl (by rw [hp]; rfl)) ?_
  intro st; rw [hp]; exact id

theorem inv_p2 {s : State} (hI : Inv s) {t n tl : Nat} (hp : s.pc t = .p2 n tl) :
    Inv (setPc s t (.p3 n tl (s.next tl))) := by
  have hl := hI.loc t; rw [hp] at hl
  refine inv_local_step hI t _ ⟨hl.1, hl.2, fun x hx => hx⟩ (Or.inl (by rw [hp]; rfl)) ?_
  intro st; rw [hp]; exact id

theorem inv_p3 {s : State} (hI : Inv s) {t n tl : Nat} {nx : Option Nat} (hp : s.pc t = .p3 n tl nx) :
    Inv (tau s t) := by
  have hl := hI.loc t; rw [hp] at hl
  obtain ⟨h1, h2, h3⟩ := hl
  simp only [tau, hp]
  split
  · cases nx with
    | none =>
      refine inv_local_step hI t _ ⟨h1, h2⟩ (Or.inl (by rw [hp]; rfl)) ?_
      intro st; rw [hp]; exact id
    | some x =>
      refine inv_local_step hI t _ ⟨h1, h2, h3 x rfl⟩ (Or.inl (by rw [hp]; rfl)) ?_
      intro st; rw [hp]; exact id
  · refine inv_local_step hI t _ h1 (Or.inl (by rw [hp]; rfl)) ?_
    intro st; rw [hp]; exact id

theorem absQ_link (h : Heap) (g : Global h) (tl n : Nat) :
    absQ { h with next := upd h.next tl (some n), chain := h.chain ++ [n] } = absQ h ++ [h.val n] := by
  show ((h.chain ++ [n]).drop (h.hi + 1)).map h.val = (h.chain.drop (h.hi + 1)).map h.val ++ [h.val n]
  have := lt_length_of_getElem? g.hd
  rw [List.drop_append_of_le_length (by omega), List.map_append]; rfl

theorem inv_p4 {s : State} (hI : Inv s) {t n tl : Nat} (hp : s.pc t = .p4 n tl) :
    Inv (tau s t) := by
  have hl := hI.loc t; rw [hp] at hl
  obtain ⟨h1, h2⟩ := hl
  simp only [tau, hp]
  split
  · rename_i hn
    have hpt : priv (s.pc t) = some n := by rw [hp]; rfl
    have hnc := hI.privs.notin t n hpt
    have g := hI.glob.link_node h2 hn hnc h1
    have e := Ext.link_node s.toHeap (n := n) hn
    refine ⟨g, hI.privs.link hpt rfl rfl, loc_frame hI rfl e ⟨h1, h2.ext e, upd_same _ _ _⟩, ?_⟩
    refine LogInv.events hI (evs := [.lin t (.push (s.val n)) .ack]) rfl e rfl ?_
    intro w hq hTt
    rw [hp] at hTt
    simp only [TRel] at hTt
    refine ⟨⟨w.q ++ [s.val n], upd w.st t (.done (.push (s.val n)) .ack)⟩, ?_, ?_, ?_, ?_⟩
    · rw [wrunFrom_one]; simp [wstep, hTt, fifoApply]
    · show w.q ++ [s.val n] = _
      rw [hq]; exact (absQ_link s.toHeap hI.glob tl n).symm
    · show TRel _ (.p5 n tl) (upd w.st t _ t)
      rw [upd_same]; rfl
    · intro t' h; exact upd_other _ _ _ _ h
  · refine inv_local_step hI t _ h1 (Or.inl (by rw [hp]; rfl)) ?_
    intro st; rw [hp]; exact id

theorem inv_p4h {s : State} (hI : Inv s) {t n tl x : Nat} (hp : s.pc t = .p4h n tl x) :
    Inv (tau s t) := by
  have hl := hI.loc t; rw [hp] at hl
  obtain ⟨h1, _, h3⟩ := hl
  simp only [tau, hp]
  refine inv_casTail hI (evs := []) rfl (casTail_pc _ _ _ _ _) (by rw [casTail_log]; simp) h3
    (show Local s.toHeap (.p1 n) from h1) (Or.inl (by rw [hp]; rfl)) ?_
  intro w hTt
  rw [hp] at hTt
  exact ⟨w, rfl, rfl, hTt, fun _ _ => rfl⟩

theorem inv_p5 {s : State} (hI : Inv s) {t n tl : Nat} (hp : s.pc t = .p5 n tl) :
    Inv (tau s t) := by
  have hl := hI.loc t; rw [hp] at hl
  obtain ⟨_, _, h3⟩ := hl
  simp only [tau, hp]
  refine inv_casTail hI (evs := [.ret t .ack]) (p' := .idle) rfl (casTail_pc _ _ _ _ _) rfl h3
    trivial (Or.inr rfl) ?_
  intro w hTt
  rw [hp] at hTt
  simp only [TRel] at hTt
  refine ⟨{ w with st := upd w.st t .idle }, ?_, rfl, ?_, ?_⟩
  · rw [wrunFrom_one]; simp [wstep, hTt]
  · show TRel _ .idle (upd w.st t .idle t)
    rw [upd_same]; rfl
  · intro t' h; exact upd_other _ _ _ _ h

/-! ### the steps of Pop -/

theorem inv_d1 {s : State} (hI : Inv s) {t : Nat} (hp : s.pc t = .d1) :
    Inv (setPc s t (.d2 s.head)) := by
  refine inv_local_step hI t _ ⟨s.hi, Nat.le_refl _, hI.glob.hd⟩ (Or.inr rfl) ?_
  intro st; rw [hp]; exact id

theorem inv_d2 {s : State} (hI : Inv s) {t hd : Nat} (hp : s.pc t = .d2 hd) :
    Inv (setPc s t (.d3 hd s.tail)) := by
  have hl := hI.loc t; rw [hp] at hl
  obtain ⟨i, hi, hx⟩ := hl
  refine inv_local_step hI t _ ⟨i, s.ti, Nat.le_trans hi hI.glob.hile, hi, Nat.le_refl _, hx, hI.glob.tl⟩ (Or.inr rfl) ?_
  intro st; rw [hp]; exact id

theorem absQ_nil_of_last {h : Heap} (g : Global h) {i hd : Nat} (hi : i ≤ h.hi) (hx : h.chain[i]? = some hd)
    (hn : h.next hd = none) : absQ h = [] := by
  obtain ⟨h1, h2⟩ := g.last_of_next_none (Nat.le_trans hi g.hile) hx hn
  have := g.hile
  unfold absQ
  rw [List.drop_eq_nil_of_le (by omega)]; rfl

theorem inv_d3 {s : State} (hI : Inv s) {t hd tl : Nat} (hp : s.pc t = .d3 hd tl) :
    Inv (tau s t) := by
  have hl := hI.loc t; rw [hp] at hl
  have hl' := hl
  obtain ⟨i, j, hij, hi, hj, hx, hy⟩ := hl'
  simp only [tau, hp]
  split
  · rename_i hn
    have heq : hd = tl := by
      obtain ⟨h1, _⟩ := hI.glob.last_of_next_none (Nat.le_trans hij hj) hx hn
      have : i = j := by omega
      subst this
      rw [hx] at hy; injection hy
    refine inv_log_step hI t (.d4 hd tl none) [.obs t] rfl rfl rfl ⟨hl, fun x hx => (by cases hx), fun _ => heq⟩ (Or.inr rfl) ?_
    intro w hq hTt
    rw [hp] at hTt
    obtain ⟨b, hb⟩ := hTt
    have hq0 : w.q = [] := by rw [hq]; exact absQ_nil_of_last hI.glob hi hx hn
    refine ⟨{ w with st := upd w.st t (.pend .pop true) }, ?_, rfl, ?_, ?_⟩
    · rw [wrunFrom_one]; simp [wstep, hb, hq0]
    · show TRel _ (.d4 hd tl none) (upd w.st t _ t)
      rw [upd_same]; exact ⟨true, rfl, fun _ => rfl⟩
    · intro t' h; exact upd_other _ _ _ _ h
  · rename_i x hn
    refine inv_local_step hI t _ ⟨hl, fun y hy => (by injection hy with hy; subst hy; exact hn), fun h => (by cases h)⟩ (Or.inr rfl) ?_
    intro st; rw [hp]
    rintro ⟨b, hb⟩
    exact ⟨b, hb, fun h => by cases h⟩

theorem inv_d4 {s : State} (hI : Inv s) {t hd tl : Nat} {nx : Option Nat} (hp : s.pc t = .d4 hd tl nx) :
    Inv (tau s t) := by
  have hl := hI.loc t; rw [hp] at hl
  obtain ⟨⟨i, j, hij, hi, hj, hx, hy⟩, h2, h3⟩ := hl
  simp only [tau, hp]
  split
  · split
    · rename_i hhd heq
      cases nx with
      | none =>
        refine inv_log_step hI t .idle [.ret t (.val none)] rfl rfl rfl trivial (Or.inr rfl) ?_
        intro w _ hTt
        rw [hp] at hTt
        obtain ⟨b, hb, hb2⟩ := hTt
        have := hb2 rfl; subst this
        refine ⟨{ w with st := upd w.st t .idle }, ?_, rfl, ?_, ?_⟩
        · rw [wrunFrom_one]; simp [wstep, hb]
        · show TRel _ .idle (upd w.st t .idle t)
          rw [upd_same]; rfl
        · intro t' h; exact upd_other _ _ _ _ h
      | some x =>
        refine inv_local_step hI t _ ⟨⟨j, hj, hy⟩, by rw [← heq]; exact h2 x rfl⟩ (Or.inr rfl) ?_
        intro st; rw [hp]
        rintro ⟨b, hb, _⟩
        exact ⟨b, hb⟩
    · rename_i hhd hne
      cases nx with
      | none => exact absurd (h3 rfl) hne
      | some x =>
        have hlt : i < j := by
          rcases Nat.lt_or_ge i j with h | h
          · exact h
          · have : i = j := by omega
            subst this
            rw [hx] at hy; injection hy with hy
            exact absurd hy hne
        refine inv_local_step hI t _ ⟨⟨i, by omega, hi, hx⟩, h2 x rfl, rfl⟩ (Or.inr rfl) ?_
        intro st; rw [hp]
        rintro ⟨b, hb, _⟩
        exact ⟨b, hb⟩
  · refine inv_local_step hI t _ trivial (Or.inr rfl) ?_
    intro st; rw [hp]
    rintro ⟨b, hb, _⟩
    exact ⟨b, hb⟩

theorem inv_d5h {s : State} (hI : Inv s) {t hd tl x : Nat} (hp : s.pc t = .d5h hd tl x) :
    Inv (tau s t) := by
  have hl := hI.loc t; rw [hp] at hl
  obtain ⟨_, h2⟩ := hl
  simp only [tau, hp]
  refine inv_casTail hI (evs := []) rfl (casTail_pc _ _ _ _ _) (by rw [casTail_log]; simp) h2
    (show Local s.toHeap .d1 from trivial) (Or.inr rfl) ?_
  intro w hTt
  rw [hp] at hTt
  exact ⟨w, rfl, rfl, hTt, fun _ _ => rfl⟩

theorem absQ_adv_head {h : Heap} (g : Global h) {x : Nat} (hn : h.next h.head = some x) :
    absQ h = h.val x :: absQ { h with head := x, hi := h.hi + 1 } := by
  have h1 := g.succ_mem g.hd hn
  have h2 := lt_length_of_getElem? h1
  show (h.chain.drop (h.hi + 1)).map h.val = h.val x :: (h.chain.drop (h.hi + 1 + 1)).map h.val
  rw [List.drop_eq_getElem_cons h2, List.map_cons]
  rw [List.getElem?_eq_getElem h2] at h1
  injection h1 with h1
  rw [h1]

theorem inv_d5 {s : State} (hI : Inv s) {t hd x v : Nat} (hp : s.pc t = .d5 hd x v) :
    Inv (tau s t) := by
  have hl := hI.loc t; rw [hp] at hl
  obtain ⟨⟨i, hit, hih, hx⟩, hn, hv⟩ := hl
  simp only [tau, hp]
  split
  · rename_i hhd
    subst hhd
    have hi : i = s.hi := nodup_idx_eq hI.glob.nodup hx hI.glob.hd
    subst hi
    have g := hI.glob.adv_head hn hit
    have e := Ext.adv_head s.toHeap x
    refine ⟨g, hI.privs.same_chain (p' := Pc.idle) rfl rfl (Or.inr rfl), loc_frame hI rfl e trivial, ?_⟩
    refine LogInv.events hI (evs := [.lin t .pop (.val (some v)), .ret t (.val (some v))]) rfl e rfl ?_
    intro w hq hTt
    rw [hp] at hTt
    obtain ⟨b, hb⟩ := hTt
    rw [absQ_adv_head hI.glob hn, ← hv] at hq
    refine ⟨⟨absQ { s.toHeap with head := x, hi := s.hi + 1 }, upd (upd w.st t (.done .pop (.val (some v)))) t .idle⟩, ?_, rfl, ?_, ?_⟩
    · rw [wrunFrom_two]; simp [wstep, hb, hq, fifoApply]
    · show TRel _ Pc.idle (upd _ t TSt.idle t)
      rw [upd_same]; rfl
    · intro t' h
      show upd (upd w.st t _) t TSt.idle t' = _
      rw [upd_other _ _ _ _ h, upd_other _ _ _ _ h]
  · refine inv_local_step hI t _ trivial (Or.inr rfl) ?_
    intro st; rw [hp]; exact id

/-! ### invocations -/

theorem absQ_alloc {h : Heap} (g : Global h) (v : Nat) :
    absQ { h with val := upd h.val h.nalloc v, nalloc := h.nalloc + 1 } = absQ h := by
  show (h.chain.drop (h.hi + 1)).map (upd h.val h.nalloc v) = (h.chain.drop (h.hi + 1)).map h.val
  apply List.map_congr_left
  intro a ha
  exact upd_other _ _ _ _ (Nat.ne_of_lt (g.lt a (List.mem_of_mem_drop ha)))

theorem inv_invPush {s : State} (hI : Inv s) (t v : Nat) : Inv (step s (.invPush t v)) := by
  cases hp : s.pc t <;> simp only [step, hp] <;> try exact hI
  have g := hI.glob.alloc v
  have e := Ext.alloc s.toHeap v
  refine ⟨g, PrivInv.alloc hI rfl rfl (by rw [hp]; rfl), loc_frame hI rfl e (show s.nalloc < s.nalloc + 1 from Nat.lt_succ_self _), ?_⟩
  refine LogInv.events hI (evs := [.inv t (.push v)]) rfl e rfl ?_
  intro w hq hTt
  rw [hp] at hTt
  simp only [TRel] at hTt
  refine ⟨{ w with st := upd w.st t (.pend (.push v) false) }, ?_, ?_, ?_, ?_⟩
  · rw [wrunFrom_one]; simp [wstep, hTt]
  · show w.q = _
    rw [hq]; exact (absQ_alloc hI.glob v).symm
  · show TRel _ (.p1 s.nalloc) (upd w.st t _ t)
    rw [upd_same]
    show _ = TSt.pend (.push (upd s.val s.nalloc v s.nalloc)) false
    rw [upd_same]
  · intro t' h; exact upd_other _ _ _ _ h

theorem inv_invPop {s : State} (hI : Inv s) (t : Nat) : Inv (step s (.invPop t)) := by
  cases hp : s.pc t <;> simp only [step, hp] <;> try exact hI
  refine inv_log_step hI t .d1 [.inv t .pop] rfl rfl rfl trivial (Or.inr rfl) ?_
  intro w _ hTt
  rw [hp] at hTt
  simp only [TRel] at hTt
  refine ⟨{ w with st := upd w.st t (.pend .pop false) }, ?_, rfl, ?_, ?_⟩
  · rw [wrunFrom_one]; simp [wstep, hTt]
  · show TRel _ .d1 (upd w.st t _ t)
    rw [upd_same]; exact ⟨false, rfl⟩
  · intro t' h; exact upd_other _ _ _ _ h

/-! ### the invariant holds in every reachable state -/

theorem inv_tau {s : State} (hI : Inv s) (t : Nat) : Inv (tau s t) := by
  cases hp : s.pc t with
  | idle => simp only [tau, hp]; exact hI
  | crash => simp only [tau, hp]; exact hI
  | p1 n => have := inv_p1 hI hp; simpa only [tau, hp] using this
  | p2 n tl => have := inv_p2 hI hp; simpa only [tau, hp] using this
  | p3 n tl nx => exact inv_p3 hI hp
  | p4 n tl => exact inv_p4 hI hp
  | p4h n tl x => exact inv_p4h hI hp
  | p5 n tl => exact inv_p5 hI hp
  | d1 => have := inv_d1 hI hp; simpa only [tau, hp] using this
  | d2 hd => have := inv_d2 hI hp; simpa only [tau, hp] using this
  | d3 hd tl => exact inv_d3 hI hp
  | d4 hd tl nx => exact inv_d4 hI hp
  | d5h hd tl x => exact inv_d5h hI hp
  | d5 hd x v => exact inv_d5 hI hp

theorem inv_step {s : State} (hI : Inv s) (a : Act) : Inv (step s a) := by
  cases a with
  | invPush t v => exact inv_invPush hI t v
  | invPop t => exact inv_invPop hI t
  | tau t => exact inv_tau hI t

theorem inv_init : Inv init := by
  refine ⟨⟨?_, ?_, ?_, ?_, rfl, rfl, Nat.le_refl _, by decide⟩, ⟨?_, ?_⟩, fun _ => trivial, ⟨WSt.init, rfl, rfl, fun _ => rfl⟩⟩
  · show [0].Nodup; simp
  · intro x hx
    have : x = 0 := by simpa [init] using hx
    subst this; show 0 < 1; decide
  · intro i x hx
    show (none : Option Nat) = _
    symm
    apply List.getElem?_eq_none
    show [0].length ≤ i + 1
    simp
  · intro x _; rfl
  · intro t n h; cases h
  · intro t t' n _ h; cases h

theorem inv_run {s : State} (hI : Inv s) (acts : List Act) : Inv (run s acts) := by
  induction acts generalizing s with
  | nil => exact hI
  | cons a l ih => exact ih (inv_step hI a)

theorem inv_reachable (acts : List Act) : Inv (run init acts) := inv_run inv_init acts

end Got.Model.MSQueue
