import Got.Lemmas.AtomicsAst
import Got.Lemmas.Atomics
set_option linter.unusedSimpArgs false
namespace Got.Lemmas.AtomicsAst
open Got.Model.AtomicIR Got.Generated.AstLoomAtomics Got.Model.AtomicsGen
open Got.Model.Atomics (Word TPc MSt MAct stepM runM initM mLocked mStarving mWoken)

def confM : TPc → Config
  | .idle => .idle
  | .cas1 => .run (tryLock.body.map .stmt) [] []
  | .load => .run ((tryLock.body.drop 1).map .stmt) [] []
  | .cas2 old => .run ((tryLock.body.drop 4).map .stmt) [.i32 old, .i32 (old ||| 1#32)] []

structure RelM (g : GState) (s : MSt) : Prop where
  word : g.mem.cell32 = s.word
  conf : ∀ t, g.conf t = confM (s.pc t)
  res : ∀ t, lastRetB g.hist t = s.res t

theorem lastRetB_snoc (h : List (Nat × Ev)) (e : Nat × Ev) (t : Nat) :
    lastRetB (h ++ [e]) t =
      if e.1 = t then retB e.2 (lastRetB h t) else lastRetB h t := by
  simp [lastRetB, List.foldl_append]

theorem mask_eq : mLocked ||| mStarving ||| mWoken = 7#32 := by decide
theorem mLocked_one : mLocked = 1#32 := by decide

local macro "msimp" "[" ts:Lean.Parser.Tactic.simpLemma,* "]" : tactic =>
  `(tactic| simp [mutexProg, step, stepThread, startThread, GState.apply, tauM,
      confM, tryLock, enter, unwind, exec, stepFuel, Stmt.needs,
      Cond.needs, Rhs.needs, evalC, evalRhs, doAcc, eval, i64op, resolve, loadAt, casAt, retEvs, stepM, 
      Got.Model.Atomics.upd, Got.Model.AtomicIR.upd, Got.Lemmas.Atomics.mLocked_eq, Got.Lemmas.Atomics.mStarving_eq, Got.Lemmas.Atomics.mWoken_eq, lastRetB_snoc, retB, $ts,*])

theorem relM_apply (g : GState) (s s' : MSt) (t : Nat) (o : Out) (p' : TPc) (h : RelM g s)
    (hw : o.mem.cell32 = s'.word) (hpc : s'.pc = Got.Model.Atomics.upd s.pc t p') (hconf : o.conf = confM p')
    (hres : ∀ u, lastRetB (g.hist ++ retEvs t o.ret) u = s'.res u) :
    RelM (g.apply t o) s' := by
  refine ⟨hw, ?_, hres⟩
  intro u
  simp only [GState.apply, hpc, hconf]
  exact conf_upd g.conf s.pc confM t p' h.conf u

theorem simM_invoke (g : GState) (s : MSt) (t : Nat) (h : RelM g s) :
    RelM (step mutexProg noPred g (.inv t 0 [])) (stepM s (.tryStart t)) := by
  have ht := h.conf t
  cases hp : s.pc t with
  | idle =>
    rw [hp] at ht
    have e : step mutexProg noPred g (.inv t 0 []) =
        GState.apply { g with hist := g.hist ++ [(t, Ev.inv 0 [])] } t (startThread noPred g.mem tryLock []) := by
      msimp [ht]
    rw [e]
    have h' : RelM { g with hist := g.hist ++ [(t, Ev.inv 0 [])] } s :=
      ⟨h.word, h.conf, by intro u; have := h.res u; simp [lastRetB_snoc, retB, this]⟩
    apply relM_apply _ s _ t _ .cas1 h' <;> msimp [hp, h.word]
    intro u; exact h.res u
  | cas1 =>
    rw [hp] at ht
    have e : step mutexProg noPred g (.inv t 0 []) = g := by msimp [ht]
    have e2 : stepM s (.tryStart t) = s := by msimp [hp]
    rw [e, e2]; exact h
  | load =>
    rw [hp] at ht
    have e : step mutexProg noPred g (.inv t 0 []) = g := by msimp [ht]
    have e2 : stepM s (.tryStart t) = s := by msimp [hp]
    rw [e, e2]; exact h
  | cas2 old =>
    rw [hp] at ht
    have e : step mutexProg noPred g (.inv t 0 []) = g := by msimp [ht]
    have e2 : stepM s (.tryStart t) = s := by msimp [hp]
    rw [e, e2]; exact h

theorem simM_tau (g : GState) (s : MSt) (t : Nat) (h : RelM g s) :
    RelM (step mutexProg noPred g (.tau t)) (stepM s (tauM s t)) := by
  have ht := h.conf t
  have hw := h.word
  have hr := h.res
  cases hp : s.pc t with
  | idle =>
    rw [hp] at ht
    have e : step mutexProg noPred g (.tau t) = g := by msimp [ht]
    have e2 : stepM s (tauM s t) = s := by msimp [hp]
    rw [e, e2]; exact h
  | cas1 =>
    rw [hp] at ht
    have e : step mutexProg noPred g (.tau t) =
        g.apply t (exec noPred [] stepFuel ⟨g.mem, true, none⟩ (tryLock.body.map .stmt) []) := by
      simp [step, ht, confM, stepThread]
    rw [e]
    by_cases h0 : s.word = 0#32
    · apply relM_apply _ s _ t _ .idle h <;> msimp [hp, hw, h0]
      all_goals (intro u; by_cases hu : u = t <;> (have hu' : t = u ↔ u = t := ⟨Eq.symm, Eq.symm⟩; simp [hu, hu', hr u]))
    · apply relM_apply _ s _ t _ .load h <;> msimp [hp, hw, h0]
      all_goals (intro u; exact hr u)
  | load =>
    rw [hp] at ht
    have e : step mutexProg noPred g (.tau t) =
        g.apply t (exec noPred [] stepFuel ⟨g.mem, true, none⟩ ((tryLock.body.drop 1).map .stmt) []) := by
      simp [step, ht, confM, stepThread]
    rw [e]
    by_cases hm : s.word &&& 7#32 = 0#32
    · apply relM_apply _ s _ t _ (.cas2 s.word) h <;> msimp [hp, hw, hm]
      all_goals (intro u; exact hr u)
    · apply relM_apply _ s _ t _ .idle h <;> msimp [hp, hw, hm]
      all_goals (intro u; by_cases hu : u = t <;> (have hu' : t = u ↔ u = t := ⟨Eq.symm, Eq.symm⟩; simp [hu, hu', hr u]))
  | cas2 old =>
    rw [hp] at ht
    have e : step mutexProg noPred g (.tau t) =
        g.apply t (exec noPred [] stepFuel ⟨g.mem, true, none⟩ ((tryLock.body.drop 4).map .stmt)
          [.i32 old, .i32 (old ||| 1#32)]) := by
      simp [step, ht, confM, stepThread]
    rw [e]
    by_cases hv : s.word = old
    · apply relM_apply _ s _ t _ .idle h <;> msimp [hp, hw, hv]
      all_goals (intro u; by_cases hu : u = t <;> (have hu' : t = u ↔ u = t := ⟨Eq.symm, Eq.symm⟩; simp [hu, hu', hr u]))
    · apply relM_apply _ s _ t _ .idle h <;> msimp [hp, hw, hv]
      all_goals (intro u; by_cases hu : u = t <;> (have hu' : t = u ↔ u = t := ⟨Eq.symm, Eq.symm⟩; simp [hu, hu', hr u]))

theorem env_pc_res (s : MSt) (e : EnvAct) : (stepM s e.toM).pc = s.pc ∧ (stepM s e.toM).res = s.res := by
  cases e <;> simp only [EnvAct.toM, stepM] <;> (repeat' split) <;> exact ⟨rfl, rfl⟩

theorem simM_env (g : GState) (s : MSt) (e : EnvAct) (h : RelM g s) :
    RelM { g with mem := { g.mem with cell32 := (stepM s e.toM).word } } (stepM s e.toM) := by
  obtain ⟨hpc, hres⟩ := env_pc_res s e
  exact ⟨rfl, fun t => by rw [hpc]; exact h.conf t, fun t => by rw [hres]; exact h.res t⟩

theorem mxInit_rel (w : Word) : RelM (mxInit w) (initM w) := ⟨rfl, fun _ => rfl, fun _ => rfl⟩

theorem mxStep_rel (x : Mx) (a : MxAct) (h : RelM x.g x.s) : RelM (mxStep x a).g (mxStep x a).s := by
  cases a with
  | invoke t => exact simM_invoke x.g x.s t h
  | tau t => exact simM_tau x.g x.s t h
  | env e => exact simM_env x.g x.s e h

/-- the hand-written actions a joint run performs -/
def mxActs (x : Mx) : List MxAct → List MAct
  | [] => []
  | .invoke t :: as => .tryStart t :: mxActs (mxStep x (.invoke t)) as
  | .tau t :: as => tauM x.s t :: mxActs (mxStep x (.tau t)) as
  | .env e :: as => e.toM :: mxActs (mxStep x (.env e)) as

theorem mxRun_s (acts : List MxAct) : ∀ x : Mx, (acts.foldl mxStep x).s = runM x.s (mxActs x acts) := by
  induction acts with
  | nil => intro x; rfl
  | cons a as ih =>
    intro x
    rw [List.foldl_cons, ih]
    cases a <;> rfl

theorem mxRun_rel (w : Word) (acts : List MxAct) :
    RelM (mxRun w acts).g (mxRun w acts).s ∧ ∃ macts, (mxRun w acts).s = runM (initM w) macts := by
  constructor
  · suffices H : ∀ (acts : List MxAct) (x : Mx), RelM x.g x.s → RelM (acts.foldl mxStep x).g (acts.foldl mxStep x).s from
      H acts _ (mxInit_rel w)
    intro acts
    induction acts with
    | nil => intro x h; exact h
    | cons a as ih => intro x h; exact ih _ (mxStep_rel x a h)
  · exact ⟨_, mxRun_s acts _⟩

/-- Count(): for every state word the translated source returns `count w` (as an `int`) -/
theorem count_gen (w : Word) :
    ∃ r : BitVec 64, (countRun w).hist = [(0, Ev.inv 1 []), (0, Ev.ret (some (.i64 r)))] ∧
      r.toInt = Got.Model.Atomics.count w ∧ isIdle ((countRun w).conf 0) = true := by
  refine ⟨(w.sshiftRight 3 + (w &&& 1#32)).signExtend 64, ?_, ?_, ?_⟩
  · simp [countRun, mxInit, mutexProg, step, stepThread, startThread, GState.apply, count, enter, unwind, exec, stepFuel,
      Stmt.needs, Cond.needs, Rhs.needs, evalC, evalRhs, doAcc, eval, i64op, resolve, loadAt, casAt, retEvs,
      Got.Model.AtomicIR.upd]
  · rw [BitVec.toInt_signExtend_of_le (by decide)]
    simp [Got.Model.Atomics.count, Got.Lemmas.Atomics.mShift_eq, Got.Lemmas.Atomics.mLocked_eq]
  · simp [countRun, mxInit, mutexProg, step, stepThread, startThread, GState.apply, count, enter, unwind, exec, stepFuel,
      Stmt.needs, Cond.needs, Rhs.needs, evalC, evalRhs, doAcc, eval, i64op, resolve, loadAt, casAt, retEvs,
      Got.Model.AtomicIR.upd, isIdle]

/-- HasFlag: for every flag word and mask the translated source returns `(v & f) != 0` -/
theorem hasFlag_gen (v f : Got.Model.Atomics.W64) :
    (hasFlagRun v f).hist = [(0, Ev.inv 2 [.i64 f]), (0, Ev.ret (some (.bool (Got.Model.Atomics.hasFlag v f))))] ∧
      (hasFlagRun v f).mem.cell = v := by
  constructor
  · simp [hasFlagRun, flagProgH, flagInit, step, stepThread, startThread, GState.apply, Got.Generated.AstLoomAtomics.hasFlag,
      enter, unwind, exec, stepFuel, Stmt.needs, Cond.needs, Rhs.needs, evalC, evalRhs, doAcc, eval, i64op, resolve, loadAt,
      casAt, retEvs, Got.Model.AtomicIR.upd, Got.Model.Atomics.hasFlag]
    by_cases h : v &&& f = 0#64 <;> simp [h]
  · simp [hasFlagRun, flagProgH, flagInit, step, stepThread, startThread, GState.apply, Got.Generated.AstLoomAtomics.hasFlag,
      enter, unwind, exec, stepFuel, Stmt.needs, Cond.needs, Rhs.needs, evalC, evalRhs, doAcc, eval, i64op, resolve, loadAt,
      casAt, retEvs, Got.Model.AtomicIR.upd]

end Got.Lemmas.AtomicsAst
