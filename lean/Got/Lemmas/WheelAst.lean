import Got.Model.WheelGen
import Got.Lemmas.Wheel
/-
Translator tie for loom.Wheel (C03, race part): the LTS that the AtomicIR semantics gives to the programs
`fetchWheelData` / `onTicker` regenerated from /repo/loom/wheel.go takes exactly the steps of the hand-written model
`Got.Model.Wheel.step fixed`, under the mappings `confT` / `confR` from the hand-written program counters and locals to IR
configurations.  `RelW g s aux`: same shared memory (position, slots, allocator, closed bits, double-close flag), the ticker
(thread 0) and every requester (thread t+1) are in the configuration that corresponds to their pc; `aux t` supplies the
requester's parameter `interval`, which is dead after the index computation.
Hypotheses of the step lemmas (`Good`): `0 < n`, `0 < step` (NewWheel panics otherwise) and the ticker's local `position`
is a valid index — all hold in every reachable state (`TInv`).
-/
set_option linter.unusedSimpArgs false
namespace Got.Lemmas.WheelAst
open Got.Model.AtomicIR Got.Generated.AstLoomWheel Got.Model.WheelGen
open Got.Model.Wheel (State TPc RPc tickStep reqStep invokeStep fixed rangePanics bucketIndex complete)

def ctl (l : List Stmt) (k : List Item) : List Item := l.map .stmt ++ k

def loopOf : List Stmt → List Stmt
  | [_, _, _, .loop b] => b
  | _ => []

def reqB : List Stmt := loopOf fetchWheelData.body
def reqTail : List Item := [.pop 5, .loopEnd reqB]

def memW (s : State) : Mem :=
  ⟨fun _ => 0, fun _ => none, s.nextChan, none, none, 0, 0, (s.pos : Int), fun i => some (s.slot i), s.n,
   fun c => (s.closedBy c).isSome, s.dblClose⟩

def confT (s : State) : Config :=
  match s.tpc with
  | .loadPos => .idle
  | .storePos => .run ((onTicker.body.drop 1).map .stmt) [.int s.n, .int s.tpos] [.int s.n]
  | .swapSlot => .run ((onTicker.body.drop 2).map .stmt) [.int s.n, .int s.tpos] [.int s.n]
  | .close => .run ((onTicker.body.drop 3).map .stmt) [.int s.n, .int s.tpos, .ptr (some s.tlast)] [.int s.n]

def confR (s : State) (d : Int) (t : Nat) : Config :=
  match s.rpc t with
  | .idle => .idle
  | .loadPos => .run (ctl reqB reqTail) (reqArgs s.n s.step d ++ [.int (s.rk t)]) (reqArgs s.n s.step d)
  | .loadSlot =>
    .run (ctl (reqB.drop 2) reqTail)
      (reqArgs s.n s.step d ++ [.int (s.rk t), .int (s.rpos t), .int (((s.rpos t + s.rk t) % s.n : Nat) : Int)])
      (reqArgs s.n s.step d)
  | .reloadPos =>
    .run (ctl (reqB.drop 3) reqTail)
      (reqArgs s.n s.step d ++ [.int (s.rk t), .int (s.rpos t), .int (((s.rpos t + s.rk t) % s.n : Nat) : Int),
        .ptr (some (s.rdata t))]) (reqArgs s.n s.step d)

structure RelW (g : GState) (s : State) (aux : Nat → Int) : Prop where
  mem : g.mem = memW s
  tick : g.conf 0 = confT s
  req : ∀ t, g.conf (t + 1) = confR s (aux t) t
  ret : returned g = s.done.reverse.map (fun r => (r.tid, r.chan))

structure Good (s : State) : Prop where
  npos : 0 < s.n
  spos : 0 < s.step
  tpos : s.tpc ≠ .loadPos → s.tpos < s.n

theorem idx_toNat (a b n : Nat) : (((a : Int) + (b : Int)) % (n : Int)).toNat = (a + b) % n := by
  rw [← Int.natCast_add, ← Int.natCast_emod]; exact Int.toNat_natCast _

theorem idx_nonneg (a b n : Nat) : 0 ≤ ((a : Int) + (b : Int)) % (n : Int) := by
  rw [← Int.natCast_add, ← Int.natCast_emod]; exact Int.natCast_nonneg _

theorem tmod_nat (a b : Nat) (y : Int) : ((a : Int) + (b : Int)).tmod y = ((a : Int) + (b : Int)) % y :=
  Int.tmod_eq_emod_of_nonneg (by omega)

theorem tmod_nat1 (a : Nat) (y : Int) : ((a : Int) + 1).tmod y = ((a : Int) + 1) % y :=
  Int.tmod_eq_emod_of_nonneg (by omega)

theorem updG_apply {α : Type} (f : Nat → α) (t : Nat) (v : α) (u : Nat) :
    Got.Model.AtomicIR.upd f t v u = if u = t then v else f u := rfl

theorem updW_apply {α : Type} (f : Nat → α) (t : Nat) (v : α) (u : Nat) :
    Got.Model.Wheel.upd f t v u = if u = t then v else f u := rfl

theorem upd_some (f : Nat → Nat) (i v : Nat) :
    Got.Model.AtomicIR.upd (fun j => some (f j)) i (some v) = fun j => some (Got.Model.Wheel.upd f i v j) := by
  funext j; simp only [Got.Model.AtomicIR.upd, Got.Model.Wheel.upd]; split <;> rfl

theorem upd_closed (f : Nat → Option Nat) (c v : Nat) :
    (fun j => (Got.Model.Wheel.upd f c (some v) j).isSome) = Got.Model.AtomicIR.upd (fun j => (f j).isSome) c true := by
  funext j; simp only [Got.Model.AtomicIR.upd, Got.Model.Wheel.upd]; split <;> rfl

local macro "wsimp" "[" ts:Lean.Parser.Tactic.simpLemma,* "]" : tactic =>
  `(tactic| simp [prog, step, stepThread, startThread, GState.apply, tickG, reqG, invokeG, reqArgs, isIdle,
      confT, confR, ctl, reqB, reqTail, loopOf, fetchWheelData, onTicker, enter, unwind, exec, stepFuel, Stmt.needs,
      Cond.needs, Rhs.needs, evalC, evalRhs, doAcc, eval, resolve, loadAt, retEvs, memW, tickStep, reqStep, complete, fixed,
      updG_apply, updW_apply, upd_some, upd_closed, idx_toNat, idx_nonneg, tmod_nat, tmod_nat1, Int.natCast_inj, $ts,*])

/-- the ticker -/
theorem simW_tick (g : GState) (s : State) (aux : Nat → Int) (h : RelW g s aux) (hg : Good s) :
    RelW (tickG s.n g) (tickStep fixed s) aux := by
  have hm := h.mem
  have ht := h.tick
  have hr := h.req
  have hn : s.n ≠ 0 := Nat.ne_of_gt hg.npos
  cases hp : s.tpc with
  | loadPos =>
    simp only [confT, hp] at ht
    refine ⟨?_, ?_, ?_, ?_⟩
    · wsimp [ht, hp, hm]
    · wsimp [ht, hp, hm]
    · intro t; have := hr t; wsimp [ht, hp, hm, this]
    · have hret : g.hist.filterMap retOf = s.done.reverse.map (fun r => (r.tid, r.chan)) := h.ret
      wsimp [ht, hp, hm, returned, retOf, List.filterMap_append, hret]
  | storePos =>
    simp only [confT, hp] at ht
    refine ⟨?_, ?_, ?_, ?_⟩
    · wsimp [ht, hp, hm, hn]
    · wsimp [ht, hp, hm, hn]
    · intro t; have := hr t; wsimp [ht, hp, hm, hn, this]
    · have hret : g.hist.filterMap retOf = s.done.reverse.map (fun r => (r.tid, r.chan)) := h.ret
      wsimp [ht, hp, hm, hn, returned, retOf, List.filterMap_append, hret]
  | swapSlot =>
    simp only [confT, hp] at ht
    have hlt : s.tpos < s.n := hg.tpos (by rw [hp]; simp)
    refine ⟨?_, ?_, ?_, ?_⟩
    · wsimp [ht, hp, hm, hn, hlt]
    · wsimp [ht, hp, hm, hn, hlt]
    · intro t; have := hr t; wsimp [ht, hp, hm, hn, hlt, this]
    · have hret : g.hist.filterMap retOf = s.done.reverse.map (fun r => (r.tid, r.chan)) := h.ret
      wsimp [ht, hp, hm, hn, hlt, returned, retOf, List.filterMap_append, hret]
  | close =>
    simp only [confT, hp] at ht
    refine ⟨?_, ?_, ?_, ?_⟩
    · wsimp [ht, hp, hm, hn]
      funext c; simp only [Got.Model.AtomicIR.upd]; split <;> rfl
    · wsimp [ht, hp, hm, hn]
    · intro t; have := hr t; wsimp [ht, hp, hm, hn, this]
    · have hret : g.hist.filterMap retOf = s.done.reverse.map (fun r => (r.tid, r.chan)) := h.ret
      wsimp [ht, hp, hm, hn, returned, retOf, List.filterMap_append, hret]

/-- a requester's next access -/
theorem simW_req (g : GState) (s : State) (aux : Nat → Int) (t : Nat) (h : RelW g s aux) (hg : Good s) :
    RelW (reqG g t) (reqStep fixed t s) aux := by
  have hm := h.mem
  have ht := h.tick
  have hr := h.req
  have hrt := h.req t
  have hn : s.n ≠ 0 := Nat.ne_of_gt hg.npos
  have hmod : (s.rpos t + s.rk t) % s.n < s.n := Nat.mod_lt _ hg.npos
  have hoth : ∀ u, ¬ u = t → confR s (aux u) u = confR s (aux u) u := fun _ _ => rfl
  cases hp : s.rpc t with
  | idle =>
    simp only [confR, hp] at hrt
    have e : reqG g t = g := by wsimp [hrt]
    have e2 : reqStep fixed t s = s := by wsimp [hp]
    rw [e, e2]; exact h
  | loadPos =>
    simp only [confR, hp] at hrt
    refine ⟨?_, ?_, ?_, ?_⟩
    · wsimp [hrt, hp, hm, hn]
    · wsimp [hrt, hp, hm, hn, ht]
    · intro u
      have := hr u
      by_cases hu : u = t
      · subst hu; wsimp [hrt, hp, hm, hn]
      · wsimp [hrt, hp, hm, hn, hu, this]
    · have hret : g.hist.filterMap retOf = s.done.reverse.map (fun r => (r.tid, r.chan)) := h.ret
      wsimp [hrt, hp, hm, hn, returned, retOf, List.filterMap_append, hret]
  | loadSlot =>
    simp only [confR, hp] at hrt
    refine ⟨?_, ?_, ?_, ?_⟩
    · wsimp [hrt, hp, hm, hn, hmod]
    · wsimp [hrt, hp, hm, hn, hmod, ht]
    · intro u
      have := hr u
      by_cases hu : u = t
      · subst hu; wsimp [hrt, hp, hm, hn, hmod]
      · wsimp [hrt, hp, hm, hn, hmod, hu, this]
    · have hret : g.hist.filterMap retOf = s.done.reverse.map (fun r => (r.tid, r.chan)) := h.ret
      wsimp [hrt, hp, hm, hn, hmod, returned, retOf, List.filterMap_append, hret]
  | reloadPos =>
    simp only [confR, hp] at hrt
    by_cases he : s.rpos t = s.pos
    · refine ⟨?_, ?_, ?_, ?_⟩
      · wsimp [hrt, hp, hm, hn, he]
      · wsimp [hrt, hp, hm, hn, he, ht]
      · intro u
        have := hr u
        by_cases hu : u = t
        · subst hu; wsimp [hrt, hp, hm, hn, he]
        · wsimp [hrt, hp, hm, hn, he, hu, this]
      · have hret : g.hist.filterMap retOf = s.done.reverse.map (fun r => (r.tid, r.chan)) := h.ret
        wsimp [hrt, hp, hm, hn, he, returned, retOf, List.filterMap_append, hret]
    · refine ⟨?_, ?_, ?_, ?_⟩
      · wsimp [hrt, hp, hm, hn, he]
      · wsimp [hrt, hp, hm, hn, he, ht]
      · intro u
        have := hr u
        by_cases hu : u = t
        · subst hu; wsimp [hrt, hp, hm, hn, he]
        · wsimp [hrt, hp, hm, hn, he, hu, this]
      · have hret : g.hist.filterMap retOf = s.done.reverse.map (fun r => (r.tid, r.chan)) := h.ret
        wsimp [hrt, hp, hm, hn, he, returned, retOf, List.filterMap_append, hret]

theorem bucketIndex_pos (step : Nat) (d : Int) (hd : 0 ≤ d) (h : 0 < d.tdiv step) :
    ((bucketIndex step d : Nat) : Int) = d.tdiv step - 1 := by
  rw [Int.tdiv_eq_ediv_of_nonneg hd] at h ⊢
  unfold bucketIndex
  simp only []
  split <;> omega

theorem bucketIndex_zero (step : Nat) (d : Int) (hd : 0 ≤ d) (h : ¬ 0 < d.tdiv step) :
    ((bucketIndex step d : Nat) : Int) = d.tdiv step := by
  rw [Int.tdiv_eq_ediv_of_nonneg hd] at h ⊢
  have : 0 ≤ d / (step : Int) := Int.ediv_nonneg hd (by omega)
  unfold bucketIndex
  simp only []
  split <;> omega

/-- the interval of the pending call of requester `u` after thread `t` invoked with `d` -/
def auxInvoke (s : State) (aux : Nat → Int) (t : Nat) (d : Int) : Nat → Int :=
  fun u => if u = t ∧ s.rpc t = .idle then d else aux u

theorem simW_invoke (g : GState) (s : State) (aux : Nat → Int) (t : Nat) (d : Int) (h : RelW g s aux) (hg : Good s) :
    RelW (invokeG s.n s.step g t d) (invokeStep t d s) (auxInvoke s aux t d) := by
  have hm := h.mem
  have ht := h.tick
  have hr := h.req
  have hrt := h.req t
  have hs : s.step ≠ 0 := Nat.ne_of_gt hg.spos
  cases hp : s.rpc t with
  | idle =>
    simp only [confR, hp] at hrt
    by_cases h1 : d < 0
    · have hpan : rangePanics s.step s.n d = true := by simp [rangePanics, h1]
      refine ⟨?_, ?_, ?_, ?_⟩
      · wsimp [hrt, hp, hm, invokeStep, hpan, h1]
      · wsimp [hrt, hp, hm, invokeStep, hpan, h1, ht]
      · intro u
        have := hr u
        by_cases hu : u = t
        · subst hu; wsimp [hrt, hp, hm, invokeStep, hpan, h1, auxInvoke]
        · wsimp [hrt, hp, hm, invokeStep, hpan, h1, auxInvoke, hu, this]
      · have hret : g.hist.filterMap retOf = s.done.reverse.map (fun r => (r.tid, r.chan)) := h.ret
        wsimp [hrt, hp, hm, invokeStep, hpan, h1, returned, retOf, List.filterMap_append, hret]
    · by_cases h2 : (s.step : Int) * (s.n : Int) ≤ d
      · have hpan : rangePanics s.step s.n d = true := by simp [rangePanics, h2]
        refine ⟨?_, ?_, ?_, ?_⟩
        · wsimp [hrt, hp, hm, invokeStep, hpan, h1, h2]
        · wsimp [hrt, hp, hm, invokeStep, hpan, h1, h2, ht]
        · intro u
          have := hr u
          by_cases hu : u = t
          · subst hu; wsimp [hrt, hp, hm, invokeStep, hpan, h1, h2, auxInvoke]
          · wsimp [hrt, hp, hm, invokeStep, hpan, h1, h2, auxInvoke, hu, this]
        · have hret : g.hist.filterMap retOf = s.done.reverse.map (fun r => (r.tid, r.chan)) := h.ret
          wsimp [hrt, hp, hm, invokeStep, hpan, h1, h2, returned, retOf, List.filterMap_append, hret]
      · have hpan : rangePanics s.step s.n d = false := by simp [rangePanics, h1, h2]
        have hd : 0 ≤ d := Int.not_lt.1 h1
        by_cases hq : 0 < d.tdiv s.step
        · have hb := bucketIndex_pos s.step d hd hq
          refine ⟨?_, ?_, ?_, ?_⟩
          · wsimp [hrt, hp, hm, invokeStep, hpan, h1, h2, hs, hq, hb]
          · wsimp [hrt, hp, hm, invokeStep, hpan, h1, h2, hs, hq, hb, ht]
          · intro u
            have := hr u
            by_cases hu : u = t
            · subst hu; wsimp [hrt, hp, hm, invokeStep, hpan, h1, h2, hs, hq, hb, auxInvoke]
            · wsimp [hrt, hp, hm, invokeStep, hpan, h1, h2, hs, hq, hb, auxInvoke, hu, this]
          · have hret : g.hist.filterMap retOf = s.done.reverse.map (fun r => (r.tid, r.chan)) := h.ret
            wsimp [hrt, hp, hm, invokeStep, hpan, h1, h2, hs, hq, hb, returned, retOf, List.filterMap_append, hret]
        · have hb := bucketIndex_zero s.step d hd hq
          refine ⟨?_, ?_, ?_, ?_⟩
          · wsimp [hrt, hp, hm, invokeStep, hpan, h1, h2, hs, hq, hb]
          · wsimp [hrt, hp, hm, invokeStep, hpan, h1, h2, hs, hq, hb, ht]
          · intro u
            have := hr u
            by_cases hu : u = t
            · subst hu; wsimp [hrt, hp, hm, invokeStep, hpan, h1, h2, hs, hq, hb, auxInvoke]
            · wsimp [hrt, hp, hm, invokeStep, hpan, h1, h2, hs, hq, hb, auxInvoke, hu, this]
          · have hret : g.hist.filterMap retOf = s.done.reverse.map (fun r => (r.tid, r.chan)) := h.ret
            wsimp [hrt, hp, hm, invokeStep, hpan, h1, h2, hs, hq, hb, returned, retOf, List.filterMap_append, hret]
  | loadPos =>
    simp only [confR, hp] at hrt
    have e : invokeG s.n s.step g t d = g := by wsimp [hrt]
    have e2 : invokeStep t d s = s := by simp [invokeStep, hp]
    have e3 : auxInvoke s aux t d = aux := by funext u; simp [auxInvoke, hp]
    rw [e, e2, e3]; exact h
  | loadSlot =>
    simp only [confR, hp] at hrt
    have e : invokeG s.n s.step g t d = g := by wsimp [hrt]
    have e2 : invokeStep t d s = s := by simp [invokeStep, hp]
    have e3 : auxInvoke s aux t d = aux := by funext u; simp [auxInvoke, hp]
    rw [e, e2, e3]; exact h
  | reloadPos =>
    simp only [confR, hp] at hrt
    have e : invokeG s.n s.step g t d = g := by wsimp [hrt]
    have e2 : invokeStep t d s = s := by simp [invokeStep, hp]
    have e3 : auxInvoke s aux t d = aux := by funext u; simp [auxInvoke, hp]
    rw [e, e2, e3]; exact h

def auxStep (s : State) (aux : Nat → Int) : Got.Model.Wheel.Act → Nat → Int
  | .tick => aux
  | .invoke t d => auxInvoke s aux t d
  | .reset t base arg => auxInvoke s aux t (Got.Model.Wheel.resetInterval s.step base arg)
  | .req _ => aux

/-- **every action of the hand-written model is the corresponding action of the generated LTS** (in good states) -/
theorem simW_step (g : GState) (s : State) (aux : Nat → Int) (a : Got.Model.Wheel.Act) (h : RelW g s aux) (hg : Good s) :
    RelW (gstep s.n s.step g a) (Got.Model.Wheel.step fixed s a) (auxStep s aux a) := by
  cases a with
  | tick => exact simW_tick g s aux h hg
  | invoke t d => exact simW_invoke g s aux t d h hg
  | reset t base arg => exact simW_invoke g s aux t _ h hg
  | req t => exact simW_req g s aux t h hg

theorem step_n_step (s : State) (a : Got.Model.Wheel.Act) :
    (Got.Model.Wheel.step fixed s a).n = s.n ∧ (Got.Model.Wheel.step fixed s a).step = s.step := by
  cases a with
  | tick => exact ⟨(Got.Lemmas.Wheel.tick_frame fixed s).1, (Got.Lemmas.Wheel.tick_frame fixed s).2.1⟩
  | invoke t d => exact ⟨(Got.Lemmas.Wheel.invoke_frame t d s).1, (Got.Lemmas.Wheel.invoke_frame t d s).2.1⟩
  | reset t b a => exact ⟨(Got.Lemmas.Wheel.invoke_frame t _ s).1, (Got.Lemmas.Wheel.invoke_frame t _ s).2.1⟩
  | req t => exact ⟨(Got.Lemmas.Wheel.req_frame t s).1, (Got.Lemmas.Wheel.req_frame t s).2.1⟩

theorem good_of_inv {s : State} (h : Got.Lemmas.Wheel.Inv s) (hs : 0 < s.step) : Good s :=
  ⟨h.t.npos, hs, fun hne => by rw [h.t.tpos_eq hne]; exact Nat.mod_lt _ h.t.npos⟩

theorem init_rel (n stepNs : Nat) : RelW (genInit n) (Got.Model.Wheel.init n stepNs) (fun _ => 0) :=
  ⟨rfl, rfl, fun _ => rfl, rfl⟩

/-- every run of the hand-written model from NewWheel(step, n) is, action for action, the run of the generated LTS -/
theorem genRun_rel (n stepNs : Nat) (hn : 0 < n) (hs : 0 < stepNs) (acts : List Got.Model.Wheel.Act) :
    ∃ aux, RelW (genRun n stepNs acts) (Got.Model.Wheel.run fixed (Got.Model.Wheel.init n stepNs) acts) aux := by
  suffices H : ∀ (acts : List Got.Model.Wheel.Act) (g : GState) (s : State) (aux : Nat → Int),
      RelW g s aux → Got.Lemmas.Wheel.Inv s → s.n = n → s.step = stepNs →
      ∃ aux', RelW (acts.foldl (gstep n stepNs) g) (Got.Model.Wheel.run fixed s acts) aux' from
    H acts _ _ _ (init_rel n stepNs) (Got.Lemmas.Wheel.inv_init n stepNs hn) rfl rfl
  intro acts
  induction acts with
  | nil => intro g s aux h _ _ _; exact ⟨aux, h⟩
  | cons a as ih =>
    intro g s aux h hi h1 h2
    have hg : Good s := good_of_inv hi (by rw [h2]; exact hs)
    have hstep := simW_step g s aux a h hg
    rw [h1, h2] at hstep
    obtain ⟨e1, e2⟩ := step_n_step s a
    exact ih _ _ _ hstep (Got.Lemmas.Wheel.inv_step hi a) (by rw [e1, h1]) (by rw [e2, h2])

end Got.Lemmas.WheelAst
