import Got.Lemmas.SampleLoopAst
import Got.Lemmas.IfaceAst
import Got.Lemmas.HeapAstAll
/-
Assembly for C20: the heap operations `genOps` (container/heap terms from GOROOT interpreted over the world generated from
the methods of randx.sampleHeap) satisfy `OpsSpec`, hence `weightedSamplingFull` — the generated body of WeightedSampling
run over them, i.e. what `drv_sample ast` prints — is the model `weightedSampling`.
-/
namespace Got.Lemmas.SampleFullAst
open Got.Model Got.Model.Sample Got.Model.HeapAst Got.Model.SampleAst
open Got.Lemmas.HeapAst (B62)

variable {κ : Type}

theorem genOps_spec (less : κ → κ → Bool) : Got.Lemmas.SampleLoopAst.OpsSpec less (fun f => genOps f less) := by
  refine ⟨?_, ?_, ?_⟩
  · intro h x hsz
    obtain ⟨f0, h0⟩ := Got.Lemmas.HeapAst.pushAst_refines (itemLess less) h x hsz
    refine ⟨f0, fun f hf => ?_⟩
    show pushW f (sampleWorld less) h x = _
    rw [Got.Lemmas.IfaceAst.sampleWorld_eq, Got.Lemmas.IfaceAst.pushW_eq]
    exact h0 f hf
  · intro h hsz
    obtain ⟨f0, h0⟩ := Got.Lemmas.HeapAst.popAst_refines (itemLess less) h hsz
    refine ⟨f0, fun f hf => ?_⟩
    show (popW f (sampleWorld less) h).map (fun o => o.map (·.2)) = _
    rw [Got.Lemmas.IfaceAst.sampleWorld_eq, Got.Lemmas.IfaceAst.popW_eq, h0 f hf]
    rfl
  · intro f h i
    exact Got.Lemmas.IfaceAst.get_eq h i

/-- everything generated: body of WeightedSampling (/repo), sampleHeap methods (/repo), container/heap (GOROOT) -/
theorem weightedSamplingFull_refines (less gt : κ → κ → Bool) (sampleNum : Int) (keys : List κ)
    (hn : keys.length + 2 < B62) (hm : -9223372036854775808 ≤ sampleNum ∧ sampleNum < 9223372036854775808) :
    ∃ f0, ∀ fuel, f0 ≤ fuel →
      weightedSamplingFull fuel less gt sampleNum keys = some (weightedSampling less gt sampleNum keys) :=
  Got.Lemmas.SampleLoopAst.sampling_run_refines less gt (fun f => genOps f less) (genOps_spec less) sampleNum keys hn hm

end Got.Lemmas.SampleFullAst
