import Got.Lemmas.SortOrder
import Got.Lemmas.SortBounds
/- heap sort sorts (strict weak order, standard less closure) -/
namespace Got.Lemmas.Sort
open Got.Model.Sort

variable {K V : Type} {lt : K → K → Bool}

/-- max-heap property (tree indices relative to `first`) for all parents `r ≥ lo` and children `< hi` -/
def HeapFrom (lt : K → K → Bool) (ks : Array K) (first lo hi : Nat) : Prop :=
  ∀ r c x y, lo ≤ r → c < hi → (c = 2 * r + 1 ∨ c = 2 * r + 2) →
    ks[first + r]? = some x → ks[first + c]? = some y → lt x y = false

theorem pickChild_spec (sw : StrictWeak lt) (hi first child : Nat) (s : St K V) (hc : child < hi)
    (hsz : first + hi ≤ s.keys.size) :
    (pickChild (stdLess lt) hi first child s).2.keys = s.keys ∧
    ((pickChild (stdLess lt) hi first child s).1 = child ∨
      ((pickChild (stdLess lt) hi first child s).1 = child + 1 ∧ child + 1 < hi)) ∧
    ∀ c y yc, (c = child ∨ c = child + 1) → c < hi → s.keys[first + c]? = some y →
      s.keys[first + (pickChild (stdLess lt) hi first child s).1]? = some yc → lt yc y = false := by
  unfold pickChild
  split
  · rename_i h1
    obtain ⟨xl, hxl⟩ := getElem?_some_of_lt s.keys (first + child) (by omega)
    obtain ⟨xr, hxr⟩ := getElem?_some_of_lt s.keys (first + child + 1) (by omega)
    have hr : stdLess lt s (first + child) (first + child + 1) = lt xl xr := stdLess_eq lt s _ _ xl xr hxl hxr
    rw [hr]
    dsimp only
    refine ⟨rfl, ?_, ?_⟩
    · cases lt xl xr <;> simp; omega
    · intro c y yc hcc hch hy hyc
      cases hlr : lt xl xr with
      | true =>
        rw [hlr] at hyc
        simp only [if_true] at hyc
        have e : first + (child + 1) = first + child + 1 := by omega
        rw [e, hxr] at hyc; cases hyc
        rcases hcc with hcc | hcc
        · subst hcc; rw [hxl] at hy; cases hy; exact sw.le_of_lt hlr
        · subst hcc; rw [e, hxr] at hy; cases hy; exact sw.irrefl _
      | false =>
        rw [hlr] at hyc
        simp only [Bool.false_eq_true, if_false] at hyc
        rw [hxl] at hyc; cases hyc
        have e : first + (child + 1) = first + child + 1 := by omega
        rcases hcc with hcc | hcc
        · subst hcc; rw [hxl] at hy; cases hy; exact sw.irrefl _
        · subst hcc; rw [e, hxr] at hy; cases hy; exact hlr
  · rename_i h1
    dsimp only
    refine ⟨rfl, Or.inl rfl, ?_⟩
    intro c y yc hcc hch hy hyc
    have : c = child := by omega
    subst this
    rw [hy] at hyc; cases hyc; exact sw.irrefl _

/-- siftDown restores the heap property: all parents `≥ lo` except `root` are fine (H1), and the children of `root`
    do not exceed the parent of `root` (H2). -/
theorem siftDown_heap (sw : StrictWeak lt) (hi first lo root : Nat) (s : St K V) (hsz : first + hi ≤ s.keys.size)
    (H1 : ∀ r c x y, lo ≤ r → r ≠ root → c < hi → (c = 2 * r + 1 ∨ c = 2 * r + 2) →
      s.keys[first + r]? = some x → s.keys[first + c]? = some y → lt x y = false)
    (H2 : ∀ p c x y, lo ≤ p → (root = 2 * p + 1 ∨ root = 2 * p + 2) → c < hi → (c = 2 * root + 1 ∨ c = 2 * root + 2) →
      s.keys[first + p]? = some x → s.keys[first + c]? = some y → lt x y = false) :
    HeapFrom lt (siftDown (stdLess lt) hi first root s).keys first lo hi := by
  fun_induction siftDown (stdLess lt) hi first root s with
  | case1 root s child h =>
    intro r c x y h1 h2 h3 hx hy
    by_cases hr : r = root
    · subst hr; omega
    · exact H1 r c x y h1 hr h2 h3 hx hy
  | case2 root s child h pc r s1 hr =>
    have hpc := pickChild_spec sw hi first child s (by omega) hsz
    obtain ⟨hk, hc1, hc2⟩ := hpc
    have hk' : pc.2.keys = s.keys := hk
    have hc1' : pc.1 = child ∨ (pc.1 = child + 1 ∧ child + 1 < hi) := hc1
    have hc2' : ∀ c y yc, (c = child ∨ c = child + 1) → c < hi → s.keys[first + c]? = some y →
      s.keys[first + pc.1]? = some yc → lt yc y = false := hc2
    obtain ⟨xr, hxr⟩ := getElem?_some_of_lt s.keys (first + root) (by omega)
    obtain ⟨xc, hxc⟩ := getElem?_some_of_lt s.keys (first + pc.1) (by omega)
    have hle : lt xr xc = false := by
      have : r = lt xr xc := stdLess_eq lt pc.2 _ _ xr xc (by rw [hk']; exact hxr) (by rw [hk']; exact hxc)
      rw [← this]; simpa using hr
    intro r' c x y h1 h2 h3 hx hy
    have hx' : s.keys[first + r']? = some x := by rw [← hk']; exact hx
    have hy' : s.keys[first + c]? = some y := by rw [← hk']; exact hy
    by_cases hrr : r' = root
    · subst hrr
      rw [hxr] at hx'; cases hx'
      have := hc2' c y xc (by omega) h2 hy' hxc
      exact sw.le_trans this hle
    · exact H1 r' c x y h1 hrr h2 h3 hx' hy'
  | case3 root s child h pc r s1 hr ih =>
    have hpc := pickChild_spec sw hi first child s (by omega) hsz
    obtain ⟨hk, hc1, hc2⟩ := hpc
    have hk' : pc.2.keys = s.keys := hk
    have hc1' : pc.1 = child ∨ (pc.1 = child + 1 ∧ child + 1 < hi) := hc1
    have hc2' : ∀ c y yc, (c = child ∨ c = child + 1) → c < hi → s.keys[first + c]? = some y →
      s.keys[first + pc.1]? = some yc → lt yc y = false := hc2
    have hchild : child = 2 * root + 1 := rfl
    obtain ⟨xr, hxr⟩ := getElem?_some_of_lt s.keys (first + root) (by omega)
    obtain ⟨xc, hxc⟩ := getElem?_some_of_lt s.keys (first + pc.1) (by omega)
    have hlt : lt xr xc = true := by
      have : r = lt xr xc := stdLess_eq lt pc.2 _ _ xr xc (by rw [hk']; exact hxr) (by rw [hk']; exact hxc)
      rw [← this]; simpa using hr
    have hle := sw.le_of_lt hlt
    have hsw : ∀ k, (s1.swap (first + root) (first + pc.1)).keys[k]? =
        if k = first + root then s.keys[first + pc.1]? else if k = first + pc.1 then s.keys[first + root]? else s.keys[k]? := by
      intro k
      show (pc.2.keys.swapIfInBounds (first + root) (first + pc.1))[k]? = _
      rw [hk']
      exact getElem?_swapIfInBounds _ _ _ _ (by omega) (by omega)
    have hsize : (s1.swap (first + root) (first + pc.1)).keys.size = s.keys.size := by
      show (pc.2.keys.swapIfInBounds (first + root) (first + pc.1)).size = _
      rw [hk']; simp
    generalize pc.1 = c' at *
    have hswR : (s1.swap (first + root) (first + c')).keys[first + root]? = some xc := by rw [hsw, if_pos rfl, hxc]
    have hswC : (s1.swap (first + root) (first + c')).keys[first + c']? = some xr := by
      rw [hsw, if_neg (by omega), if_pos rfl, hxr]
    have hswO : ∀ k, k ≠ root → k ≠ c' → (s1.swap (first + root) (first + c')).keys[first + k]? = s.keys[first + k]? := by
      intro k h1 h2; rw [hsw, if_neg (by omega), if_neg (by omega)]
    apply ih (by omega)
    · intro r' c x y h1 h2 h3 h4 hx hy
      by_cases hrr : r' = root
      · subst hrr
        rw [hswR] at hx; cases hx
        by_cases hcc : c = c'
        · subst hcc; rw [hswC] at hy; cases hy; exact hle
        · rw [hswO c (by omega) hcc] at hy
          exact hc2' c y xc (by omega) h3 hy hxc
      · rw [hswO r' hrr h2] at hx
        have hcc : c ≠ c' := by omega
        by_cases hcr : c = root
        · subst hcr; rw [hswR] at hy; cases hy
          exact H2 r' c' x xc h1 (by omega) (by omega) (by omega) hx hxc
        · rw [hswO c hcr hcc] at hy
          exact H1 r' c x y h1 hrr h3 h4 hx hy
    · intro p c x y h1 h2 h3 h4 hx hy
      have hp : p = root := by omega
      subst hp
      rw [hswR] at hx; cases hx
      rw [hswO c (by omega) (by omega)] at hy
      exact H1 c' c xc y (by omega) (by omega) h3 h4 hxc hy

theorem siftDown_keys_size (hi first root : Nat) (s : St K V) :
    (siftDown (stdLess lt) hi first root s).keys.size = s.keys.size :=
  (siftDown_steps (stdLess lt) hi first root s).keys_size

theorem heapBuild_heap (sw : StrictWeak lt) (hi first i : Nat) (s : St K V) (hsz : first + hi ≤ s.keys.size)
    (H : HeapFrom lt s.keys first (i + 1) hi) :
    HeapFrom lt (heapBuild (stdLess lt) hi first i s).keys first 0 hi := by
  fun_induction heapBuild (stdLess lt) hi first i s with
  | case1 s =>
    apply siftDown_heap sw hi first 0 0 s hsz
    · intro r c x y h1 h2 h3 h4 hx hy
      exact H r c x y (by omega) h3 h4 hx hy
    · intro p c x y h1 h2; omega
  | case2 i s ih =>
    apply ih (by rw [siftDown_keys_size]; exact hsz)
    apply siftDown_heap sw hi first (i + 1) (i + 1) s hsz
    · intro r c x y h1 h2 h3 h4 hx hy
      exact H r c x y (by omega) h3 h4 hx hy
    · intro p c x y h1 h2; omega

/-- in a heap the root is a maximum -/
theorem heap_root_max (sw : StrictWeak lt) (ks : Array K) (first h : Nat) (hsz : first + h ≤ ks.size)
    (H : HeapFrom lt ks first 0 h) :
    ∀ k, k < h → ∀ x y, ks[first + k]? = some x → ks[first]? = some y → lt y x = false := by
  intro k
  induction k using Nat.strongRecOn with
  | _ k ih =>
    intro hk x y hx hy
    by_cases h0 : k = 0
    · subst h0
      have : first + 0 = first := by omega
      rw [this, hy] at hx; cases hx; exact sw.irrefl _
    · obtain ⟨z, hz⟩ := getElem?_some_of_lt ks (first + (k - 1) / 2) (by omega)
      have h1 := ih ((k - 1) / 2) (by omega) (by omega) z y hz hy
      have h2 := H ((k - 1) / 2) k z x (by omega) hk (by omega) hz hx
      exact sw.le_trans h2 h1

/-- pop phase: `[0,i)` is a heap, `[i,n)` is sorted and not below anything in the heap; at the end `[0,n)` is sorted -/
theorem heapPop_sorted (sw : StrictWeak lt) (first n i : Nat) (s : St K V) (hsz : first + n ≤ s.keys.size) (hin : i ≤ n)
    (H : HeapFrom lt s.keys first 0 i)
    (S : SortedOn lt s.keys (first + i) (first + n))
    (X : ∀ p q x y, p < i → i ≤ q → q < n → s.keys[first + p]? = some x → s.keys[first + q]? = some y → lt y x = false) :
    SortedOn lt (heapPop (stdLess lt) first i s).keys first (first + n) := by
  fun_induction heapPop (stdLess lt) first i s with
  | case1 s =>
    have : first + 0 = first := by omega
    rw [this] at S; exact S
  | case2 i s ih =>
    have hmax := heap_root_max sw s.keys first (i + 1) (by omega) H
    obtain ⟨xm, hxm⟩ := getElem?_some_of_lt s.keys first (by omega)
    obtain ⟨xi, hxi⟩ := getElem?_some_of_lt s.keys (first + i) (by omega)
    have hsw : ∀ k, (s.swap first (first + i)).keys[k]? =
        if k = first then s.keys[first + i]? else if k = first + i then s.keys[first]? else s.keys[k]? := by
      intro k
      exact getElem?_swapIfInBounds _ _ _ _ (by omega) (by omega)
    have hswO : ∀ k, k ≠ 0 → k ≠ i → (s.swap first (first + i)).keys[first + k]? = s.keys[first + k]? := by
      intro k h1 h2; rw [hsw, if_neg (by omega), if_neg (by omega)]
    have hswI : (s.swap first (first + i)).keys[first + i]? = some xm := by
      rw [hsw]
      by_cases hi0 : i = 0
      · subst hi0; simpa using hxm
      · rw [if_neg (by omega), if_pos rfl, hxm]
    have hsz1 : (s.swap first (first + i)).keys.size = s.keys.size := by simp
    have st := siftDown_steps (stdLess lt) i first 0 (s.swap first (first + i))
    have hout : ∀ q, i ≤ q → (siftDown (stdLess lt) i first 0 (s.swap first (first + i))).keys[first + q]? =
        (s.swap first (first + i)).keys[first + q]? := fun q hq => (st.outside (first + q) (by omega)).1
    -- every element of the swapped heap part is ≤ every element of the new sorted part (in the swapped state)
    have hX1 : ∀ p q x y, p < i → i ≤ q → q < n → (s.swap first (first + i)).keys[first + p]? = some x →
        (s.swap first (first + i)).keys[first + q]? = some y → lt y x = false := by
      intro p q x y hp hq hqn hx hy
      -- x is an old heap element
      have hxold : ∃ p', p' < i + 1 ∧ s.keys[first + p']? = some x := by
        by_cases hp0 : p = 0
        · subst hp0
          rw [hsw, if_pos (by omega)] at hx
          exact ⟨i, by omega, hx⟩
        · rw [hswO p hp0 (by omega)] at hx
          exact ⟨p, by omega, hx⟩
      obtain ⟨p', hp', hxp'⟩ := hxold
      by_cases hqi : q = i
      · subst hqi
        rw [hswI] at hy; cases hy
        exact hmax p' hp' x xm hxp' hxm
      · rw [hswO q (by omega) hqi] at hy
        exact X p' q x y hp' (by omega) hqn hxp' hy
    apply ih (by rw [siftDown_keys_size, hsz1]; exact hsz) (by omega)
    · -- heap restored on [0,i)
      apply siftDown_heap sw i first 0 0 _ (by rw [hsz1]; omega)
      · intro r c x y h1 h2 h3 h4 hx hy
        rw [hswO r h2 (by omega)] at hx
        rw [hswO c (by omega) (by omega)] at hy
        exact H r c x y h1 (by omega) h4 hx hy
      · intro p c x y h1 h2; omega
    · -- sorted suffix [i, n)
      intro p q x y h1 h2 h3 hx hy
      have e1 : p = first + (p - first) := by omega
      have e2 : q = first + (q - first) := by omega
      rw [e1, hout (p - first) (by omega)] at hx
      rw [e2, hout (q - first) (by omega)] at hy
      rw [hswO (q - first) (by omega) (by omega)] at hy
      by_cases hpi : p = first + i
      · have e3 : p - first = i := by omega
        rw [e3, hswI] at hx; cases hx
        exact X 0 (q - first) xm y (by omega) (by omega) (by omega) (by simpa using hxm) hy
      · rw [hswO (p - first) (by omega) (by omega)] at hx
        rw [← e1] at hx; rw [← e2] at hy
        exact S p q x y (by omega) h2 h3 hx hy
    · -- cross condition
      intro p q x y hp hq hqn hx hy
      rw [hout q hq] at hy
      have hall : AllK (siftDown (stdLess lt) i first 0 (s.swap first (first + i))).keys first (first + i)
          (fun x => ∀ q y, i ≤ q → q < n → (s.swap first (first + i)).keys[first + q]? = some y → lt y x = false) := by
        refine st.allK (P := fun x => ∀ q y, i ≤ q → q < n →
          (s.swap first (first + i)).keys[first + q]? = some y → lt y x = false)
          (by rw [hsz1]; omega) (Nat.le_refl _) (Nat.le_refl _) ?_
        intro k x hk1 hk2 hx q y hq hqn hy
        have e1 : k = first + (k - first) := by omega
        rw [e1] at hx
        exact hX1 (k - first) q x y (by omega) hq hqn hx hy
      exact hall (first + p) x (by omega) (by omega) hx q y hq hqn hy

/-- heapSort_func sorts `[a,b)` -/
theorem heapSort_sorted (sw : StrictWeak lt) (a b : Nat) (s : St K V) (hab : a ≤ b) (hb : b ≤ s.keys.size) :
    SortedOn lt (heapSort (stdLess lt) a b s).keys a b := by
  unfold heapSort
  dsimp only
  have e : a + (b - a) = b := by omega
  have hsz := (heapBuild_steps (stdLess lt) (b - a) a ((b - a - 1) / 2) s).keys_size
  have hheap := heapBuild_heap sw (b - a) a ((b - a - 1) / 2) s (by omega) (by
    intro r c x y h1 h2 h3; omega)
  have := heapPop_sorted sw a (b - a) (b - a) _ (by omega) (Nat.le_refl _) hheap
    (by intro i j x y h1 h2 h3; omega) (by intro p q x y h1 h2 h3; omega)
  rw [e] at this
  exact this

end Got.Lemmas.Sort
