import Got.Lemmas.Codec
import Got.Model.MiniGoBytes
import Got.Generated.AstIox
/-
Translator tie of the iox codec, part 1: the straight-line methods.

`Got.Generated.AstIox` holds the MiniGoBytes terms tools/srcfacts (minigo_codec.go) regenerates from /repo/iox on every
run.  For each method the theorem `<fn>_ast` states that interpreting the *generated* term
(`Got.Model.MiniGoBytes.run table "<Type>.<Method>"`) on an arbitrary stream `(buf, pos)` gives exactly what the
hand-written model `Got.Model.Codec` computes — for all argument values, all buffers and all positions.
-/
set_option linter.unusedSimpArgs false
namespace Got.Lemmas.CodecAst
open Got.Model.MiniGoBytes Got.Generated.AstIox
open Got.Model.Codec (writeBool writeByte writeInt16 writeInt32 writeInt64 writeRaw readByte readBool readInt16 readInt32
  readInt64)

/-- the model's error enum ↦ the embedding's -/
def cv : Got.Model.Codec.Err → Err
  | .NotEnoughData => .NotEnoughData
  | .Bad7BitInt => .Bad7BitInt
  | .NegativeSize => .NegativeSize
  | .InvalidArgument => .InvalidArgument

/-- what a translated reader returns for the model's result `r` (results `value, err`; the stream keeps its buffer and
    moves to `r.pos`; the model's `crash` is a Go panic) -/
def readOut {α : Type} (enc : α → Val) (zero : Val) (st : St) (r : Got.Model.Codec.Res α) : Out :=
  match r.out with
  | .ok v => .ret [enc v, .err none] [] { st with position := (r.pos : Int), alloc := st.alloc + r.alloc }
  | .err e => .ret [zero, .err (some (cv e))] [] { st with position := (r.pos : Int), alloc := st.alloc + r.alloc }
  | .crash => .panic

/-- what a translated writer returns: `nil`, the model's bytes appended -/
def writeOut (st : St) (bs : List Byte) : Out :=
  .ret [.err none] [none] { st with buffer := st.buffer ++ bs }


theorem decide_eq_beq {n : Nat} (a b : BitVec n) : decide (a = b) = (a == b) := by
  by_cases h : a = b <;> simp [h]


/-! ### table look-ups (by evaluation on the generated table) -/
theorem tbl_s_ReadBool : table "OctetsStream.ReadBool" = some OctetsStream_ReadBool := rfl
theorem tbl_s_ReadByte : table "OctetsStream.ReadByte" = some OctetsStream_ReadByte := rfl
theorem tbl_s_ReadInt16 : table "OctetsStream.ReadInt16" = some OctetsStream_ReadInt16 := rfl
theorem tbl_s_ReadInt32 : table "OctetsStream.ReadInt32" = some OctetsStream_ReadInt32 := rfl
theorem tbl_s_ReadInt64 : table "OctetsStream.ReadInt64" = some OctetsStream_ReadInt64 := rfl
theorem tbl_s_Read : table "OctetsStream.Read" = some OctetsStream_Read := rfl
theorem tbl_s_WriteBool : table "OctetsStream.WriteBool" = some OctetsStream_WriteBool := rfl
theorem tbl_s_WriteByte : table "OctetsStream.WriteByte" = some OctetsStream_WriteByte := rfl
theorem tbl_s_WriteInt16 : table "OctetsStream.WriteInt16" = some OctetsStream_WriteInt16 := rfl
theorem tbl_s_WriteInt32 : table "OctetsStream.WriteInt32" = some OctetsStream_WriteInt32 := rfl
theorem tbl_s_WriteInt64 : table "OctetsStream.WriteInt64" = some OctetsStream_WriteInt64 := rfl
theorem tbl_s_Write : table "OctetsStream.Write" = some OctetsStream_Write := rfl
theorem tbl_w_WriteBool : table "OctetsWriter.WriteBool" = some OctetsWriter_WriteBool := rfl
theorem tbl_w_WriteByte : table "OctetsWriter.WriteByte" = some OctetsWriter_WriteByte := rfl
theorem tbl_w_WriteInt16 : table "OctetsWriter.WriteInt16" = some OctetsWriter_WriteInt16 := rfl
theorem tbl_w_WriteInt32 : table "OctetsWriter.WriteInt32" = some OctetsWriter_WriteInt32 := rfl
theorem tbl_w_WriteInt64 : table "OctetsWriter.WriteInt64" = some OctetsWriter_WriteInt64 := rfl
theorem tbl_w_WriteString : table "OctetsWriter.WriteString" = some OctetsWriter_WriteString := rfl
theorem tbl_w_WriteBytes : table "OctetsWriter.WriteBytes" = some OctetsWriter_WriteBytes := rfl
theorem tbl_w_Write7 : table "OctetsWriter.Write7BitEncodedInt" = some OctetsWriter_Write7BitEncodedInt := rfl
theorem tbl_r_ReadBool : table "OctetsReader.ReadBool" = some OctetsReader_ReadBool := rfl
theorem tbl_r_ReadByte : table "OctetsReader.ReadByte" = some OctetsReader_ReadByte := rfl
theorem tbl_r_ReadInt16 : table "OctetsReader.ReadInt16" = some OctetsReader_ReadInt16 := rfl
theorem tbl_r_ReadInt32 : table "OctetsReader.ReadInt32" = some OctetsReader_ReadInt32 := rfl
theorem tbl_r_ReadInt64 : table "OctetsReader.ReadInt64" = some OctetsReader_ReadInt64 := rfl
theorem tbl_r_ReadString : table "OctetsReader.ReadString" = some OctetsReader_ReadString := rfl
theorem tbl_r_ReadBytes : table "OctetsReader.ReadBytes" = some OctetsReader_ReadBytes := rfl
theorem tbl_r_Read7 : table "OctetsReader.Read7BitEncodedInt" = some OctetsReader_Read7BitEncodedInt := rfl

/-! ### proof recipe

`rw [run_eq tbl_X _ _ _ rfl]; simp only [X]` exposes the generated body, `ast_eval [facts]` executes it with the one-step
lemmas of `exec` (never by definitional unfolding: the kernel would otherwise evaluate `wrap`/`decide` on symbolic
arguments) and evaluates the expressions under the given case facts; a final `simp` closes the remaining equation. -/

syntax "ast_eval1" ("[" Lean.Parser.Tactic.simpLemma,* "]")? : tactic
macro_rules
  | `(tactic| ast_eval1) => `(tactic| ast_eval1 [])
  | `(tactic| ast_eval1 [$ls,*]) => `(tactic|
    simp only [exec_nil, exec_decl, exec_assign, exec_setPos, exec_setBuf, exec_appendBuf, exec_appendSlice, exec_make,
      exec_copy, exec_copyBuf, exec_ite, exec_ret, finish,
      eval, evalList, EV.bind, Val.len, Val.le, Val.lt, Val.eq, Val.neg, Val.lit, Val.index, Val.toIdx,
      Val.add, Val.sub, Val.or, Val.and, Val.shl, Val.shr, Val.conv, Val.sliceFrom, bytesOf, List.lookup, outsOf, bindRes,
      writeBack, List.zip_nil_left, List.zip_nil_right, List.length_nil, List.length_cons, List.zipWith_nil_left,
      List.zip, List.zipWith, decide_true, decide_false, ite_true, ite_false, if_true, if_false, Bool.false_eq_true,
      not_false_eq_true, or_self, false_or, or_false, and_self, and_true, true_and, reduceCtorEq, Int.toNat_natCast,
      Int.reduceToNat, Int.reduceLT,
      Nat.reduceLT, Nat.reduceLeDiff, Nat.reduceEqDiff, BitVec.setWidth_eq, Option.map_some, Option.map_none,
      Bool.true_and, Bool.and_true, Bool.false_and, Bool.and_false, Nat.lt_irrefl, List.getElem?_drop, Nat.add_zero,
      beq_self_eq_true, String.reduceBEq, BitVec.reduceOfInt, List.cons_append, List.nil_append, Option.some.injEq,
      Bool.not_true, Bool.not_false, Bool.or_false, Bool.or_true, Bool.true_or, Bool.false_or, $ls,*])

/-- repeated passes: a statement exposed by the reduction of an `if` inside one pass is executed by the next -/
syntax "ast_eval" ("[" Lean.Parser.Tactic.simpLemma,* "]")? : tactic
macro_rules
  | `(tactic| ast_eval) => `(tactic| (ast_eval1 []; repeat ast_eval1 []))
  | `(tactic| ast_eval [$ls,*]) => `(tactic| (ast_eval1 [$ls,*]; repeat ast_eval1 [$ls,*]))

/-! ### writers of the stream -/

theorem s_writeByte_ast (b : Byte) (st : St) (fuel : Nat) (hf : 3 ≤ fuel) :
    run table "OctetsStream.WriteByte" fuel [.bv 8 false b] st = some (writeOut st (writeByte b)) := by
  obtain ⟨f, rfl⟩ : ∃ f, fuel = f + 3 := ⟨fuel - 3, by omega⟩
  rw [run_eq tbl_s_WriteByte _ _ _ rfl]
  simp only [OctetsStream_WriteByte]
  ast_eval
  simp [writeOut, writeByte]

theorem s_writeBool_ast (b : Bool) (st : St) (fuel : Nat) (hf : 5 ≤ fuel) :
    run table "OctetsStream.WriteBool" fuel [.bool b] st = some (writeOut st (writeBool b)) := by
  obtain ⟨f, rfl⟩ : ∃ f, fuel = f + 5 := ⟨fuel - 5, by omega⟩
  rw [run_eq tbl_s_WriteBool _ _ _ rfl]
  simp only [OctetsStream_WriteBool]
  cases b <;> ast_eval <;> simp [writeOut, Got.Lemmas.Codec.writeBool_eq]

theorem s_writeInt16_ast (d : BitVec 16) (st : St) (fuel : Nat) (hf : 3 ≤ fuel) :
    run table "OctetsStream.WriteInt16" fuel [.bv 16 true d] st = some (writeOut st (writeInt16 d)) := by
  obtain ⟨f, rfl⟩ : ∃ f, fuel = f + 3 := ⟨fuel - 3, by omega⟩
  rw [run_eq tbl_s_WriteInt16 _ _ _ rfl]
  simp only [OctetsStream_WriteInt16]
  ast_eval
  simp [writeOut, Got.Lemmas.Codec.writeInt16_eq]

theorem s_writeInt32_ast (d : BitVec 32) (st : St) (fuel : Nat) (hf : 3 ≤ fuel) :
    run table "OctetsStream.WriteInt32" fuel [.bv 32 true d] st = some (writeOut st (writeInt32 d)) := by
  obtain ⟨f, rfl⟩ : ∃ f, fuel = f + 3 := ⟨fuel - 3, by omega⟩
  rw [run_eq tbl_s_WriteInt32 _ _ _ rfl]
  simp only [OctetsStream_WriteInt32]
  ast_eval
  simp [writeOut, Got.Lemmas.Codec.writeInt32_eq]

theorem s_writeInt64_ast (d : BitVec 64) (st : St) (fuel : Nat) (hf : 3 ≤ fuel) :
    run table "OctetsStream.WriteInt64" fuel [.bv 64 true d] st = some (writeOut st (writeInt64 d)) := by
  obtain ⟨f, rfl⟩ : ∃ f, fuel = f + 3 := ⟨fuel - 3, by omega⟩
  rw [run_eq tbl_s_WriteInt64 _ _ _ rfl]
  simp only [OctetsStream_WriteInt64]
  ast_eval
  simp [writeOut, Got.Lemmas.Codec.writeInt64_eq]

/-- `Write(buffer)`: the argument slice is unchanged, its bytes are appended -/
theorem s_write_ast (data : List Byte) (st : St) (fuel : Nat) (hf : 5 ≤ fuel) :
    run table "OctetsStream.Write" fuel [.bytes data] st =
      some (.ret [.err none] [some data] { st with buffer := st.buffer ++ writeRaw data }) := by
  obtain ⟨f, rfl⟩ : ∃ f, fuel = f + 5 := ⟨fuel - 5, by omega⟩
  rw [Got.Lemmas.Codec.writeRaw_eq, run_eq tbl_s_Write _ _ _ rfl]
  simp only [OctetsStream_Write]
  cases data with
  | nil =>
    ast_eval
    simp [exec_nil, List.lookup]
  | cons b t =>
    have h : (0 : Int) < ((t.length : Int) + 1) := by omega
    ast_eval [h, Int.natCast_add, Int.cast_ofNat_Int]
    try ast_eval
    try simp

/-! ### readers of the stream -/

theorem s_readByte_ast (buf : List Byte) (pos a : Nat) (fuel : Nat) (hf : 5 ≤ fuel) :
    run table "OctetsStream.ReadByte" fuel [] ⟨buf, pos, a⟩ =
      some (readOut (.bv 8 false) (.bv 8 false 0) ⟨buf, pos, a⟩ (readByte buf pos)) := by
  obtain ⟨f, rfl⟩ : ∃ f, fuel = f + 5 := ⟨fuel - 5, by omega⟩
  rw [run_eq tbl_s_ReadByte _ _ _ rfl]
  simp only [OctetsStream_ReadByte]
  by_cases h : pos < buf.length
  · rw [Got.Lemmas.Codec.readByte_lt buf pos h]
    have h1 : ¬ ((buf.length : Int) ≤ (pos : Int)) := by omega
    have e0 : buf[pos]? = some buf[pos] := List.getElem?_eq_getElem h
    have hn : ¬ ((pos : Int) < 0) := by omega
    ast_eval [h1, e0, hn]
    simp [readOut]
  · rw [Got.Lemmas.Codec.readByte_ge buf pos (by omega)]
    have h1 : (buf.length : Int) ≤ (pos : Int) := by omega
    ast_eval [h1]
    simp [readOut, cv]

theorem s_readBool_ast (buf : List Byte) (pos a : Nat) (fuel : Nat) (hf : 8 ≤ fuel) :
    run table "OctetsStream.ReadBool" fuel [] ⟨buf, pos, a⟩ =
      some (readOut .bool (.bool false) ⟨buf, pos, a⟩ (readBool buf pos)) := by
  obtain ⟨f, rfl⟩ : ∃ f, fuel = f + 8 := ⟨fuel - 8, by omega⟩
  rw [run_eq tbl_s_ReadBool _ _ _ rfl]
  simp only [OctetsStream_ReadBool]
  rw [exec_call (vs := []) (h := rfl), s_readByte_ast buf pos a (f + 7) (by omega)]
  by_cases h : pos < buf.length
  · rw [Got.Lemmas.Codec.readByte_lt buf pos h, Got.Lemmas.Codec.readBool_lt buf pos h]
    simp only [readOut]
    ast_eval
    simp [List.lookup, decide_eq_beq]
  · rw [Got.Lemmas.Codec.readByte_ge buf pos (by omega), Got.Lemmas.Codec.readBool_ge buf pos (by omega)]
    simp only [readOut]
    ast_eval
    simp [cv, List.lookup]

theorem s_readInt16_ast (buf : List Byte) (pos a : Nat) (fuel : Nat) (hf : 7 ≤ fuel) :
    run table "OctetsStream.ReadInt16" fuel [] ⟨buf, pos, a⟩ =
      some (readOut (.bv 16 true) (.bv 16 true 0) ⟨buf, pos, a⟩ (readInt16 buf pos)) := by
  obtain ⟨f, rfl⟩ : ∃ f, fuel = f + 7 := ⟨fuel - 7, by omega⟩
  rw [run_eq tbl_s_ReadInt16 _ _ _ rfl]
  simp only [OctetsStream_ReadInt16]
  by_cases h : pos + 2 ≤ buf.length
  · rw [Got.Lemmas.Codec.readInt16_ok buf pos h]
    have h1 : ¬ ((buf.length : Int) < (pos : Int) + 2) := by omega
    have h2 : ¬ ((pos : Int) < 0) := by omega
    have h3 : ¬ ((buf.length : Int) < (pos : Int)) := by omega
    have e0 : buf[pos]? = some buf[pos] := List.getElem?_eq_getElem (by omega)
    have e1 : buf[pos + 1]? = some buf[pos + 1] := List.getElem?_eq_getElem (by omega)
    ast_eval [h1, h2, h3, e0, e1]
    simp [readOut]
  · rw [Got.Lemmas.Codec.readInt16_err buf pos h]
    have h1 : (buf.length : Int) < (pos : Int) + 2 := by omega
    ast_eval [h1]
    simp [readOut, cv]

theorem s_readInt32_ast (buf : List Byte) (pos a : Nat) (fuel : Nat) (hf : 7 ≤ fuel) :
    run table "OctetsStream.ReadInt32" fuel [] ⟨buf, pos, a⟩ =
      some (readOut (.bv 32 true) (.bv 32 true 0) ⟨buf, pos, a⟩ (readInt32 buf pos)) := by
  obtain ⟨f, rfl⟩ : ∃ f, fuel = f + 7 := ⟨fuel - 7, by omega⟩
  rw [run_eq tbl_s_ReadInt32 _ _ _ rfl]
  simp only [OctetsStream_ReadInt32]
  by_cases h : pos + 4 ≤ buf.length
  · rw [Got.Lemmas.Codec.readInt32_ok buf pos h]
    have h1 : ¬ ((buf.length : Int) < (pos : Int) + 4) := by omega
    have h2 : ¬ ((pos : Int) < 0) := by omega
    have h3 : ¬ ((buf.length : Int) < (pos : Int)) := by omega
    have e0 : buf[pos]? = some buf[pos] := List.getElem?_eq_getElem (by omega)
    have e1 : buf[pos + 1]? = some buf[pos + 1] := List.getElem?_eq_getElem (by omega)
    have e2 : buf[pos + 2]? = some buf[pos + 2] := List.getElem?_eq_getElem (by omega)
    have e3 : buf[pos + 3]? = some buf[pos + 3] := List.getElem?_eq_getElem (by omega)
    ast_eval [h1, h2, h3, e0, e1, e2, e3]
    simp [readOut]
  · rw [Got.Lemmas.Codec.readInt32_err buf pos h]
    have h1 : (buf.length : Int) < (pos : Int) + 4 := by omega
    ast_eval [h1]
    simp [readOut, cv]

theorem s_readInt64_ast (buf : List Byte) (pos a : Nat) (fuel : Nat) (hf : 7 ≤ fuel) :
    run table "OctetsStream.ReadInt64" fuel [] ⟨buf, pos, a⟩ =
      some (readOut (.bv 64 true) (.bv 64 true 0) ⟨buf, pos, a⟩ (readInt64 buf pos)) := by
  obtain ⟨f, rfl⟩ : ∃ f, fuel = f + 7 := ⟨fuel - 7, by omega⟩
  rw [run_eq tbl_s_ReadInt64 _ _ _ rfl]
  simp only [OctetsStream_ReadInt64]
  by_cases h : pos + 8 ≤ buf.length
  · rw [Got.Lemmas.Codec.readInt64_ok buf pos h]
    have h1 : ¬ ((buf.length : Int) < (pos : Int) + 8) := by omega
    have h2 : ¬ ((pos : Int) < 0) := by omega
    have h3 : ¬ ((buf.length : Int) < (pos : Int)) := by omega
    have e0 : buf[pos]? = some buf[pos] := List.getElem?_eq_getElem (by omega)
    have e1 : buf[pos + 1]? = some buf[pos + 1] := List.getElem?_eq_getElem (by omega)
    have e2 : buf[pos + 2]? = some buf[pos + 2] := List.getElem?_eq_getElem (by omega)
    have e3 : buf[pos + 3]? = some buf[pos + 3] := List.getElem?_eq_getElem (by omega)
    have e4 : buf[pos + 4]? = some buf[pos + 4] := List.getElem?_eq_getElem (by omega)
    have e5 : buf[pos + 5]? = some buf[pos + 5] := List.getElem?_eq_getElem (by omega)
    have e6 : buf[pos + 6]? = some buf[pos + 6] := List.getElem?_eq_getElem (by omega)
    have e7 : buf[pos + 7]? = some buf[pos + 7] := List.getElem?_eq_getElem (by omega)
    ast_eval [h1, h2, h3, e0, e1, e2, e3, e4, e5, e6, e7]
    simp [readOut]
  · rw [Got.Lemmas.Codec.readInt64_err buf pos h]
    have h1 : (buf.length : Int) < (pos : Int) + 8 := by omega
    ast_eval [h1]
    simp [readOut, cv]

/-! ### the delegating methods of OctetsWriter / OctetsReader (`return my.stream.X(…)`) -/

theorem w_writeByte_ast (b : Byte) (st : St) (fuel : Nat) (hf : 6 ≤ fuel) :
    run table "OctetsWriter.WriteByte" fuel [.bv 8 false b] st = some (writeOut st (writeByte b)) := by
  obtain ⟨f, rfl⟩ : ∃ f, fuel = f + 6 := ⟨fuel - 6, by omega⟩
  rw [run_eq tbl_w_WriteByte _ _ _ rfl]
  simp only [OctetsWriter_WriteByte]
  rw [exec_call (vs := [.bv 8 false b]) (h := by ast_eval), s_writeByte_ast b st (f + 5) (by omega)]
  simp only [writeOut]
  ast_eval

theorem w_writeBool_ast (b : Bool) (st : St) (fuel : Nat) (hf : 8 ≤ fuel) :
    run table "OctetsWriter.WriteBool" fuel [.bool b] st = some (writeOut st (writeBool b)) := by
  obtain ⟨f, rfl⟩ : ∃ f, fuel = f + 8 := ⟨fuel - 8, by omega⟩
  rw [run_eq tbl_w_WriteBool _ _ _ rfl]
  simp only [OctetsWriter_WriteBool]
  rw [exec_call (vs := [.bool b]) (h := by ast_eval), s_writeBool_ast b st (f + 7) (by omega)]
  simp only [writeOut]
  ast_eval

theorem w_writeInt16_ast (d : BitVec 16) (st : St) (fuel : Nat) (hf : 6 ≤ fuel) :
    run table "OctetsWriter.WriteInt16" fuel [.bv 16 true d] st = some (writeOut st (writeInt16 d)) := by
  obtain ⟨f, rfl⟩ : ∃ f, fuel = f + 6 := ⟨fuel - 6, by omega⟩
  rw [run_eq tbl_w_WriteInt16 _ _ _ rfl]
  simp only [OctetsWriter_WriteInt16]
  rw [exec_call (vs := [.bv 16 true d]) (h := by ast_eval), s_writeInt16_ast d st (f + 5) (by omega)]
  simp only [writeOut]
  ast_eval

theorem w_writeInt32_ast (d : BitVec 32) (st : St) (fuel : Nat) (hf : 6 ≤ fuel) :
    run table "OctetsWriter.WriteInt32" fuel [.bv 32 true d] st = some (writeOut st (writeInt32 d)) := by
  obtain ⟨f, rfl⟩ : ∃ f, fuel = f + 6 := ⟨fuel - 6, by omega⟩
  rw [run_eq tbl_w_WriteInt32 _ _ _ rfl]
  simp only [OctetsWriter_WriteInt32]
  rw [exec_call (vs := [.bv 32 true d]) (h := by ast_eval), s_writeInt32_ast d st (f + 5) (by omega)]
  simp only [writeOut]
  ast_eval

theorem w_writeInt64_ast (d : BitVec 64) (st : St) (fuel : Nat) (hf : 6 ≤ fuel) :
    run table "OctetsWriter.WriteInt64" fuel [.bv 64 true d] st = some (writeOut st (writeInt64 d)) := by
  obtain ⟨f, rfl⟩ : ∃ f, fuel = f + 6 := ⟨fuel - 6, by omega⟩
  rw [run_eq tbl_w_WriteInt64 _ _ _ rfl]
  simp only [OctetsWriter_WriteInt64]
  rw [exec_call (vs := [.bv 64 true d]) (h := by ast_eval), s_writeInt64_ast d st (f + 5) (by omega)]
  simp only [writeOut]
  ast_eval

/-- a reader wrapper returns exactly what the stream method returns -/
theorem reader_wrap {α : Type} (enc : α → Val) (zero : Val) (st : St) (r : Got.Model.Codec.Res α)
    (f : Nat) (name : String) (h : run table name (f + 1) [] st = some (readOut enc zero st r)) :
    finish [] (exec table [] (f + 2)
      [.call ["r0", "r1"] name [], .ret [.var "r0", .var "r1"]] ([] : Env) st) = some (readOut enc zero st r) := by
  rw [exec_call (vs := []) (h := rfl), h]
  unfold readOut
  cases r.out <;> ast_eval

theorem r_readByte_ast (buf : List Byte) (pos a : Nat) (fuel : Nat) (hf : 7 ≤ fuel) :
    run table "OctetsReader.ReadByte" fuel [] ⟨buf, pos, a⟩ =
      some (readOut (.bv 8 false) (.bv 8 false 0) ⟨buf, pos, a⟩ (readByte buf pos)) := by
  obtain ⟨f, rfl⟩ : ∃ f, fuel = f + 7 := ⟨fuel - 7, by omega⟩
  rw [run_eq tbl_r_ReadByte _ _ _ rfl]
  exact reader_wrap _ _ _ _ (f + 5) _ (s_readByte_ast buf pos a _ (by omega))

theorem r_readBool_ast (buf : List Byte) (pos a : Nat) (fuel : Nat) (hf : 10 ≤ fuel) :
    run table "OctetsReader.ReadBool" fuel [] ⟨buf, pos, a⟩ =
      some (readOut .bool (.bool false) ⟨buf, pos, a⟩ (readBool buf pos)) := by
  obtain ⟨f, rfl⟩ : ∃ f, fuel = f + 10 := ⟨fuel - 10, by omega⟩
  rw [run_eq tbl_r_ReadBool _ _ _ rfl]
  exact reader_wrap _ _ _ _ (f + 8) _ (s_readBool_ast buf pos a _ (by omega))

theorem r_readInt16_ast (buf : List Byte) (pos a : Nat) (fuel : Nat) (hf : 9 ≤ fuel) :
    run table "OctetsReader.ReadInt16" fuel [] ⟨buf, pos, a⟩ =
      some (readOut (.bv 16 true) (.bv 16 true 0) ⟨buf, pos, a⟩ (readInt16 buf pos)) := by
  obtain ⟨f, rfl⟩ : ∃ f, fuel = f + 9 := ⟨fuel - 9, by omega⟩
  rw [run_eq tbl_r_ReadInt16 _ _ _ rfl]
  exact reader_wrap _ _ _ _ (f + 7) _ (s_readInt16_ast buf pos a _ (by omega))

theorem r_readInt32_ast (buf : List Byte) (pos a : Nat) (fuel : Nat) (hf : 9 ≤ fuel) :
    run table "OctetsReader.ReadInt32" fuel [] ⟨buf, pos, a⟩ =
      some (readOut (.bv 32 true) (.bv 32 true 0) ⟨buf, pos, a⟩ (readInt32 buf pos)) := by
  obtain ⟨f, rfl⟩ : ∃ f, fuel = f + 9 := ⟨fuel - 9, by omega⟩
  rw [run_eq tbl_r_ReadInt32 _ _ _ rfl]
  exact reader_wrap _ _ _ _ (f + 7) _ (s_readInt32_ast buf pos a _ (by omega))

theorem r_readInt64_ast (buf : List Byte) (pos a : Nat) (fuel : Nat) (hf : 9 ≤ fuel) :
    run table "OctetsReader.ReadInt64" fuel [] ⟨buf, pos, a⟩ =
      some (readOut (.bv 64 true) (.bv 64 true 0) ⟨buf, pos, a⟩ (readInt64 buf pos)) := by
  obtain ⟨f, rfl⟩ : ∃ f, fuel = f + 9 := ⟨fuel - 9, by omega⟩
  rw [run_eq tbl_r_ReadInt64 _ _ _ rfl]
  exact reader_wrap _ _ _ _ (f + 7) _ (s_readInt64_ast buf pos a _ (by omega))

end Got.Lemmas.CodecAst
