import Got.Model.Ants
/- helper lemmas for the ants model (C07, C08) -/
namespace Got.Model.Ants

/-- a run that succeeds ends in its `getD` state (lets `decide` discharge concrete witnesses) -/
theorem run_eq_some_getD {c : Cfg} {acts : List Act} (h : (run c init acts).isSome = true) :
    run c init acts = some ((run c init acts).getD init) := by
  cases hr : run c init acts with
  | none => simp [hr] at h
  | some s => simp

end Got.Model.Ants
