import Got.Model.Ants
/- helper lemmas for the ants model (C07, C08): the per-task inductive invariant `TaskOK` -/
namespace Got.Model.Ants

/-- a run that succeeds ends in its `getD` state (lets `decide` discharge concrete witnesses) -/
theorem run_eq_some_getD {c : Cfg} {acts : List Act} (h : (run c init acts).isSome = true) :
    run c init acts = some ((run c init acts).getD init) := by
  cases hr : run c init acts with
  | none => simp [hr] at h
  | some s => simp

/-! ### classification of program counters -/
def CPc.isWrite : CPc → Bool | .write _ _ _ => true | _ => false
def CPc.fin : CPc → Bool | .closing _ | .closed => true | _ => false
def CPc.afterCas : CPc → Bool | .write _ _ _ | .closing _ | .closed => true | _ => false
def CPc.pair? : CPc → Option (Val × Err)
  | .returned _ v e | .hook1 _ v e | .cas _ v e | .write _ v e => some (v, e)
  | _ => Option.none
def CPc.live : CPc → Bool | .hook1 _ _ _ | .cas _ _ _ | .write _ _ _ => true | _ => false
def CPc.started : CPc → Bool | .none | .queued | .taken _ => false | _ => true

def TPc.pre : TPc → Bool
  | .none | .sendTest | .discardCb | .discarded | .enq | .queued => true | _ => false
def TPc.waiting : TPc → Bool | .hook3 | .select | .hook2 | .decide | .waitDone => true | _ => false
def TPc.preDecide : TPc → Bool | .sendCl | .hook3 | .select | .hook2 | .decide => true | _ => false
def TPc.post : TPc → Bool | .errTest | .loopTest | .onError | .wgDone | .done => true | _ => false
def TPc.fin : TPc → Bool | .wgDone | .done => true | _ => false

/-- invariant of one attempt record, independent of the rest of the task -/
def AttOK (x : Att) : Prop :=
  (x.closedCh = true ↔ x.pc = .closed) ∧
  (∀ p, x.pc.pair? = some p → x.ret = some p) ∧
  (x.pc.live = true → x.sawLive = true) ∧
  (x.decided = 1 → x.sawLive = true ∧ x.ret.isSome = true ∧ x.pc.afterCas = true) ∧
  (x.pc.isWrite = true → x.decided = 1) ∧
  x.decided ≤ 2 ∧
  x.starts = (if x.pc.started then 1 else 0)

theorem attOK_default : AttOK {} := by
  simp [AttOK, CPc.pair?, CPc.live, CPc.afterCas, CPc.isWrite, CPc.started]

theorem attOK_fresh (d b : Nat) : AttOK { deadline := d, beginAt := b } := by
  simp [AttOK, CPc.pair?, CPc.live, CPc.afterCas, CPc.isWrite, CPc.started]

def sumStarts (f : Nat → Att) : Nat → Nat
  | 0 => 0
  | n + 1 => sumStarts f n + (f n).starts

theorem sumStarts_upd_ge (f : Nat → Att) (a : Nat) (x : Att) (n : Nat) (h : n ≤ a) :
    sumStarts (upd f a x) n = sumStarts f n := by
  induction n with
  | zero => rfl
  | succ m ih =>
    have : m ≠ a := by omega
    simp [sumStarts, ih (by omega), upd, this]

theorem sumStarts_upd_lt (f : Nat → Att) (a : Nat) (x : Att) (n : Nat) (h : a < n) :
    sumStarts (upd f a x) n + (f a).starts = sumStarts f n + x.starts := by
  induction n with
  | zero => omega
  | succ m ih =>
    by_cases hm : m = a
    · subst hm
      simp [sumStarts, sumStarts_upd_ge f m x m (Nat.le_refl _), upd]
      omega
    · have := ih (by omega)
      simp [sumStarts, upd, hm]
      omega

theorem sumStarts_le (f : Nat → Att) (n : Nat) (h : ∀ a, (f a).starts ≤ 1) : sumStarts f n ≤ n := by
  induction n with
  | zero => simp [sumStarts]
  | succ m ih => have := h m; simp [sumStarts]; omega

end Got.Model.Ants
