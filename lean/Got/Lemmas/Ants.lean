import Got.Model.Ants
/- helper lemmas for the ants model (C07, C08): the per-task inductive invariant `TaskOK` -/
namespace Got.Model.Ants

/-- a run that succeeds ends in its `getD` state (lets `decide` discharge concrete witnesses) -/
theorem run_eq_some_getD {c : Cfg} {acts : List Act} (h : (run c init acts).isSome = true) :
    run c init acts = some ((run c init acts).getD init) := by
  cases hr : run c init acts with
  | none => simp [hr] at h
  | some s => simp

/-! ### classification of program counters -/
/-- the closure has won the attempt's flag and has not yet published (stages hook4, write) -/
def CPc.isWrite : CPc → Bool | .hook4 _ _ _ | .write _ _ _ => true | _ => false
def CPc.fin : CPc → Bool | .closing _ | .closed => true | _ => false
def CPc.afterCas : CPc → Bool | .hook4 _ _ _ | .write _ _ _ | .closing _ | .closed => true | _ => false
def CPc.pair? : CPc → Option (Val × Err)
  | .returned _ v e | .hook1 _ v e | .cas _ v e | .hook4 _ v e | .write _ v e => some (v, e)
  | _ => Option.none
def CPc.live : CPc → Bool | .hook1 _ _ _ | .cas _ _ _ | .hook4 _ _ _ | .write _ _ _ => true | _ => false
def CPc.started : CPc → Bool | .none | .queued | .taken _ => false | _ => true

def TPc.pre : TPc → Bool
  | .none | .sendTest | .discardCb | .discarded | .enq | .queued => true | _ => false
def TPc.waiting : TPc → Bool | .hook3 | .select | .hook2 | .decide | .waitDone => true | _ => false
def TPc.preDecide : TPc → Bool | .sendCl | .hook3 | .select | .hook2 | .decide => true | _ => false
def TPc.post : TPc → Bool | .errTest | .loopTest | .onError | .wgDone | .done => true | _ => false
def TPc.fin : TPc → Bool | .wgDone | .done => true | _ => false

/-- invariant of one attempt record, independent of the rest of the task -/
def AttOK (x : Att) : Prop :=
  (x.closedCh = true ↔ x.pc = .closed) ∧
  (∀ p, x.pc.pair? = some p → x.ret = some p) ∧
  (x.pc.live = true → x.sawLive = true) ∧
  (x.decided = 1 → x.sawLive = true ∧ x.ret.isSome = true ∧ x.pc.afterCas = true) ∧
  (x.pc.isWrite = true → x.decided = 1) ∧
  x.decided ≤ 2 ∧
  x.starts = (if x.pc.started then 1 else 0)

theorem attOK_default : AttOK {} := by
  simp [AttOK, CPc.pair?, CPc.live, CPc.afterCas, CPc.isWrite, CPc.started]

theorem attOK_fresh (d b : Nat) (cd : Bool) : AttOK { deadline := d, beginAt := b, ctxDone := cd } := by
  simp [AttOK, CPc.pair?, CPc.live, CPc.afterCas, CPc.isWrite, CPc.started]

def sumStarts (f : Nat → Att) : Nat → Nat
  | 0 => 0
  | n + 1 => sumStarts f n + (f n).starts

theorem sumStarts_upd_ge (f : Nat → Att) (a : Nat) (x : Att) (n : Nat) (h : n ≤ a) :
    sumStarts (upd f a x) n = sumStarts f n := by
  induction n with
  | zero => rfl
  | succ m ih =>
    have : m ≠ a := by omega
    simp [sumStarts, ih (by omega), upd, this]

theorem sumStarts_upd_lt (f : Nat → Att) (a : Nat) (x : Att) (n : Nat) (h : a < n) :
    sumStarts (upd f a x) n + (f a).starts = sumStarts f n + x.starts := by
  induction n with
  | zero => omega
  | succ m ih =>
    by_cases hm : m = a
    · subst hm
      simp [sumStarts, sumStarts_upd_ge f m x m (Nat.le_refl _), upd]
      omega
    · have := ih (by omega)
      simp [sumStarts, upd, hm]
      omega

theorem sumStarts_le (f : Nat → Att) (n : Nat) (h : ∀ a, (f a).starts ≤ 1) : sumStarts f n ≤ n := by
  induction n with
  | zero => simp [sumStarts]
  | succ m ih => have := h m; simp [sumStarts]; omega

/-! ### the per-task invariant (current code, `Cfg.old = false`) -/
structure TaskOK (t : Task) : Prop where
  r_pos : 1 ≤ t.R
  att_le : t.att ≤ t.R
  atts : ∀ a, AttOK (t.at_ a)
  beyond : ∀ a, t.att ≤ a → t.at_ a = {}
  inv_eq : t.inv = sumStarts t.at_ t.att
  pre0 : t.pc.pre = true → t.att = 0
  att_pos : t.pc.pre = false → t.pc ≠ .loopTest → 1 ≤ t.att
  writeW : ∀ a, (t.at_ a).pc.isWrite = true → a + 1 = t.att ∧ t.pc.waiting = true
  past : ∀ a, a + 1 < t.att → (t.at_ a).decided ≠ 0 ∧ (t.at_ a).ctxDone = true ∧
            ((t.at_ a).decided = 1 → ∃ v e, (t.at_ a).ret = some (v, e) ∧ e ≠ .nil)
  sendCl : t.pc = .sendCl → (t.at_ t.cur).pc = .none ∧ (t.at_ t.cur).decided = 0
  dec0 : 1 ≤ t.att → (t.at_ t.cur).decided = 0 → t.pc.preDecide = true
  dec2 : 1 ≤ t.att → (t.at_ t.cur).decided = 2 → t.pc.preDecide = false ∧ t.pc ≠ .waitDone
  wDE : t.pc = .writeDE → (t.at_ t.cur).decided = 2
  wDone : t.pc = .waitDone → (t.at_ t.cur).decided = 1
  pub1 : 1 ≤ t.att → (t.at_ t.cur).decided = 1 → (t.at_ t.cur).pc.fin = true →
            (t.at_ t.cur).ret = some (t.result, t.err)
  pub2 : 1 ≤ t.att → (t.at_ t.cur).decided = 2 → t.pc ≠ .writeDE → t.result = 0 ∧ t.err = .de
  ctxd : 1 ≤ t.att → t.pc.post = true → (t.at_ t.cur).ctxDone = true
  errLoop : t.pc = .loopTest → 1 ≤ t.att → t.err ≠ .nil
  errOn : t.pc = .onError → t.err ≠ .nil ∧ t.att = t.R
  errFin : t.pc.fin = true → t.err = .nil ∨ t.att = t.R
  onErrD : t.pc = .discarded → t.onErr.map Prod.fst = if t.hasCb then [Err.discard] else []
  onErrF : t.pc.fin = true → t.onErr.map Prod.fst = if t.err ≠ .nil ∧ t.hasCb then [t.err] else []
  onErr0 : t.pc ≠ .discarded → t.pc.fin = false → t.onErr = []
  gotD : t.pc = .done → t.got = some (t.result, t.err)

@[simp] theorem setAt_at_ (t : Task) (a : Nat) (x : Att) : (t.setAt a x).at_ = upd t.at_ a x := rfl
@[simp] theorem setAt_att (t : Task) (a : Nat) (x : Att) : (t.setAt a x).att = t.att := rfl
@[simp] theorem setAt_pc (t : Task) (a : Nat) (x : Att) : (t.setAt a x).pc = t.pc := rfl

theorem defaultRetry_pos : 1 ≤ defaultRetry := by decide

theorem effR_pos (o : Opts) : 1 ≤ effR o := by
  unfold effR
  split
  · omega
  · exact defaultRetry_pos

theorem taskOK_default : TaskOK {} := by
  constructor <;> simp [TPc.pre, TPc.fin, TPc.post, sumStarts, attOK_default, CPc.isWrite]

/-- generic update of one attempt record (plus result/err/inv) with the task's own pc unchanged -/
theorem ok_setAt {t : Task} (ok : TaskOK t) (a : Nat) (x' : Att) (r' : Val) (e' : Err) (i' : Nat)
    (hA : AttOK x') (hlt : a < t.att)
    (hInv : i' + (t.at_ a).starts = t.inv + x'.starts)
    (hW : x'.pc.isWrite = true → a + 1 = t.att ∧ t.pc.waiting = true)
    (hPast : a + 1 < t.att → x'.decided ≠ 0 ∧ x'.ctxDone = true ∧
        (x'.decided = 1 → ∃ v e, x'.ret = some (v, e) ∧ e ≠ .nil))
    (hCur : a + 1 = t.att →
        (t.pc = .sendCl → x'.pc = .none ∧ x'.decided = 0) ∧
        (x'.decided = 0 → t.pc.preDecide = true) ∧
        (x'.decided = 2 → t.pc.preDecide = false ∧ t.pc ≠ .waitDone) ∧
        (t.pc = .writeDE → x'.decided = 2) ∧
        (t.pc = .waitDone → x'.decided = 1) ∧
        (x'.decided = 1 → x'.pc.fin = true → x'.ret = some (r', e')) ∧
        (x'.decided = 2 → t.pc ≠ .writeDE → r' = 0 ∧ e' = .de) ∧
        (t.pc.post = true → x'.ctxDone = true))
    (hRes : a + 1 ≠ t.att → r' = t.result ∧ e' = t.err)
    (hErr : t.pc.post = true → r' = t.result ∧ e' = t.err) :
    TaskOK { t.setAt a x' with result := r', err := e', inv := i' } := by
  have hatt : 1 ≤ t.att := by omega
  have hc1 : a + 1 = t.att → t.cur = a := by intro h; simp [Task.cur]; omega
  have hc2 : a + 1 ≠ t.att → t.cur ≠ a := by intro h; simp [Task.cur]; omega
  have hpostL : t.pc = .loopTest → t.pc.post = true := by intro h; simp [h, TPc.post]
  have hpostO : t.pc = .onError → t.pc.post = true := by intro h; simp [h, TPc.post]
  have hpostF : t.pc.fin = true → t.pc.post = true := by
    intro h; cases hp : t.pc <;> simp_all [TPc.post, TPc.fin]
  -- the current attempt record after the update
  have hcurEq : ∀ (P : Att → Prop), (a + 1 = t.att → P x') → (a + 1 ≠ t.att → P (t.at_ t.cur)) →
      P (upd t.at_ a x' t.cur) := by
    intro P h1 h2
    by_cases h : a + 1 = t.att
    · rw [hc1 h]; simp; exact h1 h
    · rw [upd_other _ _ _ _ (hc2 h)]; exact h2 h
  refine
    { r_pos := ok.r_pos, att_le := ok.att_le, atts := ?_, beyond := ?_, inv_eq := ?_, pre0 := ok.pre0,
      att_pos := ok.att_pos, writeW := ?_, past := ?_, sendCl := ?_, dec0 := ?_, dec2 := ?_, wDE := ?_,
      wDone := ?_, pub1 := ?_, pub2 := ?_, ctxd := ?_, errLoop := ?_, errOn := ?_, errFin := ?_,
      onErrD := ok.onErrD, onErrF := ?_, onErr0 := ok.onErr0, gotD := ?_ }
  · intro b
    show AttOK (upd t.at_ a x' b)
    by_cases hb : b = a
    · subst hb; simpa using hA
    · simpa [hb] using ok.atts b
  · intro b hb
    show upd t.at_ a x' b = {}
    have hb' : t.att ≤ b := hb
    have : b ≠ a := by omega
    simpa [this] using ok.beyond b hb'
  · show i' = sumStarts (upd t.at_ a x') t.att
    have h1 := sumStarts_upd_lt t.at_ a x' t.att hlt
    have h2 := ok.inv_eq
    omega
  · intro b
    show (upd t.at_ a x' b).pc.isWrite = true → b + 1 = t.att ∧ t.pc.waiting = true
    by_cases hb : b = a
    · subst hb; simpa using hW
    · simpa [hb] using ok.writeW b
  · intro b hb
    have hb' : b + 1 < t.att := hb
    simp only [setAt_at_]
    by_cases hba : b = a
    · subst hba; simpa using hPast hb'
    · simpa [hba] using ok.past b hb'
  · intro hp
    exact hcurEq (fun y => y.pc = .none ∧ y.decided = 0) (fun h => (hCur h).1 hp) (fun _ => ok.sendCl hp)
  · intro _
    exact hcurEq (fun y => y.decided = 0 → t.pc.preDecide = true) (fun h => (hCur h).2.1) (fun _ => ok.dec0 hatt)
  · intro _
    exact hcurEq (fun y => y.decided = 2 → t.pc.preDecide = false ∧ t.pc ≠ .waitDone) (fun h => (hCur h).2.2.1)
      (fun _ => ok.dec2 hatt)
  · intro hp
    exact hcurEq (fun y => y.decided = 2) (fun h => (hCur h).2.2.2.1 hp) (fun _ => ok.wDE hp)
  · intro hp
    exact hcurEq (fun y => y.decided = 1) (fun h => (hCur h).2.2.2.2.1 hp) (fun _ => ok.wDone hp)
  · intro _
    exact hcurEq (fun y => y.decided = 1 → y.pc.fin = true → y.ret = some (r', e')) (fun h => (hCur h).2.2.2.2.2.1)
      (fun h => by rw [(hRes h).1, (hRes h).2]; exact ok.pub1 hatt)
  · intro _
    exact hcurEq (fun y => y.decided = 2 → t.pc ≠ .writeDE → r' = 0 ∧ e' = .de) (fun h => (hCur h).2.2.2.2.2.2.1)
      (fun h => by rw [(hRes h).1, (hRes h).2]; exact ok.pub2 hatt)
  · intro _ hp
    exact hcurEq (fun y => y.ctxDone = true) (fun h => (hCur h).2.2.2.2.2.2.2 hp) (fun _ => ok.ctxd hatt hp)
  · intro hp h1
    show e' ≠ .nil
    rw [(hErr (hpostL hp)).2]; exact ok.errLoop hp h1
  · intro hp
    show e' ≠ .nil ∧ t.att = t.R
    rw [(hErr (hpostO hp)).2]; exact ok.errOn hp
  · intro hp
    show e' = .nil ∨ t.att = t.R
    rw [(hErr (hpostF hp)).2]; exact ok.errFin hp
  · intro hp
    show t.onErr.map Prod.fst = if e' ≠ .nil ∧ t.hasCb then [e'] else []
    rw [(hErr (hpostF hp)).2]; exact ok.onErrF hp
  · intro hp
    show t.got = some (r', e')
    have hf : t.pc.post = true := by simp [show t.pc = .done from hp, TPc.post]
    rw [(hErr hf).1, (hErr hf).2]; exact ok.gotD hp

/-! ### preservation, closure (inner worker) transitions -/
set_option linter.unusedVariables false
set_option linter.unusedSimpArgs false

theorem lt_of_pc {t : Task} (ok : TaskOK t) {a : Nat} (h : (t.at_ a).pc ≠ .none) : a < t.att := by
  apply Classical.byContradiction
  intro hn
  have := ok.beyond a (by omega)
  rw [this] at h
  exact h rfl

theorem ok_cur {t : Task} (ok : TaskOK t) {a : Nat} (h : a + 1 = t.att) :
    (t.pc = .sendCl → (t.at_ a).pc = .none ∧ (t.at_ a).decided = 0) ∧
    ((t.at_ a).decided = 0 → t.pc.preDecide = true) ∧
    ((t.at_ a).decided = 2 → t.pc.preDecide = false ∧ t.pc ≠ .waitDone) ∧
    (t.pc = .writeDE → (t.at_ a).decided = 2) ∧
    (t.pc = .waitDone → (t.at_ a).decided = 1) ∧
    ((t.at_ a).decided = 1 → (t.at_ a).pc.fin = true → (t.at_ a).ret = some (t.result, t.err)) ∧
    ((t.at_ a).decided = 2 → t.pc ≠ .writeDE → t.result = 0 ∧ t.err = .de) ∧
    (t.pc.post = true → (t.at_ a).ctxDone = true) := by
  have hc : t.cur = a := by simp [Task.cur]; omega
  have h1 : 1 ≤ t.att := by omega
  rw [← hc]
  exact ⟨ok.sendCl, ok.dec0 h1, ok.dec2 h1, ok.wDE, ok.wDone, ok.pub1 h1, ok.pub2 h1, ok.ctxd h1⟩


theorem ok_wTake {c : Cfg} {now qlen k a : Nat} {w v : Nat} {hon : Bool} {e : Err} {t t' : Task} (hc : c.old = false) (ok : TaskOK t)
    (h : tstep c now qlen t (.wTake k a w) = some t') : TaskOK t' := by
  simp only [tstep, hc, Bool.false_eq_true, ↓reduceIte] at h
  (repeat' split at h) <;> cases h
  all_goals
    have ax := ok.atts a
    have hlt : a < t.att := lt_of_pc ok (a := a) (by simp_all)
    have hw := ok.writeW a
    have hpa := ok.past a
    have hcu := fun h => ok_cur ok (a := a) h
    refine ok_setAt ok a _ t.result t.err t.inv ?_ hlt ?_ ?_ ?_ ?_ ?_ ?_
    all_goals simp_all [AttOK, CPc.isWrite, CPc.fin, CPc.afterCas, CPc.pair?, CPc.live, CPc.started]
    all_goals (try omega)
    all_goals (try (intro _; omega))
    all_goals
      have h1 : a + 1 = t.att := by omega
      cases hp : t.pc <;> simp_all [TPc.preDecide, TPc.waiting, TPc.post, TPc.fin]

theorem ok_wStart {c : Cfg} {now qlen k a : Nat} {w v : Nat} {hon : Bool} {e : Err} {t t' : Task} (hc : c.old = false) (ok : TaskOK t)
    (h : tstep c now qlen t (.wStart k a hon) = some t') : TaskOK t' := by
  simp only [tstep, hc, Bool.false_eq_true, ↓reduceIte] at h
  (repeat' split at h) <;> cases h
  all_goals
    have ax := ok.atts a
    have hlt : a < t.att := lt_of_pc ok (a := a) (by simp_all)
    have hw := ok.writeW a
    have hpa := ok.past a
    have hcu := fun h => ok_cur ok (a := a) h
    refine ok_setAt ok a _ t.result t.err (t.inv + 1) ?_ hlt ?_ ?_ ?_ ?_ ?_ ?_
    all_goals simp_all [AttOK, CPc.isWrite, CPc.fin, CPc.afterCas, CPc.pair?, CPc.live, CPc.started]
    all_goals (try omega)
    all_goals (try (intro _; omega))
    all_goals
      have h1 : a + 1 = t.att := by omega
      cases hp : t.pc <;> simp_all [TPc.preDecide, TPc.waiting, TPc.post, TPc.fin]

theorem ok_wEnd {c : Cfg} {now qlen k a : Nat} {w v : Nat} {hon : Bool} {e : Err} {t t' : Task} (hc : c.old = false) (ok : TaskOK t)
    (h : tstep c now qlen t (.wEnd k a v e) = some t') : TaskOK t' := by
  simp only [tstep, hc, Bool.false_eq_true, ↓reduceIte] at h
  (repeat' split at h) <;> cases h
  all_goals
    have ax := ok.atts a
    have hlt : a < t.att := lt_of_pc ok (a := a) (by simp_all)
    have hw := ok.writeW a
    have hpa := ok.past a
    have hcu := fun h => ok_cur ok (a := a) h
    refine ok_setAt ok a _ t.result t.err t.inv ?_ hlt ?_ ?_ ?_ ?_ ?_ ?_
    all_goals simp_all [AttOK, CPc.isWrite, CPc.fin, CPc.afterCas, CPc.pair?, CPc.live, CPc.started]
    all_goals (try omega)
    all_goals (try (intro _; omega))
    all_goals
      have h1 : a + 1 = t.att := by omega
      cases hp : t.pc <;> simp_all [TPc.preDecide, TPc.waiting, TPc.post, TPc.fin]

theorem ok_wCheck {c : Cfg} {now qlen k a : Nat} {w v : Nat} {hon : Bool} {e : Err} {t t' : Task} (hc : c.old = false) (ok : TaskOK t)
    (h : tstep c now qlen t (.wCheck k a) = some t') : TaskOK t' := by
  simp only [tstep, hc, Bool.false_eq_true, ↓reduceIte] at h
  (repeat' split at h) <;> cases h
  all_goals
    have ax := ok.atts a
    have hlt : a < t.att := lt_of_pc ok (a := a) (by simp_all)
    have hw := ok.writeW a
    have hpa := ok.past a
    have hcu := fun h => ok_cur ok (a := a) h
    refine ok_setAt ok a _ t.result t.err t.inv ?_ hlt ?_ ?_ ?_ ?_ ?_ ?_
    all_goals simp_all [AttOK, CPc.isWrite, CPc.fin, CPc.afterCas, CPc.pair?, CPc.live, CPc.started]
    all_goals (try omega)
    all_goals (try (intro _; omega))
    all_goals
      have h1 : a + 1 = t.att := by omega
      cases hp : t.pc <;> simp_all [TPc.preDecide, TPc.waiting, TPc.post, TPc.fin]

theorem ok_hook1 {c : Cfg} {now qlen k a : Nat} {w v : Nat} {hon : Bool} {e : Err} {t t' : Task} (hc : c.old = false) (ok : TaskOK t)
    (h : tstep c now qlen t (.hook1 k a) = some t') : TaskOK t' := by
  simp only [tstep, hc, Bool.false_eq_true, ↓reduceIte] at h
  (repeat' split at h) <;> cases h
  all_goals
    have ax := ok.atts a
    have hlt : a < t.att := lt_of_pc ok (a := a) (by simp_all)
    have hw := ok.writeW a
    have hpa := ok.past a
    have hcu := fun h => ok_cur ok (a := a) h
    refine ok_setAt ok a _ t.result t.err t.inv ?_ hlt ?_ ?_ ?_ ?_ ?_ ?_
    all_goals simp_all [AttOK, CPc.isWrite, CPc.fin, CPc.afterCas, CPc.pair?, CPc.live, CPc.started]
    all_goals (try omega)
    all_goals (try (intro _; omega))
    all_goals
      have h1 : a + 1 = t.att := by omega
      cases hp : t.pc <;> simp_all [TPc.preDecide, TPc.waiting, TPc.post, TPc.fin]

theorem ok_hook4 {c : Cfg} {now qlen k a : Nat} {w v : Nat} {hon : Bool} {e : Err} {t t' : Task} (hc : c.old = false) (ok : TaskOK t)
    (h : tstep c now qlen t (.hook4 k a) = some t') : TaskOK t' := by
  simp only [tstep, hc, Bool.false_eq_true, ↓reduceIte] at h
  (repeat' split at h) <;> cases h
  all_goals
    have ax := ok.atts a
    have hlt : a < t.att := lt_of_pc ok (a := a) (by simp_all)
    have hw := ok.writeW a
    have hpa := ok.past a
    have hcu := fun h => ok_cur ok (a := a) h
    refine ok_setAt ok a _ t.result t.err t.inv ?_ hlt ?_ ?_ ?_ ?_ ?_ ?_
    all_goals simp_all [AttOK, CPc.isWrite, CPc.fin, CPc.afterCas, CPc.pair?, CPc.live, CPc.started]
    all_goals (try omega)
    all_goals (try (intro _; omega))
    all_goals
      have h1 : a + 1 = t.att := by omega
      cases hp : t.pc <;> simp_all [TPc.preDecide, TPc.waiting, TPc.post, TPc.fin]

theorem ok_wCas {c : Cfg} {now qlen k a : Nat} {w v : Nat} {hon : Bool} {e : Err} {t t' : Task} (hc : c.old = false) (ok : TaskOK t)
    (h : tstep c now qlen t (.wCas k a) = some t') : TaskOK t' := by
  simp only [tstep, hc, Bool.false_eq_true, ↓reduceIte] at h
  (repeat' split at h) <;> cases h
  all_goals
    have ax := ok.atts a
    have hlt : a < t.att := lt_of_pc ok (a := a) (by simp_all)
    have hw := ok.writeW a
    have hpa := ok.past a
    have hcu := fun h => ok_cur ok (a := a) h
    refine ok_setAt ok a _ t.result t.err t.inv ?_ hlt ?_ ?_ ?_ ?_ ?_ ?_
    all_goals simp_all [AttOK, CPc.isWrite, CPc.fin, CPc.afterCas, CPc.pair?, CPc.live, CPc.started]
    all_goals (try omega)
    all_goals (try (intro _; omega))
    all_goals
      have h1 : a + 1 = t.att := by omega
      cases hp : t.pc <;> simp_all [TPc.preDecide, TPc.waiting, TPc.post, TPc.fin]

theorem ok_wWrite {c : Cfg} {now qlen k a : Nat} {w v : Nat} {hon : Bool} {e : Err} {t t' : Task} (hc : c.old = false) (ok : TaskOK t)
    (h : tstep c now qlen t (.wWrite k a) = some t') : TaskOK t' := by
  simp only [tstep, hc, Bool.false_eq_true, ↓reduceIte] at h
  (repeat' split at h) <;> cases h
  all_goals
    have ax := ok.atts a
    have hlt : a < t.att := lt_of_pc ok (a := a) (by simp_all)
    have hw := ok.writeW a
    have hpa := ok.past a
    have hcu := fun h => ok_cur ok (a := a) h
    refine ok_setAt ok a _ _ _ t.inv ?_ hlt ?_ ?_ ?_ ?_ ?_ ?_
    all_goals simp_all [AttOK, CPc.isWrite, CPc.fin, CPc.afterCas, CPc.pair?, CPc.live, CPc.started]
    all_goals (try omega)
    all_goals (try (intro _; omega))
    all_goals
      have h1 : a + 1 = t.att := by omega
      cases hp : t.pc <;> simp_all [TPc.preDecide, TPc.waiting, TPc.post, TPc.fin]

theorem ok_wClose {c : Cfg} {now qlen k a : Nat} {w v : Nat} {hon : Bool} {e : Err} {t t' : Task} (hc : c.old = false) (ok : TaskOK t)
    (h : tstep c now qlen t (.wClose k a) = some t') : TaskOK t' := by
  simp only [tstep, hc, Bool.false_eq_true, ↓reduceIte] at h
  (repeat' split at h) <;> cases h
  all_goals
    have ax := ok.atts a
    have hlt : a < t.att := lt_of_pc ok (a := a) (by simp_all)
    have hw := ok.writeW a
    have hpa := ok.past a
    have hcu := fun h => ok_cur ok (a := a) h
    refine ok_setAt ok a _ t.result t.err t.inv ?_ hlt ?_ ?_ ?_ ?_ ?_ ?_
    all_goals simp_all [AttOK, CPc.isWrite, CPc.fin, CPc.afterCas, CPc.pair?, CPc.live, CPc.started]
    all_goals (try omega)
    all_goals (try (intro _; omega))
    all_goals
      have h1 : a + 1 = t.att := by omega
      cases hp : t.pc <;> simp_all [TPc.preDecide, TPc.waiting, TPc.post, TPc.fin]


end Got.Model.Ants
