import Got.Lemmas.HeapAstBase
import Got.Model.HeapAstWorld
import Got.Lemmas.GoHeap
/-
Translator tie of container/heap, part "down": the generated terms `h_down`, `h_Init`, `h_Pop`
(Got/Generated/AstContainerHeap.lean, rewritten from $GOROOT/src/container/heap/heap.go on every run) interpreted by
MiniGoHeap over `heapWorld less` (the slice-backed heap.Interface over `Array α`) compute exactly the model functions
`GoHeap.down`, `GoHeap.init`, `GoHeap.pop` of Got/Model/GoHeap.lean (including the panic of Pop on an empty heap).
-/
set_option linter.unusedSimpArgs false
namespace Got.Lemmas.HeapAst
open Got.Model.MiniGoSort (wrap Env)
open Got.Model.MiniGoHeap Got.Model.HeapAst Got.Model Got.Generated.AstContainerHeap
open Got.Lemmas.SortAst (wrap_eq)

variable {α : Type}

/-! ### the world operations at in-range natural indices -/

theorem hw_less (less : α → α → Bool) (a : Array α) (i j : Nat) (hi : i < a.size) (hj : j < a.size) :
    (heapWorld less).less a (i : Int) (j : Int) = some (less a[i] a[j], a) := by
  have h : 0 ≤ (i : Int) ∧ 0 ≤ (j : Int) ∧ (i : Int).toNat < a.size ∧ (j : Int).toNat < a.size := by
    simp only [Int.toNat_natCast]; omega
  simp only [heapWorld]
  rw [dif_pos h]
  simp only [Int.toNat_natCast]

theorem hw_swap (less : α → α → Bool) (a : Array α) (i j : Nat) (hi : i < a.size) (hj : j < a.size) :
    (heapWorld less).swap a (i : Int) (j : Int) = some (a.swap i j hi hj) := by
  have h : 0 ≤ (i : Int) ∧ 0 ≤ (j : Int) ∧ (i : Int).toNat < a.size ∧ (j : Int).toNat < a.size := by
    simp only [Int.toNat_natCast]; omega
  simp only [heapWorld]
  rw [dif_pos h]
  simp only [Int.toNat_natCast]

theorem hw_len (less : α → α → Bool) (a : Array α) : (heapWorld less).len a = (a.size : Int) := rfl

/-! ### down -/

/-- `if j2 < n && h.Less(j2, j1) { j = j2 }` of the generated term -/
def pickStmt : Stmt :=
  .ite (.and (.lt (.var 5) (.var 1)) (.less (.var 5) (.var 3))) [.set 4 (.var 5)] []

theorem pick_runs (P : String → Option Fn) (x : Option α) (less : α → α → Bool) (a : Array α) (j1 n : Nat)
    (hn : n ≤ a.size) (hj : j1 < n) (env : Env)
    (h1 : env.get 1 = (n : Int)) (h3 : env.get 3 = (j1 : Int)) (h4 : env.get 4 = (j1 : Int))
    (h5 : env.get 5 = ((j1 + 1 : Nat) : Int)) :
    ∃ env', (∀ y, y ≠ 4 → env'.get y = env.get y) ∧ env'.get 4 = ((GoHeap.pickChild less a j1 n hn hj : Nat) : Int) ∧
      ∀ rest r, Runs (heapWorld less) P x rest env' a r → Runs (heapWorld less) P x (pickStmt :: rest) env a r := by
  unfold GoHeap.pickChild
  by_cases h2 : j1 + 1 < n
  · rw [dif_pos h2]
    have hc : evalC (heapWorld less) env (.and (.lt (.var 5) (.var 1)) (.less (.var 5) (.var 3))) a =
        some (less (a[j1 + 1]'(by omega)) (a[j1]'(by omega)), a) := by
      have : ((j1 + 1 : Nat) : Int) < (n : Int) := by omega
      simp only [evalC, eval, h1, h3, h5, this, decide_true]
      exact hw_less less a (j1 + 1) j1 (by omega) (by omega)
    cases hr : less (a[j1 + 1]'(by omega)) (a[j1]'(by omega))
    · rw [hr] at hc
      refine ⟨env, fun _ _ => rfl, ?_, fun rest r h => ?_⟩
      · simpa using h4
      · refine Runs.ite (env' := env) (w' := a) hc ?_ h
        exact Runs.nil
    · rw [hr] at hc
      refine ⟨env.set 4 (eval ((heapWorld less).len a) env (.var 5)),
        fun y hy => by rw [Env.get_set, if_neg hy], ?_, fun rest r h => ?_⟩
      · rw [Env.get_set, if_pos rfl]
        simp only [eval, h5, if_true]
      · refine Runs.ite hc ?_ h
        exact Runs.set Runs.nil
  · rw [dif_neg h2]
    have hc : evalC (heapWorld less) env (.and (.lt (.var 5) (.var 1)) (.less (.var 5) (.var 3))) a =
        some (false, a) := by
      have : ¬ ((j1 + 1 : Nat) : Int) < (n : Int) := by omega
      simp only [evalC, eval, h1, h3, h5, this, decide_false]
    refine ⟨env, fun _ _ => rfl, h4, fun rest r h => ?_⟩
    refine Runs.ite (env' := env) (w' := a) hc ?_ h
    exact Runs.nil

/-- the `for { … }` of the generated term -/
def downLoopStmt : Stmt :=
  .loop .tt [
    .set 3 (.add (.mul (.lit 2) (.var 2)) (.lit 1)),
    .ite (.or (.le (.var 1) (.var 3)) (.lt (.var 3) (.lit 0))) [.brk] [],
    .set 4 (.var 3),
    .set 5 (.add (.var 3) (.lit 1)),
    pickStmt,
    .ite (.not (.less (.var 4) (.var 2))) [.brk] [],
    .swap (.var 2) (.var 4),
    .set 2 (.var 4)
  ] []

theorem down_body : h_down.body = [.set 2 (.var 0), downLoopStmt, .retB (.lt (.var 0) (.var 2))] := rfl

theorem downLoop_runs (P : String → Option Fn) (x : Option α) (less : α → α → Bool) (n : Nat) :
    ∀ (fuel : Nat) (a : Array α) (i : Nat) (env : Env), n ≤ a.size → a.size < B62 → i < B62 → n - i ≤ fuel →
      env.get 1 = (n : Int) → env.get 2 = (i : Int) →
      ∃ env', env'.get 0 = env.get 0 ∧ env'.get 2 = (((GoHeap.downAux less fuel a i n).2 : Nat) : Int) ∧
        ∀ rest r, Runs (heapWorld less) P x rest env' (GoHeap.downAux less fuel a i n).1 r →
          Runs (heapWorld less) P x (downLoopStmt :: rest) env a r := by
  intro fuel
  induction fuel with
  | zero =>
    intro a i env hn hsz hi hf h1 h2
    unfold B62 at hsz hi
    have hc : evalC (heapWorld less) env .tt a = some (true, a) := rfl
    have g3 : (env.set 3 (eval ((heapWorld less).len a) env (.add (.mul (.lit 2) (.var 2)) (.lit 1)))).get 3 =
        ((2 * i + 1 : Nat) : Int) := by
      rw [Env.get_set, if_pos rfl]
      simp (disch := omega) only [eval, h2, wrap_eq]
      omega
    have g0 : (env.set 3 (eval ((heapWorld less).len a) env (.add (.mul (.lit 2) (.var 2)) (.lit 1)))).get 0 =
        env.get 0 := by
      rw [Env.get_set, if_neg (by decide)]
    have g1 : (env.set 3 (eval ((heapWorld less).len a) env (.add (.mul (.lit 2) (.var 2)) (.lit 1)))).get 1 =
        (n : Int) := by
      rw [Env.get_set, if_neg (by decide)]; exact h1
    have g2 : (env.set 3 (eval ((heapWorld less).len a) env (.add (.mul (.lit 2) (.var 2)) (.lit 1)))).get 2 =
        (i : Int) := by
      rw [Env.get_set, if_neg (by decide)]; exact h2
    generalize hE1 : env.set 3 (eval ((heapWorld less).len a) env (.add (.mul (.lit 2) (.var 2)) (.lit 1))) = env1
      at g0 g1 g2 g3
    have hc1 : evalC (heapWorld less) env1 (.or (.le (.var 1) (.var 3)) (.lt (.var 3) (.lit 0))) a =
        some (true, a) := by
      have : (n : Int) ≤ ((2 * i + 1 : Nat) : Int) := by omega
      simp only [evalC, eval, g1, g3, this, decide_true]
    refine ⟨env1, g0, g2, fun rest r h => ?_⟩
    refine Runs.loop_brk (env' := env1) (w' := a) hc ?_ h
    refine Runs.set ?_
    rw [hE1]
    exact Runs.ite_brk hc1 Runs.brk
  | succ fuel ih =>
    intro a i env hn hsz hi hf h1 h2
    have hsz' := hsz
    unfold B62 at hsz hi
    have hc : evalC (heapWorld less) env .tt a = some (true, a) := rfl
    have g3 : (env.set 3 (eval ((heapWorld less).len a) env (.add (.mul (.lit 2) (.var 2)) (.lit 1)))).get 3 =
        ((2 * i + 1 : Nat) : Int) := by
      rw [Env.get_set, if_pos rfl]
      simp (disch := omega) only [eval, h2, wrap_eq]
      omega
    have g0 : (env.set 3 (eval ((heapWorld less).len a) env (.add (.mul (.lit 2) (.var 2)) (.lit 1)))).get 0 =
        env.get 0 := by
      rw [Env.get_set, if_neg (by decide)]
    have g1 : (env.set 3 (eval ((heapWorld less).len a) env (.add (.mul (.lit 2) (.var 2)) (.lit 1)))).get 1 =
        (n : Int) := by
      rw [Env.get_set, if_neg (by decide)]; exact h1
    have g2 : (env.set 3 (eval ((heapWorld less).len a) env (.add (.mul (.lit 2) (.var 2)) (.lit 1)))).get 2 =
        (i : Int) := by
      rw [Env.get_set, if_neg (by decide)]; exact h2
    generalize hE1 : env.set 3 (eval ((heapWorld less).len a) env (.add (.mul (.lit 2) (.var 2)) (.lit 1))) = env1
      at g0 g1 g2 g3
    simp only [GoHeap.downAux]
    rw [dif_pos hn]
    by_cases hlt : 2 * i + 1 < n
    · rw [dif_pos hlt]
      have hc1 : evalC (heapWorld less) env1 (.or (.le (.var 1) (.var 3)) (.lt (.var 3) (.lit 0))) a =
          some (false, a) := by
        have t1 : ¬ (n : Int) ≤ ((2 * i + 1 : Nat) : Int) := by omega
        have t2 : ¬ ((2 * i + 1 : Nat) : Int) < 0 := by omega
        simp (disch := omega) only [evalC, eval, g1, g3, t1, t2, decide_false, wrap_eq]
      -- j := j1; j2 := j1 + 1
      obtain ⟨env2, hE2⟩ : ∃ e : Env, e = env1.set 4 (eval ((heapWorld less).len a) env1 (.var 3)) := ⟨_, rfl⟩
      have k0 : env2.get 0 = env.get 0 := by rw [hE2, Env.get_set, if_neg (by decide)]; exact g0
      have k1 : env2.get 1 = (n : Int) := by rw [hE2, Env.get_set, if_neg (by decide)]; exact g1
      have k2 : env2.get 2 = (i : Int) := by rw [hE2, Env.get_set, if_neg (by decide)]; exact g2
      have k3 : env2.get 3 = ((2 * i + 1 : Nat) : Int) := by rw [hE2, Env.get_set, if_neg (by decide)]; exact g3
      have k4 : env2.get 4 = ((2 * i + 1 : Nat) : Int) := by
        rw [hE2, Env.get_set, if_pos rfl]; simp only [eval, g3]
      obtain ⟨env3, hE3⟩ : ∃ e : Env, e = env2.set 5 (eval ((heapWorld less).len a) env2 (.add (.var 3) (.lit 1))) :=
        ⟨_, rfl⟩
      have m0 : env3.get 0 = env.get 0 := by rw [hE3, Env.get_set, if_neg (by decide)]; exact k0
      have m1 : env3.get 1 = (n : Int) := by rw [hE3, Env.get_set, if_neg (by decide)]; exact k1
      have m2 : env3.get 2 = (i : Int) := by rw [hE3, Env.get_set, if_neg (by decide)]; exact k2
      have m3 : env3.get 3 = ((2 * i + 1 : Nat) : Int) := by rw [hE3, Env.get_set, if_neg (by decide)]; exact k3
      have m4 : env3.get 4 = ((2 * i + 1 : Nat) : Int) := by rw [hE3, Env.get_set, if_neg (by decide)]; exact k4
      have m5 : env3.get 5 = ((2 * i + 1 + 1 : Nat) : Int) := by
        rw [hE3, Env.get_set, if_pos rfl]
        simp (disch := omega) only [eval, k3, wrap_eq]
        omega
      obtain ⟨env4, hfr, p4, hk⟩ := pick_runs P x less a (2 * i + 1) n hn hlt env3 m1 m3 m4 m5
      have hj := GoHeap.pickChild_spec less a (2 * i + 1) n hn hlt
      have p0 : env4.get 0 = env.get 0 := by rw [hfr 0 (by decide)]; exact m0
      have p1 : env4.get 1 = (n : Int) := by rw [hfr 1 (by decide)]; exact m1
      have p2 : env4.get 2 = (i : Int) := by rw [hfr 2 (by decide)]; exact m2
      have hc3 : evalC (heapWorld less) env4 (.not (.less (.var 4) (.var 2))) a =
          some (!less (a[GoHeap.pickChild less a (2 * i + 1) n hn hlt]'(by omega)) (a[i]'(by omega)), a) := by
        simp only [evalC, eval, p2, p4]
        rw [hw_less less a _ i (by omega) (by omega)]
        rfl
      cases hl : less (a[GoHeap.pickChild less a (2 * i + 1) n hn hlt]'(by omega)) (a[i]'(by omega))
      · rw [hl] at hc3
        simp only [Bool.not_false, if_true]
        refine ⟨env4, p0, p2, fun rest r h => ?_⟩
        refine Runs.loop_brk (env' := env4) (w' := a) hc ?_ h
        refine Runs.set ?_
        rw [hE1]
        refine Runs.ite (env' := env1) (w' := a) hc1 Runs.nil ?_
        refine Runs.set (Runs.set ?_)
        rw [← hE2, ← hE3]
        refine hk _ _ ?_
        exact Runs.ite_brk hc3 Runs.brk
      · rw [hl] at hc3
        simp only [Bool.not_true, Bool.false_eq_true, if_false]
        have hsw : (heapWorld less).swap a (eval ((heapWorld less).len a) env4 (.var 2))
            (eval ((heapWorld less).len a) env4 (.var 4)) =
            some (a.swap i (GoHeap.pickChild less a (2 * i + 1) n hn hlt) (by omega) (by omega)) := by
          simp only [eval, p2, p4]
          exact hw_swap less a i _ (by omega) (by omega)
        obtain ⟨env', q0, q2, hk'⟩ := ih (a.swap i (GoHeap.pickChild less a (2 * i + 1) n hn hlt) (by omega) (by omega))
          (GoHeap.pickChild less a (2 * i + 1) n hn hlt)
          (env4.set 2 (eval ((heapWorld less).len (a.swap i (GoHeap.pickChild less a (2 * i + 1) n hn hlt)
            (by omega) (by omega))) env4 (.var 4)))
          (by rw [Array.size_swap]; exact hn) (by rw [Array.size_swap]; exact hsz') (by unfold B62; omega) (by omega)
          (by rw [Env.get_set, if_neg (by decide)]; exact p1)
          (by rw [Env.get_set, if_pos rfl]; simp only [eval, p4])
        refine ⟨env', ?_, q2, fun rest r h => ?_⟩
        · rw [q0, Env.get_set, if_neg (by decide)]; exact p0
        refine Runs.loop_iter (env' := _) (w' := _) hc ?_ Runs.nil (hk' rest r h)
        refine Runs.set ?_
        rw [hE1]
        refine Runs.ite (env' := env1) (w' := a) hc1 Runs.nil ?_
        refine Runs.set (Runs.set ?_)
        rw [← hE2, ← hE3]
        refine hk _ _ ?_
        refine Runs.ite (env' := env4) (w' := a) hc3 Runs.nil ?_
        refine Runs.swap hsw ?_
        exact Runs.set Runs.nil
    · rw [dif_neg hlt]
      have hc1 : evalC (heapWorld less) env1 (.or (.le (.var 1) (.var 3)) (.lt (.var 3) (.lit 0))) a =
          some (true, a) := by
        have : (n : Int) ≤ ((2 * i + 1 : Nat) : Int) := by omega
        simp only [evalC, eval, g1, g3, this, decide_true]
      refine ⟨env1, g0, g2, fun rest r h => ?_⟩
      refine Runs.loop_brk (env' := env1) (w' := a) hc ?_ h
      refine Runs.set ?_
      rw [hE1]
      exact Runs.ite_brk hc1 Runs.brk

/-- down: the translated source computes the model's `down` (final array and the bool result) -/
theorem down_runs (P : String → Option Fn) (less : α → α → Bool) (a : Array α) (i0 n : Nat)
    (hn : n ≤ a.size) (hsz : a.size < B62) (hi : i0 < B62) :
    FnRuns (heapWorld less) P h_down [(i0 : Int), (n : Int)] a
      [if (GoHeap.down less a i0 n).2 then 1 else 0] (GoHeap.down less a i0 n).1 := by
  obtain ⟨env', q0, q2, hk⟩ := downLoop_runs P none less n n a i0
    (Env.set #[(i0 : Int), (n : Int)] 2 (eval ((heapWorld less).len a) #[(i0 : Int), (n : Int)] (.var 0)))
    hn hsz hi (by omega) (by rw [Env.get_set]; rfl) (by rw [Env.get_set]; rfl)
  have q0' : env'.get 0 = (i0 : Int) := by rw [q0, Env.get_set]; rfl
  refine Or.inl ?_
  rw [down_body]
  refine Runs.set (hk _ _ ?_)
  have hc : evalC (heapWorld less) env' (.lt (.var 0) (.var 2)) (GoHeap.downAux less n a i0 n).1 =
      some ((GoHeap.down less a i0 n).2, (GoHeap.down less a i0 n).1) := by
    simp only [evalC, eval, q0', q2, GoHeap.down, GoHeap.downLoop, Int.ofNat_lt, gt_iff_lt]
  exact Runs.retB hc

/-! ### Init -/

/-- `for i := …; i >= 0; i-- { down(h, i, n) }` of the generated term -/
def initLoopStmt : Stmt :=
  .loop (.le (.lit 0) (.var 1)) [.call "down" [(.var 1), (.var 0)] [2]] [.set 1 (.sub (.var 1) (.lit 1))]

theorem init_body : h_Init.body =
    [.set 0 .len, .set 1 (.sub (.divC (.var 0) 2) (.lit 1)), initLoopStmt] := rfl

/-- folding over `k-1, k-2, …, 0`: the first step is `k` of `k+1` -/
theorem foldl_range_reverse_succ {β : Type} (f : β → Nat → β) (b : β) (k : Nat) :
    (List.range (k + 1)).reverse.foldl f b = (List.range k).reverse.foldl f (f b k) := by
  rw [List.range_succ, List.reverse_append]
  rfl

theorem tdiv_two (n : Nat) : Int.tdiv (n : Int) ((2 : Nat) : Int) = ((n / 2 : Nat) : Int) := by
  rw [Int.tdiv_eq_ediv_of_nonneg (by omega)]
  omega

theorem initLoop_runs (P : String → Option Fn) (hPd : P "down" = some h_down) (x : Option α) (less : α → α → Bool)
    (N : Nat) (hN : N < B62) :
    ∀ (k : Nat) (a : Array α) (env : Env), a.size = N → k ≤ N → env.get 0 = (N : Int) → env.get 1 = (k : Int) - 1 →
      ∃ env', ∀ rest r,
        Runs (heapWorld less) P x rest env'
          ((List.range k).reverse.foldl (fun a i => (GoHeap.downLoop less a i N).1) a) r →
        Runs (heapWorld less) P x (initLoopStmt :: rest) env a r := by
  intro k
  induction k with
  | zero =>
    intro a env hsz hk h0 h1
    have hc : evalC (heapWorld less) env (.le (.lit 0) (.var 1)) a = some (false, a) := by
      simp (disch := omega) only [evalC, eval, h1, wrap_eq]
      simp
    refine ⟨env, fun rest r h => ?_⟩
    exact Runs.loop_exit hc h
  | succ k ih =>
    intro a env hsz hk h0 h1
    have hN' := hN
    unfold B62 at hN'
    have h1' : env.get 1 = (k : Int) := by rw [h1]; omega
    have hc : evalC (heapWorld less) env (.le (.lit 0) (.var 1)) a = some (true, a) := by
      simp (disch := omega) only [evalC, eval, h1', wrap_eq]
      have : (0 : Int) ≤ (k : Int) := by omega
      simp only [this, decide_true]
    have hargs : List.map (eval ((heapWorld less).len a) env) [(.var 1), (.var 0)] = [(k : Int), (N : Int)] := by
      simp only [List.map, eval, h1', h0]
    rw [foldl_range_reverse_succ]
    have hsz2 : (GoHeap.downLoop less a k N).1.size = N := by
      unfold GoHeap.downLoop; rw [Got.Lemmas.GoHeap.downAux_size]; exact hsz
    obtain ⟨env', hk'⟩ := ih (GoHeap.downLoop less a k N).1
      ((env.setMany [2] [if (GoHeap.down less a k N).2 then 1 else 0]).set 1
        (eval ((heapWorld less).len (GoHeap.downLoop less a k N).1)
          (env.setMany [2] [if (GoHeap.down less a k N).2 then 1 else 0]) (.sub (.var 1) (.lit 1))))
      hsz2 (by omega)
      (by simp only [Env.setMany]; rw [Env.get_set, if_neg (by decide), Env.get_set, if_neg (by decide)]; exact h0)
      (by
        simp only [Env.setMany]
        rw [Env.get_set, if_pos rfl]
        have : (env.set 2 (if (GoHeap.down less a k N).2 then 1 else 0)).get 1 = (k : Int) := by
          rw [Env.get_set, if_neg (by decide)]; exact h1'
        simp (disch := omega) only [eval, this, wrap_eq])
    refine ⟨env', fun rest r h => ?_⟩
    refine Runs.loop_iter (env' := env.setMany [2] [if (GoHeap.down less a k N).2 then 1 else 0])
      (w' := (GoHeap.downLoop less a k N).1) hc ?_ (Runs.set Runs.nil) (hk' rest r h)
    refine Runs.call (vs := [if (GoHeap.down less a k N).2 then 1 else 0]) hPd rfl rfl rfl ?_ rfl Runs.nil
    rw [hargs]
    exact down_runs P less a k N (by omega) (by rw [hsz]; exact hN) (by unfold B62; omega)

/-- the model's fold reads the size of the current array, which never changes -/
theorem init_fold_size (less : α → α → Bool) (N : Nat) : ∀ (l : List Nat) (a : Array α), a.size = N →
    l.foldl (fun a i => (GoHeap.downLoop less a i a.size).1) a = l.foldl (fun a i => (GoHeap.downLoop less a i N).1) a := by
  intro l
  induction l with
  | nil => intro a _; rfl
  | cons i l ih =>
    intro a hsz
    simp only [List.foldl_cons]
    rw [hsz]
    exact ih _ (by unfold GoHeap.downLoop; rw [Got.Lemmas.GoHeap.downAux_size]; exact hsz)

/-- heap.Init: the translated source computes the model's `init` -/
theorem init_runs (P : String → Option Fn) (hPd : P "down" = some h_down) (less : α → α → Bool) (a : Array α)
    (hsz : a.size < B62) :
    ∃ e, Runs (heapWorld less) P none h_Init.body #[] a (.cont e (GoHeap.init less a)) := by
  have hsz' := hsz
  unfold B62 at hsz'
  obtain ⟨e1, hE1⟩ : ∃ e : Env, e = Env.set #[] 0 (eval ((heapWorld less).len a) #[] .len) := ⟨_, rfl⟩
  have A0 : e1.get 0 = (a.size : Int) := by rw [hE1, Env.get_set, if_pos rfl]; rfl
  obtain ⟨e2, hE2⟩ : ∃ e : Env, e = e1.set 1 (eval ((heapWorld less).len a) e1 (.sub (.divC (.var 0) 2) (.lit 1))) :=
    ⟨_, rfl⟩
  have B0 : e2.get 0 = (a.size : Int) := by rw [hE2, Env.get_set, if_neg (by decide)]; exact A0
  have B1 : e2.get 1 = ((a.size / 2 : Nat) : Int) - 1 := by
    rw [hE2, Env.get_set, if_pos rfl]
    simp only [eval, A0]
    rw [tdiv_two]
    simp (disch := omega) only [wrap_eq]
  obtain ⟨e3, hk⟩ := initLoop_runs P hPd none less a.size hsz (a.size / 2) a e2 rfl (by omega) B0 B1
  refine ⟨e3, ?_⟩
  rw [init_body]
  unfold GoHeap.init
  rw [init_fold_size less a.size _ a rfl]
  subst hE2 hE1
  exact Runs.set (Runs.set (hk [] _ Runs.nil))

/-! ### Pop -/

/-- `return h.Pop()` on the array world: the model's `back?` / `pop` split -/
theorem retPop_runs (P : String → Option Fn) (x : Option α) (less : α → α → Bool) (rest : List Stmt) (env : Env)
    (b : Array α) :
    Runs (heapWorld less) P x (.retPop :: rest) env b
      (match (match b.back? with | some y => some (y, b.pop) | none => none : Option (α × Array α)) with
       | some (y, c) => .retv y c
       | none => .panic) := by
  cases hb : b.back? with
  | none =>
    refine Runs.retPop_panic ?_
    simp only [heapWorld, hb]
  | some y =>
    refine Runs.retPop ?_
    simp only [heapWorld, hb]

/-- heap.Pop: the translated source computes the model's `pop`, including the panic on an empty heap -/
theorem pop_runs (P : String → Option Fn) (hPd : P "down" = some h_down) (less : α → α → Bool) (a : Array α)
    (hsz : a.size < B62) :
    Runs (heapWorld less) P none h_Pop.body #[] a
      (match GoHeap.pop less a with | some (x, b) => .retv x b | none => .panic) := by
  have hsz' := hsz
  unfold B62 at hsz'
  have hbody : h_Pop.body = [.set 0 (.sub .len (.lit 1)), .swap (.lit 0) (.var 0),
      .call "down" [(.lit 0), (.var 0)] [1], .retPop] := rfl
  rw [hbody]
  obtain ⟨e1, hE1⟩ : ∃ e : Env, e = Env.set #[] 0 (eval ((heapWorld less).len a) #[] (.sub .len (.lit 1))) := ⟨_, rfl⟩
  have A0 : e1.get 0 = (a.size : Int) - 1 := by
    rw [hE1, Env.get_set, if_pos rfl]
    simp (disch := omega) only [eval, hw_len, wrap_eq]
  refine Runs.set ?_
  rw [← hE1]
  by_cases h : 0 < a.size
  · have A0' : e1.get 0 = ((a.size - 1 : Nat) : Int) := by rw [A0]; omega
    have hsw : (heapWorld less).swap a (eval ((heapWorld less).len a) e1 (.lit 0))
        (eval ((heapWorld less).len a) e1 (.var 0)) = some (a.swap 0 (a.size - 1) h (by omega)) := by
      simp (disch := omega) only [eval, A0', wrap_eq]
      exact hw_swap less a 0 (a.size - 1) h (by omega)
    refine Runs.swap hsw ?_
    have hargs : List.map (eval ((heapWorld less).len (a.swap 0 (a.size - 1) h (by omega))) e1) [(.lit 0), (.var 0)] =
        [((0 : Nat) : Int), ((a.size - 1 : Nat) : Int)] := by
      simp (disch := omega) only [List.map, eval, A0', wrap_eq]
      rfl
    refine Runs.call (vs := [if (GoHeap.down less (a.swap 0 (a.size - 1) h (by omega)) 0 (a.size - 1)).2 then 1 else 0])
      (w' := (GoHeap.down less (a.swap 0 (a.size - 1) h (by omega)) 0 (a.size - 1)).1) hPd rfl rfl rfl ?_ rfl ?_
    · rw [hargs]
      exact down_runs P less _ 0 (a.size - 1) (by rw [Array.size_swap]; omega) (by rw [Array.size_swap]; exact hsz)
        (by unfold B62; omega)
    · unfold GoHeap.pop
      rw [dif_pos h]
      exact retPop_runs P none less [] _ _
  · have hsw : (heapWorld less).swap a (eval ((heapWorld less).len a) e1 (.lit 0))
        (eval ((heapWorld less).len a) e1 (.var 0)) = none := by
      simp only [eval, A0, heapWorld]
      rw [dif_neg (by omega)]
    rw [Got.Lemmas.GoHeap.pop_none less a (by omega)]
    exact Runs.swap_panic hsw

/-
#print axioms down_runs  -- [propext, Classical.choice, Quot.sound]
#print axioms init_runs  -- [propext, Classical.choice, Quot.sound]
#print axioms pop_runs   -- [propext, Classical.choice, Quot.sound]
-/

end Got.Lemmas.HeapAst
