import Got.Model.Delayed
import Got.Lemmas.GoHeap
/-
The two hand-written transcriptions of Go's container/heap agree:
`Got.Model.DelayedHeap` (well-founded recursion, `swapIfInBounds`) computes the same arrays as
`Got.Model.GoHeap` (fuel recursion, `swap` with bounds proofs).
-/
namespace Got.Lemmas.DelayedHeapEq
open Got.Model
open Got.Lemmas.GoHeap

variable {α : Type}

theorem swapIfInBounds_eq_swap (a : Array α) (i j : Nat) (hi : i < a.size) (hj : j < a.size) :
    a.swapIfInBounds i j = a.swap i j hi hj := by
  unfold Array.swapIfInBounds
  rw [dif_pos hi, dif_pos hj]

theorem up_eq_aux (lt : α → α → Bool) : ∀ (j : Nat) (a : Array α),
    DelayedHeap.up lt a j = GoHeap.up lt a j := by
  intro j
  induction j using Nat.strongRecOn with
  | _ j ih =>
    intro a
    rw [DelayedHeap.up]
    unfold GoHeap.up
    simp only [GoHeap.upAux]
    by_cases hj : j < a.size
    · rw [dif_pos hj, dif_pos hj]
      by_cases hij : (j - 1) / 2 = j
      · rw [dif_pos hij, if_pos hij]
      · rw [dif_neg hij, if_neg hij]
        have hi : (j - 1) / 2 < a.size := by omega
        cases hl : lt a[j] (a[(j - 1) / 2]'hi) with
        | false =>
          simp only [Bool.not_false, if_true, Bool.false_eq_true, if_false]
        | true =>
          simp only [Bool.not_true, Bool.false_eq_true, if_false, if_true]
          rw [swapIfInBounds_eq_swap a _ _ hi hj]
          rw [ih ((j - 1) / 2) (by omega)]
          unfold GoHeap.up
          exact upAux_fuel lt _ _ _ _ (by omega) (by omega)
    · rw [dif_neg hj, dif_neg hj]

/-- `up` of the delayed-queue heap = `up` of the generic container/heap transcription -/
theorem up_eq (lt : α → α → Bool) (a : Array α) (j : Nat) :
    Got.Model.DelayedHeap.up lt a j = Got.Model.GoHeap.up lt a j := up_eq_aux lt j a

theorem child_eq (lt : α → α → Bool) (a : Array α) (i n : Nat) (h : 2 * i + 1 < n ∧ n ≤ a.size) :
    DelayedHeap.child lt a i n h = GoHeap.pickChild lt a (2 * i + 1) n h.2 h.1 := by
  unfold DelayedHeap.child GoHeap.pickChild
  rfl

theorem down_eq_aux (lt : α → α → Bool) : ∀ (k : Nat) (a : Array α) (i n : Nat), n - i = k →
    DelayedHeap.down lt a i n = (GoHeap.downLoop lt a i n).1 := by
  intro k
  induction k using Nat.strongRecOn with
  | _ k ih =>
    intro a i n hk
    rw [DelayedHeap.down]
    unfold GoHeap.downLoop
    by_cases hn : n ≤ a.size
    · by_cases h1 : 2 * i + 1 < n
      · have h : 2 * i + 1 < n ∧ n ≤ a.size := ⟨h1, hn⟩
        rw [dif_pos h]
        have hfuel : GoHeap.downAux lt n a i n = GoHeap.downAux lt (n - i - 1 + 1) a i n :=
          downAux_fuel lt _ _ _ _ _ (by omega) (by omega)
        rw [hfuel]
        simp only [GoHeap.downAux]
        rw [dif_pos hn, dif_pos h1]
        have hc := child_eq lt a i n h
        have hj := GoHeap.pickChild_spec lt a (2 * i + 1) n hn h1
        simp only [hc]
        cases hl : lt (a[GoHeap.pickChild lt a (2 * i + 1) n hn h1]'(by omega)) (a[i]'(by omega)) with
        | false =>
          simp only [Bool.not_false, if_true, Bool.false_eq_true, if_false]
        | true =>
          simp only [Bool.not_true, Bool.false_eq_true, if_false, if_true]
          rw [swapIfInBounds_eq_swap a _ _ (by omega) (by omega)]
          rw [ih (n - GoHeap.pickChild lt a (2 * i + 1) n hn h1) (by omega) _ _ _ rfl]
          unfold GoHeap.downLoop
          rw [downAux_fuel lt n (n - i - 1) _ _ _ (by omega) (by omega)]
      · rw [dif_neg (by omega)]
        cases n with
        | zero => rfl
        | succ n => simp only [GoHeap.downAux]; rw [dif_pos hn, dif_neg h1]
    · rw [dif_neg (by omega)]
      cases n with
      | zero => rfl
      | succ n => simp only [GoHeap.downAux]; rw [dif_neg hn]

/-- `down` of the delayed-queue heap = the array computed by the loop of the generic `down` -/
theorem down_eq (lt : α → α → Bool) (a : Array α) (i n : Nat) :
    Got.Model.DelayedHeap.down lt a i n = (Got.Model.GoHeap.downLoop lt a i n).1 :=
  down_eq_aux lt (n - i) a i n rfl

theorem push_eq (lt : α → α → Bool) (a : Array α) (x : α) :
    Got.Model.DelayedHeap.push lt a x = Got.Model.GoHeap.push lt a x := by
  unfold DelayedHeap.push GoHeap.push
  exact up_eq lt _ _

/-- the array left by the delayed-queue `pop` is `popArr` without its last element -/
theorem pop_eq_popArr (lt : α → α → Bool) (a : Array α) (h : 0 < a.size) :
    Got.Model.DelayedHeap.pop lt a = (Got.Lemmas.GoHeap.popArr lt a h).pop := by
  unfold DelayedHeap.pop Got.Lemmas.GoHeap.popArr
  simp only []
  rw [swapIfInBounds_eq_swap a 0 (a.size - 1) h (by omega), down_eq]

theorem pop_eq_goheap (lt : α → α → Bool) (a : Array α) (h : 0 < a.size) :
    Got.Model.GoHeap.pop lt a =
      some ((Got.Lemmas.GoHeap.popArr lt a h)[a.size - 1]'(by rw [Got.Lemmas.GoHeap.popArr_size]; omega),
        Got.Model.DelayedHeap.pop lt a) := by
  rw [pop_eq_popArr lt a h]
  exact Got.Lemmas.GoHeap.pop_eq lt a h

theorem pop_eq_goheap_ex (lt : α → α → Bool) (a : Array α) (h : 0 < a.size) :
    ∃ x, Got.Model.GoHeap.pop lt a = some (x, Got.Model.DelayedHeap.pop lt a) :=
  ⟨_, pop_eq_goheap lt a h⟩

end Got.Lemmas.DelayedHeapEq
