import Got.Model.Ants
/- ants model: the option functions as a left fold (task_option.go, pool_option.go) -/
namespace Got.Model.Ants

theorem applyOptions_nil : applyOptions [] = defaultOpts := rfl

theorem applyOptions_snoc (l : List TOpt) (x : TOpt) : applyOptions (l ++ [x]) = TOpt.apply (applyOptions l) x := by
  simp [applyOptions, List.foldl_append]

theorem apply_timeout_nonpos (o : Opts) {d : Int} (h : d ≤ 0) : TOpt.apply o (.timeout d) = o := by
  simp [TOpt.apply]; omega

theorem apply_retry_nonpos (o : Opts) {n : Int} (h : n ≤ 0) : TOpt.apply o (.retry n) = o := by
  simp [TOpt.apply]; omega

/-- a non-positive WithTimeout / WithRetry anywhere in the list is as if it were not there -/
theorem applyOptions_drop_nonpos (l1 l2 : List TOpt) (x : TOpt)
    (hx : (∃ d, x = .timeout d ∧ d ≤ 0) ∨ (∃ n, x = .retry n ∧ n ≤ 0)) :
    applyOptions (l1 ++ x :: l2) = applyOptions (l1 ++ l2) := by
  have : ∀ o, TOpt.apply o x = o := by
    intro o
    rcases hx with ⟨d, rfl, h⟩ | ⟨n, rfl, h⟩
    · exact apply_timeout_nonpos o h
    · exact apply_retry_nonpos o h
  simp [applyOptions, List.foldl_append, List.foldl_cons, this]

theorem defaultOpts_pos : 0 < defaultOpts.timeout ∧ 0 < defaultOpts.retry := by decide

theorem apply_pos (o : Opts) (x : TOpt) (h : 0 < o.timeout ∧ 0 < o.retry) :
    0 < (TOpt.apply o x).timeout ∧ 0 < (TOpt.apply o x).retry := by
  cases x <;> simp only [TOpt.apply] <;> (try split) <;> simp_all

theorem foldl_pos (l : List TOpt) (o : Opts) (h : 0 < o.timeout ∧ 0 < o.retry) :
    0 < (l.foldl TOpt.apply o).timeout ∧ 0 < (l.foldl TOpt.apply o).retry := by
  induction l generalizing o with
  | nil => exact h
  | cons x l ih => exact ih _ (apply_pos o x h)

/-- the folded record always has a positive timeout and retry count, so `Send` uses them as they are -/
theorem applyOptions_pos (l : List TOpt) : 0 < (applyOptions l).timeout ∧ 0 < (applyOptions l).retry :=
  foldl_pos l _ defaultOpts_pos

theorem effT_applyOptions (l : List TOpt) : effT (applyOptions l) = (applyOptions l).timeout.toNat := by
  simp [effT, (applyOptions_pos l).1]

theorem effR_applyOptions (l : List TOpt) : effR (applyOptions l) = (applyOptions l).retry.toNat := by
  simp [effR, (applyOptions_pos l).2]

/-- the last positive WithTimeout wins; later non-positive ones do not reset it -/
theorem applyOptions_timeout_then_nonpos (l : List TOpt) (T d : Int) (hT : 0 < T) (hd : d ≤ 0) :
    (applyOptions (l ++ [.timeout T, .timeout d])).timeout = T := by
  have : l ++ [TOpt.timeout T, TOpt.timeout d] = (l ++ [TOpt.timeout T]) ++ [TOpt.timeout d] := by simp
  rw [this, applyOptions_snoc, apply_timeout_nonpos _ hd, applyOptions_snoc]
  simp [TOpt.apply, hT]

theorem applyPoolOptions_snoc (l : List POpt) (x : POpt) :
    applyPoolOptions (l ++ [x]) = POpt.apply (applyPoolOptions l) x := by
  simp [applyPoolOptions, List.foldl_append]

theorem poolApply_size_nonpos (o : PoolOpts) {n : Int} (h : n ≤ 0) : POpt.apply o (.size n) = o := by
  simp [POpt.apply]; omega

theorem poolApply_nil_builder (o : PoolOpts) : POpt.apply o (.ctxBuilder false) = o := by
  simp [POpt.apply]

theorem poolFold_size_pos (l : List POpt) (o : PoolOpts) (h : 1 ≤ o.size) : 1 ≤ (l.foldl POpt.apply o).size := by
  induction l generalizing o with
  | nil => exact h
  | cons x l ih =>
    apply ih
    cases x <;> simp only [POpt.apply] <;> split <;> simp_all <;> omega

/-- the pool size is always ≥ 1 (the hypothesis `1 ≤ c.N` of C08_bound_honour) -/
theorem applyPoolOptions_size_pos (l : List POpt) : 1 ≤ (applyPoolOptions l).size :=
  poolFold_size_pos l _ (by decide)

end Got.Model.Ants
