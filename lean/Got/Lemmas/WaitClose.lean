import Got.Model.WaitClose
import Got.Spec.WaitClose
/-
Invariants of the WaitClose LTS (property C16).  Core Lean only.

Layer A (`InvA`): control / mutex / state word / channel facts.
Layer B (`InvB`): facts about the event log.
Layer C (`InvC`): timing facts for WaitUtil.
-/
set_option linter.unusedSimpArgs false
set_option linter.unusedVariables false

namespace Got.Model.WaitClose

/-- after the close/assign, before the deferred store -/
def Pc.after : Pc → Bool
  | .clCbStart | .clCbRun | .clStore _ => true
  | _ => false

def Pc.storeOrAfter : Pc → Bool
  | .iStore _ | .clCbStart | .clCbRun | .clStore _ => true
  | _ => false

def done (s : St) : Bool := s.closeTime.isSome

theorem wcNew_eq : wcNew = 0 := by decide
theorem wcInitialized_eq : wcInitialized = 1 := by decide
theorem wcClosed_eq : wcClosed = 2 := by decide

theorem upd_same {α} (f : Nat → α) (t : Nat) (v : α) : upd f t v t = v := by simp [upd]
theorem upd_other {α} (f : Nat → α) (t u : Nat) (v : α) (h : u ≠ t) : upd f t v u = f u := by simp [upd, h]

/-! ## Layer A -/

/-- obligations of a pc on the shared state -/
def pcFacts (s : St) : Pc → Prop
  | .iMake _ => s.state = wcNew ∧ s.closeChan = none
  | .iStore _ => s.state = wcNew ∧ s.closeChan = some 1
  | .iUnlock _ | .cRead | .wTimer _ => s.closeChan.isSome = true
  | .clClose _ => s.state ≠ wcClosed ∧ done s = false
  | .clCbStart | .clCbRun | .clStore _ => s.state ≠ wcClosed ∧ done s = true
  | .clUnlock _ | .clRet _ => s.state = wcClosed
  | _ => True

/-- facts about one goroutine -/
structure TInv (s : St) (u : Nat) : Prop where
  lock : (s.pc u).holds = true ↔ s.mu = some u
  facts : pcFacts s (s.pc u)
  new2 : s.mu = some u → s.state = wcNew → s.closeChan.isSome = true → (s.pc u).storeOrAfter = true
  dn2 : s.mu = some u → done s = true → s.state ≠ wcClosed → (s.pc u).after = true

structure GInv (s : St) : Prop where
  dom : s.state = wcNew ∨ s.state = wcInitialized ∨ s.state = wcClosed
  fault : s.fault = false
  nn : s.state ≠ wcNew → s.closeChan.isSome = true
  new1 : s.state = wcNew → s.closeChan.isSome = true → s.mu.isSome = true
  ini : s.state = wcInitialized → s.closeChan = some 1
  cl1 : 1 ∈ s.closed → done s = true
  ch0 : s.closeChan = some 0 → done s = true
  dn : done s = true → ∃ c, s.closeChan = some c ∧ c ∈ s.closed
  dn1 : done s = true → s.state ≠ wcClosed → s.mu.isSome = true
  cld : s.state = wcClosed → done s = true
  nch : s.nchan ≤ 1 ∧ (s.nchan = 1 → s.closeChan = some 1)
  cls : ∀ c ∈ s.closed, c = 0 ∨ c = 1
  g0 : 0 ∈ s.closed

def InvA (s : St) : Prop := GInv s ∧ ∀ u, TInv s u

/-- the part of the state Layer A talks about, apart from pc -/
def shared (s : St) : Int × Option Nat × List Nat × Nat × Option Nat × Bool × Option Nat :=
  (s.state, s.closeChan, s.closed, s.nchan, s.mu, s.fault, s.closeTime)

theorem shared_eq {s s' : St} (h : shared s' = shared s) :
    s'.state = s.state ∧ s'.closeChan = s.closeChan ∧ s'.closed = s.closed ∧ s'.nchan = s.nchan ∧
    s'.mu = s.mu ∧ s'.fault = s.fault ∧ s'.closeTime = s.closeTime := by
  simp only [shared, Prod.mk.injEq] at h
  exact h

theorem GInv_congr {s s' : St} (h : shared s' = shared s) (g : GInv s) : GInv s' := by
  obtain ⟨h1, h2, h3, h4, h5, h6, h7⟩ := shared_eq h
  have hd : done s' = done s := by simp [done, h7]
  constructor <;> simp only [h1, h2, h3, h4, h5, h6, hd]
  · exact g.dom
  · exact g.fault
  · exact g.nn
  · exact g.new1
  · exact g.ini
  · exact g.cl1
  · exact g.ch0
  · exact g.dn
  · exact g.dn1
  · exact g.cld
  · exact g.nch
  · exact g.cls
  · exact g.g0

theorem pcFacts_congr {s s' : St} (h : shared s' = shared s) (p : Pc) (f : pcFacts s p) : pcFacts s' p := by
  obtain ⟨h1, h2, h3, h4, h5, h6, h7⟩ := shared_eq h
  have hd : done s' = done s := by simp [done, h7]
  cases p <;> simp only [pcFacts, h1, h2, hd] at f ⊢ <;> exact f

theorem TInv_congr {s s' : St} (h : shared s' = shared s) (u : Nat) (hp : s'.pc u = s.pc u) (t : TInv s u) :
    TInv s' u := by
  obtain ⟨h1, h2, h3, h4, h5, h6, h7⟩ := shared_eq h
  have hd : done s' = done s := by simp [done, h7]
  refine ⟨?_, ?_, ?_, ?_⟩
  · rw [hp, h5]; exact t.lock
  · rw [hp]; exact pcFacts_congr h _ t.facts
  · rw [hp, h5, h1, h2]; exact t.new2
  · rw [hp, h5, h1, hd]; exact t.dn2

/-- a step of `t` that only moves `t` from a pc to another one with the same lock status -/
theorem InvA_pcstep {s s' : St} (t : Nat) (v : Pc) (hs : shared s' = shared s) (hp : s'.pc = upd s.pc t v)
    (h : InvA s) (hl : v.holds = (s.pc t).holds) (hf : pcFacts s v)
    (hn : (s.pc t).storeOrAfter = true → v.storeOrAfter = true)
    (ha : (s.pc t).after = true → v.after = true) : InvA s' := by
  obtain ⟨g, ht⟩ := h
  refine ⟨GInv_congr hs g, ?_⟩
  intro u
  by_cases hu : u = t
  · subst hu
    have t0 := ht u
    obtain ⟨h1, h2, h3, h4, h5, h6, h7⟩ := shared_eq hs
    have hd : done s' = done s := by simp [done, h7]
    have hpu : s'.pc u = v := by rw [hp, upd_same]
    refine ⟨?_, ?_, ?_, ?_⟩
    · rw [hpu, h5, hl]; exact t0.lock
    · rw [hpu]; exact pcFacts_congr hs _ hf
    · rw [hpu, h5, h1, h2]; intro a b c; exact hn (t0.new2 a b c)
    · rw [hpu, h5, h1, hd]; intro a b c; exact ha (t0.dn2 a b c)
  · exact TInv_congr hs u (by rw [hp, upd_other _ _ _ _ hu]) (ht u)

macro "cdec" : tactic => `(tactic| first
  | exact (by decide : ¬ wcInitialized = wcNew) | exact (by decide : ¬ wcInitialized = wcClosed)
  | exact (by decide : ¬ wcClosed = wcNew) | exact (by decide : ¬ wcClosed = wcInitialized)
  | exact (by decide : ¬ wcNew = wcInitialized) | exact (by decide : ¬ wcNew = wcClosed))

theorem TInv_other {s s' : St} (t u : Nat) (hu : u ≠ t) (hp : s'.pc u = s.pc u)
    (hmu : s.mu = some t ∨ s.mu = none) (hmu' : s'.mu = some t ∨ s'.mu = none)
    (hc : s.closeChan.isSome = true → s'.closeChan.isSome = true)
    (hs : s.state = wcClosed → s'.state = wcClosed)
    (tu : TInv s u) : TInv s' u := by
  have hnh : ¬ s.mu = some u := by
    rcases hmu with h | h <;> rw [h] <;> simp <;> exact fun e => hu e.symm
  have hnh' : ¬ s'.mu = some u := by
    rcases hmu' with h | h <;> rw [h] <;> simp <;> exact fun e => hu e.symm
  have hh : (s.pc u).holds = false := by
    cases h : (s.pc u).holds with
    | false => rfl
    | true => exact absurd (tu.lock.mp h) hnh
  refine ⟨?_, ?_, ?_, ?_⟩
  · rw [hp, hh]; simp [hnh']
  · rw [hp]
    have f := tu.facts
    cases hpc : s.pc u <;> simp only [hpc, Pc.holds] at hh f ⊢ <;> simp only [pcFacts] at f ⊢ <;>
      first | trivial | exact hc f | exact hs f | (cases hh)
  · intro a; exact absurd a hnh'
  · intro a; exact absurd a hnh'

/-- Lock acquired (checkInitSlow or Close) -/
theorem InvA_lock {s : St} (t : Nat) (v : Pc) (h : InvA s) (hmu : s.mu = none)
    (hv : v.holds = true) (hf : pcFacts s v) (hn : v.storeOrAfter = false) (ha : v.after = false) :
    InvA { s with mu := some t, pc := upd s.pc t v } := by
  obtain ⟨g, ht⟩ := h
  refine ⟨⟨g.dom, g.fault, g.nn, ?_, g.ini, g.cl1, g.ch0, g.dn, ?_, g.cld, g.nch, g.cls, g.g0⟩, ?_⟩
  · intro _ _; rfl
  · intro _ _; rfl
  · intro u
    by_cases hu : u = t
    · subst hu
      refine ⟨?_, ?_, ?_, ?_⟩
      · simp [upd_same, hv]
      · simp only [upd_same]; cases v <;> simp only [pcFacts] at hf ⊢ <;> exact hf
      · intro _ a b; have := g.new1 a b; rw [hmu] at this; cases this
      · intro _ a b; have := g.dn1 a b; rw [hmu] at this; cases this
    · exact TInv_other t u hu (by simp [upd_other _ _ _ _ hu]) (Or.inr hmu) (Or.inl rfl) id id (ht u)


theorem done_false_of_none {s : St} (g : GInv s) (h : s.closeChan = none) : done s = false := by
  cases hd : done s with
  | false => rfl
  | true => obtain ⟨c, hc, _⟩ := g.dn hd; rw [h] at hc; cases hc

/-- checkInitSlow: `wc.closeChan = make(chan struct{})` -/
theorem InvA_make {s : St} (t : Nat) (k : Cont) (h : InvA s) (hpc : s.pc t = .iMake k) :
    InvA { s with nchan := s.nchan + 1, closeChan := some (s.nchan + 1), pc := upd s.pc t (.iStore k) } := by
  obtain ⟨g, ht⟩ := h
  have t0 := ht t
  have hf := t0.facts; rw [hpc] at hf; simp only [pcFacts] at hf
  have hmu : s.mu = some t := t0.lock.mp (by rw [hpc]; rfl)
  have hdn := done_false_of_none g hf.2
  have hn0 : s.nchan = 0 := by
    have := g.nch
    rcases Nat.lt_or_ge s.nchan 1 with h | h
    · omega
    · have h1 : s.nchan = 1 := by omega
      have := this.2 h1; rw [hf.2] at this; cases this
  have hd' : ∀ x : St, x.closeTime = s.closeTime → done x = false := by
    intro x hx; simp only [done, hx]; exact hdn
  refine ⟨⟨g.dom, g.fault, ?_, ?_, ?_, g.cl1, ?_, ?_, g.dn1, g.cld, ?_, g.cls, g.g0⟩, ?_⟩
  · intro _; rfl
  · intro _ _; show s.mu.isSome = true; rw [hmu]; rfl
  · intro a; have : s.state = wcInitialized := a; rw [hf.1] at this; exact absurd this (by cdec)
  · intro a; have : some (s.nchan + 1) = some 0 := a; simp at this
  · intro a; have : done s = true := a; rw [hdn] at this; cases this
  · show s.nchan + 1 ≤ 1 ∧ (s.nchan + 1 = 1 → some (s.nchan + 1) = some 1)
    rw [hn0]; simp
  · intro u
    by_cases hu : u = t
    · subst hu
      refine ⟨?_, ?_, ?_, ?_⟩
      · simp [upd_same, Pc.holds, hmu]
      · simp only [upd_same, pcFacts]; exact ⟨hf.1, by rw [hn0]⟩
      · intro _ _ _; simp [upd_same, Pc.storeOrAfter]
      · intro _ a; have : done s = true := a; rw [hdn] at this; cases this
    · exact TInv_other t u hu (by simp [upd_other _ _ _ _ hu]) (Or.inl hmu) (Or.inl hmu) (fun _ => rfl) id (ht u)

/-- checkInitSlow: `atomic.StoreInt32(&wc.state, wcInitialized)` -/
theorem InvA_istore {s : St} (t : Nat) (k : Cont) (h : InvA s) (hpc : s.pc t = .iStore k) :
    InvA { s with state := wcInitialized, pc := upd s.pc t (.iUnlock k) } := by
  obtain ⟨g, ht⟩ := h
  have t0 := ht t
  have hf := t0.facts; rw [hpc] at hf; simp only [pcFacts] at hf
  have hmu : s.mu = some t := t0.lock.mp (by rw [hpc]; rfl)
  have hdn : done s = false := by
    cases hd : done s with
    | false => rfl
    | true =>
      have := t0.dn2 hmu hd (by rw [hf.1]; decide)
      rw [hpc] at this; cases this
  refine ⟨⟨Or.inr (Or.inl rfl), g.fault, ?_, ?_, ?_, g.cl1, g.ch0, g.dn, ?_, ?_, g.nch, g.cls, g.g0⟩, ?_⟩
  · intro _; show s.closeChan.isSome = true; rw [hf.2]; rfl
  · intro a; exact absurd a (by cdec)
  · intro _; exact hf.2
  · intro _ _; show s.mu.isSome = true; rw [hmu]; rfl
  · intro a; exact absurd a (by cdec)
  · intro u
    by_cases hu : u = t
    · subst hu
      refine ⟨?_, ?_, ?_, ?_⟩
      · simp [upd_same, Pc.holds, hmu]
      · simp only [upd_same, pcFacts]; rw [hf.2]; rfl
      · intro _ a; exact absurd a (by cdec)
      · intro _ a; have : done s = true := a; rw [hdn] at this; cases this
    · exact TInv_other t u hu (by simp [upd_other _ _ _ _ hu]) (Or.inl hmu) (Or.inl hmu) id
        (fun a => by rw [hf.1] at a; exact absurd a (by cdec)) (ht u)

/-- Unlock (checkInitSlow or Close's deferred function) -/
theorem InvA_unlock {s : St} (t : Nat) (v : Pc) (h : InvA s) (hh : (s.pc t).holds = true)
    (hn : (s.pc t).storeOrAfter = false) (ha : (s.pc t).after = false)
    (hv : v.holds = false) (hf : pcFacts s v) :
    InvA { s with mu := none, pc := upd s.pc t v } := by
  obtain ⟨g, ht⟩ := h
  have t0 := ht t
  have hmu : s.mu = some t := t0.lock.mp hh
  refine ⟨⟨g.dom, g.fault, g.nn, ?_, g.ini, g.cl1, g.ch0, g.dn, ?_, g.cld, g.nch, g.cls, g.g0⟩, ?_⟩
  · intro a b; have := t0.new2 hmu a b; rw [hn] at this; cases this
  · intro a b; have := t0.dn2 hmu a b; rw [ha] at this; cases this
  · intro u
    by_cases hu : u = t
    · subst hu
      refine ⟨?_, ?_, ?_, ?_⟩
      · simp [upd_same, hv]
      · simp only [upd_same]; cases v <;> simp only [pcFacts] at hf ⊢ <;> exact hf
      · intro a; cases a
      · intro a; cases a
    · exact TInv_other t u hu (by simp [upd_other _ _ _ _ hu]) (Or.inl hmu) (Or.inr rfl) id id (ht u)

/-- Close: the deferred `atomic.StoreInt32(&wc.state, wcClosed)` -/
theorem InvA_clstore {s : St} (t : Nat) (r : Option CbRes) (h : InvA s) (hpc : s.pc t = .clStore r) :
    InvA { s with state := wcClosed, pc := upd s.pc t (.clUnlock r) } := by
  obtain ⟨g, ht⟩ := h
  have t0 := ht t
  have hf := t0.facts; rw [hpc] at hf; simp only [pcFacts] at hf
  have hmu : s.mu = some t := t0.lock.mp (by rw [hpc]; rfl)
  refine ⟨⟨Or.inr (Or.inr rfl), g.fault, ?_, ?_, ?_, g.cl1, g.ch0, g.dn, ?_, ?_, g.nch, g.cls, g.g0⟩, ?_⟩
  · intro _; obtain ⟨c, hc, _⟩ := g.dn hf.2; show s.closeChan.isSome = true; rw [hc]; rfl
  · intro a; exact absurd a (by cdec)
  · intro a; exact absurd a (by cdec)
  · intro _ a; exact absurd rfl a
  · intro _; exact hf.2
  · intro u
    by_cases hu : u = t
    · subst hu
      refine ⟨?_, ?_, ?_, ?_⟩
      · simp [upd_same, Pc.holds, hmu]
      · simp only [upd_same, pcFacts]
      · intro _ a; exact absurd a (by cdec)
      · intro _ _ a; exact absurd rfl a
    · exact TInv_other t u hu (by simp [upd_other _ _ _ _ hu]) (Or.inl hmu) (Or.inl hmu) id (fun _ => rfl) (ht u)

/-- Close: `close(wc.closeChan)` (state initialised) -/
theorem InvA_close_init {s : St} (t : Nat) (cb : Bool) (ev : List Ev) (v : Pc) (h : InvA s)
    (hpc : s.pc t = .clClose cb) (hst : s.state = wcInitialized)
    (hv : v = .clCbStart ∨ v = .clStore none) :
    s.closeChan = some 1 ∧ s.closed.contains 1 = false ∧
    InvA { s with closed := 1 :: s.closed, log := ev, closeTime := some s.now, pc := upd s.pc t v } := by
  obtain ⟨g, ht⟩ := h
  have t0 := ht t
  have hf := t0.facts; rw [hpc] at hf; simp only [pcFacts] at hf
  have hmu : s.mu = some t := t0.lock.mp (by rw [hpc]; rfl)
  have hch := g.ini hst
  have hnc : s.closed.contains 1 = false := by
    cases hc : s.closed.contains 1 with
    | false => rfl
    | true =>
      have := g.cl1 (by simpa using hc)
      rw [hf.2] at this; cases this
  refine ⟨hch, hnc, ⟨g.dom, g.fault, g.nn, ?_, g.ini, ?_, ?_, ?_, ?_, ?_, g.nch, ?_, ?_⟩, ?_⟩
  · intro a; have : s.state = wcNew := a; rw [hst] at this; exact absurd this (by cdec)
  · intro _; rfl
  · intro _; rfl
  · intro _; exact ⟨1, hch, by simp⟩
  · intro _ _; show s.mu.isSome = true; rw [hmu]; rfl
  · intro _; rfl
  · intro c hc
    rcases List.mem_cons.mp hc with rfl | hc
    · exact Or.inr rfl
    · exact g.cls c hc
  · exact List.mem_cons_of_mem _ g.g0
  · intro u
    by_cases hu : u = t
    · subst hu
      refine ⟨?_, ?_, ?_, ?_⟩
      · rcases hv with rfl | rfl <;> simp [upd_same, Pc.holds, hmu]
      · rcases hv with rfl | rfl <;> simp only [upd_same, pcFacts] <;> exact ⟨hf.1, rfl⟩
      · intro _ a; have : s.state = wcNew := a; rw [hst] at this; exact absurd this (by cdec)
      · intro _ _ _; rcases hv with rfl | rfl <;> simp [upd_same, Pc.after]
    · exact TInv_other t u hu (by simp [upd_other _ _ _ _ hu]) (Or.inl hmu) (Or.inl hmu) id id (ht u)

/-- Close: `wc.closeChan = globalClosedChan` (state new) -/
theorem InvA_close_new {s : St} (t : Nat) (cb : Bool) (ev : List Ev) (v : Pc) (h : InvA s)
    (hpc : s.pc t = .clClose cb) (hst : s.state ≠ wcInitialized)
    (hv : v = .clCbStart ∨ v = .clStore none) :
    InvA { s with closeChan := some globalChan, log := ev, closeTime := some s.now, pc := upd s.pc t v } := by
  obtain ⟨g, ht⟩ := h
  have t0 := ht t
  have hf := t0.facts; rw [hpc] at hf; simp only [pcFacts] at hf
  have hmu : s.mu = some t := t0.lock.mp (by rw [hpc]; rfl)
  have hnew : s.state = wcNew := by
    rcases g.dom with h | h | h
    · exact h
    · exact absurd h hst
    · exact absurd h hf.1
  have hcn : s.closeChan = none := by
    cases hc : s.closeChan with
    | none => rfl
    | some c =>
      have := t0.new2 hmu hnew (by rw [hc]; rfl)
      rw [hpc] at this; cases this
  refine ⟨⟨g.dom, g.fault, ?_, ?_, ?_, ?_, ?_, ?_, ?_, ?_, ?_, g.cls, g.g0⟩, ?_⟩
  · intro _; rfl
  · intro _ _; show s.mu.isSome = true; rw [hmu]; rfl
  · intro a; exact absurd a hst
  · intro _; rfl
  · intro _; rfl
  · intro _; exact ⟨0, rfl, g.g0⟩
  · intro _ _; show s.mu.isSome = true; rw [hmu]; rfl
  · intro _; rfl
  · refine ⟨g.nch.1, ?_⟩
    intro a; have := g.nch.2 a; rw [hcn] at this; cases this
  · intro u
    by_cases hu : u = t
    · subst hu
      refine ⟨?_, ?_, ?_, ?_⟩
      · rcases hv with rfl | rfl <;> simp [upd_same, Pc.holds, hmu]
      · rcases hv with rfl | rfl <;> simp only [upd_same, pcFacts] <;> exact ⟨hf.1, rfl⟩
      · intro _ _ _; rcases hv with rfl | rfl <;> simp [upd_same, Pc.storeOrAfter]
      · intro _ _ _; rcases hv with rfl | rfl <;> simp [upd_same, Pc.after]
    · exact TInv_other t u hu (by simp [upd_other _ _ _ _ hu]) (Or.inl hmu) (Or.inl hmu) (fun _ => rfl) id (ht u)


theorem InvA_congr {s s' : St} (hs : shared s' = shared s) (hp : s'.pc = s.pc) (h : InvA s) : InvA s' :=
  ⟨GInv_congr hs h.1, fun u => TInv_congr hs u (by rw [hp]) (h.2 u)⟩

theorem closed_of_not_ne {s : St} (hc : ¬ s.state ≠ wcClosed) : s.state = wcClosed := by simpa using hc

theorem stepT_invA (s : St) (t : Nat) (h : InvA s) : InvA (stepT s t) := by
  have g := h.1
  have t0 := h.2 t
  unfold stepT
  split
  · exact h
  · next k hpc =>   -- load0
    split
    · exact InvA_pcstep (s := s) t (.iLock k) rfl rfl h (by rw [hpc]; rfl) trivial (by rw [hpc]; intro x; cases x) (by rw [hpc]; intro x; cases x)
    · next hne =>
      refine InvA_pcstep (s := s) t k.after rfl rfl h (by rw [hpc]; cases k <;> rfl) ?_ (by rw [hpc]; intro x; cases x) (by rw [hpc]; intro x; cases x)
      cases k <;> exact g.nn hne
  · next k hpc =>   -- iLock
    split
    · next hmu => exact InvA_lock t (.iCheck k) h hmu rfl trivial rfl rfl
    · exact h
  · next k hpc =>   -- iCheck
    have hmu : s.mu = some t := t0.lock.mp (by rw [hpc]; rfl)
    split
    · next hnew =>
      refine InvA_pcstep (s := s) t (.iMake k) rfl rfl h (by rw [hpc]; rfl) ?_ (by rw [hpc]; intro x; cases x) (by rw [hpc]; intro x; cases x)
      refine ⟨hnew, ?_⟩
      cases hc : s.closeChan with
      | none => rfl
      | some c => have := t0.new2 hmu hnew (by rw [hc]; rfl); rw [hpc] at this; cases this
    · next hne =>
      exact InvA_pcstep (s := s) t (.iUnlock k) rfl rfl h (by rw [hpc]; rfl) (g.nn hne) (by rw [hpc]; intro x; cases x) (by rw [hpc]; intro x; cases x)
  · next k hpc => exact InvA_make t k h hpc
  · next k hpc => exact InvA_istore t k h hpc
  · next k hpc =>   -- iUnlock
    have hf := t0.facts; rw [hpc] at hf
    exact InvA_unlock t k.after h (by rw [hpc]; rfl) (by rw [hpc]; rfl) (by rw [hpc]; rfl) (by cases k <;> rfl)
      (by cases k <;> exact hf)
  · next hpc =>   -- cRead
    exact InvA_pcstep (s := s) t .idle rfl rfl h (by rw [hpc]; rfl) trivial (by rw [hpc]; intro x; cases x) (by rw [hpc]; intro x; cases x)
  · next T hpc =>   -- wTimer
    exact InvA_pcstep (s := s) t (.wSel s.closeChan s.now T) rfl rfl h (by rw [hpc]; rfl) trivial (by rw [hpc]; intro x; cases x) (by rw [hpc]; intro x; cases x)
  · next ch st T hpc =>   -- wSel
    split
    · exact InvA_pcstep (s := s) t .idle rfl rfl h (by rw [hpc]; rfl) trivial (by rw [hpc]; intro x; cases x) (by rw [hpc]; intro x; cases x)
    · exact h
  · next hpc =>   -- isc
    exact InvA_pcstep (s := s) t .idle rfl rfl h (by rw [hpc]; rfl) trivial (by rw [hpc]; intro x; cases x) (by rw [hpc]; intro x; cases x)
  · next cb hpc =>   -- clLoad
    split
    · exact InvA_pcstep (s := s) t (.clLock cb) rfl rfl h (by rw [hpc]; rfl) trivial (by rw [hpc]; intro x; cases x) (by rw [hpc]; intro x; cases x)
    · next hc =>
      exact InvA_pcstep (s := s) t (.clRet none) rfl rfl h (by rw [hpc]; rfl) (closed_of_not_ne hc) (by rw [hpc]; intro x; cases x) (by rw [hpc]; intro x; cases x)
  · next cb hpc =>   -- clLock
    split
    · next hmu => exact InvA_lock t (.clCheck cb) h hmu rfl trivial rfl rfl
    · exact h
  · next cb hpc =>   -- clCheck
    have hmu : s.mu = some t := t0.lock.mp (by rw [hpc]; rfl)
    split
    · next hne =>
      refine InvA_pcstep (s := s) t (.clClose cb) rfl rfl h (by rw [hpc]; rfl) ?_ (by rw [hpc]; intro x; cases x) (by rw [hpc]; intro x; cases x)
      refine ⟨hne, ?_⟩
      cases hd : done s with
      | false => rfl
      | true => have := t0.dn2 hmu hd hne; rw [hpc] at this; cases this
    · next hc =>
      exact InvA_pcstep (s := s) t (.clUnlock none) rfl rfl h (by rw [hpc]; rfl) (closed_of_not_ne hc) (by rw [hpc]; intro x; cases x) (by rw [hpc]; intro x; cases x)
  · next cb hpc =>   -- clClose
    have hv : (if cb = true then Pc.clCbStart else Pc.clStore none) = .clCbStart ∨
              (if cb = true then Pc.clCbStart else Pc.clStore none) = .clStore none := by
      cases cb <;> simp
    by_cases hst : s.state = wcInitialized
    · obtain ⟨hch, hnc, hI⟩ := InvA_close_init t cb (s.log ++ [.closeDo t 1 s.now]) _ h hpc hst hv
      simp only [hst, hch, hnc, ↓reduceIte, Bool.false_eq_true]
      simp only [hst, hch] at hI
      exact hI
    · simp only [hst, ↓reduceIte]
      exact InvA_close_new t cb _ _ h hpc hst hv
  · next hpc =>   -- clCbStart
    have hf := t0.facts; rw [hpc] at hf
    exact InvA_pcstep (s := s) t .clCbRun rfl rfl h (by rw [hpc]; rfl) hf (fun _ => rfl) (fun _ => rfl)
  · exact h
  · next r hpc => exact InvA_clstore t r h hpc
  · next r hpc =>   -- clUnlock
    have hf := t0.facts; rw [hpc] at hf
    exact InvA_unlock t (.clRet r) h (by rw [hpc]; rfl) (by rw [hpc]; rfl) (by rw [hpc]; rfl) rfl hf
  · next r hpc =>   -- clRet
    exact InvA_pcstep (s := s) t .idle rfl rfl h (by rw [hpc]; rfl) trivial (by rw [hpc]; intro x; cases x) (by rw [hpc]; intro x; cases x)

theorem step_invA (s : St) (a : Act) (h : InvA s) : InvA (step s a) := by
  cases a with
  | invoke t call =>
    simp only [step]
    split
    · next hpc =>
      cases call <;>
        exact InvA_pcstep (s := s) t _ rfl rfl h (by rw [hpc]; rfl) trivial (by rw [hpc]; intro x; cases x) (by rw [hpc]; intro x; cases x)
    · exact h
  | step t => exact stepT_invA s t h
  | cbEnd t r =>
    simp only [step]
    split
    · next hpc =>
      have hf := (h.2 t).facts; rw [hpc] at hf
      exact InvA_pcstep (s := s) t (.clStore (some r)) rfl rfl h (by rw [hpc]; rfl) hf (fun _ => rfl) (fun _ => rfl)
    · exact h
  | timeout t =>
    simp only [step]
    split
    · next ch st T hpc =>
      split
      · exact InvA_pcstep (s := s) t .idle rfl rfl h (by rw [hpc]; rfl) trivial (by rw [hpc]; intro x; cases x) (by rw [hpc]; intro x; cases x)
      · exact h
    · exact h
  | tick d =>
    simp only [step]
    split
    · exact InvA_congr (s := s) rfl rfl h
    · exact h

theorem init_invA : InvA init := by
  refine ⟨⟨Or.inl rfl, rfl, ?_, ?_, ?_, ?_, ?_, ?_, ?_, ?_, ?_, ?_, ?_⟩, ?_⟩
  · intro a; exact absurd rfl a
  · intro _ a; cases a
  · intro a; exact absurd a (by decide)
  · intro a; simp [init, globalChan] at a
  · intro a; cases a
  · intro a; cases a
  · intro a; cases a
  · intro a; exact absurd a (by decide)
  · exact ⟨Nat.zero_le _, fun a => by cases a⟩
  · intro c hc; simp [init, globalChan] at hc; exact Or.inl hc
  · simp [init, globalChan]
  · intro u
    exact ⟨by simp [init, Pc.holds], trivial, (fun a => by cases a), (fun a => by cases a)⟩

theorem run_invA (s : St) (acts : List Act) (h : InvA s) : InvA (run s acts) := by
  induction acts generalizing s with
  | nil => exact h
  | cons a l ih => exact ih _ (step_invA s a h)

/-! ## Layer B: the event log -/

/-- `u` performed the close / assignment -/
def didClose (l : List Ev) (u : Nat) : Prop := ∃ c n, Ev.closeDo u c n ∈ l

def pcB (s : St) (u : Nat) : Pc → Prop
  | .clCbStart => cbStarts s.log = 0 ∧ cbEnds s.log = 0 ∧ didClose s.log u
  | .clCbRun => cbStarts s.log = 1 ∧ cbEnds s.log = 0
  | .clStore _ => cbStarts s.log = cbEnds s.log ∧ cbStarts s.log ≤ 1
  | .wSel ch _ _ => ch.isSome = true ∧ ch = s.closeChan
  | _ => True

def evFacts (s : St) : Ev → Prop
  | .closeRet .. => s.state = wcClosed
  | .iscRet _ true _ => s.state = wcClosed
  | .cRet _ ch _ => ch.isSome = true ∧ ch = s.closeChan
  | .wuRet _ _ ch _ _ _ => ch.isSome = true ∧ ch = s.closeChan
  | .cbStart u _ => didClose s.log u
  | _ => True

structure InvB (s : St) : Prop where
  nd : done s = false → cbStarts s.log = 0 ∧ cbEnds s.log = 0 ∧ closeDos s.log = 0
  cl : s.state = wcClosed → cbStarts s.log = cbEnds s.log ∧ cbStarts s.log ≤ 1
  dos : closeDos s.log ≤ 1
  evs : ∀ e ∈ s.log, evFacts s e
  pcs : ∀ u, pcB s u (s.pc u)

theorem didClose_mono {l : List Ev} {u : Nat} (e : Ev) (h : didClose l u) : didClose (l ++ [e]) u := by
  obtain ⟨c, n, h⟩ := h
  exact ⟨c, n, List.mem_append_left _ h⟩

/-- steps that change neither the log nor state/closeChan/closeTime -/
theorem InvB_frame {s s' : St} (t : Nat) (v : Pc) (hlog : s'.log = s.log) (hst : s'.state = s.state)
    (hch : s'.closeChan = s.closeChan) (hct : s'.closeTime = s.closeTime) (hp : s'.pc = upd s.pc t v)
    (h : InvB s) (hv : pcB s t v) : InvB s' := by
  have hd : done s' = done s := by simp [done, hct]
  have hpcB : ∀ u p, pcB s u p → pcB s' u p := by
    intro u p hp
    cases p <;> simp only [pcB, hlog, hch] at hp ⊢ <;> (try exact hp)
  refine ⟨?_, ?_, ?_, ?_, ?_⟩
  · rw [hd, hlog]; exact h.nd
  · rw [hst, hlog]; exact h.cl
  · rw [hlog]; exact h.dos
  · rw [hlog]; intro e he
    have := h.evs e he
    cases e with
    | iscRet t b n => cases b <;> simp only [evFacts, hst] at this ⊢ <;> (try exact this)
    | _ => simp only [evFacts, hst, hch, hlog] at this ⊢ <;> (try exact this)
  · intro u
    rw [hp]
    by_cases hu : u = t
    · subst hu; rw [upd_same]; exact hpcB _ _ hv
    · rw [upd_other _ _ _ _ hu]; exact hpcB _ _ (h.pcs u)


theorem InvB_of {s s' : St} (t : Nat) (v : Pc) (l : List Ev)
    (hlog : s'.log = s.log ++ l) (hp : s'.pc = upd s.pc t v) (h : InvB s)
    (hnd : done s' = false → cbStarts s'.log = 0 ∧ cbEnds s'.log = 0 ∧ closeDos s'.log = 0)
    (hcl : s'.state = wcClosed → cbStarts s'.log = cbEnds s'.log ∧ cbStarts s'.log ≤ 1)
    (hdos : closeDos s'.log ≤ 1)
    (hev : ∀ e ∈ s.log, evFacts s e → evFacts s' e)
    (hnew : ∀ e ∈ l, evFacts s' e)
    (hv : pcB s' t v)
    (ho : ∀ u, u ≠ t → pcB s u (s.pc u) → pcB s' u (s.pc u)) : InvB s' := by
  refine ⟨hnd, hcl, hdos, ?_, ?_⟩
  · intro e he
    rw [hlog] at he
    rcases List.mem_append.mp he with he | he
    · exact hev e he (h.evs e he)
    · exact hnew e he
  · intro u
    rw [hp]
    by_cases hu : u = t
    · subst hu; rw [upd_same]; exact hv
    · rw [upd_other _ _ _ _ hu]; exact ho u hu (h.pcs u)

def Ev.neutral (e : Ev) : Bool := !e.isCbStart && !e.isCbEnd && !e.isCloseDo

theorem counts_append_neutral (l : List Ev) (e : Ev) (he : e.neutral = true) :
    cbStarts (l ++ [e]) = cbStarts l ∧ cbEnds (l ++ [e]) = cbEnds l ∧ closeDos (l ++ [e]) = closeDos l := by
  simp only [Ev.neutral, Bool.and_eq_true, Bool.not_eq_true'] at he
  simp [cbStarts, cbEnds, closeDos, List.countP_append, he.1.1, he.1.2, he.2]

/-- a step that appends a neutral event and changes nothing else but pc t (and sel) -/
theorem InvB_append {s s' : St} (t : Nat) (v : Pc) (e : Ev) (hlog : s'.log = s.log ++ [e])
    (hst : s'.state = s.state) (hch : s'.closeChan = s.closeChan) (hct : s'.closeTime = s.closeTime)
    (hp : s'.pc = upd s.pc t v) (h : InvB s) (he : e.neutral = true) (hnew : evFacts s' e)
    (hv : pcB s' t v) : InvB s' := by
  have hd : done s' = done s := by simp [done, hct]
  obtain ⟨c1, c2, c3⟩ := counts_append_neutral s.log e he
  have hpcB : ∀ u p, pcB s u p → pcB s' u p := by
    intro u p hp
    cases p <;> simp only [pcB, hlog, hch, c1, c2] at hp ⊢ <;> (try exact hp)
    exact ⟨hp.1, hp.2.1, didClose_mono e hp.2.2⟩
  refine InvB_of t v [e] hlog hp h ?_ ?_ ?_ ?_ ?_ hv (fun u _ => hpcB u _)
  · rw [hd, hlog, c1, c2, c3]; exact h.nd
  · rw [hst, hlog, c1, c2]; exact h.cl
  · rw [hlog, c3]; exact h.dos
  · intro e' he' hf
    cases e' with
    | iscRet t b n => cases b <;> simp only [evFacts, hst] at hf ⊢ <;> (try exact hf)
    | cbStart u n => simp only [evFacts, hlog] at hf ⊢; exact didClose_mono e hf
    | _ => simp only [evFacts, hst, hch] at hf ⊢ <;> (try exact hf)
  · intro e' he'; simp at he'; subst he'; exact hnew


theorem others_not_hold {s : St} (hA : InvA s) (t : Nat) (hmu : s.mu = some t) (u : Nat) (hu : u ≠ t) :
    (s.pc u).holds = false := by
  cases h : (s.pc u).holds with
  | false => rfl
  | true =>
    have := ((hA.2 u).lock.mp h)
    rw [hmu] at this
    exact absurd (Option.some.inj this).symm hu

theorem pcB_other_holder {s s' : St} (hA : InvA s) (t : Nat) (hmu : s.mu = some t)
    (hch : s.closeChan.isSome = true → s'.closeChan = s.closeChan) :
    ∀ u, u ≠ t → pcB s u (s.pc u) → pcB s' u (s.pc u) := by
  intro u hu hp
  have hh := others_not_hold hA t hmu u hu
  cases hpc : s.pc u <;> rw [hpc] at hh hp <;> simp only [Pc.holds] at hh <;> simp only [pcB] at hp ⊢ <;>
    first | trivial | (cases hh) | skip
  next ch st T =>
    refine ⟨hp.1, ?_⟩
    rw [hch (by rw [← hp.2]; exact hp.1)]; exact hp.2

theorem evFacts_mono {s s' : St} (l : List Ev) (hlog : s'.log = s.log ++ l)
    (hst : s.state = wcClosed → s'.state = wcClosed)
    (hch : s.closeChan.isSome = true → s'.closeChan = s.closeChan) (e : Ev) (hf : evFacts s e) : evFacts s' e := by
  cases e with
  | iscRet t b n => cases b <;> simp only [evFacts] at hf ⊢ <;> (try exact hst hf)
  | cbStart u n =>
    simp only [evFacts, hlog] at hf ⊢
    obtain ⟨c, m, h⟩ := hf
    exact ⟨c, m, List.mem_append_left _ h⟩
  | closeRet t r n => simp only [evFacts] at hf ⊢; exact hst hf
  | cRet t ch n =>
    simp only [evFacts] at hf ⊢
    refine ⟨hf.1, ?_⟩
    rw [hch (by rw [← hf.2]; exact hf.1)]; exact hf.2
  | wuRet t b ch st T n =>
    simp only [evFacts] at hf ⊢
    refine ⟨hf.1, ?_⟩
    rw [hch (by rw [← hf.2]; exact hf.1)]; exact hf.2
  | _ => trivial

theorem holder_of_holds {s : St} (hA : InvA s) (t : Nat) (h : (s.pc t).holds = true) : s.mu = some t :=
  (hA.2 t).lock.mp h

theorem cbStarts_snoc (l : List Ev) (e : Ev) : cbStarts (l ++ [e]) = cbStarts l + (if e.isCbStart then 1 else 0) := by
  simp [cbStarts, List.countP_append, List.countP_cons]
theorem cbEnds_snoc (l : List Ev) (e : Ev) : cbEnds (l ++ [e]) = cbEnds l + (if e.isCbEnd then 1 else 0) := by
  simp [cbEnds, List.countP_append, List.countP_cons]
theorem closeDos_snoc (l : List Ev) (e : Ev) : closeDos (l ++ [e]) = closeDos l + (if e.isCloseDo then 1 else 0) := by
  simp [closeDos, List.countP_append, List.countP_cons]

theorem stepT_invB (s : St) (t : Nat) (hA : InvA s) (h : InvB s) : InvB (stepT s t) := by
  have g := hA.1
  have t0 := hA.2 t
  have b0 := h.pcs t
  unfold stepT
  split
  · exact h
  · next k hpc =>   -- load0
    split
    · exact InvB_frame (s := s) t _ rfl rfl rfl rfl rfl h trivial
    · refine InvB_frame (s := s) t _ rfl rfl rfl rfl rfl h ?_
      cases k <;> trivial
  · next k hpc =>   -- iLock
    split
    · exact InvB_frame (s := s) t _ rfl rfl rfl rfl rfl h trivial
    · exact h
  · next k hpc =>   -- iCheck
    split
    · exact InvB_frame (s := s) t _ rfl rfl rfl rfl rfl h trivial
    · exact InvB_frame (s := s) t _ rfl rfl rfl rfl rfl h trivial
  · next k hpc =>   -- iMake
    have hf := t0.facts; rw [hpc] at hf; simp only [pcFacts] at hf
    have hmu := holder_of_holds hA t (by rw [hpc]; rfl)
    have hch : s.closeChan.isSome = true → some (s.nchan + 1) = s.closeChan := by
      intro a; rw [hf.2] at a; cases a
    refine InvB_of (s := s) t _ [] (by simp) rfl h h.nd h.cl h.dos ?_ (by intro e he; cases he) trivial ?_
    · intro e _ hf; refine evFacts_mono (s := s) [] ?_ ?_ ?_ e hf <;> first | (simp; done) | exact id | exact hch
    · exact pcB_other_holder hA t hmu hch
  · next k hpc =>   -- iStore
    have hf := t0.facts; rw [hpc] at hf; simp only [pcFacts] at hf
    have hmu := holder_of_holds hA t (by rw [hpc]; rfl)
    have hst : s.state = wcClosed → wcInitialized = wcClosed := by
      intro a; rw [hf.1] at a; exact absurd a (by cdec)
    refine InvB_of (s := s) t _ [] (by simp) rfl h h.nd ?_ h.dos ?_ (by intro e he; cases he) trivial ?_
    · intro a; exact absurd a (by cdec)
    · intro e _ hf; refine evFacts_mono (s := s) [] ?_ ?_ ?_ e hf <;> first | (simp; done) | exact hst | exact (fun _ => rfl)
    · exact pcB_other_holder hA t hmu (fun _ => rfl)
  · next k hpc =>   -- iUnlock
    refine InvB_frame (s := s) t _ rfl rfl rfl rfl rfl h ?_
    cases k <;> trivial
  · next hpc =>   -- cRead
    have hf := t0.facts; rw [hpc] at hf; simp only [pcFacts] at hf
    exact InvB_append (s := s) t _ _ rfl rfl rfl rfl rfl h rfl ⟨hf, rfl⟩ trivial
  · next T hpc =>   -- wTimer
    have hf := t0.facts; rw [hpc] at hf; simp only [pcFacts] at hf
    exact InvB_frame (s := s) t _ rfl rfl rfl rfl rfl h ⟨hf, rfl⟩
  · next ch st T hpc =>   -- wSel
    split
    · rw [hpc] at b0; simp only [pcB] at b0
      exact InvB_append (s := s) t _ _ rfl rfl rfl rfl rfl h rfl b0 trivial
    · exact h
  · next hpc =>   -- isc
    refine InvB_append (s := s) t _ _ rfl rfl rfl rfl rfl h rfl ?_ trivial
    by_cases hc : s.state = wcClosed
    · simp only [hc, decide_true, evFacts]
    · simp only [hc, decide_false, evFacts]
  · next cb hpc =>   -- clLoad
    split
    · exact InvB_frame (s := s) t _ rfl rfl rfl rfl rfl h trivial
    · exact InvB_frame (s := s) t _ rfl rfl rfl rfl rfl h trivial
  · next cb hpc =>   -- clLock
    split
    · exact InvB_frame (s := s) t _ rfl rfl rfl rfl rfl h trivial
    · exact h
  · next cb hpc =>   -- clCheck
    split
    · exact InvB_frame (s := s) t _ rfl rfl rfl rfl rfl h trivial
    · exact InvB_frame (s := s) t _ rfl rfl rfl rfl rfl h trivial
  · next cb hpc =>   -- clClose
    have hf := t0.facts; rw [hpc] at hf; simp only [pcFacts] at hf
    have hmu := holder_of_holds hA t (by rw [hpc]; rfl)
    obtain ⟨n1, n2, n3⟩ := h.nd hf.2
    have hv : (if cb = true then Pc.clCbStart else Pc.clStore none) = .clCbStart ∨
              (if cb = true then Pc.clCbStart else Pc.clStore none) = .clStore none := by
      cases cb <;> simp
    by_cases hst : s.state = wcInitialized
    · obtain ⟨hch, hnc, _⟩ := InvA_close_init t cb (s.log ++ [.closeDo t 1 s.now]) _ hA hpc hst hv
      simp only [hst, hch, hnc, ↓reduceIte, Bool.false_eq_true]
      refine InvB_of (s := s) t _ [.closeDo t 1 s.now] rfl rfl h ?_ ?_ ?_ ?_ ?_ ?_ ?_
      · intro a; cases a
      · intro a; have : s.state = wcClosed := by rw [hst]; exact a
        exact absurd this hf.1
      · show closeDos (s.log ++ [Ev.closeDo t 1 s.now]) ≤ 1
        rw [closeDos_snoc, n3]; simp [Ev.isCloseDo]
      · intro e _ hf
        refine evFacts_mono (s := s) [.closeDo t 1 s.now] ?_ ?_ ?_ e hf <;> first | rfl | exact (fun a => by rw [← hst]; exact a) | exact (fun _ => hch.symm)
      · intro e he; simp at he; subst he; trivial
      · have hd : didClose (s.log ++ [Ev.closeDo t 1 s.now]) t := ⟨1, s.now, by simp⟩
        cases cb <;> simp only [↓reduceIte, Bool.false_eq_true, pcB, cbStarts_snoc, cbEnds_snoc, n1, n2, Ev.isCbStart, Ev.isCbEnd]
        · simp
        · exact ⟨by simp, by simp, hd⟩
      · exact pcB_other_holder hA t hmu (fun _ => hch.symm)
    · simp only [hst, ↓reduceIte]
      have hnew : s.state = wcNew := by
        rcases g.dom with a | a | a
        · exact a
        · exact absurd a hst
        · exact absurd a hf.1
      have hcn : s.closeChan.isSome = true → some globalChan = s.closeChan := by
        intro a
        have := t0.new2 hmu hnew a
        rw [hpc] at this; cases this
      refine InvB_of (s := s) t _ [.closeDo t globalChan s.now] rfl rfl h ?_ ?_ ?_ ?_ ?_ ?_ ?_
      · intro a; cases a
      · intro a; exact absurd a hf.1
      · show closeDos (s.log ++ [Ev.closeDo t globalChan s.now]) ≤ 1
        rw [closeDos_snoc, n3]; simp [Ev.isCloseDo]
      · intro e _ hf
        refine evFacts_mono (s := s) [.closeDo t globalChan s.now] ?_ ?_ ?_ e hf <;> first | rfl | exact id | exact hcn
      · intro e he; simp at he; subst he; trivial
      · have hd : didClose (s.log ++ [Ev.closeDo t globalChan s.now]) t := ⟨globalChan, s.now, by simp⟩
        cases cb <;> simp only [↓reduceIte, Bool.false_eq_true, pcB, cbStarts_snoc, cbEnds_snoc, n1, n2, Ev.isCbStart, Ev.isCbEnd]
        · simp
        · exact ⟨by simp, by simp, hd⟩
      · exact pcB_other_holder hA t hmu hcn
  · next hpc =>   -- clCbStart
    have hf := t0.facts; rw [hpc] at hf; simp only [pcFacts] at hf
    have hmu := holder_of_holds hA t (by rw [hpc]; rfl)
    rw [hpc] at b0; simp only [pcB] at b0
    refine InvB_of (s := s) t _ [.cbStart t s.now] rfl rfl h ?_ ?_ ?_ ?_ ?_ ?_ ?_
    · intro a; have : done s = false := a; rw [hf.2] at this; cases this
    · intro a; exact absurd a hf.1
    · show closeDos (s.log ++ [Ev.cbStart t s.now]) ≤ 1
      rw [closeDos_snoc]; simp [Ev.isCloseDo]; exact h.dos
    · intro e _ hf; refine evFacts_mono (s := s) [.cbStart t s.now] ?_ ?_ ?_ e hf <;> first | rfl | exact id | exact (fun _ => rfl)
    · intro e he; simp at he; subst he; exact didClose_mono _ b0.2.2
    · simp only [pcB, cbStarts_snoc, cbEnds_snoc, b0.1, b0.2.1, Ev.isCbStart, Ev.isCbEnd]; simp
    · intro u hu hp
      have := pcB_other_holder (s' := s) hA t hmu (fun _ => rfl) u hu hp
      have hh := others_not_hold hA t hmu u hu
      cases hpc' : s.pc u <;> rw [hpc'] at hh this <;> simp only [Pc.holds] at hh <;> simp only [pcB] at this ⊢ <;>
        first | trivial | (cases hh) | exact this
  · exact h
  · next r hpc =>   -- clStore
    have hf := t0.facts; rw [hpc] at hf; simp only [pcFacts] at hf
    have hmu := holder_of_holds hA t (by rw [hpc]; rfl)
    rw [hpc] at b0; simp only [pcB] at b0
    refine InvB_of (s := s) t _ [] (by simp) rfl h ?_ ?_ h.dos ?_ (by intro e he; cases he) trivial ?_
    · intro a; have : done s = false := a; rw [hf.2] at this; cases this
    · intro _; exact b0
    · intro e _ hf; refine evFacts_mono (s := s) [] ?_ ?_ ?_ e hf <;> first | (simp; done) | exact (fun _ => rfl)
    · exact pcB_other_holder hA t hmu (fun _ => rfl)
  · next r hpc =>   -- clUnlock
    exact InvB_frame (s := s) t _ rfl rfl rfl rfl rfl h trivial
  · next r hpc =>   -- clRet
    have hf := t0.facts; rw [hpc] at hf; simp only [pcFacts] at hf
    exact InvB_append (s := s) t _ _ rfl rfl rfl rfl rfl h rfl hf trivial


theorem upd_self {α} (f : Nat → α) (t : Nat) : upd f t (f t) = f := by
  funext u; simp only [upd]; split
  · next h => rw [h]
  · rfl

theorem step_invB (s : St) (a : Act) (hA : InvA s) (h : InvB s) : InvB (step s a) := by
  cases a with
  | invoke t call =>
    simp only [step]
    split
    · cases call <;> exact InvB_frame (s := s) t _ rfl rfl rfl rfl rfl h trivial
    · exact h
  | step t => exact stepT_invB s t hA h
  | cbEnd t r =>
    simp only [step]
    split
    · next hpc =>
      have t0 := hA.2 t
      have b0 := h.pcs t
      have hf := t0.facts; rw [hpc] at hf; simp only [pcFacts] at hf
      have hmu := holder_of_holds hA t (by rw [hpc]; rfl)
      rw [hpc] at b0; simp only [pcB] at b0
      refine InvB_of (s := s) t _ [.cbEnd t r s.now] rfl rfl h ?_ ?_ ?_ ?_ ?_ ?_ ?_
      · intro a; have : done s = false := a; rw [hf.2] at this; cases this
      · intro a; exact absurd a hf.1
      · show closeDos (s.log ++ [Ev.cbEnd t r s.now]) ≤ 1
        rw [closeDos_snoc]; simp [Ev.isCloseDo]; exact h.dos
      · intro e _ hf; refine evFacts_mono (s := s) [.cbEnd t r s.now] ?_ ?_ ?_ e hf <;> first | rfl | exact id | exact (fun _ => rfl)
      · intro e he; simp at he; subst he; trivial
      · simp only [pcB, cbStarts_snoc, cbEnds_snoc, b0.1, b0.2, Ev.isCbStart, Ev.isCbEnd]; simp
      · intro u hu hp
        have hh := others_not_hold hA t hmu u hu
        cases hpc' : s.pc u <;> rw [hpc'] at hh hp <;> simp only [Pc.holds] at hh <;> simp only [pcB] at hp ⊢ <;>
          first | trivial | (cases hh) | exact hp
    · exact h
  | timeout t =>
    simp only [step]
    split
    · next ch st T hpc =>
      split
      · have b0 := h.pcs t
        rw [hpc] at b0; simp only [pcB] at b0
        exact InvB_append (s := s) t _ _ rfl rfl rfl rfl rfl h rfl b0 trivial
      · exact h
    · exact h
  | tick d =>
    simp only [step]
    split
    · exact InvB_frame (s := s) 0 (s.pc 0) rfl rfl rfl rfl (by simp [upd_self]) h (h.pcs 0)
    · exact h

theorem init_invB : InvB init := by
  refine ⟨?_, ?_, ?_, ?_, ?_⟩
  · intro _; simp [init, cbStarts, cbEnds, closeDos]
  · intro a; exact absurd a (by decide)
  · simp [init, closeDos]
  · intro e he; simp [init] at he
  · intro u; simp [init, pcB]

theorem run_invAB (s : St) (acts : List Act) (hA : InvA s) (hB : InvB s) :
    InvA (run s acts) ∧ InvB (run s acts) := by
  induction acts generalizing s with
  | nil => exact ⟨hA, hB⟩
  | cons a l ih => exact ih _ (step_invA s a hA) (step_invB s a hA hB)

theorem reach_invAB (acts : List Act) : InvA (run init acts) ∧ InvB (run init acts) :=
  run_invAB init acts init_invA init_invB

/-! ## Layer C: timing of WaitUtil -/

/-- what a WaitUtil result says about the instant of the close (`ct` = closeTime now, or later) -/
def evC (now : Nat) (ct : Option Nat) : Ev → Prop
  | .wuRet _ true _ st T n =>
      n ≤ now ∧ ∃ tc, ct = some tc ∧ tc ≤ n ∧ (0 < T → (tc : Int) ≤ st + T)
  | .wuRet _ false _ st T n =>
      n ≤ now ∧ (st : Int) + T ≤ n ∧ (0 < T → ct = none ∨ ∃ tc, ct = some tc ∧ (st : Int) + T ≤ tc)
  | _ => True

structure InvC (s : St) : Prop where
  ct : ∀ tc, s.closeTime = some tc → tc ≤ s.now
  sel : ∀ u ch st T, s.pc u = .wSel ch st T → u ∈ s.sel
  w : ∀ u ch st T, s.pc u = .wSel ch st T →
        st ≤ s.now ∧ ((s.now : Int) ≤ st ∨ (s.now : Int) ≤ st + T) ∧
        (chanClosed s ch = true → ∃ tc, s.closeTime = some tc ∧ ((tc ≤ st ∧ s.now = st) ∨ (st ≤ tc ∧ s.now = tc)))
  ev : ∀ e ∈ s.log, evC s.now s.closeTime e
  ctl : ∀ tc, s.closeTime = some tc → ∃ t c, Ev.closeDo t c tc ∈ s.log

theorem chanClosed_congr {s s' : St} (h : s'.closed = s.closed) (ch : Option Nat) :
    chanClosed s' ch = chanClosed s ch := by
  cases ch <;> simp [chanClosed, h]

theorem InvC_frame {s s' : St} (t : Nat) (v : Pc) (l : List Ev)
    (hnow : s'.now = s.now) (hct : s'.closeTime = s.closeTime) (hcl : s'.closed = s.closed)
    (hlog : s'.log = s.log ++ l) (hp : s'.pc = upd s.pc t v)
    (hsel : ∀ u, u ≠ t → u ∈ s.sel → u ∈ s'.sel)
    (hv : ∀ ch st T, v ≠ .wSel ch st T)
    (hnew : ∀ e ∈ l, evC s.now s.closeTime e)
    (h : InvC s) : InvC s' := by
  have hpc : ∀ u ch st T, s'.pc u = .wSel ch st T → u ≠ t ∧ s.pc u = .wSel ch st T := by
    intro u ch st T hu
    rw [hp] at hu
    by_cases e : u = t
    · subst e; rw [upd_same] at hu; exact absurd hu (hv ch st T)
    · rw [upd_other _ _ _ _ e] at hu; exact ⟨e, hu⟩
  refine ⟨?_, ?_, ?_, ?_, ?_⟩
  rotate_left 4
  · intro tc a; rw [hct] at a
    obtain ⟨x, c, hx⟩ := h.ctl tc a
    exact ⟨x, c, by rw [hlog]; exact List.mem_append_left _ hx⟩
  · rw [hnow, hct]; exact h.ct
  · intro u ch st T hu
    obtain ⟨e, hu⟩ := hpc u ch st T hu
    exact hsel u e (h.sel u ch st T hu)
  · intro u ch st T hu
    obtain ⟨e, hu⟩ := hpc u ch st T hu
    rw [hnow, hct, chanClosed_congr hcl]
    exact h.w u ch st T hu
  · intro e he
    rw [hlog] at he
    rw [hnow, hct]
    rcases List.mem_append.mp he with he | he
    · exact h.ev e he
    · exact hnew e he


theorem closed_iff_done {s : St} (hA : InvA s) : chanClosed s s.closeChan = true ↔ done s = true := by
  have g := hA.1
  constructor
  · intro h
    cases hc : s.closeChan with
    | none => rw [hc] at h; simp [chanClosed] at h
    | some c =>
      rw [hc] at h; simp only [chanClosed, List.contains_iff_mem] at h
      rcases g.cls c h with rfl | rfl
      · exact g.ch0 hc
      · exact g.cl1 h
  · intro h
    obtain ⟨c, hc, hm⟩ := g.dn h
    rw [hc]; simp only [chanClosed, List.contains_iff_mem]; exact hm

theorem evC_mono_now {now now' : Nat} {ct : Option Nat} (h : now ≤ now') (e : Ev) (he : evC now ct e) :
    evC now' ct e := by
  cases e with
  | wuRet t b ch st T n =>
    cases b <;> simp only [evC] at he ⊢
    · exact ⟨Nat.le_trans he.1 h, he.2⟩
    · exact ⟨Nat.le_trans he.1 h, he.2⟩
  | _ => trivial

/-- the close happens now: earlier WaitUtil results stay justified -/
theorem evC_close {now : Nat} (e : Ev) (he : evC now none e) : evC now (some now) e := by
  cases e with
  | wuRet t b ch st T n =>
    cases b <;> simp only [evC] at he ⊢
    · refine ⟨he.1, he.2.1, fun hT => Or.inr ⟨now, rfl, ?_⟩⟩
      have := he.1; have := he.2.1; omega
    · obtain ⟨_, tc, h, _⟩ := he; cases h
  | _ => trivial

theorem stepT_invC (s : St) (t : Nat) (hA : InvA s) (hB : InvB s) (h : InvC s) : InvC (stepT s t) := by
  have t0 := hA.2 t
  have b0 := hB.pcs t
  unfold stepT
  split
  · exact h
  · next k hpc =>
    split
    · exact InvC_frame (s := s) t _ [] rfl rfl rfl (by simp) rfl (fun _ _ a => a) (by intro _ _ _ x; cases x) (by intro e he; cases he) h
    · refine InvC_frame (s := s) t _ [] rfl rfl rfl (by simp) rfl (fun _ _ a => a) ?_ (by intro e he; cases he) h
      cases k <;> (intro _ _ _ x; cases x)
  · next k hpc =>
    split
    · exact InvC_frame (s := s) t _ [] rfl rfl rfl (by simp) rfl (fun _ _ a => a) (by intro _ _ _ x; cases x) (by intro e he; cases he) h
    · exact h
  · next k hpc =>
    split
    · exact InvC_frame (s := s) t _ [] rfl rfl rfl (by simp) rfl (fun _ _ a => a) (by intro _ _ _ x; cases x) (by intro e he; cases he) h
    · exact InvC_frame (s := s) t _ [] rfl rfl rfl (by simp) rfl (fun _ _ a => a) (by intro _ _ _ x; cases x) (by intro e he; cases he) h
  · next k hpc =>
    exact InvC_frame (s := s) t _ [] rfl rfl rfl (by simp) rfl (fun _ _ a => a) (by intro _ _ _ x; cases x) (by intro e he; cases he) h
  · next k hpc =>
    exact InvC_frame (s := s) t _ [] rfl rfl rfl (by simp) rfl (fun _ _ a => a) (by intro _ _ _ x; cases x) (by intro e he; cases he) h
  · next k hpc =>
    refine InvC_frame (s := s) t _ [] rfl rfl rfl (by simp) rfl (fun _ _ a => a) ?_ (by intro e he; cases he) h
    cases k <;> (intro _ _ _ x; cases x)
  · next hpc =>   -- cRead
    exact InvC_frame (s := s) t _ [_] rfl rfl rfl rfl rfl (fun _ _ a => a) (by intro _ _ _ x; cases x)
      (by intro e he; simp at he; subst he; trivial) h
  · next T hpc =>   -- wTimer
    refine ⟨h.ct, ?_, ?_, h.ev, h.ctl⟩
    · intro u ch st T' hu
      by_cases e : u = t
      · subst e; simp
      · simp only [upd_other _ _ _ _ e] at hu
        exact List.mem_cons_of_mem _ (h.sel u ch st T' hu)
    · intro u ch st T' hu
      by_cases e : u = t
      · subst e
        simp only [upd_same] at hu
        cases hu
        refine ⟨Nat.le_refl _, Or.inl (Int.le_refl _), ?_⟩
        intro hc
        have hc' : chanClosed s s.closeChan = true := hc
        have hd := (closed_iff_done hA).mp hc'
        simp only [done, Option.isSome_iff_exists] at hd
        obtain ⟨tc, htc⟩ := hd
        exact ⟨tc, htc, Or.inl ⟨h.ct tc htc, rfl⟩⟩
      · simp only [upd_other _ _ _ _ e] at hu
        exact h.w u ch st T' hu
  · next ch st T hpc =>   -- wSel
    split
    · next hc =>
      obtain ⟨w1, w2, w3⟩ := h.w t ch st T hpc
      obtain ⟨tc, htc, hcase⟩ := w3 hc
      refine InvC_frame (s := s) t _ [_] rfl rfl rfl rfl rfl (fun u hu a => (List.mem_erase_of_ne hu).mpr a)
        (by intro _ _ _ x; cases x) ?_ h
      intro e he; simp at he; subst he
      simp only [evC]
      refine ⟨Nat.le_refl _, tc, htc, ?_, ?_⟩
      · rcases hcase with ⟨a, b⟩ | ⟨a, b⟩ <;> omega
      · intro hT
        rcases hcase with ⟨a, b⟩ | ⟨a, b⟩ <;> rcases w2 with c | c <;> omega
    · exact h
  · next hpc =>   -- isc
    exact InvC_frame (s := s) t _ [_] rfl rfl rfl rfl rfl (fun _ _ a => a) (by intro _ _ _ x; cases x)
      (by intro e he; simp at he; subst he; trivial) h
  · next cb hpc =>
    split
    · exact InvC_frame (s := s) t _ [] rfl rfl rfl (by simp) rfl (fun _ _ a => a) (by intro _ _ _ x; cases x) (by intro e he; cases he) h
    · exact InvC_frame (s := s) t _ [] rfl rfl rfl (by simp) rfl (fun _ _ a => a) (by intro _ _ _ x; cases x) (by intro e he; cases he) h
  · next cb hpc =>
    split
    · exact InvC_frame (s := s) t _ [] rfl rfl rfl (by simp) rfl (fun _ _ a => a) (by intro _ _ _ x; cases x) (by intro e he; cases he) h
    · exact h
  · next cb hpc =>
    split
    · exact InvC_frame (s := s) t _ [] rfl rfl rfl (by simp) rfl (fun _ _ a => a) (by intro _ _ _ x; cases x) (by intro e he; cases he) h
    · exact InvC_frame (s := s) t _ [] rfl rfl rfl (by simp) rfl (fun _ _ a => a) (by intro _ _ _ x; cases x) (by intro e he; cases he) h
  · next cb hpc =>   -- clClose
    have hf := t0.facts; rw [hpc] at hf; simp only [pcFacts] at hf
    have hctn : s.closeTime = none := by
      have := hf.2; simp only [done] at this
      cases hc : s.closeTime with
      | none => rfl
      | some x => rw [hc] at this; cases this
    have hv : ∀ ch st T, (if cb = true then Pc.clCbStart else Pc.clStore none) ≠ .wSel ch st T := by
      intro ch st T; cases cb <;> simp
    have hv' : (if cb = true then Pc.clCbStart else Pc.clStore none) = .clCbStart ∨
              (if cb = true then Pc.clCbStart else Pc.clStore none) = .clStore none := by
      cases cb <;> simp
    have hpc' : ∀ (pc' : Nat → Pc), pc' = upd s.pc t (if cb = true then Pc.clCbStart else Pc.clStore none) →
        ∀ u ch st T, pc' u = .wSel ch st T → s.pc u = .wSel ch st T := by
      intro pc' hp u ch st T hu
      rw [hp] at hu
      by_cases e : u = t
      · subst e; rw [upd_same] at hu; exact absurd hu (hv ch st T)
      · rw [upd_other _ _ _ _ e] at hu; exact hu
    have hw : ∀ u ch st T, s.pc u = .wSel ch st T →
        st ≤ s.now ∧ ((s.now : Int) ≤ st ∨ (s.now : Int) ≤ st + T) ∧ ∃ tc, some s.now = some tc ∧ ((tc ≤ st ∧ s.now = st) ∨ (st ≤ tc ∧ s.now = tc)) := by
      intro u ch st T hu
      obtain ⟨w1, w2, _⟩ := h.w u ch st T hu
      exact ⟨w1, w2, s.now, rfl, Or.inr ⟨w1, rfl⟩⟩
    have hev : ∀ e ∈ s.log, evC s.now (some s.now) e := by
      intro e he; have := h.ev e he; rw [hctn] at this; exact evC_close e this
    by_cases hst : s.state = wcInitialized
    · obtain ⟨hch, hnc, _⟩ := InvA_close_init t cb (s.log ++ [.closeDo t 1 s.now]) _ hA hpc hst hv'
      simp only [hst, hch, hnc, ↓reduceIte, Bool.false_eq_true]
      refine ⟨?_, ?_, ?_, ?_, ?_⟩
      rotate_left 4
      · intro tc a; have : some s.now = some tc := a; cases this
        exact ⟨t, _, List.mem_append_right _ (List.mem_singleton.mpr rfl)⟩
      · intro tc a; have : some s.now = some tc := a; cases this; exact Nat.le_refl _
      · intro u ch st T hu; exact h.sel u ch st T (hpc' _ rfl u ch st T hu)
      · intro u ch st T hu
        obtain ⟨a, b, c⟩ := hw u ch st T (hpc' _ rfl u ch st T hu)
        exact ⟨a, b, fun _ => c⟩
      · intro e he
        rcases List.mem_append.mp he with he | he
        · exact hev e he
        · simp at he; subst he; trivial
    · simp only [hst, ↓reduceIte]
      refine ⟨?_, ?_, ?_, ?_, ?_⟩
      rotate_left 4
      · intro tc a; have : some s.now = some tc := a; cases this
        exact ⟨t, _, List.mem_append_right _ (List.mem_singleton.mpr rfl)⟩
      · intro tc a; have : some s.now = some tc := a; cases this; exact Nat.le_refl _
      · intro u ch st T hu; exact h.sel u ch st T (hpc' _ rfl u ch st T hu)
      · intro u ch st T hu
        obtain ⟨a, b, c⟩ := hw u ch st T (hpc' _ rfl u ch st T hu)
        exact ⟨a, b, fun _ => c⟩
      · intro e he
        rcases List.mem_append.mp he with he | he
        · exact hev e he
        · simp at he; subst he; trivial
  · next hpc =>   -- clCbStart
    exact InvC_frame (s := s) t _ [_] rfl rfl rfl rfl rfl (fun _ _ a => a) (by intro _ _ _ x; cases x)
      (by intro e he; simp at he; subst he; trivial) h
  · exact h
  · next r hpc =>
    exact InvC_frame (s := s) t _ [] rfl rfl rfl (by simp) rfl (fun _ _ a => a) (by intro _ _ _ x; cases x) (by intro e he; cases he) h
  · next r hpc =>
    exact InvC_frame (s := s) t _ [] rfl rfl rfl (by simp) rfl (fun _ _ a => a) (by intro _ _ _ x; cases x) (by intro e he; cases he) h
  · next r hpc =>
    exact InvC_frame (s := s) t _ [_] rfl rfl rfl rfl rfl (fun _ _ a => a) (by intro _ _ _ x; cases x)
      (by intro e he; simp at he; subst he; trivial) h


theorem step_invC (s : St) (a : Act) (hA : InvA s) (hB : InvB s) (h : InvC s) : InvC (step s a) := by
  cases a with
  | invoke t call =>
    simp only [step]
    split
    · cases call <;>
        exact InvC_frame (s := s) t _ [] rfl rfl rfl (by simp) rfl (fun _ _ a => a) (by intro _ _ _ x; cases x) (by intro e he; cases he) h
    · exact h
  | step t => exact stepT_invC s t hA hB h
  | cbEnd t r =>
    simp only [step]
    split
    · exact InvC_frame (s := s) t _ [_] rfl rfl rfl rfl rfl (fun _ _ a => a) (by intro _ _ _ x; cases x)
        (by intro e he; simp at he; subst he; trivial) h
    · exact h
  | timeout t =>
    simp only [step]
    split
    · next ch st T hpc =>
      split
      · next hg =>
        obtain ⟨w1, w2, w3⟩ := h.w t ch st T hpc
        have b0 := hB.pcs t
        rw [hpc] at b0; simp only [pcB] at b0
        refine InvC_frame (s := s) t _ [_] rfl rfl rfl rfl rfl (fun u hu a => (List.mem_erase_of_ne hu).mpr a)
          (by intro _ _ _ x; cases x) ?_ h
        intro e he; simp at he; subst he
        simp only [evC]
        refine ⟨Nat.le_refl _, hg, ?_⟩
        intro hT
        cases hc : s.closeTime with
        | none => exact Or.inl rfl
        | some tc =>
          right
          have hd : done s = true := by simp [done, hc]
          have hcl := (closed_iff_done hA).mpr hd
          rw [← b0.2] at hcl
          obtain ⟨tc', htc', hcase⟩ := w3 hcl
          rw [hc] at htc'; cases htc'
          refine ⟨tc, rfl, ?_⟩
          rcases hcase with ⟨a, b⟩ | ⟨a, b⟩ <;> rcases w2 with c | c <;> omega
      · exact h
    · exact h
  | tick d =>
    simp only [step]
    split
    · next hok =>
      simp only [tickOk, List.all_eq_true] at hok
      refine ⟨?_, h.sel, ?_, ?_, h.ctl⟩
      · intro tc a; exact Nat.le_trans (h.ct tc a) (Nat.le_add_right _ _)
      · intro u ch st T hu
        have hu' : s.pc u = .wSel ch st T := hu
        have := hok u (h.sel u ch st T hu')
        rw [hu'] at this
        simp only [Bool.and_eq_true, Bool.not_eq_true', decide_eq_true_eq] at this
        obtain ⟨w1, w2, w3⟩ := h.w u ch st T hu'
        refine ⟨Nat.le_trans w1 (Nat.le_add_right _ _), Or.inr ?_, ?_⟩
        · show ((s.now + d : Nat) : Int) ≤ st + T
          have := this.2; omega
        · intro hc
          have hc' : chanClosed s ch = true := hc
          rw [this.1] at hc'; cases hc'
      · intro e he
        exact evC_mono_now (Nat.le_add_right _ _) e (h.ev e he)
    · exact h

theorem init_invC : InvC init := by
  refine ⟨?_, ?_, ?_, ?_, ?_⟩
  rotate_left 4
  · intro tc a; cases a
  · intro tc a; cases a
  · intro u ch st T a; cases a
  · intro u ch st T a; cases a
  · intro e he; cases he

theorem reach_inv (acts : List Act) : InvA (run init acts) ∧ InvB (run init acts) ∧ InvC (run init acts) := by
  suffices ∀ s, InvA s → InvB s → InvC s → InvA (run s acts) ∧ InvB (run s acts) ∧ InvC (run s acts) from
    this init init_invA init_invB init_invC
  induction acts with
  | nil => intro s a b c; exact ⟨a, b, c⟩
  | cons x l ih =>
    intro s a b c
    exact ih _ (step_invA s x a) (step_invB s x a b) (step_invC s x a b c)


theorem run_append (s : St) (l1 l2 : List Act) : run s (l1 ++ l2) = run (run s l1) l2 := by
  simp [run, List.foldl_append]

/-- at most one callback start, in every reachable state -/
theorem cbStarts_le_one {s : St} (hA : InvA s) (hB : InvB s) : cbStarts s.log ≤ 1 := by
  cases hd : done s with
  | false => have := (hB.nd hd).1; omega
  | true =>
    by_cases hc : s.state = wcClosed
    · exact (hB.cl hc).2
    · have hm := hA.1.dn1 hd hc
      cases hmu : s.mu with
      | none => rw [hmu] at hm; cases hm
      | some h =>
        have ha := (hA.2 h).dn2 hmu hd hc
        have hb := hB.pcs h
        cases hpc : s.pc h <;> rw [hpc] at ha hb <;> simp only [Pc.after] at ha <;> simp only [pcB] at hb <;>
          first | (have := hb.1; omega) | (have := hb.2; omega) | (cases ha)

/-- the state word never leaves `closed` -/
theorem step_closed_stable {s : St} (hA : InvA s) (a : Act) (hc : s.state = wcClosed) : (step s a).state = wcClosed := by
  cases a with
  | invoke t call =>
    simp only [step]; split
    · cases call <;> exact hc
    · exact hc
  | step t =>
    simp only [step]
    have t0 := hA.2 t
    cases hpc : s.pc t <;> simp only [stepT, hpc] <;> (repeat' split) <;> first | exact hc | rfl | skip
    next k =>
      have hf := t0.facts; rw [hpc] at hf; simp only [pcFacts] at hf
      rw [hf.1] at hc; exact absurd hc (by decide)
  | cbEnd t r => simp only [step]; split <;> exact hc
  | timeout t => simp only [step]; split <;> (try split) <;> exact hc
  | tick d => simp only [step]; split <;> exact hc

theorem run_closed_stable {s : St} (hA : InvA s) (acts : List Act) (hc : s.state = wcClosed) :
    (run s acts).state = wcClosed := by
  induction acts generalizing s with
  | nil => exact hc
  | cons a l ih => exact ih (step_invA s a hA) (step_closed_stable hA a hc)

end Got.Model.WaitClose
