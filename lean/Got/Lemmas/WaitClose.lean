import Got.Model.WaitClose
/-
Invariants of the WaitClose LTS (property C16).  Core Lean only.

Layer A (`InvA`): control / mutex / state word / channel facts.
Layer B (`InvB`): facts about the event log.
Layer C (`InvC`): timing facts for WaitUtil.
-/
set_option linter.unusedSimpArgs false
set_option linter.unusedVariables false

namespace Got.Model.WaitClose

/-- after the close/assign, before the deferred store -/
def Pc.after : Pc → Bool
  | .clCbStart | .clCbRun | .clStore _ => true
  | _ => false

def Pc.storeOrAfter : Pc → Bool
  | .iStore _ | .clCbStart | .clCbRun | .clStore _ => true
  | _ => false

def done (s : St) : Bool := s.closeTime.isSome

theorem wcNew_eq : wcNew = 0 := by decide
theorem wcInitialized_eq : wcInitialized = 1 := by decide
theorem wcClosed_eq : wcClosed = 2 := by decide

theorem upd_same {α} (f : Nat → α) (t : Nat) (v : α) : upd f t v t = v := by simp [upd]
theorem upd_other {α} (f : Nat → α) (t u : Nat) (v : α) (h : u ≠ t) : upd f t v u = f u := by simp [upd, h]

/-! ## Layer A -/

/-- obligations of a pc on the shared state -/
def pcFacts (s : St) : Pc → Prop
  | .iMake _ => s.state = wcNew ∧ s.closeChan = none
  | .iStore _ => s.state = wcNew ∧ s.closeChan = some 1
  | .iUnlock _ | .cRead | .wTimer _ => s.closeChan.isSome = true
  | .clClose _ => s.state ≠ wcClosed ∧ done s = false
  | .clCbStart | .clCbRun | .clStore _ => s.state ≠ wcClosed ∧ done s = true
  | .clUnlock _ | .clRet _ => s.state = wcClosed
  | _ => True

/-- facts about one goroutine -/
structure TInv (s : St) (u : Nat) : Prop where
  lock : (s.pc u).holds = true ↔ s.mu = some u
  facts : pcFacts s (s.pc u)
  new2 : s.mu = some u → s.state = wcNew → s.closeChan.isSome = true → (s.pc u).storeOrAfter = true
  dn2 : s.mu = some u → done s = true → s.state ≠ wcClosed → (s.pc u).after = true

structure GInv (s : St) : Prop where
  dom : s.state = wcNew ∨ s.state = wcInitialized ∨ s.state = wcClosed
  fault : s.fault = false
  nn : s.state ≠ wcNew → s.closeChan.isSome = true
  new1 : s.state = wcNew → s.closeChan.isSome = true → s.mu.isSome = true
  ini : s.state = wcInitialized → s.closeChan = some 1
  cl1 : 1 ∈ s.closed → done s = true
  ch0 : s.closeChan = some 0 → done s = true
  dn : done s = true → ∃ c, s.closeChan = some c ∧ c ∈ s.closed
  dn1 : done s = true → s.state ≠ wcClosed → s.mu.isSome = true
  cld : s.state = wcClosed → done s = true
  nch : s.nchan ≤ 1 ∧ (s.nchan = 1 → s.closeChan = some 1)
  cls : ∀ c ∈ s.closed, c = 0 ∨ c = 1
  g0 : 0 ∈ s.closed

def InvA (s : St) : Prop := GInv s ∧ ∀ u, TInv s u

/-- the part of the state Layer A talks about, apart from pc -/
def shared (s : St) : Int × Option Nat × List Nat × Nat × Option Nat × Bool × Option Nat :=
  (s.state, s.closeChan, s.closed, s.nchan, s.mu, s.fault, s.closeTime)

theorem shared_eq {s s' : St} (h : shared s' = shared s) :
    s'.state = s.state ∧ s'.closeChan = s.closeChan ∧ s'.closed = s.closed ∧ s'.nchan = s.nchan ∧
    s'.mu = s.mu ∧ s'.fault = s.fault ∧ s'.closeTime = s.closeTime := by
  simp only [shared, Prod.mk.injEq] at h
  exact h

theorem GInv_congr {s s' : St} (h : shared s' = shared s) (g : GInv s) : GInv s' := by
  obtain ⟨h1, h2, h3, h4, h5, h6, h7⟩ := shared_eq h
  have hd : done s' = done s := by simp [done, h7]
  constructor <;> simp only [h1, h2, h3, h4, h5, h6, hd]
  · exact g.dom
  · exact g.fault
  · exact g.nn
  · exact g.new1
  · exact g.ini
  · exact g.cl1
  · exact g.ch0
  · exact g.dn
  · exact g.dn1
  · exact g.cld
  · exact g.nch
  · exact g.cls
  · exact g.g0

theorem pcFacts_congr {s s' : St} (h : shared s' = shared s) (p : Pc) (f : pcFacts s p) : pcFacts s' p := by
  obtain ⟨h1, h2, h3, h4, h5, h6, h7⟩ := shared_eq h
  have hd : done s' = done s := by simp [done, h7]
  cases p <;> simp only [pcFacts, h1, h2, hd] at f ⊢ <;> exact f

theorem TInv_congr {s s' : St} (h : shared s' = shared s) (u : Nat) (hp : s'.pc u = s.pc u) (t : TInv s u) :
    TInv s' u := by
  obtain ⟨h1, h2, h3, h4, h5, h6, h7⟩ := shared_eq h
  have hd : done s' = done s := by simp [done, h7]
  refine ⟨?_, ?_, ?_, ?_⟩
  · rw [hp, h5]; exact t.lock
  · rw [hp]; exact pcFacts_congr h _ t.facts
  · rw [hp, h5, h1, h2]; exact t.new2
  · rw [hp, h5, h1, hd]; exact t.dn2

/-- a step of `t` that only moves `t` from a pc to another one with the same lock status -/
theorem InvA_pcstep {s s' : St} (t : Nat) (v : Pc) (hs : shared s' = shared s) (hp : s'.pc = upd s.pc t v)
    (h : InvA s) (hl : v.holds = (s.pc t).holds) (hf : pcFacts s v)
    (hn : (s.pc t).storeOrAfter = true → v.storeOrAfter = true)
    (ha : (s.pc t).after = true → v.after = true) : InvA s' := by
  obtain ⟨g, ht⟩ := h
  refine ⟨GInv_congr hs g, ?_⟩
  intro u
  by_cases hu : u = t
  · subst hu
    have t0 := ht u
    obtain ⟨h1, h2, h3, h4, h5, h6, h7⟩ := shared_eq hs
    have hd : done s' = done s := by simp [done, h7]
    have hpu : s'.pc u = v := by rw [hp, upd_same]
    refine ⟨?_, ?_, ?_, ?_⟩
    · rw [hpu, h5, hl]; exact t0.lock
    · rw [hpu]; exact pcFacts_congr hs _ hf
    · rw [hpu, h5, h1, h2]; intro a b c; exact hn (t0.new2 a b c)
    · rw [hpu, h5, h1, hd]; intro a b c; exact ha (t0.dn2 a b c)
  · exact TInv_congr hs u (by rw [hp, upd_other _ _ _ _ hu]) (ht u)

macro "cdec" : tactic => `(tactic| first
  | exact (by decide : ¬ wcInitialized = wcNew) | exact (by decide : ¬ wcInitialized = wcClosed)
  | exact (by decide : ¬ wcClosed = wcNew) | exact (by decide : ¬ wcClosed = wcInitialized)
  | exact (by decide : ¬ wcNew = wcInitialized) | exact (by decide : ¬ wcNew = wcClosed))

theorem TInv_other {s s' : St} (t u : Nat) (hu : u ≠ t) (hp : s'.pc u = s.pc u)
    (hmu : s.mu = some t ∨ s.mu = none) (hmu' : s'.mu = some t ∨ s'.mu = none)
    (hc : s.closeChan.isSome = true → s'.closeChan.isSome = true)
    (hs : s.state = wcClosed → s'.state = wcClosed)
    (tu : TInv s u) : TInv s' u := by
  have hnh : ¬ s.mu = some u := by
    rcases hmu with h | h <;> rw [h] <;> simp <;> exact fun e => hu e.symm
  have hnh' : ¬ s'.mu = some u := by
    rcases hmu' with h | h <;> rw [h] <;> simp <;> exact fun e => hu e.symm
  have hh : (s.pc u).holds = false := by
    cases h : (s.pc u).holds with
    | false => rfl
    | true => exact absurd (tu.lock.mp h) hnh
  refine ⟨?_, ?_, ?_, ?_⟩
  · rw [hp, hh]; simp [hnh']
  · rw [hp]
    have f := tu.facts
    cases hpc : s.pc u <;> simp only [hpc, Pc.holds] at hh f ⊢ <;> simp only [pcFacts] at f ⊢ <;>
      first | trivial | exact hc f | exact hs f | (cases hh)
  · intro a; exact absurd a hnh'
  · intro a; exact absurd a hnh'

/-- Lock acquired (checkInitSlow or Close) -/
theorem InvA_lock {s : St} (t : Nat) (v : Pc) (h : InvA s) (hmu : s.mu = none)
    (hv : v.holds = true) (hf : pcFacts s v) (hn : v.storeOrAfter = false) (ha : v.after = false) :
    InvA { s with mu := some t, pc := upd s.pc t v } := by
  obtain ⟨g, ht⟩ := h
  refine ⟨⟨g.dom, g.fault, g.nn, ?_, g.ini, g.cl1, g.ch0, g.dn, ?_, g.cld, g.nch, g.cls, g.g0⟩, ?_⟩
  · intro _ _; rfl
  · intro _ _; rfl
  · intro u
    by_cases hu : u = t
    · subst hu
      refine ⟨?_, ?_, ?_, ?_⟩
      · simp [upd_same, hv]
      · simp only [upd_same]; cases v <;> simp only [pcFacts] at hf ⊢ <;> exact hf
      · intro _ a b; have := g.new1 a b; rw [hmu] at this; cases this
      · intro _ a b; have := g.dn1 a b; rw [hmu] at this; cases this
    · exact TInv_other t u hu (by simp [upd_other _ _ _ _ hu]) (Or.inr hmu) (Or.inl rfl) id id (ht u)


theorem done_false_of_none {s : St} (g : GInv s) (h : s.closeChan = none) : done s = false := by
  cases hd : done s with
  | false => rfl
  | true => obtain ⟨c, hc, _⟩ := g.dn hd; rw [h] at hc; cases hc

/-- checkInitSlow: `wc.closeChan = make(chan struct{})` -/
theorem InvA_make {s : St} (t : Nat) (k : Cont) (h : InvA s) (hpc : s.pc t = .iMake k) :
    InvA { s with nchan := s.nchan + 1, closeChan := some (s.nchan + 1), pc := upd s.pc t (.iStore k) } := by
  obtain ⟨g, ht⟩ := h
  have t0 := ht t
  have hf := t0.facts; rw [hpc] at hf; simp only [pcFacts] at hf
  have hmu : s.mu = some t := t0.lock.mp (by rw [hpc]; rfl)
  have hdn := done_false_of_none g hf.2
  have hn0 : s.nchan = 0 := by
    have := g.nch
    rcases Nat.lt_or_ge s.nchan 1 with h | h
    · omega
    · have h1 : s.nchan = 1 := by omega
      have := this.2 h1; rw [hf.2] at this; cases this
  have hd' : ∀ x : St, x.closeTime = s.closeTime → done x = false := by
    intro x hx; simp only [done, hx]; exact hdn
  refine ⟨⟨g.dom, g.fault, ?_, ?_, ?_, g.cl1, ?_, ?_, g.dn1, g.cld, ?_, g.cls, g.g0⟩, ?_⟩
  · intro _; rfl
  · intro _ _; show s.mu.isSome = true; rw [hmu]; rfl
  · intro a; have : s.state = wcInitialized := a; rw [hf.1] at this; exact absurd this (by cdec)
  · intro a; have : some (s.nchan + 1) = some 0 := a; simp at this
  · intro a; have : done s = true := a; rw [hdn] at this; cases this
  · show s.nchan + 1 ≤ 1 ∧ (s.nchan + 1 = 1 → some (s.nchan + 1) = some 1)
    rw [hn0]; simp
  · intro u
    by_cases hu : u = t
    · subst hu
      refine ⟨?_, ?_, ?_, ?_⟩
      · simp [upd_same, Pc.holds, hmu]
      · simp only [upd_same, pcFacts]; exact ⟨hf.1, by rw [hn0]⟩
      · intro _ _ _; simp [upd_same, Pc.storeOrAfter]
      · intro _ a; have : done s = true := a; rw [hdn] at this; cases this
    · exact TInv_other t u hu (by simp [upd_other _ _ _ _ hu]) (Or.inl hmu) (Or.inl hmu) (fun _ => rfl) id (ht u)

/-- checkInitSlow: `atomic.StoreInt32(&wc.state, wcInitialized)` -/
theorem InvA_istore {s : St} (t : Nat) (k : Cont) (h : InvA s) (hpc : s.pc t = .iStore k) :
    InvA { s with state := wcInitialized, pc := upd s.pc t (.iUnlock k) } := by
  obtain ⟨g, ht⟩ := h
  have t0 := ht t
  have hf := t0.facts; rw [hpc] at hf; simp only [pcFacts] at hf
  have hmu : s.mu = some t := t0.lock.mp (by rw [hpc]; rfl)
  have hdn : done s = false := by
    cases hd : done s with
    | false => rfl
    | true =>
      have := t0.dn2 hmu hd (by rw [hf.1]; decide)
      rw [hpc] at this; cases this
  refine ⟨⟨Or.inr (Or.inl rfl), g.fault, ?_, ?_, ?_, g.cl1, g.ch0, g.dn, ?_, ?_, g.nch, g.cls, g.g0⟩, ?_⟩
  · intro _; show s.closeChan.isSome = true; rw [hf.2]; rfl
  · intro a; exact absurd a (by cdec)
  · intro _; exact hf.2
  · intro _ _; show s.mu.isSome = true; rw [hmu]; rfl
  · intro a; exact absurd a (by cdec)
  · intro u
    by_cases hu : u = t
    · subst hu
      refine ⟨?_, ?_, ?_, ?_⟩
      · simp [upd_same, Pc.holds, hmu]
      · simp only [upd_same, pcFacts]; rw [hf.2]; rfl
      · intro _ a; exact absurd a (by cdec)
      · intro _ a; have : done s = true := a; rw [hdn] at this; cases this
    · exact TInv_other t u hu (by simp [upd_other _ _ _ _ hu]) (Or.inl hmu) (Or.inl hmu) id
        (fun a => by rw [hf.1] at a; exact absurd a (by cdec)) (ht u)

/-- Unlock (checkInitSlow or Close's deferred function) -/
theorem InvA_unlock {s : St} (t : Nat) (v : Pc) (h : InvA s) (hh : (s.pc t).holds = true)
    (hn : (s.pc t).storeOrAfter = false) (ha : (s.pc t).after = false)
    (hv : v.holds = false) (hf : pcFacts s v) :
    InvA { s with mu := none, pc := upd s.pc t v } := by
  obtain ⟨g, ht⟩ := h
  have t0 := ht t
  have hmu : s.mu = some t := t0.lock.mp hh
  refine ⟨⟨g.dom, g.fault, g.nn, ?_, g.ini, g.cl1, g.ch0, g.dn, ?_, g.cld, g.nch, g.cls, g.g0⟩, ?_⟩
  · intro a b; have := t0.new2 hmu a b; rw [hn] at this; cases this
  · intro a b; have := t0.dn2 hmu a b; rw [ha] at this; cases this
  · intro u
    by_cases hu : u = t
    · subst hu
      refine ⟨?_, ?_, ?_, ?_⟩
      · simp [upd_same, hv]
      · simp only [upd_same]; cases v <;> simp only [pcFacts] at hf ⊢ <;> exact hf
      · intro a; cases a
      · intro a; cases a
    · exact TInv_other t u hu (by simp [upd_other _ _ _ _ hu]) (Or.inl hmu) (Or.inr rfl) id id (ht u)

/-- Close: the deferred `atomic.StoreInt32(&wc.state, wcClosed)` -/
theorem InvA_clstore {s : St} (t : Nat) (r : Option CbRes) (h : InvA s) (hpc : s.pc t = .clStore r) :
    InvA { s with state := wcClosed, pc := upd s.pc t (.clUnlock r) } := by
  obtain ⟨g, ht⟩ := h
  have t0 := ht t
  have hf := t0.facts; rw [hpc] at hf; simp only [pcFacts] at hf
  have hmu : s.mu = some t := t0.lock.mp (by rw [hpc]; rfl)
  refine ⟨⟨Or.inr (Or.inr rfl), g.fault, ?_, ?_, ?_, g.cl1, g.ch0, g.dn, ?_, ?_, g.nch, g.cls, g.g0⟩, ?_⟩
  · intro _; obtain ⟨c, hc, _⟩ := g.dn hf.2; show s.closeChan.isSome = true; rw [hc]; rfl
  · intro a; exact absurd a (by cdec)
  · intro a; exact absurd a (by cdec)
  · intro _ a; exact absurd rfl a
  · intro _; exact hf.2
  · intro u
    by_cases hu : u = t
    · subst hu
      refine ⟨?_, ?_, ?_, ?_⟩
      · simp [upd_same, Pc.holds, hmu]
      · simp only [upd_same, pcFacts]
      · intro _ a; exact absurd a (by cdec)
      · intro _ _ a; exact absurd rfl a
    · exact TInv_other t u hu (by simp [upd_other _ _ _ _ hu]) (Or.inl hmu) (Or.inl hmu) id (fun _ => rfl) (ht u)

/-- Close: `close(wc.closeChan)` (state initialised) -/
theorem InvA_close_init {s : St} (t : Nat) (cb : Bool) (ev : List Ev) (v : Pc) (h : InvA s)
    (hpc : s.pc t = .clClose cb) (hst : s.state = wcInitialized)
    (hv : v = .clCbStart ∨ v = .clStore none) :
    s.closeChan = some 1 ∧ s.closed.contains 1 = false ∧
    InvA { s with closed := 1 :: s.closed, log := ev, closeTime := some s.now, pc := upd s.pc t v } := by
  obtain ⟨g, ht⟩ := h
  have t0 := ht t
  have hf := t0.facts; rw [hpc] at hf; simp only [pcFacts] at hf
  have hmu : s.mu = some t := t0.lock.mp (by rw [hpc]; rfl)
  have hch := g.ini hst
  have hnc : s.closed.contains 1 = false := by
    cases hc : s.closed.contains 1 with
    | false => rfl
    | true =>
      have := g.cl1 (by simpa using hc)
      rw [hf.2] at this; cases this
  refine ⟨hch, hnc, ⟨g.dom, g.fault, g.nn, ?_, g.ini, ?_, ?_, ?_, ?_, ?_, g.nch, ?_, ?_⟩, ?_⟩
  · intro a; have : s.state = wcNew := a; rw [hst] at this; exact absurd this (by cdec)
  · intro _; rfl
  · intro _; rfl
  · intro _; exact ⟨1, hch, by simp⟩
  · intro _ _; show s.mu.isSome = true; rw [hmu]; rfl
  · intro _; rfl
  · intro c hc
    rcases List.mem_cons.mp hc with rfl | hc
    · exact Or.inr rfl
    · exact g.cls c hc
  · exact List.mem_cons_of_mem _ g.g0
  · intro u
    by_cases hu : u = t
    · subst hu
      refine ⟨?_, ?_, ?_, ?_⟩
      · rcases hv with rfl | rfl <;> simp [upd_same, Pc.holds, hmu]
      · rcases hv with rfl | rfl <;> simp only [upd_same, pcFacts] <;> exact ⟨hf.1, rfl⟩
      · intro _ a; have : s.state = wcNew := a; rw [hst] at this; exact absurd this (by cdec)
      · intro _ _ _; rcases hv with rfl | rfl <;> simp [upd_same, Pc.after]
    · exact TInv_other t u hu (by simp [upd_other _ _ _ _ hu]) (Or.inl hmu) (Or.inl hmu) id id (ht u)

/-- Close: `wc.closeChan = globalClosedChan` (state new) -/
theorem InvA_close_new {s : St} (t : Nat) (cb : Bool) (ev : List Ev) (v : Pc) (h : InvA s)
    (hpc : s.pc t = .clClose cb) (hst : s.state ≠ wcInitialized)
    (hv : v = .clCbStart ∨ v = .clStore none) :
    InvA { s with closeChan := some globalChan, log := ev, closeTime := some s.now, pc := upd s.pc t v } := by
  obtain ⟨g, ht⟩ := h
  have t0 := ht t
  have hf := t0.facts; rw [hpc] at hf; simp only [pcFacts] at hf
  have hmu : s.mu = some t := t0.lock.mp (by rw [hpc]; rfl)
  have hnew : s.state = wcNew := by
    rcases g.dom with h | h | h
    · exact h
    · exact absurd h hst
    · exact absurd h hf.1
  have hcn : s.closeChan = none := by
    cases hc : s.closeChan with
    | none => rfl
    | some c =>
      have := t0.new2 hmu hnew (by rw [hc]; rfl)
      rw [hpc] at this; cases this
  refine ⟨⟨g.dom, g.fault, ?_, ?_, ?_, ?_, ?_, ?_, ?_, ?_, ?_, g.cls, g.g0⟩, ?_⟩
  · intro _; rfl
  · intro _ _; show s.mu.isSome = true; rw [hmu]; rfl
  · intro a; exact absurd a hst
  · intro _; rfl
  · intro _; rfl
  · intro _; exact ⟨0, rfl, g.g0⟩
  · intro _ _; show s.mu.isSome = true; rw [hmu]; rfl
  · intro _; rfl
  · refine ⟨g.nch.1, ?_⟩
    intro a; have := g.nch.2 a; rw [hcn] at this; cases this
  · intro u
    by_cases hu : u = t
    · subst hu
      refine ⟨?_, ?_, ?_, ?_⟩
      · rcases hv with rfl | rfl <;> simp [upd_same, Pc.holds, hmu]
      · rcases hv with rfl | rfl <;> simp only [upd_same, pcFacts] <;> exact ⟨hf.1, rfl⟩
      · intro _ _ _; rcases hv with rfl | rfl <;> simp [upd_same, Pc.storeOrAfter]
      · intro _ _ _; rcases hv with rfl | rfl <;> simp [upd_same, Pc.after]
    · exact TInv_other t u hu (by simp [upd_other _ _ _ _ hu]) (Or.inl hmu) (Or.inl hmu) (fun _ => rfl) id (ht u)


theorem InvA_congr {s s' : St} (hs : shared s' = shared s) (hp : s'.pc = s.pc) (h : InvA s) : InvA s' :=
  ⟨GInv_congr hs h.1, fun u => TInv_congr hs u (by rw [hp]) (h.2 u)⟩

theorem closed_of_not_ne {s : St} (hc : ¬ s.state ≠ wcClosed) : s.state = wcClosed := by simpa using hc

theorem stepT_invA (s : St) (t : Nat) (h : InvA s) : InvA (stepT s t) := by
  have g := h.1
  have t0 := h.2 t
  unfold stepT
  split
  · exact h
  · next k hpc =>   -- load0
    split
    · exact InvA_pcstep (s := s) t (.iLock k) rfl rfl h (by rw [hpc]; rfl) trivial (by rw [hpc]; intro x; cases x) (by rw [hpc]; intro x; cases x)
    · next hne =>
      refine InvA_pcstep (s := s) t k.after rfl rfl h (by rw [hpc]; cases k <;> rfl) ?_ (by rw [hpc]; intro x; cases x) (by rw [hpc]; intro x; cases x)
      cases k <;> exact g.nn hne
  · next k hpc =>   -- iLock
    split
    · next hmu => exact InvA_lock t (.iCheck k) h hmu rfl trivial rfl rfl
    · exact h
  · next k hpc =>   -- iCheck
    have hmu : s.mu = some t := t0.lock.mp (by rw [hpc]; rfl)
    split
    · next hnew =>
      refine InvA_pcstep (s := s) t (.iMake k) rfl rfl h (by rw [hpc]; rfl) ?_ (by rw [hpc]; intro x; cases x) (by rw [hpc]; intro x; cases x)
      refine ⟨hnew, ?_⟩
      cases hc : s.closeChan with
      | none => rfl
      | some c => have := t0.new2 hmu hnew (by rw [hc]; rfl); rw [hpc] at this; cases this
    · next hne =>
      exact InvA_pcstep (s := s) t (.iUnlock k) rfl rfl h (by rw [hpc]; rfl) (g.nn hne) (by rw [hpc]; intro x; cases x) (by rw [hpc]; intro x; cases x)
  · next k hpc => exact InvA_make t k h hpc
  · next k hpc => exact InvA_istore t k h hpc
  · next k hpc =>   -- iUnlock
    have hf := t0.facts; rw [hpc] at hf
    exact InvA_unlock t k.after h (by rw [hpc]; rfl) (by rw [hpc]; rfl) (by rw [hpc]; rfl) (by cases k <;> rfl)
      (by cases k <;> exact hf)
  · next hpc =>   -- cRead
    exact InvA_pcstep (s := s) t .idle rfl rfl h (by rw [hpc]; rfl) trivial (by rw [hpc]; intro x; cases x) (by rw [hpc]; intro x; cases x)
  · next T hpc =>   -- wTimer
    exact InvA_pcstep (s := s) t (.wSel s.closeChan s.now T) rfl rfl h (by rw [hpc]; rfl) trivial (by rw [hpc]; intro x; cases x) (by rw [hpc]; intro x; cases x)
  · next ch st T hpc =>   -- wSel
    split
    · exact InvA_pcstep (s := s) t .idle rfl rfl h (by rw [hpc]; rfl) trivial (by rw [hpc]; intro x; cases x) (by rw [hpc]; intro x; cases x)
    · exact h
  · next hpc =>   -- isc
    exact InvA_pcstep (s := s) t .idle rfl rfl h (by rw [hpc]; rfl) trivial (by rw [hpc]; intro x; cases x) (by rw [hpc]; intro x; cases x)
  · next cb hpc =>   -- clLoad
    split
    · exact InvA_pcstep (s := s) t (.clLock cb) rfl rfl h (by rw [hpc]; rfl) trivial (by rw [hpc]; intro x; cases x) (by rw [hpc]; intro x; cases x)
    · next hc =>
      exact InvA_pcstep (s := s) t (.clRet none) rfl rfl h (by rw [hpc]; rfl) (closed_of_not_ne hc) (by rw [hpc]; intro x; cases x) (by rw [hpc]; intro x; cases x)
  · next cb hpc =>   -- clLock
    split
    · next hmu => exact InvA_lock t (.clCheck cb) h hmu rfl trivial rfl rfl
    · exact h
  · next cb hpc =>   -- clCheck
    have hmu : s.mu = some t := t0.lock.mp (by rw [hpc]; rfl)
    split
    · next hne =>
      refine InvA_pcstep (s := s) t (.clClose cb) rfl rfl h (by rw [hpc]; rfl) ?_ (by rw [hpc]; intro x; cases x) (by rw [hpc]; intro x; cases x)
      refine ⟨hne, ?_⟩
      cases hd : done s with
      | false => rfl
      | true => have := t0.dn2 hmu hd hne; rw [hpc] at this; cases this
    · next hc =>
      exact InvA_pcstep (s := s) t (.clUnlock none) rfl rfl h (by rw [hpc]; rfl) (closed_of_not_ne hc) (by rw [hpc]; intro x; cases x) (by rw [hpc]; intro x; cases x)
  · next cb hpc =>   -- clClose
    have hv : (if cb = true then Pc.clCbStart else Pc.clStore none) = .clCbStart ∨
              (if cb = true then Pc.clCbStart else Pc.clStore none) = .clStore none := by
      cases cb <;> simp
    by_cases hst : s.state = wcInitialized
    · obtain ⟨hch, hnc, hI⟩ := InvA_close_init t cb (s.log ++ [.closeDo t 1 s.now]) _ h hpc hst hv
      simp only [hst, hch, hnc, ↓reduceIte, Bool.false_eq_true]
      simp only [hst, hch] at hI
      exact hI
    · simp only [hst, ↓reduceIte]
      exact InvA_close_new t cb _ _ h hpc hst hv
  · next hpc =>   -- clCbStart
    have hf := t0.facts; rw [hpc] at hf
    exact InvA_pcstep (s := s) t .clCbRun rfl rfl h (by rw [hpc]; rfl) hf (fun _ => rfl) (fun _ => rfl)
  · exact h
  · next r hpc => exact InvA_clstore t r h hpc
  · next r hpc =>   -- clUnlock
    have hf := t0.facts; rw [hpc] at hf
    exact InvA_unlock t (.clRet r) h (by rw [hpc]; rfl) (by rw [hpc]; rfl) (by rw [hpc]; rfl) rfl hf
  · next r hpc =>   -- clRet
    exact InvA_pcstep (s := s) t .idle rfl rfl h (by rw [hpc]; rfl) trivial (by rw [hpc]; intro x; cases x) (by rw [hpc]; intro x; cases x)

theorem step_invA (s : St) (a : Act) (h : InvA s) : InvA (step s a) := by
  cases a with
  | invoke t call =>
    simp only [step]
    split
    · next hpc =>
      cases call <;>
        exact InvA_pcstep (s := s) t _ rfl rfl h (by rw [hpc]; rfl) trivial (by rw [hpc]; intro x; cases x) (by rw [hpc]; intro x; cases x)
    · exact h
  | step t => exact stepT_invA s t h
  | cbEnd t r =>
    simp only [step]
    split
    · next hpc =>
      have hf := (h.2 t).facts; rw [hpc] at hf
      exact InvA_pcstep (s := s) t (.clStore (some r)) rfl rfl h (by rw [hpc]; rfl) hf (fun _ => rfl) (fun _ => rfl)
    · exact h
  | timeout t =>
    simp only [step]
    split
    · next ch st T hpc =>
      split
      · exact InvA_pcstep (s := s) t .idle rfl rfl h (by rw [hpc]; rfl) trivial (by rw [hpc]; intro x; cases x) (by rw [hpc]; intro x; cases x)
      · exact h
    · exact h
  | tick d =>
    simp only [step]
    split
    · exact InvA_congr (s := s) rfl rfl h
    · exact h

theorem init_invA : InvA init := by
  refine ⟨⟨Or.inl rfl, rfl, ?_, ?_, ?_, ?_, ?_, ?_, ?_, ?_, ?_, ?_, ?_⟩, ?_⟩
  · intro a; exact absurd rfl a
  · intro _ a; cases a
  · intro a; exact absurd a (by decide)
  · intro a; simp [init, globalChan] at a
  · intro a; cases a
  · intro a; cases a
  · intro a; cases a
  · intro a; exact absurd a (by decide)
  · exact ⟨Nat.zero_le _, fun a => by cases a⟩
  · intro c hc; simp [init, globalChan] at hc; exact Or.inl hc
  · simp [init, globalChan]
  · intro u
    exact ⟨by simp [init, Pc.holds], trivial, (fun a => by cases a), (fun a => by cases a)⟩

theorem run_invA (s : St) (acts : List Act) (h : InvA s) : InvA (run s acts) := by
  induction acts generalizing s with
  | nil => exact h
  | cons a l ih => exact ih _ (step_invA s a h)

end Got.Model.WaitClose
